(* Theorems about the Gallina translation of View.ToBytes in types.go and ID.ToBytes in hotstuff.go (regenerated from the checked tree on
   every run): the bytes a view contributes to every signed and hashed message (timeout and view signatures,
   QuorumCert.ToBytes, Block.ToBytes, TimeoutMsg.ToBytes). *)
From Coq Require Import String ZArith NArith List Lia ZifyN.
From HS Require Import Base.GoSem Base.GoSemProofs Wire.WireModel Wire.WireProofs.
From HSGen Require Import Code.
Import ListNotations.
Open Scope Z_scope.

Lemma le_bytes_z_model n : forall u : N, le_bytes_z n (Z.of_N u) = map Z.of_N (le_bytes n u).
Proof.
  induction n as [|n IH]; intro u; cbn [le_bytes_z le_bytes map]; [reflexivity|].
  f_equal.
  - now rewrite N2Z.inj_mod.
  - rewrite <- IH. f_equal. now rewrite N2Z.inj_div.
Qed.

Lemma map_of_N_inj : forall a b : list N, map Z.of_N a = map Z.of_N b -> a = b.
Proof.
  induction a as [|x a IH]; intros [|y b] H; cbn in H; try discriminate; [reflexivity|].
  injection H as Hx Hr. apply N2Z.inj in Hx. subst. f_equal. now apply IH.
Qed.

(* The code's View.ToBytes, as translated from the checked tree, is the wire model's le64 (the encoding used
   by qc_bytes, tc signing bytes, timeout bytes and block bytes in Wire/WireModel.v) for every view a uint64
   can hold; it never panics. *)
Theorem C12_gen_View_ToBytes_is_model :
  forall v, 0 <= v < 18446744073709551616 ->
    View_ToBytes v = Val (map Z.of_N (le64 (Z.to_N v))).
Proof.
  intros v Hv. unfold View_ToBytes. cbn [bind]. unfold go_conv. rewrite wrap_U64 by exact Hv. cbn [bind].
  unfold go_put_le64, go_zero_array.
  change (Z.of_nat (length (repeat 0 (Z.to_nat 8))) <? 8) with false. cbv iota.
  change (skipn 8 (repeat 0 (Z.to_nat 8))) with (@nil Z). rewrite app_nil_r.
  unfold le64. rewrite <- le_bytes_z_model. rewrite Z2N.id by lia. reflexivity.
Qed.
Print Assumptions C12_gen_View_ToBytes_is_model.

(* Eight bytes, each below 256. *)
Theorem C12_gen_View_ToBytes_shape :
  forall v, 0 <= v < 18446744073709551616 ->
    exists bs, View_ToBytes v = Val bs /\ length bs = 8%nat /\ Forall (fun b => 0 <= b < 256) bs.
Proof.
  intros v Hv. rewrite C12_gen_View_ToBytes_is_model by exact Hv. eexists. split; [reflexivity|]. split.
  - rewrite map_length. unfold le64. apply le_bytes_length.
  - unfold le64. generalize (Z.to_N v) as u. generalize 8%nat as n.
    induction n as [|n IH]; intro u; cbn [le_bytes map]; constructor; [|apply IH].
    pose proof (N.mod_upper_bound u 256). lia.
Qed.
Print Assumptions C12_gen_View_ToBytes_shape.

(* Two different views never contribute the same bytes: what is signed for one view cannot be replayed as a
   statement about another (for every pair of views, not a sample). A change that truncates the view — to
   32 bits, say — or drops a byte breaks this theorem or the one above. *)
Theorem C12_gen_View_ToBytes_injective :
  forall v w, 0 <= v < 18446744073709551616 -> 0 <= w < 18446744073709551616 ->
    View_ToBytes v = View_ToBytes w -> v = w.
Proof.
  intros v w Hv Hw H. rewrite !C12_gen_View_ToBytes_is_model in H by assumption.
  assert (H' : map Z.of_N (le64 (Z.to_N v)) = map Z.of_N (le64 (Z.to_N w))).
  { revert H. generalize (map Z.of_N (le64 (Z.to_N v))), (map Z.of_N (le64 (Z.to_N w))).
    intros a b E. now injection E. }
  clear H. rename H' into H. apply map_of_N_inj in H. apply le64_inj in H.
  - apply Z2N.inj in H; lia.
  - change (2 ^ 64)%N with (Z.to_N 18446744073709551616). apply Z2N.inj_lt; lia.
  - change (2 ^ 64)%N with (Z.to_N 18446744073709551616). apply Z2N.inj_lt; lia.
Qed.
Print Assumptions C12_gen_View_ToBytes_injective.

(* The code's ID.ToBytes (hotstuff.go): the four bytes a replica id contributes to TimeoutMsg.ToBytes and to
   the signer lists inside certificate bytes — the wire model's le32, for every id a uint32 can hold. *)
Theorem C12_gen_ID_ToBytes_is_model :
  forall i, 0 <= i < 4294967296 ->
    ID_ToBytes i = Val (map Z.of_N (le32 (Z.to_N i))).
Proof.
  intros i Hi. unfold ID_ToBytes. cbn [bind]. unfold go_conv. rewrite wrap_U32 by exact Hi. cbn [bind].
  unfold go_put_le32, go_zero_array.
  change (Z.of_nat (length (repeat 0 (Z.to_nat 4))) <? 4) with false. cbv iota.
  change (skipn 4 (repeat 0 (Z.to_nat 4))) with (@nil Z). rewrite app_nil_r.
  unfold le32. rewrite <- le_bytes_z_model. rewrite Z2N.id by lia. reflexivity.
Qed.
Print Assumptions C12_gen_ID_ToBytes_is_model.

Theorem C12_gen_ID_ToBytes_injective :
  forall i j, 0 <= i < 4294967296 -> 0 <= j < 4294967296 ->
    ID_ToBytes i = ID_ToBytes j -> i = j.
Proof.
  intros v w Hv Hw H. rewrite !C12_gen_ID_ToBytes_is_model in H by assumption.
  assert (H' : map Z.of_N (le32 (Z.to_N v)) = map Z.of_N (le32 (Z.to_N w))).
  { revert H. generalize (map Z.of_N (le32 (Z.to_N v))), (map Z.of_N (le32 (Z.to_N w))).
    intros a b E. now injection E. }
  clear H. rename H' into H. apply map_of_N_inj in H. apply le32_inj in H.
  - apply Z2N.inj in H; lia.
  - change (2 ^ 32)%N with (Z.to_N 4294967296). apply Z2N.inj_lt; lia.
  - change (2 ^ 32)%N with (Z.to_N 4294967296). apply Z2N.inj_lt; lia.
Qed.
Print Assumptions C12_gen_ID_ToBytes_injective.

(* non-vacuity: a concrete view above 2^32 *)
Example C12_gen_View_ToBytes_example :
  View_ToBytes 4294967298 = Val [2; 0; 0; 0; 1; 0; 0; 0].
Proof. vm_compute. reflexivity. Qed.
Example C12_gen_ID_ToBytes_example : ID_ToBytes 65537 = Val [1; 0; 1; 0].
Proof. vm_compute. reflexivity. Qed.

(* Theorems about the Gallina translation of security/crypto/bitfield.go: index / id, and the Bitfield methods
   isSet / set / extend / Add / Contains / Len / Bytes (second half of the file). *)
From Coq Require Import ZArith NArith Lia String.
From HS Require Import Base.GoSem Base.GoSemProofs IDSet.BitfieldModel.
From HSGen Require Import Code.
Open Scope Z_scope.
Ltac Zify.zify_post_hook ::= Z.div_mod_to_equations.

(* index, as translated from the checked tree, computes the hand-written model's byte and bit positions for every
   replica id 1..2^32-1 ... *)
Theorem C19_gen_index_is_model :
  forall i : N, (1 <= i < 4294967296)%N ->
  index (Z.of_N i) = Val (Z.of_N (byte_idx_n i), Z.of_N (bit_idx i)).
Proof.
  intros i Hi. unfold index, go_conv, go_sub, go_quo, go_rem, byte_idx_n, bit_idx. cbn [bind Z.eqb].
  rewrite (wrap_I64 (Z.of_N i)) by lia.
  rewrite (wrap_I64 (Z.of_N i - 1)) by lia.
  rewrite Z.quot_div_nonneg, Z.rem_mod_nonneg by lia.
  rewrite !wrap_I64 by lia.
  rewrite N2Z.inj_div, N2Z.inj_mod, N2Z.inj_sub by lia. reflexivity.
Qed.
Print Assumptions C19_gen_index_is_model.

(* ... and for id 0 it yields the bit position -1, the negative shift count behind the Contains(0)/Add(0) panics:
   the guard `if id == 0` in Contains (fix fd14b99) is what keeps callers away from it. *)
Theorem C19_gen_index_of_zero_is_negative : index 0 = Val (0, -1).
Proof. vm_compute. reflexivity. Qed.
Print Assumptions C19_gen_index_of_zero_is_negative.

(* id inverts index on the whole id range, and index inverts id on every position a byte slice can hold:
   iteration (RangeWhile) reports exactly the ids that Add stored. *)
Theorem C19_gen_id_inverts_index :
  forall i : N, (1 <= i < 4294967296)%N ->
  exists b k, index (Z.of_N i) = Val (b, k) /\ 0 <= b /\ 0 <= k < 8 /\ id_ b k = Val (Z.of_N i).
Proof.
  intros i Hi. rewrite C19_gen_index_is_model by assumption.
  eexists _, _. split; [reflexivity|].
  unfold byte_idx_n, bit_idx. rewrite N2Z.inj_div, N2Z.inj_mod, N2Z.inj_sub by lia.
  change (Z.of_N 8) with 8. change (Z.of_N 1) with 1.
  split; [lia|]. split; [lia|].
  unfold id_, go_mul, go_add, go_conv. cbn [bind].
  rewrite (wrap_I64 ((Z.of_N i - 1) / 8 * 8)) by lia.
  rewrite (wrap_I64 (1 + (Z.of_N i - 1) / 8 * 8)) by lia.
  rewrite (wrap_I64 (1 + (Z.of_N i - 1) / 8 * 8 + (Z.of_N i - 1) mod 8)) by lia.
  rewrite wrap_U32 by lia. f_equal. lia.
Qed.
Print Assumptions C19_gen_id_inverts_index.

Theorem C19_gen_index_inverts_id :
  forall b k, 0 <= b < 536870911 -> 0 <= k < 8 ->
  exists i, id_ b k = Val i /\ 1 <= i < 4294967296 /\ index i = Val (b, k) /\ i = Z.of_N (id_of (Z.to_nat b) (Z.to_N k)).
Proof.
  intros b k Hb Hk. unfold id_, go_mul, go_add, go_conv. cbn [bind].
  rewrite (wrap_I64 (b * 8)) by lia.
  rewrite (wrap_I64 (1 + b * 8)) by lia.
  rewrite (wrap_I64 (1 + b * 8 + k)) by lia.
  rewrite wrap_U32 by lia.
  eexists. split; [reflexivity|]. split; [lia|]. split.
  - unfold index, go_conv, go_sub, go_quo, go_rem. cbn [bind Z.eqb].
    rewrite (wrap_I64 (1 + b * 8 + k)) by lia.
    rewrite (wrap_I64 (1 + b * 8 + k - 1)) by lia.
    rewrite Z.quot_div_nonneg, Z.rem_mod_nonneg by lia.
    rewrite !wrap_I64 by lia. f_equal. f_equal; lia.
  - unfold id_of. rewrite N2Z.inj_add, N2Z.inj_add, N2Z.inj_mul, nat_N_Z. rewrite !Z2Nat.id, Z2N.id by lia. reflexivity.
Qed.
Print Assumptions C19_gen_index_inverts_id.

Example C19_gen_runs : (index 1, index 8, index 9, index 300, id_ 37 3) = (Val (0, 0), Val (0, 7), Val (1, 0), Val (37, 3), Val 300).
Proof. vm_compute. reflexivity. Qed.

(* ================================================================================================================ *)
(* The Bitfield methods isSet / set / extend / Add / Contains / Len / Bytes as translated from the checked tree.
   Representation: the translated state is (data : list Z, len : Z); a model bitfield (bytes as N, cached
   cardinality as nat) is encoded by [enc]. Every translated method returns the state followed by its results. *)
From Coq Require Import List Bool ZifyBool ZifyNat ZifyN.
From HS Require Import Base.Prelude IDSet.BitfieldProofs.
Import ListNotations.
Open Scope Z_scope.

Definition dz (d : list N) : list Z := map Z.of_N d.
Definition enc (bf : bitfield) : list Z * Z := (dz (bf_data bf), Z.of_nat (bf_len bf)).

Lemma dz_length d : length (dz d) = length d.
Proof. apply map_length. Qed.

Lemma dz_nth d b : nth b (dz d) 0 = Z.of_N (nth b d 0%N).
Proof. unfold dz. change 0 with (Z.of_N 0). apply map_nth. Qed.

Lemma dz_upd d b f y : (b < length d)%nat -> y = f (nth b d 0%N) ->
  GoSem.upd_nth (dz d) b (Z.of_N y) = dz (BitfieldModel.upd_nth d b f).
Proof.
  intros H ->. revert b H. induction d as [|a r IH]; intros b H; cbn [length] in H; [lia|].
  destruct b as [|b]; cbn [dz map GoSem.upd_nth BitfieldModel.upd_nth nth]; [reflexivity|].
  f_equal. apply IH. lia.
Qed.

Lemma dz_extend d n : dz d ++ repeat 0 n = dz (extend d n).
Proof.
  unfold extend, dz. rewrite map_app. f_equal.
  induction n as [|n IH]; cbn [repeat map]; [reflexivity | now rewrite IH].
Qed.

Lemma bytes_ok_nth d b : bytes_ok d -> (nth b d 0 < 256)%N.
Proof.
  intros H. destruct (Nat.lt_ge_cases b (length d)) as [L|L].
  - unfold bytes_ok in H. rewrite Forall_forall in H. apply H, nth_In, L.
  - rewrite nth_overflow by assumption. lia.
Qed.

Lemma bytes_ok_extend d n : bytes_ok d -> bytes_ok (extend d n).
Proof.
  intros H. unfold bytes_ok, extend. apply Forall_app. split; [assumption|].
  apply Forall_forall. intros x Hx. apply repeat_spec in Hx. subst x. lia.
Qed.

(* the two byte-level facts, by a sweep over the 256 byte values and the 8 bit positions *)
Definition bytes256 : list N := map N.of_nat (seq 0 256).
Lemma in_bytes256 x : (x < 256)%N -> In x bytes256.
Proof. intros H. apply in_map_iff. exists (N.to_nat x). split; [lia|]. apply in_seq. lia. Qed.

Definition sweep (P : N -> N -> bool) : bool := forallb (fun x => forallb (P x) bits8) bytes256.
Lemma sweep_all P : sweep P = true -> forall x k, (x < 256)%N -> (k < 8)%N -> P x k = true.
Proof.
  intros H x k Hx Hk. unfold sweep in H. rewrite forallb_forall in H.
  specialize (H x (in_bytes256 x Hx)). rewrite forallb_forall in H. apply H, In_bits8, Hk.
Qed.

Lemma byte_test_bit x k : (x < 256)%N -> (k < 8)%N ->
  negb (wrap U8 (Z.land (Z.of_N x) (wrap U8 (Z.shiftl 1 (Z.of_N k)))) =? 0) = N.testbit x k.
Proof.
  intros Hx Hk. apply eqb_prop.
  apply (sweep_all (fun x k => Bool.eqb (negb (wrap U8 (Z.land (Z.of_N x) (wrap U8 (Z.shiftl 1 (Z.of_N k)))) =? 0)) (N.testbit x k)));
    [vm_compute; reflexivity | assumption | assumption].
Qed.

Lemma byte_set_bit x k : (x < 256)%N -> (k < 8)%N ->
  wrap U8 (Z.lor (Z.of_N x) (wrap U8 (Z.shiftl 1 (Z.of_N k)))) = Z.of_N (N.lor x (N.shiftl 1 k)).
Proof.
  intros Hx Hk. apply Z.eqb_eq.
  apply (sweep_all (fun x k => wrap U8 (Z.lor (Z.of_N x) (wrap U8 (Z.shiftl 1 (Z.of_N k)))) =? Z.of_N (N.lor x (N.shiftl 1 k))));
    [vm_compute; reflexivity | assumption | assumption].
Qed.

(* isSet: for every byte string, every position inside it and every bit index >= 0 (from 8 on, the byte-typed
   1 << bitIdx is 0 in Go and the model's N.testbit of a byte is false) ... *)
Theorem C19_gen_isSet_is_model :
  forall (d : list N) (l : Z) (b : nat) (k : N), bytes_ok d -> (b < length d)%nat ->
  Bitfield_isSet (dz d) l (Z.of_nat b) (Z.of_N k) = Val (dz d, l, is_set d b k).
Proof.
  intros d l b k Hd Hb. unfold Bitfield_isSet. cbn [bind].
  rewrite go_index_z_in by (rewrite dz_length; lia). cbn [bind]. rewrite Nat2Z.id, dz_nth.
  rewrite go_shl_general by lia. unfold go_and, go_ne. cbn [bind].
  do 2 f_equal. unfold is_set. pose proof (bytes_ok_nth d b Hd) as Hx.
  destruct (N.lt_ge_cases k 8) as [Hk|Hk].
  - apply byte_test_bit; assumption.
  - rewrite wrap_shiftl_high by (simpl; lia). rewrite Z.land_0_r. change (wrap U8 0) with 0. cbn [Z.eqb negb].
    symmetry. rewrite <- (N.mod_small (nth b d 0%N) (2 ^ 8)) by (change (2 ^ 8)%N with 256%N; assumption).
    apply N.mod_pow2_bits_high. assumption.
Qed.
Print Assumptions C19_gen_isSet_is_model.

(* ... and it panics exactly outside that domain: byte index out of range, or a negative shift count. *)
Theorem C19_gen_isSet_panics_outside :
  forall (d : list Z) (l b k : Z), ~ 0 <= b < Z.of_nat (length d) \/ k < 0 ->
  exists why, Bitfield_isSet d l b k = GoSem.Panic why.
Proof.
  intros d l b k H. unfold Bitfield_isSet. cbn [bind].
  destruct (Z_le_dec 0 b) as [H0|H0]; [destruct (Z_lt_dec b (Z.of_nat (length d))) as [H1|H1]|].
  - rewrite go_index_z_in by lia. cbn [bind]. rewrite go_shl_negative by lia. eexists. reflexivity.
  - rewrite go_index_z_out by lia. eexists. reflexivity.
  - rewrite go_index_z_out by lia. eexists. reflexivity.
Qed.
Print Assumptions C19_gen_isSet_panics_outside.

Theorem C19_gen_extend_is_model :
  forall (d : list N) (l : Z) (n : nat),
  Bitfield_extend (dz d) l (Z.of_nat n) = Val (dz (extend d n), l).
Proof.
  intros d l n. unfold Bitfield_extend. cbn [bind]. rewrite go_extend_nonneg by lia. cbn [bind].
  rewrite Nat2Z.id, dz_extend. reflexivity.
Qed.
Print Assumptions C19_gen_extend_is_model.

Theorem C19_gen_extend_negative_panics :
  forall (d : list Z) (l n : Z), n < 0 -> exists why, Bitfield_extend d l n = GoSem.Panic why.
Proof.
  intros d l n H. unfold Bitfield_extend, go_extend. cbn [bind].
  destruct (Z.ltb_spec n 0); [|lia]. eexists. reflexivity.
Qed.
Print Assumptions C19_gen_extend_negative_panics.

(* set: positions inside the byte string, bit index 0..7, and ANY cached length l of type int that can still be
   incremented (also a negative one): the bytes are the model's, and l moves by what the model adds to a
   cached length of 0 *)
Theorem C19_gen_set_is_model :
  forall (d : list N) (l : Z) (b : nat) (k : N),
  bytes_ok d -> (b < length d)%nat -> (k < 8)%N ->
  - 9223372036854775808 <= l < 9223372036854775807 ->
  Bitfield_set (dz d) l (Z.of_nat b) (Z.of_N k) =
  Val (dz (bf_data (set_bit (mkBF d 0) b k)), l + Z.of_nat (bf_len (set_bit (mkBF d 0) b k))).
Proof.
  intros d l b k Hd Hb Hk Hl. unfold Bitfield_set. cbn [bind].
  rewrite C19_gen_isSet_is_model by assumption. cbn [bind].
  unfold set_bit. cbn [bf_data bf_len]. pose proof (bytes_ok_nth d b Hd) as Hx.
  destruct (is_set d b k); cbn [negb bind].
  - rewrite go_shl_general by lia. cbn [bind]. rewrite go_index_z_in by (rewrite dz_length; lia). cbn [bind].
    unfold go_or. cbn [bind]. rewrite go_set_index_in by (rewrite dz_length; lia). cbn [bind].
    rewrite Nat2Z.id, dz_nth, byte_set_bit by assumption.
    f_equal. apply f_equal2; [apply dz_upd; [assumption | reflexivity] | lia].
  - unfold go_add. cbn [bind]. rewrite wrap_I64 by lia.
    rewrite go_shl_general by lia. cbn [bind]. rewrite go_index_z_in by (rewrite dz_length; lia). cbn [bind].
    unfold go_or. cbn [bind]. rewrite go_set_index_in by (rewrite dz_length; lia). cbn [bind].
    rewrite Nat2Z.id, dz_nth, byte_set_bit by assumption.
    f_equal. apply f_equal2; [apply dz_upd; [assumption | reflexivity] | lia].
Qed.
Print Assumptions C19_gen_set_is_model.

Lemma set_bit_offset d n b k :
  set_bit (mkBF d n) b k = mkBF (bf_data (set_bit (mkBF d 0) b k)) (n + bf_len (set_bit (mkBF d 0) b k)).
Proof. unfold set_bit. cbn [bf_data bf_len]. destruct (is_set d b k); f_equal; lia. Qed.

(* the same in terms of an encoded model value *)
Lemma set_enc (bf : bitfield) (b : nat) (k : N) :
  bytes_ok (bf_data bf) -> (b < length (bf_data bf))%nat -> (k < 8)%N ->
  Z.of_nat (bf_len bf) < 9223372036854775807 ->
  Bitfield_set (dz (bf_data bf)) (Z.of_nat (bf_len bf)) (Z.of_nat b) (Z.of_N k) = Val (enc (set_bit bf b k)).
Proof.
  intros Hd Hb Hk Hl. destruct bf as [d n]. cbn [bf_data bf_len] in *.
  rewrite C19_gen_set_is_model by (assumption || lia). rewrite (set_bit_offset d n).
  unfold enc. cbn [bf_data bf_len]. do 2 f_equal. lia.
Qed.

(* Add on the whole id range 1..2^32-1, any byte string whose length fits in an int, any cached length of type
   int that can still be incremented *)
Theorem C19_gen_Add_is_model :
  forall (d : list N) (l : Z) (i : N), (1 <= i < 4294967296)%N -> bytes_ok d ->
  Z.of_nat (length d) < 9223372036854775808 -> - 9223372036854775808 <= l < 9223372036854775807 ->
  exists bf', add i (mkBF d 0) = Prelude.Ok bf' /\
    Bitfield_Add (dz d) l (Z.of_N i) = Val (dz (bf_data bf'), l + Z.of_nat (bf_len bf')).
Proof.
  intros d l i Hi Hd HL Hn.
  rewrite add_ok by lia. eexists. split; [reflexivity|]. cbn [bf_data bf_len].
  unfold Bitfield_Add. cbn [bind]. rewrite C19_gen_index_is_model by lia. cbn [bind].
  unfold go_len, go_le. cbn [bind]. rewrite dz_length.
  assert (Z.of_N (byte_idx_n i) = Z.of_nat (byte_idx i)) as Eb by (unfold byte_idx; lia).
  assert (Z.of_N (byte_idx_n i) < 536870912) as Bb by (unfold byte_idx_n; lia).
  pose proof (bit_idx_lt i) as Hk.
  unfold grown. destruct (Nat.leb_spec (length d) (byte_idx i)) as [L|L].
  - destruct (Z.leb_spec (Z.of_nat (length d)) (Z.of_N (byte_idx_n i))) as [_|L']; [|lia]. cbn [bind].
    unfold go_add, go_sub. cbn [bind]. rewrite (wrap_I64 (Z.of_N (byte_idx_n i) + 1)) by lia. rewrite wrap_I64 by lia.
    replace (Z.of_N (byte_idx_n i) + 1 - Z.of_nat (length d)) with (Z.of_nat (byte_idx i + 1 - length d)) by lia.
    rewrite C19_gen_extend_is_model. cbn [bind]. rewrite Eb.
    rewrite C19_gen_set_is_model; [reflexivity | now apply bytes_ok_extend | rewrite extend_length; lia | assumption | assumption].
  - destruct (Z.leb_spec (Z.of_nat (length d)) (Z.of_N (byte_idx_n i))) as [L'|_]; [lia|]. cbn [bind]. rewrite Eb.
    rewrite C19_gen_set_is_model; [reflexivity | assumption..].
Qed.
Print Assumptions C19_gen_Add_is_model.

Lemma Add_enc (bf : bitfield) (i : N) :
  (1 <= i < 4294967296)%N -> bytes_ok (bf_data bf) ->
  Z.of_nat (length (bf_data bf)) < 9223372036854775808 -> Z.of_nat (bf_len bf) < 9223372036854775807 ->
  exists bf', add i bf = Prelude.Ok bf' /\
    Bitfield_Add (dz (bf_data bf)) (Z.of_nat (bf_len bf)) (Z.of_N i) = Val (enc bf').
Proof.
  intros Hi Hd HL Hn. destruct bf as [d n]. cbn [bf_data bf_len] in *.
  destruct (C19_gen_Add_is_model d (Z.of_nat n) i Hi Hd HL ltac:(lia)) as [bf0 [E0 G0]].
  rewrite add_ok in E0 by lia. injection E0 as <-. cbn [bf_data bf_len] in G0.
  rewrite add_ok by lia. eexists. split; [reflexivity|]. cbn [bf_data bf_len].
  rewrite G0, (set_bit_offset (grown d i) n). unfold enc. cbn [bf_data bf_len]. do 2 f_equal. lia.
Qed.

(* Add(0): the model says Panic; the translated code panics on every state (after growing an empty field to one
   byte, isSet evaluates 1 << -1) *)
Theorem C19_gen_Add_zero_panics :
  forall (bf : bitfield) (d : list Z) (l : Z),
  add 0 bf = Prelude.Panic /\ exists why, Bitfield_Add d l 0 = GoSem.Panic why.
Proof.
  intros bf d l. split; [reflexivity|].
  unfold Bitfield_Add. cbn [bind]. change (index 0) with (Val (0, -1) : res (Z * Z)). cbn [bind].
  unfold go_len, go_le. cbn [bind].
  destruct d as [|z r].
  - eexists. vm_compute. reflexivity.
  - cbn [length]. destruct (Z.leb_spec (Z.of_nat (S (length r))) 0) as [L|_]; [lia|]. cbn [bind].
    unfold Bitfield_set. cbn [bind].
    destruct (C19_gen_isSet_panics_outside (z :: r) l 0 (-1)) as [why E]; [right; lia|].
    rewrite E. eexists. reflexivity.
Qed.
Print Assumptions C19_gen_Add_zero_panics.

(* Contains on ids 0..2^32-1 (0 included: false), any byte string, any cached length *)
Theorem C19_gen_Contains_is_model :
  forall (bf : bitfield) (l : Z) (i : N), (i < 4294967296)%N -> bytes_ok (bf_data bf) ->
  exists r, contains i bf = Prelude.Ok r /\
    Bitfield_Contains (dz (bf_data bf)) l (Z.of_N i) = Val (dz (bf_data bf), l, r).
Proof.
  intros [d n] l i Hi Hd. cbn [bf_data]. unfold contains. cbn [bf_data].
  destruct (N.eqb_spec i 0) as [->|Hz].
  - eexists. split; reflexivity.
  - unfold Bitfield_Contains, go_eq. cbn [bind].
    destruct (Z.eqb_spec (Z.of_N i) 0) as [E|_]; [lia|]. cbn [bind].
    rewrite C19_gen_index_is_model by lia. cbn [bind].
    unfold go_len, go_le. cbn [bind]. rewrite dz_length, beyond_leb.
    assert (Z.of_N (byte_idx_n i) = Z.of_nat (byte_idx i)) as Eb by (unfold byte_idx; lia).
    destruct (Nat.leb_spec (length d) (byte_idx i)) as [L|L].
    + destruct (Z.leb_spec (Z.of_nat (length d)) (Z.of_N (byte_idx_n i))) as [_|L']; [|lia]. cbn [bind].
      eexists. split; reflexivity.
    + destruct (Z.leb_spec (Z.of_nat (length d)) (Z.of_N (byte_idx_n i))) as [L'|_]; [lia|]. cbn [bind].
      rewrite Eb, C19_gen_isSet_is_model by assumption. cbn [bind]. eexists. split; reflexivity.
Qed.
Print Assumptions C19_gen_Contains_is_model.

Theorem C19_gen_Contains_zero_is_false :
  forall (d : list Z) (l : Z), Bitfield_Contains d l 0 = Val (d, l, false).
Proof. reflexivity. Qed.
Print Assumptions C19_gen_Contains_zero_is_false.

Theorem C19_gen_Len_Bytes_are_model :
  forall bf : bitfield,
  Bitfield_Len (dz (bf_data bf)) (Z.of_nat (bf_len bf)) = Val (dz (bf_data bf), Z.of_nat (bf_len bf), Z.of_nat (len bf)) /\
  Bitfield_Bytes (dz (bf_data bf)) (Z.of_nat (bf_len bf)) = Val (dz (bf_data bf), Z.of_nat (bf_len bf), dz (bytes bf)).
Proof. intros bf. split; reflexivity. Qed.
Print Assumptions C19_gen_Len_Bytes_are_model.

(* ---- sequences of insertions on the translated code ---- *)
Import GoNotations.

Fixpoint gen_adds (ids : list Z) (st : list Z * Z) : res (list Z * Z) :=
  match ids with
  | nil => Val st
  | i :: r => st' <- Bitfield_Add (fst st) (snd st) i ;; gen_adds r st'
  end.

(* what the induction carries: the cached length is the number of enumerated ids, bytes are bytes, and the byte
   string is no longer than the largest id needs (2^32 / 8 bytes) *)
Definition fits (bf : bitfield) : Prop :=
  inv bf /\ bytes_ok (bf_data bf) /\ Z.of_nat (length (bf_data bf)) <= 536870912.

Lemma filter_length_le {A} (p : A -> bool) l : (length (filter p l) <= length l)%nat.
Proof. induction l as [|a l IH]; cbn [filter length]; [lia|]. destruct (p a); cbn [length]; lia. Qed.

Lemma ids_from_length j d : (length (ids_from j d) <= 8 * length d)%nat.
Proof.
  revert j. induction d as [|b r IH]; intros j; cbn [ids_from length]; [lia|].
  rewrite app_length. specialize (IH (S j)). unfold byte_ids. rewrite map_length.
  pose proof (filter_length_le (N.testbit b) bits8) as F. change (length bits8) with 8%nat in F. lia.
Qed.

Lemma fits_len bf : fits bf -> Z.of_nat (bf_len bf) <= 4294967296.
Proof.
  intros [I [_ L]]. unfold inv, elements in I. rewrite I.
  pose proof (ids_from_length 0 (bf_data bf)). lia.
Qed.

Lemma add_fits i bf bf' : (1 <= i < 4294967296)%N -> fits bf -> add i bf = Prelude.Ok bf' -> fits bf'.
Proof.
  intros Hi [I [B L]] E. split; [|split].
  - apply (add_inv i bf bf'); [lia | assumption..].
  - apply (add_bytes_ok i bf bf'); [lia | assumption..].
  - rewrite (add_data i bf bf') by (lia || assumption). rewrite upd_nth_length. unfold grown.
    destruct (Nat.leb_spec (length (bf_data bf)) (byte_idx i)); [|assumption].
    rewrite extend_length. unfold byte_idx, byte_idx_n in *. lia.
Qed.

Lemma gen_adds_is_model ids : forall bf,
  Forall (fun i => (1 <= i < 4294967296)%N) ids -> fits bf ->
  exists bf', adds ids bf = Prelude.Ok bf' /\ fits bf' /\ gen_adds (map Z.of_N ids) (enc bf) = Val (enc bf').
Proof.
  induction ids as [|i r IH]; intros bf Hf F; cbn [adds gen_adds map].
  - exists bf. auto.
  - inversion Hf as [|? ? Hi Hr]; subst. pose proof (fits_len bf F) as Hl. destruct F as [I [B L]].
    destruct (Add_enc bf i Hi B ltac:(lia) ltac:(lia)) as [bf1 [E1 G1]].
    rewrite E1. change (fst (enc bf)) with (dz (bf_data bf)). change (snd (enc bf)) with (Z.of_nat (bf_len bf)). rewrite G1. cbn [bind].
    apply IH; [assumption|]. apply (add_fits i bf bf1); [assumption | repeat split; assumption | assumption].
Qed.

(* The property's set clause on the translated code: starting from the empty Bitfield, after the translated Add has
   run on any list of ids in 1..2^32-1 (it never panics and never indexes out of range), the translated Contains
   answers, for every id 0..2^32-1, exactly whether the id is in the list, and the translated len field (what
   the translated Len returns) is the number of distinct ids of the list. *)
Theorem C19_gen_bitfield_code_is_id_set :
  forall (ids : list N) (x : N),
  Forall (fun i => (1 <= i < 4294967296)%N) ids -> (x < 4294967296)%N ->
  exists d l,
    gen_adds (map Z.of_N ids) (nil, 0) = Val (d, l) /\
    Bitfield_Contains d l (Z.of_N x) = Val (d, l, if in_dec N.eq_dec x ids then true else false) /\
    l = Z.of_nat (length (nodup N.eq_dec ids)) /\
    Bitfield_Len d l = Val (d, l, l).
Proof.
  intros ids x Hf Hx.
  assert (fits empty_bf) as F0.
  { split; [reflexivity|]. split; [constructor | cbn; lia]. }
  destruct (gen_adds_is_model ids empty_bf Hf F0) as [bf [E [F G]]].
  assert (Forall (fun i => (1 <= i)%N) ids) as Hf1.
  { eapply Forall_impl; [|exact Hf]. cbv beta. intros; lia. }
  destruct (history_ideal [] ids Hf1) as [bf2 [E2 [HC [_ [HL _]]]]].
  change (from_bytes []) with empty_bf in E2. rewrite E in E2. injection E2 as <-.
  change (elements (from_bytes [])) with (@nil N) in HL. rewrite app_nil_r in HL.
  exists (dz (bf_data bf)), (Z.of_nat (bf_len bf)). split; [exact G|]. split; [|split; [|reflexivity]].
  - destruct F as [_ [B _]].
    destruct (C19_gen_Contains_is_model bf (Z.of_nat (bf_len bf)) x Hx B) as [r [Er Gr]]. rewrite Gr.
    do 2 f_equal.
    assert (forall y, ~ mem [] y) as Hm.
    { intros y [_ Hy]. destruct (byte_idx y); cbn [nth] in Hy; rewrite N.bits_0 in Hy; discriminate. }
    destruct (N.eq_dec x 0) as [->|Hx0].
    + unfold contains in Er. cbn in Er. injection Er as <-.
      destruct (in_dec N.eq_dec 0%N ids) as [Hin|_]; [|reflexivity].
      rewrite Forall_forall in Hf. specialize (Hf _ Hin). lia.
    + specialize (HC x ltac:(lia)).
      destruct (in_dec N.eq_dec x ids) as [Hin|Hin]; destruct r; try reflexivity.
      * assert (contains x bf = Prelude.Ok true) as Et by (apply HC; now left). congruence.
      * apply HC in Er. destruct Er as [?|Hy]; [contradiction | now apply Hm in Hy].
  - unfold len in HL. now rewrite HL.
Qed.
Print Assumptions C19_gen_bitfield_code_is_id_set.

Example C19_gen_bitfield_runs :
  (st <- gen_adds (1 :: 9 :: 300 :: 9 :: nil) (nil, 0) ;;
   '(_, _, c1) <- Bitfield_Contains (fst st) (snd st) 1 ;;
   '(_, _, c2) <- Bitfield_Contains (fst st) (snd st) 2 ;;
   '(_, _, c9) <- Bitfield_Contains (fst st) (snd st) 9 ;;
   '(_, _, c300) <- Bitfield_Contains (fst st) (snd st) 300 ;;
   '(_, _, c301) <- Bitfield_Contains (fst st) (snd st) 301 ;;
   '(_, _, c0) <- Bitfield_Contains (fst st) (snd st) 0 ;;
   '(_, _, n) <- Bitfield_Len (fst st) (snd st) ;;
   Val (length (fst st), nth 0 (fst st) 0, nth 1 (fst st) 0, nth 37 (fst st) 0, n, (c1, c2, c9, c300, c301, c0)))
  = Val (38%nat, 1, 1, 8, 3, (true, false, true, true, false, false)).
Proof. vm_compute. reflexivity. Qed.

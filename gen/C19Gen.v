(* Theorems about the Gallina translation of security/crypto/bitfield.go index / id. *)
From Coq Require Import ZArith NArith Lia String.
From HS Require Import Base.GoSem Base.GoSemProofs IDSet.BitfieldModel.
From HSGen Require Import Code.
Open Scope Z_scope.
Ltac Zify.zify_post_hook ::= Z.div_mod_to_equations.

(* index, as translated from the checked tree, computes the hand-written model's byte and bit positions for every
   replica id 1..2^32-1 ... *)
Theorem C19_gen_index_is_model :
  forall i : N, (1 <= i < 4294967296)%N ->
  index (Z.of_N i) = Val (Z.of_N (byte_idx_n i), Z.of_N (bit_idx i)).
Proof.
  intros i Hi. unfold index, go_conv, go_sub, go_quo, go_rem, byte_idx_n, bit_idx. cbn [bind Z.eqb].
  rewrite (wrap_I64 (Z.of_N i)) by lia.
  rewrite (wrap_I64 (Z.of_N i - 1)) by lia.
  rewrite Z.quot_div_nonneg, Z.rem_mod_nonneg by lia.
  rewrite !wrap_I64 by lia.
  rewrite N2Z.inj_div, N2Z.inj_mod, N2Z.inj_sub by lia. reflexivity.
Qed.
Print Assumptions C19_gen_index_is_model.

(* ... and for id 0 it yields the bit position -1, the negative shift count behind the Contains(0)/Add(0) panics:
   the guard `if id == 0` in Contains (fix fd14b99) is what keeps callers away from it. *)
Theorem C19_gen_index_of_zero_is_negative : index 0 = Val (0, -1).
Proof. vm_compute. reflexivity. Qed.
Print Assumptions C19_gen_index_of_zero_is_negative.

(* id inverts index on the whole id range, and index inverts id on every position a byte slice can hold:
   iteration (RangeWhile) reports exactly the ids that Add stored. *)
Theorem C19_gen_id_inverts_index :
  forall i : N, (1 <= i < 4294967296)%N ->
  exists b k, index (Z.of_N i) = Val (b, k) /\ 0 <= b /\ 0 <= k < 8 /\ id_ b k = Val (Z.of_N i).
Proof.
  intros i Hi. rewrite C19_gen_index_is_model by assumption.
  eexists _, _. split; [reflexivity|].
  unfold byte_idx_n, bit_idx. rewrite N2Z.inj_div, N2Z.inj_mod, N2Z.inj_sub by lia.
  change (Z.of_N 8) with 8. change (Z.of_N 1) with 1.
  split; [lia|]. split; [lia|].
  unfold id_, go_mul, go_add, go_conv. cbn [bind].
  rewrite (wrap_I64 ((Z.of_N i - 1) / 8 * 8)) by lia.
  rewrite (wrap_I64 (1 + (Z.of_N i - 1) / 8 * 8)) by lia.
  rewrite (wrap_I64 (1 + (Z.of_N i - 1) / 8 * 8 + (Z.of_N i - 1) mod 8)) by lia.
  rewrite wrap_U32 by lia. f_equal. lia.
Qed.
Print Assumptions C19_gen_id_inverts_index.

Theorem C19_gen_index_inverts_id :
  forall b k, 0 <= b < 536870911 -> 0 <= k < 8 ->
  exists i, id_ b k = Val i /\ 1 <= i < 4294967296 /\ index i = Val (b, k) /\ i = Z.of_N (id_of (Z.to_nat b) (Z.to_N k)).
Proof.
  intros b k Hb Hk. unfold id_, go_mul, go_add, go_conv. cbn [bind].
  rewrite (wrap_I64 (b * 8)) by lia.
  rewrite (wrap_I64 (1 + b * 8)) by lia.
  rewrite (wrap_I64 (1 + b * 8 + k)) by lia.
  rewrite wrap_U32 by lia.
  eexists. split; [reflexivity|]. split; [lia|]. split.
  - unfold index, go_conv, go_sub, go_quo, go_rem. cbn [bind Z.eqb].
    rewrite (wrap_I64 (1 + b * 8 + k)) by lia.
    rewrite (wrap_I64 (1 + b * 8 + k - 1)) by lia.
    rewrite Z.quot_div_nonneg, Z.rem_mod_nonneg by lia.
    rewrite !wrap_I64 by lia. f_equal. f_equal; lia.
  - unfold id_of. rewrite N2Z.inj_add, N2Z.inj_add, N2Z.inj_mul, nat_N_Z. rewrite !Z2Nat.id, Z2N.id by lia. reflexivity.
Qed.
Print Assumptions C19_gen_index_inverts_id.

Example C19_gen_runs : (index 1, index 8, index 9, index 300, id_ 37 3) = (Val (0, 0), Val (0, 7), Val (1, 0), Val (37, 3), Val 300).
Proof. vm_compute. reflexivity. Qed.

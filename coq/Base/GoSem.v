(* Target semantics of the Go-to-Gallina translator (translator/main.go).
   Integer expressions of Go's fixed-width types are modelled over Z with the wrap-around written out,
   division and remainder truncate toward zero and panic on a zero divisor, loops run on explicit fuel.
   Definitions only; the laws used by the theorems about translated code are in GoSemProofs.v. *)
From Coq Require Import ZArith String Bool List.
Open Scope Z_scope.

Inductive res (A : Type) : Type :=
| Val (a : A)
| Panic (why : string)
| OutOfFuel.
Arguments Val {A} a.
Arguments Panic {A} why.
Arguments OutOfFuel {A}.

Definition bind {A B} (m : res A) (k : A -> res B) : res B :=
  match m with
  | Val a => k a
  | Panic w => Panic w
  | OutOfFuel => OutOfFuel
  end.

(* Go integer types: signedness and width *)
Inductive ity := I64 | U64 | U32 | I32 | U8.

Definition bits (t : ity) : Z :=
  match t with I64 | U64 => 64 | U32 | I32 => 32 | U8 => 8 end.
Definition signed (t : ity) : bool :=
  match t with I64 | I32 => true | _ => false end.

(* the value of type t congruent to x modulo 2^bits *)
Definition wrap (t : ity) (x : Z) : Z :=
  if signed t
  then (x + 2 ^ (bits t - 1)) mod 2 ^ bits t - 2 ^ (bits t - 1)
  else x mod 2 ^ bits t.

Definition in_range (t : ity) (x : Z) : Prop :=
  if signed t then - 2 ^ (bits t - 1) <= x < 2 ^ (bits t - 1) else 0 <= x < 2 ^ bits t.

Definition go_add (t : ity) (a b : Z) : res Z := Val (wrap t (a + b)).
Definition go_sub (t : ity) (a b : Z) : res Z := Val (wrap t (a - b)).
Definition go_mul (t : ity) (a b : Z) : res Z := Val (wrap t (a * b)).
Definition go_quo (t : ity) (a b : Z) : res Z :=
  if b =? 0 then Panic "integer divide by zero" else Val (wrap t (Z.quot a b)).
Definition go_rem (t : ity) (a b : Z) : res Z :=
  if b =? 0 then Panic "integer divide by zero" else Val (wrap t (Z.rem a b)).
Definition go_conv (t : ity) (a : Z) : res Z := Val (wrap t a).

Definition go_lt (a b : Z) : res bool := Val (a <? b).
Definition go_le (a b : Z) : res bool := Val (a <=? b).
Definition go_gt (a b : Z) : res bool := Val (b <? a).
Definition go_ge (a b : Z) : res bool := Val (b <=? a).
Definition go_eq (a b : Z) : res bool := Val (a =? b).
Definition go_ne (a b : Z) : res bool := Val (negb (a =? b)).

(* int(math.Ceil(float64(x) / 2.0)) for an int x: int -> float64 is exact for |x| <= 2^53, division by 2.0
   is exact, and Ceil of k/2 is the integer ceiling. Outside that range the translator's reading of the
   idiom says nothing: the model panics there, so no theorem can rely on it. *)
Definition go_ceil_half_f64 (x : Z) : res Z :=
  if (Z.abs x <=? 2 ^ 53) then Val ((x + 1) / 2) else Panic "float64 rounding outside the modelled range".

(* slices of opaque values: len, s[i] and s[i] = x panic outside 0 <= i < len(s) *)
Definition go_len {A} (l : list A) : res Z := Val (Z.of_nat (length l)).

Fixpoint upd_nth {A} (l : list A) (i : nat) (x : A) : list A :=
  match l, i with
  | nil, _ => nil
  | _ :: r, O => x :: r
  | y :: r, S k => y :: upd_nth r k x
  end.

Definition go_index {A} (l : list (option A)) (i : Z) : res (option A) :=
  if (0 <=? i) && (i <? Z.of_nat (length l))
  then Val (nth (Z.to_nat i) l None)
  else Panic "index out of range".

Definition go_set_index {A} (l : list A) (i : Z) (x : A) : res (list A) :=
  if (0 <=? i) && (i <? Z.of_nat (length l))
  then Val (upd_nth l (Z.to_nat i) x)
  else Panic "index out of range".

(* slices of bytes ([]byte, []uint8) are lists of Z (each element 0..255 when produced by translated code):
   s[i] panics outside 0 <= i < len(s); s[i] = x is go_set_index above *)
Definition go_index_z (l : list Z) (i : Z) : res Z :=
  if (0 <=? i) && (i <? Z.of_nat (length l))
  then Val (nth (Z.to_nat i) l 0)
  else Panic "index out of range".

(* append(s, make([]byte, n)...): make panics on a negative length; memory is unbounded in this semantics *)
Definition go_extend (l : list Z) (n : Z) : res (list Z) :=
  if n <? 0 then Panic "makeslice: len out of range" else Val (l ++ repeat 0 (Z.to_nat n)).

(* a << n at type t: run-time panic on a negative count, all bits shifted out from the width on (the middle
   branch equals the last one there and only keeps evaluation cheap), otherwise the product wrapped to t *)
Definition go_shl (t : ity) (a n : Z) : res Z :=
  if n <? 0 then Panic "negative shift amount"
  else if bits t <=? n then Val 0
  else Val (wrap t (Z.shiftl a n)).
(* bitwise and / or on two's complement values of type t *)
Definition go_and (t : ity) (a b : Z) : res Z := Val (wrap t (Z.land a b)).
Definition go_or (t : ity) (a b : Z) : res Z := Val (wrap t (Z.lor a b)).

(* var x [n]byte: a zeroed array; the translator admits such a variable only in the form x[:] *)
Definition go_zero_array (n : Z) : list Z := repeat 0 (Z.to_nat n).

(* binary.LittleEndian.PutUint64(b, v) for a uint64 v (0 <= v < 2^64): the bounds check `_ = b[7]` panics on a
   slice shorter than 8, then b[i] = byte(v >> (8*i)) for i = 0..7; the rest of b is unchanged *)
Fixpoint le_bytes_z (n : nat) (v : Z) : list Z :=
  match n with
  | O => nil
  | S k => (v mod 256) :: le_bytes_z k (v / 256)
  end.
Definition go_put_le64 (l : list Z) (v : Z) : res (list Z) :=
  if Z.of_nat (length l) <? 8 then Panic "index out of range"
  else Val (le_bytes_z 8 v ++ skipn 8 l).

(* binary.LittleEndian.PutUint32(b, v) for a uint32 v: bounds check `_ = b[3]`, then four bytes *)
Definition go_put_le32 (l : list Z) (v : Z) : res (list Z) :=
  if Z.of_nat (length l) <? 4 then Panic "index out of range"
  else Val (le_bytes_z 4 v ++ skipn 4 l).

Module GoNotations.
  Notation "x <- m ;; k" := (bind m (fun x => k)) (at level 61, m at next level, right associativity).
  Notation "' p <- m ;; k" := (bind m (fun p => k)) (at level 61, p pattern, m at next level, right associativity).
End GoNotations.

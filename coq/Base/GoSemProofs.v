(* Laws of the translator's target semantics used by the theorems about translated code (/verif/gen). *)
From Coq Require Import ZArith Lia String Bool List.
From HS Require Import Base.GoSem.
Open Scope Z_scope.

Lemma wrap_id t x : in_range t x -> wrap t x = x.
Proof.
  unfold in_range, wrap. destruct (signed t); intros H.
  - rewrite Z.mod_small; [lia|].
    assert (2 ^ bits t = 2 * 2 ^ (bits t - 1)) as E.
    { replace (bits t) with (Z.succ (bits t - 1)) at 1 by lia. apply Z.pow_succ_r. destruct t; simpl; lia. }
    lia.
  - apply Z.mod_small. exact H.
Qed.

Lemma in_range_I64 x : in_range I64 x <-> - 9223372036854775808 <= x < 9223372036854775808.
Proof. unfold in_range. simpl. change (2 ^ 63) with 9223372036854775808. tauto. Qed.
Lemma in_range_U64 x : in_range U64 x <-> 0 <= x < 18446744073709551616.
Proof. unfold in_range. simpl. change (2 ^ 64) with 18446744073709551616. tauto. Qed.
Lemma in_range_U32 x : in_range U32 x <-> 0 <= x < 4294967296.
Proof. unfold in_range. simpl. change (2 ^ 32) with 4294967296. tauto. Qed.

Lemma wrap_I64 x : - 9223372036854775808 <= x < 9223372036854775808 -> wrap I64 x = x.
Proof. intros. apply wrap_id, in_range_I64. assumption. Qed.
Lemma wrap_U64 x : 0 <= x < 18446744073709551616 -> wrap U64 x = x.
Proof. intros. apply wrap_id, in_range_U64. assumption. Qed.
Lemma wrap_U32 x : 0 <= x < 4294967296 -> wrap U32 x = x.
Proof. intros. apply wrap_id, in_range_U32. assumption. Qed.

Lemma wrap_U64_mod x : wrap U64 x = x mod 18446744073709551616.
Proof. reflexivity. Qed.
Lemma wrap_U32_mod x : wrap U32 x = x mod 4294967296.
Proof. reflexivity. Qed.

Lemma bind_Val {A B} (a : A) (k : A -> res B) : bind (Val a) k = k a.
Proof. reflexivity. Qed.

(* ---- bytes, shifts, bit operations, []byte (used by gen/C19Gen.v) ---- *)
Lemma in_range_U8 x : in_range U8 x <-> 0 <= x < 256.
Proof. unfold in_range. simpl. change (2 ^ 8) with 256. tauto. Qed.
Lemma wrap_U8 x : 0 <= x < 256 -> wrap U8 x = x.
Proof. intros. apply wrap_id, in_range_U8. assumption. Qed.

Lemma bits_pos t : 0 < bits t.
Proof. destruct t; simpl; lia. Qed.

(* from the width on, every bit is shifted out: the middle branch of go_shl is the general formula *)
Lemma wrap_shiftl_high t a n : bits t <= n -> wrap t (Z.shiftl a n) = 0.
Proof.
  intros H. pose proof (bits_pos t) as Hb.
  rewrite Z.shiftl_mul_pow2 by lia.
  replace n with ((n - bits t) + bits t) by lia. rewrite Z.pow_add_r by lia.
  rewrite Z.mul_assoc. unfold wrap. destruct (signed t).
  - rewrite Z.add_comm, Z_mod_plus_full. rewrite Z.mod_small; [lia|].
    split; [apply Z.pow_nonneg; lia|]. apply Z.pow_lt_mono_r; lia.
  - apply Z_mod_mult.
Qed.

Lemma go_shl_general t a n : 0 <= n -> go_shl t a n = Val (wrap t (Z.shiftl a n)).
Proof.
  intros H. unfold go_shl. destruct (Z.ltb_spec n 0); [lia|].
  destruct (Z.leb_spec (bits t) n); [|reflexivity]. now rewrite wrap_shiftl_high.
Qed.

Lemma go_shl_negative t a n : n < 0 -> go_shl t a n = Panic "negative shift amount".
Proof. intros H. unfold go_shl. destruct (Z.ltb_spec n 0); [reflexivity | lia]. Qed.

Lemma go_index_z_in l i :
  0 <= i < Z.of_nat (length l) -> go_index_z l i = Val (nth (Z.to_nat i) l 0).
Proof.
  intros H. unfold go_index_z.
  destruct (Z.leb_spec 0 i); [|lia]. destruct (Z.ltb_spec i (Z.of_nat (length l))); [|lia]. reflexivity.
Qed.

Lemma go_index_z_out l i :
  ~ 0 <= i < Z.of_nat (length l) -> go_index_z l i = Panic "index out of range".
Proof.
  intros H. unfold go_index_z.
  destruct (Z.leb_spec 0 i); destruct (Z.ltb_spec i (Z.of_nat (length l))); try reflexivity. lia.
Qed.

Lemma go_set_index_in {A} (l : list A) i x :
  0 <= i < Z.of_nat (length l) -> go_set_index l i x = Val (upd_nth l (Z.to_nat i) x).
Proof.
  intros H. unfold go_set_index.
  destruct (Z.leb_spec 0 i); [|lia]. destruct (Z.ltb_spec i (Z.of_nat (length l))); [|lia]. reflexivity.
Qed.

Lemma go_extend_nonneg l n : 0 <= n -> go_extend l n = Val (l ++ repeat 0 (Z.to_nat n)).
Proof. intros H. unfold go_extend. destruct (Z.ltb_spec n 0); [lia | reflexivity]. Qed.

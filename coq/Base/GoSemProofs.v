(* Laws of the translator's target semantics used by the theorems about translated code (/verif/gen). *)
From Coq Require Import ZArith Lia String Bool.
From HS Require Import Base.GoSem.
Open Scope Z_scope.

Lemma wrap_id t x : in_range t x -> wrap t x = x.
Proof.
  unfold in_range, wrap. destruct (signed t); intros H.
  - rewrite Z.mod_small; [lia|].
    assert (2 ^ bits t = 2 * 2 ^ (bits t - 1)) as E.
    { replace (bits t) with (Z.succ (bits t - 1)) at 1 by lia. apply Z.pow_succ_r. destruct t; simpl; lia. }
    lia.
  - apply Z.mod_small. exact H.
Qed.

Lemma in_range_I64 x : in_range I64 x <-> - 9223372036854775808 <= x < 9223372036854775808.
Proof. unfold in_range. simpl. change (2 ^ 63) with 9223372036854775808. tauto. Qed.
Lemma in_range_U64 x : in_range U64 x <-> 0 <= x < 18446744073709551616.
Proof. unfold in_range. simpl. change (2 ^ 64) with 18446744073709551616. tauto. Qed.
Lemma in_range_U32 x : in_range U32 x <-> 0 <= x < 4294967296.
Proof. unfold in_range. simpl. change (2 ^ 32) with 4294967296. tauto. Qed.

Lemma wrap_I64 x : - 9223372036854775808 <= x < 9223372036854775808 -> wrap I64 x = x.
Proof. intros. apply wrap_id, in_range_I64. assumption. Qed.
Lemma wrap_U64 x : 0 <= x < 18446744073709551616 -> wrap U64 x = x.
Proof. intros. apply wrap_id, in_range_U64. assumption. Qed.
Lemma wrap_U32 x : 0 <= x < 4294967296 -> wrap U32 x = x.
Proof. intros. apply wrap_id, in_range_U32. assumption. Qed.

Lemma wrap_U64_mod x : wrap U64 x = x mod 18446744073709551616.
Proof. reflexivity. Qed.
Lemma wrap_U32_mod x : wrap U32 x = x mod 4294967296.
Proof. reflexivity. Qed.

Lemma bind_Val {A B} (a : A) (k : A -> res B) : bind (Val a) k = k a.
Proof. reflexivity. Qed.

(* Shared conventions for all models: identifiers, results, small list utilities. *)
From Coq Require Export List Bool NArith ZArith Lia.
Export ListNotations.

Definition rid := N.      (* replica ids, >= 1 *)
Definition view := N.
Definition hash := N.     (* interned SHA-256 digests; equality is all the models use *)

(* Result of a Go function that may return an error or dereference nil. *)
Inductive result (A : Type) : Type :=
| Ok (a : A)
| Reject
| Panic.
Arguments Ok {A} a.
Arguments Reject {A}.
Arguments Panic {A}.

(* Indices (0-based) of the cases on which a boolean check fails; used by every Corr file. *)
Fixpoint mismatches_from {A} (chk : A -> bool) (i : nat) (l : list A) : list nat :=
  match l with
  | [] => []
  | x :: r => if chk x then mismatches_from chk (S i) r else i :: mismatches_from chk (S i) r
  end.
Definition mismatches_with {A} (chk : A -> bool) (l : list A) : list nat := mismatches_from chk 0 l.

Fixpoint list_eqb {A} (eqb : A -> A -> bool) (a b : list A) : bool :=
  match a, b with
  | [], [] => true
  | x :: a', y :: b' => eqb x y && list_eqb eqb a' b'
  | _, _ => false
  end.

Definition option_eqb {A} (eqb : A -> A -> bool) (a b : option A) : bool :=
  match a, b with
  | None, None => true
  | Some x, Some y => eqb x y
  | _, _ => false
  end.

(* Correspondence for C09.
   Vote cases: the Go harness (harness/protocol/votingmachine/c09_test.go) drives a real
   VotingMachine on a real event loop with a sequence of stimuli (votes, proposals, high-QC moves),
   drains the loop after every stimulus and records the quorum certificates carried by the
   NewViewMsg events, plus the final verifiedVotes map and the number of still delayed votes.
   The kernel recomputes all of it from the model.
   Kauri cases: see below. *)
From HS Require Export Base.Prelude Collect.VoteModel.
Close Scope Z_scope.

(* short constructors used by the generated case files *)
Definition G (i : rid) (h : hash) : ssig := mkS i (Some (i, h)).          (* genuine, own label *)
Definition F (l i : rid) (h : hash) : ssig := mkS l (Some (i, h)).        (* genuine by i, relabelled l *)
Definition X (l : rid) : ssig := mkS l None.                              (* bytes nobody signed *)
Definition V (h : hash) (l : list ssig) : event := EVote (mkVote h l).
Definition P (h : hash) (v : view) : event := EPropose (mkB h v).
Definition H (h : hash) (v : view) : event := EHigh (mkB h v).
Definition TC (v : view) : event := ETC v.

Definition real_eqb (a b : option (rid * hash)) : bool :=
  option_eqb (fun x y => N.eqb (fst x) (fst y) && N.eqb (snd x) (snd y)) a b.
Definition ssig_eqb (a b : ssig) : bool := N.eqb (s_lab a) (s_lab b) && real_eqb (s_real a) (s_real b).
Definition vote_eqb (a b : vote) : bool := N.eqb (v_hash a) (v_hash b) && list_eqb ssig_eqb (v_sigs a) (v_sigs b).

(* signatures of a certificate are compared as a set of (label, content) with equal size:
   the order inside a Multi follows arrival, a BLS bitfield has none *)
Definition same_sigs (a b : list ssig) : bool :=
  Nat.eqb (length a) (length b) &&
  forallb (fun x => existsb (ssig_eqb x) b) a && forallb (fun x => existsb (ssig_eqb x) a) b.
Definition qc_eqb (a b : qcert) : bool :=
  N.eqb (q_hash a) (q_hash b) && N.eqb (q_view a) (q_view b) && same_sigs (q_sigs a) (q_sigs b).
Definition Q (h : hash) (v : view) (l : list ssig) : qcert := mkQC h v l.

(* final verifiedVotes as observed: keys in ascending order, signers in slice order *)
Definition buckets_eqb (m : list (hash * list vote)) (obs : list (hash * list rid)) : bool :=
  Nat.eqb (length m) (length obs) &&
  forallb (fun p => list_eqb N.eqb (map v_signer (lookup m (fst p))) (snd p)) obs.

(* members, remote blocks, initial local blocks, stimuli,
   observed: certificates per stimulus, final buckets, number of delayed votes *)
Definition vcase := (list rid * list binfo * list binfo * list event *
                     list (list qcert) * list (hash * list rid) * nat)%type.

Definition check_state (st : vstate) (bk : list (hash * list rid)) (nd : nat) : bool :=
  buckets_eqb (st_verified st) bk && Nat.eqb (length (st_deferred st)) nd.

Definition check_vcase (c : vcase) : bool :=
  let '(members, remote, store0, es, obs, bk, nd) := c in
  let '(st, outs) := run (mkCfg members remote true) (init store0 0%N) es in
  list_eqb (list_eqb qc_eqb) outs obs && check_state st bk nd.
Definition v_mismatches := mismatches_with check_vcase.

(* asynchronous verification.  The stimuli of [setup] are applied one by one (loop drained), then
   the votes [burst] are handed to CollectVote back to back with verification in goroutines; after
   quiescence the harness reads the certificates in emission order and the final state and
   reconstructs an order [witness] of the critical sections.  Membership in the admissible set =
   [witness] is a rearrangement of [burst] and the sequential model run on it gives what was seen. *)
Definition count_v (x : vote) (l : list vote) : nat := length (filter (vote_eqb x) l).
Definition perm_votes (a b : list vote) : bool :=
  Nat.eqb (length a) (length b) && forallb (fun x => Nat.eqb (count_v x a) (count_v x b)) (a ++ b).

Definition acase := (list rid * list binfo * list binfo * list event * list vote * list vote *
                     list qcert * list (hash * list rid) * nat)%type.
Definition check_acase (c : acase) : bool :=
  let '(members, remote, store0, setup, burst, witness, obs, bk, nd) := c in
  let cf := mkCfg members remote true in
  let '(st1, _) := run cf (init store0 0%N) setup in
  let '(st2, outs) := run cf st1 (map EVote witness) in
  perm_votes burst witness && list_eqb qc_eqb (concat outs) obs && check_state st2 bk nd.
Definition a_mismatches := mismatches_with check_acase.

(* ---------------- Kauri cases ----------------
   The harness (harness/protocol/comm/c09_test.go) drives a real comm.Kauri node (tree of n
   replicas, branch factor 2) with rounds (Aggregate), contributions and wait-timer expiries, drains
   the event loop after each and records what was handed to SendContributionToParent and the
   certificates carried by NewViewMsg events, plus the final aggContrib / aggSent / senders. *)
From HS Require Export Collect.KauriModel.

Definition sends_of (o : list kout) : list (view * option (list ssig)) :=
  flat_map (fun x => match x with OSend v s => [(v, s)] | _ => [] end) o.
Definition qcs_of (o : list kout) : list qcert :=
  flat_map (fun x => match x with OQC q => [q] | _ => [] end) o.
Definition osig_eqb (a b : option (list ssig)) : bool :=
  match a, b with
  | None, None => true
  | Some x, Some y => same_sigs x y
  | _, _ => false
  end.
Definition send_eqb (a b : view * option (list ssig)) : bool :=
  N.eqb (fst a) (fst b) && osig_eqb (snd a) (snd b).
Definition kobs := (list (view * option (list ssig)) * list qcert)%type.
Definition kobs_eqb (a b : kobs) : bool :=
  list_eqb send_eqb (fst a) (fst b) && list_eqb qc_eqb (snd a) (snd b).

(* members, SubTree(), is-leaf, available block hashes, scheme is BLS12, stimuli,
   observed per stimulus, final (aggContrib, aggSent, senders) *)
Definition kcase := (list rid * list rid * bool * list hash * bool * list kevent *
                     list kobs * (option (list ssig) * bool * list rid))%type.
Definition check_kcase (c : kcase) : bool :=
  let '(members, subtree, leaf, blocks, bls, es, obs, fin) := c in
  let '(st, outs) := krun (mkKC members subtree leaf blocks bls) kinit es in
  let '(fagg, fsent, fsenders) := fin in
  list_eqb kobs_eqb (map (fun o => (sends_of o, qcs_of o)) outs) obs &&
  osig_eqb (ks_agg st) fagg && Bool.eqb (ks_sent st) fsent && list_eqb N.eqb (ks_senders st) fsenders.
Definition k_mismatches := mismatches_with check_kcase.

(* vote cases from a tree in which the collector's private tables cannot be read by the harness (their
   representation changed): only the certificates per stimulus are compared *)
Definition check_vcase_nostate (c : vcase) : bool :=
  let '(members, remote, store0, es, obs, _, _) := c in
  let '(_, outs) := run (mkCfg members remote true) (init store0 0%N) es in
  list_eqb (list_eqb qc_eqb) outs obs.
Definition v_mismatches_nostate := mismatches_with check_vcase_nostate.

(* ---- block availability over time ----
   vote cases: members, initial local blocks, stimuli each with the blocks fetchable at that moment, observed
   certificates per stimulus, final buckets, delayed votes *)
Definition vcase_av := (list rid * list binfo * list (list binfo * event) *
                        list (list qcert) * list (hash * list rid) * nat)%type.
Definition check_vcase_av (c : vcase_av) : bool :=
  let '(members, store0, es, obs, bk, nd) := c in
  let '(st, outs) := run_av (mkCfg members [] true) (init store0 0%N) es in
  list_eqb (list_eqb qc_eqb) outs obs && check_state st bk nd.
Definition va_mismatches := mismatches_with check_vcase_av.

(* Kauri cases: as [kcase], every stimulus with the hashes for which blockchain.Get succeeds at that moment *)
Definition kcase_av := (list rid * list rid * bool * bool * list (list hash * kevent) *
                        list kobs * (option (list ssig) * bool * list rid))%type.
Definition check_kcase_av (c : kcase_av) : bool :=
  let '(members, subtree, leaf, bls, es, obs, fin) := c in
  let '(st, outs) := krun_av (mkKC members subtree leaf [] bls) kinit es in
  let '(fagg, fsent, fsenders) := fin in
  list_eqb kobs_eqb (map (fun o => (sends_of o, qcs_of o)) outs) obs &&
  osig_eqb (ks_agg st) fagg && Bool.eqb (ks_sent st) fsent && list_eqb N.eqb (ks_senders st) fsenders.
Definition ka_mismatches := mismatches_with check_kcase_av.

(* Correspondence for C10.  The Go harness (harness/server/c10_test.go) delivers generated wire
   messages to a hand-wired replica through serviceImpl.{Propose,Vote,NewView,Timeout,RequestBlock}
   and the Kauri contribution event, drains the event loop under recover(), and records
   panic / protocol projection changed / unchanged.  Each observation is recomputed here from
   Wire/NilModel.v with the guard vector the harness probed on the tree under test. *)
From HS Require Import Base.Prelude Wire.NilModel.
Open Scope N_scope.

Inductive obs := OPanic | OUnchanged | OChanged.

Inductive case :=
| HC (c : cfg) (e : env) (ctx_ok : bool) (m : wmsg) (o : obs)   (* one delivered message *)
| RB (h : hclass) (found : bool) (o : obs)                      (* RequestBlock reply *)
| DC (g : guards) (d : dcall) (returned : bool)                 (* direct call of a converter *)
| EQ (g : guards) (vh_eq a b same : bool) (res : option bool).  (* direct call of QuorumCert.Equals; None = panicked *)

Definition check_obs (r : result verdict) (o : obs) : bool :=
  match r, o with
  | Panic, OPanic => true
  | Panic, _ => false
  | _, OPanic => false
  | Ok Passed, _ => true
  | _, OUnchanged => true
  | _, OChanged => false
  end.

Definition check_case (k : case) : bool :=
  match k with
  | HC c e ctx_ok m o =>
      check_obs (handle c e ctx_ok m) o
      && (negb (nothing_verifies m) || match o with OChanged => false | _ => true end)
  | RB h found o =>
      Bool.eqb (srv_request_block h) found && match o with OUnchanged => true | _ => false end
  | DC g d returned => Bool.eqb (decode_returns g d) returned
  | EQ g vh a b same res =>
      (* only whether the call returns is compared (with the probed guard): what Equals answers for two
         signed certificates is not C10's business and no handler depends on it *)
      match qc_equals g vh a b same, res with
      | Panic, None => true
      | Ok _, Some _ => true
      | _, _ => false
      end
  end.

Definition mismatches := mismatches_with check_case.

(* short names used by the generated case files *)
Notation G := Build_guards.
Notation CF := Build_cfg.
Notation EV := Build_env.
Notation QC := Build_wqc.
Notation TC := Build_wtc.
Notation AG := Build_wagg.
Notation SY := Build_wsync.
Notation BL := Build_wblock.
Notation PR := Build_wproposal.
Notation VO := Build_wvote.
Notation TM := Build_wtimeout.
Notation KC := Build_wcontrib.
Notation T := true.
Notation F := false.

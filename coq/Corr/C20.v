(* Correspondence for C20: the Go harness emits ranges of n with run-length encoded
   observed (NumFaulty n, QuorumSize n) pairs; we recompute them in the kernel. *)
From HS Require Import Base.Prelude Quorum.QuorumModel.
Open Scope Z_scope.

(* a case = (n, observed NumFaulty n, observed QuorumSize n, observed config quorum or -1) *)
Definition case := (Z * Z * Z * Z)%type.
Definition check_case (c : case) : bool :=
  let '(n, f, q, cq) := c in
  Z.eqb (num_faulty n) f && Z.eqb (quorum_size n) q && (Z.eqb cq (-1) || Z.eqb cq q).
Definition mismatches := mismatches_with check_case.

(* dense form for the exhaustive sweep: starting n, then observed (f,q) for n, n+1, ... *)
Fixpoint sweep_mismatch (n : Z) (obs : list (Z * Z)) : list Z :=
  match obs with
  | nil => nil
  | (f, q) :: r =>
      if Z.eqb (num_faulty n) f && Z.eqb (quorum_size n) q then sweep_mismatch (n + 1) r
      else n :: sweep_mismatch (n + 1) r
  end.

(* periodic segment: from n0 with (f0,q0), the increments follow [blk] repeated [reps] times *)
Definition seg := (Z * Z * Z * list (Z * Z) * N)%type.

Fixpoint run_block (n f q : Z) (blk : list (Z * Z)) : bool * (Z * Z * Z) :=
  match blk with
  | nil => (true, (n, f, q))
  | (df, dq) :: r =>
      if Z.eqb (num_faulty n) f && Z.eqb (quorum_size n) q
      then run_block (n + 1) (f + df) (q + dq) r
      else (false, (n, f, q))
  end.

Fixpoint run_reps (fuel : nat) (n f q : Z) (blk : list (Z * Z)) : bool :=
  match fuel with
  | O => Z.eqb (num_faulty n) f && Z.eqb (quorum_size n) q
  | S k => let '(ok, (n', f', q')) := run_block n f q blk in
           if ok then run_reps k n' f' q' blk else false
  end.

Definition check_seg (s : seg) : bool :=
  let '(n0, f0, q0, blk, reps) := s in
  match blk with nil => false | _ => run_reps (N.to_nat reps) n0 f0 q0 blk end.
Definition seg_mismatches := mismatches_with check_seg.

(* threshold use: a certificate signed by exactly k distinct members of n is accepted iff k >= q n *)
Definition thr_case := (Z * Z * bool)%type.
Definition check_thr (c : thr_case) : bool :=
  let '(n, k, accepted) := c in Bool.eqb accepted (quorum_size n <=? k).
Definition thr_mismatches := mismatches_with check_thr.

(* Correspondence for C15: the Go harness records, for the real CommandCache,
   (a) single transitions (state before, operation, result, state after) and
   (b) whole operation sequences from NewCommandCache (result of every operation, final state);
   the kernel recomputes them from Batch.BatchModel. *)
From HS Require Import Base.Prelude Batch.BatchModel.
Open Scope N_scope.

Definition cmds_eqb := list_eqb cmd_eqb.

Definition res_eqb (a b : get_res) : bool :=
  match a, b with
  | GBlocked, GBlocked => true
  | GContinue, GContinue => true
  | GBatch x, GBatch y => cmds_eqb x y
  | _, _ => false
  end.

(* Go map vs association list with unique keys: same number of keys, same value under every observed key *)
Definition seqs_eqb (model obs : seqmap) : bool :=
  Nat.eqb (length model) (length obs) &&
  forallb (fun kv => N.eqb (seq_of model (fst kv)) (snd kv)) obs &&
  forallb (fun kv => N.eqb (seq_of obs (fst kv)) (snd kv)) model.

(* States are compared on what is observable of them (BatchModel.fresh_part / effective_ready):
   marks, the fresh cached commands in order, and the token when a full fresh batch is cached.
   A refactoring that prunes stale entries earlier, or wakes a Get spuriously, is not a mismatch. *)
Definition state_eqb (model obs : state) : bool :=
  N.eqb (batch_size model) (batch_size obs) && seqs_eqb (seqs model) (seqs obs) &&
  cmds_eqb (fresh_part model) (fresh_part obs) &&
  Bool.eqb (effective_ready model) (effective_ready obs).

Definition out_eqb (model obs : state * get_res) : bool :=
  state_eqb (fst model) (fst obs) && res_eqb (snd model) (snd obs).

(* operations as the harness issues them *)
Inductive cop :=
| CAdd (c : cmd)
| CProposed (b : list cmd)
| CGet        (* context done exactly when the select would block *)
| CGetC       (* context already cancelled: either ready branch of the select may be taken *)
| CContains (b : list cmd) (obs : bool)     (* containsDuplicate(b) returned obs *)
(* k concurrent Gets and a burst xs of Adds / Proposeds:
     held = false: the k Gets were started first and all of them blocked (they are parked in their
                   select) when the burst runs;
     held = true : the k Gets are inside Get but held at their first ctx.Done() call (a context whose
                   Done() blocks until released), i.e. past anything they do before waiting and not
                   yet parked; the whole burst runs, then all are released at once.
   racing = their context is cancelled together with the burst / the release (without waiting for
   the Gets to react), otherwise only after everything has come to rest.
   obs = the batches the k Gets returned, in any order. *)
| CWake (k : nat) (held racing : bool) (xs : list cop) (obs : list (list cmd)).

Fixpoint remove1 (b : list cmd) (l : list (list cmd)) : option (list (list cmd)) :=
  match l with
  | [] => None
  | x :: r => if cmds_eqb b x then Some r
              else match remove1 b r with Some r' => Some (x :: r') | None => None end
  end.
Fixpoint perm_eqb (a b : list (list cmd)) : bool :=
  match a with
  | [] => match b with [] => true | _ => false end
  | x :: a' => match remove1 x b with Some b' => perm_eqb a' b' | None => false end
  end.

Definition simple_step (st : state) (x : cop) : option state :=
  match x with
  | CAdd c => Some (fst (step st (OAdd c)))
  | CProposed b => Some (fst (step st (OProposed b)))
  | _ => None
  end.

Fixpoint simple_steps (st : state) (xs : list cop) : option state :=
  match xs with
  | [] => Some st
  | x :: r => match simple_step st x with Some st' => simple_steps st' r | None => None end
  end.

Definition wake_ok (st : state) (k : nat) (held racing : bool) (xs : list cop) (obs : list (list cmd)) (st' : state) : bool :=
  let '(st0, pre) := if held then (st, []) else gets k st in
  match pre, simple_steps st0 xs with
  | [], Some st1 =>
      let ok (m : state * list (list cmd)) := state_eqb (fst m) st' && perm_eqb (snd m) obs in
      if racing
      then existsb (fun j => ok (gets j st1) && Nat.eqb (length (snd (gets j st1))) j) (seq 0 (S k))
      else ok (gets k st1)
  | _, _ => false   (* the model says one of the k parked Gets would not have blocked *)
  end.

Definition cstep_ok (st : state) (o : cop) (obs : state * get_res) : bool :=
  match o with
  | CAdd c => out_eqb (step st (OAdd c)) obs
  | CProposed b => out_eqb (step st (OProposed b)) obs
  | CGet => out_eqb (step st OGet) obs
  | CGetC => existsb (fun m => out_eqb m obs) (getc_outcomes st)
  | CContains b r => out_eqb (st, GContinue) obs && Bool.eqb (contains_dup st b) r
  | CWake k held racing xs batches =>
      res_eqb (snd obs) GContinue && wake_ok st k held racing xs batches (fst obs)
  end.

(* (a) one transition *)
Definition step_case := (state * cop * get_res * state)%type.
Definition check_step (c : step_case) : bool :=
  let '(st, o, r, st') := c in cstep_ok st o (st', r).
Definition step_mismatches := mismatches_with check_step.

(* (b) a whole sequence from NewCommandCache(bs): per operation the result and the state after it *)
Definition seq_case := (N * list (cop * get_res * state))%type.
Fixpoint check_from (st : state) (l : list (cop * get_res * state)) : bool :=
  match l with
  | [] => true
  | (o, r, st') :: rest => cstep_ok st o (st', r) && check_from st' rest
  end.
Definition check_seq (c : seq_case) : bool := let '(bs, l) := c in check_from (init bs) l.
Definition seq_mismatches := mismatches_with check_seq.

(* (c) a history of cache operations of which only the Get results were observed (proposer-level
   stream: the harness is outside the package and sees what CreateProposal hands to the leader;
   the CProposed entries are the marks the walk over the certified chain should have made) *)
Definition res_case := (N * list (cop * get_res))%type.
Fixpoint check_res_from (st : state) (l : list (cop * get_res)) : bool :=
  match l with
  | [] => true
  | (o, r) :: rest =>
      match o with
      | CAdd c => res_eqb r GContinue && check_res_from (fst (step st (OAdd c))) rest
      | CProposed b => res_eqb r GContinue && check_res_from (fst (step st (OProposed b))) rest
      | CGet => let '(st', r') := step st OGet in res_eqb r' r && check_res_from st' rest
      | _ => false
      end
  end.
Definition check_res (c : res_case) : bool := let '(bs, l) := c in check_res_from (init bs) l.
Definition res_mismatches := mismatches_with check_res.

(* short constructors to keep the emitted terms small *)
Definition S_ := mkState.
Definition B_ := GBatch.
Definition K_ := GBlocked.
Definition C_ := GContinue.
Definition W_ := CWake.

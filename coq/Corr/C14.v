(* Correspondence for C14.  Queue cases: the Go harness runs an operation sequence on the real
   (unexported) eventloop.queue and records every return value; the kernel recomputes them
   from the ring model.  Loop cases: see below. *)
From HS Require Export Base.Prelude EventLoop.QueueModel.
Open Scope Z_scope.

Definition optN_eqb := option_eqb N.eqb.
Definition qout_eqb (a b : qout N) : bool :=
  match a, b with
  | OPushed x, OPushed y => optN_eqb x y
  | OPopped x o, OPopped y p => optN_eqb x y && Bool.eqb o p
  | OLen n, OLen m => Z.eqb n m
  | _, _ => false
  end.

(* capacity, did newQueue panic, operations, observed outputs *)
Definition qcase := (nat * bool * list (qop N) * list (qout N))%type.
Definition check_qcase (c : qcase) : bool :=
  let '(cap, panicked, ops, outs) := c in
  match new_queue cap with
  | Ok q0 => negb panicked && list_eqb qout_eqb (q_run push q0 ops) outs
  | _ => panicked
  end.
Definition q_mismatches := mismatches_with check_qcase.

(* ready-signal cases: push / pop / len / non-blocking receive on ready() on the real queue *)
Definition sout_eqb (a b : sout N) : bool :=
  match a, b with
  | SOut x, SOut y => qout_eqb x y
  | SPolled x, SPolled y => Bool.eqb x y
  | _, _ => false
  end.
Definition scase := (nat * list (sop N) * list (sout N))%type.
Definition check_scase (c : scase) : bool :=
  let '(cap, ops, outs) := c in
  match new_queue cap with
  | Ok q0 => list_eqb sout_eqb (s_run true (q0, false) ops) outs
  | _ => false
  end.
Definition s_mismatches := mismatches_with check_scase.

(* ---------------- loop cases ---------------- *)
From HS Require Export EventLoop.LoopModel.

(* handler bodies are given as a table indexed by handler id; ids >= 1000 are the handlers that
   ViewContext / TimeoutContext (context.go) register themselves: their bodies come from a second
   table, and their invocations cannot be observed by the harness (they are filtered out below;
   what they do -- calling unregister closures -- is observed through its consequences) *)
Definition ctx_base : N := 1000%N.
Definition script_of (tbl ctbl : list (list action)) (h : hid) (_ : event) : list action :=
  if N.leb ctx_base h then nth (N.to_nat (h - ctx_base)) ctbl [] else nth (N.to_nat h) tbl [].

Definition event_eqb (a b : event) : bool := N.eqb (fst a) (fst b) && N.eqb (snd a) (snd b).
Definition entry_eqb (a b : entry) : bool :=
  match a, b with
  | LHandle d i h e, LHandle d' i' h' e' => Nat.eqb d d' && Bool.eqb i i' && N.eqb h h' && event_eqb e e'
  | LDrop e, LDrop e' => event_eqb e e'
  | LTick x, LTick y => Bool.eqb x y
  | _, _ => false
  end.

Definition observable_h (x : entry) : bool :=
  match x with
  | LHandle _ _ h _ => N.ltb h ctx_base
  | LDrop _ | LTick _ => true
  | _ => false
  end.

(* capacity, handler table, context-handler table, program, observed trace (handler calls, drop warnings, Tick results) *)
Definition lcase := (nat * list (list action) * list (list action) * list op * list entry)%type.
Definition loop_fuel := 12%nat.
Definition check_lcase (c : lcase) : bool :=
  let '(cap, tbl, ctbl, prog, obs) := c in
  match new_loop cap with
  | Ok st0 =>
      match run (script_of tbl ctbl) loop_fuel st0 prog with
      | Some st => list_eqb entry_eqb (filter observable_h (log st)) obs
      | None => false
      end
  | _ => false
  end.
Definition l_mismatches := mismatches_with check_lcase.

(* Correspondence for C03.  One case = one run of a real replica stack (protocol/synchronizer
   harness): configuration, then per handler invocation the model event (built from ground truth
   and from the verdicts the real components returned), the messages the replica handed to its
   signing primitive during that invocation, and the replica's view afterwards.  The kernel
   replays the model from the initial state and compares every invocation. *)
From HS Require Export Base.Prelude Voter.VoterModel.
Open Scope N_scope.

(* round-robin leader rotation: ChooseRoundRobin(view, n) = view % n + 1 *)
Definition rr (n : N) (v : view) : rid := v mod n + 1.

Inductive osig := OVote (h : hash) (v : view) | OTimeout (v : view) | OTimeoutMsg (v : view).

Definition proj (s : sig) : osig :=
  match s with
  | SignVote p => OVote (p_hash p) (p_view p)
  | SignTimeout v => OTimeout v
  | SignTimeoutMsg v => OTimeoutMsg v
  end.

Definition osig_eqb (a b : osig) : bool :=
  match a, b with
  | OVote h v, OVote h' v' => N.eqb h h' && N.eqb v v'
  | OTimeout v, OTimeout v' => N.eqb v v'
  | OTimeoutMsg v, OTimeoutMsg v' => N.eqb v v'
  | _, _ => false
  end.

(* the leader rotation as it answered when the handler invocation started: a finite table of
   (view, leader) for the views the invocation can consult; other views map to 0 (no replica) *)
Fixpoint tbl_leader (t : list (view * rid)) (v : view) : rid :=
  match t with
  | [] => 0
  | (w, l) :: r => if N.eqb w v then l else tbl_leader r v
  end.

(* rotation table, event, observed signatures, view and lastVotedView after the invocation *)
Definition obs := (list (view * rid) * event * list osig * view * view)%type.

Fixpoint replay (self : rid) (agg : bool) (st : vstate) (l : list obs) : bool :=
  match l with
  | [] => true
  | (t, e, sigs, v, lv) :: r =>
      let '(st1, out) := step (tbl_leader t) self agg st e in
      list_eqb osig_eqb (map proj out) sigs && N.eqb (cur_view st1) v && N.eqb (last_voted st1) lv
      && replay self agg st1 r
  end.

(* own id, aggregate-QC mode, observations *)
Definition case := (rid * bool * list obs)%type.
Definition check_case (c : case) : bool :=
  let '(self, agg, l) := c in replay self agg init_state l.
Definition mismatches := mismatches_with check_case.

(* Correspondence for C03.  One case = one run of a real replica stack (protocol/synchronizer
   harness): configuration, then per handler invocation the model event (built from ground truth
   and from the verdicts the real components returned), the messages the replica handed to its
   signing primitive during that invocation, and the replica's view afterwards.  The kernel
   replays the model from the initial state and compares every invocation. *)
From HS Require Export Base.Prelude Voter.VoterModel.
Open Scope N_scope.

(* round-robin leader rotation: ChooseRoundRobin(view, n) = view % n + 1 *)
Definition rr (n : N) (v : view) : rid := v mod n + 1.

Inductive osig := OVote (h : hash) (v : view) | OTimeout (v : view) | OTimeoutMsg (v : view).

Definition proj (s : sig) : osig :=
  match s with
  | SignVote p => OVote (p_hash p) (p_view p)
  | SignTimeout v => OTimeout v
  | SignTimeoutMsg v => OTimeoutMsg v
  end.

Definition osig_eqb (a b : osig) : bool :=
  match a, b with
  | OVote h v, OVote h' v' => N.eqb h h' && N.eqb v v'
  | OTimeout v, OTimeout v' => N.eqb v v'
  | OTimeoutMsg v, OTimeoutMsg v' => N.eqb v v'
  | _, _ => false
  end.

Definition obs := (event * list osig * view)%type.

Fixpoint replay (n : N) (self : rid) (agg : bool) (st : vstate) (l : list obs) : bool :=
  match l with
  | [] => true
  | (e, sigs, v) :: r =>
      let '(st1, out) := step (rr n) self agg st e in
      list_eqb osig_eqb (map proj out) sigs && N.eqb (cur_view st1) v && replay n self agg st1 r
  end.

(* replicas, own id, aggregate-QC mode, observations *)
Definition case := (N * rid * bool * list obs)%type.
Definition check_case (c : case) : bool :=
  let '(n, self, agg, l) := c in replay n self agg init_state l.
Definition mismatches := mismatches_with check_case.

(* Correspondence for C08.  Two kinds of cases emitted by harness/protocol/synchronizer/c08_test.go:
   - ccase: a sequence of timeoutCollector operations (add / deleteOldViews) with the value
     returned by every add and the bag after every operation;
   - scase: a sequence of Synchronizer.OnRemoteTimeout calls on a real synchronizer with, per call,
     the list handed to RemoteTimeoutRule, the certificates it returned, their verdict at a second
     replica's Authority, the view and the bag after the call.
   Every observation is recomputed from Collect.TimeoutModel in the kernel. *)
From HS Require Import Base.Prelude Crypto.Symbolic Crypto.SchemeModel Quorum.QuorumModel Cert.CertModel
  Collect.TimeoutModel.
Close Scope Z_scope.
Open Scope N_scope.

Definition key_of (t : tmsg) : N * N := (t_id t, t_view t).
Definition key_eqb (a b : N * N) : bool := N.eqb (fst a) (fst b) && N.eqb (snd a) (snd b).
Definition keys_eqb := list_eqb key_eqb.

(* ---------- collector-only cases ---------- *)
(* CGrow n: RuntimeConfig.AddReplica has been called until n replicas are configured (the
   collector reads config.QuorumSize() at every add) *)
Inductive cop : Type := CAdd (id v : N) | CDel (cur : N) | CGrow (n : nat).
(* observation after an op: returned list (None = "nil, false") and the bag *)
Definition cobs : Type := (option (list (N * N)) * list (N * N))%type.
Definition ccase : Type := (nat * list (cop * cobs))%type.

Definition bare (id v : N) : tmsg := mkT id v None None None.

Definition qsize_of (n : nat) : nat := Z.to_nat (quorum_size (Z.of_nat n)).

Fixpoint ccheck (q : nat) (bag : list tmsg) (l : list (cop * cobs)) : bool :=
  match l with
  | [] => true
  | (CAdd id v, (ret, after)) :: r =>
      let '(bag', out) := coll_add q bag (bare id v) in
      option_eqb keys_eqb (option_map (map key_of) out) ret &&
      keys_eqb (map key_of bag') after && ccheck q bag' r
  | (CDel cur, (ret, after)) :: r =>
      let bag' := delete_old_views cur bag in
      match ret with None => true | Some _ => false end &&
      keys_eqb (map key_of bag') after && ccheck q bag' r
  | (CGrow n, (ret, after)) :: r =>
      match ret with None => true | Some _ => false end &&
      keys_eqb (map key_of bag) after && ccheck (qsize_of n) bag r
  end.

Definition check_ccase (c : ccase) : bool := ccheck (qsize_of (fst c)) [] (snd c).
Definition coll_mismatches := mismatches_with check_ccase.

(* ---------- synchronizer cases ---------- *)
Record sobs : Type := SO {
  o_code : N;                                   (* 1 RemoteTimeoutRule not called / 2 it failed / 3 sync info built *)
  o_handed : list (N * N);                      (* (id, view) of the list given to RemoteTimeoutRule *)
  o_tc : option (N * list N);                   (* TC view, participants in order *)
  o_agg : option (N * list N * list N);         (* AggQC view, participants in order, ids with a QC (sorted) *)
  o_vtc : N;                                    (* replica 2: VerifyTimeoutCert 0 ok / 1 error / 2 panic / 3 n.a. *)
  o_vagg : N;                                   (* replica 2: VerifyAggregateQC, same coding *)
  o_hqv : N;                                    (* view of the high QC it returned (0 if none) *)
  o_view : N;                                   (* View() after the call *)
  o_bag : list (N * N)                          (* collector bag after the call *)
}.

(* SMsg: one OnRemoteTimeout call (message, outcome of the first advance, observation);
   SGrow: the membership configured at the replica under test (and at the verifying replica)
   has grown to [members] *)
Inductive sop : Type :=
| SMsg (t : tmsg) (a1 : result view) (o : sobs)
| SGrow (members : list N).
Definition scase : Type := (cfg * N * list sop)%type.

(* interned world of the harness: genesis hash 1; block 2 at view 1 is stored everywhere *)
Definition the_store : store := fun h => if N.eqb h 2 then Some (mkBI 2 1) else None.

Fixpoint ins (x : N) (l : list N) : list N :=
  match l with [] => [x] | y :: r => if N.leb x y then x :: l else y :: ins x r end.
Fixpoint sortN (l : list N) : list N := match l with [] => [] | x :: r => ins x (sortN r) end.

Definition rcode {A} (r : result A) : N := match r with Ok _ => 0 | Reject => 1 | Panic => 2 end.
Definition parts (s : option qsig) : list N := match s with Some s => participants s | None => [] end.
Definition lN_eqb := list_eqb N.eqb.

(* a Multi lists its signers in slice order; a BLS bitfield is iterated in ascending id order *)
Definition parts_obs (s : option qsig) : list N :=
  match s with Some (QBls _ _) => sortN (parts s) | _ => parts s end.
Definition tc_obs (t : tc) : N * list N := (tc_view t, parts_obs (tc_sig t)).
Definition agg_obs (a : aggqc) : N * list N * list N :=
  (aq_view a, parts_obs (aq_sig a), sortN (map fst (map_of (aq_qcs a)))).

Definition tc_obs_eqb (a b : N * list N) : bool := N.eqb (fst a) (fst b) && lN_eqb (snd a) (snd b).
Definition agg_obs_eqb (a b : N * list N * list N) : bool :=
  N.eqb (fst (fst a)) (fst (fst b)) && lN_eqb (snd (fst a)) (snd (fst b)) && lN_eqb (snd a) (snd b).

Definition check_step (c : cfg) (s : sst) (t : tmsg) (a1 : result view) (o : sobs) : bool * sst :=
  let '(s', out) := on_remote_timeout c the_store s t a1 in
  let common := N.eqb (s_view s') (o_view o) && keys_eqb (map key_of (s_bag s')) (o_bag o) in
  let ok :=
    match out with
    | ORejected => N.eqb (o_code o) 1 && keys_eqb [] (o_handed o)
    | ONoQuorum => N.eqb (o_code o) 1 && keys_eqb [] (o_handed o)
    | ORuleFailed l => N.eqb (o_code o) 2 && keys_eqb (map key_of l) (o_handed o)
    | OFired l si =>
        N.eqb (o_code o) 3 && keys_eqb (map key_of l) (o_handed o) &&
        option_eqb tc_obs_eqb (Some (tc_obs (si_tc si))) (o_tc o) &&
        option_eqb agg_obs_eqb (option_map agg_obs (si_agg si)) (o_agg o) &&
        N.eqb (rcode (verify_tc c (si_tc si))) (o_vtc o) &&
        match si_agg si with
        | None => N.eqb (o_vagg o) 3
        | Some a =>
            match verify_aggqc c the_store a with
            | Ok h => N.eqb (o_vagg o) 0 && N.eqb (qc_view h) (o_hqv o)
            | Reject => N.eqb (o_vagg o) 1
            | Panic => N.eqb (o_vagg o) 2
            end
        end
    end in
  (common && ok, s').

Fixpoint scheck (c : cfg) (s : sst) (l : list sop) : bool :=
  match l with
  | [] => true
  | SMsg t a1 o :: r => let '(ok, s') := check_step c s t a1 o in ok && scheck c s' r
  | SGrow ms :: r => scheck (mkCfg (c_scheme c) ms (c_genesis c) (c_aggqc c)) s r
  end.

Definition check_scase (x : scase) : bool :=
  let '(c, c0, l) := x in scheck c (mkS c0 []) l.
Definition sync_mismatches := mismatches_with check_scase.

(* ---------- abbreviations used in the emitted terms ---------- *)
Definition kind_of (sch : scheme) : mkind := match sch with Eddsa => KEddsa | _ => KEcdsa end.
(* a single signature labelled [lab] (ECDSA/EdDSA signer field, BLS bitfield {lab}), really made
   by [who] over [m] *)
Definition G (sch : scheme) (lab who : N) (m : msg) : qsig :=
  match sch with
  | Bls12 => QBls [lab] (Some [(who, m)])
  | _ => QMulti (kind_of sch) [mkSig lab (Some (who, m))]
  end.
(* garbage bytes labelled [lab] (list schemes only; for BLS the harness uses a genuine signature
   over an unrelated message) *)
Definition X (sch : scheme) (lab : N) : qsig :=
  match sch with
  | Bls12 => QBls [lab] None
  | _ => QMulti (kind_of sch) [mkSig lab None]
  end.
(* two signatures in one object *)
Definition G2 (sch : scheme) (a b : N) (m : msg) : qsig :=
  match sch with
  | Bls12 => QBls [a; b] (Some [(a, m); (b, m)])
  | _ => QMulti (kind_of sch) [mkSig a (Some (a, m)); mkSig b (Some (b, m))]
  end.
(* genuine multi-signature by [ids] over [m] *)
Definition GM (sch : scheme) (ids : list N) (m : msg) : qsig :=
  match sch with
  | Bls12 => QBls ids (Some (map (fun i => (i, m)) ids))
  | _ => QMulti (kind_of sch) (map (fun i => mkSig i (Some (i, m))) ids)
  end.
Definition qc_gen : qc := mkQC None 0 1 1.
Definition qc_b1 (sch : scheme) (ids : list N) : qc := mkQC (Some (GM sch ids (MBlock 2))) 1 2 2.
Definition qc_forged : qc := mkQC None 9 3 3.

(* Correspondence for C16: the Go harness (harness/protocol/leaderrotation/c16_test.go) records what
   the real leader-rotation objects answered; every answer is recomputed here from the model. *)
From HS Require Import Base.Prelude Quorum.QuorumModel.
From HS Require Export Leader.LeaderModel.
Open Scope N_scope.

Definition result_eqb {A} (eqb : A -> A -> bool) (a b : result A) : bool :=
  match a, b with
  | Ok x, Ok y => eqb x y
  | Reject, Reject => true
  | Panic, Panic => true
  | _, _ => false
  end.

(* ---- stateless schemes: lossless run-length form -----------------------------------------
   (scheme, config of the instance, first view v0, number of views, answer at v0): the harness
   closes a segment as soon as the next Go answer is not the one predicted by [seg_next], so a
   segment stands for exactly the Go answers at v0, v0+1, ..., v0+len-1. *)
Definition seg_next (s : scheme) (c : config) (cur : result rid) : result rid :=
  match s, cur with
  | SRoundRobin, Ok l => Ok (Z.to_N (Z.rem (Z.of_N l) (c_n c)) + 1)
  | _, _ => cur
  end.

Fixpoint seg_run (fuel : nat) (s : scheme) (c : config) (v : N) (cur : result rid) : bool :=
  match fuel with
  | O => true
  | S k => result_eqb N.eqb (stateless_leader s c v) cur && seg_run k s c (v + 1) (seg_next s c cur)
  end.

Definition scase := (scheme * config * N * N * result rid)%type.
Definition check_scase (x : scase) : bool :=
  let '(s, c, v0, len, first) := x in
  N.leb (v0 + len) two64 && seg_run (N.to_nat len) s c v0 first.
Definition stateless_mismatches := mismatches_with check_scase.

(* ---- carousel ---------------------------------------------------------------------------
   [tab] lists (seed, rand.New(rand.NewSource(seed)).Int()) for the seeds the harness expects
   to be drawn; a seed outside the table reads as -1, which no Go draw can be. *)
Fixpoint ztab (t : list (Z * Z)) (k : Z) : Z :=
  match t with
  | [] => (-1)%Z
  | (a, b) :: r => if Z.eqb a k then b else ztab r k
  end.

Definition ccase := (config * Z * list (Z * Z) * head * N * result rid)%type.
Definition check_ccase (x : ccase) : bool :=
  let '(c, cl, tab, h, round, obs) := x in
  result_eqb N.eqb (carousel c cl (ztab tab) h round) obs.
Definition carousel_mismatches := mismatches_with check_ccase.

(* ---- reputation -------------------------------------------------------------------------
   float64 values travel as their IEEE bit patterns (math.Float64bits, as Z); the four float /
   library operations are finite tables recorded from Go.  A miss reads as an impossible value. *)
Definition bad_bits : Z := (-1)%Z.
Definition bad_id : N := 4294967296.                       (* not a uint32 *)

Fixpoint inc_tab (t : list (nat * Z * Z)) (votes : nat) (n : Z) : Z :=
  match t with
  | [] => bad_bits
  | (a, b, r) :: t' => if Nat.eqb a votes && Z.eqb b n then r else inc_tab t' votes n
  end.
Fixpoint add_tab (t : list (Z * Z * Z)) (x y : Z) : Z :=
  match t with
  | [] => bad_bits
  | (a, b, r) :: t' => if Z.eqb a x && Z.eqb b y then r else add_tab t' x y
  end.
Fixpoint w_tab (t : list (Z * N)) (x : Z) : N :=
  match t with
  | [] => two64
  | (a, r) :: t' => if Z.eqb a x then r else w_tab t' x
  end.
Definition weq (a b : rid * N) : bool := N.eqb (fst a) (fst b) && N.eqb (snd a) (snd b).
Fixpoint pick_tab (t : list (list (rid * N) * Z * option rid)) (ws : list (rid * N)) (seed : Z) : option rid :=
  match t with
  | [] => Some bad_id
  | (a, b, r) :: t' => if list_eqb weq a ws && Z.eqb b seed then r else pick_tab t' ws seed
  end.

Definition rtabs := (list (nat * Z * Z) * list (Z * Z * Z) * list (Z * N) * list (list (rid * N) * Z * option rid))%type.

Definition rep_get_z := @rep_get Z 0%Z.
Definition state_eqb (a b : N * list (rid * Z)) : bool :=
  N.eqb (fst a) (fst b)
  && forallb (fun kv => Z.eqb (rep_get_z (snd b) (fst kv)) (snd kv)) (snd a)
  && forallb (fun kv => Z.eqb (rep_get_z (snd a) (fst kv)) (snd kv)) (snd b).

(* (config, chainLength, tables, state before, committed head, queried view, answer, state after) *)
Definition rcase := (config * Z * rtabs * (N * list (rid * Z)) * head * N * result rid * (N * list (rid * Z)))%type.
Definition check_rcase (x : rcase) : bool :=
  let '(c, cl, tabs, st, h, v, obs, st') := x in
  let '(ti, ta, tw, tp) := tabs in
  let '(a, st1) := reputation 0%Z (inc_tab ti) (add_tab ta) (w_tab tw) (pick_tab tp) c cl st h v in
  result_eqb N.eqb a obs && state_eqb st1 st'.
Definition reputation_mismatches := mismatches_with check_rcase.

(* Correspondence for C11.  One case = one operation sequence driven against a fresh
   cert.Authority with the cache switched on (capacity [cap]) and, in lock step, against one
   without cache.  The uncached instance's results are the scheme V of the model (they are what
   cache.impl returns); the kernel recomputes, per operation, the cached instance's verdict,
   whether cache.impl was called, and the number of cached entries.                           *)
From HS Require Import Base.Prelude SigCache.SigCacheModel.

(* byte literals: named constants x00 .. xff (numerals are slow to parse in bulk) *)
Definition x00 : N := 0%N.
Definition x01 : N := 1%N.
Definition x02 : N := 2%N.
Definition x03 : N := 3%N.
Definition x04 : N := 4%N.
Definition x05 : N := 5%N.
Definition x06 : N := 6%N.
Definition x07 : N := 7%N.
Definition x08 : N := 8%N.
Definition x09 : N := 9%N.
Definition x0a : N := 10%N.
Definition x0b : N := 11%N.
Definition x0c : N := 12%N.
Definition x0d : N := 13%N.
Definition x0e : N := 14%N.
Definition x0f : N := 15%N.
Definition x10 : N := 16%N.
Definition x11 : N := 17%N.
Definition x12 : N := 18%N.
Definition x13 : N := 19%N.
Definition x14 : N := 20%N.
Definition x15 : N := 21%N.
Definition x16 : N := 22%N.
Definition x17 : N := 23%N.
Definition x18 : N := 24%N.
Definition x19 : N := 25%N.
Definition x1a : N := 26%N.
Definition x1b : N := 27%N.
Definition x1c : N := 28%N.
Definition x1d : N := 29%N.
Definition x1e : N := 30%N.
Definition x1f : N := 31%N.
Definition x20 : N := 32%N.
Definition x21 : N := 33%N.
Definition x22 : N := 34%N.
Definition x23 : N := 35%N.
Definition x24 : N := 36%N.
Definition x25 : N := 37%N.
Definition x26 : N := 38%N.
Definition x27 : N := 39%N.
Definition x28 : N := 40%N.
Definition x29 : N := 41%N.
Definition x2a : N := 42%N.
Definition x2b : N := 43%N.
Definition x2c : N := 44%N.
Definition x2d : N := 45%N.
Definition x2e : N := 46%N.
Definition x2f : N := 47%N.
Definition x30 : N := 48%N.
Definition x31 : N := 49%N.
Definition x32 : N := 50%N.
Definition x33 : N := 51%N.
Definition x34 : N := 52%N.
Definition x35 : N := 53%N.
Definition x36 : N := 54%N.
Definition x37 : N := 55%N.
Definition x38 : N := 56%N.
Definition x39 : N := 57%N.
Definition x3a : N := 58%N.
Definition x3b : N := 59%N.
Definition x3c : N := 60%N.
Definition x3d : N := 61%N.
Definition x3e : N := 62%N.
Definition x3f : N := 63%N.
Definition x40 : N := 64%N.
Definition x41 : N := 65%N.
Definition x42 : N := 66%N.
Definition x43 : N := 67%N.
Definition x44 : N := 68%N.
Definition x45 : N := 69%N.
Definition x46 : N := 70%N.
Definition x47 : N := 71%N.
Definition x48 : N := 72%N.
Definition x49 : N := 73%N.
Definition x4a : N := 74%N.
Definition x4b : N := 75%N.
Definition x4c : N := 76%N.
Definition x4d : N := 77%N.
Definition x4e : N := 78%N.
Definition x4f : N := 79%N.
Definition x50 : N := 80%N.
Definition x51 : N := 81%N.
Definition x52 : N := 82%N.
Definition x53 : N := 83%N.
Definition x54 : N := 84%N.
Definition x55 : N := 85%N.
Definition x56 : N := 86%N.
Definition x57 : N := 87%N.
Definition x58 : N := 88%N.
Definition x59 : N := 89%N.
Definition x5a : N := 90%N.
Definition x5b : N := 91%N.
Definition x5c : N := 92%N.
Definition x5d : N := 93%N.
Definition x5e : N := 94%N.
Definition x5f : N := 95%N.
Definition x60 : N := 96%N.
Definition x61 : N := 97%N.
Definition x62 : N := 98%N.
Definition x63 : N := 99%N.
Definition x64 : N := 100%N.
Definition x65 : N := 101%N.
Definition x66 : N := 102%N.
Definition x67 : N := 103%N.
Definition x68 : N := 104%N.
Definition x69 : N := 105%N.
Definition x6a : N := 106%N.
Definition x6b : N := 107%N.
Definition x6c : N := 108%N.
Definition x6d : N := 109%N.
Definition x6e : N := 110%N.
Definition x6f : N := 111%N.
Definition x70 : N := 112%N.
Definition x71 : N := 113%N.
Definition x72 : N := 114%N.
Definition x73 : N := 115%N.
Definition x74 : N := 116%N.
Definition x75 : N := 117%N.
Definition x76 : N := 118%N.
Definition x77 : N := 119%N.
Definition x78 : N := 120%N.
Definition x79 : N := 121%N.
Definition x7a : N := 122%N.
Definition x7b : N := 123%N.
Definition x7c : N := 124%N.
Definition x7d : N := 125%N.
Definition x7e : N := 126%N.
Definition x7f : N := 127%N.
Definition x80 : N := 128%N.
Definition x81 : N := 129%N.
Definition x82 : N := 130%N.
Definition x83 : N := 131%N.
Definition x84 : N := 132%N.
Definition x85 : N := 133%N.
Definition x86 : N := 134%N.
Definition x87 : N := 135%N.
Definition x88 : N := 136%N.
Definition x89 : N := 137%N.
Definition x8a : N := 138%N.
Definition x8b : N := 139%N.
Definition x8c : N := 140%N.
Definition x8d : N := 141%N.
Definition x8e : N := 142%N.
Definition x8f : N := 143%N.
Definition x90 : N := 144%N.
Definition x91 : N := 145%N.
Definition x92 : N := 146%N.
Definition x93 : N := 147%N.
Definition x94 : N := 148%N.
Definition x95 : N := 149%N.
Definition x96 : N := 150%N.
Definition x97 : N := 151%N.
Definition x98 : N := 152%N.
Definition x99 : N := 153%N.
Definition x9a : N := 154%N.
Definition x9b : N := 155%N.
Definition x9c : N := 156%N.
Definition x9d : N := 157%N.
Definition x9e : N := 158%N.
Definition x9f : N := 159%N.
Definition xa0 : N := 160%N.
Definition xa1 : N := 161%N.
Definition xa2 : N := 162%N.
Definition xa3 : N := 163%N.
Definition xa4 : N := 164%N.
Definition xa5 : N := 165%N.
Definition xa6 : N := 166%N.
Definition xa7 : N := 167%N.
Definition xa8 : N := 168%N.
Definition xa9 : N := 169%N.
Definition xaa : N := 170%N.
Definition xab : N := 171%N.
Definition xac : N := 172%N.
Definition xad : N := 173%N.
Definition xae : N := 174%N.
Definition xaf : N := 175%N.
Definition xb0 : N := 176%N.
Definition xb1 : N := 177%N.
Definition xb2 : N := 178%N.
Definition xb3 : N := 179%N.
Definition xb4 : N := 180%N.
Definition xb5 : N := 181%N.
Definition xb6 : N := 182%N.
Definition xb7 : N := 183%N.
Definition xb8 : N := 184%N.
Definition xb9 : N := 185%N.
Definition xba : N := 186%N.
Definition xbb : N := 187%N.
Definition xbc : N := 188%N.
Definition xbd : N := 189%N.
Definition xbe : N := 190%N.
Definition xbf : N := 191%N.
Definition xc0 : N := 192%N.
Definition xc1 : N := 193%N.
Definition xc2 : N := 194%N.
Definition xc3 : N := 195%N.
Definition xc4 : N := 196%N.
Definition xc5 : N := 197%N.
Definition xc6 : N := 198%N.
Definition xc7 : N := 199%N.
Definition xc8 : N := 200%N.
Definition xc9 : N := 201%N.
Definition xca : N := 202%N.
Definition xcb : N := 203%N.
Definition xcc : N := 204%N.
Definition xcd : N := 205%N.
Definition xce : N := 206%N.
Definition xcf : N := 207%N.
Definition xd0 : N := 208%N.
Definition xd1 : N := 209%N.
Definition xd2 : N := 210%N.
Definition xd3 : N := 211%N.
Definition xd4 : N := 212%N.
Definition xd5 : N := 213%N.
Definition xd6 : N := 214%N.
Definition xd7 : N := 215%N.
Definition xd8 : N := 216%N.
Definition xd9 : N := 217%N.
Definition xda : N := 218%N.
Definition xdb : N := 219%N.
Definition xdc : N := 220%N.
Definition xdd : N := 221%N.
Definition xde : N := 222%N.
Definition xdf : N := 223%N.
Definition xe0 : N := 224%N.
Definition xe1 : N := 225%N.
Definition xe2 : N := 226%N.
Definition xe3 : N := 227%N.
Definition xe4 : N := 228%N.
Definition xe5 : N := 229%N.
Definition xe6 : N := 230%N.
Definition xe7 : N := 231%N.
Definition xe8 : N := 232%N.
Definition xe9 : N := 233%N.
Definition xea : N := 234%N.
Definition xeb : N := 235%N.
Definition xec : N := 236%N.
Definition xed : N := 237%N.
Definition xee : N := 238%N.
Definition xef : N := 239%N.
Definition xf0 : N := 240%N.
Definition xf1 : N := 241%N.
Definition xf2 : N := 242%N.
Definition xf3 : N := 243%N.
Definition xf4 : N := 244%N.
Definition xf5 : N := 245%N.
Definition xf6 : N := 246%N.
Definition xf7 : N := 247%N.
Definition xf8 : N := 248%N.
Definition xf9 : N := 249%N.
Definition xfa : N := 250%N.
Definition xfb : N := 251%N.
Definition xfc : N := 252%N.
Definition xfd : N := 253%N.
Definition xfe : N := 254%N.
Definition xff : N := 255%N.

(* signature byte strings by index into a per-case table *)
Definition sref := nat.
Definition resolve (tbl : list bytes) (r : sref) : bytes := nth r tbl [].

Inductive csig :=
| CMulti (k : kind) (parts : list (rid * sref))
| CBls (ids : list rid) (pt : sref)
| CNil.
Definition sig_of (tbl : list bytes) (s : csig) : qsig :=
  match s with
  | CMulti k parts => SMulti k (map (fun '(i, r) => (i, resolve tbl r)) parts)
  | CBls ids pt => SBls ids (resolve tbl pt)
  | CNil => SNil
  end.

Inductive cop :=
| CSign (m : bytes) (r : option csig)                  (* r: signature returned by the cached instance *)
| CVerify (s : csig) (m : bytes) (v : verdict)         (* v: verdict of the uncached instance *)
| CBatch (s : csig) (b : batch) (v : verdict)
| CCombine (ss : list csig) (r : option csig).         (* r: result of the uncached instance *)

(* observation on the cached instance *)
Inductive cobs :=
| ObsV (v : verdict) (called : bool) (len : nat)
| ObsC (r : option csig) (called : bool) (len : nat).

Definition case := (nat * list bytes * list (cop * cobs))%type.

Section Check.
  Variable kd : keyderiv.

  (* cached_step consults the scheme only at the operation's own arguments, so the scheme can
     be instantiated per operation by the uncached instance's answer *)
  Definition step_obs (tbl : list bytes) (c : lru) (o : cop) : out * bool * lru :=
    match o with
    | CSign m r =>
        cached_step (fun _ _ => VReject) (fun _ _ => VReject) (fun _ => None) kd c (OSign m (option_map (sig_of tbl) r))
    | CVerify s m v =>
        cached_step (fun _ _ => v) (fun _ _ => v) (fun _ => None) kd c (OVerify (sig_of tbl s) m)
    | CBatch s b v =>
        cached_step (fun _ _ => v) (fun _ _ => v) (fun _ => None) kd c (OBatch (sig_of tbl s) b)
    | CCombine ss r =>
        cached_step (fun _ _ => VReject) (fun _ _ => VReject) (fun _ => option_map (sig_of tbl) r) kd c (OCombine (map (sig_of tbl) ss))
    end.

  Definition obs_ok (tbl : list bytes) (x : out * bool * lru) (o : cobs) : bool :=
    let '(res, called, c) := x in
    match res, o with
    | OutV v, ObsV v' called' len' =>
        verdict_eqb v v' && Bool.eqb called called' && Nat.eqb (length (order c)) len'
    | OutC r, ObsC r' called' len' =>
        option_eqb qsig_eqb r (option_map (sig_of tbl) r') && Bool.eqb called called' && Nat.eqb (length (order c)) len'
    | _, _ => false
    end.

  Fixpoint run_check (tbl : list bytes) (c : lru) (l : list (cop * cobs)) : bool :=
    match l with
    | [] => true
    | (o, ob) :: r =>
        let x := step_obs tbl c o in
        if obs_ok tbl x ob then run_check tbl (snd x) r else false
    end.

  Definition check_case (cs : case) : bool :=
    let '(cp, tbl, l) := cs in run_check tbl (empty cp) l.
End Check.

Definition mismatches := mismatches_with (check_case (fixed_kd sha_toy)).
(* the same observations against the derivation of the tree as found; used (by hand, with
   VERIF_C11_MODEL=legacy) to confirm that [legacy_kd] is the unpatched code *)
Definition mismatches_legacy := mismatches_with (check_case (legacy_kd sha_toy)).

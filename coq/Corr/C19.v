(* Correspondence for C19: the Go harness (harness/security/crypto/c19_test.go) runs operation
   sequences on live crypto.Bitfield values and Sign/Combine of the three schemes with real keys;
   every observation is recomputed here from the model inside the kernel. *)
From HS Require Import Base.Prelude IDSet.BitfieldModel IDSet.MultiModel.
Open Scope N_scope.

Definition obs_eqb (a b : obs) : bool :=
  match a, b with
  | BUnit, BUnit => true
  | BBool x, BBool y => Bool.eqb x y
  | BLen x, BLen y => Nat.eqb x y
  | BIds x, BIds y => list_eqb N.eqb x y
  | BBytes x, BBytes y => list_eqb N.eqb x y
  | BPanic, BPanic => true
  | _, _ => false
  end.

(* ---- stream "ops": (initial bytes, operations, observations) ----
   The Go value starts as BitfieldFromBytes(init) (init = [] also stands for the zero value). *)
Definition bf_case := (list N * list op * list obs)%type.
Definition check_bf (c : bf_case) : bool :=
  let '(init, ops, ob) := c in list_eqb obs_eqb (run_ops ops (from_bytes init)) ob.
Definition bf_mismatches := mismatches_with check_bf.

(* ---- stream "fb2": BitfieldFromBytes on every two-byte string with first byte b0:
   observed (Len, ForEach ids) for second byte 0..255 ---- *)
Definition fb2_case := (N * list (nat * list N))%type.
Definition bytes256 : list N := map N.of_nat (seq 0 256).
Definition pair_eqb (a b : nat * list N) : bool :=
  Nat.eqb (fst a) (fst b) && list_eqb N.eqb (snd a) (snd b).
Definition check_fb2 (c : fb2_case) : bool :=
  let '(b0, ob) := c in
  list_eqb pair_eqb (map (fun b1 => let bf := from_bytes [b0; b1] in (len bf, enum bf)) bytes256) ob.
Definition fb2_mismatches := mismatches_with check_fb2.

(* ---- stream "multi": Combine of ECDSA / EdDSA signer lists ----
   (arguments, observed result, observed Len of the result, Contains probes on the result,
    RangeWhile stopping after k calls) ; for an error result Len = 0 and no probes *)
Definition cres_eqb {A} (e : A -> A -> bool) (a b : cres A) : bool :=
  match a, b with
  | COk x, COk y => e x y
  | CErrMultiple, CErrMultiple => true
  | CErrOverlap, CErrOverlap => true
  | CErrType, CErrType => true
  | CPanic, CPanic => true
  | _, _ => false
  end.

Definition cres_map {A B} (f : A -> B) (r : cres A) : cres B :=
  match r with
  | COk a => COk (f a) | CErrMultiple => CErrMultiple | CErrOverlap => CErrOverlap
  | CErrType => CErrType | CPanic => CPanic
  end.
(* The slice order of a combined Multi is not part of the property: the observed signer list is
   compared as a sorted set, and the early-exit iteration as "the right number of distinct members". *)
Fixpoint insert_sorted (x : N) (l : list N) : list N :=
  match l with
  | [] => [x]
  | y :: r => if x <=? y then x :: l else y :: insert_sorted x r
  end.
Definition sort_ids (l : list N) : list N := fold_right insert_sorted [] l.
Fixpoint nodupb (l : list N) : bool :=
  match l with [] => true | x :: r => negb (existsb (N.eqb x) r) && nodupb r end.

Definition m_case := (list marg * cres multi * nat * list (N * bool) * (nat * list N))%type.
Definition check_m (c : m_case) : bool :=
  let '(args, r, l, probes, (k, rk)) := c in
  let r' := m_combine args in
  cres_eqb (list_eqb N.eqb) (cres_map sort_ids r') r &&
  match r' with
  | COk m => Nat.eqb (m_len m) l
             && forallb (fun p => Bool.eqb (m_contains (fst p) m) (snd p)) probes
             && Nat.eqb (length rk) (length (m_range_count k m))
             && forallb (fun x => m_contains x m) rk && nodupb rk
  | _ => Nat.eqb l 0
  end.
Definition m_mismatches := mismatches_with check_m.

(* ---- stream "msign": Sign by replica i yields the one-element list ---- *)
Definition ms_case := (N * list N * nat)%type.
Definition check_ms (c : ms_case) : bool :=
  let '(i, enumd, l) := c in list_eqb N.eqb (m_enum (m_sign i)) enumd && Nat.eqb (m_len (m_sign i)) l.
Definition ms_mismatches := mismatches_with check_ms.

(* ---- stream "bls": Combine of BLS aggregates; an argument is given by the bytes of its
   participants field (None = foreign type); result = (bytes, Len, ForEach ids) ---- *)
Definition b_case := (list (option (list N)) * cres (list N * nat * list N))%type.
Definition triple_eqb (a b : list N * nat * list N) : bool :=
  let '(x1, y1, z1) := a in let '(x2, y2, z2) := b in
  list_eqb N.eqb x1 x2 && Nat.eqb y1 y2 && list_eqb N.eqb z1 z2.
Definition check_b (c : b_case) : bool :=
  let '(args, r) := c in
  let r' := b_combine (map (option_map from_bytes) args) in
  cres_eqb triple_eqb (cres_map (fun p => (bytes p, len p, enum p)) r') r.
Definition b_mismatches := mismatches_with check_b.

(* ---- stream "bsign": BLS Sign by replica i: participants = Add(i) on the zero value ---- *)
Definition bs_case := (N * list N * nat)%type.
Definition check_bs (c : bs_case) : bool :=
  let '(i, bs, l) := c in
  match b_sign i with
  | Ok p => list_eqb N.eqb (bytes p) bs && Nat.eqb (len p) l
  | _ => false
  end.
Definition bs_mismatches := mismatches_with check_bs.

(* ---- stream "mset": the IDSet methods of a Multi built by NewMulti (sorted = false) or
   NewMultiSorted (sorted = true) from an arbitrary signer list (unsorted, repetitions, ids 0 and
   2^32-1): (sorted, given signers, ForEach ids, Len, Contains probes, (k, RangeWhile after k)) ---- *)
Definition mset_case := (bool * list N * list N * nat * list (N * bool) * (nat * list N))%type.
Definition check_mset (c : mset_case) : bool :=
  let '(sorted, given, enumd, l, probes, (k, rk)) := c in
  let m := if sorted then m_new_sorted given else m_new given in
  list_eqb N.eqb (m_enum m) enumd && Nat.eqb (m_len m) l
  && forallb (fun p => Bool.eqb (m_contains (fst p) m) (snd p)) probes
  && list_eqb N.eqb (m_range_count k m) rk.
Definition mset_mismatches := mismatches_with check_mset.

(* ---- streams "alias_*": signature values are independent of each other. After an Add through
   the participant set of value number m, every OTHER value must still be what the model says it
   was: (participant bytes before, m, observed (Bytes, Len, ForEach) of every value afterwards);
   the mutated value itself is not compared (a Bitfield and its own copies share bytes). ---- *)
Definition alias_b_case := (list (list N) * nat * list (list N * nat * list N))%type.
Fixpoint check_alias_b_from (i m : nat) (before : list (list N)) (after : list (list N * nat * list N)) : bool :=
  match before, after with
  | [], [] => true
  | b :: br, a :: ar =>
      (Nat.eqb i m || triple_eqb (let p := from_bytes b in (bytes p, len p, enum p)) a)
      && check_alias_b_from (S i) m br ar
  | _, _ => false
  end.
Definition check_alias_b (c : alias_b_case) : bool :=
  let '(before, m, after) := c in check_alias_b_from 0 m before after.
Definition alias_b_mismatches := mismatches_with check_alias_b.

(* the same for signer lists: (signer lists before, m, observed (ForEach, Len) afterwards) *)
Definition alias_m_case := (list (list N) * nat * list (list N * nat))%type.
Fixpoint check_alias_m_from (i m : nat) (before : list (list N)) (after : list (list N * nat)) : bool :=
  match before, after with
  | [], [] => true
  | b :: br, a :: ar =>
      (Nat.eqb i m || (list_eqb N.eqb (m_enum b) (fst a) && Nat.eqb (m_len b) (snd a)))
      && check_alias_m_from (S i) m br ar
  | _, _ => false
  end.
Definition check_alias_m (c : alias_m_case) : bool :=
  let '(before, m, after) := c in check_alias_m_from 0 m before after.
Definition alias_m_mismatches := mismatches_with check_alias_m.

(* Correspondence for C06.  Two case types.
   (1) [ccase]: a trace of operations on one real server.ClientIO (registrations of waiting
       ExecCommand callers, Exec batches, Abort batches) with, after every step, the observed
       cmdCount, lastExecutedSeqNum, bytes appended to the hash preimage (decoded by the harness
       from Hash()), the ids still in awaitingCmds and the outcomes delivered to the waiters.
   (2) [rcase]: a trace of operations on one real Committer + Blockchain + ViewStates + ClientIO
       sharing an event loop (blocks stored, TryCommit with the commit rule's answer scripted),
       with the events observed at AddEvent time, the committed block and the ClientIO's count /
       appended bytes after the loop was drained.  The AbortEvent batches (PruneToHeight's answer,
       the block store's business) are an input of the model; their position after all
       ExecuteEvents is what is checked.
   Every observation is recomputed from ExecModel.v. *)
From HS Require Import Base.Prelude Exec.ExecModel.
Open Scope N_scope.

(* ---------- shared comparisons ---------- *)
Definition map_sub (a b : list (N * N)) : bool :=
  forallb (fun '(k, v) => option_eqb N.eqb (le_get b k) (Some v)) a.
Definition map_equiv (a b : list (N * N)) : bool :=
  map_sub a b && map_sub b a && Nat.eqb (length a) (length b).

Definition id_mem (l : list cmdid) (x : cmdid) : bool := existsb (cmdid_eqb x) l.
Definition ids_equiv (a b : list cmdid) : bool :=
  Nat.eqb (length a) (length b) && forallb (id_mem b) a && forallb (id_mem a) b.

Definition wo_eqb (a b : N * bool) : bool := N.eqb (fst a) (fst b) && Bool.eqb (snd a) (snd b).
Definition wo_mem (l : list (N * bool)) (x : N * bool) : bool := existsb (wo_eqb x) l.
Definition deliv_proj (d : list delivery) : list (N * bool) :=
  map (fun '(_, w, o) => (w, outcome_eqb o OSuccess)) d.
Definition deliv_equiv (model : list delivery) (obs : list (N * bool)) : bool :=
  let m := deliv_proj model in
  Nat.eqb (length m) (length obs) && forallb (wo_mem obs) m && forallb (wo_mem m) obs.

Definition bytes_eqb := list_eqb N.eqb.

(* ---------- (1) ClientIO traces ---------- *)
Record cobs := mkCobs {
  o_count : N;
  o_last  : list (N * N);
  o_delta : list N;
  o_await : list cmdid;
  o_deliv : list (N * bool)      (* waiter token, true = nil error *)
}.
Definition ccase := (list (cev * cobs) * list N)%type.   (* steps, final preimage of Hash() *)

Fixpoint check_csteps (s : cio) (l : list (cev * cobs)) : bool * cio :=
  match l with
  | [] => (true, s)
  | (e, o) :: r =>
      let '(s1, x, d) := cstep s e in
      if N.eqb (count s1) (o_count o)
         && map_equiv (last_exec s1) (o_last o)
         && bytes_eqb (payload x) (o_delta o)
         && ids_equiv (map fst (awaiting s1)) (o_await o)
         && deliv_equiv d (o_deliv o)
      then check_csteps s1 r else (false, s1)
  end.

Definition check_ccase (c : ccase) : bool :=
  let '(steps, fin) := c in
  let '(ok, s) := check_csteps cio_init steps in
  ok && bytes_eqb (digest s) fin.
Definition cio_mismatches := mismatches_with check_ccase.

(* ---------- (2) committer + ClientIO on one event loop ---------- *)
Record robs := mkRobs {
  ro_res       : N;            (* 0 = TryCommit returned nil, 1 = error, 2 = panic *)
  ro_events    : list emit;    (* CommitEvent / ExecuteEvent / AbortEvent in AddEvent order *)
  ro_committed : hash;         (* viewStates.CommittedBlock().Hash() *)
  ro_count     : N;            (* ClientIO.CmdCount() after draining the loop *)
  ro_delta     : list N        (* bytes appended to the preimage of ClientIO.Hash() *)
}.
Definition rcase := list (rop * robs).

Definition cmds_eqb := list_eqb cmd_eqb.
Definition emit_eqb (a b : emit) : bool :=
  match a, b with
  | EmCommit x, EmCommit y => N.eqb x y
  | EmExec x, EmExec y => cmds_eqb x y
  | EmAbort x, EmAbort y => cmds_eqb x y
  | _, _ => false
  end.

Definition res_matches (r : result (list emit)) (o : robs) : bool :=
  match r with
  | Ok es => N.eqb (ro_res o) 0 && list_eqb emit_eqb es (ro_events o)
  | Reject => N.eqb (ro_res o) 1 && match ro_events o with [] => true | _ => false end
  | Panic => N.eqb (ro_res o) 2
  end.

Fixpoint check_rsteps (r : replica) (l : list (rop * robs)) : bool :=
  match l with
  | [] => true
  | (op, o) :: rest =>
      let '(r1, res, x, _) := rstep r op in
      res_matches res o
      && N.eqb (b_hash (r_committed r1)) (ro_committed o)
      && N.eqb (count (r_cio r1)) (ro_count o)
      && bytes_eqb (payload x) (ro_delta o)
      && check_rsteps r1 rest
  end.

Definition check_rcase (c : rcase) : bool := check_rsteps replica_init c.
Definition replica_mismatches := mismatches_with check_rcase.

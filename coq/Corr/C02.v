(* Correspondence for C02: the Go harness (harness/security/cert/c02_test.go) builds certificates
   with real keys, records for every signature object what it really is (ground truth), runs
   cert.Authority.Verify* / Create* and crypto.Base.Verify / BatchVerify / Combine on them and emits
   one case per call; the kernel recomputes the verdict (and the high QC / assembled certificate)
   from the model. *)
From HS Require Import Base.Prelude Crypto.Symbolic Crypto.SchemeModel Cert.CertModel Cert.CertPopModel.

(* compact constructors used in the emitted terms *)
Definition sg (i : rid) (m : msg) : sig1 := mkSig i (Some (i, m)).          (* genuine, correctly labelled *)
Definition sr (cl i : rid) (m : msg) : sig1 := mkSig cl (Some (i, m)).      (* genuine by i, labelled cl *)
Definition sx (cl : rid) : sig1 := mkSig cl None.                           (* bytes nobody signed *)
Definition B := MBlock.
Definition V := MView.
Definition T (i : rid) (v : view) (d : N) := MTimeout i v (Some d).
Definition T0 (i : rid) (v : view) := MTimeout i v None.

(* store as a binding list hash -> (hash, view) *)
Definition store_of (l : list (hash * (hash * view))) : store :=
  fun h => match lookupN h l with Some (h', v) => Some (mkBI h' v) | None => None end.

Inductive obs : Type := OOk | ORej | OPanic.

(* verdict comparison.  A nil dereference predicted by the model (absent TC / AggQC signature) is
   also matched by a clean rejection: that crash class belongs to C10 and guarding it must not
   raise an alarm here.  A panic where the model predicts Ok/Reject is a mismatch. *)
Definition verdict_ok {A} (m : result A) (o : obs) : bool :=
  match m, o with
  | Ok _, OOk => true
  | Reject, ORej => true
  | Panic, OPanic => true
  | Panic, ORej => true
  | _, _ => false
  end.

(* ---- VerifyQuorumCert ---- *)
Definition qc_case := (cfg * list (hash * (hash * view)) * qc * obs)%type.
Definition check_qc (x : qc_case) : bool :=
  let '(c, st, q, o) := x in verdict_ok (verify_qc c (store_of st) q) o.
Definition qc_mismatches := mismatches_with check_qc.

(* ---- VerifyTimeoutCert ---- *)
Definition tc_case := (cfg * tc * obs)%type.
Definition check_tc (x : tc_case) : bool :=
  let '(c, t, o) := x in verdict_ok (verify_tc c t) o.
Definition tc_mismatches := mismatches_with check_tc.

(* ---- VerifyAggregateQC: verdict and, when accepted, the digest and view of the returned QC,
   which must be one of the admissible highest valid QCs ---- *)
Definition agg_case := (cfg * list (hash * (hash * view)) * aggqc * obs * (qcdigest * view))%type.
Definition check_agg (x : agg_case) : bool :=
  let '(c, st, a, o, (d, hv)) := x in
  let m := verify_aggqc c (store_of st) a in
  verdict_ok m o &&
  match m, o with
  | Ok h, OOk => N.eqb (qc_view h) hv &&
                 admissible_highb c (store_of st) (aggqc_pool (map_of (aq_qcs a))) d hv
  | _, _ => true
  end.
Definition agg_mismatches := mismatches_with check_agg.

(* ---- VerifyAnyQC: the block's QC and the optional AggregateQC.  Which of several equal-view
   valid QCs Go's VerifyAggregateQC returns is not determined, so the observed verdict must be the
   model's verdict for SOME admissible high QC. ---- *)
Definition any_case := (cfg * list (hash * (hash * view)) * qc * option aggqc * obs)%type.
Definition check_any (x : any_case) : bool :=
  let '(c, st, bq, ag, o) := x in
  let s := store_of st in
  match (if c_aggqc c then ag else None) with
  | Some a =>
      match verify_aggqc c s a with
      | Ok h => existsb (fun q => N.eqb (qc_view q) (qc_view h) && qc_valid c s q &&
                                  verdict_ok (verify_any_qc_with c s bq ag (fun _ => Ok q)) o)
                        (aggqc_pool (map_of (aq_qcs a)))
      | r => verdict_ok (verify_any_qc_with c s bq ag (fun _ => r)) o
      end
  | None => verdict_ok (verify_any_qc c s bq ag) o
  end.
Definition any_mismatches := mismatches_with check_any.

(* ---- Create*: assembled certificate (None = error) compared structurally ---- *)
Definition sig1_eqb (a b : sig1) : bool :=
  N.eqb (s_claimed a) (s_claimed b) && option_eqb contrib_eqb (s_real a) (s_real b).
Definition qsig_eqb (a b : qsig) : bool :=
  match a, b with
  | QMulti k l, QMulti k' l' => mkind_eqb k k' && list_eqb sig1_eqb l l'
  | QBls bits r, QBls bits' r' =>
      Nat.eqb (length bits) (length bits') && forallb (fun i => memN i bits') bits && forallb (fun i => memN i bits) bits' &&
      match r, r' with Some x, Some y => multiset_eqb x y | None, None => true | _, _ => false end
  | _, _ => false
  end.
Definition qc_eqb (a b : qc) : bool :=
  option_eqb qsig_eqb (qc_sig a) (qc_sig b) && N.eqb (qc_view a) (qc_view b) &&
  N.eqb (qc_hash a) (qc_hash b) && N.eqb (qc_digest a) (qc_digest b).
Definition res_eqb {A} (eqb : A -> A -> bool) (m : result A) (o : option A) : bool :=
  match m, o with Ok a, Some b => eqb a b | Reject, None => true | _, _ => false end.

Definition mkqc_case := (cfg * (hash * view) * list qsig * qcdigest * option qc)%type.
Definition check_mkqc (x : mkqc_case) : bool :=
  let '(c, (h, v), sigs, d, o) := x in res_eqb qc_eqb (create_qc c (mkBI h v) sigs d) o.
Definition mkqc_mismatches := mismatches_with check_mkqc.

Definition tc_eqb (a b : tc) : bool :=
  option_eqb qsig_eqb (tc_sig a) (tc_sig b) && N.eqb (tc_view a) (tc_view b).
Definition mktc_case := (cfg * view * list qsig * option tc)%type.
Definition check_mktc (x : mktc_case) : bool :=
  let '(c, v, sigs, o) := x in res_eqb tc_eqb (create_tc c v sigs) o.
Definition mktc_mismatches := mismatches_with check_mktc.

(* the QC map is compared as a set of bindings (Go map order is arbitrary) *)
Definition binding_in (p : rid * qc) (l : list (rid * qc)) : bool :=
  existsb (fun r => N.eqb (fst p) (fst r) && qc_eqb (snd p) (snd r)) l.
Definition agg_eqb (a b : aggqc) : bool :=
  option_eqb qsig_eqb (aq_sig a) (aq_sig b) && N.eqb (aq_view a) (aq_view b) &&
  Nat.eqb (length (aq_qcs a)) (length (aq_qcs b)) &&
  forallb (fun p => binding_in p (aq_qcs b)) (aq_qcs a) &&
  forallb (fun p => binding_in p (aq_qcs a)) (aq_qcs b).
Definition mkagg_case := (cfg * view * list timeout * option aggqc)%type.
Definition check_mkagg (x : mkagg_case) : bool :=
  let '(c, v, ts, o) := x in res_eqb agg_eqb (create_aggqc c v ts) o.
Definition mkagg_mismatches := mismatches_with check_mkagg.

(* ---- crypto.Base directly: Verify / BatchVerify / Combine ---- *)
Definition sv_case := (scheme * list rid * qsig * msg * bool)%type.
Definition check_sv (x : sv_case) : bool :=
  let '(sch, mem, s, m, o) := x in Bool.eqb (scheme_verify mem sch s m) o.
Definition sv_mismatches := mismatches_with check_sv.

Definition sb_case := (scheme * list rid * qsig * list (rid * msg) * bool)%type.
Definition check_sb (x : sb_case) : bool :=
  let '(sch, mem, s, b, o) := x in Bool.eqb (scheme_batch_verify mem sch s (map_of b)) o.
Definition sb_mismatches := mismatches_with check_sb.

Definition sc_case := (scheme * list qsig * option qsig)%type.
Definition check_sc (x : sc_case) : bool :=
  let '(sch, sigs, o) := x in option_eqb qsig_eqb (scheme_combine sch sigs) o.
Definition sc_mismatches := mismatches_with check_sc.

(* ---- proof-of-possession aware streams (worlds in which a member's registered proof is bad) and
   VerifyAnyQC with QuorumCert.Equals at its real granularity ---- *)
Definition sd_of (l : list (qcdigest * N)) : qcdigest -> N :=
  fun d => match lookupN d l with Some s => s | None => 0%N end.

Definition qcp_case := (cfg * vctx * list (hash * (hash * view)) * qc * obs)%type.
Definition check_qcp (y : qcp_case) : bool :=
  let '(c, x, st, q, o) := y in verdict_ok (verify_qc_p c x (store_of st) q) o.
Definition qcp_mismatches := mismatches_with check_qcp.

Definition tcp_case := (cfg * vctx * tc * obs)%type.
Definition check_tcp (y : tcp_case) : bool :=
  let '(c, x, t, o) := y in verdict_ok (verify_tc_p c x t) o.
Definition tcp_mismatches := mismatches_with check_tcp.

Definition aggp_case := (cfg * vctx * list (hash * (hash * view)) * aggqc * obs * (qcdigest * view))%type.
Definition check_aggp (y : aggp_case) : bool :=
  let '(c, x, st, a, o, (d, hv)) := y in
  let m := verify_aggqc_p c x (store_of st) a in
  verdict_ok m o &&
  match m, o with
  | Ok h, OOk => N.eqb (qc_view h) hv &&
                 admissible_highb_p c x (store_of st) (aggqc_pool (map_of (aq_qcs a))) d hv
  | _, _ => true
  end.
Definition aggp_mismatches := mismatches_with check_aggp.

Definition anyp_case := (cfg * vctx * list (hash * (hash * view)) * list (qcdigest * N) * qc * option aggqc * obs)%type.
Definition check_anyp (y : anyp_case) : bool :=
  let '(c, x, st, sdl, bq, ag, o) := y in
  let s := store_of st in
  match (if c_aggqc c then ag else None) with
  | Some a =>
      match verify_aggqc_p c x s a with
      | Ok h => existsb (fun q => N.eqb (qc_view q) (qc_view h) && qc_valid_p c x s q &&
                                  verdict_ok (verify_any_qc_p c x s bq ag (fun _ => Ok q)) o)
                        (aggqc_pool (map_of (aq_qcs a)))
      | r => verdict_ok (verify_any_qc_p c x s bq ag (fun _ => r)) o
      end
  | None => verdict_ok (verify_any_qc_p c x s bq ag (fun r => r)) o
  end.
Definition anyp_mismatches := mismatches_with check_anyp.

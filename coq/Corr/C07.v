(* Correspondence for C07: every observation of the Go pacemaker is recomputed from the model.
   Two kinds of cases, both emitted by harness/protocol/synchronizer/c07_test.go:
     vsi_case   one call of TimeoutRuler.VerifySyncInfo: the verdicts of the parts (computed with the
                replica's own cert.Authority) and the (qc, view, timeout) / error it returned;
     step_case  one external stimulus followed by draining the event loop: the state before, the
                actions the handlers really performed, the state after and the emitted events. *)
From HS Require Import Base.Prelude Pacemaker.PacemakerModel.
Open Scope N_scope.

Definition vsi_obs : Type := option (option (hash * view) * view * bool).   (* None = error *)
Definition vsi_case : Type := (trule * sync_info * vsi_obs)%type.

Definition qcid_eqb (a b : hash * view) : bool := N.eqb (fst a) (fst b) && N.eqb (snd a) (snd b).

Definition check_vsi (c : vsi_case) : bool :=
  let '(r, si, obs) := c in
  match verify_sync_info r si, obs with
  | Ok (oq, v, t), Some (oq', v', t') =>
      option_eqb qcid_eqb (option_map (fun q => (q_hash q, q_label q)) oq) oq' && N.eqb v v' && Bool.eqb t t'
  | Reject, None => true
  | _, _ => false
  end.
Definition vsi_mismatches := mismatches_with check_vsi.

Definition state_eqb (a b : pm_state) : bool :=
  N.eqb (st_view a) (st_view b) && N.eqb (st_hq_hash a) (st_hq_hash b) && N.eqb (st_hq_view a) (st_hq_view b)
  && N.eqb (st_htc a) (st_htc b) && N.eqb (st_cview a) (st_cview b).

Definition vc_eqb (a b : view * bool) : bool := N.eqb (fst a) (fst b) && Bool.eqb (snd a) (snd b).

(* rule, state before, actions, state after, ViewChangeEvents in order, CommitEvent views in order *)
Definition step_case : Type := (trule * pm_state * list action * pm_state * list (view * bool) * list view)%type.

Definition check_step (c : step_case) : bool :=
  let '(r, st, acts, st', vcs, cms) := c in
  let '(m, evs) := run r st acts in
  state_eqb m st' && list_eqb vc_eqb (view_changes evs) vcs && list_eqb N.eqb (commits evs) cms.
Definition step_mismatches := mismatches_with check_step.

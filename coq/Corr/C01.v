(* Correspondence for C01: every observed history of the Go implementation (as a list of
   abstract events) must be accepted by the trace validator of Protocol.ChainedExec. *)
From Coq Require Import List NArith.
From HS Require Import Base.Prelude Protocol.Core Protocol.Chained Protocol.ChainedExec.
Import ListNotations.
Open Scope N_scope.

(* interning convention of the harness: zero hash = 0, genesis = 1 *)
Definition gen : block := {| b_hash := 1; b_parent := 0; b_view := 0; b_qc := 0 |}.
Definition mkb (h p v q : N) : block := {| b_hash := h; b_parent := p; b_view := v; b_qc := q |}.

Definition hist := (ruleset * list rid * list rid * list event)%type.

Definition check_hist (c : hist) : bool :=
  let '(rs, reps, byz, es) := c in
  config_ok reps byz gen &&
  match snd (run rs reps byz gen (init gen) es 0) with None => true | Some _ => false end.

Definition hist_mismatches := mismatches_with check_hist.

(* diagnosis helper: index of the first rejected event *)
Definition first_reject (c : hist) : option nat :=
  let '(rs, reps, byz, es) := c in snd (run rs reps byz gen (init gen) es 0).

From HS Require Import Protocol.Fast Protocol.FastExec.

Definition fhist := (list rid * list rid * list fevent)%type.

Definition check_fhist (c : fhist) : bool :=
  let '(reps, byz, es) := c in
  config_ok reps byz gen &&
  match snd (frun reps byz gen (Fast.init gen) es 0) with None => true | Some _ => false end.

Definition fhist_mismatches := mismatches_with check_fhist.

Definition ffirst_reject (c : fhist) : option nat :=
  let '(reps, byz, es) := c in snd (frun reps byz gen (Fast.init gen) es 0).

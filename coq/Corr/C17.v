(* Correspondence for C17: the Go harness builds real tree.Tree values (one per vantage replica)
   and records what their methods return; the kernel recomputes every value from TreeModel. *)
From HS Require Import Base.Prelude Tree.TreeModel.

(* Children, sub-tree and peer lists are sets for every user (kauri.go sends to each child,
   tests IsSubSet on the sub-tree); they are compared as multisets, so a change of enumeration
   order alone is not a difference while a repeated or missing replica is. *)
Fixpoint count_id (x : rid) (l : list rid) : nat :=
  match l with [] => 0 | y :: r => (if N.eqb y x then 1 else 0) + count_id x r end.
Definition ids_eqb (a b : list rid) : bool :=
  Nat.eqb (length a) (length b) && forallb (fun x => Nat.eqb (count_id x a) (count_id x b)) a.

(* what one replica's own Tree instance answered:
   (x, Parent() = (id, ok), ReplicaChildren, SubTree (None = not called), PeersOf,
    ReplicaHeight, TreeHeight, Root, IsRoot(x)) *)
Definition vobs := (rid * (rid * bool) * list rid * option (list rid) * list rid * nat * nat * rid * bool)%type.

(* one row of the per-instance query table: (y, ChildrenOf(y), IsRoot(y), heightOf(y)) *)
Definition yrow := (rid * list rid * bool * nat)%type.

(* (position list, branch factor, per-vantage observations, per-vantage query tables) *)
Definition case := (list rid * Z * list vobs * list (rid * list yrow))%type.

Definition check_vobs (ids : list rid) (bf : Z) (o : vobs) : bool :=
  let '(x, (pid, pok), ch, st, peers, rh, th, r, isr) := o in
  match new_simple x bf ids with
  | Ok t =>
      match parent t with
      | Ok (pid', pok') => N.eqb pid pid' && Bool.eqb pok pok'
      | _ => false
      end
      && ids_eqb ch (replica_children t)
      && match st with
         | None => true
         | Some l => match subtree t with Some l' => ids_eqb l l' | None => false end
         end
      && match peers_of t with Ok l' => ids_eqb peers l' | _ => false end
      && Nat.eqb rh (replica_height t)
      && Nat.eqb th (tree_height_m t)
      && match root t with Ok r' => N.eqb r r' | _ => false end
      && Bool.eqb isr (is_root t x)
  | _ => false
  end.

Definition check_row (t : tree) (r : yrow) : bool :=
  let '(y, ch, isr, h) := r in
  ids_eqb ch (children_of t y) && Bool.eqb isr (is_root t y) && Nat.eqb h (height_of t y).

Definition check_table (ids : list rid) (bf : Z) (tb : rid * list yrow) : bool :=
  let '(x, rows) := tb in
  match new_simple x bf ids with
  | Ok t => forallb (check_row t) rows
  | _ => false
  end.

Definition check_case (c : case) : bool :=
  let '(ids, bf, obs, tables) := c in
  forallb (check_vobs ids bf) obs && forallb (check_table ids bf) tables.
Definition mismatches := mismatches_with check_case.

(* constructor stream: (id, bf, ids, NewSimple panicked?, TreeHeight when it did not) *)
Definition ccase := (rid * Z * list rid * bool * nat)%type.
Definition check_ccase (c : ccase) : bool :=
  let '(x, bf, ids, panicked, th) := c in
  match new_simple x bf ids with
  | Ok t => negb panicked && Nat.eqb th (tree_height_m t)
  | Panic => panicked
  | Reject => false
  end.
Definition ctor_mismatches := mismatches_with check_ccase.

(* treeHeight(n, bf) called directly: (n, bf, observed) *)
Definition hcase := (nat * nat * nat)%type.
Definition check_hcase (c : hcase) : bool :=
  let '(n, bf, h) := c in Nat.eqb (tree_height n bf) h.
Definition height_mismatches := mismatches_with check_hcase.

(* ---- sessions: many queries, in arbitrary order and repeated, on long-lived instances ----
   The model is a pure function of (ids, bf, vantage), so every answer of a long-lived Go
   instance — whatever was asked before, by whom, on instances sharing one position slice or
   built through NewDelayed — must equal the model's answer for a fresh instance. *)
Inductive qobs : Type :=
| QParent (p : rid) (ok : bool)
| QReplicaChildren (l : list rid)
| QChildrenOf (y : rid) (l : list rid)
| QSubTree (l : list rid)
| QPeersOf (l : list rid)
| QReplicaHeight (h : nat)
| QTreeHeight (h : nat)
| QRoot (r : rid)
| QIsRoot (y : rid) (b : bool)
| QHeightOf (y : rid) (h : nat)
(* what the replica's Kauri module did with its tree when it handled a proposal: the ids it
   handed to Sender.Sub / proposed to ([] = no Sub call), and whether it sent its own
   contribution to the parent before returning *)
| QForwardsTo (l : list rid)
| QSendsAtOnce (b : bool).

Definition check_qobs (t : tree) (q : qobs) : bool :=
  match q with
  | QParent p ok => match parent t with Ok (p', ok') => N.eqb p p' && Bool.eqb ok ok' | _ => false end
  | QReplicaChildren l => ids_eqb l (replica_children t)
  | QChildrenOf y l => ids_eqb l (children_of t y)
  | QSubTree l => match subtree t with Some l' => ids_eqb l l' | None => false end
  | QPeersOf l => match peers_of t with Ok l' => ids_eqb l l' | _ => false end
  | QReplicaHeight h => Nat.eqb h (replica_height t)
  | QTreeHeight h => Nat.eqb h (tree_height_m t)
  | QRoot r => match root t with Ok r' => N.eqb r r' | _ => false end
  | QIsRoot y b => Bool.eqb b (is_root t y)
  | QHeightOf y h => Nat.eqb h (height_of t y)
  | QForwardsTo l => ids_eqb l (replica_children t)
  | QSendsAtOnce b => Bool.eqb b (match replica_children t with [] => true | _ => false end)
  end.

(* (position list, branch factor, the queries in the order they were made: (vantage, answer)) *)
Definition scase := (list rid * Z * list (rid * qobs))%type.
Definition check_scase (c : scase) : bool :=
  let '(ids, bf, qs) := c in
  forallb (fun xq => match new_simple (fst xq) bf ids with
                     | Ok t => check_qobs t (snd xq)
                     | _ => false
                     end) qs.
Definition session_mismatches := mismatches_with check_scase.

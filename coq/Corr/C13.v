(* Correspondence for C13: the Go harnesses drive a real Blockchain (and the real RequestBlockQF,
   the real Committer) with an operation sequence and record every return value plus, where the
   harness can see it, the final maps; the kernel re-runs the sequence on the model. *)
From HS Require Import Base.Prelude Store.StoreModel.
Open Scope N_scope.

Definition oblock_eqb := option_eqb block_eqb.
Definition blocks_eqb := list_eqb block_eqb.

Definition commit_result_eqb (a b : commit_result) : bool :=
  match a, b with
  | CErr, CErr => true
  | CDone e1 a1, CDone e2 a2 => blocks_eqb e1 e2 && blocks_eqb a1 a2
  | _, _ => false
  end.

Definition obs_eqb (a b : obs) : bool :=
  match a, b with
  | RUnit, RUnit => true
  | RBlock x, RBlock y => oblock_eqb x y
  | RBool x, RBool y => option_eqb Bool.eqb x y
  | RBlocks x, RBlocks y => blocks_eqb x y
  | RCommit x, RCommit y => commit_result_eqb x y
  | _, _ => false
  end.

(* equality of a model map with a dump of the Go map (sorted by key, one entry per key) *)
Definition map_matches (m dump : list (N * block)) : bool :=
  forallb (fun e => oblock_eqb (alookup (fst e) m) (Some (snd e))) dump
  && forallb (fun e => match alookup (fst e) dump with Some _ => true | None => false end) m.

(* what the harness saw of the final state: blocks, blockAtHeight (None when the harness is
   outside the package), pruneHeight, committed block (None when there is no committer) *)
Record dump := D {
  d_blocks : list (hash * block);
  d_at_height : option (list (view * block));
  d_prune : view;
  d_committed : option block
}.

Definition dump_matches (s : sys) (d : dump) : bool :=
  map_matches (blocks (s_store s)) (d_blocks d)
  && match d_at_height d with Some ah => map_matches (at_height (s_store s)) ah | None => true end
  && (prune_height (s_store s) =? d_prune d)
  && match d_committed d with Some c => block_eqb (s_committed s) c | None => true end.

(* filtered sender?, genesis, ops, observed results, observed final state *)
Record case := C {
  c_filtered : bool;
  c_genesis : block;
  c_ops : list op;
  c_obs : list obs;
  c_dump : dump
}.

Definition check_case (c : case) : bool :=
  let '(s, xs) := run (c_filtered c) (new_sys (c_genesis c)) (c_ops c) in
  list_eqb obs_eqb xs (c_obs c) && dump_matches s (c_dump c).
Definition mismatches := mismatches_with check_case.

(* RequestBlockQF alone: requested hash, replies, observed result *)
Definition qf_case := (hash * list block * option block)%type.
Definition check_qf (c : qf_case) : bool :=
  let '(h, replies, o) := c in oblock_eqb (request_block_qf h replies) o.
Definition qf_mismatches := mismatches_with check_qf.

(* Step-wise form: after every operation the harness also reads pruneHeight and, where there is a
   committer, viewStates.CommittedBlock(); the kernel compares them after the same step of the model
   (an error path that silently prunes or moves the committed block shows up at that step). *)
Definition peek := (option view * option block)%type.
Definition peek_ok (s : sys) (p : peek) : bool :=
  match fst p with Some v => prune_height (s_store s) =? v | None => true end &&
  match snd p with Some c => block_eqb (s_committed s) c | None => true end.

Fixpoint run_check (filtered : bool) (s : sys) (steps : list (op * obs * peek)) : bool * sys :=
  match steps with
  | [] => (true, s)
  | (o, x, p) :: r =>
      let '(s1, x1) := step filtered s o in
      if obs_eqb x1 x && peek_ok s1 p then run_check filtered s1 r else (false, s1)
  end.

Record pcase := PC {
  p_filtered : bool;
  p_genesis : block;
  p_steps : list (op * obs * peek);
  p_dump : dump
}.
Definition check_pcase (c : pcase) : bool :=
  let '(ok, s) := run_check (p_filtered c) (new_sys (p_genesis c)) (p_steps c) in
  ok && dump_matches s (p_dump c).
Definition step_mismatches := mismatches_with check_pcase.

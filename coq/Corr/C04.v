(* Correspondence for C04: the Go harness drives one ruleset instance (and its block store)
   through a sequence of events starting from the freshly constructed state (store = {genesis},
   lock = genesis) and records what the Go code returned after each event; the kernel replays
   the sequence on the model and compares every observation.

   Events (hashes interned: 0 = all-zero hash, 1 = genesis, others by first appearance):
     V view blk agg r      VoteRule(view, ProposeMsg{Block: blk, AggregateQC: agg}) returned r;
                           agg = Some (A high_hash high_view aggqc_view)
     C blk c l             Store(blk); CommitRule(blk) returned c (hash or nil); lock hash is l
                           afterwards (for Fast-HotStuff, which has no lock, l = 1)
     S blk                 Store(blk) only *)
From HS Require Export Base.Prelude Rules.RulesModel.
Open Scope N_scope.

Definition B (h p v qh qv : N) : block := mkBlock h p v (mkQC qh qv).

Definition A (hh hv av : N) : aggqc := mkAgg (mkQC hh hv) av.

Inductive ev :=
| V (v : view) (b : block) (agg : option aggqc) (r : bool)
| C (b : block) (c : option hash) (l : hash)
| S (b : block).

Definition case := (ruleset * list ev)%type.

Definition obs_eqb (o1 o2 : obs) : bool :=
  match o1, o2 with
  | OVote a, OVote b => Bool.eqb a b
  | OCommit c1 l1, OCommit c2 l2 => option_eqb N.eqb c1 c2 && N.eqb l1 l2
  | OStore, OStore => true
  | _, _ => false
  end.

Definition ev_step (e : ev) : step * obs :=
  match e with
  | V v b agg r => (SVote v (mkProp b agg), OVote r)
  | C b c l => (SCommit b, OCommit c l)
  | S b => (SStore b, OStore)
  end.

Fixpoint check_run (rs : ruleset) (st : state) (evs : list ev) : bool :=
  match evs with
  | [] => true
  | e :: r =>
      let '(s, o) := ev_step e in
      let '(st', o') := do_step rs st s in
      obs_eqb o o' && check_run rs st' r
  end.

Definition check_case (c : case) : bool :=
  let '(rs, evs) := c in check_run rs init_state evs.

Definition mismatches := mismatches_with check_case.

(* sanity: a straight chain of four blocks commits B1 under chained HotStuff, and the
   off-chain forest of RulesProofs.simple_unpatched_commits_off_chain commits nothing *)
Example check_case_chain :
  check_case (Chained,
    [C (B 2 1 1 1 0) None 1; C (B 3 2 2 2 1) None 1; C (B 4 3 3 3 2) (Some 1) 2;
     C (B 5 4 4 4 3) (Some 2) 3; V 5 (B 6 5 5 5 4) None true]) = true.
Proof. vm_compute. reflexivity. Qed.

Example check_case_simple_off_chain :
  check_case (Simple,
    [C (B 2 1 1 1 0) None 1; C (B 3 1 5 2 1) None 1; C (B 4 3 3 3 5) None 2;
     C (B 5 4 6 4 3) None 3]) = true.
Proof. vm_compute. reflexivity. Qed.

(* Correspondence for C04: the Go harness drives one ruleset instance (and its block store)
   through a sequence of events starting from the freshly constructed state (store = {genesis},
   lock = genesis) and records what the Go code returned after each event; the kernel replays
   the sequence on the model and compares every observation.

   Events (hashes interned: 0 = all-zero hash, 1 = genesis, others by first appearance):
     V view blk agg r      VoteRule(view, ProposeMsg{Block: blk, AggregateQC: agg}) returned r;
                           agg = Some (A high_hash high_view aggqc_view)
     C blk c l             Store(blk); CommitRule(blk) returned c (hash or nil); lock hash is l
                           afterwards (for Fast-HotStuff, which has no lock, l = 1)
     S blk                 Store(blk) only
     N blks                the sender's RequestBlock now finds exactly these blocks
     L hash                the lock field (bLock / locked) holds the block with this hash
     Q hashes              Blockchain.LocalGet succeeds for exactly these hashes (the store is
                           one block per hash, so size + membership is equality) *)
From HS Require Export Base.Prelude Rules.RulesModel.
Open Scope N_scope.

Definition B (h p v qh qv : N) : block := mkBlock h p v (mkQC qh qv).

Definition A (hh hv av : N) : aggqc := mkAgg (mkQC hh hv) av.

Inductive ev :=
| V (v : view) (b : block) (agg : option aggqc) (r : bool)
| C (b : block) (c : option hash) (l : hash)
| S (b : block)
| N (net : list block)      (* from now on the peers can supply exactly these blocks *)
| Q (stored : list hash)    (* LocalGet succeeds for exactly these hashes *)
| L (l : hash).             (* the lock field holds the block with this hash (read at any time,
                               in particular right after a VoteRule call, which must not move it) *)

Definition case := (ruleset * list ev)%type.

Definition stored_eqb (f : store) (hs : list hash) : bool :=
  Nat.eqb (length f) (length hs) &&
  forallb (fun h => match get f h with Some _ => true | None => false end) hs.

Definition nobs_ok (e : ev) (o : nobs) : bool :=
  match e, o with
  | V _ _ _ r, NOVote r' => Bool.eqb r r'
  | C _ c l, NOCommit c' l' => option_eqb N.eqb c c' && N.eqb l l'
  | S _, NONone => true
  | N _, NONone => true
  | Q hs, NOStored f => stored_eqb f hs
  | L _, NOStored _ => true   (* the lock itself is compared in [check_run] *)
  | _, _ => false
  end.

Definition ev_step (e : ev) : nstep :=
  match e with
  | V v b agg _ => NVote v (mkProp b agg)
  | C b _ _ => NCommit b
  | S b => NStore b
  | N net => NNet net
  | Q _ => NQuery
  | L _ => NQuery
  end.

Definition lock_ok (e : ev) (st : nstate) : bool :=
  match e with
  | L l => N.eqb (b_hash (snd (fst st))) l
  | _ => true
  end.

Fixpoint check_run (rs : ruleset) (st : nstate) (evs : list ev) : bool :=
  match evs with
  | [] => true
  | e :: r =>
      let '(st', o) := do_nstep rs st (ev_step e) in
      nobs_ok e o && lock_ok e st && check_run rs st' r
  end.

Definition check_case (c : case) : bool :=
  let '(rs, evs) := c in check_run rs init_nstate evs.

Definition mismatches := mismatches_with check_case.

(* sanity: a straight chain of four blocks commits B1 under chained HotStuff, and the
   off-chain forest of RulesProofs.simple_unpatched_commits_off_chain commits nothing *)
Example check_case_chain :
  check_case (Chained,
    [C (B 2 1 1 1 0) None 1; C (B 3 2 2 2 1) None 1; C (B 4 3 3 3 2) (Some 1) 2;
     C (B 5 4 4 4 3) (Some 2) 3; V 5 (B 6 5 5 5 4) None true]) = true.
Proof. vm_compute. reflexivity. Qed.

Example check_case_simple_off_chain :
  check_case (Simple,
    [C (B 2 1 1 1 0) None 1; C (B 3 1 5 2 1) None 1; C (B 4 3 3 3 5) None 2;
     C (B 5 4 6 4 3) None 3]) = true.
Proof. vm_compute. reflexivity. Qed.

(* the lock target B3 is missing: no vote; with B3 at a peer it is fetched, stored, and the
   vote is cast *)
Example check_case_lock_target :
  check_case (Chained,
    [C (B 2 1 1 1 0) None 1; C (B 3 2 2 2 1) None 1; S (B 5 4 4 4 3);
     V 5 (B 6 5 5 5 4) None false; Q [1; 2; 3; 5];
     N [B 4 3 3 3 2]; V 5 (B 6 5 5 5 4) None true; Q [1; 2; 3; 5; 4]]) = true.
Proof. vm_compute. reflexivity. Qed.

(* a missed fetch at depth 3 must not keep the lock behind: simple HotStuff, B2 (great-
   grandparent of B5) missing, the lock still moves to B3 and the fork on B2... is refused *)
Example check_case_depth3 :
  check_case (Simple,
    [S (B 2 1 1 1 0); S (B 3 9 3 9 2); S (B 4 3 4 3 3); C (B 5 4 5 4 4) None 3; L 3;
     V 6 (B 6 2 6 2 1) None false; L 3]) = true.
Proof. vm_compute. reflexivity. Qed.

(* Correspondence for C12.  The Go harness (harness/internal/proto/hotstuffpb/c12_test.go,
   harness/network/c12_test.go) dumps, for every generated object, the protocol-side fields before the
   round trip (x), the protobuf fields after proto.Marshal/proto.Unmarshal (p), the protocol-side
   fields after XFromProto (y), and the observables (bytes-to-sign, participants) of x and y as the Go
   methods return them.  The kernel recomputes to_pb x, from_pb p, obs x, obs y and wf x from the model. *)
From HS Require Import Base.Prelude Wire.WireModel.
Open Scope N_scope.

(* ---------- boolean equalities ---------- *)
Definition entry_eqb (a b : N * bytes) : bool := N.eqb (fst a) (fst b) && bytes_eqb (snd a) (snd b).
Definition entries_eqb := list_eqb entry_eqb.

Definition qsig_eqb (a b : qsig) : bool :=
  match a, b with
  | SigECDSA l, SigECDSA m | SigEDDSA l, SigEDDSA m => entries_eqb l m
  | SigBLS s bf, SigBLS s' bf' => bytes_eqb s s' && bytes_eqb bf bf'
  | SigNil, SigNil => true
  | _, _ => false
  end.
Definition pb_qsig_eqb (a b : pb_qsig) : bool :=
  match a, b with
  | PbECDSA l, PbECDSA m | PbEDDSA l, PbEDDSA m => entries_eqb l m
  | PbBLS s bf, PbBLS s' bf' => bytes_eqb s s' && bytes_eqb bf bf'
  | PbNone, PbNone => true
  | _, _ => false
  end.
Definition ts_eqb (a b : Z * Z) : bool := Z.eqb (fst a) (fst b) && Z.eqb (snd a) (snd b).

Definition qc_eqb (a b : qc) := qsig_eqb (qc_sig a) (qc_sig b) && N.eqb (qc_view a) (qc_view b) && bytes_eqb (qc_hash a) (qc_hash b).
Definition pc_eqb (a b : pcert) := N.eqb (pc_signer a) (pc_signer b) && qsig_eqb (pc_sig a) (pc_sig b) && bytes_eqb (pc_hash a) (pc_hash b).
Definition tc_eqb (a b : tc) := qsig_eqb (tc_sig a) (tc_sig b) && N.eqb (tc_view a) (tc_view b).
Definition agg_eqb (a b : aggqc) :=
  list_eqb (fun x y => N.eqb (fst x) (fst y) && qc_eqb (snd x) (snd y)) (agg_qcs a) (agg_qcs b)
  && qsig_eqb (agg_sig a) (agg_sig b) && N.eqb (agg_view a) (agg_view b).
Definition sync_eqb (a b : syncinfo) :=
  option_eqb qc_eqb (si_qc a) (si_qc b) && option_eqb tc_eqb (si_tc a) (si_tc b) && option_eqb agg_eqb (si_agg a) (si_agg b).
Definition timeout_eqb (a b : timeoutmsg) :=
  N.eqb (tm_id a) (tm_id b) && N.eqb (tm_view a) (tm_view b) && qsig_eqb (tm_viewsig a) (tm_viewsig b)
  && qsig_eqb (tm_msgsig a) (tm_msgsig b) && sync_eqb (tm_sync a) (tm_sync b).
Definition block_eqb (a b : block) :=
  bytes_eqb (b_parent a) (b_parent b) && N.eqb (b_proposer a) (b_proposer b) && bytes_eqb (b_batch a) (b_batch b)
  && qc_eqb (b_cert a) (b_cert b) && N.eqb (b_view a) (b_view b) && ts_eqb (b_ts a) (b_ts b).
Definition proposal_eqb (a b : proposal) :=
  N.eqb (p_id a) (p_id b) && block_eqb (p_block a) (p_block b) && option_eqb agg_eqb (p_agg a) (p_agg b).

(* on the wire an absent signature message and one whose oneof is not set mean the same (nil), as do an
   absent timestamp and the zero timestamp; the comparison of to_pb x with the observed message does
   not distinguish them, so that either encoding of "nothing" is accepted *)
Definition norm_osig (o : option pb_qsig) : pb_qsig := match o with Some s => s | None => PbNone end.
Definition osig_eqb (a b : option pb_qsig) : bool := pb_qsig_eqb (norm_osig a) (norm_osig b).
Definition norm_ots (o : option (Z * Z)) : Z * Z := match o with Some t => t | None => (0, 0)%Z end.
Definition ots_eqb (a b : option (Z * Z)) : bool := ts_eqb (norm_ots a) (norm_ots b).
Definition pb_qc_eqb (a b : pb_qc) := osig_eqb (pq_sig a) (pq_sig b) && N.eqb (pq_view a) (pq_view b) && bytes_eqb (pq_hash a) (pq_hash b).
Definition pb_pc_eqb (a b : pb_pc) := osig_eqb (ppc_sig a) (ppc_sig b) && bytes_eqb (ppc_hash a) (ppc_hash b).
Definition pb_tc_eqb (a b : pb_tc) := osig_eqb (ptc_sig a) (ptc_sig b) && N.eqb (ptc_view a) (ptc_view b).
Definition pb_agg_eqb (a b : pb_agg) :=
  list_eqb (fun x y => N.eqb (fst x) (fst y) && pb_qc_eqb (snd x) (snd y)) (pa_qcs a) (pa_qcs b)
  && osig_eqb (pa_sig a) (pa_sig b) && N.eqb (pa_view a) (pa_view b).
Definition pb_sync_eqb (a b : pb_sync) :=
  option_eqb pb_qc_eqb (ps_qc a) (ps_qc b) && option_eqb pb_tc_eqb (ps_tc a) (ps_tc b) && option_eqb pb_agg_eqb (ps_agg a) (ps_agg b).
Definition pb_timeout_eqb (a b : pb_timeout) :=
  N.eqb (pt_view a) (pt_view b) && option_eqb pb_sync_eqb (pt_sync a) (pt_sync b)
  && osig_eqb (pt_viewsig a) (pt_viewsig b) && osig_eqb (pt_msgsig a) (pt_msgsig b).
Definition pb_block_eqb (a b : pb_block) :=
  bytes_eqb (pbb_parent a) (pbb_parent b) && option_eqb pb_qc_eqb (pbb_qc a) (pbb_qc b) && N.eqb (pbb_view a) (pbb_view b)
  && bytes_eqb (pbb_cmds a) (pbb_cmds b) && N.eqb (pbb_proposer a) (pbb_proposer b) && ots_eqb (pbb_ts a) (pbb_ts b).
Definition pb_proposal_eqb (a b : pb_proposal) :=
  option_eqb pb_block_eqb (pp_block a) (pp_block b) && option_eqb pb_agg_eqb (pp_agg a) (pp_agg b).

Definition result_eqb {A} (eqb : A -> A -> bool) (a b : result A) : bool :=
  match a, b with
  | Ok x, Ok y => eqb x y
  | Reject, Reject => true
  | Panic, Panic => true
  | _, _ => false
  end.
Definition obs_eqb (a b : observables) : bool :=
  list_eqb (result_eqb bytes_eqb) (fst a) (fst b) && list_eqb (result_eqb (list_eqb N.eqb)) (snd a) (snd b).

(* ---------- the external BLS point decoder as observed by the harness ---------- *)
(* table of (compressed bytes, canonical re-encoding) for every decodable BLS signature in the case *)
Definition bls_table := list (bytes * bytes).
Fixpoint bls_lookup (t : bls_table) (s : bytes) : option bytes :=
  match t with
  | [] => None
  | (k, v) :: r => if bytes_eqb k s then Some v else bls_lookup r s
  end.

(* ---------- cases ---------- *)
(* RT: a Go-constructed object x through the real path; FP: an arbitrary protobuf message through
   XFromProto only (malformed / boundary stream), r = Ok dump | Panic, oy = observables when Ok. *)
Inductive case :=
| RT_Sig (t : bls_table) (x : qsig) (p : option pb_qsig) (y : qsig) (ox oy : observables)
| RT_PC (t : bls_table) (x : pcert) (p : option pb_pc) (y : result pcert) (ox oy : observables)
| RT_QC (t : bls_table) (x : qc) (p : option pb_qc) (y : qc) (ox oy : observables)
| RT_TC (t : bls_table) (x : tc) (p : option pb_tc) (y : tc) (ox oy : observables)
| RT_Agg (t : bls_table) (x : aggqc) (p : option pb_agg) (y : aggqc) (ox oy : observables)
| RT_Sync (t : bls_table) (x : syncinfo) (p : option pb_sync) (y : syncinfo) (ox oy : observables)
| RT_Timeout (t : bls_table) (x : timeoutmsg) (p : option pb_timeout) (y : timeoutmsg) (ox oy : observables)
| RT_Block (t : bls_table) (x : block) (p : option pb_block) (y : result block) (ox oy : observables)
| RT_Proposal (t : bls_table) (kauri : bool) (x : proposal) (p : option pb_proposal) (y : result proposal) (ox oy : observables)
| FP_Sig (t : bls_table) (p : option pb_qsig) (y : qsig) (oy : observables)
| FP_PC (t : bls_table) (p : option pb_pc) (y : result pcert) (oy : observables)
| FP_QC (t : bls_table) (p : option pb_qc) (y : qc) (oy : observables)
| FP_TC (t : bls_table) (p : option pb_tc) (y : tc) (oy : observables)
| FP_Agg (t : bls_table) (p : option pb_agg) (y : aggqc) (oy : observables)
| FP_Sync (t : bls_table) (p : option pb_sync) (y : syncinfo) (oy : observables)
| FP_Timeout (t : bls_table) (peer : N) (p : option pb_timeout) (y : timeoutmsg) (oy : observables)
| FP_Block (t : bls_table) (p : option pb_block) (y : result block) (oy : observables)
| FP_Proposal (t : bls_table) (kauri : bool) (peer : N) (p : option pb_proposal) (y : result proposal) (oy : observables).

Definition obs_res {A} (f : A -> observables) (r : result A) : observables :=
  match r with Ok x => f x | _ => ([], []) end.

(* check of a round-trip case: wf x, to_pb x = p, from_pb p = y, obs x = ox, obs y = oy *)
Definition check_case (c : case) : bool :=
  match c with
  | RT_Sig t x p y ox oy =>
      let d := bls_lookup t in
      wf_sig d x && osig_eqb (Some (to_pb_sig x)) p && qsig_eqb (from_pb_sig d p) y
      && obs_eqb (obs_sig x) ox && obs_eqb (obs_sig y) oy
  | RT_PC t x p y ox oy =>
      let d := bls_lookup t in
      wf_pc d x && option_eqb pb_pc_eqb (Some (to_pb_pc x)) p && result_eqb pc_eqb (from_pb_pc d p) y
      && obs_eqb (obs_pc x) ox && obs_eqb (obs_res obs_pc y) oy
  | RT_QC t x p y ox oy =>
      let d := bls_lookup t in
      wf_qc d x && option_eqb pb_qc_eqb (Some (to_pb_qc x)) p && qc_eqb (from_pb_qc d p) y
      && obs_eqb (obs_qc x) ox && obs_eqb (obs_qc y) oy
  | RT_TC t x p y ox oy =>
      let d := bls_lookup t in
      wf_tc d x && option_eqb pb_tc_eqb (Some (to_pb_tc x)) p && tc_eqb (from_pb_tc d p) y
      && obs_eqb (obs_tc x) ox && obs_eqb (obs_tc y) oy
  | RT_Agg t x p y ox oy =>
      let d := bls_lookup t in
      wf_agg d x && option_eqb pb_agg_eqb (Some (to_pb_agg x)) p && agg_eqb (from_pb_agg d p) y
      && obs_eqb (obs_agg x) ox && obs_eqb (obs_agg y) oy
  | RT_Sync t x p y ox oy =>
      let d := bls_lookup t in
      wf_sync d x && option_eqb pb_sync_eqb (Some (to_pb_sync x)) p && sync_eqb (from_pb_sync d p) y
      && obs_eqb (obs_sync x) ox && obs_eqb (obs_sync y) oy
  | RT_Timeout t x p y ox oy =>
      let d := bls_lookup t in
      wf_timeout d x && option_eqb pb_timeout_eqb (Some (to_pb_timeout x)) p
      && match p with Some m => timeout_eqb (server_timeout d (tm_id x) m) y | None => false end
      && obs_eqb (obs_timeout x) ox && obs_eqb (obs_timeout y) oy
  | RT_Block t x p y ox oy =>
      let d := bls_lookup t in
      wf_block d x && option_eqb pb_block_eqb (Some (to_pb_block x)) p && result_eqb block_eqb (from_pb_block d p) y
      && obs_eqb (obs_block x) ox && obs_eqb (obs_res obs_block y) oy
  | RT_Proposal t k x p y ox oy =>
      let d := bls_lookup t in
      wf_proposal d x && option_eqb pb_proposal_eqb (Some (to_pb_proposal x)) p
      && match p with Some m => result_eqb proposal_eqb (server_propose d k (p_id x) m) y | None => false end
      && obs_eqb (obs_proposal x) ox && obs_eqb (obs_res obs_proposal y) oy
  | FP_Sig t p y oy => let d := bls_lookup t in qsig_eqb (from_pb_sig d p) y && obs_eqb (obs_sig y) oy
  | FP_PC t p y oy => let d := bls_lookup t in result_eqb pc_eqb (from_pb_pc d p) y && obs_eqb (obs_res obs_pc y) oy
  | FP_QC t p y oy => let d := bls_lookup t in qc_eqb (from_pb_qc d p) y && obs_eqb (obs_qc y) oy
  | FP_TC t p y oy => let d := bls_lookup t in tc_eqb (from_pb_tc d p) y && obs_eqb (obs_tc y) oy
  | FP_Agg t p y oy => let d := bls_lookup t in agg_eqb (from_pb_agg d p) y && obs_eqb (obs_agg y) oy
  | FP_Sync t p y oy => let d := bls_lookup t in sync_eqb (from_pb_sync d p) y && obs_eqb (obs_sync y) oy
  | FP_Timeout t peer p y oy =>
      let d := bls_lookup t in
      match p with
      | Some m => timeout_eqb (server_timeout d peer m) y
      | None => timeout_eqb (from_pb_timeout d None) y
      end && obs_eqb (obs_timeout y) oy
  | FP_Block t p y oy => let d := bls_lookup t in result_eqb block_eqb (from_pb_block d p) y && obs_eqb (obs_res obs_block y) oy
  | FP_Proposal t k peer p y oy =>
      let d := bls_lookup t in
      match p with
      | Some m => result_eqb proposal_eqb (server_propose d k peer m) y
      | None => result_eqb proposal_eqb (from_pb_proposal d None) y
      end && obs_eqb (obs_res obs_proposal y) oy
  end.
Definition mismatches := mismatches_with check_case.

(* ---------- fetch quorum function ---------- *)
(* hashes: table from block bytes to the SHA-256 digest Go computed for exactly those bytes;
   replies in ascending node id; observed = the node whose reply the Go quorum function returned *)
Definition hash_table := list (bytes * bytes).
Fixpoint hash_lookup (t : hash_table) (b : bytes) : bytes :=
  match t with
  | [] => []
  | (k, v) :: r => if bytes_eqb k b then v else hash_lookup r b
  end.
Definition qf_case := (bls_table * hash_table * bytes * list (N * option pb_block) * option N)%type.

Definition check_qf (c : qf_case) : bool :=
  let '(t, ht, h, replies, observed) := c in
  let adm := qf_admissible (hash_lookup ht) (bls_lookup t) h replies in
  match observed with
  | None => match adm with [] => true | _ => false end
  | Some n => existsb (N.eqb n) adm
  end
  && (* the deterministic model run over the same replies agrees on found / not found *)
  match request_block_qf (hash_lookup ht) (bls_lookup t) h replies, observed with
  | Ok (Some _), Some _ => true
  | Ok None, None => true
  | _, _ => false
  end.
Definition qf_mismatches := mismatches_with check_qf.

(* helper used by the generated shards: concatenation of byte-string chunks *)
Definition cat (l : list bytes) : bytes := concat l.

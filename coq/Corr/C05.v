(* Correspondence for C05: (1) the commit ledgers observed after k fault-free synchronous views
   of the Go implementation equal the ledgers of the model's synchronous run; (2) every observed
   history (fault-free runs, and random prefixes followed by a synchronous suffix) is accepted by
   the trace validators of C01 (streams hist / fhist re-exported here). *)
From Coq Require Import List NArith.
From HS Require Import Base.Prelude Protocol.Core Protocol.Chained Protocol.ChainedExec Protocol.SyncRun.
From HS Require Export Corr.C01.
Import ListNotations.
Open Scope N_scope.

Definition sync_case := (ruleset * nat * nat * list (rid * list hash))%type.

Definition check_sync (c : sync_case) : bool :=
  let '(rs, n, k, obs) := c in
  match snd (sync_state rs n k) with
  | Some _ => false
  | None => (length obs =? n)%nat &&
            forallb (fun p : rid * list hash => list_eqb_N (sync_log rs n k (fst p)) (snd p)) obs
  end.

Definition sync_mismatches := mismatches_with check_sync.

(* Correspondence for C18: every observation the Go harness makes on /repo/twins is recomputed
   here from the model (vm_compute in the kernel). *)
From HS Require Import Base.Prelude Twins.GeneratorModel Twins.VerdictModel.
Import ListNotations.

Definition pair_eqb {A B} (ea : A -> A -> bool) (eb : B -> B -> bool) (x y : A * B) : bool :=
  ea (fst x) (fst y) && eb (snd x) (snd y).

Definition result_eqb {A} (eqb : A -> A -> bool) (a b : result A) : bool :=
  match a, b with
  | Ok x, Ok y => eqb x y
  | Reject, Reject => true
  | Panic, Panic => true
  | _, _ => false
  end.

(* NodeSets are compared as sets: the Go side prints them sorted, the model keeps insertion order *)
Definition part_eqb (a b : list node_id) : bool :=
  Nat.eqb (length a) (length b)
  && forallb (fun x => existsb (node_eqb x) b) a
  && forallb (fun x => existsb (node_eqb x) a) b.

Definition view_opt_eqb (a b : view_opt) : bool :=
  N.eqb (fst a) (fst b) && list_eqb part_eqb (snd a) (snd b).

(* ---- unit level ---- *)

(* assignNodeIDs(numNodes, numTwins) = (nodes, twins) *)
Definition assign_case := (nat * nat * (list node_id * list node_id))%type.
Definition check_assign (c : assign_case) : bool :=
  let '(nn, nt, (nodes, twins)) := c in
  let '(mn, mt) := assign_node_ids nn nt in
  list_eqb node_eqb mn nodes && list_eqb node_eqb mt twins.
Definition assign_mismatches := mismatches_with check_assign.

(* genPartitionSizes(n, k, 1) *)
Definition sizes_case := (nat * nat * result (list (list nat)))%type.
Definition check_sizes (c : sizes_case) : bool :=
  let '(n, k, obs) := c in
  result_eqb (list_eqb (list_eqb Nat.eqb)) (gen_partition_sizes n k 1) obs.
Definition sizes_mismatches := mismatches_with check_sizes.

(* generateTwinPartitionPairs(n) *)
Definition pairs_case := (nat * list (nat * nat))%type.
Definition check_pairs (c : pairs_case) : bool :=
  let '(n, obs) := c in list_eqb (pair_eqb Nat.eqb Nat.eqb) (twin_partition_pairs n) obs.
Definition pairs_mismatches := mismatches_with check_pairs.

(* isValidTwinAssignment(assignments, sizes) for a batch of assignments on one size vector *)
Definition valid_case := (list nat * list (list (nat * nat) * bool))%type.
Definition check_valid (c : valid_case) : bool :=
  let '(sizes, l) := c in
  forallb (fun e => Bool.eqb (is_valid_twin_assignment (fst e) sizes) (snd e)) l.
Definition valid_mismatches := mismatches_with check_valid.

(* genPartitionScenarios(twins, nodes, k, 1) on hand-made id lists *)
Definition pscen_case := (list node_id * list node_id * nat * result (list (list (list node_id))))%type.
Definition check_pscen (c : pscen_case) : bool :=
  let '(twins, nodes, k, obs) := c in
  result_eqb (list_eqb (list_eqb part_eqb)) (gen_partition_scenarios twins nodes k 1) obs.
Definition pscen_mismatches := mismatches_with check_pscen.

(* ---- the option list of NewGenerator(settings) ---- *)
Definition opt_case := (nat * nat * nat * result (list view_opt))%type.
Definition check_opt (c : opt_case) : bool :=
  let '(nn, nt, k, obs) := c in
  result_eqb (list_eqb view_opt_eqb) (option_list nn nt k) obs.
Definition opt_mismatches := mismatches_with check_opt.

(* ---- the odometer, run on option indices 0..n-1 ---- *)
Inductive ev := EvScen (code : N) | EvEOF | EvPanic.

(* a scenario of option indices as one number, base n *)
Definition encode (n : nat) (s : list nat) : N :=
  fold_left (fun acc d => (acc * N.of_nat n + N.of_nat d)%N) s 0%N.

Definition ev_of (n : nat) (r : result (option (list nat))) : ev :=
  match r with
  | Ok (Some s) => EvScen (encode n s)
  | Ok None => EvEOF
  | _ => EvPanic
  end.

Definition ev_eqb (a b : ev) : bool :=
  match a, b with
  | EvScen x, EvScen y => N.eqb x y
  | EvEOF, EvEOF => true
  | EvPanic, EvPanic => true
  | _, _ => false
  end.

(* (number of options, views, shuffle oracle (permutation, offsets) if shuffled,
    observed (Remaining() before the call, result of NextScenario) per call) *)
Definition drain_case := (nat * nat * option (list nat * list nat) * list (Z * ev))%type.
Definition check_drain (c : drain_case) : bool :=
  let '(n, views, shuf, obs) := c in
  let g0 := init (seq 0 n) views in
  let g := match shuf with Some (perm, offs) => shuffle perm offs g0 | None => g0 end in
  let evs := fst (run_n (length obs) g) in
  list_eqb (pair_eqb Z.eqb ev_eqb) (map (fun e => (fst e, ev_of n (snd e))) evs) obs.
Definition drain_mismatches := mismatches_with check_drain.

(* ---- scripted runs: segments of (optional Shuffle, then a number of NextScenario calls) ----
   Covers Shuffle after partial consumption, repeated Shuffle, Shuffle after EOF.  With
   [rel = true] Remaining() is compared relative to its initial value (settings whose
   |lp|^views exceeds 2^53 / int64, where the announced number itself is outside the model's
   assumption but the count-down by one and the sequence are not). Scenarios are emitted as
   exact base-n numbers (math/big on the Go side). *)
Definition segment := (option (list nat * list nat) * nat)%type.

Fixpoint run_segments (segs : list segment) (g : gen nat) : list (Z * result (option (list nat))) :=
  match segs with
  | [] => []
  | (sh, m) :: r =>
      let g1 := match sh with Some (perm, offs) => shuffle perm offs g | None => g end in
      let '(evs, g2) := run_n m g1 in
      evs ++ run_segments r g2
  end.

Definition script_case := (nat * nat * bool * list segment * list (Z * ev))%type.
Definition check_script (c : script_case) : bool :=
  let '(n, views, rel, segs, obs) := c in
  let g0 := init (seq 0 n) views in
  let base := if rel then g_rem g0 else 0%Z in
  let evs := run_segments segs g0 in
  list_eqb (pair_eqb Z.eqb ev_eqb) (map (fun e => ((fst e - base)%Z, ev_of n (snd e))) evs) obs.
Definition script_mismatches := mismatches_with check_script.

(* ---- the verdict ---- *)
(* (replicas, each a list of node logs; variants: extra replicas appended; observed (safe, commits)
   for each variant) *)
Definition verdict_case := (list (list log) * list (list (list log)) * list (bool * nat))%type.
Definition check_verdict (c : verdict_case) : bool :=
  let '(base, variants, obs) := c in
  list_eqb (pair_eqb Bool.eqb Nat.eqb)
           (map (fun v => check_commits_net (base ++ v)) variants) obs.
Definition verdict_mismatches := mismatches_with check_verdict.

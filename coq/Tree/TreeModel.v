(* Executable model of /repo/internal/tree/tree.go (the Kauri tree).  No proofs here.

   Go type:   type Tree struct { id ID; height int; branchFactor int; treePosToID []ID; waitTime }
   The tree is an implicit heap layout over the slice of tree positions: the replica at
   position p has its parent at (p-1)/bf and its children at p*bf+1 .. p*bf+bf (clamped to n).
   Positions, lengths, heights and fuel are [nat]; replica ids are [rid = N].
   [slices.Index] returning -1 is [None].  [waitTime] is irrelevant to C17 and not modelled. *)
From HS Require Import Base.Prelude.

(* slices.Index(l, x): position of the first occurrence, None for -1 *)
Fixpoint index_of (x : rid) (l : list rid) : option nat :=
  match l with
  | [] => None
  | y :: r => if N.eqb y x then Some 0 else option_map S (index_of x r)
  end.

(* l[a:b] for a <= b <= len l *)
Definition slice (l : list rid) (a b : nat) : list rid := firstn (b - a) (skipn a l).

(* func treeHeight(numNodes, bf int) (height int):
     levelSize := 1
     for numNodes > 0 { numNodes -= levelSize; levelSize *= bf; height++ }
   [numNodes] going negative in Go ends the loop exactly like truncated subtraction reaching 0.
   Every iteration removes at least one node (levelSize >= 1 for bf >= 1), so [fuel = numNodes]
   iterations suffice (TreeProofs.tree_height_fuel). *)
Fixpoint tree_height_loop (fuel num lvl bf : nat) : nat :=
  match fuel with
  | O => 0
  | S f => if Nat.eqb num 0 then 0 else S (tree_height_loop f (num - lvl) (lvl * bf) bf)
  end.
Definition tree_height (n bf : nat) : nat := tree_height_loop n n 1 bf.

Record tree := mkTree {
  t_id : rid;            (* the local replica *)
  t_height : nat;        (* height of the full tree *)
  t_bf : nat;            (* branch factor *)
  t_ids : list rid       (* treePosToID *)
}.

(* func NewSimple(id, branchFactor, treePositionIDs) *Tree — panics on bf < 2 and on an id that is
   not in the position list.  [bf] is a Go int, so the constructor takes a [Z]. *)
Definition new_simple (id : rid) (bf : Z) (ids : list rid) : result tree :=
  if (bf <? 2)%Z then Panic
  else match index_of id ids with
       | None => Panic
       | Some _ => Ok (mkTree id (tree_height (length ids) (Z.to_nat bf)) (Z.to_nat bf) ids)
       end.

Section Methods.
  Variable t : tree.
  Let ids := t_ids t.
  Let bf := t_bf t.
  Let n := length (t_ids t).

  (* func (t Tree) replicaPosition(id) int *)
  Definition replica_position (y : rid) : option nat := index_of y ids.

  (* func (t Tree) TreeHeight() int *)
  Definition tree_height_m : nat := t_height t.

  (* func (t Tree) Parent() (ID, bool):
       myPos := replicaPosition(t.id); if myPos == 0 { return t.id, false }
       return treePosToID[(myPos-1)/bf], true
     The vantage id is in the tree by construction (NewSimple panics otherwise and the struct is
     never mutated; TreeProofs.new_simple_inv), so myPos = -1 is unreachable; it is modelled as
     Panic (in Go the index (-2)/bf is -1 for bf = 2 and 0 for bf > 2). *)
  Definition parent : result (rid * bool) :=
    match replica_position (t_id t) with
    | None => Panic
    | Some O => Ok (t_id t, false)
    | Some (S p') => match nth_error ids (p' / bf) with
                     | Some x => Ok (x, true)
                     | None => Panic
                     end
    end.

  (* func (t Tree) Root() ID { return treePosToID[0] } *)
  Definition root : result rid :=
    match ids with [] => Panic | r :: _ => Ok r end.

  (* func (t Tree) IsRoot(id) bool { return replicaPosition(id) == 0 } *)
  Definition is_root (y : rid) : bool :=
    match replica_position y with Some O => true | _ => false end.

  (* func (t Tree) ChildrenOf(id) []ID:
       pos := replicaPosition(id); if pos == -1 { return nil }
       childStart := pos*bf + 1; if childStart >= n { return nil }
       childEnd := childStart + bf; if childEnd > n { childEnd = n }
       return treePosToID[childStart:childEnd] *)
  Definition children_of (y : rid) : list rid :=
    match replica_position y with
    | None => []
    | Some p =>
        let child_start := p * bf + 1 in
        if n <=? child_start then []
        else let child_end := child_start + bf in
             let child_end := if n <? child_end then n else child_end in
             slice ids child_start child_end
    end.

  (* func (t Tree) ReplicaChildren() []ID { return t.ChildrenOf(t.id) } *)
  Definition replica_children : list rid := children_of (t_id t).

  (* func (t Tree) PeersOf() []ID: parent, ok := t.Parent(); if !ok { return nil }; return ChildrenOf(parent) *)
  Definition peers_of : result (list rid) :=
    match parent with
    | Ok (p, true) => Ok (children_of p)
    | Ok (_, false) => Ok []
    | Reject => Reject
    | Panic => Panic
    end.

  (* func (t Tree) SubTree() []ID:
       children := ChildrenOf(t.id); if len(children) == 0 { return nil }
       sub := copy(children)
       for i := 0; i < len(sub); i++ { sub = append(sub, ChildrenOf(sub[i])...) }
       return sub
     The work list is kept split at the loop index: [done] = sub[:i], [todo] = sub[i:].
     [None] = fuel exhausted (with repeated ids the Go loop does not terminate);
     TreeProofs.subtree_exact shows that fuel n suffices for duplicate-free positions. *)
  Fixpoint subtree_loop (fuel : nat) (done todo : list rid) : option (list rid) :=
    match todo with
    | [] => Some done
    | node :: rest =>
        match fuel with
        | O => None
        | S f => subtree_loop f (done ++ [node]) (rest ++ children_of node)
        end
    end.
  Definition subtree : option (list rid) :=
    match children_of (t_id t) with
    | [] => Some []
    | children => subtree_loop n [] children
    end.

  (* func (t Tree) heightOf(id) int:
       if IsRoot(id) { return t.height }
       pos := replicaPosition(id); if pos == -1 { return 0 }
       startLvl, lvlCount := 1, bf
       for lvl := 1; lvl < t.height; lvl++ {
         endLvl := startLvl + lvlCount
         if pos >= startLvl && pos < endLvl { return t.height - lvl }
         startLvl = endLvl; lvlCount *= bf }
       return 0 *)
  Fixpoint height_loop (fuel p lvl start cnt : nat) : nat :=
    match fuel with
    | O => 0
    | S f =>
        if t_height t <=? lvl then 0
        else let e := start + cnt in
             if (start <=? p) && (p <? e) then t_height t - lvl
             else height_loop f p (S lvl) e (cnt * bf)
    end.
  Definition height_of (y : rid) : nat :=
    if is_root y then t_height t
    else match replica_position y with
         | None => 0
         | Some p => height_loop (t_height t) p 1 1 bf
         end.

  (* func (t Tree) ReplicaHeight() int { return t.heightOf(t.id) } *)
  Definition replica_height : nat := height_of (t_id t).
End Methods.

(* ---- specification-side vocabulary (used by the theorems, not by the Go code) ---- *)

(* one step towards the root as seen by the replica's own Tree instance *)
Definition up (bf : nat) (ids : list rid) (x : rid) : option rid :=
  match new_simple x (Z.of_nat bf) ids with
  | Ok t => match parent t with Ok (p, true) => Some p | _ => None end
  | _ => None
  end.

(* k steps towards the root, each taken on the Tree instance of the replica reached *)
Fixpoint up_n (bf : nat) (ids : list rid) (k : nat) (x : rid) : option rid :=
  match k with
  | O => Some x
  | S k' => match up bf ids x with Some p => up_n bf ids k' p | None => None end
  end.

(* number of positions in the first h levels of a complete bf-ary tree: sum_{i<h} bf^i *)
Fixpoint geom (bf h : nat) : nat :=
  match h with O => 0 | S h' => 1 + bf * geom bf h' end.

(* Proofs about TreeModel: the per-replica Tree instances over one position list describe a
   single rooted tree.  Everything is for arbitrary length and branch factor. *)
From Coq Require Import List Arith Lia NArith ZArith Bool.
From HS Require Import Base.Prelude Tree.TreeModel.
Import ListNotations.

(* ------------------------------------------------------------------------------------- *)
(* lists: slices.Index, sub-slices                                                       *)

Lemma index_of_Some x l p : index_of x l = Some p -> nth_error l p = Some x /\ p < length l.
Proof.
  revert p. induction l as [|y r IH]; intros p H; cbn in *; [discriminate|].
  destruct (N.eqb_spec y x) as [->|Hne].
  - inversion H; subst. cbn. split; [reflexivity|lia].
  - destruct (index_of x r) as [q|]; cbn in H; [|discriminate]. inversion H; subst.
    destruct (IH q eq_refl). cbn. split; [assumption|lia].
Qed.

Lemma index_of_None x l : index_of x l = None <-> ~ In x l.
Proof.
  induction l as [|y r IH]; cbn; [tauto|].
  destruct (N.eqb_spec y x) as [->|Hne].
  - split; [discriminate|]. intros H; exfalso; apply H; now left.
  - destruct (index_of x r) as [q|]; cbn.
    + split; [discriminate|]. intros H. exfalso. apply H. right.
      destruct (In_dec N.eq_dec x r) as [Hi|Hi]; [assumption|]. apply IH in Hi. discriminate.
    + split; [|reflexivity]. intros _ [H|H]; [congruence|]. now apply IH.
Qed.

Lemma index_of_In x l : In x l -> exists p, index_of x l = Some p.
Proof.
  intros H. destruct (index_of x l) as [p|] eqn:E; [now exists p|].
  apply index_of_None in E. contradiction.
Qed.

Lemma index_of_is_In x l p : index_of x l = Some p -> In x l.
Proof. intros H. apply index_of_Some in H as [H _]. eapply nth_error_In; eassumption. Qed.

Lemma index_of_nth l : NoDup l -> forall p x, nth_error l p = Some x -> index_of x l = Some p.
Proof.
  induction 1 as [|y r Hy Hnd IH]; intros p x Hp; [destruct p; discriminate|].
  destruct p as [|p]; cbn in *.
  - inversion Hp; subst. now rewrite N.eqb_refl.
  - destruct (N.eqb_spec y x) as [->|Hne].
    + exfalso. apply Hy. eapply nth_error_In; eassumption.
    + now rewrite (IH _ _ Hp).
Qed.

Lemma index_of_inj l x y p : index_of x l = Some p -> index_of y l = Some p -> x = y.
Proof. intros Hx Hy. apply index_of_Some in Hx as [Hx _], Hy as [Hy _]. congruence. Qed.

Lemma In_firstn (l : list rid) k z : In z (firstn k l) <-> exists q, q < k /\ nth_error l q = Some z.
Proof.
  revert l. induction k as [|k IH]; intros l; cbn.
  - split; [tauto|]. intros (q & Hq & _); lia.
  - destruct l as [|y r]; cbn.
    + split; [tauto|]. intros (q & _ & Hq). destruct q; discriminate.
    + rewrite IH. split.
      * intros [->|(q & Hq & Hn)]; [exists 0; split; [lia|reflexivity]|exists (S q); split; [lia|assumption]].
      * intros (q & Hq & Hn). destruct q as [|q]; cbn in Hn; [left; congruence|right; exists q; split; [lia|assumption]].
Qed.

Lemma In_slice (l : list rid) a b z : In z (slice l a b) <-> exists q, a <= q < b /\ nth_error l q = Some z.
Proof.
  unfold slice. revert l b. induction a as [|a IH]; intros l b.
  - cbn [skipn]. rewrite Nat.sub_0_r, In_firstn. split; intros (q & Hq & Hn); exists q; (split; [lia|assumption]).
  - destruct l as [|y r].
    + cbn [skipn]. rewrite firstn_nil. split; [intros []|]. intros (q & _ & Hq). destruct q; discriminate.
    + cbn [skipn]. destruct b as [|b].
      * cbn. split; [tauto|]. intros (q & Hq & _). lia.
      * replace (S b - S a) with (b - a) by lia. rewrite IH. split.
        -- intros (q & Hq & Hn). exists (S q). split; [lia|assumption].
        -- intros (q & Hq & Hn). destruct q as [|q]; [lia|]. exists q. split; [lia|assumption].
Qed.

Lemma NoDup_firstn (l : list rid) k : NoDup l -> NoDup (firstn k l).
Proof.
  intros H. revert k. induction H as [|y r Hy Hnd IH]; intros k; destruct k; cbn; try constructor.
  - intros Hi. apply Hy. apply In_firstn in Hi as (q & _ & Hq). eapply nth_error_In; eassumption.
  - apply IH.
Qed.

Lemma NoDup_skipn (l : list rid) k : NoDup l -> NoDup (skipn k l).
Proof.
  intros H. revert k. induction H as [|y r Hy Hnd IH]; intros k; destruct k; cbn; try constructor; auto.
Qed.

Lemma NoDup_slice l a b : NoDup l -> NoDup (slice l a b).
Proof. intros H. unfold slice. apply NoDup_firstn, NoDup_skipn, H. Qed.

Lemma NoDup_app_intro (a b : list rid) :
  NoDup a -> NoDup b -> (forall z, In z a -> In z b -> False) -> NoDup (a ++ b).
Proof.
  intros Ha Hb Hd. induction Ha as [|y r Hy Hnd IH]; cbn; [assumption|]. constructor.
  - rewrite in_app_iff. intros [H|H]; [contradiction|]. apply (Hd y); [now left|assumption].
  - apply IH. intros z Hz. apply Hd. now right.
Qed.

Lemma slice_empty (l : list rid) a b : b <= a -> slice l a b = [].
Proof. intros H. unfold slice. replace (b - a) with 0 by lia. reflexivity. Qed.

Lemma firstn_skipn_app (m : list rid) i j : firstn i m ++ firstn j (skipn i m) = firstn (i + j) m.
Proof.
  revert m. induction i as [|i IH]; intros m; [reflexivity|].
  destruct m as [|y r]; cbn; [now rewrite firstn_nil|]. now rewrite IH.
Qed.

Lemma skipn_skipn_add (l : list rid) i a : skipn i (skipn a l) = skipn (a + i) l.
Proof.
  revert l. induction a as [|a IH]; intros l; [reflexivity|].
  destruct l as [|y r]; cbn [skipn Nat.add]; [now rewrite skipn_nil|]. apply IH.
Qed.

Lemma slice_app (l : list rid) a b c : a <= b <= c -> slice l a b ++ slice l b c = slice l a c.
Proof.
  intros H. unfold slice. replace (skipn b l) with (skipn (b - a) (skipn a l))
    by (rewrite skipn_skipn_add; f_equal; lia).
  rewrite firstn_skipn_app. f_equal. lia.
Qed.

Lemma concat_map_index (f : rid -> list rid) (g : nat -> list rid) l : forall s,
  (forall p x, nth_error l p = Some x -> f x = g (s + p)) ->
  concat (map f l) = concat (map g (seq s (length l))).
Proof.
  induction l as [|y r IH]; intros s H; [reflexivity|]. cbn. f_equal.
  - rewrite (H 0 y eq_refl). f_equal. lia.
  - apply IH. intros p x Hp. rewrite (H (S p) x Hp). f_equal. lia.
Qed.

(* ------------------------------------------------------------------------------------- *)
(* arithmetic of the implicit heap layout                                                *)

Lemma div_bounds a b p : b <> 0 -> (a / b = p <-> p * b <= a < p * b + b).
Proof.
  intros Hb. split.
  - intros <-. pose proof (Nat.mul_div_le a b Hb). pose proof (Nat.mul_succ_div_gt a b Hb).
    set (d := a / b) in *. nia.
  - intros [H1 H2]. symmetry. apply (Nat.div_unique a b p (a - p * b)).
    + lia.
    + rewrite (Nat.mul_comm b p). remember (p * b) as m. lia.
Qed.

Lemma div_ge a b c : b <> 0 -> (c <= a / b <-> b * c <= a).
Proof.
  intros Hb. split.
  - intros H. pose proof (Nat.mul_div_le a b Hb). set (d := a / b) in *. nia.
  - apply Nat.div_le_lower_bound; assumption.
Qed.

Lemma div_lt_iff a b c : b <> 0 -> (a / b < c <-> a < b * c).
Proof.
  intros Hb. split.
  - intros H. pose proof (Nat.mul_succ_div_gt a b Hb). set (d := a / b) in *. nia.
  - apply Nat.div_lt_upper_bound; assumption.
Qed.

Lemma geom_S_pow bf h : geom bf (S h) = geom bf h + bf ^ h.
Proof.
  induction h as [|h IH]; [cbn; lia|].
  change (geom bf (S (S h))) with (1 + bf * geom bf (S h)). rewrite IH at 1.
  change (geom bf (S h)) with (1 + bf * geom bf h). rewrite Nat.pow_succ_r'. ring.
Qed.

Lemma geom_mono bf a b : a <= b -> geom bf a <= geom bf b.
Proof.
  induction 1 as [|b Hab IH]; [lia|]. rewrite geom_S_pow. lia.
Qed.

Lemma geom_lt bf a b : 1 <= bf -> a < b -> geom bf a < geom bf b.
Proof.
  intros Hbf Hab. apply Nat.lt_le_trans with (geom bf (S a)); [|apply geom_mono; lia].
  rewrite geom_S_pow. assert (bf ^ a <> 0) by (apply Nat.pow_nonzero; lia). lia.
Qed.

(* treeHeight: the loop returns the least h with lvl * (1 + bf + ... + bf^(h-1)) >= num *)
Lemma tree_height_loop_spec bf : 1 <= bf -> forall fuel num lvl, num <= fuel -> 1 <= lvl ->
  let h := tree_height_loop fuel num lvl bf in
  num <= lvl * geom bf h /\ forall h', h' < h -> lvl * geom bf h' < num.
Proof.
  intros Hbf. induction fuel as [|f IH]; intros num lvl Hf Hl; cbn.
  - split; [lia|]. intros h' Hh'. lia.
  - destruct (Nat.eqb_spec num 0) as [->|Hn]; cbn.
    + split; [lia|]. intros h' Hh'. lia.
    + specialize (IH (num - lvl) (lvl * bf)). cbn in IH.
      destruct IH as [IH1 IH2]; [lia|nia|].
      set (h1 := tree_height_loop f (num - lvl) (lvl * bf) bf) in *.
      split.
      * change (geom bf (S h1)) with (1 + bf * geom bf h1). nia.
      * intros h' Hh'. destruct h' as [|h'']; [cbn; lia|].
        change (geom bf (S h'')) with (1 + bf * geom bf h'').
        assert (lvl * bf * geom bf h'' < num - lvl) by (apply IH2; lia). nia.
Qed.

Theorem tree_height_least n bf : 1 <= bf ->
  n <= geom bf (tree_height n bf) /\ forall h', n <= geom bf h' -> tree_height n bf <= h'.
Proof.
  intros Hbf. unfold tree_height.
  destruct (tree_height_loop_spec bf Hbf n n 1) as [H1 H2]; [lia|lia|]. cbn zeta in *. split; [lia|].
  intros h' Hh'. destruct (Nat.le_gt_cases (tree_height_loop n n 1 bf) h') as [|Hlt]; [assumption|].
  specialize (H2 h' Hlt). lia.
Qed.

(* ------------------------------------------------------------------------------------- *)
(* the constructor                                                                       *)

Lemma new_simple_spec x (b : Z) l :
  match new_simple x b l with
  | Ok t => (2 <= b)%Z /\ In x l /\ t = mkTree x (tree_height (length l) (Z.to_nat b)) (Z.to_nat b) l
  | Panic => (b < 2)%Z \/ ~ In x l
  | Reject => False
  end.
Proof.
  unfold new_simple. destruct (Z.ltb_spec b 2); [now left|].
  destruct (index_of x l) as [p|] eqn:E.
  - repeat split; [assumption|]. eapply index_of_is_In; eassumption.
  - right. now apply index_of_None.
Qed.

(* ------------------------------------------------------------------------------------- *)
(* one position list, one branch factor, many instances                                   *)

Section OneTree.
  Variable ids : list rid.
  Variable bf : nat.
  Hypothesis Hnd : NoDup ids.
  Hypothesis Hbf : 2 <= bf.

  (* [t] is the instance of some replica of this configuration *)
  Definition inst (t : tree) : Prop :=
    t_ids t = ids /\ t_bf t = bf /\ t_height t = tree_height (length ids) bf /\ In (t_id t) ids.

  Lemma built_inst x t : new_simple x (Z.of_nat bf) ids = Ok t -> inst t /\ t_id t = x.
  Proof.
    intros E. pose proof (new_simple_spec x (Z.of_nat bf) ids) as S. rewrite E in S.
    destruct S as (_ & Hin & ->). rewrite Nat2Z.id. unfold inst; cbn. auto.
  Qed.

  Lemma built_ex x : In x ids -> exists t, new_simple x (Z.of_nat bf) ids = Ok t.
  Proof.
    intros Hin. pose proof (new_simple_spec x (Z.of_nat bf) ids) as S.
    destruct (new_simple x (Z.of_nat bf) ids) as [t| |]; [now exists t|contradiction|].
    destruct S as [S|S]; [lia|contradiction].
  Qed.

  Lemma built_in x t : new_simple x (Z.of_nat bf) ids = Ok t -> In x ids.
  Proof. intros E. destruct (built_inst x t E) as [(_ & _ & _ & Hin) <-]. exact Hin. Qed.

  Lemma bf_nz : bf <> 0.
  Proof. lia. Qed.

  (* ChildrenOf in terms of positions: the children of position p are the positions q >= 1
     with (q-1)/bf = p *)
  Lemma children_spec t y p : inst t -> index_of y ids = Some p -> forall z,
    In z (children_of t y) <-> exists q, index_of z ids = Some q /\ 1 <= q /\ (q - 1) / bf = p.
  Proof.
    intros (Ei & Eb & _) Hp z. unfold children_of, replica_position. rewrite Ei, Eb, Hp.
    destruct (Nat.leb_spec (length ids) (p * bf + 1)) as [Hle|Hgt].
    - split; [intros []|]. intros (q & Hq & Hq1 & Hd). apply index_of_Some in Hq as [_ Hlt].
      apply div_bounds in Hd; [|apply bf_nz]. lia.
    - rewrite In_slice. split.
      + intros (q & Hr & Hn). exists q. split; [now apply index_of_nth|]. split; [lia|].
        apply div_bounds; [apply bf_nz|]. destruct (Nat.ltb_spec (length ids) (p * bf + 1 + bf)); lia.
      + intros (q & Hq & Hq1 & Hd). apply index_of_Some in Hq as [Hn Hlt]. exists q. split; [|assumption].
        apply div_bounds in Hd; [|apply bf_nz]. destruct (Nat.ltb_spec (length ids) (p * bf + 1 + bf)); lia.
  Qed.

  Lemma children_foreign t y : inst t -> ~ In y ids -> children_of t y = [].
  Proof.
    intros (Ei & _) Hy. unfold children_of, replica_position. rewrite Ei.
    apply index_of_None in Hy. now rewrite Hy.
  Qed.

  (* ChildrenOf does not depend on whose instance is asked *)
  Lemma children_vantage t t' y : inst t -> inst t' -> children_of t y = children_of t' y.
  Proof.
    intros (Ei & Eb & _) (Ei' & Eb' & _). unfold children_of, replica_position. now rewrite Ei, Eb, Ei', Eb'.
  Qed.

  Lemma children_NoDup t y : inst t -> NoDup (children_of t y).
  Proof.
    intros (Ei & Eb & _). unfold children_of, replica_position. rewrite Ei, Eb.
    destruct (index_of y ids); [|constructor].
    destruct (length ids <=? n * bf + 1); [constructor|]. now apply NoDup_slice.
  Qed.

  Lemma div_le_self q : q / bf <= q.
  Proof. apply Nat.div_le_upper_bound; [apply bf_nz|nia]. Qed.

  (* Parent in terms of positions *)
  Lemma parent_spec t : inst t ->
    match index_of (t_id t) ids with
    | Some 0 => parent t = Ok (t_id t, false)
    | Some (S q) => exists p, parent t = Ok (p, true) /\ index_of p ids = Some (q / bf)
    | None => False
    end.
  Proof.
    intros (Ei & Eb & _ & Hin). unfold parent, replica_position. rewrite Ei, Eb.
    destruct (index_of_In _ _ Hin) as [i Hi]. rewrite Hi. destruct i as [|q]; [reflexivity|].
    apply index_of_Some in Hi as [_ Hlt]. pose proof (div_le_self q).
    destruct (nth_error ids (q / bf)) as [p|] eqn:E.
    - exists p. split; [reflexivity|]. now apply index_of_nth.
    - apply nth_error_None in E. lia.
  Qed.

  Lemma up_spec x p : up bf ids x = Some p <->
    exists q, index_of x ids = Some (S q) /\ index_of p ids = Some (q / bf).
  Proof.
    unfold up. split.
    - destruct (new_simple x (Z.of_nat bf) ids) as [t| |] eqn:E; try discriminate.
      destruct (built_inst _ _ E) as [Hi Hx]. pose proof (parent_spec t Hi) as P. rewrite Hx in P.
      destruct (index_of x ids) as [[|q]|]; [rewrite P; discriminate| |contradiction].
      destruct P as (p' & -> & Hp'). intros [= <-]. now exists q.
    - intros (q & Hx & Hp). destruct (built_ex x (index_of_is_In _ _ _ Hx)) as [t E]. rewrite E.
      destruct (built_inst _ _ E) as [Hi Hid]. pose proof (parent_spec t Hi) as P. rewrite Hid, Hx in P.
      destruct P as (p' & -> & Hp'). f_equal. eapply index_of_inj; eassumption.
  Qed.

  Lemma up_in x p : up bf ids x = Some p -> In x ids /\ In p ids.
  Proof. intros H. apply up_spec in H as (q & Hx & Hp). split; eapply index_of_is_In; eassumption. Qed.

  (* parent and children are the same relation, whichever instances are asked *)
  Lemma up_children t z y : inst t -> (up bf ids z = Some y <-> In z (children_of t y)).
  Proof.
    intros Hi. split.
    - intros H. apply up_spec in H as (q & Hz & Hy). apply (children_spec t y _ Hi Hy).
      exists (S q). split; [assumption|]. split; [lia|]. f_equal. lia.
    - intros H. destruct (index_of y ids) as [p|] eqn:Ey.
      + pose proof (proj1 (children_spec t y p Hi Ey z) H) as (q & Hz & Hq1 & Hd). apply up_spec.
        destruct q as [|q]; [lia|]. exists q. split; [assumption|]. rewrite Ey. f_equal.
        rewrite <- Hd. f_equal. lia.
      + apply index_of_None in Ey. rewrite (children_foreign t y Hi Ey) in H. destruct H.
  Qed.

  (* positions strictly decrease towards the root *)
  Lemma up_n_pos k : forall y x i, up_n bf ids k y = Some x -> index_of y ids = Some i ->
    exists j, index_of x ids = Some j /\ j + k <= i.
  Proof.
    induction k as [|k IH]; intros y x i H Hy; cbn in H.
    - inversion H; subst. exists i. split; [assumption|lia].
    - destruct (up bf ids y) as [p|] eqn:E; [|discriminate].
      apply up_spec in E as (q & Hy' & Hp). rewrite Hy in Hy'. inversion Hy'; subst.
      destruct (IH _ _ _ H Hp) as (j & Hj & Hle). exists j. split; [assumption|].
      pose proof (div_le_self q). lia.
  Qed.

  Lemma up_n_S_in k y x : up_n bf ids (S k) y = Some x -> In y ids.
  Proof. cbn. destruct (up bf ids y) eqn:E; [|discriminate]. intros _. now apply up_in in E. Qed.

  Lemma up_acyclic k x : up_n bf ids (S k) x <> Some x.
  Proof.
    intros H. pose proof (up_n_S_in _ _ _ H) as Hin. destruct (index_of_In _ _ Hin) as [i Hi].
    destruct (up_n_pos _ _ _ _ H Hi) as (j & Hj & Hle). rewrite Hi in Hj. inversion Hj. lia.
  Qed.

  Lemma up_n_snoc k : forall y p x, up_n bf ids k y = Some p -> up bf ids p = Some x -> up_n bf ids (S k) y = Some x.
  Proof.
    induction k as [|k IH]; intros y p x H Hp.
    - cbn in H. inversion H; subst. cbn. now rewrite Hp.
    - cbn in H. destruct (up bf ids y) as [p'|] eqn:E; [|discriminate].
      change (up_n bf ids (S (S k)) y) with (match up bf ids y with Some p => up_n bf ids (S k) p | None => None end).
      rewrite E. eapply IH; eassumption.
  Qed.

  (* every parent chain reaches the root, in at most [position] steps *)
  Lemma reach_root r : index_of r ids = Some 0 -> forall i x, index_of x ids = Some i ->
    exists k, k <= i /\ up_n bf ids k x = Some r.
  Proof.
    intros Hr i. induction i as [i IH] using lt_wf_ind. intros x Hx. destruct i as [|q].
    - exists 0. split; [lia|]. cbn. f_equal. eapply index_of_inj; eassumption.
    - pose proof (div_le_self q). pose proof (index_of_Some _ _ _ Hx) as [_ Hlt].
      destruct (nth_error ids (q / bf)) as [p|] eqn:E; [|apply nth_error_None in E; lia].
      pose proof (index_of_nth _ Hnd _ _ E) as Hp.
      destruct (IH (q / bf) ltac:(lia) p Hp) as (k & Hk & Hup).
      exists (S k). split; [lia|]. cbn.
      assert (up bf ids x = Some p) as -> by (apply up_spec; now exists q). exact Hup.
  Qed.

  (* depth = level: a replica k steps below the root sits in level k of the layout *)
  Lemma depth_level r : index_of r ids = Some 0 -> forall k x i,
    up_n bf ids k x = Some r -> index_of x ids = Some i -> geom bf k <= i < geom bf (S k).
  Proof.
    intros Hr. induction k as [|k IH]; intros x i H Hx.
    - cbn in H. inversion H; subst. rewrite Hr in Hx. inversion Hx. cbn. lia.
    - cbn in H. destruct (up bf ids x) as [p|] eqn:E; [|discriminate].
      apply up_spec in E as (q & Hx' & Hp). rewrite Hx in Hx'. inversion Hx'; subst.
      destruct (IH _ _ H Hp) as [L U]. apply div_ge in L; [|apply bf_nz]. apply div_lt_iff in U; [|apply bf_nz].
      change (geom bf (S (S k))) with (1 + bf * geom bf (S k)).
      change (geom bf (S k)) with (1 + bf * geom bf k) at 1. lia.
  Qed.

  Lemma depth_unique r : index_of r ids = Some 0 -> forall k k' x,
    up_n bf ids k x = Some r -> up_n bf ids k' x = Some r -> k = k'.
  Proof.
    intros Hr k k' x H H'.
    assert (In x ids) as Hin.
    { destruct k; [cbn in H; inversion H; subst; eapply index_of_is_In; eassumption|eapply up_n_S_in; eassumption]. }
    destruct (index_of_In _ _ Hin) as [i Hi].
    pose proof (depth_level r Hr _ _ _ H Hi) as [L U]. pose proof (depth_level r Hr _ _ _ H' Hi) as [L' U'].
    destruct (Nat.lt_trichotomy k k') as [Hlt|[->|Hlt]]; [|reflexivity|].
    - pose proof (geom_mono bf (S k) k' ltac:(lia)). lia.
    - pose proof (geom_mono bf (S k') k ltac:(lia)). lia.
  Qed.

  (* heightOf: the level-scanning loop finds the level of a position *)
  Lemma height_loop_spec t p l : inst t -> l < t_height t -> geom bf l <= p < geom bf (S l) ->
    forall d lvl fuel start cnt, l = lvl + d -> d < fuel -> start = geom bf lvl -> cnt = bf ^ lvl ->
    height_loop t fuel p lvl start cnt = t_height t - l.
  Proof.
    intros (_ & Eb & _) Hl [L U]. induction d as [|d IH]; intros lvl fuel start cnt El Hf -> ->.
    - destruct fuel as [|f]; [lia|]. cbn [height_loop]. replace lvl with l in * by lia.
      destruct (Nat.leb_spec (t_height t) l); [lia|]. rewrite <- geom_S_pow.
      destruct (Nat.leb_spec (geom bf l) p); [|lia]. destruct (Nat.ltb_spec p (geom bf (S l))); [|lia]. reflexivity.
    - destruct fuel as [|f]; [lia|]. cbn [height_loop]. destruct (Nat.leb_spec (t_height t) lvl); [lia|].
      rewrite <- geom_S_pow. pose proof (geom_mono bf (S lvl) l ltac:(lia)).
      destruct (Nat.ltb_spec p (geom bf (S lvl))); [lia|]. rewrite andb_false_r.
      apply IH; [lia|lia|reflexivity|]. rewrite Eb. rewrite Nat.pow_succ_r'. apply Nat.mul_comm.
  Qed.

  Lemma height_spec t r : inst t -> index_of r ids = Some 0 -> forall k y,
    In y ids -> up_n bf ids k y = Some r -> height_of t y = t_height t - k /\ k < t_height t.
  Proof.
    intros Hi Hr k y Hin H. destruct (index_of_In _ _ Hin) as [i Hy].
    pose proof (depth_level r Hr _ _ _ H Hy) as [L U].
    pose proof Hi as (Ei & Eb & Eh & _).
    pose proof (tree_height_least (length ids) bf ltac:(lia)) as [Hcap _]. rewrite <- Eh in Hcap.
    pose proof (index_of_Some _ _ _ Hy) as [_ Hlt].
    assert (k < t_height t) as Hk.
    { destruct (Nat.le_gt_cases (t_height t) k) as [Hge|]; [|assumption].
      pose proof (geom_mono bf _ _ Hge). lia. }
    split; [|assumption].
    unfold height_of, is_root, replica_position. rewrite Ei, Hy. destruct i as [|q].
    - destruct k as [|k]; [lia|]. change (geom bf (S k)) with (1 + bf * geom bf k) in L. lia.
    - destruct k as [|k]; [cbn in U; lia|].
      apply (height_loop_spec t (S q) (S k) Hi Hk (conj L U) k 1 (t_height t) 1 (t_bf t)); [lia|lia|cbn; lia|].
      rewrite Eb. cbn. lia.
  Qed.

  (* an instance is determined by its replica: it is what NewSimple returns *)
  Lemma inst_built t : inst t -> new_simple (t_id t) (Z.of_nat bf) ids = Ok t.
  Proof.
    destruct t as [x h b l]. unfold inst; cbn. intros (-> & -> & -> & Hin). unfold new_simple.
    destruct (Z.ltb_spec (Z.of_nat bf) 2); [lia|]. destruct (index_of_In _ _ Hin) as [i ->].
    now rewrite Nat2Z.id.
  Qed.

  Lemma up_parent t : inst t ->
    up bf ids (t_id t) = match parent t with Ok (p, true) => Some p | _ => None end.
  Proof. intros Hi. unfold up. now rewrite (inst_built t Hi). Qed.

  (* PeersOf: the children of the parent; nothing for the root *)
  Lemma peers_spec t : inst t ->
    peers_of t = Ok (match up bf ids (t_id t) with Some p => children_of t p | None => [] end).
  Proof.
    intros Hi. rewrite (up_parent t Hi). unfold peers_of. pose proof (parent_spec t Hi) as P.
    destruct (index_of (t_id t) ids) as [[|q]|]; [now rewrite P| |contradiction].
    destruct P as (p & -> & _). reflexivity.
  Qed.

  (* ---- SubTree ---- *)

  (* x is a proper ancestor of y *)
  Definition desc (x y : rid) : Prop := exists k, up_n bf ids (S k) y = Some x.

  Lemma desc_step x p y : up bf ids y = Some p -> p = x \/ desc x p -> desc x y.
  Proof.
    intros Hy [->|[k Hk]].
    - exists 0. cbn [up_n]. now rewrite Hy.
    - exists (S k). change (up_n bf ids (S (S k)) y) with (match up bf ids y with Some p => up_n bf ids (S k) p | None => None end).
      now rewrite Hy.
  Qed.

  (* invariant of the work-list loop: [done] = processed prefix, [todo] = pending suffix *)
  Record sinv (x : rid) (done todo : list rid) : Prop := {
    si_nodup : NoDup (done ++ todo);
    si_incl : incl (done ++ todo) ids;
    si_just : forall c, In c (done ++ todo) -> exists q, up bf ids c = Some q /\ (q = x \/ In q done);
    si_closed_x : forall c, up bf ids c = Some x -> In c (done ++ todo);
    si_closed : forall z c, In z done -> up bf ids c = Some z -> In c (done ++ todo);
    si_desc : forall c, In c (done ++ todo) -> desc x c
  }.

  Lemma sinv_finished x done : sinv x done [] -> NoDup done /\ forall y, In y done <-> desc x y.
  Proof.
    intros [Hn _ _ Hcx Hc Hd]. rewrite app_nil_r in *. split; [assumption|]. intros y. split; [apply Hd|].
    intros [k Hk]. revert y Hk. induction k as [|k IH]; intros y Hk; cbn [up_n] in Hk;
      destruct (up bf ids y) as [p|] eqn:E; try discriminate.
    - inversion Hk; subst. apply Hcx. assumption.
    - apply (Hc p); [|assumption]. apply IH. exact Hk.
  Qed.

  Lemma reassoc (done rest ch : list rid) node : (done ++ [node]) ++ rest ++ ch = (done ++ node :: rest) ++ ch.
  Proof. repeat rewrite <- app_assoc. reflexivity. Qed.

  Lemma sinv_step t x done node rest : inst t -> sinv x done (node :: rest) ->
    sinv x (done ++ [node]) (rest ++ children_of t node).
  Proof.
    intros Hi [Hn Hin Hj Hcx Hc Hd]. constructor; rewrite reassoc.
    - apply NoDup_app_intro; [assumption|now apply children_NoDup|].
      intros z Hz Hch. apply (up_children t z node Hi) in Hch.
      destruct (Hj z Hz) as (q & Hq & Hq'). assert (q = node) as -> by congruence.
      destruct Hq' as [Hx|Hdn]; [subst node|].
      + destruct (Hd x) as [k Hk]; [apply in_or_app; right; now left|]. exact (up_acyclic k x Hk).
      + apply NoDup_remove_2 in Hn. apply Hn. apply in_or_app. now left.
    - apply incl_app; [assumption|]. intros z Hz. apply (up_children t z node Hi) in Hz. now apply up_in in Hz.
    - intros c Hc'. apply in_app_or in Hc' as [Hc'|Hc'].
      + destruct (Hj c Hc') as (q & Hq & Hq'). exists q. split; [assumption|].
        destruct Hq' as [Hq'|Hq']; [now left|right; apply in_or_app; now left].
      + exists node. split; [now apply (up_children t c node Hi)|]. right. apply in_or_app. right. now left.
    - intros c Hc'. apply in_or_app. left. now apply Hcx.
    - intros z c Hz Hc'. apply in_or_app. apply in_app_or in Hz as [Hz|[<-|[]]].
      + left. eapply Hc; eassumption.
      + right. now apply (up_children t c node Hi).
    - intros c Hc'. apply in_app_or in Hc' as [Hc'|Hc']; [now apply Hd|].
      apply (up_children t c node Hi) in Hc'. apply (desc_step x node c Hc'). right.
      apply Hd. apply in_or_app. right. now left.
  Qed.

  Lemma subtree_loop_spec t x : inst t -> forall fuel done todo,
    sinv x done todo -> length ids <= length done + fuel ->
    exists l, subtree_loop t fuel done todo = Some l /\ NoDup l /\ forall y, In y l <-> desc x y.
  Proof.
    intros Hi. induction fuel as [|f IH]; intros done todo Inv Hf; destruct todo as [|node rest]; cbn [subtree_loop].
    - exists done. split; [reflexivity|]. now apply sinv_finished.
    - exfalso. destruct Inv as [Hn Hin _ _ _ _]. pose proof (NoDup_incl_length Hn Hin) as L.
      rewrite app_length in L. cbn in L. lia.
    - exists done. split; [reflexivity|]. now apply sinv_finished.
    - apply IH; [now apply sinv_step|]. rewrite app_length. cbn. lia.
  Qed.

  Lemma subtree_unfold t : subtree t = subtree_loop t (length (t_ids t)) [] (children_of t (t_id t)).
  Proof.
    unfold subtree. destruct (children_of t (t_id t)); [|reflexivity]. destruct (length (t_ids t)); reflexivity.
  Qed.

  (* SubTree terminates within its fuel, repeats nobody and is exactly the proper descendants *)
  Lemma subtree_spec t : inst t ->
    exists l, subtree t = Some l /\ NoDup l /\ forall y, In y l <-> desc (t_id t) y.
  Proof.
    intros Hi. rewrite subtree_unfold. pose proof Hi as (Ei & _). rewrite Ei.
    apply (subtree_loop_spec t (t_id t) Hi); [|cbn; lia]. constructor; cbn [app].
    - now apply children_NoDup.
    - intros z Hz. apply (up_children t z _ Hi) in Hz. now apply up_in in Hz.
    - intros c Hc. exists (t_id t). split; [now apply (up_children t c _ Hi)|now left].
    - intros c Hc. now apply (up_children t c _ Hi).
    - intros z c [].
    - intros c Hc. apply (desc_step _ (t_id t)); [now apply (up_children t c _ Hi)|now left].
  Qed.

  (* ---- the children lists tile the position list ---- *)

  Lemma children_pos t y p : inst t -> index_of y ids = Some p ->
    children_of t y = slice ids (Nat.min (length ids) (p * bf + 1)) (Nat.min (length ids) (S p * bf + 1)).
  Proof.
    intros (Ei & Eb & _) Hp. unfold children_of, replica_position. rewrite Ei, Eb, Hp.
    destruct (Nat.leb_spec (length ids) (p * bf + 1)) as [Hle|Hgt].
    - rewrite slice_empty; [reflexivity|]. cbn [Nat.mul]. lia.
    - f_equal; [lia|]. cbn [Nat.mul]. destruct (Nat.ltb_spec (length ids) (p * bf + 1 + bf)); lia.
  Qed.

  Lemma children_tile k : 1 <= length ids -> k <= length ids ->
    concat (map (fun p => slice ids (Nat.min (length ids) (p * bf + 1)) (Nat.min (length ids) (S p * bf + 1))) (seq 0 k))
    = slice ids 1 (Nat.min (length ids) (k * bf + 1)).
  Proof.
    intros Hn. induction k as [|k IH]; intros Hk.
    - cbn [seq map concat]. rewrite slice_empty; [reflexivity|]. cbn. lia.
    - rewrite seq_S, map_app, concat_app, IH by lia. cbn [map concat Nat.add]. rewrite app_nil_r.
      apply slice_app. cbn [Nat.mul]. lia.
  Qed.

  Lemma children_concat t : inst t -> concat (map (children_of t) ids) = tl ids.
  Proof.
    intros Hi. destruct (Nat.eq_dec (length ids) 0) as [E|E].
    - destruct ids; [reflexivity|discriminate].
    - rewrite (concat_map_index (children_of t)
        (fun p => slice ids (Nat.min (length ids) (p * bf + 1)) (Nat.min (length ids) (S p * bf + 1))) ids 0).
      + rewrite children_tile by lia. rewrite Nat.min_l by nia. unfold slice.
        replace (skipn 1 ids) with (tl ids) by (destruct ids; reflexivity).
        apply firstn_all2. destruct ids; cbn; lia.
      + intros p x Hx. cbn [Nat.add]. apply children_pos; [assumption|]. now apply index_of_nth.
  Qed.
End OneTree.

(* ------------------------------------------------------------------------------------- *)
(* exported statements (premises explicit)                                               *)

Notation built bf ids x t := (new_simple x (Z.of_nat bf) ids = Ok t).

Lemma hd_index (ids : list rid) r : hd_error ids = Some r -> index_of r ids = Some 0.
Proof. destruct ids as [|y l]; cbn; [discriminate|]. intros [= ->]. now rewrite N.eqb_refl. Qed.

Lemma hd_exists (ids : list rid) x : In x ids -> exists r, hd_error ids = Some r.
Proof. destruct ids as [|y l]; [intros []|]. intros _. now exists y. Qed.

(* NewSimple succeeds exactly on bf >= 2 and a member id; otherwise it panics *)
Theorem ctor_guards x b l :
  ((exists t, new_simple x b l = Ok t) <-> (2 <= b)%Z /\ In x l) /\
  (new_simple x b l = Panic <-> ~ ((2 <= b)%Z /\ In x l)) /\
  (forall t, new_simple x b l = Ok t ->
     t_id t = x /\ t_ids t = l /\ t_bf t = Z.to_nat b /\ t_height t = tree_height (length l) (Z.to_nat b)).
Proof.
  pose proof (new_simple_spec x b l) as S. destruct (new_simple x b l) as [t| |].
  - destruct S as (Hb & Hin & ->). split; [|split].
    + split; [intros _; now split|intros _; eexists; reflexivity].
    + split; [discriminate|]. intros H; exfalso; apply H; now split.
    + intros t [= <-]. cbn. auto.
  - contradiction.
  - split; [|split].
    + split; [intros [t Ht]; discriminate|]. intros [Hb Hin]. destruct S; [lia|contradiction].
    + split; [|reflexivity]. intros _ [Hb Hin]. destruct S; [lia|contradiction].
    + intros t Ht; discriminate.
Qed.

Theorem root_unique ids bf : NoDup ids -> 2 <= bf -> forall x tx, built bf ids x tx ->
  exists r, hd_error ids = Some r /\ root tx = Ok r /\
    (forall y, is_root tx y = true <-> y = r) /\
    (parent tx = Ok (x, false) <-> x = r) /\
    (x <> r -> exists p, parent tx = Ok (p, true) /\ In p ids /\ p <> x).
Proof.
  intros Hnd Hbf x tx E. destruct (built_inst ids bf x tx E) as [Hi Hid].
  pose proof (built_in ids bf x tx E) as Hin. destruct (hd_exists ids x Hin) as [r Hr].
  pose proof (hd_index ids r Hr) as Hr0. pose proof Hi as (Ei & _).
  exists r. split; [assumption|]. split.
  { unfold root. rewrite Ei. destruct ids; [discriminate|]. cbn in Hr. congruence. }
  split.
  { intros y. unfold is_root, replica_position. rewrite Ei. split.
    - destruct (index_of y ids) as [[|q]|] eqn:Ey; try discriminate. intros _. eapply index_of_inj; eassumption.
    - intros ->. now rewrite Hr0. }
  pose proof (parent_spec ids bf Hnd Hbf tx Hi) as P. rewrite Hid in P.
  destruct (index_of x ids) as [[|q]|] eqn:Ex; [| |contradiction].
  - assert (x = r) by (eapply index_of_inj; eassumption). split; [tauto|]. intros; contradiction.
  - destruct P as (p & Hp & Hpi). rewrite Hp. split.
    + split; [discriminate|]. intros ->. congruence.
    + intros _. exists p. split; [reflexivity|]. split; [eapply index_of_is_In; eassumption|].
      intros ->. rewrite Ex in Hpi. inversion Hpi. pose proof (div_le_self bf Hbf q). lia.
Qed.

Lemma parent_up ids bf : NoDup ids -> 2 <= bf -> forall x tx p, built bf ids x tx ->
  (parent tx = Ok (p, true) <-> up bf ids x = Some p).
Proof.
  intros Hnd Hbf x tx p E. unfold up. rewrite E. split; [intros ->; reflexivity|].
  destruct (parent tx) as [[p' []]| |]; congruence.
Qed.

Theorem parent_child ids bf : NoDup ids -> 2 <= bf -> forall x y tx ty p,
  built bf ids x tx -> built bf ids y ty ->
  (parent tx = Ok (p, true) <-> In x (children_of ty p)).
Proof.
  intros Hnd Hbf x y tx ty p Ex Ey. rewrite (parent_up ids bf Hnd Hbf x tx p Ex).
  destruct (built_inst ids bf y ty Ey) as [Hi _]. apply (up_children ids bf Hnd Hbf ty x p Hi).
Qed.

Theorem children_partition ids bf : NoDup ids -> 2 <= bf -> forall y ty, built bf ids y ty ->
  concat (map (children_of ty) ids) = tl ids /\
  (forall p, NoDup (children_of ty p)) /\
  (forall p p' z, In z (children_of ty p) -> In z (children_of ty p') -> p = p') /\
  (forall p z, In z (children_of ty p) -> In z ids /\ In p ids /\ hd_error ids <> Some z) /\
  (forall z, In z ids -> hd_error ids <> Some z -> exists p, In p ids /\ In z (children_of ty p)).
Proof.
  intros Hnd Hbf y ty E. destruct (built_inst ids bf y ty E) as [Hi _].
  split; [eapply children_concat; eassumption|]. split; [intros p; eapply children_NoDup; eassumption|].
  split.
  { intros p p' z H H'. apply (up_children ids bf Hnd Hbf ty z _ Hi) in H, H'. congruence. }
  split.
  { intros p z H. apply (up_children ids bf Hnd Hbf ty z _ Hi) in H.
    destruct (up_in ids bf Hnd Hbf _ _ H). repeat split; try assumption.
    intros Hr. apply hd_index in Hr. apply up_spec in H as (q & Hz & _); try assumption. congruence. }
  intros z Hz Hr. destruct (index_of_In _ _ Hz) as [i Hi'].
  destruct i as [|q].
  - exfalso. apply Hr. destruct ids as [|a l]; [destruct Hz|]. cbn in *.
    destruct (N.eqb_spec a z) as [->|]; [reflexivity|]. destruct (index_of z l); discriminate.
  - pose proof (index_of_Some _ _ _ Hi') as [_ Hlt]. pose proof (div_le_self bf Hbf q).
    destruct (nth_error ids (q / bf)) as [p|] eqn:En; [|apply nth_error_None in En; lia].
    exists p. split; [eapply nth_error_In; eassumption|].
    apply (up_children ids bf Hnd Hbf ty z p Hi). apply up_spec; try assumption.
    exists q. split; [assumption|]. now apply index_of_nth.
Qed.

Theorem parent_wf ids bf : NoDup ids -> 2 <= bf -> forall r, hd_error ids = Some r ->
  forall x, In x ids ->
  (exists k, k < length ids /\ up_n bf ids k x = Some r) /\
  (forall k k', up_n bf ids k x = Some r -> up_n bf ids k' x = Some r -> k = k') /\
  (forall k, up_n bf ids (S k) x <> Some x).
Proof.
  intros Hnd Hbf r Hr x Hx. apply hd_index in Hr. destruct (index_of_In _ _ Hx) as [i Hi].
  split.
  - destruct (reach_root ids bf Hnd Hbf r Hr i x Hi) as (k & Hk & Hup). exists k. split; [|assumption].
    apply index_of_Some in Hi as [_ Hlt]. lia.
  - split; [intros k k'; now apply (depth_unique ids bf Hnd Hbf r Hr)|].
    intros k. now apply up_acyclic.
Qed.

Theorem subtree_exact ids bf : NoDup ids -> 2 <= bf -> forall x tx, built bf ids x tx ->
  exists l, subtree tx = Some l /\ NoDup l /\
    forall y, In y l <-> exists k, up_n bf ids (S k) y = Some x.
Proof.
  intros Hnd Hbf x tx E. destruct (built_inst ids bf x tx E) as [Hi Hid].
  destruct (subtree_spec ids bf Hnd Hbf tx Hi) as (l & Hl & Hn & Hd). rewrite Hid in Hd.
  exists l. repeat split; try assumption; apply Hd.
Qed.

Theorem peers_exact ids bf : NoDup ids -> 2 <= bf -> forall x y tx ty,
  built bf ids x tx -> built bf ids y ty ->
  (forall p, parent tx = Ok (p, true) -> peers_of tx = Ok (children_of ty p)) /\
  (forall p, parent tx = Ok (p, false) -> peers_of tx = Ok []) /\
  exists l, peers_of tx = Ok l /\
    forall z, In z l <-> exists p, up bf ids x = Some p /\ up bf ids z = Some p.
Proof.
  intros Hnd Hbf x y tx ty Ex Ey. destruct (built_inst ids bf x tx Ex) as [Hi Hid].
  destruct (built_inst ids bf y ty Ey) as [Hi' _].
  pose proof (peers_spec ids bf Hnd Hbf tx Hi) as P. rewrite Hid in P.
  split.
  { intros p Hp. apply (parent_up ids bf Hnd Hbf x tx p Ex) in Hp. rewrite Hp in P. rewrite P.
    f_equal. now apply (children_vantage ids bf). }
  split.
  { intros p Hp. unfold peers_of. now rewrite Hp. }
  eexists. split; [exact P|]. intros z. destruct (up bf ids x) as [p|] eqn:Eu.
  - rewrite <- (up_children ids bf Hnd Hbf tx z p Hi). split.
    + intros Hz. exists p. now split.
    + intros (p' & [= <-] & Hz). assumption.
  - split; [intros []|]. intros (p & Hp & _). discriminate.
Qed.

Theorem height_consistent ids bf : NoDup ids -> 2 <= bf -> forall r, hd_error ids = Some r ->
  forall y ty, built bf ids y ty ->
  (length ids <= geom bf (tree_height_m ty) /\
   forall h', length ids <= geom bf h' -> tree_height_m ty <= h') /\
  (forall x k, In x ids -> up_n bf ids k x = Some r ->
     height_of ty x = tree_height_m ty - k /\ k < tree_height_m ty) /\
  replica_height ty = height_of ty y.
Proof.
  intros Hnd Hbf r Hr y ty E. destruct (built_inst ids bf y ty E) as [Hi Hid]. apply hd_index in Hr.
  split.
  { unfold tree_height_m. destruct Hi as (_ & _ & -> & _). apply tree_height_least. lia. }
  split.
  { intros x k Hx Hk. unfold tree_height_m. now apply (height_spec ids bf Hnd Hbf ty r Hi Hr). }
  unfold replica_height. now rewrite Hid.
Qed.

(* Lemmas about the symbolic signature schemes: reflection of the boolean helpers and soundness of
   Verify / BatchVerify (whoever is counted as a participant is a distinct configured replica that
   genuinely signed the message). *)
From Coq Require Import Permutation.
From HS Require Import Base.Prelude Crypto.Symbolic Crypto.SchemeModel.

(* ---------- reflection ---------- *)
Lemma memN_In i l : memN i l = true <-> In i l.
Proof.
  unfold memN. rewrite existsb_exists. split.
  - intros [x [Hx He]]. apply N.eqb_eq in He. now subst.
  - intros H. exists i. split; [assumption | apply N.eqb_refl].
Qed.

Lemma memN_false i l : memN i l = false <-> ~ In i l.
Proof. rewrite <- memN_In. destruct (memN i l); split; congruence. Qed.

Lemma nodupbN_NoDup l : nodupbN l = true <-> NoDup l.
Proof.
  induction l as [|x r IH]; cbn.
  - split; [constructor | reflexivity].
  - rewrite andb_true_iff, negb_true_iff, memN_false, IH. split.
    + intros [H1 H2]. now constructor.
    + intros H. inversion H; subst. now split.
Qed.

Lemma option_eqb_N_eq (a b : option N) : option_eqb N.eqb a b = true <-> a = b.
Proof.
  destruct a, b; cbn; try (split; congruence).
  rewrite N.eqb_eq. split; congruence.
Qed.

Lemma msg_eqb_eq a b : msg_eqb a b = true <-> a = b.
Proof.
  destruct a, b; cbn; try (split; congruence).
  - rewrite N.eqb_eq. split; congruence.
  - rewrite N.eqb_eq. split; congruence.
  - rewrite !andb_true_iff, !N.eqb_eq, option_eqb_N_eq. split.
    + intros [[-> ->] ->]. reflexivity.
    + intros H. inversion H. auto.
Qed.

Lemma msg_eqb_refl a : msg_eqb a a = true.
Proof. now apply msg_eqb_eq. Qed.

Lemma contrib_eqb_eq a b : contrib_eqb a b = true <-> a = b.
Proof.
  destruct a as [i m], b as [j m']. unfold contrib_eqb. cbn.
  rewrite andb_true_iff, N.eqb_eq, msg_eqb_eq. split.
  - intros [-> ->]. reflexivity.
  - intros H. inversion H. auto.
Qed.

Lemma contrib_eqb_refl a : contrib_eqb a a = true.
Proof. now apply contrib_eqb_eq. Qed.

(* ---------- dedupN / bits_set ---------- *)
Lemma dedupN_In x l : In x (dedupN l) <-> In x l.
Proof.
  induction l as [|y r IH]; cbn; [tauto|].
  rewrite filter_In, IH, negb_true_iff, N.eqb_neq.
  destruct (N.eq_dec y x); [subst; tauto|]. split.
  - intros [H|[H _]]; auto.
  - intros [H|H]; [congruence|]. right. split; auto.
Qed.

Lemma NoDup_filter {A} (f : A -> bool) l : NoDup l -> NoDup (filter f l).
Proof.
  induction 1 as [|x r Hx Hr IH]; cbn; [constructor|].
  destruct (f x); [constructor; [rewrite filter_In; tauto | assumption] | assumption].
Qed.

Lemma filter_all_id {A} (f : A -> bool) l : forallb f l = true -> filter f l = l.
Proof.
  induction l as [|x r IH]; cbn; [reflexivity|]. rewrite andb_true_iff. intros [Hx Hr].
  rewrite Hx. f_equal. now apply IH.
Qed.

Lemma dedupN_NoDup l : NoDup (dedupN l).
Proof.
  induction l as [|y r IH]; cbn; [constructor|]. constructor.
  - rewrite filter_In, negb_true_iff, N.eqb_neq. intros [_ H]. congruence.
  - now apply NoDup_filter.
Qed.

Lemma dedupN_id l : NoDup l -> dedupN l = l.
Proof.
  induction 1 as [|x r Hx Hr IH]; cbn; [reflexivity|]. rewrite IH. f_equal.
  apply filter_all_id. apply forallb_forall. intros y Hy.
  rewrite negb_true_iff, N.eqb_neq. intros ->. contradiction.
Qed.

(* ---------- multisets of contributions ---------- *)
Lemma count_c_pos x l : (0 < count_c x l)%nat <-> In x l.
Proof.
  unfold count_c. induction l as [|y r IH]; cbn; [split; [lia | tauto]|].
  destruct (contrib_eqb x y) eqn:E; cbn.
  - apply contrib_eqb_eq in E. subst. split; [auto | lia].
  - rewrite IH. split; [auto|]. intros [H|H]; [|assumption].
    subst. rewrite contrib_eqb_refl in E. discriminate.
Qed.

Lemma multiset_eqb_In a b : multiset_eqb a b = true -> forall x, In x b -> In x a.
Proof.
  unfold multiset_eqb. rewrite forallb_forall. intros H x Hx.
  specialize (H x (in_or_app _ _ _ (or_intror Hx))). apply Nat.eqb_eq in H.
  apply count_c_pos. rewrite H. now apply count_c_pos.
Qed.

Lemma count_c_perm x a b : Permutation a b -> count_c x a = count_c x b.
Proof.
  unfold count_c. induction 1; cbn; try congruence.
  - destruct (contrib_eqb x x0); cbn; congruence.
  - destruct (contrib_eqb x y), (contrib_eqb x x0); cbn; reflexivity.
Qed.

Lemma multiset_eqb_perm a b : Permutation a b -> multiset_eqb a b = true.
Proof.
  intros H. unfold multiset_eqb. apply forallb_forall. intros x _.
  apply Nat.eqb_eq. now apply count_c_perm.
Qed.

(* ---------- association lists ---------- *)
Lemma lookupN_In {A} i (b : list (N * A)) a : lookupN i b = Some a -> In (i, a) b.
Proof.
  induction b as [|[k x] r IH]; cbn; [discriminate|].
  destruct (N.eqb i k) eqn:E.
  - apply N.eqb_eq in E. intros H. inversion H. subst. now left.
  - intros H. right. auto.
Qed.

Lemma lookupN_None {A} i (b : list (N * A)) : lookupN i b = None <-> ~ In i (map fst b).
Proof.
  induction b as [|[k x] r IH]; cbn; [tauto|].
  destruct (N.eqb i k) eqn:E.
  - apply N.eqb_eq in E. subst. split; [discriminate | tauto].
  - apply N.eqb_neq in E. rewrite IH. split; [intros H [H'|H']; [congruence | tauto] | tauto].
Qed.

Lemma In_lookupN {A} i a (b : list (N * A)) : NoDup (map fst b) -> In (i, a) b -> lookupN i b = Some a.
Proof.
  induction b as [|[k x] r IH]; cbn; [tauto|]. intros Hnd [H|H].
  - inversion H. subst. now rewrite N.eqb_refl.
  - inversion Hnd as [|? ? Hk Hr]; subst. destruct (N.eqb i k) eqn:E.
    + apply N.eqb_eq in E. subst. exfalso. apply Hk. change k with (fst (k, a)). now apply in_map.
    + auto.
Qed.

Lemma map_of_keys_in {A} (b : list (N * A)) p : In p (map_of b) -> In p b.
Proof.
  revert p. induction b as [|[k x] r IH]; cbn; [tauto|]. intros p [H|H]; [now left|].
  apply filter_In in H. right. now apply IH.
Qed.

Lemma map_of_NoDup {A} (b : list (N * A)) : NoDup (map fst (map_of b)).
Proof.
  induction b as [|[k x] r IH]; cbn; [constructor|]. constructor.
  - rewrite in_map_iff. intros [[k' a] [Hk Hin]]. cbn in Hk. subst.
    apply filter_In in Hin. destruct Hin as [_ H]. cbn in H. now rewrite N.eqb_refl in H.
  - clear -IH. induction (map_of r) as [|[k' a] l IHl]; cbn; [constructor|].
    cbn in IH. inversion IH; subst. destruct (negb (N.eqb k k')); cbn.
    + constructor; [|now apply IHl]. rewrite in_map_iff. intros [p [Hp Hin]].
      apply filter_In in Hin. apply H1. rewrite in_map_iff. exists p. tauto.
    + now apply IHl.
Qed.

Lemma lookupN_filter_ne {A} i k (l : list (N * A)) :
  i <> k -> lookupN i (filter (fun p => negb (N.eqb k (fst p))) l) = lookupN i l.
Proof.
  intros Hne. induction l as [|[k' a] r IH]; cbn; [reflexivity|].
  destruct (N.eqb k k') eqn:E; cbn.
  - apply N.eqb_eq in E. subst. apply N.eqb_neq in Hne. now rewrite Hne.
  - destruct (N.eqb i k'); [reflexivity | assumption].
Qed.

Lemma lookupN_map_of {A} i (b : list (N * A)) : lookupN i (map_of b) = lookupN i b.
Proof.
  induction b as [|[k x] r IH]; cbn; [reflexivity|].
  destruct (N.eqb i k) eqn:E; [reflexivity|].
  apply N.eqb_neq in E. now rewrite lookupN_filter_ne.
Qed.

Lemma map_of_id {A} (b : list (N * A)) : NoDup (map fst b) -> map_of b = b.
Proof.
  induction b as [|[k x] r IH]; cbn; [reflexivity|]. intros H. inversion H; subst.
  rewrite IH by assumption. f_equal. apply filter_all_id. apply forallb_forall.
  intros p Hp. rewrite negb_true_iff, N.eqb_neq. intros ->. apply H2. now apply in_map.
Qed.

(* ---------- soundness of Verify ---------- *)
Section Sound.
  Variable members : list rid.

  Lemma verify_single_sound s m :
    verify_single members s m = true -> In (s_claimed s) members /\ s_real s = Some (s_claimed s, m).
  Proof.
    unfold verify_single, has_key. destruct (memN (s_claimed s) members) eqn:Hk; cbn; [|discriminate].
    apply memN_In in Hk. destruct (s_real s) as [[i m']|]; [|discriminate].
    rewrite andb_true_iff, N.eqb_eq, msg_eqb_eq. intros [-> ->]. auto.
  Qed.

  Lemma verify_single_complete s m :
    In (s_claimed s) members -> s_real s = Some (s_claimed s, m) -> verify_single members s m = true.
  Proof.
    intros Hk Hr. unfold verify_single, has_key. apply memN_In in Hk. rewrite Hk, Hr. cbn.
    now rewrite N.eqb_refl, msg_eqb_refl.
  Qed.

  Lemma In_real_flat (l : list sig1) s c : In s l -> s_real s = Some c -> In c (flat_map real_of l).
  Proof. intros Hs Hr. apply in_flat_map. exists s. split; [assumption|]. unfold real_of. rewrite Hr. now left. Qed.

  Lemma multi_verify_sound k l m :
    multi_verify members l m = true ->
    NoDup (map s_claimed l) /\ l <> [] /\
    forall i, In i (map s_claimed l) -> In i members /\ genuine (QMulti k l) i m.
  Proof.
    unfold multi_verify. destruct l as [|s0 r]; [discriminate|]. cbn [length Nat.eqb].
    destruct (distinct_signers (s0 :: r)) eqn:Hd; cbn [negb]; [|discriminate].
    intros Hall. apply nodupbN_NoDup in Hd. split; [assumption|]. split; [discriminate|].
    rewrite forallb_forall in Hall. intros i Hi. apply in_map_iff in Hi. destruct Hi as [s [<- Hs]].
    destruct (verify_single_sound _ _ (Hall s Hs)) as [Hk Hr]. split; [assumption|].
    unfold genuine. cbn [contributions]. eapply In_real_flat; eassumption.
  Qed.

  Lemma bls_verify_sound bits real m :
    bls_verify members bits real m = true ->
    forall i, In i (bits_set bits) -> In i members /\ genuine (QBls bits real) i m.
  Proof.
    unfold bls_verify. intros H i Hi.
    assert (Hgen : forall ids, In i ids ->
      (if negb (forallb (has_key members) ids) then false
       else match real with Some c => multiset_eqb c (map (fun i => (i, m)) ids) | None => false end) = true ->
      In i members /\ genuine (QBls bits real) i m).
    { intros ids Hin H'. destruct (forallb (has_key members) ids) eqn:Hk; cbn in H'; [|discriminate].
      rewrite forallb_forall in Hk. split; [apply memN_In, Hk, Hin|].
      destruct real as [c|]; [|discriminate]. unfold genuine. cbn.
      eapply multiset_eqb_In; [eassumption|]. apply in_map_iff. now exists i. }
    destruct (bits_set bits) as [|j [|j' r]] eqn:E.
    - destruct Hi.
    - (* n = 1 *) destruct Hi as [<-|[]].
      destruct (has_key members j) eqn:Hk; cbn in H; [|discriminate].
      split; [now apply memN_In|]. destruct real as [c|]; [|discriminate].
      unfold genuine. cbn. eapply multiset_eqb_In; [eassumption | now left].
    - eapply Hgen; [exact Hi | exact H].
  Qed.

  (* uniform statement: every participant is a configured replica that genuinely signed m, and the
     participant list has no repetition *)
  Theorem scheme_verify_sound sch s m :
    scheme_verify members sch s m = true ->
    NoDup (participants s) /\
    forall i, In i (participants s) -> In i members /\ genuine s i m.
  Proof.
    destruct sch, s as [k l | bits real]; cbn [scheme_verify]; try discriminate.
    - destruct k; [|discriminate]. intros H. destruct (multi_verify_sound KEcdsa _ _ H) as [H1 [_ H2]]. now split.
    - destruct k; [discriminate|]. intros H. destruct (multi_verify_sound KEddsa _ _ H) as [H1 [_ H2]]. now split.
    - intros H. split; [apply dedupN_NoDup | now apply bls_verify_sound].
  Qed.
End Sound.

(* ---------- soundness of BatchVerify ---------- *)
Lemma filter_length_le {A} (f : A -> bool) l : (length (filter f l) <= length l)%nat.
Proof. induction l as [|x r IH]; cbn; [lia|]. destruct (f x); cbn; lia. Qed.

Lemma distinct_count_le l : (distinct_count l <= length l)%nat.
Proof.
  unfold distinct_count. induction l as [|x r IH]; cbn; [lia|].
  pose proof (filter_length_le (fun y => negb (msg_eqb x y)) (dedup_msgs r)). lia.
Qed.

Lemma batch_msgs_spec l batch ps :
  batch_msgs l batch = Some ps ->
  map fst ps = l /\ forall s m, In (s, m) ps -> lookupN (s_claimed s) batch = Some m.
Proof.
  revert ps. induction l as [|s r IH]; cbn; intros ps H.
  - inversion H. subst. split; [reflexivity | intros ? ? []].
  - destruct (lookupN (s_claimed s) batch) as [m|] eqn:Hl; [|discriminate].
    destruct (batch_msgs r batch) as [ps'|]; [|discriminate]. inversion H; subst. clear H.
    destruct (IH ps' eq_refl) as [H1 H2]. split; [cbn; now rewrite H1|].
    intros s' m' [Heq|Hin]; [inversion Heq; subst; assumption | now apply H2].
Qed.

Section BatchSound.
  Variable members : list rid.

  Lemma multi_batch_verify_sound k l batch :
    multi_batch_verify members l batch = true ->
    NoDup (map s_claimed l) /\
    (forall i, In i (map s_claimed l) ->
       In i members /\ exists m, lookupN i batch = Some m /\ genuine (QMulti k l) i m) /\
    (forall key, In key (map fst batch) -> In key (map s_claimed l)).
  Proof.
    unfold multi_batch_verify. destruct (Nat.eqb (length l) 0); [discriminate|].
    destruct (distinct_signers l) eqn:Hd; cbn [negb]; [|discriminate].
    apply nodupbN_NoDup in Hd.
    destruct (batch_msgs l batch) as [ps|] eqn:Hb; [|discriminate].
    destruct (forallb (fun p => verify_single members (fst p) (snd p)) ps) eqn:Hall; cbn [negb]; [|discriminate].
    intros Hcnt. apply Nat.eqb_eq in Hcnt.
    destruct (batch_msgs_spec _ _ _ Hb) as [Hfst Hlk]. rewrite forallb_forall in Hall.
    assert (Hper : forall i, In i (map s_claimed l) ->
       In i members /\ exists m, lookupN i batch = Some m /\ genuine (QMulti k l) i m).
    { intros i Hi. apply in_map_iff in Hi. destruct Hi as [s [<- Hs]].
      rewrite <- Hfst in Hs. apply in_map_iff in Hs. destruct Hs as [[s' m] [Heq Hin]]. cbn in Heq. subst s'.
      destruct (verify_single_sound _ _ _ (Hall _ Hin)) as [Hk Hr]. cbn in Hk, Hr.
      split; [assumption|]. exists m. split; [now apply Hlk|].
      unfold genuine. cbn. eapply In_real_flat; [|eassumption].
      rewrite <- Hfst. apply in_map_iff. now exists (s, m). }
    split; [assumption|]. split; [assumption|].
    (* keys of the batch are exactly the signers: counting *)
    apply NoDup_length_incl; [assumption| |].
    - rewrite !map_length. rewrite <- Hcnt.
      pose proof (distinct_count_le (map snd ps)) as Hle. rewrite map_length in Hle.
      rewrite <- Hfst, map_length. exact Hle.
    - intros i Hi. destruct (Hper i Hi) as [_ [m [Hm _]]].
      apply lookupN_In in Hm. apply in_map_iff. now exists (i, m).
  Qed.

  Lemma bls_batch_verify_sound bits real batch :
    bls_batch_verify members bits real batch = true ->
    length (bits_set bits) = length batch /\
    forall i m, In (i, m) batch -> In i members /\ genuine (QBls bits real) i m.
  Proof.
    unfold bls_batch_verify.
    destruct (Nat.eqb (length (bits_set bits)) (length batch)) eqn:Hn; cbn [negb]; [|discriminate].
    apply Nat.eqb_eq in Hn.
    destruct (forallb (has_key members) (map fst batch)) eqn:Hk; cbn [negb]; [|discriminate].
    rewrite forallb_forall in Hk.
    destruct real as [c|]; [|discriminate]. intros H. split; [assumption|].
    assert (Hm : multiset_eqb c batch = true).
    { destruct batch as [|p [|p' r]]; try exact H.
      - destruct (distinct_msgs (map snd [])); cbn in H; discriminate.
      - destruct (distinct_msgs (map snd (p :: p' :: r))); cbn [negb] in H; [|discriminate].
        destruct (Nat.ltb (length (p :: p' :: r)) 1); [discriminate | exact H]. }
    intros i m Hin. split.
    - apply memN_In, Hk. apply in_map_iff. now exists (i, m).
    - unfold genuine. cbn. eapply multiset_eqb_In; eassumption.
  Qed.

  Theorem scheme_batch_verify_sound sch s batch :
    NoDup (map fst batch) ->
    scheme_batch_verify members sch s batch = true ->
    exists S : list rid, NoDup S /\ length S = part_len s /\
      (forall i, In i S -> In i members /\ exists m, lookupN i batch = Some m /\ genuine s i m) /\
      (forall key, In key (map fst batch) -> In key S).
  Proof.
    intros Hnd.
    assert (Hm : forall k l, multi_batch_verify members l batch = true ->
      exists S : list rid, NoDup S /\ length S = part_len (QMulti k l) /\
      (forall i, In i S -> In i members /\ exists m, lookupN i batch = Some m /\ genuine (QMulti k l) i m) /\
      (forall key, In key (map fst batch) -> In key S)).
    { intros k l H. destruct (multi_batch_verify_sound k _ _ H) as [H1 [H2 H3]].
      exists (map s_claimed l). repeat split; try assumption; now apply H2. }
    destruct sch, s as [k l | bits real]; cbn [scheme_batch_verify]; try discriminate.
    - destruct k; [|discriminate]. apply Hm.
    - destruct k; [discriminate|]. apply Hm.
    - intros H. destruct (bls_batch_verify_sound _ _ _ H) as [Hlen Hall].
      exists (map fst batch). split; [assumption|]. split.
      + unfold part_len. cbn. now rewrite map_length.
      + split; [|tauto]. intros i Hi. apply in_map_iff in Hi. destruct Hi as [[i' m] [Heq Hin]].
        cbn in Heq. subst i'. destruct (Hall _ _ Hin) as [Hk Hg]. split; [assumption|].
        exists m. split; [now apply In_lookupN | assumption].
  Qed.
End BatchSound.

(* ---------- completeness: Combine of single genuine signatures, then Verify / BatchVerify ---------- *)
Definition single (f : rid -> msg) (i : rid) : sig1 := mkSig i (Some (i, f i)).

Lemma NoDup_app_cons_r {A} (a : list A) x r : NoDup (a ++ x :: r) -> ~ In x a /\ NoDup ((a ++ [x]) ++ r).
Proof.
  intros H. split.
  - intros Hin. apply NoDup_remove_2 in H. apply H. apply in_or_app. now left.
  - now rewrite <- app_assoc.
Qed.

Lemma multi_combine_singles k f ids : forall acc,
  NoDup (map s_claimed acc ++ ids) ->
  multi_combine k acc (map (fun i => QMulti k [single f i]) ids) = Some (acc ++ map (single f) ids).
Proof.
  induction ids as [|i r IH]; intros acc Hnd; cbn.
  - now rewrite app_nil_r.
  - assert (Hk : mkind_eqb k k = true) by now destruct k. rewrite Hk. cbn [negb].
    destruct (NoDup_app_cons_r _ _ _ Hnd) as [Hni Hnd'].
    apply memN_false in Hni. cbn [multi_append single s_claimed]. rewrite Hni.
    rewrite IH.
    + now rewrite <- app_assoc.
    + now rewrite map_app.
Qed.

Lemma bls_combine_singles f ids : forall bits c,
  NoDup (bits ++ ids) ->
  bls_combine bits (Some c) (map (fun i => QBls [i] (Some [(i, f i)])) ids)
  = Some (QBls (bits ++ ids) (Some (c ++ map (fun i => (i, f i)) ids))).
Proof.
  induction ids as [|i r IH]; intros bits c Hnd; cbn.
  - now rewrite !app_nil_r.
  - destruct (NoDup_app_cons_r _ _ _ Hnd) as [Hni Hnd'].
    apply memN_false in Hni. rewrite Hni. cbn [real_add].
    rewrite IH by assumption. now rewrite <- !app_assoc.
Qed.

Lemma map_claimed_singles f ids : map s_claimed (map (single f) ids) = ids.
Proof. rewrite map_map. cbn. apply map_id. Qed.

Lemma length_ge2_ltb {A} (l : list A) : (2 <= length l)%nat -> Nat.ltb (length l) 2 = false.
Proof. intros H. now apply Nat.ltb_ge. Qed.

(* Combine of the single signatures of distinct replicas succeeds and lists exactly them *)
Lemma combine_signs sch f ids :
  NoDup ids -> (2 <= length ids)%nat ->
  scheme_combine sch (map (fun i => sign sch i (f i)) ids) =
  Some (match sch with
        | Ecdsa => QMulti KEcdsa (map (single f) ids)
        | Eddsa => QMulti KEddsa (map (single f) ids)
        | Bls12 => QBls ids (Some (map (fun i => (i, f i)) ids))
        end).
Proof.
  intros Hnd Hlen. unfold scheme_combine. rewrite map_length, length_ge2_ltb by assumption.
  destruct sch; cbn [sign].
  - change (fun i => QMulti KEcdsa [mkSig i (Some (i, f i))]) with (fun i => QMulti KEcdsa [single f i]).
    now rewrite multi_combine_singles.
  - change (fun i => QMulti KEddsa [mkSig i (Some (i, f i))]) with (fun i => QMulti KEddsa [single f i]).
    now rewrite multi_combine_singles.
  - now rewrite bls_combine_singles.
Qed.

Section Complete.
  Variable members : list rid.

  Lemma multi_verify_singles f ids m :
    ids <> [] -> NoDup ids -> incl ids members -> (forall i, In i ids -> f i = m) ->
    multi_verify members (map (single f) ids) m = true.
  Proof.
    intros Hne Hnd Hincl Hf. unfold multi_verify. rewrite map_length.
    destruct ids as [|i r]; [congruence|]. cbn [length Nat.eqb].
    unfold distinct_signers. rewrite map_claimed_singles.
    apply nodupbN_NoDup in Hnd. rewrite Hnd. cbn [negb].
    apply forallb_forall. intros s Hs. apply in_map_iff in Hs. destruct Hs as [j [<- Hj]].
    apply verify_single_complete; cbn; [now apply Hincl | now rewrite (Hf j Hj)].
  Qed.

  Lemma forallb_has_key ids : incl ids members -> forallb (has_key members) ids = true.
  Proof. intros H. apply forallb_forall. intros i Hi. now apply memN_In, H. Qed.

  Lemma bls_verify_singles f ids m :
    NoDup ids -> incl ids members -> (forall i, In i ids -> f i = m) ->
    bls_verify members ids (Some (map (fun i => (i, f i)) ids)) m = true.
  Proof.
    intros Hnd Hincl Hf. unfold bls_verify, bits_set. rewrite dedupN_id by assumption.
    assert (Hmap : map (fun i => (i, f i)) ids = map (fun i => (i, m)) ids).
    { apply map_ext_in. intros i Hi. now rewrite (Hf i Hi). }
    rewrite Hmap.
    assert (Hgen : (if negb (forallb (has_key members) ids) then false
                    else multiset_eqb (map (fun i => (i, m)) ids) (map (fun i => (i, m)) ids)) = true).
    { rewrite forallb_has_key by assumption. cbn. now apply multiset_eqb_perm. }
    destruct ids as [|i [|j r]]; try exact Hgen.
    assert (Hk : has_key members i = true) by (apply memN_In, Hincl; now left).
    rewrite Hk. cbn [negb]. now apply multiset_eqb_perm.
  Qed.

  Theorem combine_verify_complete sch f ids m :
    NoDup ids -> (2 <= length ids)%nat -> incl ids members -> (forall i, In i ids -> f i = m) ->
    exists s, scheme_combine sch (map (fun i => sign sch i (f i)) ids) = Some s /\
              participants s = ids /\ scheme_verify members sch s m = true.
  Proof.
    intros Hnd Hlen Hincl Hf. rewrite combine_signs by assumption.
    assert (Hne : ids <> []) by (destruct ids; [cbn in Hlen; lia | discriminate]).
    destruct sch; eexists; (split; [reflexivity|]); cbn [participants scheme_verify].
    - split; [apply map_claimed_singles | now apply multi_verify_singles].
    - split; [apply map_claimed_singles | now apply multi_verify_singles].
    - split; [unfold bits_set; now apply dedupN_id | now apply bls_verify_singles].
  Qed.

  (* batch: the batch lists exactly the signers, in order, each with its own message *)
  Lemma batch_msgs_singles f ids batch :
    (forall i, In i ids -> lookupN i batch = Some (f i)) ->
    batch_msgs (map (single f) ids) batch = Some (map (fun i => (single f i, f i)) ids).
  Proof.
    induction ids as [|i r IH]; intros H; cbn; [reflexivity|].
    rewrite (H i (or_introl eq_refl)). rewrite IH; [reflexivity|]. intros j Hj. apply H. now right.
  Qed.

  Lemma dedup_msgs_id l : NoDup l -> dedup_msgs l = l.
  Proof.
    induction 1 as [|x r Hx Hr IH]; cbn; [reflexivity|]. rewrite IH. f_equal.
    apply filter_all_id. apply forallb_forall. intros y Hy.
    rewrite negb_true_iff. destruct (msg_eqb x y) eqn:E; [|reflexivity].
    apply msg_eqb_eq in E. subst. contradiction.
  Qed.

  Lemma NoDup_map_inj {A B} (g : A -> B) l : (forall a b, In a l -> In b l -> g a = g b -> a = b) -> NoDup l -> NoDup (map g l).
  Proof.
    intros Hinj. induction 1 as [|x r Hx Hr IH]; cbn; [constructor|]. constructor.
    - rewrite in_map_iff. intros [y [Hy Hin]]. apply Hx.
      rewrite (Hinj x y); [assumption | now left | now right | now symmetry].
    - apply IH. intros a b Ha Hb. apply Hinj; now right.
  Qed.

  Lemma bls_batch_verify_self (batch : list (rid * msg)) :
    NoDup (map fst batch) -> incl (map fst batch) members -> NoDup (map snd batch) ->
    (2 <= length batch)%nat ->
    bls_batch_verify members (map fst batch) (Some batch) batch = true.
  Proof.
    intros Hnd Hincl Hm Hlen. unfold bls_batch_verify, bits_set. rewrite dedupN_id by assumption.
    rewrite map_length, Nat.eqb_refl. cbn [negb]. rewrite forallb_has_key by assumption. cbn [negb].
    assert (Hd : distinct_msgs (map snd batch) = true).
    { unfold distinct_msgs, distinct_count. rewrite dedup_msgs_id by assumption. apply Nat.eqb_refl. }
    assert (Hp : multiset_eqb batch batch = true) by now apply multiset_eqb_perm.
    destruct batch as [|p [|p' r]]; [cbn in Hlen; lia | exact Hp |].
    rewrite Hd. cbn [negb length Nat.ltb Nat.leb]. exact Hp.
  Qed.

  Theorem combine_batch_verify_complete sch f ids :
    NoDup ids -> (2 <= length ids)%nat -> incl ids members ->
    (forall i j, In i ids -> In j ids -> f i = f j -> i = j) ->
    exists s, scheme_combine sch (map (fun i => sign sch i (f i)) ids) = Some s /\
              participants s = ids /\
              scheme_batch_verify members sch s (map (fun i => (i, f i)) ids) = true.
  Proof.
    intros Hnd Hlen Hincl Hinj. rewrite combine_signs by assumption.
    set (batch := map (fun i => (i, f i)) ids).
    assert (Hkeys : map fst batch = ids) by (unfold batch; rewrite map_map; apply map_id).
    assert (Hmsgs : map snd batch = map f ids) by (unfold batch; now rewrite map_map).
    assert (Hlk : forall i, In i ids -> lookupN i batch = Some (f i)).
    { intros i Hi. apply In_lookupN; [change (NoDup (map fst batch)); now rewrite Hkeys|]. unfold batch. apply in_map_iff. now exists i. }
    assert (Hndm : NoDup (map f ids)) by (apply NoDup_map_inj; assumption).
    assert (Hm : multi_batch_verify members (map (single f) ids) batch = true).
    { unfold multi_batch_verify. rewrite map_length.
      destruct (Nat.eqb (length ids) 0) eqn:E0; [apply Nat.eqb_eq in E0; lia|].
      unfold distinct_signers. rewrite map_claimed_singles.
      pose proof Hnd as Hnd'. apply nodupbN_NoDup in Hnd'. rewrite Hnd'. cbn [negb].
      rewrite batch_msgs_singles by assumption.
      assert (Hall : forallb (fun p => verify_single members (fst p) (snd p)) (map (fun i => (single f i, f i)) ids) = true).
      { apply forallb_forall. intros p Hp. apply in_map_iff in Hp. destruct Hp as [i [<- Hi]]. cbn [fst snd].
        apply verify_single_complete; cbn; [now apply Hincl | reflexivity]. }
      rewrite Hall. cbn [negb]. apply Nat.eqb_eq. unfold distinct_count.
      rewrite map_map. cbn [snd]. rewrite dedup_msgs_id by assumption.
      unfold batch. now rewrite !map_length. }
    destruct sch; eexists; (split; [reflexivity|]); cbn [participants scheme_batch_verify].
    - split; [apply map_claimed_singles | exact Hm].
    - split; [apply map_claimed_singles | exact Hm].
    - split; [unfold bits_set; now apply dedupN_id|].
      assert (H : bls_batch_verify members (map fst batch) (Some batch) batch = true).
      { apply bls_batch_verify_self.
        - now rewrite Hkeys.
        - now rewrite Hkeys.
        - now rewrite Hmsgs.
        - unfold batch. now rewrite map_length. }
      rewrite Hkeys in H. exact H.
  Qed.
End Complete.

(* Shared symbolic (Dolev-Yao style) model of signatures.  DESIGN.md §3.2.  Definitions only.

   Imported by the certificate model (C02) and by the later collector / replica / protocol
   models (C08, C09, C03, C07, C01).  Keep it small.

   WHAT IS SIGNED.  A replica signs exactly three kinds of byte strings:
     MBlock h          Block.ToBytes() of the block whose SHA-256 is h   (votes, QCs)
     MView v           View.ToBytes()                                    (timeout view signature, TCs)
     MTimeout i v d    TimeoutMsg{ID:i, View:v, SyncInfo:qc?}.ToBytes()  (timeout message signature, AggQCs)
                       d = Some (digest of qc.ToBytes()) or None when the sync info has no QC.
   Trusted: the three kinds are disjoint as byte strings (8 bytes / >= 52 bytes with a 4-byte id
   prefix / >= 92 bytes), SHA-256 is injective on block contents, and [qcdigest] is an injective
   naming of the byte string QuorumCert.ToBytes() (view ++ hash ++ signature bytes).  The harness
   interns real hashes / QC byte strings to small numbers; interning preserves equality, which is
   all the models use.

   WHAT A SIGNATURE IS.  One ECDSA/EdDSA signature is its claimed signer id (the label sent on
   the wire) together with what the bytes really are: [None] = bytes no configured key ever
   produced (garbage, empty, truncated), [Some (i,m)] = a genuine signature made with replica
   i's private key over message m.  Idealisation (trusted): a signature verifies under replica
   j's public key for message m' iff it is genuine with i = j and m = m' (no forgery, no
   coincidences, replicas have distinct keys).
   A BLS12-381 aggregate is a participant bitfield (written as the list of set ids) together
   with what the G2 point really is: [None] = not a sum of genuine signatures (random point,
   not in the subgroup), [Some c] = the sum of the genuine signatures listed in the multiset c
   (the identity point is [Some []]).  Idealisation (trusted; no algebraic coincidences, proof
   of possession checked for every foreign key): the pairing equation for public keys pk_1..pk_k
   and messages m_1..m_k holds iff c equals {(1,m_1),...,(k,m_k)} as a multiset.

   UNFORGEABILITY is a constraint on system executions, not on these functions: a genuine
   (i,m) with i honest exists only if i executed Sign m.  The theorems of C02 conclude
   [genuine s i m] ("the certificate contains a real signature of i over m"); the protocol-level
   properties combine that with the execution constraint. *)
From HS Require Import Base.Prelude.

Definition qcdigest := N.

Inductive msg : Type :=
| MBlock (h : hash)
| MView (v : view)
| MTimeout (id : rid) (v : view) (q : option qcdigest).

Definition msg_eqb (a b : msg) : bool :=
  match a, b with
  | MBlock h, MBlock h' => N.eqb h h'
  | MView v, MView v' => N.eqb v v'
  | MTimeout i v q, MTimeout i' v' q' => N.eqb i i' && N.eqb v v' && option_eqb N.eqb q q'
  | _, _ => false
  end.

(* a genuine contribution: replica i's key over message m *)
Definition contrib := (rid * msg)%type.
Definition contrib_eqb (a b : contrib) : bool := N.eqb (fst a) (fst b) && msg_eqb (snd a) (snd b).

(* one ECDSA / EdDSA signature *)
Record sig1 : Type := mkSig { s_claimed : rid; s_real : option contrib }.

(* Go type of a multi-signature: crypto.Multi[*ECDSASignature] or crypto.Multi[*EDDSASignature] *)
Inductive mkind : Type := KEcdsa | KEddsa.
Definition mkind_eqb (a b : mkind) : bool :=
  match a, b with KEcdsa, KEcdsa | KEddsa, KEddsa => true | _, _ => false end.

(* hotstuff.QuorumSignature *)
Inductive qsig : Type :=
| QMulti (k : mkind) (l : list sig1)                     (* slice of single signatures, any order, repeats possible *)
| QBls (bits : list rid) (real : option (list contrib)). (* bitfield + G2 point *)

Inductive scheme : Type := Ecdsa | Eddsa | Bls12.

(* ---- small executable list utilities over ids / contributions ---- *)
Definition memN (i : N) (l : list N) : bool := existsb (N.eqb i) l.

Fixpoint dedupN (l : list N) : list N :=          (* keeps the first occurrence of every id *)
  match l with
  | [] => []
  | x :: r => x :: filter (fun y => negb (N.eqb x y)) (dedupN r)
  end.

Fixpoint nodupbN (l : list N) : bool :=
  match l with
  | [] => true
  | x :: r => negb (memN x r) && nodupbN r
  end.

(* A Bitfield is a set: the ids of its set bits, each once.  [bits_set] is the representation
   function from the list written in a case to that set (identity on duplicate-free lists). *)
Definition bits_set (bits : list rid) : list rid := dedupN bits.

Definition count_c (x : contrib) (l : list contrib) : nat := length (filter (contrib_eqb x) l).
(* multiset equality of contribution lists *)
Definition multiset_eqb (a b : list contrib) : bool :=
  forallb (fun x => Nat.eqb (count_c x a) (count_c x b)) (a ++ b).

(* association lists standing for Go maps keyed by replica id (first binding wins) *)
Fixpoint lookupN {A} (i : N) (b : list (N * A)) : option A :=
  match b with
  | [] => None
  | (k, a) :: r => if N.eqb i k then Some a else lookupN i r
  end.
Fixpoint map_of {A} (b : list (N * A)) : list (N * A) :=   (* the map denoted by a binding list *)
  match b with
  | [] => []
  | (k, a) :: r => (k, a) :: filter (fun p => negb (N.eqb k (fst p))) (map_of r)
  end.

(* ---- projections ---- *)
(* Participants(): for a Multi the signer labels in slice order (Len() = slice length, repeats
   counted); for BLS the set bits (Len() = popcount). *)
Definition participants (s : qsig) : list rid :=
  match s with
  | QMulti _ l => map s_claimed l
  | QBls bits _ => bits_set bits
  end.
Definition part_len (s : qsig) : nat := length (participants s).

Definition real_of (s : sig1) : list contrib := match s_real s with Some c => [c] | None => [] end.
(* the genuine signatures physically contained in a quorum signature *)
Definition contributions (s : qsig) : list contrib :=
  match s with
  | QMulti _ l => flat_map real_of l
  | QBls _ (Some c) => c
  | QBls _ None => []
  end.
Definition genuine (s : qsig) (i : rid) (m : msg) : Prop := In (i, m) (contributions s).

(* Sign(m) by replica i under a scheme *)
Definition sign (sch : scheme) (i : rid) (m : msg) : qsig :=
  match sch with
  | Ecdsa => QMulti KEcdsa [mkSig i (Some (i, m))]
  | Eddsa => QMulti KEddsa [mkSig i (Some (i, m))]
  | Bls12 => QBls [i] (Some [(i, m)])
  end.

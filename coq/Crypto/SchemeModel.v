(* Symbolic models of /repo/security/crypto/{ecdsa,eddsa,bls12,multisignature,bitfield}.go:
   Verify, BatchVerify, Combine for the two list schemes (ECDSA, EdDSA share one structure) and the
   BLS12-381 aggregate scheme.  Each function mirrors the branch structure of the Go method (type
   assertion, participant count, key lookup failure, per-element check, the batch
   "distinct messages" test, BLS n = 1 versus n <> 1 branches); the cryptographic primitive at
   the leaves is replaced by the idealisation described in Symbolic.v.  Definitions only.

   REPAIRED behaviour modelled here (fixes/C02-distinct-signers.patch): the list schemes reject a
   Multi in which one signer label occurs more than once.  In the tree without the patch
   [distinct_signers] is simply not evaluated (Len() is the slice length). *)
From HS Require Import Base.Prelude Crypto.Symbolic.

Section Scheme.
  (* ids for which config.ReplicaInfo(id) succeeds with a usable public key
     (for BLS: proof of possession present and valid, or id = self) *)
  Variable members : list rid.

  Definition has_key (i : rid) : bool := memN i members.

  (* ec.verifySingle / ed.verifySingle: unknown replica -> error; otherwise the primitive *)
  Definition verify_single (s : sig1) (m : msg) : bool :=
    if negb (has_key (s_claimed s)) then false
    else match s_real s with
         | Some (i, m') => N.eqb i (s_claimed s) && msg_eqb m' m
         | None => false
         end.

  (* Multi.distinct (patch): no signer label occurs twice *)
  Definition distinct_signers (l : list sig1) : bool := nodupbN (map s_claimed l).

  (* (ec *ECDSA) Verify / (ed *EDDSA) Verify *)
  Definition multi_verify (l : list sig1) (m : msg) : bool :=
    if Nat.eqb (length l) 0 then false                       (* no participants *)
    else if negb (distinct_signers l) then false             (* patch: duplicate signers *)
    else forallb (fun s => verify_single s m) l.             (* errors.Join of all results *)

  (* number of distinct messages: len(set) in BatchVerify *)
  Fixpoint dedup_msgs (l : list msg) : list msg :=
    match l with
    | [] => []
    | x :: r => x :: filter (fun y => negb (msg_eqb x y)) (dedup_msgs r)
    end.
  Definition distinct_count (l : list msg) : nat := length (dedup_msgs l).

  (* the loop "message, ok := batch[sig.Signer()]; if !ok return error" *)
  Fixpoint batch_msgs (l : list sig1) (batch : list (rid * msg)) : option (list (sig1 * msg)) :=
    match l with
    | [] => Some []
    | s :: r =>
        match lookupN (s_claimed s) batch with
        | None => None
        | Some m => match batch_msgs r batch with
                    | None => None
                    | Some ps => Some ((s, m) :: ps)
                    end
        end
    end.

  (* (ec *ECDSA) BatchVerify / (ed *EDDSA) BatchVerify.  [batch] is a Go map: the caller passes a
     binding list with distinct keys (see Symbolic.map_of). *)
  Definition multi_batch_verify (l : list sig1) (batch : list (rid * msg)) : bool :=
    if Nat.eqb (length l) 0 then false
    else if negb (distinct_signers l) then false             (* patch *)
    else match batch_msgs l batch with
         | None => false                                     (* message not found *)
         | Some ps =>
             if negb (forallb (fun p => verify_single (fst p) (snd p)) ps) then false
             else Nat.eqb (distinct_count (map snd ps)) (length batch)   (* len(set) != len(batch) *)
         end.

  (* (bls *bls12Base) Verify: n = 1 -> coreVerify with that key; otherwise (n = 0 or n > 1)
     collect all keys, fastAggregateVerify.  With n = 0 the aggregate key is the identity and the
     pairing equation holds iff the point is the identity ([Some []]). *)
  Definition bls_verify (bits : list rid) (real : option (list contrib)) (m : msg) : bool :=
    let ids := bits_set bits in
    match ids with
    | [i] =>
        if negb (has_key i) then false
        else match real with Some c => multiset_eqb c [(i, m)] | None => false end
    | _ =>
        if negb (forallb has_key ids) then false             (* missing one or more public keys *)
        else match real with
             | Some c => multiset_eqb c (map (fun i => (i, m)) ids)
             | None => false
             end
    end.

  Definition distinct_msgs (l : list msg) : bool := Nat.eqb (distinct_count l) (length l).

  (* (bls *bls12Base) BatchVerify: only the NUMBER of participants is compared with the batch;
     the public keys are those of the batch's keys. *)
  Definition bls_batch_verify (bits : list rid) (real : option (list contrib)) (batch : list (rid * msg)) : bool :=
    if negb (Nat.eqb (length (bits_set bits)) (length batch)) then false
    else if negb (forallb has_key (map fst batch)) then false
    else match real with
         | None => false
         | Some c =>
             match batch with
             | [_] => multiset_eqb c batch                   (* len(batch) == 1: coreVerify *)
             | _ =>
                 if negb (distinct_msgs (map snd batch)) then false     (* aggregateVerify: duplicate messages *)
                 else if Nat.ltb (length batch) 1 then false            (* expected at least one message *)
                 else multiset_eqb c batch
             end
         end.

  (* dispatch on the configured scheme; a signature of another Go type fails the type assertion *)
  Definition scheme_verify (sch : scheme) (s : qsig) (m : msg) : bool :=
    match sch, s with
    | Ecdsa, QMulti KEcdsa l => multi_verify l m
    | Eddsa, QMulti KEddsa l => multi_verify l m
    | Bls12, QBls bits real => bls_verify bits real m
    | _, _ => false
    end.

  Definition scheme_batch_verify (sch : scheme) (s : qsig) (batch : list (rid * msg)) : bool :=
    match sch, s with
    | Ecdsa, QMulti KEcdsa l => multi_batch_verify l batch
    | Eddsa, QMulti KEddsa l => multi_batch_verify l batch
    | Bls12, QBls bits real => bls_batch_verify bits real batch
    | _, _ => false
    end.
End Scheme.

(* ---- Combine (does not look at keys) ---- *)

(* inner loop of Combine for one Multi: append every element unless its signer is already present *)
Fixpoint multi_append (acc l : list sig1) : option (list sig1) :=
  match l with
  | [] => Some acc
  | s :: r => if memN (s_claimed s) (map s_claimed acc) then None    (* ErrCombineOverlap *)
              else multi_append (acc ++ [s]) r
  end.

Fixpoint multi_combine (k : mkind) (acc : list sig1) (sigs : list qsig) : option (list sig1) :=
  match sigs with
  | [] => Some acc
  | QMulti k' l :: r =>
      if negb (mkind_eqb k k') then None                             (* incompatible type *)
      else match multi_append acc l with
           | None => None
           | Some acc' => multi_combine k acc' r
           end
  | QBls _ _ :: _ => None
  end.

Fixpoint bits_append (acc l : list rid) : option (list rid) :=
  match l with
  | [] => Some acc
  | i :: r => if memN i acc then None else bits_append (acc ++ [i]) r
  end.

Definition real_add (a b : option (list contrib)) : option (list contrib) :=
  match a, b with Some x, Some y => Some (x ++ y) | _, _ => None end.

Fixpoint bls_combine (bits : list rid) (real : option (list contrib)) (sigs : list qsig) : option qsig :=
  match sigs with
  | [] => Some (QBls bits real)
  | QBls b r :: rest =>
      match bits_append bits (bits_set b) with
      | None => None
      | Some bits' => bls_combine bits' (real_add real r) rest
      end
  | QMulti _ _ :: _ => None
  end.

(* Combine(signatures...) : None = error *)
Definition scheme_combine (sch : scheme) (sigs : list qsig) : option qsig :=
  if Nat.ltb (length sigs) 2 then None                                (* ErrCombineMultiple *)
  else match sch with
       | Ecdsa => option_map (QMulti KEcdsa) (multi_combine KEcdsa [] sigs)
       | Eddsa => option_map (QMulti KEddsa) (multi_combine KEddsa [] sigs)
       | Bls12 => bls_combine [] (Some []) sigs
       end.

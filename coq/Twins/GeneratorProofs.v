(* Proofs about the scenario generator model (GeneratorModel.v): the odometer of NextScenario
   enumerates exactly the cartesian power of the option list, once each, in a fixed order,
   with Remaining() counting down from the announced number; Shuffle only permutes. *)
From Coq Require Import List Arith Lia ZArith Permutation Bool.
From HS Require Import Base.Prelude Twins.GeneratorModel.
Import ListNotations.

(* ---------- generic list facts ---------- *)

Lemma map_flat_map' {X Y Z} (f : Y -> Z) (g : X -> list Y) l :
  map f (flat_map g l) = flat_map (fun x => map f (g x)) l.
Proof. induction l; simpl; [reflexivity | rewrite map_app, IHl; reflexivity]. Qed.

Lemma flat_map_map' {X Y Z} (f : X -> Y) (g : Y -> list Z) l :
  flat_map g (map f l) = flat_map (fun x => g (f x)) l.
Proof. induction l; simpl; [reflexivity | rewrite IHl; reflexivity]. Qed.

Lemma flat_map_ext_in {X Y} (f g : X -> list Y) l :
  (forall x, In x l -> f x = g x) -> flat_map f l = flat_map g l.
Proof.
  induction l; simpl; intros H; [reflexivity|].
  rewrite (H a) by auto. rewrite IHl; auto.
Qed.

Lemma seq_add_map a len : seq a len = map (fun i => i + a) (seq 0 len).
Proof.
  revert a. induction len; intros a; simpl; [reflexivity|].
  f_equal. rewrite (IHlen (S a)), (IHlen 1), map_map.
  apply map_ext. intros; lia.
Qed.

Lemma nth_error_firstn_lt {X} (l : list X) n i : i < n -> nth_error (firstn n l) i = nth_error l i.
Proof.
  revert n i. induction l; intros n i H; destruct n, i; simpl; try reflexivity; try lia.
  apply IHl. lia.
Qed.

Lemma nth_error_skipn_add {X} (l : list X) n i : nth_error (skipn n l) i = nth_error l (i + n).
Proof.
  revert n. induction l; intros n; destruct n; simpl.
  - destruct i; reflexivity.
  - destruct i; reflexivity.
  - rewrite Nat.add_0_r. reflexivity.
  - rewrite IHl. replace (i + S n) with (S (i + n)) by lia. reflexivity.
Qed.

Definition toR {X} (o : option X) : result X := match o with Some x => Ok x | None => Panic end.

Lemma map_toR_nth_error {X} (l : list X) :
  map (fun i => toR (nth_error l i)) (seq 0 (length l)) = map Ok l.
Proof.
  induction l; simpl; [reflexivity|].
  f_equal. rewrite <- seq_shift, map_map. exact IHl.
Qed.

Lemma NoDup_app_intro {X} (l1 l2 : list X) :
  NoDup l1 -> NoDup l2 -> (forall x, In x l1 -> In x l2 -> False) -> NoDup (l1 ++ l2).
Proof.
  induction l1; simpl; intros H1 H2 H; [assumption|].
  inversion H1; subst. constructor.
  - rewrite in_app_iff. intros [?|?]; [contradiction | eapply H; eauto].
  - apply IHl1; auto. intros x ? ?. eapply H; eauto.
Qed.

Lemma Permutation_flat_map_pointwise {X Y} (f g : X -> list Y) l :
  (forall x, Permutation (f x) (g x)) -> Permutation (flat_map f l) (flat_map g l).
Proof. intros H. induction l; simpl; [constructor | apply Permutation_app; auto]. Qed.

(* ---------- product ---------- *)

Lemma product_length {T} (cols : list (list T)) :
  length (product cols) = fold_right (fun c acc => length c * acc) 1 cols.
Proof.
  induction cols as [|c cs IH]; simpl; [reflexivity|].
  induction c; simpl; [reflexivity|].
  rewrite app_length, map_length, IHc, IH. reflexivity.
Qed.

Lemma product_length_uniform {T} (cols : list (list T)) n :
  Forall (fun c => length c = n) cols -> length (product cols) = n ^ length cols.
Proof.
  intros H. rewrite product_length. induction H; simpl; [reflexivity|].
  rewrite IHForall, H. reflexivity.
Qed.

Lemma in_product {T} (cols : list (list T)) s :
  In s (product cols) <-> Forall2 (fun x c => In x c) s cols.
Proof.
  revert s. induction cols as [|c cs IH]; intros s; simpl.
  - split.
    + intros [<-|[]]. constructor.
    + intros H. inversion H. left. reflexivity.
  - rewrite in_flat_map. split.
    + intros [x [Hx Hs]]. apply in_map_iff in Hs. destruct Hs as [r [<- Hr]].
      constructor; [assumption | apply IH; assumption].
    + intros H. inversion H as [|x c' r cs' Hx Hr]; subst.
      exists x. split; [assumption|]. apply in_map. apply IH. assumption.
Qed.

Lemma NoDup_product {T} (cols : list (list T)) :
  Forall (@NoDup T) cols -> NoDup (product cols).
Proof.
  induction 1 as [|c cs Hc Hcs IH]; simpl.
  - constructor; [intros [] | constructor].
  - induction Hc as [|x c Hx Hc IHc]; simpl; [constructor|].
    apply NoDup_app_intro.
    + clear - IH. induction IH; simpl; constructor; auto.
      rewrite in_map_iff. intros [y [E Hy]]. inversion E; subst. contradiction.
    + exact IHc.
    + intros s H1 H2. apply in_map_iff in H1. destruct H1 as [r [<- _]].
      apply in_flat_map in H2. destruct H2 as [y [Hy H2]].
      apply in_map_iff in H2. destruct H2 as [r' [E _]]. inversion E; subst. contradiction.
Qed.

Lemma Permutation_product {T} (cols cols' : list (list T)) :
  Forall2 (@Permutation T) cols cols' -> Permutation (product cols) (product cols').
Proof.
  induction 1 as [|c c' cs cs' Hc Hcs IH]; simpl; [reflexivity|].
  transitivity (flat_map (fun x => map (cons x) (product cs')) c).
  - apply Permutation_flat_map_pointwise. intros x. apply Permutation_map. exact IH.
  - apply Permutation_flat_map. exact Hc.
Qed.

(* ---------- the index odometer ---------- *)

Definition all_idx (n k : nat) : list (list nat) := product (repeat (seq 0 n) k).

Definition blocks (n k from cnt : nat) : list (list nat) :=
  flat_map (fun d => map (cons d) (all_idx n k)) (seq from cnt).

(* the index vectors from [idx] (inclusive) to the end, in odometer order *)
Fixpoint rest (n : nat) (idx : list nat) : list (list nat) :=
  match idx with
  | [] => [[]]
  | d :: r => map (cons d) (rest n r) ++ blocks n (length r) (S d) (n - S d)
  end.

Lemma all_idx_S n k : all_idx n (S k) = blocks n k 0 n.
Proof. reflexivity. Qed.

Lemma rest_zeros n k : 0 < n -> rest n (repeat 0 k) = all_idx n k.
Proof.
  intros Hn. induction k; [reflexivity|].
  cbn [repeat rest]. rewrite IHk, repeat_length, all_idx_S.
  destruct n; [lia|]. unfold blocks. replace (S n - 1) with n by lia. reflexivity.
Qed.

Lemma incr_length n idx : length (fst (incr n idx)) = length idx.
Proof.
  induction idx as [|i r IH]; simpl; [reflexivity|].
  destruct (incr n r) as [r' c]. simpl in IH.
  destruct c; [destruct (S i <? n)|]; simpl; rewrite IH; reflexivity.
Qed.

Lemma incr_wrap_zeros n idx : snd (incr n idx) = true -> fst (incr n idx) = repeat 0 (length idx).
Proof.
  induction idx as [|i r IH]; simpl; [reflexivity|].
  destruct (incr n r) as [r' c]. simpl in IH.
  destruct c; [destruct (S i <? n)|]; simpl; intros H; try discriminate.
  rewrite IH; reflexivity.
Qed.

Lemma incr_bound n idx : 0 < n -> Forall (fun d => d < n) idx -> Forall (fun d => d < n) (fst (incr n idx)).
Proof.
  intros Hn. induction 1 as [|i r Hi Hr IH]; simpl; [constructor|].
  destruct (incr n r) as [r' c]. simpl in IH.
  destruct c; [destruct (S i <? n) eqn:E|]; simpl; constructor; auto.
  apply Nat.ltb_lt in E. exact E.
Qed.

Lemma rest_unfold n idx : 0 < n -> Forall (fun d => d < n) idx ->
  rest n idx = idx :: (if snd (incr n idx) then [] else rest n (fst (incr n idx))).
Proof.
  intros Hn. induction 1 as [|d r Hd Hr IH]; [reflexivity|].
  cbn [rest incr].
  pose proof (incr_wrap_zeros n r) as Hz. pose proof (incr_length n r) as Hl.
  destruct (incr n r) as [r' c]. cbn [fst snd] in *.
  rewrite IH. cbn [map]. destruct c.
  - specialize (Hz eq_refl). subst r'.
    destruct (S d <? n) eqn:E; cbn [fst snd app].
    + apply Nat.ltb_lt in E. f_equal. cbn [rest].
      rewrite rest_zeros by assumption. rewrite repeat_length.
      replace (n - S d) with (S (n - S (S d))) by lia.
      unfold blocks. reflexivity.
    + apply Nat.ltb_ge in E. replace (n - S d) with 0 by lia. reflexivity.
  - cbn [fst snd]. f_equal. cbn [rest]. rewrite Hl. reflexivity.
Qed.

(* ---------- scenarios of index vectors ---------- *)

Section Odo.
  Context {A : Type}.
  Implicit Types (lp : list A) (offs idx : list nat).

  Lemma pick_toR lp off d :
    pick lp off d = toR (nth_error lp (if length lp <=? d + off then d + off - length lp else d + off)).
  Proof. reflexivity. Qed.

  Lemma rot_length off lp : length (rot off lp) = length lp.
  Proof.
    unfold rot. rewrite app_length, skipn_length.
    destruct (Nat.le_gt_cases off (length lp)).
    - rewrite firstn_length_le by assumption. lia.
    - rewrite firstn_all2 by lia. lia.
  Qed.

  Lemma rot_perm off lp : Permutation (rot off lp) lp.
  Proof. unfold rot. rewrite Permutation_app_comm, firstn_skipn. reflexivity. Qed.

  Lemma rot_0 lp : rot 0 lp = lp.
  Proof. unfold rot. simpl. apply app_nil_r. Qed.

  Lemma pick_rot lp off : off < length lp ->
    map (pick lp off) (seq 0 (length lp)) = map Ok (rot off lp).
  Proof.
    intros H. set (n := length lp).
    replace n with ((n - off) + off) at 1 by lia.
    rewrite seq_app, map_app. unfold rot. rewrite map_app. f_equal.
    - rewrite <- (map_toR_nth_error (skipn off lp)), skipn_length. fold n.
      apply map_ext_in. intros d Hd. apply in_seq in Hd.
      rewrite pick_toR. fold n.
      destruct (n <=? d + off) eqn:E; [apply Nat.leb_le in E; lia|].
      rewrite nth_error_skipn_add. reflexivity.
    - rewrite Nat.add_0_l. rewrite (seq_add_map (n - off) off), map_map.
      rewrite <- (map_toR_nth_error (firstn off lp)), firstn_length_le by (fold n; lia).
      apply map_ext_in. intros i Hi. apply in_seq in Hi.
      rewrite pick_toR. fold n.
      destruct (n <=? i + (n - off) + off) eqn:E; [|apply Nat.leb_gt in E; lia].
      replace (i + (n - off) + off - n) with i by lia.
      rewrite nth_error_firstn_lt by lia. reflexivity.
  Qed.

  (* all scenarios of all index vectors = the product of the rotated option lists *)
  Lemma scenario_all lp offs : Forall (fun o => o < length lp) offs ->
    map (scenario_of lp offs) (all_idx (length lp) (length offs))
    = map Ok (product (map (fun off => rot off lp) offs)).
  Proof.
    induction 1 as [|off offs Hoff Hoffs IH]; [reflexivity|].
    cbn [length map product]. unfold all_idx. cbn [repeat product].
    fold (all_idx (length lp) (length offs)).
    rewrite !map_flat_map'.
    transitivity (flat_map (fun rx : result A =>
        map (fun idx => res_bind rx (fun x => res_bind (scenario_of lp offs idx) (fun r => Ok (x :: r))))
            (all_idx (length lp) (length offs)))
      (map (pick lp off) (seq 0 (length lp)))).
    - rewrite flat_map_map'. apply flat_map_ext. intros d. rewrite map_map. reflexivity.
    - rewrite pick_rot by assumption. rewrite flat_map_map'. apply flat_map_ext. intros x.
      cbn [res_bind].
      rewrite <- (map_map (scenario_of lp offs) (fun rr => res_bind rr (fun r => Ok (x :: r)))).
      rewrite IH, !map_map. reflexivity.
  Qed.

  (* ---------- running the generator ---------- *)

  Fixpoint evs_of (rem : Z) (ss : list (list A)) : list (Z * result (option (list A))) :=
    match ss with
    | [] => []
    | s :: r => (rem, Ok (Some s)) :: evs_of (rem - 1) r
    end.

  Lemma evs_of_length rem ss : length (evs_of rem ss) = length ss.
  Proof. revert rem. induction ss; simpl; intros; [reflexivity | rewrite IHss; reflexivity]. Qed.

  Lemma scenarios_evs_of rem ss : scenarios (evs_of rem ss) = ss.
  Proof. revert rem. induction ss; simpl; intros; [reflexivity | unfold scenarios in *; simpl; rewrite IHss; reflexivity]. Qed.

  Lemma scenarios_app (a b : list (Z * result (option (list A)))) : scenarios (a ++ b) = scenarios a ++ scenarios b.
  Proof. unfold scenarios. apply flat_map_app. Qed.

  Lemma scenarios_eof rem e : scenarios (repeat (rem, @Ok (option (list A)) None) e) = [].
  Proof. induction e; simpl; [reflexivity | exact IHe]. Qed.

  Lemma nth_error_evs_of rem ss i s :
    nth_error ss i = Some s -> nth_error (evs_of rem ss) i = Some ((rem - Z.of_nat i)%Z, Ok (Some s)).
  Proof.
    revert rem i. induction ss as [|s0 ss IH]; intros rem i H; destruct i; simpl in *; try discriminate.
    - inversion H; subst. f_equal. f_equal. lia.
    - rewrite (IH _ _ H). f_equal. f_equal. lia.
  Qed.

  Lemma run_n_app a b (g : gen A) :
    run_n (a + b) g =
    let '(x, g1) := run_n a g in let '(y, g2) := run_n b g1 in (x ++ y, g2).
  Proof.
    revert g. induction a; intros g; simpl.
    - destruct (run_n b g). reflexivity.
    - destruct (next g) as [r g1]. rewrite IHa.
      destruct (run_n a g1) as [x g2]. destruct (run_n b g2). reflexivity.
  Qed.

  Lemma run_done e (g : gen A) : g_done g = true -> run_n e g = (repeat (g_rem g, Ok None) e, g).
  Proof.
    intros H. induction e; simpl; [reflexivity|].
    unfold next. rewrite H. rewrite IHe. reflexivity.
  Qed.

  Lemma run_rest lp offs : 0 < length lp -> Forall (fun o => o < length lp) offs ->
    forall m idx rem ss,
      m = length (rest (length lp) idx) ->
      Forall (fun d => d < length lp) idx -> length idx = length offs ->
      map (scenario_of lp offs) (rest (length lp) idx) = map Ok ss ->
      run_n m (mkGen lp idx offs rem false)
      = (evs_of rem ss, mkGen lp (repeat 0 (length idx)) offs (rem - Z.of_nat m) true).
  Proof.
    intros Hn Hoffs. induction m as [|m IH]; intros idx rem ss Hm Hidx Hlen Hss.
    - rewrite rest_unfold in Hm by assumption. discriminate.
    - rewrite rest_unfold in Hm, Hss by assumption.
      cbn [map] in Hss. destruct ss as [|s ss]; [discriminate|].
      cbn [map] in Hss. injection Hss as Hs Hss.
      cbn [length] in Hm. injection Hm as Hm.
      cbn [run_n]. unfold next. cbn [g_done g_lp g_off g_idx g_rem]. rewrite Hs.
      pose proof (incr_wrap_zeros (length lp) idx) as Hz.
      pose proof (incr_length (length lp) idx) as Hl.
      pose proof (incr_bound (length lp) idx Hn Hidx) as Hb.
      destruct (incr (length lp) idx) as [idx' c]. cbn [fst snd] in *.
      destruct c.
      + cbn [length] in Hm. subst m. destruct ss; [|discriminate].
        rewrite (Hz eq_refl). cbn. reflexivity.
      + assert (X : length idx' = length offs) by lia.
        rewrite (IH idx' (rem - 1)%Z ss Hm Hb X Hss).
        cbn [evs_of]. rewrite Hl. f_equal. f_equal. lia.
  Qed.

  Lemma announced_pow lp k : announced lp k = Z.of_nat (length lp ^ k).
  Proof. unfold announced. rewrite Nat2Z.inj_pow. reflexivity. Qed.

  (* The closed form: a generator whose indices are all zero yields exactly the product of the
     rotated option lists, Remaining() counting down by one from its initial value; every
     further call returns EOF. *)
  Theorem run_closed_form lp offs e :
    lp = [] \/ Forall (fun o => o < length lp) offs ->
    let k := length offs in
    let ss := product (map (fun off => rot off lp) offs) in
    let rem := announced lp k in
    length ss = length lp ^ k /\
    fst (run_n (length ss + e)
               (mkGen lp (repeat 0 k) offs rem ((length lp =? 0) && (0 <? k))))
    = evs_of rem ss ++ repeat ((rem - Z.of_nat (length ss))%Z, Ok None) e.
  Proof.
    intros Hoffs k ss rem.
    assert (Hlen : length ss = length lp ^ k).
    { unfold ss, k. rewrite (product_length_uniform _ (length lp)), map_length; [reflexivity|].
      apply Forall_forall. intros c Hc. apply in_map_iff in Hc. destruct Hc as [o [<- _]].
      apply rot_length. }
    split; [exact Hlen|].
    destruct offs as [|off offs'].
    - (* no views: one empty scenario *)
      cbn in *. rewrite Bool.andb_false_r. unfold next. cbn.
      rewrite run_done by reflexivity. cbn. reflexivity.
    - destruct lp as [|a lp'].
      + (* no options, at least one view: nothing *)
        assert (Hss0 : ss = []) by (apply length_zero_iff_nil; rewrite Hlen; reflexivity).
        rewrite Hss0. cbn [length Nat.add evs_of app Z.of_nat]. rewrite Z.sub_0_r.
        rewrite run_done by reflexivity. reflexivity.
      + destruct Hoffs as [Hnil|Hoffs]; [discriminate|].
        assert (Hn : 0 < length (a :: lp')) by (cbn; lia).
        replace ((length (a :: lp') =? 0) && (0 <? k)) with false by reflexivity.
        rewrite run_n_app.
        pose proof (scenario_all (a :: lp') (off :: offs') Hoffs) as Hsc.
        fold k in Hsc. fold ss in Hsc.
        rewrite <- (rest_zeros (length (a :: lp')) k Hn) in Hsc.
        assert (Hm : length ss = length (rest (length (a :: lp')) (repeat 0 k))).
        { rewrite <- (map_length Ok ss), <- Hsc, map_length. reflexivity. }
        rewrite (run_rest (a :: lp') (off :: offs') Hn Hoffs (length ss) (repeat 0 k) rem ss Hm).
        * rewrite run_done by reflexivity. cbn [fst g_rem]. reflexivity.
        * clear. induction k; simpl; constructor; [lia | assumption].
        * apply repeat_length.
        * exact Hsc.
  Qed.

  (* ---------- the unshuffled generator ---------- *)

  Lemma repeat_zero_offsets lp k : lp = [] \/ Forall (fun o => o < length lp) (repeat 0 k).
  Proof.
    destruct lp as [|a lp']; [left; reflexivity|right].
    induction k; simpl; constructor; [lia | assumption].
  Qed.

  Lemma cols_init lp k : map (fun off => rot off lp) (repeat 0 k) = repeat lp k.
  Proof. induction k; simpl; [reflexivity | rewrite rot_0, IHk; reflexivity]. Qed.

  Theorem init_closed_form lp k e :
    fst (run_n (length lp ^ k + e) (init lp k))
    = evs_of (announced lp k) (product (repeat lp k)) ++ repeat (0%Z, Ok None) e
    /\ length (product (repeat lp k)) = length lp ^ k.
  Proof.
    destruct (run_closed_form lp (repeat 0 k) e (repeat_zero_offsets lp k)) as [Hl Hr].
    rewrite repeat_length, cols_init in *. split; [|exact Hl].
    unfold init. rewrite Hl in Hr. rewrite Hr. rewrite announced_pow, Z.sub_diag. reflexivity.
  Qed.

  (* ---------- shuffle ---------- *)

  Lemma apply_perm_seq lp : apply_perm (seq 0 (length lp)) lp = lp.
  Proof.
    unfold apply_perm.
    assert (H : forall l : list A, map (nth_error l) (seq 0 (length l)) = map Some l).
    { induction l; simpl; [reflexivity|]. f_equal. rewrite <- seq_shift, map_map. exact IHl. }
    transitivity (flat_map (fun o : option A => match o with Some x => [x] | None => [] end)
                           (map (nth_error lp) (seq 0 (length lp)))).
    - rewrite flat_map_map'. reflexivity.
    - rewrite H, flat_map_map'. clear H.
      induction lp; simpl; [reflexivity | rewrite IHlp; reflexivity].
  Qed.

  Lemma apply_perm_permutation perm lp :
    Permutation perm (seq 0 (length lp)) -> Permutation (apply_perm perm lp) lp.
  Proof.
    intros H. rewrite <- (apply_perm_seq lp) at 2. unfold apply_perm.
    apply Permutation_flat_map. exact H.
  Qed.

  Theorem shuffle_closed_form lp k perm offs e :
    Permutation perm (seq 0 (length lp)) ->
    length offs = k -> Forall (fun o => o < length lp) offs \/ lp = [] ->
    exists ss,
      Permutation ss (product (repeat lp k)) /\
      length ss = length lp ^ k /\
      fst (run_n (length lp ^ k + e) (shuffle perm offs (init lp k)))
      = evs_of (announced lp k) ss ++ repeat (0%Z, Ok None) e.
  Proof.
    intros Hperm Hk Hoffs.
    destruct lp as [|a lp'] eqn:Elp.
    - (* nothing to shuffle *)
      exists (product (repeat [] k)). split; [reflexivity|].
      destruct (init_closed_form (@nil A) k e) as [H1 H2].
      split; [exact H2|]. unfold shuffle. cbn [init g_lp]. exact H1.
    - rewrite <- Elp in *.
      pose proof (apply_perm_permutation perm lp Hperm) as Hp.
      pose proof (Permutation_length Hp) as Hpl.
      set (lp2 := apply_perm perm lp) in *.
      exists (product (map (fun off => rot off lp2) offs)).
      assert (Hoffs2 : lp2 = [] \/ Forall (fun o => o < length lp2) offs).
      { right. rewrite Hpl. destruct Hoffs as [H|H]; [exact H | subst lp; discriminate]. }
      destruct (run_closed_form lp2 offs e Hoffs2) as [Hl Hr].
      rewrite Hk, Hpl in *.
      split; [|split; [exact Hl|]].
      + apply Permutation_product. subst k. clear - Hp.
        induction offs; simpl; constructor; [|assumption].
        rewrite rot_perm. exact Hp.
      + assert (Ea : announced lp2 k = announced lp k) by (unfold announced; rewrite Hpl; reflexivity).
        rewrite Ea, Hl in Hr.
        replace (announced lp k - Z.of_nat (length lp ^ k))%Z with 0%Z in Hr by (rewrite announced_pow; lia).
        unfold shuffle, init. cbn [g_lp g_idx g_rem g_done]. subst lp. exact Hr.
  Qed.
End Odo.

(* ---------- the statements exported to Properties/C18.v ---------- *)

Section Exported.
  Context {A : Type}.
  Implicit Types (lp : list A).

  Lemma run_n_length m (g : gen A) : length (fst (run_n m g)) = m.
  Proof.
    revert g. induction m; intros g; simpl; [reflexivity|].
    destruct (next g) as [r g1]. specialize (IHm g1). destruct (run_n m g1). simpl in *. lia.
  Qed.

  Lemma firstn_app_exact {X} (x y : list X) : firstn (length x) (x ++ y) = x.
  Proof. induction x; simpl; [destruct y; reflexivity | rewrite IHx; reflexivity]. Qed.

  Lemma events_shape (ss : list (list A)) rem e N evs :
    length ss = N ->
    evs = evs_of rem ss ++ repeat (0%Z, Ok None) e ->
    (forall i, i < N -> exists s, nth_error ss i = Some s /\
                                  nth_error evs i = Some ((rem - Z.of_nat i)%Z, Ok (Some s))) /\
    (forall i, N <= i < N + e -> nth_error evs i = Some (0%Z, Ok None)).
  Proof.
    intros HN ->. split.
    - intros i Hi. destruct (nth_error ss i) as [s|] eqn:E.
      + exists s. split; [reflexivity|].
        rewrite nth_error_app1 by (rewrite evs_of_length; lia).
        apply nth_error_evs_of. exact E.
      + apply nth_error_None in E. lia.
    - intros i Hi. rewrite nth_error_app2 by (rewrite evs_of_length; lia).
      rewrite evs_of_length. apply nth_error_repeat. lia.
  Qed.

  (* exactly |lp|^k calls succeed, Remaining() counting down by one from the announced number
     |lp|^k; every later call returns EOF with Remaining() = 0 *)
  Theorem odometer_count lp k e :
    let N := length lp ^ k in
    let evs := fst (run_n (N + e) (init lp k)) in
    announced lp k = Z.of_nat N /\
    (forall i, i < N -> exists s, nth_error evs i = Some ((announced lp k - Z.of_nat i)%Z, Ok (Some s))) /\
    (forall i, N <= i < N + e -> nth_error evs i = Some (0%Z, Ok None)).
  Proof.
    intros N evs. destruct (init_closed_form lp k e) as [H1 H2].
    split; [apply announced_pow|].
    destruct (events_shape _ _ _ N evs H2 H1) as [Ha Hb]. split; [|exact Hb].
    intros i Hi. destruct (Ha i Hi) as [s [_ Hs]]. eauto.
  Qed.

  (* the yielded scenarios are exactly lp^k in lexicographic order *)
  Theorem odometer_exact lp k e :
    scenarios (fst (run_n (length lp ^ k + e) (init lp k))) = product (repeat lp k).
  Proof.
    destruct (init_closed_form lp k e) as [H1 _]. rewrite H1.
    rewrite scenarios_app, scenarios_evs_of, scenarios_eof. apply app_nil_r.
  Qed.

  Lemma in_power lp k s :
    In s (product (repeat lp k)) <-> length s = k /\ forall x, In x s -> In x lp.
  Proof.
    rewrite in_product. revert s. induction k; intros s; simpl.
    - split.
      + intros H. inversion H. split; [reflexivity | intros x []].
      + intros [H _]. destruct s; [constructor | discriminate].
    - split.
      + intros H. inversion H as [|x c r cs Hx Hr]; subst. apply IHk in Hr. destruct Hr as [Hl Hr].
        split; [simpl; lia|]. intros y [<-|Hy]; auto.
      + intros [Hl H]. destruct s as [|x r]; [discriminate|]. constructor.
        * apply H. left. reflexivity.
        * apply IHk. split; [simpl in Hl; lia|]. intros y Hy. apply H. right. exact Hy.
  Qed.

  Theorem odometer_complete lp k e s :
    In s (scenarios (fst (run_n (length lp ^ k + e) (init lp k))))
    <-> length s = k /\ forall x, In x s -> In x lp.
  Proof. rewrite odometer_exact. apply in_power. Qed.

  Theorem odometer_nodup lp k e :
    NoDup lp -> NoDup (scenarios (fst (run_n (length lp ^ k + e) (init lp k)))).
  Proof.
    intros H. rewrite odometer_exact. apply NoDup_product.
    clear e. induction k; simpl; constructor; assumption.
  Qed.

  (* the results of the first m calls do not depend on how many calls follow *)
  Theorem odometer_deterministic (g : gen A) m m' :
    m <= m' -> fst (run_n m g) = firstn m (fst (run_n m' g)).
  Proof.
    intros H. replace m' with (m + (m' - m)) by lia. rewrite run_n_app.
    pose proof (run_n_length m g) as Hl.
    destruct (run_n m g) as [x g1]. destruct (run_n (m' - m) g1) as [y g2]. cbn [fst] in *.
    rewrite <- Hl at 1. symmetry. apply firstn_app_exact.
  Qed.

  (* after Shuffle: still exactly |lp|^k scenarios, count-down from the announced number, then
     EOF; the set of scenarios is a permutation of the unshuffled one *)
  Theorem shuffle_count lp k perm offs e :
    Permutation perm (seq 0 (length lp)) ->
    length offs = k -> Forall (fun o => o < length lp) offs \/ lp = [] ->
    let N := length lp ^ k in
    let evs := fst (run_n (N + e) (shuffle perm offs (init lp k))) in
    (forall i, i < N -> exists s, nth_error evs i = Some ((announced lp k - Z.of_nat i)%Z, Ok (Some s))) /\
    (forall i, N <= i < N + e -> nth_error evs i = Some (0%Z, Ok None)).
  Proof.
    intros Hp Hk Ho N evs.
    destruct (shuffle_closed_form lp k perm offs e Hp Hk Ho) as [ss [_ [Hl Hr]]].
    destruct (events_shape _ _ _ N evs Hl Hr) as [Ha Hb]. split; [|exact Hb].
    intros i Hi. destruct (Ha i Hi) as [s [_ Hs]]. eauto.
  Qed.

  Theorem shuffle_perm lp k perm offs e :
    Permutation perm (seq 0 (length lp)) ->
    length offs = k -> Forall (fun o => o < length lp) offs \/ lp = [] ->
    Permutation (scenarios (fst (run_n (length lp ^ k + e) (shuffle perm offs (init lp k)))))
                (scenarios (fst (run_n (length lp ^ k + e) (init lp k)))).
  Proof.
    intros Hp Hk Ho.
    destruct (shuffle_closed_form lp k perm offs e Hp Hk Ho) as [ss [Hperm [_ Hr]]].
    rewrite Hr, odometer_exact.
    rewrite scenarios_app, scenarios_evs_of, scenarios_eof, app_nil_r. exact Hperm.
  Qed.
End Exported.

(* ---------- size vectors, all n and k ---------- *)

Definition sum (l : list nat) : nat := fold_right Nat.add 0 l.

Lemma sum_app a b : sum (a ++ b) = sum a + sum b.
Proof. induction a; simpl; [reflexivity | rewrite IHa; lia]. Qed.

Lemma sum_repeat0 m : sum (repeat 0 m) = 0.
Proof. induction m; simpl; auto. Qed.

Lemma in_countdown m hi lo : In m (countdown hi lo) -> lo <= m <= hi.
Proof. unfold countdown. rewrite <- in_rev, in_seq. lia. Qed.

Lemma gps_rec_spec slots : forall first n prev mn pre v,
  In v (gps_rec slots first n prev mn pre) ->
  length v = length pre + slots /\ sum v = sum pre + n.
Proof.
  induction slots as [|s IH]; intros first n prev mn pre v H; cbn [gps_rec] in H; [destruct H|].
  apply in_app_or in H. destruct H as [H|H].
  - destruct (first || (n <=? prev)); [|destruct H]. destruct H as [<-|[]].
    rewrite app_length, sum_app. cbn [length sum fold_right]. fold (sum (repeat 0 s)).
    rewrite repeat_length, sum_repeat0. lia.
  - destruct s as [|s']; [destruct H|].
    apply in_flat_map in H. destruct H as [m [Hm Hv]].
    apply in_countdown in Hm. apply IH in Hv. destruct Hv as [Hl Hs].
    rewrite app_length, sum_app in *. cbn [length sum fold_right] in *.
    assert (m <= n - 1) by (destruct first; lia).
    destruct (Nat.eq_dec n 0) as [->|Hn]; lia.
Qed.

(* every size vector has k entries that sum to n — for all n and k (partial: not the
   non-increasing order, distinctness and completeness of the enumeration) *)
Theorem sizes_sum_partial n k mn szs v :
  gen_partition_sizes n k mn = Ok szs -> In v szs -> length v = k /\ sum v = n.
Proof.
  unfold gen_partition_sizes. destruct k; [discriminate|]. intros E Hv.
  assert (E' : szs = gps_rec (S k) true n 0 mn []) by congruence. rewrite E' in Hv.
  apply gps_rec_spec in Hv. cbn [length Nat.add sum fold_right] in Hv. exact Hv.
Qed.

(* ---------- size vectors, all n and k: exactly the non-increasing k-splits of n, once each ---------- *)

Fixpoint nonincr (l : list nat) : Prop :=
  match l with
  | a :: ((b :: _) as r) => b <= a /\ nonincr r
  | _ => True
  end.

Lemma nonincr_cons a l : nonincr (a :: l) <-> match l with [] => True | b :: _ => b <= a end /\ nonincr l.
Proof. destruct l; simpl; tauto. Qed.

Lemma nonincr_zeros a k : nonincr (a :: repeat 0 k).
Proof.
  revert a. induction k; intros a; simpl; [exact I|]. split; [lia|]. apply (IHk 0).
Qed.

Lemma sum_zero_repeat l : sum l = 0 -> l = repeat 0 (length l).
Proof.
  induction l as [|a l IH]; simpl; [reflexivity|]. intros H.
  assert (a = 0) by lia. subst a. rewrite <- IH by (simpl in H; lia). reflexivity.
Qed.

Lemma nonincr_zero_head l : nonincr (0 :: l) -> sum l = 0.
Proof.
  induction l as [|b l IH]; [reflexivity|]. intros H. apply nonincr_cons in H. destruct H as [Hb H].
  assert (b = 0) by lia. subst b. simpl. apply IH. exact H.
Qed.

Lemma hd_le_sum b l : sum (b :: l) >= b.
Proof. simpl. lia. Qed.

Lemma countdown_in m hi lo : lo <= m <= hi -> In m (countdown hi lo).
Proof. intros H. unfold countdown. rewrite <- in_rev, in_seq. lia. Qed.

Lemma countdown_nodup hi lo : NoDup (countdown hi lo).
Proof. unfold countdown. apply NoDup_rev. apply seq_NoDup. Qed.

Lemma gps_first_eq slots n prev pre :
  gps_rec slots true n prev 1 pre = gps_rec slots false n n 1 pre.
Proof.
  destruct slots as [|s]; [reflexivity|]. cbn [gps_rec orb].
  rewrite Nat.leb_refl. rewrite (Nat.min_l (n - 1) n) by lia. reflexivity.
Qed.

Lemma gps_rec_iff slots : forall n prev pre v, 1 <= n ->
  (In v (gps_rec slots false n prev 1 pre) <->
   exists w, v = pre ++ w /\ length w = slots /\ sum w = n /\ nonincr (prev :: w)).
Proof.
  induction slots as [|s IH]; intros n prev pre v Hn.
  - cbn [gps_rec]. split; [intros []|].
    intros [w [_ [Hl [Hs _]]]]. destruct w; [simpl in Hs; lia | discriminate].
  - cbn [gps_rec orb]. rewrite in_app_iff. split.
    + intros [H|H].
      * destruct (n <=? prev) eqn:E; [|destruct H]. destruct H as [<-|[]].
        apply Nat.leb_le in E. exists (n :: repeat 0 s).
        split; [reflexivity|]. split; [simpl; rewrite repeat_length; reflexivity|].
        split; [simpl; fold (sum (repeat 0 s)); rewrite sum_repeat0; lia|].
        apply nonincr_cons. split; [exact E | apply nonincr_zeros].
      * destruct s as [|s']; [destruct H|].
        apply in_flat_map in H. destruct H as [m [Hm Hv]].
        apply in_countdown in Hm.
        apply IH in Hv; [|lia]. destruct Hv as [w' [-> [Hl [Hs Hni]]]].
        exists (m :: w'). split; [rewrite <- app_assoc; reflexivity|].
        split; [simpl; lia|]. split; [simpl; fold (sum w'); lia|].
        apply nonincr_cons. split; [lia | exact Hni].
    + intros [w [-> [Hl [Hs Hni]]]]. destruct w as [|a w']; [discriminate|].
      apply nonincr_cons in Hni. destruct Hni as [Ha Hni].
      simpl in Hl. injection Hl as Hl. simpl in Hs. fold (sum w') in Hs.
      destruct (Nat.eq_dec (sum w') 0) as [Hz|Hnz].
      * left. assert (a = n) by lia. subst a.
        replace (n <=? prev) with true by (symmetry; apply Nat.leb_le; exact Ha).
        left. rewrite (sum_zero_repeat w' Hz), Hl. reflexivity.
      * right.
        assert (Ha1 : 1 <= a).
        { destruct (Nat.eq_dec a 0) as [->|]; [|lia]. apply nonincr_zero_head in Hni. lia. }
        destruct s as [|s']; [destruct w'; [simpl in Hnz; lia | discriminate]|].
        apply in_flat_map. exists a. split.
        -- apply countdown_in. lia.
        -- apply IH; [lia|]. exists w'. split; [rewrite <- app_assoc; reflexivity|].
           split; [exact Hl|]. split; [lia | exact Hni].
Qed.

Lemma NoDup_flat_map_disjoint {X Y} (f : X -> list Y) l :
  NoDup l -> (forall x, In x l -> NoDup (f x)) ->
  (forall x y v, In x l -> In y l -> x <> y -> In v (f x) -> In v (f y) -> False) ->
  NoDup (flat_map f l).
Proof.
  induction 1 as [|a l Ha Hl IH]; intros Hf Hd; simpl; [constructor|].
  apply NoDup_app_intro.
  - apply Hf. left. reflexivity.
  - apply IH; [intros; apply Hf; right; assumption|].
    intros x y v Hx Hy. apply Hd; right; assumption.
  - intros v H1 H2. apply in_flat_map in H2. destruct H2 as [y [Hy H2]].
    apply (Hd a y v); [left; reflexivity | right; assumption | | assumption | assumption].
    intros ->. contradiction.
Qed.

Lemma gps_rec_nodup slots : forall n prev pre, 1 <= n -> NoDup (gps_rec slots false n prev 1 pre).
Proof.
  induction slots as [|s IH]; intros n prev pre Hn; cbn [gps_rec orb]; [constructor|].
  apply NoDup_app_intro.
  - destruct (n <=? prev); [constructor; [intros [] | constructor] | constructor].
  - destruct s as [|s']; [constructor|].
    apply NoDup_flat_map_disjoint.
    + apply countdown_nodup.
    + intros m Hm. apply in_countdown in Hm. apply IH. lia.
    + intros x y v Hx Hy Hne H1 H2. apply in_countdown in Hx, Hy.
      apply gps_rec_iff in H1; [|lia]. apply gps_rec_iff in H2; [|lia].
      destruct H1 as [w1 [-> _]]. destruct H2 as [w2 [E _]].
      rewrite <- !app_assoc in E. apply app_inv_head in E. simpl in E. inversion E. contradiction.
  - intros v H1 H2. destruct (n <=? prev); [|destruct H1]. destruct H1 as [<-|[]].
    destruct s as [|s']; [destruct H2|].
    apply in_flat_map in H2. destruct H2 as [m [Hm H2]]. apply in_countdown in Hm.
    apply gps_rec_iff in H2; [|lia]. destruct H2 as [w [E _]].
    rewrite <- app_assoc in E. apply app_inv_head in E. simpl in E. inversion E. lia.
Qed.

(* genPartitionSizes(n, k, 1), for every n >= 1 and k: each non-increasing split of n into k parts
   (zeros allowed at the end) occurs, exactly once, and nothing else does *)
Theorem sizes_exact n k szs :
  1 <= n -> gen_partition_sizes n k 1 = Ok szs ->
  NoDup szs /\ forall v, In v szs <-> length v = k /\ sum v = n /\ nonincr v.
Proof.
  unfold gen_partition_sizes. destruct k as [|k']; [discriminate|]. intros Hn E.
  assert (E' : szs = gps_rec (S k') false n n 1 []) by (rewrite <- gps_first_eq with (prev := 0); congruence).
  subst szs. split; [apply gps_rec_nodup; exact Hn|].
  intros v. rewrite gps_rec_iff by exact Hn. split.
  - intros [w [-> [Hl [Hs Hni]]]]. simpl. apply nonincr_cons in Hni. tauto.
  - intros [Hl [Hs Hni]]. exists v. split; [reflexivity|]. split; [exact Hl|]. split; [exact Hs|].
    apply nonincr_cons. split; [|exact Hni]. destruct v as [|b r]; [exact I|]. simpl in Hs. fold (sum r) in Hs. lia.
Qed.

(* ---------- well-formedness of the generated options on the stated finite domain ---------- *)

Definition node_eq_dec (a b : node_id) : {a = b} + {a <> b}.
Proof. decide equality; apply N.eq_dec. Defined.

(* the configured network nodes: both twins of every twin pair, and the other replicas *)
Definition all_nodes (numNodes numTwins : nat) : list node_id :=
  let '(nodes, twins) := assign_node_ids numNodes numTwins in twins ++ nodes.

Definition node_ltb (a b : node_id) : bool :=
  (fst a <? fst b)%N || ((fst a =? fst b)%N && (snd a <? snd b)%N).

Fixpoint sortedb (p : list node_id) : bool :=
  match p with
  | a :: (b :: _) as r => node_ltb a b && sortedb r
  | _ => true
  end.

(* a view option is well formed for settings (numNodes, numTwins, k) *)
Definition wf_view (nn nt k : nat) (v : view_opt) : Prop :=
  length (snd v) = k /\
  (forall x, In x (all_nodes nn nt) -> count_occ node_eq_dec (concat (snd v)) x = 1) /\
  (forall x, In x (concat (snd v)) -> In x (all_nodes nn nt)) /\
  (1 <= fst v <= N.of_nat nn)%N /\
  In (fst v, 0%N) (all_nodes nn nt) /\
  (forall p, In p (snd v) -> sortedb p = true).

Definition wf_view_b (nn nt k : nat) (v : view_opt) : bool :=
  (length (snd v) =? k) &&
  forallb (fun x => count_occ node_eq_dec (concat (snd v)) x =? 1) (all_nodes nn nt) &&
  forallb (fun x => if in_dec node_eq_dec x (all_nodes nn nt) then true else false) (concat (snd v)) &&
  (1 <=? fst v)%N && (fst v <=? N.of_nat nn)%N &&
  (if in_dec node_eq_dec (fst v, 0%N) (all_nodes nn nt) then true else false) &&
  forallb sortedb (snd v).

Lemma wf_view_reflect nn nt k v : wf_view_b nn nt k v = true -> wf_view nn nt k v.
Proof.
  unfold wf_view_b, wf_view. rewrite !andb_true_iff, !forallb_forall.
  intros [[[[[[H1 H2] H3] H4] H5] H6] H7].
  split; [apply Nat.eqb_eq; exact H1|].
  split; [intros x Hx; apply Nat.eqb_eq; apply H2; exact Hx|].
  split; [intros x Hx; specialize (H3 x Hx); destruct (in_dec node_eq_dec x (all_nodes nn nt)); [assumption|discriminate]|].
  split; [split; [apply N.leb_le; exact H4 | apply N.leb_le; exact H5]|].
  split; [destruct (in_dec node_eq_dec (fst v, 0%N) (all_nodes nn nt)); [assumption|discriminate]|].
  exact H7.
Qed.

Definition view_opt_eq_dec (a b : view_opt) : {a = b} + {a <> b}.
Proof. decide equality; [apply list_eq_dec; apply list_eq_dec; apply node_eq_dec | apply N.eq_dec]. Defined.

Fixpoint nodup_b (l : list view_opt) : bool :=
  match l with
  | [] => true
  | x :: r => (if in_dec view_opt_eq_dec x r then false else true) && nodup_b r
  end.

Lemma nodup_b_reflect l : nodup_b l = true -> NoDup l.
Proof.
  induction l; simpl; [constructor|]. rewrite andb_true_iff. intros [H1 H2].
  constructor; [destruct (in_dec view_opt_eq_dec a l); [discriminate | assumption] | auto].
Qed.

(* ---------- sameness up to the order of the partitions (used by the OBSERVATION at the end) ---------- *)

Definition partition_eq_dec : forall a b : partition, {a = b} + {a <> b} := list_eq_dec node_eq_dec.

(* two options describe the same view: same leader, same partitions up to their order
   (partitions are kept sorted, see [wf_view], so equal sets are equal lists) *)
Definition view_equiv (a b : view_opt) : Prop := fst a = fst b /\ Permutation (snd a) (snd b).

Definition perm_b (a b : list partition) : bool :=
  forallb (fun p => count_occ partition_eq_dec a p =? count_occ partition_eq_dec b p) (a ++ b).

Lemma perm_b_complete a b : Permutation a b -> perm_b a b = true.
Proof.
  intros H. unfold perm_b. apply forallb_forall. intros p _. apply Nat.eqb_eq.
  apply (proj1 (Permutation_count_occ partition_eq_dec a b) H).
Qed.

Definition view_equiv_b (a b : view_opt) : bool := (fst a =? fst b)%N && perm_b (snd a) (snd b).

Lemma view_equiv_b_complete a b : view_equiv a b -> view_equiv_b a b = true.
Proof.
  intros [H1 H2]. unfold view_equiv_b. rewrite H1, N.eqb_refl, (perm_b_complete _ _ H2). reflexivity.
Qed.

Fixpoint pairwise_b {X} (r : X -> X -> bool) (l : list X) : bool :=
  match l with
  | [] => true
  | x :: t => forallb (fun y => negb (r x y)) t && pairwise_b r t
  end.

Lemma pairwise_b_reflect l :
  pairwise_b view_equiv_b l = true -> ForallOrdPairs (fun a b => ~ view_equiv a b) l.
Proof.
  induction l as [|x t IH]; simpl; [constructor|].
  rewrite andb_true_iff, forallb_forall. intros [H1 H2]. constructor; [|auto].
  apply Forall_forall. intros y Hy Heq. specialize (H1 y Hy).
  rewrite (view_equiv_b_complete _ _ Heq) in H1. discriminate.
Qed.

(* pairwise distinctness under any relation lifts from the columns to their product *)
Section Distinct.
  Context {T : Type} (R : T -> T -> Prop).

  Lemma FOP_app (Q : list T -> list T -> Prop) (l1 l2 : list (list T)) :
    ForallOrdPairs Q l1 -> ForallOrdPairs Q l2 ->
    (forall a b, In a l1 -> In b l2 -> Q a b) -> ForallOrdPairs Q (l1 ++ l2).
  Proof.
    induction 1 as [|a l Ha Hl IH]; simpl; intros H2 Hc; [assumption|].
    constructor.
    - apply Forall_app. split; [assumption|]. apply Forall_forall. intros b Hb. apply Hc; auto.
    - apply IH; auto.
  Qed.

  Lemma product_distinct (cols : list (list T)) :
    Forall (ForallOrdPairs (fun a b => ~ R a b)) cols ->
    ForallOrdPairs (fun s t => ~ Forall2 R s t) (product cols).
  Proof.
    induction 1 as [|c cs Hc Hcs IH]; simpl.
    - constructor; constructor.
    - induction Hc as [|x c Hx Hc IHc]; simpl; [constructor|].
      apply FOP_app.
      + clear - IH. induction IH as [|s P Hs HP IHP]; simpl; constructor; [|assumption].
        apply Forall_forall. intros t' Ht. apply in_map_iff in Ht. destruct Ht as [t [<- Ht]].
        intros HF. inversion HF; subst. exact (proj1 (Forall_forall _ _) Hs t Ht H4).
      + exact IHc.
      + intros a b Ha Hb HF. apply in_map_iff in Ha. destruct Ha as [s [<- _]].
        apply in_flat_map in Hb. destruct Hb as [y [Hy Hb]].
        apply in_map_iff in Hb. destruct Hb as [t [<- _]].
        inversion HF; subst. exact (proj1 (Forall_forall _ _) Hx y Hy H2).
  Qed.
End Distinct.

(* the finite domain of the property: 1..5 replicas, 0..2 twin pairs, 1..3 partitions *)
Definition bounded_settings : list (nat * nat * nat) :=
  list_prod (list_prod (seq 1 5) (seq 0 3)) (seq 1 3).

Definition check_setting (s : nat * nat * nat) : bool :=
  let '(nn, nt, k) := s in
  match option_list nn nt k with
  | Ok lp => forallb (wf_view_b nn nt k) lp && nodup_b lp
  | _ => false
  end.

Lemma bounded_settings_ok : forallb check_setting bounded_settings = true.
Proof. vm_compute. reflexivity. Qed.

Theorem partitions_wf_bounded nn nt k :
  1 <= nn <= 5 -> nt <= 2 -> 1 <= k <= 3 ->
  exists lp, option_list nn nt k = Ok lp /\ Forall (wf_view nn nt k) lp /\ NoDup lp.
Proof.
  intros Hn Ht Hk.
  assert (Hin : In (nn, nt, k) bounded_settings).
  { unfold bounded_settings. rewrite !in_prod_iff, !in_seq. lia. }
  pose proof (proj1 (forallb_forall _ _) bounded_settings_ok _ Hin) as H.
  unfold check_setting in H. destruct (option_list nn nt k) as [lp| |]; try discriminate.
  apply andb_true_iff in H. destruct H as [H1 H2].
  exists lp. split; [reflexivity|]. split; [|apply nodup_b_reflect; exact H2].
  apply Forall_forall. intros v Hv. apply wf_view_reflect.
  exact (proj1 (forallb_forall _ _) H1 v Hv).
Qed.

(* hence: on the finite domain of settings, for every number of views, no scenario is repeated *)
Theorem no_repetition_bounded nn nt k views e :
  1 <= nn <= 5 -> nt <= 2 -> 1 <= k <= 3 ->
  exists lp, option_list nn nt k = Ok lp /\
    NoDup (scenarios (fst (run_n (length lp ^ views + e) (init lp views)))).
Proof.
  intros Hn Ht Hk. destruct (partitions_wf_bounded nn nt k Hn Ht Hk) as [lp [H1 [_ H3]]].
  exists lp. split; [exact H1 | apply odometer_nodup; exact H3].
Qed.

(* ---------- OBSERVATION (not part of the property as decided): order of partitions ----------
   "Without repetition" is read as "no scenario value is yielded twice" (the theorems above).
   Up to the order of the partitions within a view -- which has no meaning for the network --
   the generator does repeat itself when two partitions have the same size: *)
Theorem options_repeat_up_to_partition_order :
  exists lp i j a b,
    option_list 3 1 2 = Ok lp /\ length lp = 12 /\ i < j /\
    nth_error lp i = Some a /\ nth_error lp j = Some b /\ view_equiv a b.
Proof.
  eexists. exists 6, 10. eexists. eexists.
  split; [vm_compute; reflexivity|]. split; [reflexivity|]. split; [lia|].
  split; [reflexivity|]. split; [reflexivity|].
  split; [reflexivity | apply perm_swap].
Qed.

(* whereas a generator whose options are pairwise different up to that order would yield scenarios
   that are pairwise different up to that order, for every number of views *)
Theorem distinct_up_to_order_lifts (lp : list view_opt) k e :
  ForallOrdPairs (fun a b => ~ view_equiv a b) lp ->
  ForallOrdPairs (fun s t => ~ Forall2 view_equiv s t)
                 (scenarios (fst (run_n (length lp ^ k + e) (init lp k)))).
Proof.
  intros H. rewrite odometer_exact. apply product_distinct.
  clear - H. induction k; simpl; constructor; assumption.
Qed.

(* Proofs about the verdict model (VerdictModel.v): 'unsafe' exactly when two non-twin replicas
   committed different blocks at the same position; the commit count is the length of the
   agreed prefix. *)
From Coq Require Import List Arith Lia Bool NArith.
From HS Require Import Base.Prelude Twins.VerdictModel.
Import ListNotations.

(* some log has an entry at position i *)
Definition defined_at (logs : list log) (i : nat) : Prop :=
  exists a h, In a logs /\ nth_error a i = Some h.
(* all logs that have an entry at position i have the same one *)
Definition agree_at (logs : list log) (i : nat) : Prop :=
  forall a b ha hb, In a logs -> In b logs ->
    nth_error a i = Some ha -> nth_error b i = Some hb -> ha = hb.
(* two logs have different entries at position i *)
Definition conflict_at (logs : list log) (i : nat) : Prop :=
  exists a b ha hb, In a logs /\ In b logs /\
    nth_error a i = Some ha /\ nth_error b i = Some hb /\ ha <> hb.

(* c is the length of the agreed prefix: positions below c are defined and agreed, position c is
   undefined or disputed *)
Definition agreed_prefix (logs : list log) (c : nat) : Prop :=
  (forall j, j < c -> defined_at logs j /\ agree_at logs j) /\
  (~ defined_at logs c \/ conflict_at logs c).

Lemma in_column i logs h : In h (column i logs) <-> exists a, In a logs /\ nth_error a i = Some h.
Proof.
  unfold column. rewrite in_flat_map. split.
  - intros [a [Ha Hh]]. exists a. split; [assumption|].
    destruct (nth_error a i); [destruct Hh as [<-|[]]; reflexivity | destruct Hh].
  - intros [a [Ha Hh]]. exists a. split; [assumption|]. rewrite Hh. left. reflexivity.
Qed.

Lemma column_nil i logs : column i logs = [] <-> ~ defined_at logs i.
Proof.
  split.
  - intros H [a [h [Ha Hh]]].
    assert (In h (column i logs)) by (apply in_column; eauto). rewrite H in *. contradiction.
  - intros H. destruct (column i logs) as [|h r] eqn:E; [reflexivity|].
    exfalso. apply H. assert (Hin : In h (column i logs)) by (rewrite E; left; reflexivity).
    apply in_column in Hin. destruct Hin as [a [Ha Hh]]. exists a, h. auto.
Qed.

Lemma all_same_true col : all_same col = true <-> (forall x y, In x col -> In y col -> x = y).
Proof.
  destruct col as [|h r]; simpl.
  - split; [intros _ x y [] | reflexivity].
  - rewrite forallb_forall. split.
    + intros H x y Hx Hy.
      assert (E : forall z, h = z \/ In z r -> z = h).
      { intros z [<-|Hz]; [reflexivity|]. specialize (H z Hz). apply N.eqb_eq in H. auto. }
      rewrite (E x Hx), (E y Hy). reflexivity.
    + intros H x Hx. apply N.eqb_eq. apply H; auto.
Qed.

Lemma all_same_agree i logs : all_same (column i logs) = true <-> agree_at logs i.
Proof.
  rewrite all_same_true. unfold agree_at. split.
  - intros H a b ha hb Ha Hb Hha Hhb. apply H; apply in_column; [exists a | exists b]; auto.
  - intros H x y Hx Hy. apply in_column in Hx, Hy.
    destruct Hx as [a [Ha Hx]], Hy as [b [Hb Hy]]. exact (H a b x y Ha Hb Hx Hy).
Qed.

Lemma all_same_false col : all_same col = false -> exists x y, In x col /\ In y col /\ x <> y.
Proof.
  destruct col as [|h r]; simpl; [discriminate|].
  intros H. induction r as [|z r IH]; simpl in H; [discriminate|].
  destruct (N.eqb h z) eqn:E.
  - simpl in H. destruct (IH H) as [x [y [Hx [Hy Hn]]]].
    exists x, y. simpl in *. intuition.
  - apply N.eqb_neq in E. exists h, z. simpl. auto.
Qed.

Lemma all_same_conflict i logs : all_same (column i logs) = false -> conflict_at logs i.
Proof.
  intros H. destruct (all_same_false _ H) as [x [y [Hx [Hy Hn]]]].
  apply in_column in Hx, Hy. destruct Hx as [a [Ha Hx]], Hy as [b [Hb Hy]].
  exists a, b, x, y. auto.
Qed.

Lemma conflict_not_agree logs i : conflict_at logs i -> agree_at logs i -> False.
Proof.
  intros [a [b [ha [hb [Ha [Hb [Hha [Hhb Hn]]]]]]]] H. apply Hn. exact (H a b ha hb Ha Hb Hha Hhb).
Qed.

Lemma max_len_ge logs a : In a logs -> length a <= max_len logs.
Proof.
  induction logs as [|l r IH]; simpl; [intros []|].
  intros [<-|H]; [lia | specialize (IH H); lia].
Qed.

Lemma undefined_beyond logs i : max_len logs <= i -> ~ defined_at logs i.
Proof.
  intros H [a [h [Ha Hh]]]. pose proof (max_len_ge logs a Ha).
  assert (nth_error a i <> None) by (rewrite Hh; discriminate).
  apply nth_error_Some in H1. lia.
Qed.

Lemma check_from_spec fuel : forall i logs, max_len logs < i + fuel ->
  let r := check_from fuel i logs in
  i <= snd r /\
  (forall j, i <= j < snd r -> defined_at logs j /\ agree_at logs j) /\
  (if fst r then ~ defined_at logs (snd r) else conflict_at logs (snd r)).
Proof.
  induction fuel as [|f IH]; intros i logs Hf; cbn [check_from].
  - cbn. split; [lia|]. split; [intros; lia|]. apply undefined_beyond. lia.
  - destruct (column i logs) as [|h col] eqn:Ec.
    + cbn. split; [lia|]. split; [intros; lia|]. apply column_nil. exact Ec.
    + rewrite <- Ec. destruct (all_same (column i logs)) eqn:Es.
      * assert (Hf' : max_len logs < S i + f) by lia.
        specialize (IH (S i) logs Hf'). cbv zeta in IH. destruct IH as [H1 [H2 H3]].
        split; [lia|]. split; [|exact H3].
        intros j Hj. destruct (Nat.eq_dec j i) as [->|Hne].
        -- split; [|apply all_same_agree; exact Es].
           destruct (column i logs) eqn:E2; [discriminate|].
           assert (Hd : ~ ~ defined_at logs i).
           { intros Hn. apply column_nil in Hn. rewrite Hn in E2. discriminate. }
           assert (Hin : In h0 (column i logs)) by (rewrite E2; left; reflexivity).
           apply in_column in Hin. destruct Hin as [a [Ha Hh]]. exists a, h0. auto.
        -- apply H2. lia.
      * cbn. split; [lia|]. split; [intros; lia|]. apply all_same_conflict. exact Es.
Qed.

Lemma check_commits_spec logs :
  let r := check_commits logs in
  (forall j, j < snd r -> defined_at logs j /\ agree_at logs j) /\
  (if fst r then ~ defined_at logs (snd r) else conflict_at logs (snd r)).
Proof.
  unfold check_commits.
  destruct (check_from_spec (S (max_len logs)) 0 logs) as [_ [H2 H3]]; [lia|].
  split; [|exact H3]. intros j Hj. apply H2. lia.
Qed.

(* a conflict anywhere is a conflict at or before the first undefined position *)
Lemma defined_downward logs i j : defined_at logs i -> j <= i -> defined_at logs j.
Proof.
  intros [a [h [Ha Hh]]] Hj.
  assert (Hl : i < length a) by (apply nth_error_Some; rewrite Hh; discriminate).
  destruct (nth_error a j) as [h'|] eqn:E.
  - exists a, h'. auto.
  - apply nth_error_None in E. lia.
Qed.

Theorem verdict_unsafe_iff logs :
  fst (check_commits logs) = false <-> exists i, conflict_at logs i.
Proof.
  destruct (check_commits_spec logs) as [H1 H2]. split.
  - intros E. rewrite E in H2. eauto.
  - intros [i Hc]. destruct (fst (check_commits logs)) eqn:E; [|reflexivity]. exfalso.
    destruct (Nat.lt_ge_cases i (snd (check_commits logs))) as [Hlt|Hge].
    + destruct (H1 i Hlt) as [_ Ha]. eapply conflict_not_agree; eauto.
    + apply H2. apply (defined_downward logs i); [|exact Hge].
      destruct Hc as [a [_ [ha [_ [Ha [_ [Hh _]]]]]]]. exists a, ha. auto.
Qed.

Theorem verdict_commits_agreed_prefix logs : agreed_prefix logs (snd (check_commits logs)).
Proof.
  destruct (check_commits_spec logs) as [H1 H2]. split; [exact H1|].
  destruct (fst (check_commits logs)); [left | right]; exact H2.
Qed.

Theorem agreed_prefix_unique logs c c' : agreed_prefix logs c -> agreed_prefix logs c' -> c = c'.
Proof.
  assert (W : forall c c', agreed_prefix logs c -> agreed_prefix logs c' -> ~ c < c').
  { intros x y [_ Hx] [Hy _] Hlt. destruct (Hy x Hlt) as [Hd Ha].
    destruct Hx as [Hx|Hx]; [contradiction | eapply conflict_not_agree; eauto]. }
  intros H H'. pose proof (W c c' H H'). pose proof (W c' c H' H). lia.
Qed.

(* the network level: replicas with twins (or without nodes) are not compared *)
Lemma in_non_twin_logs replicas a : In a (non_twin_logs replicas) <-> In [a] replicas.
Proof.
  unfold non_twin_logs. rewrite in_flat_map. split.
  - intros [r [Hr Ha]]. destruct r as [|l [|l2 r']]; try destruct Ha as [<-|[]]; try destruct Ha. exact Hr.
  - intros H. exists [a]. split; [exact H | left; reflexivity].
Qed.

Theorem verdict_commits logs :
  agreed_prefix logs (snd (check_commits logs)) /\
  forall c, agreed_prefix logs c -> c = snd (check_commits logs).
Proof.
  split; [exact (verdict_commits_agreed_prefix logs)|].
  intros c H. exact (agreed_prefix_unique logs c _ H (verdict_commits_agreed_prefix logs)).
Qed.

Theorem verdict_non_twins (replicas : list (list log)) (a : log) :
  check_commits_net replicas = check_commits (non_twin_logs replicas) /\
  (In a (non_twin_logs replicas) <-> In [a] replicas).
Proof. split; [reflexivity | exact (in_non_twin_logs replicas a)]. Qed.

(* Model of /repo/twins/generator.go (with fixes/C18-generator-last-scenario.patch applied):
   assignNodeIDs, genPartitionSizes, generateTwinPartitionPairs, isValidTwinAssignment,
   cartesianProduct, genPartitionScenarios, NewGenerator, Shuffle, Remaining, NextScenario.
   Definitions only; proofs are in GeneratorProofs.v.

   Conventions: uint8 quantities are [nat] (the model is used for n = twins + nodes <= 255 and
   min = 1, the only value NewGenerator passes; no uint8 wrap-around occurs there);
   an index out of range / a write to a nil map is [Panic].  The odometer part is generic in the
   type [A] of the per-view options (leader, partitions), so it can be run on option *indices*. *)
From HS Require Import Base.Prelude.
Import ListNotations.

(* ---------- small helpers ---------- *)

Definition res_bind {A B} (r : result A) (f : A -> result B) : result B :=
  match r with Ok a => f a | Reject => Reject | Panic => Panic end.

(* evaluate in order, first failure wins (Go evaluates the loop bodies in this order) *)
Fixpoint res_all {A} (l : list (result A)) : result (list A) :=
  match l with
  | [] => Ok []
  | r :: t => res_bind r (fun a => res_bind (res_all t) (fun b => Ok (a :: b)))
  end.

(* hi, hi-1, ..., lo  (empty when hi < lo) *)
Definition countdown (hi lo : nat) : list nat := rev (seq lo (S hi - lo)).

(* ---------- node ids ---------- *)

(* NodeID{ReplicaID, TwinID} *)
Definition node_id := (N * N)%type.
Definition node_eqb (a b : node_id) : bool := N.eqb (fst a) (fst b) && N.eqb (snd a) (snd b).

(* func assignNodeIDs(numNodes, numTwins uint8) (nodes, twins []NodeID) *)
Fixpoint assign_loop (cnt : nat) (id : N) (remTwins : nat) (nodes twins : list node_id)
  : list node_id * list node_id :=
  match cnt with
  | O => (nodes, twins)
  | S c =>
      match remTwins with
      | S r => assign_loop c (id + 1)%N r nodes (twins ++ [(id, 1%N); (id, 2%N)])
      | O => assign_loop c (id + 1)%N O (nodes ++ [(id, 0%N)]) twins
      end
  end.
Definition assign_node_ids (numNodes numTwins : nat) : list node_id * list node_id :=
  assign_loop numNodes 1%N numTwins [] [].

(* ---------- partition sizes ---------- *)

(* genPartitionSizesRecursive(i, n, minSize, state, sizes): [slots] = len(state) - i (structural),
   [first] = (i == 0), [prev] = state[i-1], [pre] = state[0..i).  Emits vectors of length
   len(state), zero padded. *)
Fixpoint gps_rec (slots : nat) (first : bool) (n prev mn : nat) (pre : list nat) : list (list nat) :=
  match slots with
  | O => []
  | S slots' =>
      (if first || (n <=? prev) then [pre ++ n :: repeat 0 slots'] else [])
      ++
      match slots' with
      | O => []                                   (* int(i+1) < len(s) is false *)
      | S _ =>
          let m0 := if first then n - 1 else Nat.min (n - 1) prev in
          let lo := if first then mn else 1 in
          flat_map (fun m => gps_rec slots' false (n - m) m mn (pre ++ [m])) (countdown m0 lo)
      end
  end.

(* func genPartitionSizes(n, k, minSize uint8): s[0] = n on an empty slice panics when k = 0 *)
Definition gen_partition_sizes (n k mn : nat) : result (list (list nat)) :=
  match k with
  | O => Panic
  | S _ => Ok (gps_rec k true n 0 mn [])
  end.

(* ---------- twin placement ---------- *)

Definition twin_assignment := (nat * nat)%type.

(* func generateTwinPartitionPairs(n uint8): all (i, j) with i <= j < n, lexicographic *)
Definition twin_partition_pairs (n : nat) : list twin_assignment :=
  flat_map (fun i => map (fun j => (i, j)) (seq i (n - i))) (seq 0 n).

(* func isValidTwinAssignment(twinAssignments, partitionSizes) *)
Definition dec_at (ps : list nat) (i : nat) : option (list nat) :=
  match nth_error ps i with
  | Some (S c) => Some (firstn i ps ++ c :: skipn (S i) ps)
  | _ => None                       (* index >= len or ps[i] == 0 *)
  end.
Fixpoint valid_from (tas : list twin_assignment) (ps : list nat) : bool :=
  match tas with
  | [] => true
  | (a, b) :: r =>
      match dec_at ps a with
      | None => false
      | Some ps1 => match dec_at ps1 b with
                    | None => false
                    | Some ps2 => valid_from r ps2
                    end
      end
  end.
Definition is_valid_twin_assignment (tas : list twin_assignment) (sizes : list nat) : bool :=
  valid_from tas sizes.

(* func cartesianProduct(input ...[]T): lexicographic, first list varies slowest *)
Fixpoint product {T} (cols : list (list T)) : list (list T) :=
  match cols with
  | [] => [[]]
  | c :: cs => flat_map (fun x => map (cons x) (product cs)) c
  end.

(* ---------- partition scenarios ---------- *)

Definition partition := list node_id.          (* a NodeSet, in insertion order *)

Definition set_add (x : node_id) (p : partition) : partition :=
  if existsb (node_eqb x) p then p else p ++ [x].

(* partitions[t].Add(x): t out of range panics; partitions[t] is a nil map when sizes[t] = 0 *)
Definition add_at (sizes : list nat) (parts : list partition) (t : nat) (x : node_id)
  : result (list partition) :=
  match nth_error sizes t, nth_error parts t with
  | Some (S _), Some p => Ok (firstn t parts ++ set_add x p :: skipn (S t) parts)
  | _, _ => Panic
  end.

(* for k := range twinAssignments[j] { for _, t := range pair { partitions[t].Add(twins[twin]); twin++ } } *)
Fixpoint place_twins (sizes : list nat) (parts : list partition) (tas : list twin_assignment)
  (twins : list node_id) : result (list partition) :=
  match tas with
  | [] => Ok parts
  | (a, b) :: r =>
      match twins with
      | t1 :: t2 :: tw =>
          res_bind (add_at sizes parts a t1) (fun p1 =>
          res_bind (add_at sizes p1 b t2) (fun p2 => place_twins sizes p2 r tw))
      | _ => Panic
      end
  end.

(* for k := range partitions { for sizes[k]-len(partitions[k]) > 0 { partitions[k].Add(nodes[node]); node++ } }
   (the uint8 subtraction cannot wrap after a valid twin placement: len <= size) *)
Fixpoint fill_nodes (sizes : list nat) (parts : list partition) (nodes : list node_id)
  : result (list partition) :=
  match sizes, parts with
  | sz :: ss, p :: ps =>
      let need := sz - length p in
      if length nodes <? need then Panic
      else res_bind (fill_nodes ss ps (skipn need nodes))
                    (fun r => Ok ((p ++ firstn need nodes) :: r))
  | _, _ => Ok []
  end.

Definition build_partitions (sizes : list nat) (tas : list twin_assignment)
  (twins nodes : list node_id) : result (list partition) :=
  res_bind (place_twins sizes (map (fun _ => []) sizes) tas twins)
           (fun parts => fill_nodes sizes parts nodes).

(* func genPartitionScenarios(twins, nodes []NodeID, k, min uint8) [][]NodeSet *)
Definition gen_partition_scenarios (twins nodes : list node_id) (k mn : nat)
  : result (list (list partition)) :=
  let n := length twins + length nodes in
  let npairs := Nat.div (length twins) 2 in
  let tas : list (list twin_assignment) :=
    if 0 <? npairs then product (repeat (twin_partition_pairs k) npairs) else [] in
  res_bind (gen_partition_sizes n k mn) (fun sizes =>
  res_bind (res_all
    (flat_map (fun sz =>
       match tas with
       | [] => [build_partitions sz [] twins nodes]         (* the do-while body runs once *)
       | _ => flat_map (fun ta =>
                if is_valid_twin_assignment ta sz
                then [build_partitions sz ta twins nodes] else []) tas
       end) sizes))
  (fun l => Ok l)).

(* View{Leader, Partitions} *)
Definition view_opt := (N * list partition)%type.

(* for _, p := range partitionScenarios { for _, node := range nodes { append View{node.ReplicaID, p} } } *)
Definition leaders_partitions (scenarios : list (list partition)) (nodes : list node_id) : list view_opt :=
  flat_map (fun p => map (fun nd : node_id => (fst nd, p)) nodes) scenarios.

(* the option list of NewGenerator(settings) *)
Definition option_list (numNodes numTwins k : nat) : result (list view_opt) :=
  let '(nodes, twins) := assign_node_ids numNodes numTwins in
  res_bind (gen_partition_scenarios twins nodes k 1) (fun ps => Ok (leaders_partitions ps nodes)).

(* ---------- the odometer (generic in the option type) ---------- *)

Section Odometer.
  Context {A : Type}.

  Record gen := mkGen {
    g_lp : list A;            (* leadersPartitions *)
    g_idx : list nat;         (* indices, one per view *)
    g_off : list nat;         (* offsets, one per view *)
    g_rem : Z;                (* remaining *)
    g_done : bool             (* the odometer has wrapped around (field added by the patch) *)
  }.

  (* remaining = int64(math.Pow(float64(len(lp)), float64(views))) — exact below 2^53 *)
  Definition announced (lp : list A) (views : nat) : Z := Z.pow (Z.of_nat (length lp)) (Z.of_nat views).

  (* NewGenerator after the option list has been built *)
  Definition init (lp : list A) (views : nat) : gen :=
    mkGen lp (repeat 0 views) (repeat 0 views) (announced lp views)
          ((length lp =? 0) && (0 <? views)).

  (* index := ii + offsets[i]; if index >= len { index -= len }; leadersPartitions[index] *)
  Definition pick (lp : list A) (off ii : nat) : result A :=
    let index := ii + off in
    let index := if length lp <=? index then index - length lp else index in
    match nth_error lp index with Some x => Ok x | None => Panic end.

  (* for i, ii := range g.indices { p[i] = ... g.offsets[i] ... } *)
  Fixpoint scenario_of (lp : list A) (offs idx : list nat) : result (list A) :=
    match idx with
    | [] => Ok []
    | ii :: idx' =>
        match offs with
        | [] => Panic
        | off :: offs' =>
            res_bind (pick lp off ii) (fun x =>
            res_bind (scenario_of lp offs' idx') (fun r => Ok (x :: r)))
        end
    end.

  (* for i := views-1; i >= 0; i-- { indices[i]++; if indices[i] < n { done = false; break }; indices[i] = 0 }
     as a recursion from the head whose carry comes back from the tail; returns (indices', wrapped) *)
  Fixpoint incr (n : nat) (idx : list nat) : list nat * bool :=
    match idx with
    | [] => ([], true)
    | i :: r =>
        let '(r', c) := incr n r in
        if c then (if S i <? n then (S i :: r', false) else (0 :: r', true))
        else (i :: r', false)
    end.

  (* NextScenario: Ok (Some s) = (s, nil), Ok None = (nil, io.EOF) *)
  Definition next (g : gen) : result (option (list A)) * gen :=
    if g_done g then (Ok None, g)
    else
      match scenario_of (g_lp g) (g_off g) (g_idx g) with
      | Ok p =>
          let '(idx', wrapped) := incr (length (g_lp g)) (g_idx g) in
          (Ok (Some p), mkGen (g_lp g) idx' (g_off g) (g_rem g - 1)%Z wrapped)
      | _ => (Panic, g)
      end.

  (* m calls of NextScenario, each preceded by Remaining() *)
  Fixpoint run_n (m : nat) (g : gen) : list (Z * result (option (list A))) * gen :=
    match m with
    | O => ([], g)
    | S m' =>
        let '(r, g1) := next g in
        let '(rs, g2) := run_n m' g1 in
        ((g_rem g, r) :: rs, g2)
    end.

  (* the scenarios among the results *)
  Definition scenarios (evs : list (Z * result (option (list A)))) : list (list A) :=
    flat_map (fun e => match snd e with Ok (Some s) => [s] | _ => [] end) evs.

  (* Shuffle(seed): math/rand is an oracle.  [perm] = the permutation r.Shuffle applies
     (new lp[i] = old lp[perm[i]]), [offs] = the values r.Intn(len(lp)) returned, one per view.
     With no options there is nothing to shuffle (guard added by the patch; Intn(0) would panic). *)
  Definition apply_perm (perm : list nat) (lp : list A) : list A :=
    flat_map (fun j => match nth_error lp j with Some x => [x] | None => [] end) perm.

  Definition shuffle (perm offs : list nat) (g : gen) : gen :=
    match g_lp g with
    | [] => g
    | _ => mkGen (apply_perm perm (g_lp g)) (g_idx g) offs (g_rem g) (g_done g)
    end.

  (* rotation of the option list by one view's offset: what that view's digit enumerates *)
  Definition rot (off : nat) (lp : list A) : list A := skipn off lp ++ firstn off lp.
End Odometer.
Arguments gen A : clear implicits.

(* NewGenerator(settings) *)
Definition new_generator (numNodes numTwins k views : nat) : result (gen view_opt) :=
  res_bind (option_list numNodes numTwins k) (fun lp => Ok (init lp views)).

(* Model of checkCommits in /repo/twins/scenario.go. Definitions only.

   network.replicas : map[ID][]*node is modelled as a list of replicas, each a list of its
   nodes' commit logs (executedBlocks, block hashes interned as N).  The result does not
   depend on the map's iteration order (a set of hashes per position is all that is used). *)
From HS Require Import Base.Prelude.
Import ListNotations.

Definition log := list hash.

(* if len(replica) != 1 { continue }  — replicas that have twins (or no node) are skipped *)
Definition non_twin_logs (replicas : list (list log)) : list log :=
  flat_map (fun r => match r with [l] => [l] | _ => [] end) replicas.

(* the hashes at position i of the logs that are long enough: the keys counted in commitCount *)
Definition column (i : nat) (logs : list log) : list hash :=
  flat_map (fun l => match nth_error l i with Some h => [h] | None => [] end) logs.

Definition all_same (col : list hash) : bool :=
  match col with
  | [] => true
  | h :: r => forallb (N.eqb h) r
  end.

(* for { ...; if noCommits { break }; if len(commitCount) != 1 { return false, i }; i++ }; return true, i *)
Fixpoint check_from (fuel i : nat) (logs : list log) : bool * nat :=
  match fuel with
  | O => (true, i)
  | S f =>
      match column i logs with
      | [] => (true, i)
      | col => if all_same col then check_from f (S i) logs else (false, i)
      end
  end.

Definition max_len (logs : list log) : nat := fold_right (fun l m => Nat.max (length l) m) 0 logs.

Definition check_commits (logs : list log) : bool * nat := check_from (S (max_len logs)) 0 logs.

Definition check_commits_net (replicas : list (list log)) : bool * nat :=
  check_commits (non_twin_logs replicas).

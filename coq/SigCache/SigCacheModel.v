(* Model of /repo/security/cert/cache.go (the verification cache wrapped around a crypto.Base)
   together with the signature types' ToBytes()/Participants() as far as they enter the cache
   key (security/crypto/multisignature.go, ecdsa.go, eddsa.go, bls12.go).  No proofs here.

   Two key derivations are modelled:
     [legacy_kd]  the derivation of the tree as found (digest of the message, or -- because
                  hasher.Sum(hash[:]) appends to a discarded slice -- 32 zero bytes for a batch,
                  followed by signature.ToBytes(), i.e. the bare concatenation of the signature
                  bytes without signer ids);
     [fixed_kd]   the derivation after fixes/C11-batch-digest.patch + fixes/C11-key-signers.patch.
   The LRU (check / insert / evict) and the cached operations are common to both.           *)
From HS Require Import Base.Prelude.

Definition bytes := list N.
Definition bytes_eqb : bytes -> bytes -> bool := list_eqb N.eqb.
Definition key := bytes.                       (* Go: string(key.String()) *)

(* binary.LittleEndian.PutUint64(buf[:], v) : k bytes, little endian *)
Fixpoint le (k : nat) (n : N) : bytes :=
  match k with
  | O => []
  | S k' => (n mod 256)%N :: le k' (n / 256)%N
  end.
Definition le64 (n : N) : bytes := le 8 n.
Definition lenN {A} (l : list A) : N := N.of_nat (length l).

(* ---- signatures as far as the cache and the schemes can see them ---- *)
Inductive kind := KEcdsa | KEddsa.
Inductive qsig :=
| SMulti (k : kind) (parts : list (rid * bytes))   (* crypto.Multi[*ECDSASignature] / [*EDDSASignature]: (signer, sig) in slice order *)
| SBls (ids : list rid) (pt : bytes)               (* *BLS12AggregateSignature: Participants().ForEach order, compressed point *)
| SNil.                                            (* nil hotstuff.QuorumSignature *)

(* signature.ToBytes(): Multi concatenates the parts' bytes, BLS compresses the point *)
Definition sig_bytes (s : qsig) : option bytes :=
  match s with
  | SMulti _ parts => Some (concat (map snd parts))
  | SBls _ pt => Some pt
  | SNil => None                                   (* method call on a nil interface: panic *)
  end.

(* decidable equalities (used by the correspondence checker and by counterexamples) *)
Definition kind_eqb (a b : kind) : bool :=
  match a, b with KEcdsa, KEcdsa | KEddsa, KEddsa => true | _, _ => false end.
Definition part_eqb (a b : rid * bytes) : bool := N.eqb (fst a) (fst b) && bytes_eqb (snd a) (snd b).
Definition qsig_eqb (a b : qsig) : bool :=
  match a, b with
  | SMulti k p, SMulti k' p' => kind_eqb k k' && list_eqb part_eqb p p'
  | SBls i p, SBls i' p' => list_eqb N.eqb i i' && bytes_eqb p p'
  | SNil, SNil => true
  | _, _ => false
  end.

(* ---- batches: map[hotstuff.ID][]byte given as an association list ---- *)
Definition batch := list (rid * bytes).

Fixpoint ins_sorted (x : N) (l : list N) : list N :=
  match l with
  | [] => [x]
  | y :: r => if (x <=? y)%N then x :: l else y :: ins_sorted x r
  end.
Definition sort_ids (l : list N) : list N := fold_right ins_sorted [] l.   (* slices.Sorted(maps.Keys(batch)) *)

Fixpoint get (id : rid) (b : batch) : bytes :=                           (* batch[id] *)
  match b with
  | [] => []
  | (i, m) :: r => if N.eqb i id then m else get id r
  end.

(* the batch as the cache walks it: ascending ids with their messages *)
Definition canon (b : batch) : batch := map (fun id => (id, get id b)) (sort_ids (map fst b)).

(* ---- key derivations ---- *)
Inductive keyres := KKey (k : key) | KBypass | KPanic.
Record keyderiv := { kd_verify : qsig -> bytes -> keyres; kd_batch : qsig -> batch -> keyres }.

Section Keys.
  Variable sha : bytes -> bytes.            (* crypto/sha256 *)

  (* -- the tree as found -- *)
  Definition legacy_key (digest : bytes) (s : qsig) : keyres :=
    match sig_bytes s with
    | Some sb => KKey (digest ++ sb)
    | None => KPanic
    end.
  (* hash := sha256.Sum256(message) *)
  Definition legacy_verify_key (s : qsig) (m : bytes) : keyres := legacy_key (sha m) s.
  (* var hash Hash; ...; hasher.Sum(hash[:])  -- result discarded, hash stays zero *)
  Definition legacy_batch_key (s : qsig) (b : batch) : keyres := legacy_key (repeat 0%N 32) s.
  Definition legacy_kd := {| kd_verify := legacy_verify_key; kd_batch := legacy_batch_key |}.

  (* what the batch key was meant to be: digest of the bare concatenation of the messages *)
  Definition intended_batch_key (s : qsig) (b : batch) : keyres :=
    legacy_key (sha (concat (map snd (canon b)))) s.
  Definition intended_kd := {| kd_verify := legacy_verify_key; kd_batch := intended_batch_key |}.

  (* -- after the two patches -- *)
  Definition enc_part (p : rid * bytes) : bytes := le64 (fst p) ++ le64 (lenN (snd p)) ++ snd p.
  Definition enc_parts (l : list (rid * bytes)) : bytes := concat (map enc_part l).
  Definition kind_tag (k : kind) : N := match k with KEcdsa => 1%N | KEddsa => 2%N end.

  (* cacheKey's type switch; None = "cannot be cached" *)
  Definition enc_sig (s : qsig) : option bytes :=
    match s with
    | SMulti k parts => Some (kind_tag k :: le64 (lenN parts) ++ enc_parts parts)
    | SBls ids pt => Some (3%N :: le64 (lenN ids) ++ concat (map le64 ids) ++ pt)
    | SNil => None
    end.
  Definition fixed_key (tag : N) (digest : bytes) (s : qsig) : keyres :=
    match enc_sig s with
    | Some e => KKey (tag :: digest ++ e)
    | None => KBypass
    end.
  Definition fixed_verify_key (s : qsig) (m : bytes) : keyres := fixed_key 1%N (sha m) s.
  (* digest over id, length, message for ascending ids *)
  Definition fixed_batch_key (s : qsig) (b : batch) : keyres := fixed_key 2%N (sha (enc_parts (canon b))) s.
  Definition fixed_kd := {| kd_verify := fixed_verify_key; kd_batch := fixed_batch_key |}.

  (* after the first patch only (digest repaired and framed, signature part unchanged) *)
  Definition p1_batch_key (s : qsig) (b : batch) : keyres := legacy_key (sha (enc_parts (canon b))) s.
  Definition p1_kd := {| kd_verify := legacy_verify_key; kd_batch := p1_batch_key |}.
End Keys.

(* ---- the LRU: entries map + accessOrder list (front = most recently used) ---- *)
Record lru := { cap : nat; order : list key }.
Definition empty (c : nat) : lru := {| cap := c; order := [] |}.

Definition mem (k : key) (l : list key) : bool := existsb (bytes_eqb k) l.
Fixpoint remove1 (k : key) (l : list key) : list key :=
  match l with
  | [] => []
  | x :: r => if bytes_eqb k x then r else x :: remove1 k r
  end.
Definition touch (k : key) (l : list key) : list key := k :: remove1 k l.   (* MoveToFront *)

Definition check (k : key) (c : lru) : bool * lru :=
  if mem k (order c) then (true, {| cap := cap c; order := touch k (order c) |}) else (false, c).

(* None = accessOrder.Remove(accessOrder.Back()) on an empty list: nil dereference *)
Definition evict (c : lru) : option lru :=
  if Nat.ltb (length (order c)) (cap c) then Some c
  else match order c with
       | [] => None
       | _ => Some {| cap := cap c; order := removelast (order c) |}
       end.

Definition insert (k : key) (c : lru) : option lru :=
  if mem k (order c) then Some {| cap := cap c; order := touch k (order c) |}
  else match evict c with
       | None => None
       | Some c' => Some {| cap := cap c'; order := k :: order c' |}
       end.

(* ---- operations ---- *)
Inductive verdict := VAccept | VReject | VPanic.
Definition verdict_eqb (a b : verdict) : bool :=
  match a, b with VAccept, VAccept | VReject, VReject | VPanic, VPanic => true | _, _ => false end.
Inductive op :=
| OSign (m : bytes) (r : option qsig)      (* r: what impl.Sign returned (None = error) *)
| OVerify (s : qsig) (m : bytes)
| OBatch (s : qsig) (b : batch)
| OCombine (ss : list qsig).
Inductive out := OutV (v : verdict) | OutC (r : option qsig).

Section Machine.
  (* the uncached crypto.Base *)
  Variable Vv : qsig -> bytes -> verdict.
  Variable Vb : qsig -> batch -> verdict.     (* applied to the batch as a map: [canon b] *)
  Variable Vc : list qsig -> option qsig.

  Definition plain_step (o : op) : out :=
    match o with
    | OSign _ r => OutV (match r with Some _ => VAccept | None => VReject end)
    | OVerify s m => OutV (Vv s m)
    | OBatch s b => OutV (Vb s (canon b))
    | OCombine ss => OutC (Vc ss)
    end.

  Variable kd : keyderiv.

  (* common tail of Cache.Verify / Cache.BatchVerify; v = verdict of cache.impl
     result: verdict, whether impl was called, new cache *)
  Definition cached_verify (kr : keyres) (v : verdict) (c : lru) : verdict * bool * lru :=
    match kr with
    | KPanic => (VPanic, false, c)
    | KBypass => (v, true, c)
    | KKey k =>
        let '(hit, c1) := check k c in
        if hit then (VAccept, false, c1)
        else match v with
             | VAccept => match insert k c1 with
                          | Some c2 => (VAccept, true, c2)
                          | None => (VPanic, true, c1)
                          end
             | _ => (v, true, c1)
             end
    end.

  Definition cached_step (c : lru) (o : op) : out * bool * lru :=
    match o with
    | OSign m r =>
        match r with
        | None => (OutV VReject, true, c)
        | Some s =>
            match kd_verify kd s m with
            | KPanic => (OutV VPanic, true, c)
            | KBypass => (OutV VAccept, true, c)
            | KKey k => match insert k c with
                        | Some c' => (OutV VAccept, true, c')
                        | None => (OutV VPanic, true, c)
                        end
            end
        end
    | OVerify s m =>
        let '(v, called, c') := cached_verify (kd_verify kd s m) (Vv s m) c in (OutV v, called, c')
    | OBatch s b =>
        let '(v, called, c') := cached_verify (kd_batch kd s b) (Vb s (canon b)) c in (OutV v, called, c')
    | OCombine ss => (OutC (Vc ss), true, c)
    end.

  (* observation per operation: result, impl called?, number of cached entries afterwards *)
  Fixpoint run_cached (c : lru) (ops : list op) : list (out * bool * nat) :=
    match ops with
    | [] => []
    | o :: r => let '(x, called, c') := cached_step c o in (x, called, length (order c')) :: run_cached c' r
    end.
  Fixpoint final_cache (c : lru) (ops : list op) : lru :=
    match ops with
    | [] => c
    | o :: r => let '(_, _, c') := cached_step c o in final_cache c' r
    end.
  Definition run_plain (ops : list op) : list out := map plain_step ops.
End Machine.

Definition outs (l : list (out * bool * nat)) : list out := map (fun x => fst (fst x)) l.

(* ---- a membership that grows while the cache lives ----
   RuntimeConfig.AddReplica can add replicas after the Authority (and its Cache) was created;
   the scheme's answers then change (a signer that was unknown becomes known) while the cache
   keeps its entries.  An epoch = the scheme as it answers between two configuration changes. *)
Record scheme := {
  sv : qsig -> bytes -> verdict;
  sb : qsig -> batch -> verdict;
  sc : list qsig -> option qsig }.

Fixpoint run_epochs (kd : keyderiv) (c : lru) (es : list (scheme * list op)) : list out :=
  match es with
  | [] => []
  | (Sc, ops) :: r =>
      outs (run_cached (sv Sc) (sb Sc) (sc Sc) kd c ops)
      ++ run_epochs kd (final_cache (sv Sc) (sb Sc) (sc Sc) kd c ops) r
  end.
Fixpoint run_plain_epochs (es : list (scheme * list op)) : list out :=
  match es with
  | [] => []
  | (Sc, ops) :: r => run_plain (sv Sc) (sb Sc) (sc Sc) ops ++ run_plain_epochs r
  end.

(* an injective, fixed-length stand-in for SHA-256 used only to *run* the model in the kernel:
   one plus the Goedel number of the message (x :: r |-> 2^x * (2 * code r + 1)), then 31 zeros.
   It is injective on all lists (SigCacheProofs.sha_toy_inj) and never the all-zero string. *)
Fixpoint godel (m : bytes) : N :=
  match m with
  | [] => 0%N
  | x :: r => (2 ^ x * (2 * godel r + 1))%N
  end.
Definition sha_toy (m : bytes) : bytes := (godel m + 1)%N :: repeat 0%N 31.

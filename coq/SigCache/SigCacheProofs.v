(* Proofs about the verification cache model (SigCacheModel.v). *)
From Coq Require Import List Bool NArith Arith Lia.
From HS Require Import Base.Prelude SigCache.SigCacheModel.
Import ListNotations.

(* ------------------------------------------------------------------ equality tests *)
Lemma bytes_eqb_eq : forall a b, bytes_eqb a b = true <-> a = b.
Proof.
  unfold bytes_eqb. induction a as [|x a IH]; destruct b as [|y b]; simpl; split; intro H;
    try reflexivity; try discriminate.
  - apply andb_true_iff in H. destruct H as [H1 H2]. apply N.eqb_eq in H1. apply IH in H2. congruence.
  - inversion H; subst. apply andb_true_iff. split; [apply N.eqb_refl | apply IH; reflexivity].
Qed.

Lemma bytes_eqb_refl : forall a, bytes_eqb a a = true.
Proof. intro a. apply bytes_eqb_eq. reflexivity. Qed.

Lemma mem_In : forall k l, mem k l = true <-> In k l.
Proof.
  unfold mem. intros k l. rewrite existsb_exists. split.
  - intros [x [Hin He]]. apply bytes_eqb_eq in He. subst. exact Hin.
  - intro H. exists k. split; [exact H | apply bytes_eqb_refl].
Qed.

Lemma mem_false_not_In : forall k l, mem k l = false -> ~ In k l.
Proof. intros k l H Hin. apply mem_In in Hin. congruence. Qed.

(* ------------------------------------------------------------------ list surgery of the LRU *)
Lemma In_remove1 : forall k x l, In x (remove1 k l) -> In x l.
Proof.
  induction l as [|y l IH]; simpl; intro H; [exact H|].
  destruct (bytes_eqb k y); [right; exact H|].
  destruct H as [H|H]; [left; exact H | right; apply IH; exact H].
Qed.

Lemma In_touch : forall k x l, In x (touch k l) -> x = k \/ In x l.
Proof. unfold touch. intros k x l [H|H]; [left; congruence | right; eapply In_remove1; exact H]. Qed.

Lemma In_removelast' : forall (A : Type) (x : A) l, In x (removelast l) -> In x l.
Proof.
  induction l as [|y l IH]; simpl; intro H; [exact H|].
  destruct l as [|z l]; [contradiction|].
  destruct H as [H|H]; [left; exact H | right; apply IH; exact H].
Qed.

Lemma length_remove1_In : forall k l, In k l -> S (length (remove1 k l)) = length l.
Proof.
  induction l as [|y l IH]; simpl; intro H; [contradiction|].
  destruct (bytes_eqb k y) eqn:E; [reflexivity|].
  destruct H as [H|H].
  - subst. rewrite bytes_eqb_refl in E. discriminate.
  - simpl. rewrite IH by exact H. reflexivity.
Qed.

Lemma remove1_not_In : forall k l, NoDup l -> ~ In k (remove1 k l).
Proof.
  induction l as [|y l IH]; simpl; intros Hnd H; [exact H|].
  inversion Hnd as [|? ? Hy Hl]; subst.
  destruct (bytes_eqb k y) eqn:E.
  - apply bytes_eqb_eq in E. subst. contradiction.
  - destruct H as [H|H].
    + subst. rewrite bytes_eqb_refl in E. discriminate.
    + exact (IH Hl H).
Qed.

Lemma NoDup_remove1 : forall k l, NoDup l -> NoDup (remove1 k l).
Proof.
  induction l as [|y l IH]; simpl; intro Hnd; [constructor|].
  inversion Hnd as [|? ? Hy Hl]; subst.
  destruct (bytes_eqb k y); [exact Hl|].
  constructor; [intro H; apply Hy; eapply In_remove1; exact H | apply IH; exact Hl].
Qed.

Lemma NoDup_touch : forall k l, NoDup l -> NoDup (touch k l).
Proof.
  intros k l H. unfold touch. constructor; [apply remove1_not_In; exact H | apply NoDup_remove1; exact H].
Qed.

Lemma NoDup_removelast : forall (A : Type) (l : list A), NoDup l -> NoDup (removelast l).
Proof.
  induction l as [|y l IH]; simpl; intro H; [constructor|].
  destruct l as [|z l]; [constructor|].
  inversion H as [|? ? Hy Hl]; subst.
  constructor; [intro Hin; apply Hy; apply In_removelast'; exact Hin | apply IH; exact Hl].
Qed.

Lemma length_removelast : forall (A : Type) (l : list A), l <> [] -> S (length (removelast l)) = length l.
Proof.
  induction l as [|y l IH]; intro H; [congruence|].
  destruct l as [|z l]; [reflexivity|].
  change (S (S (length (removelast (z :: l)))) = S (length (z :: l))). rewrite IH by discriminate. reflexivity.
Qed.

(* ------------------------------------------------------------------ check / evict / insert *)
Lemma check_spec : forall k c hit c1, check k c = (hit, c1) ->
  cap c1 = cap c /\ (forall x, In x (order c1) -> In x (order c)) /\
  (hit = true <-> In k (order c)) /\ length (order c1) = length (order c) /\
  (NoDup (order c) -> NoDup (order c1)) /\ (hit = true -> In k (order c1)).
Proof.
  unfold check. intros k c hit c1 H. destruct (mem k (order c)) eqn:E; inversion H; subst; clear H; simpl.
  - apply mem_In in E. repeat split; auto.
    + intros x Hx. apply In_touch in Hx. destruct Hx; [subst; exact E | assumption].
    + unfold touch. simpl. apply length_remove1_In. exact E.
    + apply NoDup_touch.
  - repeat split; auto; try discriminate.
    intro Hin. apply mem_In in Hin. congruence.
Qed.

Lemma insert_spec : forall k c, (1 <= cap c)%nat ->
  exists c', insert k c = Some c' /\ cap c' = cap c /\
    (forall x, In x (order c') -> x = k \/ In x (order c)) /\ In k (order c') /\
    (length (order c) <= cap c -> length (order c') <= cap c)%nat /\
    (NoDup (order c) -> NoDup (order c')).
Proof.
  intros k c Hcap. unfold insert. destruct (mem k (order c)) eqn:E.
  - apply mem_In in E. eexists. split; [reflexivity|]. simpl. repeat split.
    + intros x Hx. apply In_touch in Hx. exact Hx.
    + left. reflexivity.
    + unfold touch. simpl. rewrite length_remove1_In by exact E. auto.
    + apply NoDup_touch.
  - pose proof (mem_false_not_In _ _ E) as Hni. unfold evict.
    destruct (Nat.ltb (length (order c)) (cap c)) eqn:L.
    + apply Nat.ltb_lt in L. eexists. split; [reflexivity|]. simpl. repeat split.
      * intros x [Hx|Hx]; [left; congruence | right; exact Hx].
      * left. reflexivity.
      * intros _. lia.
      * intro Hnd. constructor; assumption.
    + apply Nat.ltb_ge in L. destruct (order c) as [|y l] eqn:Eo.
      * simpl in L. lia.
      * eexists. split; [reflexivity|]. cbn [cap order]. repeat split.
        -- intros x [Hx|Hx]; [left; congruence | right; apply In_removelast'; exact Hx].
        -- left. reflexivity.
        -- intro Hle. change (S (length (removelast (y :: l))) <= cap c)%nat.
           rewrite length_removelast by discriminate. exact Hle.
        -- intro Hnd. constructor.
           ++ intro Hin. apply Hni. apply In_removelast'. exact Hin.
           ++ apply NoDup_removelast. exact Hnd.
Qed.

(* eviction only ever drops the least recently used entry, and only from a full cache *)
Lemma evict_spec : forall c c', evict c = Some c' ->
  cap c' = cap c /\
  ((length (order c) < cap c)%nat /\ order c' = order c \/
   (cap c <= length (order c))%nat /\ order c' = removelast (order c)).
Proof.
  unfold evict. intros c c' H. destruct (Nat.ltb (length (order c)) (cap c)) eqn:L.
  - inversion H; subst. apply Nat.ltb_lt in L. auto.
  - apply Nat.ltb_ge in L. destruct (order c) eqn:E; [discriminate|]. inversion H; subst. simpl. auto.
Qed.

(* ------------------------------------------------------------------ little-endian numbers *)
Lemma le_length : forall k n, length (le k n) = k.
Proof. induction k; simpl; intro n; [reflexivity | rewrite IHk; reflexivity]. Qed.

Lemma le_inj : forall k n m, (n < 256 ^ N.of_nat k)%N -> (m < 256 ^ N.of_nat k)%N -> le k n = le k m -> n = m.
Proof.
  induction k as [|k IH]; intros n m Hn Hm H.
  - simpl in Hn, Hm. lia.
  - rewrite Nat2N.inj_succ, N.pow_succ_r' in Hn, Hm. simpl in H. inversion H as [[H0 H1]].
    assert (Hq : (n / 256 = m / 256)%N).
    { apply IH; [apply N.div_lt_upper_bound; lia | apply N.div_lt_upper_bound; lia | exact H1]. }
    rewrite (N.div_mod n 256), (N.div_mod m 256) by lia. rewrite Hq, H0. reflexivity.
Qed.

Definition two64 : N := 18446744073709551616%N.
Lemma two64_pow : two64 = (256 ^ N.of_nat 8)%N.
Proof. reflexivity. Qed.

Lemma le64_inj : forall n m, (n < two64)%N -> (m < two64)%N -> le64 n = le64 m -> n = m.
Proof. intros n m Hn Hm. rewrite two64_pow in Hn, Hm. apply le_inj; assumption. Qed.

Lemma le64_length : forall n, length (le64 n) = 8%nat.
Proof. intro n. apply le_length. Qed.

Arguments le64 : simpl never.

Lemma app_inj_length : forall (A : Type) (a a' b b' : list A),
  length a = length a' -> a ++ b = a' ++ b' -> a = a' /\ b = b'.
Proof.
  induction a as [|x a IH]; destruct a' as [|y a']; simpl; intros b b' Hl H; try discriminate.
  - auto.
  - inversion H; subst. destruct (IH a' b b') as [E1 E2]; [lia | assumption |]. subst. auto.
Qed.

(* ------------------------------------------------------------------ well-formedness (sizes fit the encodings) *)
Definition wf_bytes (m : bytes) : Prop := (lenN m < two64)%N.
Definition wf_part (p : rid * bytes) : Prop := (fst p < two64)%N /\ wf_bytes (snd p).
Definition wf_sig (s : qsig) : Prop :=
  match s with
  | SMulti _ parts => (lenN parts < two64)%N /\ Forall wf_part parts
  | SBls ids _ => (lenN ids < two64)%N /\ Forall (fun i => (i < two64)%N) ids
  | SNil => True
  end.
Definition wf_batch (b : batch) : Prop := Forall wf_part b.
Definition wf_op (o : op) : Prop :=
  match o with
  | OSign _ (Some s) => wf_sig s
  | OSign _ None => True
  | OVerify s _ => wf_sig s
  | OBatch s b => wf_sig s /\ wf_batch b
  | OCombine _ => True
  end.

Lemma lenN_inj : forall (A : Type) (a b : list A), lenN a = lenN b -> length a = length b.
Proof. unfold lenN. intros. apply Nat2N.inj. assumption. Qed.

(* ------------------------------------------------------------------ framing is unambiguous *)
Lemma enc_part_inj_app : forall p p' r r', wf_part p -> wf_part p' ->
  enc_part p ++ r = enc_part p' ++ r' -> p = p' /\ r = r'.
Proof.
  intros [i m] [i' m'] r r' [Hi Hm] [Hi' Hm'] H. unfold enc_part in H. cbn [fst snd] in *.
  repeat rewrite <- app_assoc in H.
  apply app_inj_length in H; [|rewrite !le64_length; reflexivity]. destruct H as [H1 H].
  apply app_inj_length in H; [|rewrite !le64_length; reflexivity]. destruct H as [H2 H].
  apply le64_inj in H1; try assumption. apply le64_inj in H2; try assumption.
  apply lenN_inj in H2. apply app_inj_length in H; [|exact H2]. destruct H. subst. auto.
Qed.

Lemma enc_part_length : forall p, (16 <= length (enc_part p))%nat.
Proof. intro p. unfold enc_part. rewrite !app_length, !le64_length. lia. Qed.

Lemma enc_parts_inj_count : forall l l' r r', Forall wf_part l -> Forall wf_part l' ->
  length l = length l' -> enc_parts l ++ r = enc_parts l' ++ r' -> l = l' /\ r = r'.
Proof.
  unfold enc_parts. induction l as [|p l IH]; destruct l' as [|p' l']; cbn [map concat length app]; intros r r' Hw Hw' Hl H; try discriminate.
  - auto.
  - inversion Hw; inversion Hw'; subst. rewrite <- !app_assoc in H.
    apply enc_part_inj_app in H; try assumption. destruct H as [E H]. subst.
    apply IH in H; try assumption; [|lia]. destruct H. subst. auto.
Qed.

Lemma enc_parts_inj_end : forall l l', Forall wf_part l -> Forall wf_part l' ->
  enc_parts l = enc_parts l' -> l = l'.
Proof.
  unfold enc_parts. induction l as [|p l IH]; destruct l' as [|p' l']; cbn [map concat]; intros Hw Hw' H.
  - reflexivity.
  - apply (f_equal (@length N)) in H. rewrite app_length in H. pose proof (enc_part_length p'). cbn [length] in H. lia.
  - apply (f_equal (@length N)) in H. rewrite app_length in H. pose proof (enc_part_length p). cbn [length] in H. lia.
  - inversion Hw; inversion Hw'; subst.
    apply enc_part_inj_app in H; try assumption. destruct H as [E H]. subst. f_equal. apply IH; assumption.
Qed.

Lemma le64s_inj_count : forall l l' r r', Forall (fun i => (i < two64)%N) l -> Forall (fun i => (i < two64)%N) l' ->
  length l = length l' -> concat (map le64 l) ++ r = concat (map le64 l') ++ r' -> l = l' /\ r = r'.
Proof.
  induction l as [|i l IH]; destruct l' as [|i' l']; cbn [map concat length app]; intros r r' Hw Hw' Hl H; try discriminate.
  - auto.
  - inversion Hw; inversion Hw'; subst. rewrite <- !app_assoc in H.
    apply app_inj_length in H; [|rewrite !le64_length; reflexivity]. destruct H as [H1 H].
    apply le64_inj in H1; try assumption. subst.
    apply IH in H; try assumption; [|lia]. destruct H. subst. auto.
Qed.

Lemma some_cons_app_inj : forall (t t' : N) (a a' b b' : bytes),
  Some (t :: a ++ b) = Some (t' :: a' ++ b') -> length a = length a' -> t = t' /\ a = a' /\ b = b'.
Proof.
  intros t t' a a' b b' H Hl.
  assert (E : (t :: a) ++ b = (t' :: a') ++ b') by (cbn [app]; congruence).
  apply app_inj_length in E; [|cbn [length]; congruence]. destruct E as [E1 E2]. inversion E1. auto.
Qed.

Lemma enc_sig_inj : forall s s' e, wf_sig s -> wf_sig s' ->
  enc_sig s = Some e -> enc_sig s' = Some e -> s = s'.
Proof.
  intros s s' e Hw Hw' H H'. destruct s as [k parts|ids pt|]; destruct s' as [k' parts'|ids' pt'|];
    cbn [enc_sig wf_sig] in *; try discriminate; rewrite <- H' in H; clear H';
    apply some_cons_app_inj in H; try (rewrite !le64_length; reflexivity); destruct H as [Ht [H1 H2]].
  - destruct Hw as [Hn Hp]. destruct Hw' as [Hn' Hp'].
    apply le64_inj in H1; try assumption. apply lenN_inj in H1.
    assert (E : parts = parts').
    { destruct (enc_parts_inj_count parts parts' [] [] Hp Hp' H1) as [E _]; [rewrite !app_nil_r; exact H2 | exact E]. }
    subst. destruct k, k'; cbn [kind_tag] in Ht; try discriminate; reflexivity.
  - destruct k; discriminate.
  - destruct k'; discriminate.
  - destruct Hw as [Hn Hp]. destruct Hw' as [Hn' Hp'].
    apply le64_inj in H1; try assumption. apply lenN_inj in H1.
    apply le64s_inj_count in H2; try assumption. destruct H2. subst. reflexivity.
Qed.

(* ------------------------------------------------------------------ canon keeps sizes *)
Lemma In_ins_sorted : forall x y l, In x (ins_sorted y l) <-> x = y \/ In x l.
Proof.
  induction l as [|z l IH]; simpl.
  - split; intros [H|H]; auto; try contradiction.
  - destruct (y <=? z)%N; simpl.
    + split; intros [H|H]; auto.
    + rewrite IH. split; intros [H|[H|H]]; auto.
Qed.

Lemma In_sort_ids : forall x l, In x (sort_ids l) <-> In x l.
Proof.
  unfold sort_ids. induction l as [|y l IH]; simpl; [reflexivity|].
  rewrite In_ins_sorted, IH. split; intros [H|H]; auto.
Qed.

Lemma get_wf : forall id b, wf_batch b -> wf_bytes (get id b).
Proof.
  unfold wf_batch. induction b as [|[i m] b IH]; simpl; intro H.
  - unfold wf_bytes, lenN, two64. simpl. lia.
  - inversion H as [|? ? [_ Hm] Hb]; subst. destruct (N.eqb i id); [exact Hm | apply IH; exact Hb].
Qed.

Lemma canon_wf : forall b, wf_batch b -> wf_batch (canon b).
Proof.
  intros b H. unfold wf_batch, canon. apply Forall_forall. intros p Hp.
  apply in_map_iff in Hp. destruct Hp as [id [E Hin]]. subst p. split; simpl.
  - apply (proj1 (In_sort_ids _ _)) in Hin. apply in_map_iff in Hin. destruct Hin as [[i m] [E Hin]]. simpl in E. subst.
    unfold wf_batch in H. rewrite Forall_forall in H. exact (proj1 (H _ Hin)).
  - apply get_wf. exact H.
Qed.

(* ------------------------------------------------------------------ the repaired key determines what is verified *)
Section FixedKeys.
  Variable sha : bytes -> bytes.
  Hypothesis sha_inj : forall a b, sha a = sha b -> a = b.
  Hypothesis sha_len : forall a, length (sha a) = 32%nat.

  Lemma fixed_key_inj : forall t d s t' d' s' k, wf_sig s -> wf_sig s' ->
    length d = length d' ->
    fixed_key t d s = KKey k -> fixed_key t' d' s' = KKey k -> t = t' /\ d = d' /\ s = s'.
  Proof.
    unfold fixed_key. intros t d s t' d' s' k Hw Hw' Hl H H'.
    destruct (enc_sig s) as [e|] eqn:E; [|discriminate].
    destruct (enc_sig s') as [e'|] eqn:E'; [|discriminate].
    inversion H; subst k; clear H. inversion H' as [[Ht Hr]]; clear H'.
    apply app_inj_length in Hr; [|auto]. destruct Hr as [Hd He]. subst.
    repeat split; try reflexivity. eapply enc_sig_inj; eauto.
  Qed.

  Theorem fixed_verify_key_inj : forall s m s' m' k, wf_sig s -> wf_sig s' ->
    fixed_verify_key sha s m = KKey k -> fixed_verify_key sha s' m' = KKey k -> s = s' /\ m = m'.
  Proof.
    unfold fixed_verify_key. intros s m s' m' k Hw Hw' H H'.
    destruct (fixed_key_inj _ _ _ _ _ _ _ Hw Hw' (eq_trans (sha_len m) (eq_sym (sha_len m'))) H H') as [_ [Hd Hs]].
    split; [exact Hs | apply sha_inj; exact Hd].
  Qed.

  Theorem fixed_batch_key_inj : forall s b s' b' k, wf_sig s -> wf_sig s' -> wf_batch b -> wf_batch b' ->
    fixed_batch_key sha s b = KKey k -> fixed_batch_key sha s' b' = KKey k -> s = s' /\ canon b = canon b'.
  Proof.
    unfold fixed_batch_key. intros s b s' b' k Hw Hw' Hb Hb' H H'.
    destruct (fixed_key_inj _ _ _ _ _ _ _ Hw Hw' (eq_trans (sha_len _) (eq_sym (sha_len _))) H H') as [_ [Hd Hs]].
    split; [exact Hs|]. apply sha_inj in Hd.
    apply enc_parts_inj_end; [apply canon_wf; exact Hb | apply canon_wf; exact Hb' | exact Hd].
  Qed.

  Theorem fixed_verify_batch_disjoint : forall s m s' b' k,
    fixed_verify_key sha s m = KKey k -> fixed_batch_key sha s' b' = KKey k -> False.
  Proof.
    unfold fixed_verify_key, fixed_batch_key, fixed_key. intros s m s' b' k H H'.
    destruct (enc_sig s); [|discriminate]. destruct (enc_sig s'); [|discriminate].
    inversion H; subst k. inversion H'.
  Qed.

  Lemma fixed_never_panics : forall t d s, fixed_key t d s <> KPanic.
  Proof. unfold fixed_key. intros t d s. destruct (enc_sig s); discriminate. Qed.
End FixedKeys.

(* ------------------------------------------------------------------ transparency *)
Section Transparency.
  Variable Vv : qsig -> bytes -> verdict.
  Variable Vb : qsig -> batch -> verdict.
  Variable Vc : list qsig -> option qsig.
  Variable kd : keyderiv.

  (* equal keys mean equal verdicts of the uncached scheme *)
  Definition key_respects : Prop :=
    (forall s m s' m' k, wf_sig s -> wf_sig s' ->
       kd_verify kd s m = KKey k -> kd_verify kd s' m' = KKey k -> Vv s m = Vv s' m') /\
    (forall s b s' b' k, wf_sig s -> wf_sig s' -> wf_batch b -> wf_batch b' ->
       kd_batch kd s b = KKey k -> kd_batch kd s' b' = KKey k -> Vb s (canon b) = Vb s' (canon b')) /\
    (forall s m s' b' k, wf_sig s -> wf_sig s' -> wf_batch b' ->
       kd_verify kd s m = KKey k -> kd_batch kd s' b' = KKey k -> Vv s m = Vb s' (canon b')).
  Definition no_key_panic : Prop :=
    (forall s m, kd_verify kd s m <> KPanic) /\ (forall s b, kd_batch kd s b <> KPanic).

  (* the scheme accepts what it signed *)
  Definition sign_sound (o : op) : Prop :=
    match o with OSign m (Some s) => Vv s m = VAccept | _ => True end.

  (* every remembered key stands only for verifications the scheme accepts *)
  Definition key_valid (k : key) : Prop :=
    (forall s m, wf_sig s -> kd_verify kd s m = KKey k -> Vv s m = VAccept) /\
    (forall s b, wf_sig s -> wf_batch b -> kd_batch kd s b = KKey k -> Vb s (canon b) = VAccept).
  Definition cache_ok (c : lru) : Prop := forall k, In k (order c) -> key_valid k.

  Hypothesis Hresp : key_respects.
  Hypothesis Hnp : no_key_panic.

  Lemma verify_key_valid : forall s m k, wf_sig s -> kd_verify kd s m = KKey k -> Vv s m = VAccept -> key_valid k.
  Proof.
    intros s m k Hw Hk Hv. destruct Hresp as [R1 [_ R3]]. split.
    - intros s' m' Hw' Hk'. rewrite <- Hv. symmetry. eapply R1; eauto.
    - intros s' b' Hw' Hb' Hk'. rewrite <- Hv. symmetry. eapply R3; eauto.
  Qed.

  Lemma batch_key_valid : forall s b k, wf_sig s -> wf_batch b -> kd_batch kd s b = KKey k -> Vb s (canon b) = VAccept -> key_valid k.
  Proof.
    intros s b k Hw Hb Hk Hv. destruct Hresp as [_ [R2 R3]]. split.
    - intros s' m' Hw' Hk'. rewrite <- Hv. eapply R3; eauto.
    - intros s' b' Hw' Hb' Hk'. rewrite <- Hv. symmetry. eapply R2; eauto.
  Qed.

  (* common part of Verify and BatchVerify *)
  Lemma cached_verify_spec : forall kr v c,
    (1 <= cap c)%nat -> cache_ok c -> kr <> KPanic ->
    (forall k, kr = KKey k -> key_valid k -> v = VAccept) ->
    (forall k, kr = KKey k -> v = VAccept -> key_valid k) ->
    forall v' called c', cached_verify kr v c = (v', called, c') ->
      v' = v /\ cache_ok c' /\ cap c' = cap c /\
      (length (order c) <= cap c -> length (order c') <= cap c)%nat /\
      (NoDup (order c) -> NoDup (order c')).
  Proof.
    intros kr v c Hcap Hok Hnpk H1 H2 v' called c' H. unfold cached_verify in H.
    destruct kr as [k| |]; [| inversion H; subst; auto | congruence].
    destruct (check k c) as [hit c1] eqn:Ec.
    destruct (check_spec _ _ _ _ Ec) as [Hc1 [Hsub [Hhit [Hlen [Hnd _]]]]].
    assert (Hok1 : cache_ok c1) by (intros x Hx; apply Hok; apply Hsub; exact Hx).
    destruct hit.
    - inversion H; subst. assert (Hin : In k (order c)) by (apply Hhit; reflexivity).
      rewrite (H1 k eq_refl (Hok k Hin)). rewrite Hlen. auto.
    - destruct v.
      + assert (Hcap1 : (1 <= cap c1)%nat) by lia.
        destruct (insert_spec k c1 Hcap1) as [c2 [Ei [Hc2 [Hsub2 [_ [Hlen2 Hnd2]]]]]].
        rewrite Ei in H. inversion H; subst.
        split; [reflexivity|]. split.
        { intros x Hx. destruct (Hsub2 x Hx) as [E|Hin]; [subst; apply H2; reflexivity | apply Hok1; exact Hin]. }
        split; [congruence|]. split.
        { intro Hle. rewrite <- Hc1. apply Hlen2. lia. }
        { intro Hn. apply Hnd2. apply Hnd. exact Hn. }
      + inversion H; subst. rewrite Hlen. auto.
      + inversion H; subst. rewrite Hlen. auto.
  Qed.

  Definition step_out (x : out * bool * lru) : out := fst (fst x).
  Definition step_cache (x : out * bool * lru) : lru := snd x.

  Lemma cached_step_spec : forall c o, (1 <= cap c)%nat -> cache_ok c -> wf_op o -> sign_sound o ->
    step_out (cached_step Vv Vb Vc kd c o) = plain_step Vv Vb Vc o /\
    cache_ok (step_cache (cached_step Vv Vb Vc kd c o)) /\
    cap (step_cache (cached_step Vv Vb Vc kd c o)) = cap c /\
    (length (order c) <= cap c -> length (order (step_cache (cached_step Vv Vb Vc kd c o))) <= cap c)%nat /\
    (NoDup (order c) -> NoDup (order (step_cache (cached_step Vv Vb Vc kd c o)))).
  Proof.
    intros c o Hcap Hok Hwf Hss. destruct Hnp as [Np1 Np2]. destruct o as [m r|s m|s b|ss]; simpl.
    - destruct r as [s|]; [|unfold step_out, step_cache; simpl; auto].
      simpl in Hwf, Hss. destruct (kd_verify kd s m) as [k| |] eqn:Ek.
      + destruct (insert_spec k c Hcap) as [c' [Ei [Hc' [Hsub [_ [Hlen Hnd]]]]]]. rewrite Ei.
        unfold step_out, step_cache; simpl.
        split; [reflexivity|]. split; [|auto].
        intros x Hx. destruct (Hsub x Hx) as [E|Hin]; [subst; eapply verify_key_valid; eauto | apply Hok; exact Hin].
      + unfold step_out, step_cache; simpl. auto.
      + exfalso. exact (Np1 _ _ Ek).
    - simpl in Hwf. destruct (cached_verify (kd_verify kd s m) (Vv s m) c) as [[v' called] c'] eqn:E.
      apply cached_verify_spec in E; auto.
      + destruct E as [Ev [Hok' [Hc' [Hl Hn]]]]. subst. unfold step_out, step_cache; simpl. auto.
      + intros k Hk [Hv _]. apply Hv; assumption.
      + intros k Hk Hv. eapply verify_key_valid; eauto.
    - simpl in Hwf. destruct Hwf as [Hws Hwb].
      destruct (cached_verify (kd_batch kd s b) (Vb s (canon b)) c) as [[v' called] c'] eqn:E.
      apply cached_verify_spec in E; auto.
      + destruct E as [Ev [Hok' [Hc' [Hl Hn]]]]. subst. unfold step_out, step_cache; simpl. auto.
      + intros k Hk [_ Hv]. apply Hv; assumption.
      + intros k Hk Hv. eapply batch_key_valid; eauto.
    - unfold step_out, step_cache; simpl. auto.
  Qed.


  Lemma run_cached_step : forall c o ops,
    run_cached Vv Vb Vc kd c (o :: ops) =
      (step_out (cached_step Vv Vb Vc kd c o), snd (fst (cached_step Vv Vb Vc kd c o)),
       length (order (step_cache (cached_step Vv Vb Vc kd c o))))
      :: run_cached Vv Vb Vc kd (step_cache (cached_step Vv Vb Vc kd c o)) ops.
  Proof. intros. simpl. destruct (cached_step Vv Vb Vc kd c o) as [[x called] c']. reflexivity. Qed.

  Lemma final_cache_step : forall c o ops,
    final_cache Vv Vb Vc kd c (o :: ops) = final_cache Vv Vb Vc kd (step_cache (cached_step Vv Vb Vc kd c o)) ops.
  Proof. intros. simpl. destruct (cached_step Vv Vb Vc kd c o) as [[x called] c']. reflexivity. Qed.

  Theorem transparent_from : forall ops c, (1 <= cap c)%nat -> cache_ok c ->
    Forall wf_op ops -> Forall sign_sound ops ->
    outs (run_cached Vv Vb Vc kd c ops) = run_plain Vv Vb Vc ops.
  Proof.
    induction ops as [|o ops IH]; intros c Hcap Hok Hwf Hss; [reflexivity|].
    inversion Hwf; inversion Hss; subst.
    destruct (cached_step_spec c o Hcap Hok) as [Ho [Hok' [Hc' _]]]; try assumption.
    rewrite run_cached_step. unfold outs, run_plain in *. simpl. rewrite Ho. f_equal.
    apply IH; try assumption. lia.
  Qed.

  Theorem cache_transparent_gen : forall cp ops, (1 <= cp)%nat ->
    Forall wf_op ops -> Forall sign_sound ops ->
    outs (run_cached Vv Vb Vc kd (empty cp) ops) = run_plain Vv Vb Vc ops.
  Proof.
    intros cp ops Hcp Hwf Hss. apply transparent_from; auto. intros k Hk. simpl in Hk. contradiction.
  Qed.

  (* the verdict does not depend on what the cache currently remembers: dropping entries
     (eviction) only turns hits into recomputations *)
  Theorem evict_harmless_gen : forall c c' ops, (1 <= cap c)%nat -> (1 <= cap c')%nat -> cache_ok c ->
    (forall k, In k (order c') -> In k (order c)) ->
    Forall wf_op ops -> Forall sign_sound ops ->
    outs (run_cached Vv Vb Vc kd c' ops) = outs (run_cached Vv Vb Vc kd c ops).
  Proof.
    intros c c' ops Hc Hc' Hok Hsub Hwf Hss.
    rewrite (transparent_from ops c), (transparent_from ops c'); auto.
    intros k Hk. apply Hok. apply Hsub. exact Hk.
  Qed.

  Theorem cache_bounded_gen : forall ops c, (1 <= cap c)%nat -> cache_ok c ->
    Forall wf_op ops -> Forall sign_sound ops ->
    (length (order c) <= cap c)%nat -> NoDup (order c) ->
    let c' := final_cache Vv Vb Vc kd c ops in
    cap c' = cap c /\ (length (order c') <= cap c)%nat /\ NoDup (order c').
  Proof.
    induction ops as [|o ops IH]; intros c Hcap Hok Hwf Hss Hlen Hnd; [simpl; auto|].
    inversion Hwf as [|? ? Hw1 Hw2]; inversion Hss as [|? ? Hs1 Hs2]; subst.
    destruct (cached_step_spec c o Hcap Hok Hw1 Hs1) as [_ [Hok' [Hc' [Hl Hn]]]].
    rewrite final_cache_step.
    assert (A1 : (1 <= cap (step_cache (cached_step Vv Vb Vc kd c o)))%nat) by (rewrite Hc'; exact Hcap).
    assert (A2 : (length (order (step_cache (cached_step Vv Vb Vc kd c o))) <= cap (step_cache (cached_step Vv Vb Vc kd c o)))%nat)
      by (rewrite Hc'; apply Hl; exact Hlen).
    destruct (IH (step_cache (cached_step Vv Vb Vc kd c o)) A1 Hok' Hw2 Hs2 A2 (Hn Hnd)) as [E1 [E2 E3]].
    cbv zeta. rewrite E1, Hc'. rewrite Hc' in E2. auto.
  Qed.

  (* the cache does cache: an accepted verification is answered without the scheme when repeated *)
  Theorem hit_after_accept : forall c s m k, (1 <= cap c)%nat ->
    kd_verify kd s m = KKey k -> Vv s m = VAccept ->
    let c1 := step_cache (cached_step Vv Vb Vc kd c (OVerify s m)) in
    fst (cached_step Vv Vb Vc kd c1 (OVerify s m)) = (OutV VAccept, false).
  Proof.
    intros c s m k Hcap Hk Hv. simpl. rewrite Hk, Hv. unfold cached_verify.
    destruct (check k c) as [hit c0] eqn:Ec. destruct (check_spec _ _ _ _ Ec) as [Hc0 [_ [_ [_ [_ Hin0]]]]].
    assert (Hin1 : exists c1, (if hit then (VAccept, false, c0)
              else match insert k c0 with Some c2 => (VAccept, true, c2) | None => (VPanic, true, c0) end) = (VAccept, negb hit, c1)
              /\ In k (order c1)).
    { destruct hit.
      - exists c0. split; [reflexivity | apply Hin0; reflexivity].
      - assert (Hcap0 : (1 <= cap c0)%nat) by lia.
        destruct (insert_spec k c0 Hcap0) as [c2 [Ei [_ [_ [Hin2 _]]]]]. rewrite Ei. exists c2. auto. }
    destruct Hin1 as [c1 [E Hin1]]. rewrite E. unfold step_cache. simpl.
    unfold check. apply mem_In in Hin1. rewrite Hin1. reflexivity.
  Qed.
End Transparency.

(* ------------------------------------------------------------------ a membership that grows *)
(* what was accepted stays accepted (adding replicas never invalidates a signature) *)
Definition grows (S1 S2 : scheme) : Prop :=
  (forall s m, sv S1 s m = VAccept -> sv S2 s m = VAccept) /\
  (forall s b, sb S1 s b = VAccept -> sb S2 s b = VAccept).
Fixpoint growing (l : list scheme) : Prop :=
  match l with
  | S1 :: ((S2 :: _) as r) => grows S1 S2 /\ growing r
  | _ => True
  end.
Definition epoch_ok (e : scheme * list op) : Prop :=
  Forall wf_op (snd e) /\ Forall (sign_sound (sv (fst e))) (snd e).

Section Epochs.
  Variable kd : keyderiv.
  Hypothesis Hresp : forall Sc, key_respects (sv Sc) (sb Sc) kd.
  Hypothesis Hnp : no_key_panic kd.

  Lemma cache_ok_grows : forall S1 S2 c, grows S1 S2 ->
    cache_ok (sv S1) (sb S1) kd c -> cache_ok (sv S2) (sb S2) kd c.
  Proof.
    intros S1 S2 c [G1 G2] Hok k Hk. destruct (Hok k Hk) as [A B]. split.
    - intros s m Hw He. apply G1. apply A; assumption.
    - intros s b Hw Hb He. apply G2. apply B; assumption.
  Qed.

  Lemma final_cache_ok : forall Sc ops c, (1 <= cap c)%nat -> cache_ok (sv Sc) (sb Sc) kd c ->
    Forall wf_op ops -> Forall (sign_sound (sv Sc)) ops ->
    cache_ok (sv Sc) (sb Sc) kd (final_cache (sv Sc) (sb Sc) (sc Sc) kd c ops) /\
    cap (final_cache (sv Sc) (sb Sc) (sc Sc) kd c ops) = cap c.
  Proof.
    intros Sc. induction ops as [|o ops IH]; intros c Hcap Hok Hwf Hss; [simpl; auto|].
    inversion Hwf as [|? ? Hw1 Hw2]; inversion Hss as [|? ? Hs1 Hs2]; subst.
    destruct (cached_step_spec (sv Sc) (sb Sc) (sc Sc) kd (Hresp Sc) Hnp c o Hcap Hok Hw1 Hs1) as [_ [Hok' [Hc' _]]].
    rewrite final_cache_step.
    destruct (IH (step_cache (cached_step (sv Sc) (sb Sc) (sc Sc) kd c o))) as [E1 E2]; try assumption; [lia|].
    split; [exact E1 | congruence].
  Qed.

  Theorem transparent_epochs_from : forall es c, (1 <= cap c)%nat ->
    match es with e :: _ => cache_ok (sv (fst e)) (sb (fst e)) kd c | [] => True end ->
    Forall epoch_ok es -> growing (map fst es) ->
    run_epochs kd c es = run_plain_epochs es.
  Proof.
    induction es as [|[Sc ops] es IH]; intros c Hcap Hok Hep Hg; [reflexivity|].
    inversion Hep as [|? ? [Hwf Hss] Hep']; subst. simpl in Hwf, Hss, Hok.
    cbn [run_epochs run_plain_epochs].
    rewrite (transparent_from (sv Sc) (sb Sc) (sc Sc) kd (Hresp Sc) Hnp ops c Hcap Hok Hwf Hss). f_equal.
    destruct (final_cache_ok Sc ops c Hcap Hok Hwf Hss) as [Hok' Hc'].
    apply IH; [lia | | exact Hep' |].
    - destruct es as [|[S2 ops2] es']; [exact I|]. simpl. simpl in Hg. destruct Hg as [G _].
      eapply cache_ok_grows; eauto.
    - destruct es as [|[S2 ops2] es']; [exact I|]. simpl in Hg. destruct Hg as [_ G]. exact G.
  Qed.

  Theorem transparent_epochs : forall cp es, (1 <= cp)%nat ->
    Forall epoch_ok es -> growing (map fst es) ->
    run_epochs kd (empty cp) es = run_plain_epochs es.
  Proof.
    intros cp es Hcp Hep Hg. apply transparent_epochs_from; auto.
    destruct es as [|e es]; [exact I|]. intros k Hk. simpl in Hk. contradiction.
  Qed.
End Epochs.

(* ------------------------------------------------------------------ the repaired derivation is transparent for every scheme *)
Section Fixed.
  Variable sha : bytes -> bytes.
  Hypothesis sha_inj : forall a b, sha a = sha b -> a = b.
  Hypothesis sha_len : forall a, length (sha a) = 32%nat.
  Variable Vv : qsig -> bytes -> verdict.
  Variable Vb : qsig -> batch -> verdict.
  Variable Vc : list qsig -> option qsig.

  Theorem key_injective :
    (forall s m s' m' k, wf_sig s -> wf_sig s' ->
       fixed_verify_key sha s m = KKey k -> fixed_verify_key sha s' m' = KKey k -> s = s' /\ m = m') /\
    (forall s b s' b' k, wf_sig s -> wf_sig s' -> wf_batch b -> wf_batch b' ->
       fixed_batch_key sha s b = KKey k -> fixed_batch_key sha s' b' = KKey k -> s = s' /\ canon b = canon b') /\
    (forall s m s' b' k, fixed_verify_key sha s m = KKey k -> fixed_batch_key sha s' b' = KKey k -> False).
  Proof.
    split; [exact (fixed_verify_key_inj sha sha_inj sha_len) | split;
      [exact (fixed_batch_key_inj sha sha_inj sha_len) | exact (fixed_verify_batch_disjoint sha)]].
  Qed.

  Lemma fixed_respects : key_respects Vv Vb (fixed_kd sha).
  Proof.
    repeat split; simpl.
    - intros s m s' m' k Hw Hw' H H'.
      destruct (fixed_verify_key_inj sha sha_inj sha_len _ _ _ _ _ Hw Hw' H H'). subst. reflexivity.
    - intros s b s' b' k Hw Hw' Hb Hb' H H'.
      destruct (fixed_batch_key_inj sha sha_inj sha_len _ _ _ _ _ Hw Hw' Hb Hb' H H') as [E1 E2]. subst. rewrite E2. reflexivity.
    - intros s m s' b' k _ _ _ H H'. exfalso. eapply fixed_verify_batch_disjoint; eauto.
  Qed.

  Lemma fixed_no_panic : no_key_panic (fixed_kd sha).
  Proof. split; simpl; intros; apply fixed_never_panics. Qed.

  Theorem cache_transparent : forall cp ops, (1 <= cp)%nat ->
    Forall wf_op ops -> Forall (sign_sound Vv) ops ->
    outs (run_cached Vv Vb Vc (fixed_kd sha) (empty cp) ops) = run_plain Vv Vb Vc ops.
  Proof. intros. apply cache_transparent_gen; auto using fixed_respects, fixed_no_panic. Qed.

  Theorem evict_harmless : forall c c' ops, (1 <= cap c)%nat -> (1 <= cap c')%nat ->
    cache_ok Vv Vb (fixed_kd sha) c -> (forall k, In k (order c') -> In k (order c)) ->
    Forall wf_op ops -> Forall (sign_sound Vv) ops ->
    outs (run_cached Vv Vb Vc (fixed_kd sha) c' ops) = outs (run_cached Vv Vb Vc (fixed_kd sha) c ops).
  Proof. intros. apply evict_harmless_gen; auto using fixed_respects, fixed_no_panic. Qed.

  Theorem cache_bounded : forall cp ops, (1 <= cp)%nat ->
    Forall wf_op ops -> Forall (sign_sound Vv) ops ->
    let c' := final_cache Vv Vb Vc (fixed_kd sha) (empty cp) ops in
    cap c' = cp /\ (length (order c') <= cp)%nat /\ NoDup (order c').
  Proof.
    intros cp ops Hcp Hwf Hss.
    apply (cache_bounded_gen Vv Vb Vc (fixed_kd sha) fixed_respects fixed_no_panic ops (empty cp)); auto.
    - intros k Hk. simpl in Hk. contradiction.
    - simpl. lia.
    - simpl. constructor.
  Qed.
End Fixed.

Section FixedEpochs.
  Variable sha : bytes -> bytes.
  Hypothesis sha_inj : forall a b, sha a = sha b -> a = b.
  Hypothesis sha_len : forall a, length (sha a) = 32%nat.

  Theorem cache_transparent_growing : forall cp es, (1 <= cp)%nat ->
    Forall epoch_ok es -> growing (map fst es) ->
    run_epochs (fixed_kd sha) (empty cp) es = run_plain_epochs es.
  Proof.
    intros. apply transparent_epochs; auto.
    - intro Sc. apply fixed_respects; assumption.
    - apply fixed_no_panic.
  Qed.
End FixedEpochs.

(* ------------------------------------------------------------------ the derivations of the tree as found are not transparent *)
Definition batch_eqb : batch -> batch -> bool := list_eqb part_eqb.
(* toy schemes: accept exactly one (signature, message) resp. (signature, batch) *)
Definition toy_Vv (s0 : qsig) (m0 : bytes) : qsig -> bytes -> verdict :=
  fun s m => if qsig_eqb s s0 && bytes_eqb m m0 then VAccept else VReject.
Definition toy_Vb (s0 : qsig) (b0 : batch) : qsig -> batch -> verdict :=
  fun s b => if qsig_eqb s s0 && batch_eqb b b0 then VAccept else VReject.
Definition no_Vv : qsig -> bytes -> verdict := fun _ _ => VReject.
Definition no_Vb : qsig -> batch -> verdict := fun _ _ => VReject.
Definition no_Vc : list qsig -> option qsig := fun _ => None.

Definition key_of (kd : keyderiv) (o : op) : keyres :=
  match o with
  | OVerify s m => kd_verify kd s m
  | OBatch s b => kd_batch kd s b
  | _ => KBypass
  end.

(* two verifications with the same key, the first accepted and the second rejected by the
   scheme: the cache answers the second one from memory *)
Lemma collision_breaks : forall Vv Vb Vc kd o1 o2 k,
  key_of kd o1 = KKey k -> key_of kd o2 = KKey k ->
  plain_step Vv Vb Vc o1 = OutV VAccept -> plain_step Vv Vb Vc o2 = OutV VReject ->
  outs (run_cached Vv Vb Vc kd (empty 1) [o1; o2]) = [OutV VAccept; OutV VAccept] /\
  run_plain Vv Vb Vc [o1; o2] = [OutV VAccept; OutV VReject].
Proof.
  intros Vv Vb Vc kd o1 o2 k K1 K2 P1 P2. split; [|unfold run_plain; simpl; rewrite P1, P2; reflexivity].
  destruct o1 as [m1 r1|s1 m1|s1 b1|ss1]; simpl in K1; try discriminate;
  destruct o2 as [m2 r2|s2 m2|s2 b2|ss2]; simpl in K2; try discriminate;
  simpl in P1, P2; inversion P1 as [P1']; inversion P2 as [P2'];
  unfold outs; simpl; rewrite K1, K2, P1', ?P2'; unfold cached_verify, check, insert, evict; simpl;
  rewrite bytes_eqb_refl; reflexivity.
Qed.

Ltac solve_wf := repeat (split || constructor); try (vm_compute; reflexivity).

Section Legacy.
  Variable sha : bytes -> bytes.

  (* (b) the key omits the claimed signers: bytes remembered for signers {1,2} are accepted
         when relabelled to {3,4} *)
  Definition w_sig12 : qsig := SMulti KEcdsa [(1%N, [7%N]); (2%N, [8%N])].
  Definition w_sig34 : qsig := SMulti KEcdsa [(3%N, [7%N]); (4%N, [8%N])].
  Definition w_msg : bytes := [97%N; 98%N].

  Theorem legacy_signers_refuted :
    exists Vv Vb Vc cp ops, (1 <= cp)%nat /\ Forall wf_op ops /\ Forall (sign_sound Vv) ops /\
      outs (run_cached Vv Vb Vc (legacy_kd sha) (empty cp) ops) <> run_plain Vv Vb Vc ops.
  Proof.
    exists (toy_Vv w_sig12 w_msg), no_Vb, no_Vc, 1%nat, [OVerify w_sig12 w_msg; OVerify w_sig34 w_msg].
    split; [lia|]. split; [solve_wf|]. split; [repeat constructor|].
    destruct (collision_breaks (toy_Vv w_sig12 w_msg) no_Vb no_Vc (legacy_kd sha)
                (OVerify w_sig12 w_msg) (OVerify w_sig34 w_msg) (sha w_msg ++ [7%N; 8%N])) as [E1 E2];
      try reflexivity.
    rewrite E1, E2. discriminate.
  Qed.

  (* the same bytes split differently between the two signers *)
  Definition w_sig_ab_c : qsig := SMulti KEddsa [(1%N, [7%N; 8%N]); (2%N, [9%N])].
  Definition w_sig_a_bc : qsig := SMulti KEddsa [(1%N, [7%N]); (2%N, [8%N; 9%N])].
  Theorem legacy_signature_split_refuted :
    exists Vv Vb Vc cp ops, (1 <= cp)%nat /\ Forall wf_op ops /\ Forall (sign_sound Vv) ops /\
      outs (run_cached Vv Vb Vc (legacy_kd sha) (empty cp) ops) <> run_plain Vv Vb Vc ops.
  Proof.
    exists (toy_Vv w_sig_ab_c w_msg), no_Vb, no_Vc, 1%nat, [OVerify w_sig_ab_c w_msg; OVerify w_sig_a_bc w_msg].
    split; [lia|]. split; [solve_wf|]. split; [repeat constructor|].
    destruct (collision_breaks (toy_Vv w_sig_ab_c w_msg) no_Vb no_Vc (legacy_kd sha)
                (OVerify w_sig_ab_c w_msg) (OVerify w_sig_a_bc w_msg) (sha w_msg ++ [7%N; 8%N; 9%N])) as [E1 E2];
      try reflexivity.
    rewrite E1, E2. discriminate.
  Qed.

  (* (a) hasher.Sum(hash[:]) leaves the digest zero: a signature remembered for one batch is
         accepted for any other batch *)
  Definition w_batch1 : batch := [(1%N, [97%N; 98%N]); (2%N, [99%N])].
  Definition w_batch2 : batch := [(1%N, [100%N]); (2%N, [101%N])].
  Theorem legacy_batch_digest_refuted :
    exists Vv Vb Vc cp ops, (1 <= cp)%nat /\ Forall wf_op ops /\ Forall (sign_sound Vv) ops /\
      outs (run_cached Vv Vb Vc (legacy_kd sha) (empty cp) ops) <> run_plain Vv Vb Vc ops.
  Proof.
    exists no_Vv, (toy_Vb w_sig12 w_batch1), no_Vc, 1%nat, [OBatch w_sig12 w_batch1; OBatch w_sig12 w_batch2].
    split; [lia|]. split; [solve_wf|]. split; [repeat constructor|].
    destruct (collision_breaks no_Vv (toy_Vb w_sig12 w_batch1) no_Vc (legacy_kd sha)
                (OBatch w_sig12 w_batch1) (OBatch w_sig12 w_batch2) (repeat 0%N 32 ++ [7%N; 8%N])) as [E1 E2];
      try reflexivity.
    rewrite E1, E2. discriminate.
  Qed.

  (* (c) even with the digest computed as intended, the bare concatenation of the messages does
         not determine the batch: {1:"ab",2:"c"} and {1:"a",2:"bc"} share a key *)
  Definition w_batch3 : batch := [(1%N, [97%N]); (2%N, [98%N; 99%N])].
  Theorem intended_batch_split_refuted :
    exists Vv Vb Vc cp ops, (1 <= cp)%nat /\ Forall wf_op ops /\ Forall (sign_sound Vv) ops /\
      outs (run_cached Vv Vb Vc (intended_kd sha) (empty cp) ops) <> run_plain Vv Vb Vc ops.
  Proof.
    exists no_Vv, (toy_Vb w_sig12 w_batch1), no_Vc, 1%nat, [OBatch w_sig12 w_batch1; OBatch w_sig12 w_batch3].
    split; [lia|]. split; [solve_wf|]. split; [repeat constructor|].
    destruct (collision_breaks no_Vv (toy_Vb w_sig12 w_batch1) no_Vc (intended_kd sha)
                (OBatch w_sig12 w_batch1) (OBatch w_sig12 w_batch3) (sha [97%N; 98%N; 99%N] ++ [7%N; 8%N])) as [E1 E2];
      try reflexivity.
    rewrite E1, E2. discriminate.
  Qed.

  (* a single-message verification and a batch verification share a key: a multi-signature by
     {1,2} on m, remembered by Verify, is accepted by BatchVerify for the batch {1:m}, which
     the schemes reject (signer 2 has no message) *)
  Definition w_batch_m : batch := [(1%N, w_msg)].
  Theorem intended_verify_as_batch_refuted :
    exists Vv Vb Vc cp ops, (1 <= cp)%nat /\ Forall wf_op ops /\ Forall (sign_sound Vv) ops /\
      outs (run_cached Vv Vb Vc (intended_kd sha) (empty cp) ops) <> run_plain Vv Vb Vc ops.
  Proof.
    exists (toy_Vv w_sig12 w_msg), no_Vb, no_Vc, 1%nat, [OVerify w_sig12 w_msg; OBatch w_sig12 w_batch_m].
    split; [lia|]. split; [solve_wf|]. split; [repeat constructor|].
    destruct (collision_breaks (toy_Vv w_sig12 w_msg) no_Vb no_Vc (intended_kd sha)
                (OVerify w_sig12 w_msg) (OBatch w_sig12 w_batch_m) (sha w_msg ++ [7%N; 8%N])) as [E1 E2];
      try reflexivity.
    rewrite E1, E2. discriminate.
  Qed.

  (* after the first patch alone the signers are still missing from the key *)
  Theorem p1_signers_refuted :
    exists Vv Vb Vc cp ops, (1 <= cp)%nat /\ Forall wf_op ops /\ Forall (sign_sound Vv) ops /\
      outs (run_cached Vv Vb Vc (p1_kd sha) (empty cp) ops) <> run_plain Vv Vb Vc ops.
  Proof.
    exists (toy_Vv w_sig12 w_msg), no_Vb, no_Vc, 1%nat, [OVerify w_sig12 w_msg; OVerify w_sig34 w_msg].
    split; [lia|]. split; [solve_wf|]. split; [repeat constructor|].
    destruct (collision_breaks (toy_Vv w_sig12 w_msg) no_Vb no_Vc (p1_kd sha)
                (OVerify w_sig12 w_msg) (OVerify w_sig34 w_msg) (sha w_msg ++ [7%N; 8%N])) as [E1 E2];
      try reflexivity.
    rewrite E1, E2. discriminate.
  Qed.

  (* a nil signature: the cache calls ToBytes() on it, the schemes reject it *)
  Theorem legacy_nil_refuted :
    exists Vv Vb Vc cp ops, (1 <= cp)%nat /\ Forall wf_op ops /\ Forall (sign_sound Vv) ops /\
      outs (run_cached Vv Vb Vc (legacy_kd sha) (empty cp) ops) <> run_plain Vv Vb Vc ops.
  Proof.
    exists no_Vv, no_Vb, no_Vc, 1%nat, [OVerify SNil w_msg].
    split; [lia|]. split; [solve_wf|]. split; [repeat constructor|].
    unfold outs, run_plain. simpl. discriminate.
  Qed.

  (* key_injective fails for the legacy keys *)
  Theorem legacy_key_not_injective :
    (exists s s' m, s <> s' /\ legacy_verify_key sha s m = legacy_verify_key sha s' m) /\
    (exists s b b', canon b <> canon b' /\ legacy_batch_key s b = legacy_batch_key s b') /\
    (exists s b b', canon b <> canon b' /\ intended_batch_key sha s b = intended_batch_key sha s b').
  Proof.
    split; [|split].
    - exists w_sig12, w_sig34, w_msg. split; [discriminate | reflexivity].
    - exists w_sig12, w_batch1, w_batch2. split; [discriminate | reflexivity].
    - exists w_sig12, w_batch1, w_batch3. split; [discriminate | reflexivity].
  Qed.
End Legacy.

(* ------------------------------------------------------------------ the stand-in digest satisfies the hypotheses made about SHA-256 *)
Lemma pow2_odd_inj : forall x x' y y', (2 ^ x * (2 * y + 1) = 2 ^ x' * (2 * y' + 1))%N -> x = x' /\ y = y'.
Proof.
  intro x. induction x as [|x IH] using N.peano_ind; intros x' y y' H.
  - destruct (N.eq_dec x' 0) as [E|E].
    + subst. rewrite !N.pow_0_r in H. lia.
    + rewrite <- (N.succ_pred x' E) in H. rewrite N.pow_0_r, N.pow_succ_r' in H.
      remember (2 ^ N.pred x' * (2 * y' + 1))%N as T. lia.
  - destruct (N.eq_dec x' 0) as [E|E].
    + subst. rewrite N.pow_0_r, N.pow_succ_r' in H. remember (2 ^ x * (2 * y + 1))%N as T. lia.
    + rewrite <- (N.succ_pred x' E) in H. rewrite !N.pow_succ_r' in H.
      destruct (IH (N.pred x') y y') as [E1 E2]; [lia|]. split; [|exact E2].
      rewrite <- (N.succ_pred x' E). rewrite E1. reflexivity.
Qed.

Lemma godel_pos : forall x r, (0 < godel (x :: r))%N.
Proof.
  intros x r. simpl. assert (0 < 2 ^ x)%N by (apply N.neq_0_lt_0; apply N.pow_nonzero; lia). nia.
Qed.

Lemma godel_inj : forall a b, godel a = godel b -> a = b.
Proof.
  induction a as [|x a IH]; destruct b as [|y b]; intro H.
  - reflexivity.
  - pose proof (godel_pos y b). simpl godel at 1 in H. lia.
  - pose proof (godel_pos x a). simpl godel at 2 in H. lia.
  - simpl in H. apply pow2_odd_inj in H. destruct H as [E1 E2]. subst. f_equal. apply IH. exact E2.
Qed.

Lemma sha_toy_inj : forall a b, sha_toy a = sha_toy b -> a = b.
Proof. unfold sha_toy. intros a b H. inversion H as [H1]. apply godel_inj. lia. Qed.

Lemma sha_toy_len : forall a, length (sha_toy a) = 32%nat.
Proof. reflexivity. Qed.

From Coq Require Import ZArith Lia.
From HS Require Import Quorum.QuorumModel.
Open Scope Z_scope.
Ltac Zify.zify_post_hook ::= Z.div_mod_to_equations.

Lemma num_faulty_div n : 1 <= n -> num_faulty n = (n - 1) / 3.
Proof. intros Hn. unfold num_faulty. apply Z.quot_div_nonneg; lia. Qed.

(* f is the largest integer with 3f < n *)
Lemma f_largest n : 1 <= n -> 3 * num_faulty n < n /\ n <= 3 * num_faulty n + 3.
Proof. intros Hn. rewrite num_faulty_div by lia. lia. Qed.

Lemma f_largest_max n f' : 1 <= n -> 3 * f' < n -> f' <= num_faulty n.
Proof. intros Hn Hf. rewrite num_faulty_div by lia. lia. Qed.

Lemma f_nonneg n : 1 <= n -> 0 <= num_faulty n.
Proof. intros Hn. rewrite num_faulty_div by lia. lia. Qed.

Lemma q_intersect n : 1 <= n -> 2 * quorum_size n - n >= num_faulty n + 1.
Proof. intros Hn. unfold quorum_size, ceil_half. rewrite num_faulty_div by lia. lia. Qed.

Lemma q_available n : 1 <= n -> quorum_size n <= n - num_faulty n.
Proof. intros Hn. unfold quorum_size, ceil_half. rewrite num_faulty_div by lia. lia. Qed.

Lemma q_minimal n q' : 1 <= n -> 2 * q' - n >= num_faulty n + 1 -> quorum_size n <= q'.
Proof. intros Hn Hq. unfold quorum_size, ceil_half in *. rewrite num_faulty_div in * by lia. lia. Qed.

Lemma q_pos n : 1 <= n -> 1 <= quorum_size n <= n.
Proof. intros Hn. unfold quorum_size, ceil_half. rewrite num_faulty_div by lia. lia. Qed.

(* ceil_half is the integer ceiling of x/2 *)
Lemma ceil_half_spec x : 2 * ceil_half x >= x /\ 2 * ceil_half x <= x + 1.
Proof. unfold ceil_half. lia. Qed.

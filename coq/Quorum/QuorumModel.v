(* Model of /repo/quorum.go: NumFaulty, QuorumSize. No proofs here. *)
From Coq Require Import ZArith.
Open Scope Z_scope.

(* func NumFaulty(n int) int { return (n - 1) / 3 }   -- Go's / truncates toward zero;
   for n >= 1 the dividend is non-negative and truncation = floor. *)
Definition num_faulty (n : Z) : Z := Z.quot (n - 1) 3.

(* func QuorumSize(n int) int { f := NumFaulty(n); return int(math.Ceil(float64(n+f+1) / 2.0)) }
   Division by 2.0 is exact in float64 and int->float64 is exact below 2^53, so for
   0 <= n+f+1 < 2^53 the result is the integer ceiling of (n+f+1)/2.  *)
Definition ceil_half (x : Z) : Z := (x + 1) / 2.
Definition quorum_size (n : Z) : Z := ceil_half (n + num_faulty n + 1).

(* Set form of the quorum arithmetic, used by C01/C02/C08/C09/C20:
   two quorums of a duplicate-free membership intersect in a non-faulty member. *)
From Coq Require Import List NArith ZArith Lia Bool.
From HS Require Import Quorum.QuorumModel Quorum.QuorumProofs.
Import ListNotations.

Definition memb (x : N) (l : list N) : bool := existsb (N.eqb x) l.

Lemma memb_In x l : memb x l = true <-> In x l.
Proof.
  unfold memb. rewrite existsb_exists. split.
  - intros [y [Hy He]]. apply N.eqb_eq in He. subst. exact Hy.
  - intros H. exists x. split; [exact H | apply N.eqb_refl].
Qed.

Lemma memb_false x l : memb x l = false <-> ~ In x l.
Proof. rewrite <- memb_In. destruct (memb x l); split; intros; congruence. Qed.

Definition inter (A B : list N) : list N := filter (fun x => memb x B) A.
Definition diff (A B : list N) : list N := filter (fun x => negb (memb x B)) A.

Lemma inter_In A B x : In x (inter A B) <-> In x A /\ In x B.
Proof. unfold inter. rewrite filter_In, memb_In. tauto. Qed.

Lemma diff_In A B x : In x (diff A B) <-> In x A /\ ~ In x B.
Proof. unfold diff. rewrite filter_In, negb_true_iff, memb_false. tauto. Qed.

Lemma filter_split_length {A} (p : A -> bool) (l : list A) :
  (length (filter p l) + length (filter (fun x => negb (p x)) l) = length l)%nat.
Proof. induction l as [|x l IH]; simpl; [reflexivity|]. destruct (p x); simpl; lia. Qed.

Lemma NoDup_app_disj {A} (l1 l2 : list A) :
  NoDup l1 -> NoDup l2 -> (forall x, In x l1 -> ~ In x l2) -> NoDup (l1 ++ l2).
Proof.
  induction l1 as [|a l1 IH]; simpl; intros H1 H2 Hd; [exact H2|].
  inversion H1 as [|? ? Hna Hnd]; subst. constructor.
  - intros Hin. apply in_app_or in Hin. destruct Hin as [Hin|Hin]; [tauto|].
    apply (Hd a); [left; reflexivity | exact Hin].
  - apply IH; auto.
Qed.

Lemma inter_length_lower (U A B : list N) :
  NoDup A -> NoDup B -> incl A U -> incl B U ->
  (length (inter A B) + length U >= length A + length B)%nat.
Proof.
  intros HA HB HAU HBU.
  assert (Hnd : NoDup (A ++ diff B A)).
  { apply NoDup_app_disj; [exact HA | apply NoDup_filter; exact HB |].
    intros x Hx Hd. apply diff_In in Hd. tauto. }
  assert (Hincl : incl (A ++ diff B A) U).
  { intros x Hx. apply in_app_or in Hx. destruct Hx as [Hx|Hx]; [auto|].
    apply diff_In in Hx. apply HBU. tauto. }
  pose proof (NoDup_incl_length Hnd Hincl) as Hlen.
  rewrite app_length in Hlen.
  assert (Hsym : length (inter B A) = length (inter A B)).
  { apply Nat.le_antisymm; apply NoDup_incl_length;
      try (apply NoDup_filter; assumption);
      intros x Hx; apply inter_In in Hx; apply inter_In; tauto. }
  pose proof (filter_split_length (fun x => memb x A) B) as Hsplit. cbv beta in Hsplit.
  change (filter (fun x => memb x A) B) with (inter B A) in Hsplit.
  change (filter (fun x => negb (memb x A)) B) with (diff B A) in Hsplit. unfold ge. lia.
Qed.

(* Pigeonhole: a duplicate-free list longer than F has an element outside F. *)
Lemma exists_outside (I F : list N) :
  NoDup I -> (length F < length I)%nat -> exists x, In x I /\ ~ In x F.
Proof.
  intros HI Hlen.
  destruct (diff I F) as [|x r] eqn:E.
  - exfalso. assert (incl I F).
    { intros x Hx. destruct (memb x F) eqn:M; [apply memb_In; exact M|].
      assert (In x (diff I F)) by (apply diff_In; split; [exact Hx| apply memb_false; exact M]).
      rewrite E in H. destruct H. }
    pose proof (NoDup_incl_length HI H). lia.
  - exists x. apply diff_In. rewrite E. left. reflexivity.
Qed.

(* Any two quorums of a membership of size n share a member outside any fault set of size <= f. *)
Theorem quorum_intersection_honest (U A B F : list N) :
  (1 <= length U)%nat ->
  NoDup A -> NoDup B -> incl A U -> incl B U ->
  (Z.of_nat (length A) >= quorum_size (Z.of_nat (length U)))%Z ->
  (Z.of_nat (length B) >= quorum_size (Z.of_nat (length U)))%Z ->
  (Z.of_nat (length F) <= num_faulty (Z.of_nat (length U)))%Z ->
  exists x, In x A /\ In x B /\ ~ In x F.
Proof.
  intros Hn HA HB HAU HBU HqA HqB HF.
  pose proof (inter_length_lower U A B HA HB HAU HBU) as Hl.
  pose proof (q_intersect (Z.of_nat (length U)) ltac:(lia)) as Hq.
  destruct (exists_outside (inter A B) F) as [x [Hx HxF]].
  - apply NoDup_filter; exact HA.
  - lia.
  - apply inter_In in Hx. exists x. tauto.
Qed.

(* The non-faulty members alone can form a quorum. *)
Theorem honest_quorum_available (U F : list N) :
  (1 <= length U)%nat -> NoDup U -> NoDup F -> incl F U ->
  (Z.of_nat (length F) <= num_faulty (Z.of_nat (length U)))%Z ->
  (Z.of_nat (length (diff U F)) >= quorum_size (Z.of_nat (length U)))%Z.
Proof.
  intros Hn HU HF HFU Hf.
  pose proof (filter_split_length (fun x => memb x F) U) as Hs. cbv beta in Hs.
  fold (inter U F) in Hs. fold (diff U F) in Hs.
  assert (length (inter U F) <= length F)%nat.
  { apply NoDup_incl_length; [apply NoDup_filter; exact HU|].
    intros x Hx. apply inter_In in Hx. tauto. }
  pose proof (q_available (Z.of_nat (length U)) ltac:(lia)). lia.
Qed.

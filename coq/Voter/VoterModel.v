(* C03 — executable model of what an honest replica signs.

   Mirrors (with the repair of fixes/C03-voter-parent-qc.patch):
     protocol/consensus/voter.go        Verify, Vote, StopVoting, OnValidPropose
     protocol/consensus/proposer.go     Propose (Verify, then Vote on the own proposal)
     protocol/synchronizer/synchronizer.go
         the ProposeMsg handler (advanceView on the proposal's QC, drop if the view is too far
         ahead, delay if ahead, Verify, OnValidPropose), the TimeoutEvent handler / OnLocalTimeout
         (sign the view, StopVoting, OnRemoteTimeout of the own message -> advanceView),
         OnNewView -> advanceView, and advanceView itself (next view, lastTimeout := nil,
         propose when this replica leads the new view).
     protocol/synchronizer/timeoutrule_{simple,aggregate}.go  LocalTimeoutRule (what is signed),
         VerifySyncInfo for a sync info holding only the proposal's QC.

   One model event = one handler invocation of the replica's event loop.  Everything the handlers
   consult outside this slice of the replica is an input of the event (and universally quantified
   in the theorems): the verdicts of VerifyQuorumCert / VerifyAggregateQC on the proposal's
   certificates (ground truth), the vote-rule verdict of the configured ruleset, the view of the
   certified block, the verdict and view of VerifySyncInfo on the pacemaker's sync info, and the
   proposal the replica's own ProposeRule builds when it becomes leader.  Definitions only. *)
From HS Require Import Base.Prelude.
Open Scope N_scope.

(* A ProposeMsg as the voter sees it. *)
Record proposal := mkP {
  p_sender : rid;                  (* ProposeMsg.ID: the replica the message came from *)
  p_hash : hash;                   (* Block.Hash() *)
  p_view : view;                   (* Block.View() *)
  p_parent : hash;                 (* Block.Parent() *)
  p_qc_hash : hash;                (* Block.QuorumCert().BlockHash() *)
  p_qc_view : view;                (* Block.QuorumCert().View(), the label *)
  p_qc_ok : bool;                  (* VerifyQuorumCert(Block.QuorumCert()) succeeds *)
  p_agg_ok : bool;                 (* aggregate part of VerifyAnyQC: no AggregateQC (or not configured),
                                      or it verifies and its high QC equals the block's QC *)
  p_qc_block_view : option view;   (* view of the block the QC certifies, if the replica can get it *)
  p_rule : bool                    (* VoteRule(Block.View(), proposal) of the configured ruleset *)
}.

(* What ProposeRule builds for the replica itself; sender and view are filled in by the replica. *)
Record ownprop := mkO {
  o_hash : hash; o_parent : hash; o_qc_hash : hash; o_qc_view : view;
  o_qc_ok : bool; o_agg_ok : bool; o_qc_block_view : option view; o_rule : bool
}.

Definition mk_own (self : rid) (v : view) (o : ownprop) : proposal :=
  mkP self (o_hash o) v (o_parent o) (o_qc_hash o) (o_qc_view o) (o_qc_ok o) (o_agg_ok o)
      (o_qc_block_view o) (o_rule o).

(* Every message handed to the signing primitive (crypto.Base.Sign). *)
Inductive sig :=
| SignVote (p : proposal)          (* Sign(block.ToBytes()) in CreatePartialCert *)
| SignTimeout (v : view)           (* Sign(view.ToBytes()) in LocalTimeoutRule *)
| SignTimeoutMsg (v : view).       (* Sign(timeoutMsg.ToBytes()), aggregate timeout rule only *)

Record vstate := mkS {
  last_voted : view;               (* Voter.lastVotedView *)
  cur_view : view;                 (* ViewStates.View() *)
  last_to : option view            (* Synchronizer.lastTimeout (its view) *)
}.
Definition init_state : vstate := mkS 0 1 None.

Inductive event :=
| EvProposal (p : proposal) (own : option ownprop) (sent : bool)
    (* a ProposeMsg is dispatched to the synchronizer's handler *)
| EvTimeout (tv : view) (si_ok : bool) (si_view : view) (own : option ownprop) (sent : bool)
    (* TimeoutEvent{tv}; (si_ok, si_view) = VerifySyncInfo(ViewStates.SyncInfo()) at that moment *)
| EvNewView (si_ok : bool) (si_view : view) (own : option ownprop) (sent : bool).
    (* NewViewMsg; (si_ok, si_view) = VerifySyncInfo of its sync info *)
(* [sent] = the result of handing a vote signed during this invocation to the network
   (Aggregator.Aggregate / Disseminator.Disseminate, i.e. core.Sender.Vote): false when the send
   returns an error (e.g. the next leader is not in the replica table yet). *)

Definition own_of (e : event) : option ownprop :=
  match e with EvProposal _ o _ | EvTimeout _ _ _ o _ | EvNewView _ _ o _ => o end.

Definition alpha : view := 10.

Section Replica.
  Variable leader : view -> rid.   (* LeaderRotation.GetLeader *)
  Variable self : rid.             (* RuntimeConfig.ID() *)
  Variable agg : bool.             (* RuntimeConfig.HasAggregateQC() *)

  (* Voter.Verify with the two added checks (parent = certified block, view above its view). *)
  Definition verify (st : vstate) (p : proposal) : bool :=
    if p_view p <=? last_voted st then false            (* block view too old *)
    else if negb (p_rule p) then false                  (* vote rule not satisfied *)
    else if negb (p_agg_ok p && p_qc_ok p) then false   (* VerifyAnyQC *)
    else if negb (p_parent p =? p_qc_hash p) then false (* repair: parent is the certified block *)
    else match p_qc_block_view p with
         | None => false                                (* repair: certified block not found *)
         | Some bv =>
             if p_view p <=? bv then false              (* repair: view above the certified block's *)
             else p_sender p =? leader (p_view p)       (* expected leader *)
         end.

  (* Voter.Verify as it is in the tree without the repair (used only to exhibit the defect). *)
  Definition verify_unpatched (st : vstate) (p : proposal) : bool :=
    if p_view p <=? last_voted st then false
    else if negb (p_rule p) then false
    else if negb (p_agg_ok p && p_qc_ok p) then false
    else p_sender p =? leader (p_view p).

  (* Voter.Vote: sign, then remember the view.  The vote is handed to the network afterwards
     (OnValidPropose: Aggregate; Propose: Disseminate).  Whether that succeeds ([sent]) is
     reported to the caller and logged, but the signature exists: the view stays voted in. *)
  Definition vote (st : vstate) (p : proposal) (sent : bool) : vstate * list sig :=
    (* [sent] is deliberately unused: both outcomes of the send leave the same state *)
    (mkS (p_view p) (cur_view st) (last_to st), [SignVote p]).

  (* Voter.StopVoting *)
  Definition stop_voting (st : vstate) (v : view) : vstate :=
    if last_voted st <? v then mkS v (cur_view st) (last_to st) else st.

  (* Proposer.Propose / handler tail: Verify, then (TryCommit and) Vote.  Between Verify and
     OnValidPropose the handler records the proposal's QC as high QC (UpdateHighQC); that fails only
     when the certified block cannot be found, which Verify has just excluded, so it never
     prevents the vote. *)
  Definition verify_then_vote (vf : vstate -> proposal -> bool) (st : vstate) (p : proposal)
             (sent : bool) : vstate * list sig :=
    if vf st p then vote st p sent else (st, []).

  (* Synchronizer.advanceView on a sync info whose VerifySyncInfo result is (ok, v). *)
  Definition advance_with (vf : vstate -> proposal -> bool)
             (st : vstate) (ok : bool) (v : view) (own : option ownprop) (sent : bool)
    : vstate * list sig :=
    if negb ok then (st, [])
    else if v <? cur_view st then (st, [])
    else
      let nv := cur_view st + 1 in
      let st1 := mkS (last_voted st) nv None in
      if leader nv =? self then
        match own with
        | None => (st1, [])                       (* CreateProposal failed: nothing to propose *)
        | Some o => verify_then_vote vf st1 (mk_own self nv o) sent
        end
      else (st1, []).

  (* VerifySyncInfo of NewSyncInfoWith(block.QuorumCert()): the aggregate rule ignores a plain QC. *)
  Definition qc_sync (p : proposal) : bool * view :=
    if agg then (true, 0)
    else if p_qc_ok p then (true, p_qc_view p) else (false, 0).

  Definition handle_proposal (vf : vstate -> proposal -> bool)
             (st : vstate) (p : proposal) (own : option ownprop) (sent : bool)
    : vstate * list sig :=
    let '(ok, v) := qc_sync p in
    let '(st1, out1) := advance_with vf st ok v own sent in
    if cur_view st1 + alpha <? p_view p then (st1, out1)         (* dropped: too far ahead *)
    else if cur_view st1 <? p_view p then (st1, out1)            (* delayed until a view change *)
    else
      let '(st2, out2) := verify_then_vote vf st1 p sent in
      (st2, out1 ++ out2).

  (* LocalTimeoutRule: what is signed for a timeout of view v *)
  Definition timeout_sigs (v : view) : list sig :=
    if agg then [SignTimeout v; SignTimeoutMsg v] else [SignTimeout v].

  (* OnLocalTimeout after the resend test: sign, remember the message, StopVoting, then
     OnRemoteTimeout of the own message, whose advanceView acts on the pacemaker's sync info.
     (A quorum of timeouts cannot come from the own message alone; timeouts of other replicas
     are handled by the collector and sign nothing.) *)
  Definition timeout_body (vf : vstate -> proposal -> bool)
             (st : vstate) (si_ok : bool) (si_view : view) (own : option ownprop) (sent : bool)
    : vstate * list sig :=
    let cv := cur_view st in
    let st1 := stop_voting (mkS (last_voted st) cv (Some cv)) cv in
    let '(st2, out2) := advance_with vf st1 si_ok si_view own sent in
    (st2, timeout_sigs cv ++ out2).

  Definition handle_timeout (vf : vstate -> proposal -> bool)
             (st : vstate) (tv : view) (si_ok : bool) (si_view : view) (own : option ownprop)
             (sent : bool) : vstate * list sig :=
    if negb (cur_view st =? tv) then (st, [])                    (* stale timer event *)
    else match last_to st with
         | Some lt => if lt =? cur_view st then (st, [])         (* resend the previous message *)
                      else timeout_body vf st si_ok si_view own sent
         | None => timeout_body vf st si_ok si_view own sent
         end.

  Definition step_with (vf : vstate -> proposal -> bool) (st : vstate) (e : event)
    : vstate * list sig :=
    match e with
    | EvProposal p own sent => handle_proposal vf st p own sent
    | EvTimeout tv ok v own sent => handle_timeout vf st tv ok v own sent
    | EvNewView ok v own sent => advance_with vf st ok v own sent
    end.

  Fixpoint run_with (vf : vstate -> proposal -> bool) (st : vstate) (es : list event)
    : vstate * list sig :=
    match es with
    | [] => (st, [])
    | e :: r =>
        let '(st1, o1) := step_with vf st e in
        let '(st2, o2) := run_with vf st1 r in
        (st2, o1 ++ o2)
    end.

  (* the replica with the repaired Verify *)
  Definition step := step_with verify.
  Definition run := run_with verify.
  (* the replica as it is without the repair *)
  Definition step_unpatched := step_with verify_unpatched.
  Definition run_unpatched := run_with verify_unpatched.

  (* per-event outputs and the view after each event (what the harness observes) *)
  Fixpoint trace (st : vstate) (es : list event) : list (list sig * view) :=
    match es with
    | [] => []
    | e :: r => let '(st1, o1) := step st e in (o1, cur_view st1) :: trace st1 r
    end.
End Replica.

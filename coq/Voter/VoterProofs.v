(* C03 — proofs about VoterModel: what an honest replica signs over any sequence of events. *)
From Coq Require Import Sorted ZifyBool ZifyN.
From HS Require Import Base.Prelude Voter.VoterModel.
Open Scope N_scope.

(* ------------------------------------------------------------------------------------------ *)
(* Views carried by signatures, and the "chain" discipline every output list obeys:            *)
(* a vote needs a view above the running bound and raises the bound to its view;               *)
(* a timeout signature raises the bound to at least its view.                                  *)

Definition sig_view (s : sig) : view :=
  match s with SignVote p => p_view p | SignTimeout v | SignTimeoutMsg v => v end.

Definition is_vote (s : sig) : bool := match s with SignVote _ => true | _ => false end.

Definition sig_ok (lv : view) (s : sig) : Prop :=
  match s with SignVote p => lv < p_view p | _ => True end.

Definition sig_next (lv : view) (s : sig) : view :=
  match s with SignVote p => p_view p | SignTimeout v | SignTimeoutMsg v => N.max lv v end.

Fixpoint bound (lv : view) (l : list sig) : view :=
  match l with [] => lv | s :: r => bound (sig_next lv s) r end.

Fixpoint chain (lv : view) (l : list sig) : Prop :=
  match l with [] => True | s :: r => sig_ok lv s /\ chain (sig_next lv s) r end.

Lemma bound_app : forall a b lv, bound lv (a ++ b) = bound (bound lv a) b.
Proof. induction a; intros; cbn; auto. Qed.

Lemma chain_app : forall a b lv, chain lv (a ++ b) <-> chain lv a /\ chain (bound lv a) b.
Proof.
  induction a; intros; cbn.
  - tauto.
  - rewrite IHa. tauto.
Qed.

Lemma sig_next_ge : forall lv s, sig_ok lv s -> lv <= sig_next lv s /\ sig_view s <= sig_next lv s.
Proof. intros lv [p|v|v]; cbn; lia. Qed.

Lemma bound_ge : forall l lv, chain lv l -> lv <= bound lv l.
Proof.
  induction l; intros; cbn in *.
  - lia.
  - destruct H as [Hs Hc]. specialize (IHl _ Hc). pose proof (sig_next_ge _ _ Hs). lia.
Qed.

Lemma bound_ge_item : forall l lv s, chain lv l -> In s l -> sig_view s <= bound lv l.
Proof.
  induction l; intros lv s Hc Hin; cbn in *.
  - contradiction.
  - destruct Hc as [Hs Hc]. destruct Hin as [->|Hin].
    + pose proof (sig_next_ge _ _ Hs). pose proof (bound_ge _ _ Hc). lia.
    + eauto.
Qed.

(* every vote in a chain is above the starting bound *)
Lemma chain_vote_above : forall l lv p, chain lv l -> In (SignVote p) l -> lv < p_view p.
Proof.
  induction l; intros lv p Hc Hin; cbn in *.
  - contradiction.
  - destruct Hc as [Hs Hc]. destruct Hin as [->|Hin].
    + exact Hs.
    + specialize (IHl _ _ Hc Hin). pose proof (sig_next_ge _ _ Hs). lia.
Qed.

(* the order statement: whatever was signed earlier (vote or timeout), a later vote is for a
   strictly higher view *)
Lemma chain_later_vote : forall l1 x l2 lv p,
  chain lv (l1 ++ x :: l2) -> In (SignVote p) l2 -> sig_view x < p_view p.
Proof.
  intros l1 x l2 lv p Hc Hin.
  apply chain_app in Hc. destruct Hc as [_ Hc]. cbn in Hc. destruct Hc as [Hs Hc].
  pose proof (chain_vote_above _ _ _ Hc Hin). pose proof (sig_next_ge _ _ Hs). lia.
Qed.

Definition vote_views (l : list sig) : list view :=
  map sig_view (filter is_vote l).

Lemma chain_votes_sorted : forall l lv, chain lv l ->
  StronglySorted N.lt (vote_views l) /\ Forall (fun v => lv < v) (vote_views l).
Proof.
  induction l; intros lv Hc; cbn in *.
  - split; constructor.
  - destruct Hc as [Hs Hc]. destruct (IHl _ Hc) as [Hsort Hall].
    pose proof (sig_next_ge _ _ Hs) as Hge.
    unfold vote_views in *. destruct a as [p|v|v]; cbn in *.
    + split.
      * constructor; auto.
      * constructor; [exact Hs|]. eapply Forall_impl; [|exact Hall]. cbn. intros; lia.
    + split; auto. eapply Forall_impl; [|exact Hall]. cbn. intros; lia.
    + split; auto. eapply Forall_impl; [|exact Hall]. cbn. intros; lia.
Qed.

Lemma StronglySorted_lt_NoDup : forall l, StronglySorted N.lt l -> NoDup l.
Proof.
  induction 1; constructor; auto.
  intro Hin. rewrite Forall_forall in H0. specialize (H0 _ Hin). lia.
Qed.

(* ------------------------------------------------------------------------------------------ *)
Section Replica.
  Variable leader : view -> rid.
  Variable self : rid.
  Variable agg : bool.

  Notation verify := (verify leader).
  Notation step := (step leader self agg).
  Notation run := (run leader self agg).

  (* A proposal an honest replica may vote for, in the words of the property. *)
  Definition wf_vote (p : proposal) : Prop :=
    p_sender p = leader (p_view p) /\                 (* from the designated leader of the view *)
    p_qc_ok p = true /\ p_agg_ok p = true /\          (* carries a valid certificate *)
    p_rule p = true /\                                (* the ruleset's vote rule agreed *)
    p_parent p = p_qc_hash p /\                       (* the parent is the certified block *)
    exists bv, p_qc_block_view p = Some bv /\ bv < p_view p.  (* and the view is higher *)

  Lemma verify_wf : forall st p, verify st p = true -> wf_vote p /\ last_voted st < p_view p.
  Proof.
    unfold VoterModel.verify, wf_vote. intros st p H.
    destruct (p_view p <=? last_voted st) eqn:E1; [discriminate|].
    destruct (p_rule p) eqn:E2; cbn in H; [|discriminate].
    destruct (p_agg_ok p) eqn:E3; cbn in H; [|discriminate].
    destruct (p_qc_ok p) eqn:E4; cbn in H; [|discriminate].
    destruct (p_parent p =? p_qc_hash p) eqn:E5; cbn in H; [|discriminate].
    destruct (p_qc_block_view p) as [bv|] eqn:E6; [|discriminate].
    destruct (p_view p <=? bv) eqn:E7; [discriminate|].
    repeat split; try lia.
    exists bv. split; [reflexivity|lia].
  Qed.

  (* proposals put before the replica by a sequence of events: those received, and those its own
     ProposeRule built when it became leader of the view *)
  Definition offered (es : list event) (p : proposal) : Prop :=
    (exists own sent, In (EvProposal p own sent) es) \/
    (exists e o, In e es /\ own_of e = Some o /\ p = mk_own self (p_view p) o /\ leader (p_view p) = self).

  Lemma offered_cons : forall e es p, offered es p -> offered (e :: es) p.
  Proof.
    intros e es p [[own [sent H]]|[e' [o [H1 H2]]]]; [left|right].
    - exists own, sent. right. exact H.
    - exists e', o. split; [right; exact H1|exact H2].
  Qed.

  (* --- one handler invocation --- *)

  Definition step_spec (st : vstate) (own : option ownprop) (ext : option proposal)
             (st' : vstate) (out : list sig) : Prop :=
    chain (last_voted st) out /\ bound (last_voted st) out = last_voted st' /\
    forall p, In (SignVote p) out ->
      wf_vote p /\
      (ext = Some p \/ exists o, own = Some o /\ p = mk_own self (p_view p) o /\ leader (p_view p) = self).

  Lemma nil_spec : forall st st' own ext,
    last_voted st = last_voted st' -> step_spec st own ext st' [].
  Proof.
    intros. unfold step_spec; cbn. split; [exact I|split; [assumption|intros p []]].
  Qed.

  Lemma vtv_spec : forall st p sent st' out,
    verify_then_vote verify st p sent = (st', out) ->
    chain (last_voted st) out /\ bound (last_voted st) out = last_voted st' /\
    cur_view st' = cur_view st /\
    forall q, In (SignVote q) out -> q = p /\ wf_vote p.
  Proof.
    unfold verify_then_vote, vote. intros st p sent st' out H.
    destruct (verify st p) eqn:E; inversion H; subst; clear H; cbn.
    - destruct (verify_wf _ _ E) as [Hwf Hlt].
      split; [auto|split; [reflexivity|split; [reflexivity|]]].
      intros q [Hq|[]]; inversion Hq; subst; auto.
    - split; [exact I|split; [reflexivity|split; [reflexivity|intros q []]]].
  Qed.

  Lemma advance_spec : forall st ok v own sent st' out,
    advance_with leader self verify st ok v own sent = (st', out) ->
    step_spec st own None st' out.
  Proof.
    unfold advance_with, step_spec. intros st ok v own sent st' out H.
    destruct ok; cbn in H.
    2:{ inversion H; subst; apply nil_spec; reflexivity. }
    destruct (v <? cur_view st).
    { inversion H; subst; apply nil_spec; reflexivity. }
    destruct (leader (cur_view st + 1) =? self) eqn:EL.
    2:{ inversion H; subst; apply nil_spec; reflexivity. }
    destruct own as [o|].
    2:{ inversion H; subst; apply nil_spec; reflexivity. }
    apply vtv_spec in H. cbn in H. destruct H as [Hc [Hb [_ Hv]]].
    split; [exact Hc|split; [exact Hb|]].
    intros p Hin. apply Hv in Hin. destruct Hin as [-> Hwf]. split; [exact Hwf|].
    right. exists o. cbn. split; [reflexivity|split; [reflexivity|]].
    apply N.eqb_eq. exact EL.
  Qed.

  Lemma step_spec_weaken : forall st own st' out ext,
    step_spec st own None st' out -> step_spec st own ext st' out.
  Proof.
    unfold step_spec. intros st own st' out ext [Hc [Hb Hv]].
    split; [exact Hc|split; [exact Hb|]].
    intros p Hin. apply Hv in Hin. destruct Hin as [Hwf [H|H]]; [discriminate|].
    split; [exact Hwf|right; exact H].
  Qed.

  Lemma proposal_spec : forall st p own sent st' out,
    handle_proposal leader self agg verify st p own sent = (st', out) ->
    step_spec st own (Some p) st' out.
  Proof.
    unfold handle_proposal. intros st p own sent st' out H.
    destruct (qc_sync agg p) as [ok v].
    destruct (advance_with leader self verify st ok v own sent) as [st1 out1] eqn:EA.
    apply advance_spec in EA.
    destruct (cur_view st1 + alpha <? p_view p).
    { inversion H; subst. apply step_spec_weaken; exact EA. }
    destruct (cur_view st1 <? p_view p).
    { inversion H; subst. apply step_spec_weaken; exact EA. }
    destruct (verify_then_vote verify st1 p sent) as [st2 out2] eqn:EV.
    inversion H; subst; clear H.
    apply vtv_spec in EV. destruct EV as [Hc2 [Hb2 [_ Hv2]]].
    destruct EA as [Hc1 [Hb1 Hv1]].
    unfold step_spec. rewrite chain_app, bound_app, Hb1.
    split; [split; assumption|split; [exact Hb2|]].
    intros q Hin. apply in_app_or in Hin. destruct Hin as [Hin|Hin].
    - apply Hv1 in Hin. destruct Hin as [Hwf [H|H]]; [discriminate|].
      split; [exact Hwf|right; exact H].
    - apply Hv2 in Hin. destruct Hin as [-> Hwf]. split; [exact Hwf|left; reflexivity].
  Qed.

  Lemma timeout_sigs_spec : forall lv v,
    chain lv (timeout_sigs agg v) /\ bound lv (timeout_sigs agg v) = N.max lv v /\
    forall p, ~ In (SignVote p) (timeout_sigs agg v).
  Proof.
    intros lv v. unfold timeout_sigs. destruct agg; cbn.
    - split; [tauto|split; [lia|]]. intros p [H|[H|[]]]; discriminate.
    - split; [tauto|split; [lia|]]. intros p [H|[]]; discriminate.
  Qed.

  Lemma timeout_body_spec : forall st ok v own sent st' out,
    timeout_body leader self agg verify st ok v own sent = (st', out) ->
    step_spec st own None st' out.
  Proof.
    unfold timeout_body. intros st ok v own sent st' out H.
    destruct (advance_with leader self verify
                (stop_voting (mkS (last_voted st) (cur_view st) (Some (cur_view st))) (cur_view st))
                ok v own sent) as [st2 out2] eqn:EA.
    inversion H; subst; clear H.
    apply advance_spec in EA. destruct EA as [Hc [Hb Hv]].
    destruct (timeout_sigs_spec (last_voted st) (cur_view st)) as [Tc [Tb Tv]].
    assert (Hlv : last_voted (stop_voting (mkS (last_voted st) (cur_view st) (Some (cur_view st))) (cur_view st))
                  = N.max (last_voted st) (cur_view st)).
    { unfold stop_voting; cbn. destruct (last_voted st <? cur_view st) eqn:E; cbn; lia. }
    rewrite Hlv in *.
    unfold step_spec. rewrite chain_app, bound_app, Tb.
    split; [split; assumption|split; [exact Hb|]].
    intros p Hin. apply in_app_or in Hin. destruct Hin as [Hin|Hin].
    - exfalso; eapply Tv; eauto.
    - apply Hv in Hin. exact Hin.
  Qed.

  Lemma timeout_spec : forall st tv ok v own sent st' out,
    handle_timeout leader self agg verify st tv ok v own sent = (st', out) ->
    step_spec st own None st' out.
  Proof.
    unfold handle_timeout. intros st tv ok v own sent st' out H.
    destruct (cur_view st =? tv); cbn in H.
    2:{ inversion H; subst. apply nil_spec; reflexivity. }
    destruct (last_to st) as [lt|].
    - destruct (lt =? cur_view st).
      + inversion H; subst. apply nil_spec; reflexivity.
      + eapply timeout_body_spec; eauto.
    - eapply timeout_body_spec; eauto.
  Qed.

  Definition ext_of (e : event) : option proposal :=
    match e with EvProposal p _ _ => Some p | _ => None end.

  Lemma step_ok : forall st e st' out,
    step st e = (st', out) -> step_spec st (own_of e) (ext_of e) st' out.
  Proof.
    intros st [p own sent|tv ok v own sent|ok v own sent] st' out H; cbn in *.
    - eapply proposal_spec; exact H.
    - eapply timeout_spec; eauto.
    - eapply advance_spec; eauto.
  Qed.

  (* --- any sequence of events --- *)

  Lemma run_ok : forall es st st' out,
    run st es = (st', out) ->
    chain (last_voted st) out /\ bound (last_voted st) out = last_voted st' /\
    forall p, In (SignVote p) out -> wf_vote p /\ offered es p.
  Proof.
    induction es as [|e es IH]; intros st st' out H; cbn in H.
    - inversion H; subst; cbn. split; [exact I|split; [reflexivity|intros p []]].
    - destruct (step_with leader self agg verify st e) as [st1 o1] eqn:E1.
      fold (VoterModel.run leader self agg) in H.
      destruct (run st1 es) as [st2 o2] eqn:E2.
      inversion H; subst; clear H.
      apply step_ok in E1. apply IH in E2.
      destruct E1 as [Hc1 [Hb1 Hv1]]. destruct E2 as [Hc2 [Hb2 Hv2]].
      rewrite chain_app, bound_app, Hb1.
      split; [split; assumption|split; [exact Hb2|]].
      intros p Hin. apply in_app_or in Hin. destruct Hin as [Hin|Hin].
      + apply Hv1 in Hin. destruct Hin as [Hwf [H|[o [Ho [Hp Hl]]]]]; (split; [exact Hwf|]).
        * left. destruct e; cbn in H; try discriminate. inversion H; subst.
          exists own, sent. left; reflexivity.
        * right. exists e, o. split; [left; reflexivity|]. split; [exact Ho|]. split; assumption.
      + apply Hv2 in Hin. destruct Hin as [Hwf Hoff]. split; [exact Hwf|].
        apply offered_cons; exact Hoff.
  Qed.

  (* The exported statements. *)

  Theorem vote_wellformed : forall st es st' out p,
    run st es = (st', out) -> In (SignVote p) out -> wf_vote p /\ offered es p.
  Proof. intros st es st' out p H Hin. apply run_ok in H. apply H; exact Hin. Qed.

  Theorem votes_increasing : forall st es st' out,
    run st es = (st', out) ->
    StronglySorted N.lt (vote_views out) /\ NoDup (vote_views out) /\
    Forall (fun v => last_voted st < v) (vote_views out).
  Proof.
    intros st es st' out H. apply run_ok in H. destruct H as [Hc _].
    destruct (chain_votes_sorted _ _ Hc) as [Hs Ha].
    split; [exact Hs|split; [apply StronglySorted_lt_NoDup; exact Hs|exact Ha]].
  Qed.

  (* at most one block per view: two votes of one run for the same view are the same signature
     occurrence, i.e. no list of outputs contains two positions voting in one view *)
  Theorem one_vote_per_view : forall st es st' out l1 p l2 q l3,
    run st es = (st', out) -> out = l1 ++ SignVote p :: l2 ++ SignVote q :: l3 ->
    p_view p < p_view q.
  Proof.
    intros st es st' out l1 p l2 q l3 H ->. apply run_ok in H. destruct H as [Hc _].
    eapply (chain_later_vote l1 (SignVote p) (l2 ++ SignVote q :: l3)); eauto.
    apply in_or_app; right; left; reflexivity.
  Qed.

  Theorem no_vote_after_timeout : forall st es st' out l1 x l2 p,
    run st es = (st', out) -> out = l1 ++ x :: l2 -> In (SignVote p) l2 ->
    sig_view x < p_view p.
  Proof.
    intros st es st' out l1 x l2 p H -> Hin. apply run_ok in H. destruct H as [Hc _].
    eapply chain_later_vote; eauto.
  Qed.

  Theorem last_voted_dominates : forall st es st' out,
    run st es = (st', out) ->
    last_voted st <= last_voted st' /\ forall s, In s out -> sig_view s <= last_voted st'.
  Proof.
    intros st es st' out H. apply run_ok in H. destruct H as [Hc [Hb _]].
    rewrite <- Hb. split; [apply bound_ge; exact Hc|intros s Hs; eapply bound_ge_item; eauto].
  Qed.
End Replica.

(* ------------------------------------------------------------------------------------------ *)
(* Without the repair (Voter.Verify as found in the tree) the first statement is false: a     *)
(* correctly signed proposal of the view's leader with a valid QC for block 1 (view 1) but    *)
(* parent 7, resp. with a view not above the certified block's view, is voted for.             *)

Definition rr4 (v : view) : rid := v mod 4 + 1.

Definition bad_parent : proposal := mkP 3 9 2 7 1 1 true true (Some 1) true.
Definition bad_view : proposal := mkP 3 9 2 5 5 6 true true (Some 6) true.

Lemma unpatched_refuted :
  exists es st' out p,
    run_unpatched rr4 1 false init_state es = (st', out) /\ In (SignVote p) out /\
    p_parent p <> p_qc_hash p.
Proof.
  exists [EvProposal bad_parent None true]. eexists. eexists. exists bad_parent.
  split; [vm_compute; reflexivity|]. split; [left; reflexivity|]. cbn. discriminate.
Qed.

Lemma unpatched_refuted_view :
  exists es st' out p bv,
    run_unpatched rr4 1 false (mkS 0 7 None) es = (st', out) /\ In (SignVote p) out /\
    p_qc_block_view p = Some bv /\ p_view p <= bv.
Proof.
  exists [EvProposal bad_view None true]. eexists. eexists. exists bad_view, 6.
  split; [vm_compute; reflexivity|]. split; [left; reflexivity|]. split; [reflexivity|]. cbn. lia.
Qed.

(* ------------------------------------------------------------------------------------------ *)
(* The result of handing a vote to the network never matters: the same signatures are produced *)
(* and the same state is reached whether or not the send succeeded.  In particular a failed    *)
(* send does not reopen the view.                                                              *)

Definition set_sent (b : bool) (e : event) : event :=
  match e with
  | EvProposal p own _ => EvProposal p own b
  | EvTimeout tv ok v own _ => EvTimeout tv ok v own b
  | EvNewView ok v own _ => EvNewView ok v own b
  end.

Lemma step_sent_irrelevant : forall leader self agg st e b,
  step leader self agg st (set_sent b e) = step leader self agg st e.
Proof. intros leader self agg st [p own s|tv ok v own s|ok v own s] b; reflexivity. Qed.

Lemma run_sent_irrelevant : forall leader self agg es st b,
  run leader self agg st (map (set_sent b) es) = run leader self agg st es.
Proof.
  intros leader self agg es. induction es as [|e es IH]; intros st b; [reflexivity|].
  cbn [map]. unfold run in *. cbn [run_with].
  change (step_with leader self agg (verify leader) st (set_sent b e))
    with (step leader self agg st (set_sent b e)).
  rewrite step_sent_irrelevant. unfold step.
  destruct (step_with leader self agg (verify leader) st e) as [st1 o1].
  rewrite IH. reflexivity.
Qed.

(* ------------------------------------------------------------------------------------------ *)
(* Leader rotation that changes during the run (membership growing, rotations that depend on  *)
(* the replica's state): every handler invocation comes with the rotation as it answers at    *)
(* that moment.  All statements carry over; "the designated leader" is the leader according   *)
(* to the rotation consulted by the invocation that signed.                                   *)

Section Varying.
  Variable self : rid.
  Variable agg : bool.

  Definition lev := ((view -> rid) * event)%type.

  Fixpoint run_var (st : vstate) (l : list lev) : vstate * list sig :=
    match l with
    | [] => (st, [])
    | (ld, e) :: r =>
        let '(st1, o1) := step ld self agg st e in
        let '(st2, o2) := run_var st1 r in
        (st2, o1 ++ o2)
    end.

  Definition offered_var (l : list lev) (p : proposal) : Prop :=
    exists ld e, In (ld, e) l /\ wf_vote ld p /\
      (ext_of e = Some p \/
       exists o, own_of e = Some o /\ p = mk_own self (p_view p) o /\ ld (p_view p) = self).

  Lemma run_var_ok : forall l st st' out,
    run_var st l = (st', out) ->
    chain (last_voted st) out /\ bound (last_voted st) out = last_voted st' /\
    forall p, In (SignVote p) out -> offered_var l p.
  Proof.
    induction l as [|[ld e] l IH]; intros st st' out H; cbn in H.
    - inversion H; subst; cbn. split; [exact I|split; [reflexivity|intros p []]].
    - destruct (step ld self agg st e) as [st1 o1] eqn:E1.
      destruct (run_var st1 l) as [st2 o2] eqn:E2.
      inversion H; subst; clear H.
      apply step_ok in E1. apply IH in E2.
      destruct E1 as [Hc1 [Hb1 Hv1]]. destruct E2 as [Hc2 [Hb2 Hv2]].
      rewrite chain_app, bound_app, Hb1.
      split; [split; assumption|split; [exact Hb2|]].
      intros p Hin. apply in_app_or in Hin. destruct Hin as [Hin|Hin].
      + apply Hv1 in Hin. destruct Hin as [Hwf Hsrc].
        exists ld, e. split; [left; reflexivity|]. split; [exact Hwf|exact Hsrc].
      + apply Hv2 in Hin. destruct Hin as [ld' [e' [Hi Hr]]].
        exists ld', e'. split; [right; exact Hi|exact Hr].
  Qed.

  Theorem vote_wellformed_var : forall st l st' out p,
    run_var st l = (st', out) -> In (SignVote p) out -> offered_var l p.
  Proof. intros st l st' out p H Hin. apply run_var_ok in H. apply H; exact Hin. Qed.

  Theorem votes_increasing_var : forall st l st' out,
    run_var st l = (st', out) ->
    StronglySorted N.lt (vote_views out) /\ NoDup (vote_views out) /\
    Forall (fun v => last_voted st < v) (vote_views out).
  Proof.
    intros st l st' out H. apply run_var_ok in H. destruct H as [Hc _].
    destruct (chain_votes_sorted _ _ Hc) as [Hs Ha].
    split; [exact Hs|split; [apply StronglySorted_lt_NoDup; exact Hs|exact Ha]].
  Qed.

  Theorem no_vote_after_signing_var : forall st l st' out l1 x l2 p,
    run_var st l = (st', out) -> out = l1 ++ x :: l2 -> In (SignVote p) l2 ->
    sig_view x < p_view p.
  Proof.
    intros st l st' out l1 x l2 p H -> Hin. apply run_var_ok in H. destruct H as [Hc _].
    eapply chain_later_vote; eauto.
  Qed.

  Theorem last_voted_dominates_var : forall st l st' out,
    run_var st l = (st', out) ->
    last_voted st <= last_voted st' /\ forall s, In s out -> sig_view s <= last_voted st'.
  Proof.
    intros st l st' out H. apply run_var_ok in H. destruct H as [Hc [Hb _]].
    rewrite <- Hb. split; [apply bound_ge; exact Hc|intros s Hs; eapply bound_ge_item; eauto].
  Qed.

  Lemma run_var_const : forall leader es st,
    run_var st (map (fun e => (leader, e)) es) = run leader self agg st es.
  Proof.
    intros leader es. induction es as [|e es IH]; intros st; [reflexivity|].
    cbn [map run_var]. unfold run in *. cbn [run_with].
    unfold step. destruct (step_with leader self agg (verify leader) st e) as [st1 o1].
    rewrite IH. reflexivity.
  Qed.
End Varying.

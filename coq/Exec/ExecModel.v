(* C06 — executable model of command execution at one replica.
   Mirrors  server/clientio.go           (ClientIO: ExecCommand registration, Exec, Abort,
                                           isDuplicate, completeCommand, Hash, CmdCount)
            protocol/consensus/committer.go (TryCommit, commit, commitInner)
            security/blockchain/blockchain.go (Store, Get with fetch from a peer; the answer of
                                           PruneToHeight is an input)
   Definitions only; proofs are in ExecProofs.v.

   Conventions.  A command is (client id, sequence number, payload bytes).  The application
   state digest is SHA-256 over the concatenation of the executed payloads (hash.Write is
   streaming); SHA-256 is idealised as injective, so the model's digest is the concatenated
   byte string itself.  cmdCount is a uint32 in Go; the model does not wrap (assumption
   count < 2^32).  A waiting ExecCommand caller is identified by a token chosen by the
   environment (the harness numbers its goroutines); the Go object is the error channel. *)
From HS Require Import Base.Prelude.
Open Scope N_scope.

(* ------------------------------------------------------------------------------------------ *)
(* Commands                                                                                    *)

Record cmd := mkCmd { c_client : N; c_seq : N; c_data : list N }.
Definition cmdid := (N * N)%type.                    (* clientpb.MessageID *)
Definition cid (c : cmd) : cmdid := (c_client c, c_seq c).
Definition cmdid_eqb (a b : cmdid) : bool := N.eqb (fst a) (fst b) && N.eqb (snd a) (snd b).
Definition cmd_eqb (a b : cmd) : bool :=
  N.eqb (c_client a) (c_client b) && N.eqb (c_seq a) (c_seq b) && list_eqb N.eqb (c_data a) (c_data b).

(* lastExecutedSeqNum : map[uint32]uint64 as an association list (first match wins) *)
Fixpoint le_get (m : list (N * N)) (k : N) : option N :=
  match m with
  | [] => None
  | (k', v) :: r => if N.eqb k' k then Some v else le_get r k
  end.
Fixpoint le_set (m : list (N * N)) (k v : N) : list (N * N) :=
  match m with
  | [] => [(k, v)]
  | (k', v') :: r => if N.eqb k' k then (k, v) :: r else (k', v') :: le_set r k v
  end.

(* isDuplicate: ok && seqNum >= cmd.SequenceNumber *)
Definition is_dup (m : list (N * N)) (c : cmd) : bool :=
  match le_get m (c_client c) with
  | Some q => c_seq c <=? q
  | None => false
  end.

(* The executed subsequence of a command stream, as a function of the per-client high-water
   marks alone (what Exec does when one forgets the waiting clients). *)
Fixpoint exec_filter (m : list (N * N)) (l : list cmd) : list (N * N) * list cmd :=
  match l with
  | [] => (m, [])
  | c :: r =>
      if is_dup m c then exec_filter m r
      else let '(m', x) := exec_filter (le_set m (c_client c) (c_seq c)) r in (m', c :: x)
  end.

(* ------------------------------------------------------------------------------------------ *)
(* ClientIO                                                                                    *)

Inductive outcome := OSuccess | OFailure.            (* nil | status.Error(codes.Aborted, ...) *)
Definition outcome_eqb (a b : outcome) : bool :=
  match a, b with OSuccess, OSuccess => true | OFailure, OFailure => true | _, _ => false end.
Definition delivery := (cmdid * N * outcome)%type.   (* command id, waiter token, what it got *)

Record cio := mkCio {
  last_exec : list (N * N);        (* lastExecutedSeqNum *)
  awaiting  : list (cmdid * N);    (* awaitingCmds: id -> waiter token; ids are unique *)
  digest    : list N;              (* preimage of hash *)
  count     : N                    (* cmdCount *)
}.
Definition cio_init : cio := mkCio [] [] [] 0.

Fixpoint aw_find (a : list (cmdid * N)) (id : cmdid) : option N :=
  match a with
  | [] => None
  | (i, w) :: r => if cmdid_eqb i id then Some w else aw_find r id
  end.
Fixpoint aw_remove (a : list (cmdid * N)) (id : cmdid) : list (cmdid * N) :=
  match a with
  | [] => []
  | (i, w) :: r => if cmdid_eqb i id then aw_remove r id else (i, w) :: aw_remove r id
  end.

(* ExecCommand up to the blocking receive: srv.awaitingCmds[id] = errChan (a previous waiter
   for the same id is orphaned: its channel is no longer reachable). *)
Definition register (s : cio) (id : cmdid) (w : N) : cio :=
  mkCio (last_exec s) ((id, w) :: aw_remove (awaiting s) id) (digest s) (count s).

(* completeCommand *)
Definition complete (s : cio) (id : cmdid) (o : outcome) : cio * list delivery :=
  match aw_find (awaiting s) id with
  | Some w => (mkCio (last_exec s) (aw_remove (awaiting s) id) (digest s) (count s), [(id, w, o)])
  | None => (s, [])
  end.

(* one iteration of the loop in Exec: state, executed commands, outcomes delivered *)
Definition exec_cmd (s : cio) (c : cmd) : cio * list cmd * list delivery :=
  if is_dup (last_exec s) c then
    let '(s', d) := complete s (cid c) OFailure in (s', [], d)
  else
    let s1 := mkCio (le_set (last_exec s) (c_client c) (c_seq c)) (awaiting s)
                    (digest s ++ c_data c) (count s + 1) in
    let '(s2, d) := complete s1 (cid c) OSuccess in (s2, [c], d).

Fixpoint exec_batch (s : cio) (b : list cmd) : cio * list cmd * list delivery :=
  match b with
  | [] => (s, [], [])
  | c :: r =>
      let '(s1, x1, d1) := exec_cmd s c in
      let '(s2, x2, d2) := exec_batch s1 r in
      (s2, x1 ++ x2, d1 ++ d2)
  end.

Fixpoint abort_batch (s : cio) (b : list cmd) : cio * list delivery :=
  match b with
  | [] => (s, [])
  | c :: r =>
      let '(s1, d1) := complete s (cid c) OFailure in
      let '(s2, d2) := abort_batch s1 r in
      (s2, d1 ++ d2)
  end.

(* what can happen to a ClientIO *)
Inductive cev :=
| CRegister (id : cmdid) (w : N)
| CExec (b : list cmd)
| CAbort (b : list cmd)
| CLifecycle.   (* Stop (once or again) / cancellation of a waiting caller's context: neither touches
                   ClientIO's state, so no waiting caller gets an outcome from it *)

Definition cstep (s : cio) (e : cev) : cio * list cmd * list delivery :=
  match e with
  | CRegister id w => (register s id w, [], [])
  | CExec b => exec_batch s b
  | CAbort b => let '(s', d) := abort_batch s b in (s', [], d)
  | CLifecycle => (s, [], [])
  end.

(* a run: final state and, per step, (executed commands, outcomes delivered) *)
Fixpoint crun (s : cio) (evs : list cev) : cio * list (list cmd * list delivery) :=
  match evs with
  | [] => (s, [])
  | e :: r =>
      let '(s1, x, d) := cstep s e in
      let '(s2, outs) := crun s1 r in
      (s2, (x, d) :: outs)
  end.

Definition executed_of (outs : list (list cmd * list delivery)) : list cmd := flat_map fst outs.
Definition delivered_of (outs : list (list cmd * list delivery)) : list delivery := flat_map snd outs.
Definition exec_batches (evs : list cev) : list (list cmd) :=
  flat_map (fun e => match e with CExec b => [b] | _ => [] end) evs.
Definition reg_tokens (evs : list cev) : list N :=
  flat_map (fun e => match e with CRegister _ w => [w] | _ => [] end) evs.
Definition payload (x : list cmd) : list N := flat_map c_data x.

(* ------------------------------------------------------------------------------------------ *)
(* Block store (what the committer uses of it) and committer                                   *)

Record block := mkBlock { b_hash : hash; b_parent : hash; b_view : view; b_cmds : list cmd }.

(* Blockchain: map[Hash]*Block, hashes unique.  blockAtHeight / pruneHeight only serve
   PruneToHeight, whose answer (the forked blocks to abort) is an input of this model: which
   blocks count as forked is the block store's business (property C13). *)
Record chain := mkChain { blocks : list block }.

Fixpoint blk_get (bs : list block) (h : hash) : option block :=
  match bs with
  | [] => None
  | b :: r => if N.eqb (b_hash b) h then Some b else blk_get r h
  end.

(* The harness interns hashes in order of first appearance: 0 is the genesis block's hash, 1 the
   all-zero hash (the genesis block's parent, which no block has), other blocks get 2, 3, ... *)
Definition no_hash : hash := 1.
Definition genesis_block : block := mkBlock 0 no_hash 0 [].
Definition chain_init : chain := mkChain [genesis_block].

(* Blockchain.Store *)
Definition store_block (ch : chain) (b : block) : chain :=
  match blk_get (blocks ch) (b_hash b) with
  | Some _ => ch
  | None => mkChain (blocks ch ++ [b])
  end.

(* Blockchain.Get: local lookup, else ask the network.  [remote] is what the peers can serve at
   that moment (the harness's sender looks the hash up in a peer's store, so an answer always
   has the requested hash); a fetched block is put into the store. *)
Definition chain_get (ch : chain) (remote : list block) (h : hash) : option block * chain :=
  match blk_get (blocks ch) h with
  | Some b => (Some b, ch)
  | None =>
      match blk_get remote h with
      | Some b => (Some b, mkChain (blocks ch ++ [b]))
      | None => (None, ch)
      end
  end.

(* commitInner: the blocks to execute, ancestor first, and the store after the fetches.  A parent
   that neither the replica nor a peer has is the error return (blocks fetched before stay).
   Fuel: one more than the number of blocks that exist; running out means the parent links cycle
   (impossible for real hashes), where the Go recursion would not terminate. *)
Fixpoint commit_walk (fuel : nat) (remote : list block) (ch : chain) (b : block) (cv : view)
  : chain * result (list block) :=
  if b_view b <=? cv then (ch, Ok [])
  else match fuel with
       | O => (ch, Panic)
       | S k =>
           match chain_get ch remote (b_parent b) with
           | (None, ch1) => (ch1, Reject)
           | (Some p, ch1) =>
               match commit_walk k remote ch1 p cv with
               | (ch2, Ok l) => (ch2, Ok (l ++ [b]))
               | (ch2, Reject) => (ch2, Reject)
               | (ch2, Panic) => (ch2, Panic)
               end
           end
       end.
Definition walk_fuel (remote : list block) (ch : chain) : nat := S (length (blocks ch) + length remote).

(* events the committer adds to the event loop (ConsensusLatencyEvent is not observed) *)
Inductive emit :=
| EmCommit (h : hash)
| EmExec (b : list cmd)
| EmAbort (b : list cmd).

Definition emit_block (x : block) : list emit := [EmCommit (b_hash x); EmExec (b_cmds x)].

(* Committer.commit: store after, new committed block, emitted events (on error: the store
   after the fetches that did succeed).  [aborted] is what PruneToHeight returned: the command
   batches of the forked blocks; it is only consulted after commitInner succeeded. *)
Definition commit (remote : list block) (ch : chain) (committed : block) (b : block) (aborted : list (list cmd))
  : chain * result (block * list emit) :=
  match commit_walk (walk_fuel remote ch) remote ch b (b_view committed) with
  | (ch1, Ok l) => (ch1, Ok (last l committed, flat_map emit_block l ++ map EmAbort aborted))
  | (ch1, Reject) => (ch1, Reject)
  | (ch1, Panic) => (ch1, Panic)
  end.

(* Committer.TryCommit with the commit rule's answer given (None = rule returned nil).
   On error nothing is emitted and the committed block is unchanged. *)
Definition try_commit (remote : list block) (ch : chain) (committed : block) (b : block) (target : option block)
  (aborted : list (list cmd)) : chain * block * result (list emit) :=
  let ch1 := store_block ch b in
  match target with
  | None => (ch1, committed, Ok [])
  | Some t =>
      match commit remote ch1 committed t aborted with
      | (ch2, Ok (c2, es)) => (ch2, c2, Ok es)
      | (ch2, Reject) => (ch2, committed, Reject)
      | (ch2, Panic) => (ch2, committed, Panic)
      end
  end.

(* ------------------------------------------------------------------------------------------ *)
(* One replica: committer emissions handled by its ClientIO in emission order                  *)

Fixpoint feed (s : cio) (es : list emit) : cio * list cmd * list delivery :=
  match es with
  | [] => (s, [], [])
  | e :: r =>
      let '(s1, x1, d1) :=
        match e with
        | EmCommit _ => (s, [], [])
        | EmExec b => exec_batch s b
        | EmAbort b => let '(s', d) := abort_batch s b in (s', [], d)
        end in
      let '(s2, x2, d2) := feed s1 r in
      (s2, x1 ++ x2, d1 ++ d2)
  end.

Record replica := mkReplica { r_chain : chain; r_committed : block; r_cio : cio; r_log : list block }.
Definition replica_init : replica := mkReplica chain_init genesis_block cio_init [].

(* operations at a replica: a block arrives and is stored only; TryCommit (with what the peers can
   serve while it runs and what PruneToHeight answers); a client registers *)
Inductive rop :=
| RStore (b : block)
| RTryCommit (b : block) (target : option block) (remote : list block) (aborted : list (list cmd))
| RRegister (id : cmdid) (w : N).

(* r_log is ghost state: the replica's committed block sequence (blocks with a CommitEvent) *)
Definition rstep (r : replica) (o : rop) : replica * result (list emit) * list cmd * list delivery :=
  match o with
  | RStore b => (mkReplica (store_block (r_chain r) b) (r_committed r) (r_cio r) (r_log r), Ok [], [], [])
  | RRegister id w => (mkReplica (r_chain r) (r_committed r) (register (r_cio r) id w) (r_log r), Ok [], [], [])
  | RTryCommit b target remote aborted =>
      let ch1 := store_block (r_chain r) b in
      let walk := match target with
                  | None => []
                  | Some t => match snd (commit_walk (walk_fuel remote ch1) remote ch1 t (b_view (r_committed r))) with
                              | Ok l => l | _ => [] end
                  end in
      match try_commit remote (r_chain r) (r_committed r) b target aborted with
      | (ch2, c2, Ok es) =>
          let '(s2, x, d) := feed (r_cio r) es in
          (mkReplica ch2 c2 s2 (r_log r ++ walk), Ok es, x, d)
      | (ch2, c2, Reject) => (mkReplica ch2 c2 (r_cio r) (r_log r), Reject, [], [])
      | (ch2, c2, Panic) => (mkReplica ch2 c2 (r_cio r) (r_log r), Panic, [], [])
      end
  end.

Fixpoint rrun (r : replica) (ops : list rop) : replica * list cmd :=
  match ops with
  | [] => (r, [])
  | o :: rest =>
      let '(r1, _, x1, _) := rstep r o in
      let '(r2, x2) := rrun r1 rest in
      (r2, x1 ++ x2)
  end.

(* Composition of C01 and C06: honest replicas of the abstract protocol (coq/Protocol) whose
   execution layer is the ClientIO/committer model of coq/Exec execute prefix-related command
   sequences.  The two models use different block records (the protocol model has no payload);
   they are glued by the hashes of the committed blocks and content addressing. *)
From Coq Require Import List NArith.
From HS Require Import Base.Prelude Exec.ExecModel Exec.ExecProofs.
From HS Require Protocol.Core.
Import ListNotations.

Lemma map_prefix_inv {A B} (f : A -> B) (l1 l2 : list A) :
  (forall x y, In x l1 -> In y l2 -> f x = f y -> x = y) ->
  Protocol.Core.prefix (map f l1) (map f l2) -> prefix l1 l2.
Proof.
  revert l2. induction l1 as [|a l1 IH]; intros l2 Inj [r Hr].
  - exists l2. reflexivity.
  - destruct l2 as [|b l2]; [discriminate|].
    simpl in Hr. injection Hr as Hab Hr.
    assert (b = a) by (symmetry; apply Inj; [now left|now left|congruence]). subst b.
    destruct (IH l2) as [r' Hr'].
    + intros x y Hx Hy. apply Inj; now right.
    + exists r. exact Hr.
    + exists r'. simpl. now rewrite Hr'.
Qed.

(* If the committed block hashes of two execution-layer replicas are the hashes of two ledgers
   that are prefix related (C01), and a hash names one block (content addressing, C13/C12), then
   the executed command sequences and digests are prefix related. *)
Theorem exec_prefix_of_ledger_prefix :
  forall (L1 L2 : list Protocol.Core.block) ops1 ops2 r1 X1 r2 X2,
    rrun replica_init ops1 = (r1, X1) -> rrun replica_init ops2 = (r2, X2) ->
    map b_hash (r_log r1) = map Protocol.Core.b_hash L1 ->
    map b_hash (r_log r2) = map Protocol.Core.b_hash L2 ->
    (forall x y, In x (r_log r1 ++ r_log r2) -> In y (r_log r1 ++ r_log r2) -> b_hash x = b_hash y -> x = y) ->
    Protocol.Core.prefix L1 L2 \/ Protocol.Core.prefix L2 L1 ->
    (prefix X1 X2 /\ prefix (digest (r_cio r1)) (digest (r_cio r2))) \/
    (prefix X2 X1 /\ prefix (digest (r_cio r2)) (digest (r_cio r1))).
Proof.
  intros L1 L2 ops1 ops2 r1 X1 r2 X2 H1 H2 E1 E2 CA [P|P].
  - left. assert (Pl : prefix (r_log r1) (r_log r2)).
    { apply (map_prefix_inv b_hash).
      - intros x y Hx Hy. apply CA; apply in_or_app; auto.
      - rewrite E1, E2. destruct P as [r Hr]. exists (map Protocol.Core.b_hash r). now rewrite Hr, map_app. }
    destruct (exec_prefix _ _ _ _ _ _ H1 H2 Pl) as (A & B & _). split; assumption.
  - right. assert (Pl : prefix (r_log r2) (r_log r1)).
    { apply (map_prefix_inv b_hash).
      - intros x y Hx Hy. apply CA; apply in_or_app; auto.
      - rewrite E1, E2. destruct P as [r Hr]. exists (map Protocol.Core.b_hash r). now rewrite Hr, map_app. }
    destruct (exec_prefix _ _ _ _ _ _ H2 H1 Pl) as (A & B & _). split; assumption.
Qed.

(* C06 — proofs about ExecModel.v. *)
From Coq Require Import List Bool NArith Lia Sorting.Sorted.
From HS Require Import Base.Prelude Exec.ExecModel.
Import ListNotations.
Open Scope N_scope.

(* ------------------------------------------------------------------------------------------ *)
(* small list facts                                                                            *)

Definition prefix {A} (a b : list A) : Prop := exists r, b = a ++ r.

Lemma prefix_refl {A} (a : list A) : prefix a a.
Proof. exists []. now rewrite app_nil_r. Qed.

Lemma prefix_length {A} (a b : list A) : prefix a b -> (length a <= length b)%nat.
Proof. intros [r ->]. rewrite app_length. lia. Qed.

Lemma prefix_same_length {A} (a b : list A) : prefix a b -> length a = length b -> a = b.
Proof.
  intros [r ->] H. rewrite app_length in H. destruct r; [now rewrite app_nil_r|]. simpl in H. lia.
Qed.

Lemma nodup_app_iff {A} (a b : list A) :
  NoDup (a ++ b) <-> NoDup a /\ NoDup b /\ (forall x, In x a -> ~ In x b).
Proof.
  induction a as [|x a IH]; simpl.
  - split; [intros H; repeat split; [constructor | exact H | tauto] | tauto].
  - split.
    + intros H. inversion H as [|? ? Hn Hd]; subst. apply IH in Hd as (Ha & Hb & Hab).
      repeat split; auto.
      * constructor; auto. intro Hi. apply Hn. apply in_or_app. now left.
      * intros y [-> | Hy]; [intro Hi; apply Hn; apply in_or_app; now right | now apply Hab].
    + intros (Ha & Hb & Hab). inversion Ha as [|? ? Hn Hd]; subst. constructor.
      * intro Hi. apply in_app_or in Hi as [Hi | Hi]; [tauto | exact (Hab x (or_introl eq_refl) Hi)].
      * apply IH. repeat split; auto.
Qed.

Lemma nodup_shrink {A} (a a' c : list A) :
  NoDup (a ++ c) -> NoDup a' -> incl a' a -> NoDup (a' ++ c).
Proof.
  intros H Ha' Hi. apply nodup_app_iff in H as (Ha & Hc & Hd). apply nodup_app_iff.
  repeat split; auto.
Qed.

(* ------------------------------------------------------------------------------------------ *)
(* high-water marks                                                                            *)

Lemma le_get_set_same m k v : le_get (le_set m k v) k = Some v.
Proof.
  induction m as [|[k' v'] r IH]; simpl.
  - now rewrite N.eqb_refl.
  - destruct (N.eqb k' k) eqn:E; simpl; [now rewrite N.eqb_refl | now rewrite E].
Qed.

Lemma le_get_set_other m k v k' : k' <> k -> le_get (le_set m k v) k' = le_get m k'.
Proof.
  intros Hne. induction m as [|[k0 v0] r IH]; simpl.
  - destruct (N.eqb k k') eqn:E; [apply N.eqb_eq in E; congruence | reflexivity].
  - destruct (N.eqb k0 k) eqn:E; simpl.
    + apply N.eqb_eq in E; subst k0. destruct (N.eqb k k') eqn:E2; [apply N.eqb_eq in E2; congruence | reflexivity].
    + destruct (N.eqb k0 k'); [reflexivity | exact IH].
Qed.

(* ------------------------------------------------------------------------------------------ *)
(* exec_filter: the stream view of execution                                                   *)

Lemma exec_filter_app m a b :
  exec_filter m (a ++ b) =
  let '(m1, x1) := exec_filter m a in let '(m2, x2) := exec_filter m1 b in (m2, x1 ++ x2).
Proof.
  revert m. induction a as [|c a IH]; intros m; simpl.
  - destruct (exec_filter m b); reflexivity.
  - destruct (is_dup m c).
    + apply IH.
    + rewrite IH. destruct (exec_filter (le_set m (c_client c) (c_seq c)) a) as [m1 x1].
      destruct (exec_filter m1 b) as [m2 x2]. reflexivity.
Qed.

Lemma exec_filter_prefix m a b :
  prefix a b -> prefix (snd (exec_filter m a)) (snd (exec_filter m b)).
Proof.
  intros [r ->]. rewrite exec_filter_app. destruct (exec_filter m a) as [m1 x1].
  destruct (exec_filter m1 r) as [m2 x2]. simpl. now exists x2.
Qed.

(* fold over batches = filter over the concatenated stream *)
Definition fold_exec (m : list (N * N)) (batches : list (list cmd)) : list (N * N) * list cmd :=
  fold_left (fun (st : list (N * N) * list cmd) b =>
               let '(m', x) := exec_filter (fst st) b in (m', snd st ++ x)) batches (m, []).

Lemma fold_exec_gen batches : forall m acc,
  fold_left (fun (st : list (N * N) * list cmd) b =>
               let '(m', x) := exec_filter (fst st) b in (m', snd st ++ x)) batches (m, acc)
  = let '(m', x) := exec_filter m (concat batches) in (m', acc ++ x).
Proof.
  induction batches as [|b r IH]; intros m acc; simpl.
  - now rewrite app_nil_r.
  - rewrite exec_filter_app. destruct (exec_filter m b) as [m1 x1]. simpl. rewrite IH.
    destruct (exec_filter m1 (concat r)) as [m2 x2]. now rewrite app_assoc.
Qed.

Lemma fold_exec_concat m batches : fold_exec m batches = exec_filter m (concat batches).
Proof. unfold fold_exec. rewrite fold_exec_gen. now destruct (exec_filter m (concat batches)). Qed.

(* per client, executed sequence numbers go strictly up *)
Definition ordered_pair (a b : cmd) : Prop := c_client a = c_client b -> c_seq a < c_seq b.
Definition above (m : list (N * N)) (y : cmd) : Prop :=
  forall q, le_get m (c_client y) = Some q -> q < c_seq y.

Lemma exec_filter_ordered : forall l m m' x,
  exec_filter m l = (m', x) -> Forall (above m) x /\ ForallOrdPairs ordered_pair x.
Proof.
  induction l as [|c l IH]; intros m m' x H; simpl in H.
  - inversion H; subst. split; constructor.
  - destruct (is_dup m c) eqn:Ed.
    + now apply IH in H.
    + destruct (exec_filter (le_set m (c_client c) (c_seq c)) l) as [m1 x1] eqn:E.
      inversion H; subst. apply IH in E as [Hab Hord].
      assert (Hc : above m c).
      { intros q Hq. unfold is_dup in Ed. rewrite Hq in Ed. apply N.leb_gt in Ed. exact Ed. }
      assert (Hx1 : Forall (fun y => ordered_pair c y /\ above m y) x1).
      { rewrite Forall_forall in *. intros y Hy. specialize (Hab y Hy). split.
        - intros Heq. apply Hab. rewrite <- Heq. apply le_get_set_same.
        - intros q Hq. destruct (N.eq_dec (c_client y) (c_client c)) as [Heq | Hne].
          + assert (c_seq c < c_seq y) by (apply Hab; rewrite Heq; apply le_get_set_same).
            rewrite Heq in Hq. specialize (Hc q Hq). lia.
          + apply Hab. rewrite le_get_set_other; auto. }
      split.
      * constructor; [exact Hc|]. eapply Forall_impl; [|exact Hx1]. now intros y [_ ?].
      * constructor; [|exact Hord]. eapply Forall_impl; [|exact Hx1]. now intros y [? _].
Qed.

Lemma ordered_nodup x : ForallOrdPairs ordered_pair x -> NoDup (map cid x).
Proof.
  induction 1 as [|a l Ha Hl IH]; simpl; constructor; auto.
  intro Hi. apply in_map_iff in Hi as (y & Hy & Hin). rewrite Forall_forall in Ha.
  specialize (Ha y Hin). unfold cid in Hy. inversion Hy as [[H1 H2]].
  unfold ordered_pair in Ha. specialize (Ha (eq_sym H1)). lia.
Qed.

(* ------------------------------------------------------------------------------------------ *)
(* ClientIO: projections that forget the waiting clients                                       *)

Lemma complete_fields s id o s' d : complete s id o = (s', d) ->
  last_exec s' = last_exec s /\ digest s' = digest s /\ count s' = count s.
Proof.
  unfold complete. destruct (aw_find (awaiting s) id); intros H; inversion H; subst; simpl; auto.
Qed.

Lemma exec_cmd_spec s c s' x d : exec_cmd s c = (s', x, d) ->
  exec_filter (last_exec s) [c] = (last_exec s', x)
  /\ digest s' = digest s ++ payload x /\ count s' = count s + N.of_nat (length x).
Proof.
  unfold exec_cmd. simpl. destruct (is_dup (last_exec s) c).
  - destruct (complete s (cid c) OFailure) as [s1 d1] eqn:E. intros H; inversion H; subst.
    apply complete_fields in E as (-> & -> & ->). simpl. rewrite app_nil_r, N.add_0_r. auto.
  - match goal with |- context [complete ?S _ _] => destruct (complete S (cid c) OSuccess) as [s2 d2] eqn:E end.
    intros H; inversion H; subst. apply complete_fields in E as (-> & -> & ->). simpl.
    rewrite app_nil_r. repeat split; auto.
Qed.

Lemma exec_batch_spec : forall b s s' x d, exec_batch s b = (s', x, d) ->
  exec_filter (last_exec s) b = (last_exec s', x)
  /\ digest s' = digest s ++ payload x /\ count s' = count s + N.of_nat (length x).
Proof.
  induction b as [|c b IH]; intros s s' x d H.
  - simpl in H. inversion H; subst. simpl. rewrite app_nil_r, N.add_0_r. auto.
  - cbn [exec_batch] in H. destruct (exec_cmd s c) as [[s1 x1] d1] eqn:E1.
    destruct (exec_batch s1 b) as [[s2 x2] d2] eqn:E2. inversion H; subst.
    apply exec_cmd_spec in E1 as (F1 & D1 & C1). apply IH in E2 as (F2 & D2 & C2).
    change (c :: b) with ([c] ++ b). rewrite exec_filter_app, F1, F2.
    unfold payload in *. rewrite flat_map_app, app_length, D2, D1, C2, C1, app_assoc.
    repeat split; auto. lia.
Qed.

Lemma abort_batch_fields : forall b s s' d, abort_batch s b = (s', d) ->
  last_exec s' = last_exec s /\ digest s' = digest s /\ count s' = count s.
Proof.
  induction b as [|c b IH]; intros s s' d H; cbn [abort_batch] in H.
  - inversion H; subst; auto.
  - destruct (complete s (cid c) OFailure) as [s1 d1] eqn:E1.
    destruct (abort_batch s1 b) as [s2 d2] eqn:E2. inversion H; subst.
    apply complete_fields in E1 as (A & B & C). apply IH in E2 as (A2 & B2 & C2).
    rewrite A2, B2, C2. auto.
Qed.

Definition step_cmds (e : cev) : list cmd := match e with CExec b => b | _ => [] end.

Lemma cstep_spec s e s' x d : cstep s e = (s', x, d) ->
  exec_filter (last_exec s) (step_cmds e) = (last_exec s', x)
  /\ digest s' = digest s ++ payload x /\ count s' = count s + N.of_nat (length x).
Proof.
  destruct e as [id w | b | b | ]; simpl.
  - intros H; inversion H; subst. simpl. rewrite app_nil_r, N.add_0_r. auto.
  - apply exec_batch_spec.
  - destruct (abort_batch s b) as [s1 d1] eqn:E. intros H; inversion H; subst.
    apply abort_batch_fields in E as (-> & -> & ->). simpl. rewrite app_nil_r, N.add_0_r. auto.
  - intros H; inversion H; subst. simpl. rewrite app_nil_r, N.add_0_r. auto.
Qed.

Lemma exec_batches_concat evs : concat (exec_batches evs) = flat_map step_cmds evs.
Proof.
  induction evs as [|e r IH]; simpl; auto. destruct e; simpl; auto. now rewrite IH.
Qed.

Lemma crun_spec : forall evs s s' outs, crun s evs = (s', outs) ->
  exec_filter (last_exec s) (concat (exec_batches evs)) = (last_exec s', executed_of outs)
  /\ digest s' = digest s ++ payload (executed_of outs)
  /\ count s' = count s + N.of_nat (length (executed_of outs)).
Proof.
  intros evs. rewrite exec_batches_concat.
  induction evs as [|e r IH]; intros s s' outs H; cbn [crun] in H.
  - inversion H; subst. simpl. rewrite app_nil_r, N.add_0_r. auto.
  - destruct (cstep s e) as [[s1 x] d] eqn:E1. destruct (crun s1 r) as [s2 o2] eqn:E2.
    inversion H; subst. apply cstep_spec in E1 as (F1 & D1 & C1). apply IH in E2 as (F2 & D2 & C2).
    cbn [flat_map]. rewrite exec_filter_app, F1, F2. unfold executed_of in *. cbn [flat_map fst].
    unfold payload in *. rewrite flat_map_app, app_length, D2, D1, C2, C1, app_assoc.
    repeat split; auto. lia.
Qed.

(* ------------------------------------------------------------------------------------------ *)
(* outcomes                                                                                    *)

Definition toks (a : list (cmdid * N)) : list N := map snd a.
Definition dtoks (d : list delivery) : list N := map (fun x : delivery => snd (fst x)) d.

Lemma aw_remove_incl a id : incl (toks (aw_remove a id)) (toks a).
Proof.
  induction a as [|[i w] r IH]; simpl; [apply incl_refl|].
  destruct (cmdid_eqb i id); simpl.
  - now apply incl_tl.
  - apply incl_cons; [now left | now apply incl_tl].
Qed.

Lemma aw_remove_nodup a id : NoDup (toks a) -> NoDup (toks (aw_remove a id)).
Proof.
  induction a as [|[i w] r IH]; simpl; auto. intros H. inversion H; subst.
  destruct (cmdid_eqb i id); simpl; auto. constructor; auto.
  intro Hi. apply aw_remove_incl in Hi. auto.
Qed.

Lemma aw_find_remove a id w : NoDup (toks a) -> aw_find a id = Some w ->
  In w (toks a) /\ ~ In w (toks (aw_remove a id)).
Proof.
  induction a as [|[i w0] r IH]; simpl; [discriminate|]. intros Hn Hf. inversion Hn; subst.
  destruct (cmdid_eqb i id).
  - inversion Hf; subst. split; [now left|]. intro Hi. apply aw_remove_incl in Hi. auto.
  - destruct (IH H2 Hf) as [Hin Hnot]. split; [now right|]. simpl. intros [-> | Hi]; auto.
Qed.

Lemma nodup_shrink_r {A} (a c c' : list A) :
  NoDup (a ++ c) -> NoDup c' -> incl c' c -> NoDup (a ++ c').
Proof.
  intros H Hc' Hi. apply nodup_app_iff in H as (Ha & Hc & Hd). apply nodup_app_iff.
  repeat split; auto. intros x Hx Hx'. exact (Hd x Hx (Hi x Hx')).
Qed.

(* [good a d a']: from waiting tokens [a], the tokens served [d] and the tokens left [a'] are
   all different and all come from [a] *)
Definition good (a d a' : list N) : Prop := NoDup (d ++ a') /\ incl (d ++ a') a.

Lemma good_refl a : NoDup a -> good a [] a.
Proof. intros H. split; simpl; [exact H | apply incl_refl]. Qed.

Lemma good_trans a d1 a1 d2 a2 : good a d1 a1 -> good a1 d2 a2 -> good a (d1 ++ d2) a2.
Proof.
  intros [N1 I1] [N2 I2]. split.
  - rewrite <- app_assoc. eapply nodup_shrink_r; [exact N1 | exact N2 | exact I2].
  - rewrite <- app_assoc. intros y Hy. apply I1. apply in_app_or in Hy as [Hy | Hy].
    + apply in_or_app. now left.
    + apply in_or_app. right. now apply I2.
Qed.

Lemma complete_good s id o s' d : NoDup (toks (awaiting s)) -> complete s id o = (s', d) ->
  good (toks (awaiting s)) (dtoks d) (toks (awaiting s')).
Proof.
  intros Hn. unfold complete. destruct (aw_find (awaiting s) id) as [w|] eqn:E; intros H; inversion H; subst.
  - simpl. destruct (aw_find_remove _ _ _ Hn E) as [Hin Hnot]. split.
    + constructor; auto. now apply aw_remove_nodup.
    + apply incl_cons; auto. apply aw_remove_incl.
  - now apply good_refl.
Qed.

Lemma good_nodup_left a d a' : good a d a' -> NoDup a'.
Proof. intros [H _]. apply nodup_app_iff in H. tauto. Qed.

Lemma exec_cmd_good s c s' x d : NoDup (toks (awaiting s)) -> exec_cmd s c = (s', x, d) ->
  good (toks (awaiting s)) (dtoks d) (toks (awaiting s')).
Proof.
  intros Hn. unfold exec_cmd. destruct (is_dup (last_exec s) c).
  - destruct (complete s (cid c) OFailure) as [s1 d1] eqn:E. intros H; inversion H; subst.
    eapply complete_good; eauto.
  - match goal with |- context [complete ?S _ _] => destruct (complete S (cid c) OSuccess) as [s2 d2] eqn:E end.
    intros H; inversion H; subst. apply complete_good in E; auto.
Qed.

Lemma exec_batch_good : forall b s s' x d, NoDup (toks (awaiting s)) -> exec_batch s b = (s', x, d) ->
  good (toks (awaiting s)) (dtoks d) (toks (awaiting s')).
Proof.
  induction b as [|c b IH]; intros s s' x d Hn H; cbn [exec_batch] in H.
  - inversion H; subst. now apply good_refl.
  - destruct (exec_cmd s c) as [[s1 x1] d1] eqn:E1. destruct (exec_batch s1 b) as [[s2 x2] d2] eqn:E2.
    inversion H; subst. apply exec_cmd_good in E1; auto. apply IH in E2; [|eapply good_nodup_left; eauto].
    unfold dtoks. rewrite map_app. eapply good_trans; eauto.
Qed.

Lemma abort_batch_good : forall b s s' d, NoDup (toks (awaiting s)) -> abort_batch s b = (s', d) ->
  good (toks (awaiting s)) (dtoks d) (toks (awaiting s')).
Proof.
  induction b as [|c b IH]; intros s s' d Hn H; cbn [abort_batch] in H.
  - inversion H; subst. now apply good_refl.
  - destruct (complete s (cid c) OFailure) as [s1 d1] eqn:E1. destruct (abort_batch s1 b) as [s2 d2] eqn:E2.
    inversion H; subst. apply complete_good in E1; auto. apply IH in E2; [|eapply good_nodup_left; eauto].
    unfold dtoks. rewrite map_app. eapply good_trans; eauto.
Qed.

Lemma crun_tokens : forall evs s s' outs,
  NoDup (toks (awaiting s) ++ reg_tokens evs) -> crun s evs = (s', outs) ->
  NoDup (dtoks (delivered_of outs)) /\ incl (dtoks (delivered_of outs)) (toks (awaiting s) ++ reg_tokens evs).
Proof.
  induction evs as [|e r IH]; intros s s' outs Hn H; cbn [crun] in H.
  - inversion H; subst. simpl. split; [constructor | intros y []].
  - destruct (cstep s e) as [[s1 x] d] eqn:E1. destruct (crun s1 r) as [s2 o2] eqn:E2.
    inversion H; subst. unfold delivered_of. cbn [flat_map snd]. fold (delivered_of o2).
    unfold dtoks. rewrite map_app. fold (dtoks d). fold (dtoks (delivered_of o2)).
    destruct e as [id w | b | b | ]; cbn [cstep] in E1.
    + (* register *)
      inversion E1; subst. simpl in *.
      assert (Hn1 : NoDup ((w :: toks (aw_remove (awaiting s) id)) ++ reg_tokens r)).
      { apply nodup_app_iff in Hn as (Ha & Hr & Hd). inversion Hr as [|? ? Hw Hr']; subst.
        simpl. constructor.
        - intro Hi. apply in_app_or in Hi as [Hi | Hi]; [|tauto].
          apply aw_remove_incl in Hi. exact (Hd w Hi (or_introl eq_refl)).
        - apply nodup_app_iff. repeat split; auto.
          + now apply aw_remove_nodup.
          + intros y Hy Hy'. apply aw_remove_incl in Hy. exact (Hd y Hy (or_intror Hy')). }
      destruct (IH (register s id w) _ _ Hn1 E2) as [N2 I2]. split; auto.
      intros y Hy. specialize (I2 y Hy). simpl in I2. destruct I2 as [<- | I2].
      * apply in_or_app. right. now left.
      * apply in_app_or in I2 as [I2 | I2]; apply in_or_app.
        -- left. now apply aw_remove_incl in I2.
        -- right. now right.
    + (* exec *)
      simpl in Hn. assert (Ha : NoDup (toks (awaiting s))) by (apply nodup_app_iff in Hn; tauto).
      pose proof (exec_batch_good _ _ _ _ _ Ha E1) as [G1 G2].
      assert (Hn1 : NoDup (toks (awaiting s1) ++ reg_tokens r)).
      { eapply nodup_shrink; [exact Hn | | ].
        - apply nodup_app_iff in G1; tauto.
        - intros y Hy. apply G2. apply in_or_app. now right. }
      destruct (IH _ _ _ Hn1 E2) as [N2 I2]. split.
      * apply nodup_app_iff. repeat split; auto.
        -- apply nodup_app_iff in G1; tauto.
        -- intros y Hy Hy'. apply I2 in Hy'. apply in_app_or in Hy' as [Hy' | Hy'].
           ++ apply nodup_app_iff in G1 as (_ & _ & G1). exact (G1 y Hy Hy').
           ++ apply nodup_app_iff in Hn as (_ & _ & Hd). apply (Hd y); auto.
              apply G2. apply in_or_app. now left.
      * intros y Hy. apply in_app_or in Hy as [Hy | Hy].
        -- apply in_or_app. left. apply G2. apply in_or_app. now left.
        -- apply I2 in Hy. apply in_app_or in Hy as [Hy | Hy]; apply in_or_app; [left | now right].
           apply G2. apply in_or_app. now right.
    + (* abort *)
      destruct (abort_batch s b) as [sa da] eqn:Ea. inversion E1; subst.
      simpl in Hn. assert (Ha : NoDup (toks (awaiting s))) by (apply nodup_app_iff in Hn; tauto).
      pose proof (abort_batch_good _ _ _ _ Ha Ea) as [G1 G2].
      assert (Hn1 : NoDup (toks (awaiting s1) ++ reg_tokens r)).
      { eapply nodup_shrink; [exact Hn | | ].
        - apply nodup_app_iff in G1; tauto.
        - intros y Hy. apply G2. apply in_or_app. now right. }
      destruct (IH _ _ _ Hn1 E2) as [N2 I2]. split.
      * apply nodup_app_iff. repeat split; auto.
        -- apply nodup_app_iff in G1; tauto.
        -- intros y Hy Hy'. apply I2 in Hy'. apply in_app_or in Hy' as [Hy' | Hy'].
           ++ apply nodup_app_iff in G1 as (_ & _ & G1). exact (G1 y Hy Hy').
           ++ apply nodup_app_iff in Hn as (_ & _ & Hd). apply (Hd y); auto.
              apply G2. apply in_or_app. now left.
      * intros y Hy. apply in_app_or in Hy as [Hy | Hy].
        -- apply in_or_app. left. apply G2. apply in_or_app. now left.
        -- apply I2 in Hy. apply in_app_or in Hy as [Hy | Hy]; apply in_or_app; [left | now right].
           apply G2. apply in_or_app. now right.
    + (* lifecycle *)
      inversion E1; subst. simpl in *. exact (IH _ _ _ Hn E2).
Qed.

(* success only in the step that executed the command *)
Lemma complete_deliv s id o s' d x : complete s id o = (s', d) -> In x d -> fst (fst x) = id /\ snd x = o.
Proof.
  unfold complete. destruct (aw_find (awaiting s) id); intros H; inversion H; subst; simpl; [|tauto].
  intros [<- | []]. auto.
Qed.

Lemma exec_cmd_success s c s' x d id w : exec_cmd s c = (s', x, d) -> In (id, w, OSuccess) d ->
  x = [c] /\ cid c = id.
Proof.
  unfold exec_cmd. destruct (is_dup (last_exec s) c).
  - destruct (complete s (cid c) OFailure) as [s1 d1] eqn:E. intros H Hi; inversion H; subst.
    apply (complete_deliv _ _ _ _ _ _ E) in Hi as [_ Hi]. discriminate.
  - match goal with |- context [complete ?S _ _] => destruct (complete S (cid c) OSuccess) as [s2 d2] eqn:E end.
    intros H Hi; inversion H; subst. apply (complete_deliv _ _ _ _ _ _ E) in Hi as [Hi _]. auto.
Qed.

Lemma exec_batch_success : forall b s s' x d id w, exec_batch s b = (s', x, d) -> In (id, w, OSuccess) d ->
  exists c, In c b /\ In c x /\ cid c = id.
Proof.
  induction b as [|c b IH]; intros s s' x d id w H Hi; cbn [exec_batch] in H.
  - inversion H; subst. destruct Hi.
  - destruct (exec_cmd s c) as [[s1 x1] d1] eqn:E1. destruct (exec_batch s1 b) as [[s2 x2] d2] eqn:E2.
    inversion H; subst. apply in_app_or in Hi as [Hi | Hi].
    + destruct (exec_cmd_success _ _ _ _ _ _ _ E1 Hi) as [-> Hc]. exists c. simpl. auto.
    + destruct (IH _ _ _ _ _ _ E2 Hi) as (c' & A & B & C). exists c'. repeat split; auto.
      * now right.
      * apply in_or_app. now right.
Qed.

Lemma abort_batch_no_success : forall b s s' d id w, abort_batch s b = (s', d) -> ~ In (id, w, OSuccess) d.
Proof.
  induction b as [|c b IH]; intros s s' d id w H Hi; cbn [abort_batch] in H.
  - inversion H; subst. destruct Hi.
  - destruct (complete s (cid c) OFailure) as [s1 d1] eqn:E1. destruct (abort_batch s1 b) as [s2 d2] eqn:E2.
    inversion H; subst. apply in_app_or in Hi as [Hi | Hi].
    + apply (complete_deliv _ _ _ _ _ _ E1) in Hi as [_ Hi]. discriminate.
    + exact (IH _ _ _ _ _ E2 Hi).
Qed.

Lemma cstep_success s e s' x d id w : cstep s e = (s', x, d) -> In (id, w, OSuccess) d ->
  exists b c, e = CExec b /\ In c b /\ In c x /\ cid c = id.
Proof.
  destruct e as [i t | b | b | ]; cbn [cstep].
  - intros H Hi; inversion H; subst. destruct Hi.
  - intros H Hi. destruct (exec_batch_success _ _ _ _ _ _ _ H Hi) as (c & A & B & C). exists b, c. auto.
  - destruct (abort_batch s b) as [sa da] eqn:Ea. intros H Hi; inversion H; subst.
    exfalso. exact (abort_batch_no_success _ _ _ _ _ _ Ea Hi).
  - intros H Hi; inversion H; subst. destruct Hi.
Qed.

Lemma crun_nth : forall evs s s' outs i e, crun s evs = (s', outs) -> nth_error evs i = Some e ->
  exists si si' x d, cstep si e = (si', x, d) /\ nth_error outs i = Some (x, d).
Proof.
  induction evs as [|e0 r IH]; intros s s' outs i e H Hn; [destruct i; discriminate|].
  cbn [crun] in H. destruct (cstep s e0) as [[s1 x] d] eqn:E1. destruct (crun s1 r) as [s2 o2] eqn:E2.
  inversion H; subst. destruct i as [|i]; simpl in Hn.
  - inversion Hn; subst. exists s, s1, x, d. auto.
  - destruct (IH _ _ _ _ _ E2 Hn) as (si & si' & x' & d' & A & B). exists si, si', x', d'. auto.
Qed.

(* ------------------------------------------------------------------------------------------ *)
(* committer                                                                                   *)

Fixpoint linked (bs : list block) (prev : block) (l : list block) : Prop :=
  match l with
  | [] => True
  | x :: r => blk_get bs (b_parent x) = Some prev /\ linked bs x r
  end.

Lemma last_cons_default {A} (l : list A) : forall x a b, last (x :: l) a = last (x :: l) b.
Proof. induction l as [|y r IH]; intros x a b; [reflexivity|]. exact (IH y a b). Qed.

Lemma linked_snoc bs : forall l prev b,
  linked bs prev l -> blk_get bs (b_parent b) = Some (last l prev) -> linked bs prev (l ++ [b]).
Proof.
  induction l as [|x r IH]; intros prev b Hl Hb.
  - simpl in *. split; auto.
  - destruct Hl as [H1 H2]. cbn [app linked]. split; auto. apply IH; auto.
    destruct r as [|y r']; [exact Hb|]. rewrite Hb. f_equal.
    change (last (x :: y :: r') prev) with (last (y :: r') prev). apply last_cons_default.
Qed.

Lemma last_snoc {A} (l : list A) (b d : A) : last (l ++ [b]) d = b.
Proof. induction l as [|x r IH]; simpl; auto. destruct (r ++ [b]) eqn:E; [destruct r; discriminate | exact IH]. Qed.

(* the store only grows, and only by blocks under their own hash *)
Definition extends (bs bs' : list block) : Prop := forall h x, blk_get bs h = Some x -> blk_get bs' h = Some x.

Lemma extends_refl bs : extends bs bs.
Proof. intros h x H; exact H. Qed.
Lemma extends_trans a b c : extends a b -> extends b c -> extends a c.
Proof. intros H1 H2 h x H. auto. Qed.

Lemma blk_get_hash bs h x : blk_get bs h = Some x -> b_hash x = h.
Proof.
  induction bs as [|y r IH]; simpl; [discriminate|]. destruct (N.eqb (b_hash y) h) eqn:E.
  - intros H; inversion H; subst. now apply N.eqb_eq.
  - exact IH.
Qed.

Lemma blk_get_snoc_some bs b h x : blk_get bs h = Some x -> blk_get (bs ++ [b]) h = Some x.
Proof.
  induction bs as [|y r IH]; simpl; [discriminate|]. destruct (N.eqb (b_hash y) h); auto.
Qed.

Lemma blk_get_snoc_none bs b h : blk_get bs h = None -> b_hash b = h -> blk_get (bs ++ [b]) h = Some b.
Proof.
  induction bs as [|y r IH]; simpl.
  - intros _ ->. now rewrite N.eqb_refl.
  - destruct (N.eqb (b_hash y) h); [discriminate | exact IH].
Qed.

Lemma chain_get_spec ch remote h o ch1 : chain_get ch remote h = (o, ch1) ->
  extends (blocks ch) (blocks ch1) /\ (forall p, o = Some p -> blk_get (blocks ch1) h = Some p).
Proof.
  unfold chain_get. destruct (blk_get (blocks ch) h) as [x|] eqn:E.
  - intros H; inversion H; subst. split; [apply extends_refl|]. intros p Hp; inversion Hp; subst; auto.
  - destruct (blk_get remote h) as [x|] eqn:Er; intros H; inversion H; subst; simpl.
    + split.
      * intros h' y Hy. now apply blk_get_snoc_some.
      * intros p Hp; inversion Hp; subst. apply blk_get_snoc_none; auto. eapply blk_get_hash; eauto.
    + split; [apply extends_refl | discriminate].
Qed.

(* a successful walk is the parent-linked path (in the store after the fetches) from just above
   the committed view up to b, ancestor first *)
Lemma walk_spec : forall fuel remote ch b cv ch' l, commit_walk fuel remote ch b cv = (ch', Ok l) ->
  extends (blocks ch) (blocks ch')
  /\ ((l = [] /\ b_view b <= cv)
      \/ (exists p, b_view p <= cv /\ linked (blocks ch') p l /\ last l p = b /\ Forall (fun x => cv < b_view x) l)).
Proof.
  induction fuel as [|k IH]; intros remote ch b cv ch' l H; simpl in H.
  - destruct (b_view b <=? cv) eqn:E; [|discriminate]. inversion H; subst.
    split; [apply extends_refl|]. left. split; auto. now apply N.leb_le.
  - destruct (b_view b <=? cv) eqn:E.
    + inversion H; subst. split; [apply extends_refl|]. left. split; auto. now apply N.leb_le.
    + apply N.leb_gt in E. destruct (chain_get ch remote (b_parent b)) as [[p|] ch1] eqn:Ep; [|discriminate].
      destruct (commit_walk k remote ch1 p cv) as [ch2 [l0| |]] eqn:Ew; try discriminate. inversion H; subst.
      apply chain_get_spec in Ep as [Hext Hp]. specialize (Hp p eq_refl).
      destruct (IH _ _ _ _ _ _ Ew) as [Hext2 Hcases]. split; [eapply extends_trans; eauto|].
      right. destruct Hcases as [[-> Hv] | (q & Hq & Hl & Hlast & Hall)].
      * exists p. simpl. repeat split; auto.
      * exists q. repeat split; auto.
        -- apply linked_snoc; auto. rewrite Hlast. auto.
        -- apply last_snoc.
        -- apply Forall_app. split; auto.
Qed.

Definition is_abort (e : emit) : bool := match e with EmAbort _ => true | _ => false end.
Definition emit_execs (es : list emit) : list (list cmd) :=
  flat_map (fun e => match e with EmExec b => [b] | _ => [] end) es.
Definition emit_commits (es : list emit) : list hash :=
  flat_map (fun e => match e with EmCommit h => [h] | _ => [] end) es.

Lemma emit_block_execs l : emit_execs (flat_map emit_block l) = map b_cmds l.
Proof. induction l; simpl; auto. now rewrite IHl. Qed.
Lemma emit_block_commits l : emit_commits (flat_map emit_block l) = map b_hash l.
Proof. induction l; simpl; auto. now rewrite IHl. Qed.
Lemma emit_block_no_abort l : forallb (fun e => negb (is_abort e)) (flat_map emit_block l) = true.
Proof. induction l; simpl; auto. Qed.
Lemma emit_aborts_execs (f : list (list cmd)) : emit_execs (map EmAbort f) = [].
Proof. induction f; simpl; auto. Qed.

Lemma commit_emission remote ch c b aborted ch' c' es : commit remote ch c b aborted = (ch', Ok (c', es)) ->
  exists l,
    commit_walk (walk_fuel remote ch) remote ch b (b_view c) = (ch', Ok l)
    /\ c' = last l c
    /\ es = flat_map emit_block l ++ map EmAbort aborted.
Proof.
  unfold commit. destruct (commit_walk _ _ _ b (b_view c)) as [ch1 [l| |]] eqn:Ew; try discriminate.
  intros H; inversion H; subst. exists l. auto.
Qed.

(* feeding emissions to the ClientIO *)
Lemma feed_spec : forall es s s' x d, feed s es = (s', x, d) ->
  exec_filter (last_exec s) (concat (emit_execs es)) = (last_exec s', x)
  /\ digest s' = digest s ++ payload x /\ count s' = count s + N.of_nat (length x).
Proof.
  induction es as [|e r IH]; intros s s' x d H; cbn [feed] in H.
  - inversion H; subst. simpl. rewrite app_nil_r, N.add_0_r. auto.
  - destruct e as [h | b | b].
    + destruct (feed s r) as [[s2 x2] d2] eqn:E2. inversion H; subst. simpl. now apply IH in E2.
    + destruct (exec_batch s b) as [[s1 x1] d1] eqn:E1. destruct (feed s1 r) as [[s2 x2] d2] eqn:E2.
      inversion H; subst. apply exec_batch_spec in E1 as (F1 & D1 & C1). apply IH in E2 as (F2 & D2 & C2).
      cbn [emit_execs flat_map concat app]. fold (emit_execs r). rewrite exec_filter_app, F1, F2.
      unfold payload in *. rewrite flat_map_app, app_length, D2, D1, C2, C1, app_assoc.
      repeat split; auto. lia.
    + destruct (abort_batch s b) as [s1 d1] eqn:E1. destruct (feed s1 r) as [[s2 x2] d2] eqn:E2.
      inversion H; subst. apply abort_batch_fields in E1 as (A & B & C). apply IH in E2 as (F2 & D2 & C2).
      simpl. fold (emit_execs r). rewrite <- A, <- B, <- C. auto.
Qed.

(* one replica: what was executed is the filter over the commands of the committed blocks *)
Lemma rstep_spec r o r' res x d : rstep r o = (r', res, x, d) ->
  exists newlog, r_log r' = r_log r ++ newlog
  /\ exec_filter (last_exec (r_cio r)) (flat_map b_cmds newlog) = (last_exec (r_cio r'), x)
  /\ digest (r_cio r') = digest (r_cio r) ++ payload x
  /\ count (r_cio r') = count (r_cio r) + N.of_nat (length x).
Proof.
  destruct o as [b | b target remote aborted | id w]; cbn [rstep].
  - intros H; inversion H; subst. exists []. simpl. rewrite !app_nil_r, N.add_0_r. auto.
  - unfold try_commit. destruct target as [t|].
    + remember (snd (commit_walk (walk_fuel remote (store_block (r_chain r) b)) remote
                                 (store_block (r_chain r) b) t (b_view (r_committed r)))) as W eqn:HW.
      destruct (commit remote (store_block (r_chain r) b) (r_committed r) t aborted) as [ch2 [[c2 es]| |]] eqn:Ec.
      * destruct (feed (r_cio r) es) as [[s2 x2] d2] eqn:Ef. intros H; inversion H; subst r' res x d.
        apply commit_emission in Ec as (l & Hw & Hc & Hes). rewrite Hw in HW.
        simpl in HW. subst W.
        exists l. cbn [r_log r_cio snd]. apply feed_spec in Ef as (F & D & C).
        rewrite Hes in F. unfold emit_execs in F. rewrite flat_map_app in F.
        fold (emit_execs (flat_map emit_block l)) in F.
        fold (emit_execs (map EmAbort aborted)) in F.
        rewrite emit_block_execs, emit_aborts_execs, app_nil_r in F.
        rewrite <- flat_map_concat_map in F. auto.
      * intros H; inversion H; subst. exists []. simpl. rewrite !app_nil_r, N.add_0_r. auto.
      * intros H; inversion H; subst. exists []. simpl. rewrite !app_nil_r, N.add_0_r. auto.
    + simpl. intros H; inversion H; subst. exists []. simpl. rewrite !app_nil_r, N.add_0_r. auto.
  - intros H; inversion H; subst. exists []. simpl. rewrite !app_nil_r, N.add_0_r. auto.
Qed.

Lemma rrun_spec : forall ops r r' X, rrun r ops = (r', X) ->
  exists newlog, r_log r' = r_log r ++ newlog
  /\ exec_filter (last_exec (r_cio r)) (flat_map b_cmds newlog) = (last_exec (r_cio r'), X)
  /\ digest (r_cio r') = digest (r_cio r) ++ payload X
  /\ count (r_cio r') = count (r_cio r) + N.of_nat (length X).
Proof.
  induction ops as [|o rest IH]; intros r r' X H; cbn [rrun] in H.
  - inversion H; subst. exists []. simpl. rewrite !app_nil_r, N.add_0_r. auto.
  - destruct (rstep r o) as [[[r1 res] x1] d1] eqn:E1. destruct (rrun r1 rest) as [r2 x2] eqn:E2.
    inversion H; subst. apply rstep_spec in E1 as (l1 & L1 & F1 & D1 & C1).
    apply IH in E2 as (l2 & L2 & F2 & D2 & C2). exists (l1 ++ l2).
    rewrite flat_map_app, exec_filter_app, F1, F2. unfold payload in *.
    rewrite flat_map_app, app_length, D2, D1, C2, C1, L2, L1, !app_assoc. repeat split; auto. lia.
Qed.

(* ------------------------------------------------------------------------------------------ *)
(* the exported statements                                                                     *)

(* exec_is_fold, ClientIO form: whatever registrations and aborts are interleaved and however the
   stream is cut into batches, the executed sequence is the left fold of the duplicate filter over
   the Exec batches; digest and count are functions of it *)
Theorem exec_is_fold_cio : forall evs s' outs, crun cio_init evs = (s', outs) ->
  executed_of outs = snd (fold_exec [] (exec_batches evs))
  /\ digest s' = payload (executed_of outs)
  /\ count s' = N.of_nat (length (executed_of outs)).
Proof.
  intros evs s' outs H. apply crun_spec in H as (F & D & C). simpl in *.
  rewrite fold_exec_concat, F. auto.
Qed.

(* exec_is_fold, replica form: the executed command sequence of a replica is the left fold of
   the duplicate filter over the command batches of its committed block sequence (r_log), in
   chain order *)
Theorem exec_is_fold : forall ops r X, rrun replica_init ops = (r, X) ->
  X = snd (fold_exec [] (map b_cmds (r_log r)))
  /\ digest (r_cio r) = payload X
  /\ count (r_cio r) = N.of_nat (length X).
Proof.
  intros ops r X H. apply rrun_spec in H as (l & L & F & D & C). simpl in *. subst.
  rewrite fold_exec_concat, <- flat_map_concat_map, F. auto.
Qed.

Theorem exec_prefix : forall ops1 ops2 r1 X1 r2 X2,
  rrun replica_init ops1 = (r1, X1) -> rrun replica_init ops2 = (r2, X2) ->
  prefix (r_log r1) (r_log r2) ->
  prefix X1 X2
  /\ prefix (digest (r_cio r1)) (digest (r_cio r2))
  /\ count (r_cio r1) <= count (r_cio r2)
  /\ (count (r_cio r1) = count (r_cio r2) -> X1 = X2 /\ digest (r_cio r1) = digest (r_cio r2)).
Proof.
  intros ops1 ops2 r1 X1 r2 X2 H1 H2 Hp.
  apply rrun_spec in H1 as (l1 & L1 & F1 & D1 & C1). apply rrun_spec in H2 as (l2 & L2 & F2 & D2 & C2).
  simpl in *. subst l1 l2.
  assert (HX : prefix X1 X2).
  { assert (Hp' : prefix (flat_map b_cmds (r_log r1)) (flat_map b_cmds (r_log r2))).
    { destruct Hp as [t ->]. rewrite flat_map_app. now eexists. }
    pose proof (exec_filter_prefix [] _ _ Hp') as P. now rewrite F1, F2 in P. }
  rewrite D1, D2, C1, C2. repeat split; auto.
  - destruct HX as [t ->]. unfold payload. rewrite flat_map_app. now eexists.
  - apply prefix_length in HX. lia.
  - apply prefix_same_length; auto. lia.
  - f_equal. apply prefix_same_length; auto. lia.
Qed.

Theorem exec_once : forall ops r X, rrun replica_init ops = (r, X) ->
  ForallOrdPairs ordered_pair X /\ NoDup (map cid X).
Proof.
  intros ops r X H. apply rrun_spec in H as (l & _ & F & _). apply exec_filter_ordered in F as [_ Ho].
  split; auto. now apply ordered_nodup.
Qed.

Theorem exec_once_cio : forall evs s' outs, crun cio_init evs = (s', outs) ->
  ForallOrdPairs ordered_pair (executed_of outs) /\ NoDup (map cid (executed_of outs)).
Proof.
  intros evs s' outs H. apply crun_spec in H as (F & _). apply exec_filter_ordered in F as [_ Ho].
  split; auto. now apply ordered_nodup.
Qed.

Theorem one_outcome : forall evs s' outs, NoDup (reg_tokens evs) -> crun cio_init evs = (s', outs) ->
  NoDup (dtoks (delivered_of outs)) /\ incl (dtoks (delivered_of outs)) (reg_tokens evs).
Proof. intros evs s' outs Hn H. exact (crun_tokens evs cio_init s' outs Hn H). Qed.

Theorem success_after_exec : forall evs s s' outs i e x d id w,
  crun s evs = (s', outs) -> nth_error evs i = Some e -> nth_error outs i = Some (x, d) ->
  In (id, w, OSuccess) d ->
  exists b c, e = CExec b /\ In c b /\ In c x /\ cid c = id.
Proof.
  intros evs s s' outs i e x d id w H He Ho Hi.
  destruct (crun_nth _ _ _ _ _ _ H He) as (si & si' & x' & d' & Hs & Ho').
  rewrite Ho in Ho'. inversion Ho'; subst. eapply cstep_success; eauto.
Qed.

(* committer: a successful commit emits, for the parent-linked path from just above the
   committed block up to the target, CommitEvent and ExecuteEvent per block ancestor first,
   and only then the AbortEvents *)
Theorem commit_order : forall remote ch c b aborted ch' c' es,
  commit remote ch c b aborted = (ch', Ok (c', es)) ->
  exists l,
    es = flat_map emit_block l ++ map EmAbort aborted
    /\ forallb (fun e => negb (is_abort e)) (flat_map emit_block l) = true
    /\ forallb is_abort (map EmAbort aborted) = true
    /\ emit_execs es = map b_cmds l /\ emit_commits es = map b_hash l
    /\ c' = last l c
    /\ extends (blocks ch) (blocks ch')
    /\ ((l = [] /\ b_view b <= b_view c)
        \/ exists p, b_view p <= b_view c /\ linked (blocks ch') p l /\ last l p = b
                     /\ Forall (fun x => b_view c < b_view x) l).
Proof.
  intros remote ch c b aborted ch' c' es H. apply commit_emission in H as (l & Hw & Hc & Hes).
  exists l. repeat split; auto.
  - apply emit_block_no_abort.
  - clear. induction aborted; simpl; auto.
  - subst es. unfold emit_execs. rewrite flat_map_app.
    fold (emit_execs (flat_map emit_block l)). fold (emit_execs (map EmAbort aborted)).
    now rewrite emit_block_execs, emit_aborts_execs, app_nil_r.
  - subst es. unfold emit_commits. rewrite flat_map_app.
    fold (emit_commits (flat_map emit_block l)). rewrite emit_block_commits.
    assert (E : flat_map (fun e => match e with EmCommit h => [h] | _ => [] end) (map EmAbort aborted) = [])
      by (clear; induction aborted; simpl; auto).
    now rewrite E, app_nil_r.
  - exact (proj1 (walk_spec _ _ _ _ _ _ _ Hw)).
  - exact (proj2 (walk_spec _ _ _ _ _ _ _ Hw)).
Qed.

(* an error of the walk emits nothing and leaves the committed block alone (by construction of
   try_commit); stated for the record *)
Theorem try_commit_error : forall remote ch c b target aborted ch' c' r,
  try_commit remote ch c b target aborted = (ch', c', r) -> (forall es, r <> Ok es) -> c' = c.
Proof.
  intros remote ch c b target aborted ch' c' r H Hr. unfold try_commit in H. destruct target as [t|].
  - destruct (commit remote (store_block ch b) c t aborted) as [ch2 [[c2 es]| |]]; inversion H; subst; auto.
    exfalso. exact (Hr es eq_refl).
  - inversion H; subst. exfalso. exact (Hr [] eq_refl).
Qed.

(* the ghost log is exactly the blocks announced by CommitEvents, in order *)
Theorem log_is_commit_events : forall r o r' es x d, rstep r o = (r', Ok es, x, d) ->
  map b_hash (r_log r') = map b_hash (r_log r) ++ emit_commits es.
Proof.
  intros r o r' es x d. destruct o as [b | b target remote aborted | id w]; cbn [rstep].
  - intros H; inversion H; subst. simpl. now rewrite app_nil_r.
  - unfold try_commit. destruct target as [t|].
    + remember (snd (commit_walk (walk_fuel remote (store_block (r_chain r) b)) remote
                                 (store_block (r_chain r) b) t (b_view (r_committed r)))) as W eqn:HW.
      destruct (commit remote (store_block (r_chain r) b) (r_committed r) t aborted) as [ch2 [[c2 es2]| |]] eqn:Ec.
      * destruct (feed (r_cio r) es2) as [[s2 x2] d2] eqn:Ef. intros H; inversion H; subst r' es x d.
        apply commit_emission in Ec as (l & Hw & Hc & Hes). rewrite Hw in HW. simpl in HW. subst W.
        cbn [r_log]. rewrite map_app. f_equal. subst es2. unfold emit_commits. rewrite flat_map_app.
        fold (emit_commits (flat_map emit_block l)). rewrite emit_block_commits.
        assert (E : flat_map (fun e => match e with EmCommit h => [h] | _ => [] end) (map EmAbort aborted) = [])
          by (clear; induction aborted; simpl; auto).
        now rewrite E, app_nil_r.
      * intros H; inversion H.
      * intros H; inversion H.
    + simpl. intros H; inversion H; subst. simpl. now rewrite !app_nil_r.
  - intros H; inversion H; subst. simpl. now rewrite app_nil_r.
Qed.

(* C15, concurrency (partial): a small-step semantics of CommandCache used by many goroutines.

   Atomic steps = what the Go memory model lets us treat as indivisible:
     * a mutex-protected section up to its channel operation (lock ... append / extraction),
     * the non-blocking send on [ready] together with the unlock that follows it
       (signalReady; Unlock — the thread still holds the mutex while sending),
     * the receive from [ready] in Get's select (no mutex held!),
     * the ctx.Done() branch of the select.
   Threads are numbered; [pcs i] is the program counter of thread i.  The shared part is the
   sequential model's [state] (ready = "the token is in the channel"), [lock] is the mutex holder.
   Ghost fields [g_acc], [g_out] record the accepted commands and the extracted batches in the
   order in which the corresponding sections ran.

   What this semantics does not contain: scheduler fairness (whether an enabled step is
   eventually taken) and the timing of context cancellation.  Those are only exercised by the
   -race soak of the harness. *)
From Coq Require Import List Bool NArith Lia ZifyBool ZifyNat ZifyN.
From HS Require Import Base.Prelude Batch.BatchModel Batch.BatchProofs.
Import ListNotations.
Open Scope N_scope.

Inductive pc :=
| PIdle                       (* not inside a CommandCache method *)
| PAdd1 (c : cmd)             (* Add c: before mut.Lock() *)
| PAdd2                       (* Add: appended, hasFullBatch() was true, holds the mutex, before signalReady *)
| PProp (b : list cmd)        (* Proposed b: before mut.Lock() *)
| PGetWait                    (* Get: at the select *)
| PGetRecv                    (* Get: received from ready, before mut.Lock() *)
| PGetSig (b : list cmd)      (* Get: extracted b, another batch is full, holds the mutex, before signalReady *)
| PGetDone (b : list cmd)     (* Get returned (b, nil) *)
| PGetCancelled.              (* Get returned (nil, ctx.Err()) *)

Record cstate := mkC {
  sh : state;
  lock : option nat;
  pcs : nat -> pc;
  g_acc : list cmd;
  g_out : list (list cmd)
}.

Definition upd (f : nat -> pc) (i : nat) (p : pc) : nat -> pc :=
  fun j => if Nat.eqb j i then p else f j.

Definition cinit (bs : N) : cstate := mkC (init bs) None (fun _ => PIdle) [] [].

Inductive label :=
| LCall | LReturn | LAddReject | LAddAppend | LSignal | LProposed
| LRecv | LCancel | LFalseAlarm | LExtract (b : list cmd).

(* visible = everything except entering/leaving a method and the context being cancelled *)
Definition internal (l : label) : bool :=
  match l with LCall | LReturn | LCancel => false | _ => true end.

Inductive cstep : cstate -> nat -> label -> cstate -> Prop :=
(* the environment calls a method / a method returns *)
| s_call_add s i c : pcs s i = PIdle ->
    cstep s i LCall (mkC (sh s) (lock s) (upd (pcs s) i (PAdd1 c)) (g_acc s) (g_out s))
| s_call_prop s i b : pcs s i = PIdle ->
    cstep s i LCall (mkC (sh s) (lock s) (upd (pcs s) i (PProp b)) (g_acc s) (g_out s))
| s_call_get s i : pcs s i = PIdle ->
    cstep s i LCall (mkC (sh s) (lock s) (upd (pcs s) i PGetWait) (g_acc s) (g_out s))
| s_ret_done s i b : pcs s i = PGetDone b ->
    cstep s i LReturn (mkC (sh s) (lock s) (upd (pcs s) i PIdle) (g_acc s) (g_out s))
| s_ret_cancelled s i : pcs s i = PGetCancelled ->
    cstep s i LReturn (mkC (sh s) (lock s) (upd (pcs s) i PIdle) (g_acc s) (g_out s))
(* Add *)
| s_add_reject s i c : pcs s i = PAdd1 c -> lock s = None -> add_core (sh s) c = None ->
    cstep s i LAddReject (mkC (sh s) None (upd (pcs s) i PIdle) (g_acc s) (g_out s))
| s_add_nosignal s i c st' : pcs s i = PAdd1 c -> lock s = None ->
    add_core (sh s) c = Some st' -> has_full st' = false ->
    cstep s i LAddAppend (mkC st' None (upd (pcs s) i PIdle) (g_acc s ++ [c]) (g_out s))
| s_add_append s i c st' : pcs s i = PAdd1 c -> lock s = None ->
    add_core (sh s) c = Some st' -> has_full st' = true ->
    cstep s i LAddAppend (mkC st' (Some i) (upd (pcs s) i PAdd2) (g_acc s ++ [c]) (g_out s))
| s_add_signal s i : pcs s i = PAdd2 -> lock s = Some i ->
    cstep s i LSignal (mkC (signal (sh s)) None (upd (pcs s) i PIdle) (g_acc s) (g_out s))
(* Proposed *)
| s_proposed s i b : pcs s i = PProp b -> lock s = None ->
    cstep s i LProposed (mkC (proposed (sh s) b) None (upd (pcs s) i PIdle) (g_acc s) (g_out s))
(* Get *)
| s_get_recv s i : pcs s i = PGetWait -> ready (sh s) = true ->
    cstep s i LRecv (mkC (unsignal (sh s)) (lock s) (upd (pcs s) i PGetRecv) (g_acc s) (g_out s))
| s_get_cancel s i : pcs s i = PGetWait ->
    cstep s i LCancel (mkC (sh s) (lock s) (upd (pcs s) i PGetCancelled) (g_acc s) (g_out s))
| s_get_notfull s i : pcs s i = PGetRecv -> lock s = None -> has_full (sh s) = false ->
    cstep s i LFalseAlarm (mkC (sh s) None (upd (pcs s) i PGetWait) (g_acc s) (g_out s))
| s_get_fail s i : pcs s i = PGetRecv -> lock s = None -> has_full (sh s) = true ->
    try_extract (sh s) = None ->
    cstep s i LFalseAlarm (mkC (sh s) None (upd (pcs s) i PGetWait) (g_acc s) (g_out s))
| s_get_extract_last s i b st2 : pcs s i = PGetRecv -> lock s = None -> has_full (sh s) = true ->
    try_extract (sh s) = Some (b, st2) -> has_full st2 = false ->
    cstep s i (LExtract b) (mkC st2 None (upd (pcs s) i (PGetDone b)) (g_acc s) (g_out s ++ [b]))
| s_get_extract_more s i b st2 : pcs s i = PGetRecv -> lock s = None -> has_full (sh s) = true ->
    try_extract (sh s) = Some (b, st2) -> has_full st2 = true ->
    cstep s i (LExtract b) (mkC st2 (Some i) (upd (pcs s) i (PGetSig b)) (g_acc s) (g_out s ++ [b]))
| s_get_signal s i b : pcs s i = PGetSig b -> lock s = Some i ->
    cstep s i LSignal (mkC (signal (sh s)) None (upd (pcs s) i (PGetDone b)) (g_acc s) (g_out s)).

Inductive creach (bs : N) : cstate -> Prop :=
| cr_init : creach bs (cinit bs)
| cr_step s i l s' : creach bs s -> cstep s i l s' -> creach bs s'.

(* ------------------------------------------------------------------------------------------ *)

Definition holds_lock (p : pc) : Prop := p = PAdd2 \/ exists b, p = PGetSig b.

Definition fresh_count (s : cstate) : N := len (ff (seqs (sh s)) (cache (sh s))).

Record CInv (bs : N) (s : cstate) : Prop := {
  ci_safe : Safe bs (sh s) (g_acc s) (g_out s);
  (* the mutex holder is a thread that is about to send on [ready] *)
  ci_lock : forall i, lock s = Some i -> holds_lock (pcs s i);
  (* token_when_ready: if a full fresh batch is cached, then the token is in the channel, or a
     thread holding the mutex is about to put it there, or a Get that has taken the token has
     not yet run its critical section *)
  ci_token : 1 <= bs -> bs <= fresh_count s ->
             ready (sh s) = true \/ lock s <> None \/ exists j, pcs s j = PGetRecv
}.

Lemma upd_same f i p : upd f i p i = p.
Proof. unfold upd. now rewrite Nat.eqb_refl. Qed.

Lemma upd_other f i p j : j <> i -> upd f i p j = f j.
Proof. unfold upd. intros H. destruct (Nat.eqb j i) eqn:E; auto. apply Nat.eqb_eq in E. congruence. Qed.

Lemma cinv_init bs : CInv bs (cinit bs).
Proof.
  constructor; cbn.
  - apply safe_init.
  - discriminate.
  - unfold fresh_count, len. cbn. lia.
Qed.

Ltac upd_cases i j :=
  destruct (Nat.eq_dec j i) as [->|?]; [rewrite ?upd_same in *|rewrite ?upd_other in * by assumption].

(* a thread that is not at PGetRecv stays irrelevant for the third disjunct *)
Lemma recv_preserved (f : nat -> pc) i p :
  f i <> PGetRecv -> (exists j, f j = PGetRecv) -> exists j, upd f i p j = PGetRecv.
Proof.
  intros Hi [j Hj]. exists j. rewrite upd_other; auto. intros ->. contradiction.
Qed.

Lemma not_full_few st : has_full st = false -> len (ff (seqs st) (cache st)) < batch_size st.
Proof.
  unfold has_full. intros H. pose proof (ff_length_le (seqs st) (cache st)). unfold len in *. lia.
Qed.

Ltac name_hyps :=
  try match goal with H : add_core _ _ = Some _ |- _ => rename H into Eadd end;
  try match goal with H : has_full _ = false |- _ => rename H into Fnot end;
  try match goal with H : try_extract _ = Some _ |- _ => rename H into Eext end;
  try match goal with H : try_extract _ = None |- _ => rename H into Enone end.

Lemma cinv_step bs s i l s' : CInv bs s -> cstep s i l s' -> CInv bs s'.
Proof.
  intros [Hsafe Hlock Htok] Hstep.
  inversion Hstep; subst; clear Hstep; unfold fresh_count in *; cbn [sh lock pcs g_acc g_out] in *;
    name_hyps; pose proof (safe_bs _ _ _ _ Hsafe) as Hbs.
  (* calls and returns: only the pc of an idle / finished thread changes *)
  1-5: constructor; cbn [sh lock pcs g_acc g_out]; auto;
       [ intros k Hk; specialize (Hlock k Hk); upd_cases i k; auto;
         destruct Hlock as [Hl|[b' Hl]]; congruence
       | intros Hone Hcnt; unfold fresh_count in Hcnt; cbn [sh] in Hcnt; destruct (Htok Hone Hcnt) as [T|[T|T]]; auto;
         right; right; apply recv_preserved; auto; congruence ].
  - (* Add rejected *)
    constructor; cbn [sh lock pcs g_acc g_out]; auto; try discriminate.
    intros Hone Hcnt. unfold fresh_count in Hcnt; cbn [sh] in Hcnt. destruct (Htok Hone Hcnt) as [T|[T|T]]; auto; try congruence.
    right. right. apply recv_preserved; auto. congruence.
  - (* Add, no full batch *)
    constructor; cbn [sh lock pcs g_acc g_out]; try discriminate.
    + eapply safe_add_core; eauto.
    + intros Hone Hcnt. unfold fresh_count in Hcnt; cbn [sh] in Hcnt. exfalso. apply not_full_few in Fnot.
      pose proof (safe_bs _ _ _ _ (safe_add_core _ _ _ _ _ _ Hsafe Eadd)). lia.
  - (* Add, full batch: keeps the mutex for the send *)
    constructor; cbn [sh lock pcs g_acc g_out].
    + eapply safe_add_core; eauto.
    + intros k Hk. injection Hk as <-. rewrite upd_same. left. reflexivity.
    + intros _ _. right. left. discriminate.
  - (* signalReady; Unlock in Add *)
    constructor; cbn [sh lock pcs g_acc g_out]; try discriminate.
    + apply (safe_set_ready _ _ _ _ true Hsafe).
    + intros _ _. left. reflexivity.
  - (* Proposed *)
    constructor; cbn [sh lock pcs g_acc g_out]; try discriminate.
    + apply safe_proposed; auto.
    + intros Hone Hcnt. unfold fresh_count in Hcnt; cbn [sh] in Hcnt.
      assert (Hle : bs <= len (ff (seqs (sh s)) (cache (sh s)))).
      { pose proof (ff_mono_length (seqs (sh s)) (fold_left mark b (seqs (sh s))) (cache (sh s))
                      (fun k => marks_mono b (seqs (sh s)) k)).
        cbn [proposed seqs cache] in Hcnt. unfold len in *. lia. }
      destruct (Htok Hone Hle) as [T|[T|T]]; auto; try congruence.
      right. right. apply recv_preserved; auto. congruence.
  - (* receive the token *)
    constructor; cbn [sh lock pcs g_acc g_out].
    + apply (safe_set_ready _ _ _ _ false Hsafe).
    + intros k Hk. specialize (Hlock k Hk). upd_cases i k; auto.
      destruct Hlock as [Hl|[b' Hl]]; congruence.
    + intros _ _. right. right. exists i. apply upd_same.
  - (* ctx.Done() *)
    constructor; cbn [sh lock pcs g_acc g_out]; auto.
    + intros k Hk. specialize (Hlock k Hk). upd_cases i k; auto.
      destruct Hlock as [Hl|[b' Hl]]; congruence.
    + intros Hone Hcnt. unfold fresh_count in Hcnt; cbn [sh] in Hcnt. destruct (Htok Hone Hcnt) as [T|[T|T]]; auto.
      right. right. apply recv_preserved; auto. congruence.
  - (* false alarm: fewer than batch_size cached *)
    constructor; cbn [sh lock pcs g_acc g_out]; auto; try discriminate.
    intros Hone Hcnt. unfold fresh_count in Hcnt; cbn [sh] in Hcnt. exfalso. apply not_full_few in Fnot. lia.
  - (* false alarm: not enough fresh ones *)
    constructor; cbn [sh lock pcs g_acc g_out]; auto; try discriminate.
    intros Hone Hcnt. unfold fresh_count in Hcnt; cbn [sh] in Hcnt. exfalso. apply try_extract_none in Enone. lia.
  - (* extraction, nothing more to signal *)
    constructor; cbn [sh lock pcs g_acc g_out]; try discriminate.
    + eapply safe_extract; eauto.
    + intros Hone Hcnt. unfold fresh_count in Hcnt; cbn [sh] in Hcnt. exfalso. apply not_full_few in Fnot.
      pose proof (safe_bs _ _ _ _ (safe_extract _ _ _ _ _ _ Hsafe Eext)). lia.
  - (* extraction, keeps the mutex for the re-signal *)
    constructor; cbn [sh lock pcs g_acc g_out].
    + eapply safe_extract; eauto.
    + intros k Hk. injection Hk as <-. rewrite upd_same. right. eauto.
    + intros _ _. right. left. discriminate.
  - (* signalReady; Unlock in Get *)
    constructor; cbn [sh lock pcs g_acc g_out]; try discriminate.
    + apply (safe_set_ready _ _ _ _ true Hsafe).
    + intros _ _. left. reflexivity.
Qed.

Lemma cinv_reach bs s : creach bs s -> CInv bs s.
Proof. induction 1; [apply cinv_init|eapply cinv_step; eauto]. Qed.

(* ------------------------------------------------------------------------------------------ *)
(* Exported statements                                                                         *)

(* Safety under every interleaving: full batches, FIFO and at-most-once, nothing fresh lost. *)
Theorem conc_safety bs s : creach bs s ->
  Forall (fun b => len b = bs) (g_out s) /\
  Subseq (concat (g_out s)) (g_acc s) /\
  exists consumed dropped,
    g_acc s = consumed ++ cache (sh s) /\
    Interleave (concat (g_out s)) dropped consumed /\
    Forall (stale (seqs (sh s))) dropped.
Proof.
  intros R. destruct (ci_safe _ _ (cinv_reach _ _ R)) as [Hbs (consumed & dropped & Hacc & Hil & Hst) Hfull].
  repeat split; auto.
  - rewrite Hacc. apply subseq_app_r. eapply interleave_subseq_l; eauto.
  - exists consumed, dropped. auto.
Qed.

(* Every extraction, in whatever interleaving it happens, takes the oldest fresh commands. *)
Theorem conc_extract_oldest_fresh bs s i b s' : creach bs s -> cstep s i (LExtract b) s' ->
  len b = bs /\
  b = firstn (N.to_nat bs) (filter (fresh (seqs (sh s))) (cache (sh s))) /\
  Forall (fun c => seq_of (seqs (sh s)) (cmd_client c) < cmd_seq c) b /\
  seqs (sh s') = seqs (sh s) /\
  exists examined, cache (sh s) = examined ++ cache (sh s') /\ filter (fresh (seqs (sh s))) examined = b.
Proof.
  intros R Hstep. pose proof (safe_bs _ _ _ _ (ci_safe _ _ (cinv_reach _ _ R))) as Hbs.
  assert (E : exists st2, try_extract (sh s) = Some (b, st2) /\ sh s' = st2).
  { inversion Hstep; subst; eauto. }
  destruct E as (st2 & E & ->). apply try_extract_some in E.
  destruct E as (Hl & _ & Hs & _ & Hb & ex & Hc & Hex).
  rewrite Hbs in *. repeat split; auto.
  - rewrite <- Hex. eapply Forall_impl; [|apply ff_fresh]. intros c. unfold is_dup. lia.
  - exists ex. auto.
Qed.

Theorem token_when_ready bs s : creach bs s -> 1 <= bs ->
  bs <= len (filter (fresh (seqs (sh s))) (cache (sh s))) ->
  lock s = None -> (forall j, pcs s j <> PGetRecv) ->
  ready (sh s) = true.
Proof.
  intros R H1 H2 HL HR. destruct (ci_token _ _ (cinv_reach _ _ R) H1 H2) as [T|[T|[j T]]];
    [auto|congruence|exfalso; apply (HR j T)].
Qed.

(* No lost wake-up, quiescent form: when no thread is inside a section and enough fresh commands
   are cached, a Get waiting at its select can receive, enter its section, and leaves it with the
   oldest fresh batch. *)
Theorem no_lost_wakeup bs s i : creach bs s -> 1 <= bs ->
  bs <= len (filter (fresh (seqs (sh s))) (cache (sh s))) ->
  lock s = None -> (forall j, pcs s j <> PGetRecv) ->
  pcs s i = PGetWait ->
  exists s1 s2 b, cstep s i LRecv s1 /\ cstep s1 i (LExtract b) s2 /\
                  b = firstn (N.to_nat bs) (filter (fresh (seqs (sh s))) (cache (sh s))) /\
                  (pcs s2 i = PGetDone b \/ pcs s2 i = PGetSig b).
Proof.
  intros R H1 H2 HL HR Hi.
  pose proof (token_when_ready bs s R H1 H2 HL HR) as T.
  pose proof (safe_bs _ _ _ _ (ci_safe _ _ (cinv_reach _ _ R))) as Hbs.
  set (s1 := mkC (unsignal (sh s)) (lock s) (upd (pcs s) i PGetRecv) (g_acc s) (g_out s)).
  assert (S1 : cstep s i LRecv s1) by (apply s_get_recv; auto).
  assert (Hfull : has_full (sh s1) = true).
  { apply has_full_ff. cbn [s1 sh unsignal batch_size seqs cache]. unfold ff. lia. }
  destruct (try_extract_enough (sh s1)) as (b & st2 & E).
  { cbn [s1 sh unsignal batch_size seqs cache]. unfold ff. lia. }
  pose proof (try_extract_some _ _ _ E) as (_ & _ & _ & _ & Hb & _).
  cbn [s1 sh unsignal batch_size seqs cache] in Hb. rewrite Hbs in Hb.
  destruct (has_full st2) eqn:F2.
  - exists s1, (mkC st2 (Some i) (upd (pcs s1) i (PGetSig b)) (g_acc s1) (g_out s1 ++ [b])), b.
    repeat split; auto.
    + apply s_get_extract_more; auto. cbn. apply upd_same.
    + right. cbn. apply upd_same.
  - exists s1, (mkC st2 None (upd (pcs s1) i (PGetDone b)) (g_acc s1) (g_out s1 ++ [b])), b.
    repeat split; auto.
    + apply s_get_extract_last; auto. cbn. apply upd_same.
    + left. cbn. apply upd_same.
Qed.

(* No lost wake-up, general form: whenever enough fresh commands are cached and some Get waits,
   an internal step (not a call, a return or a cancellation) is enabled: the system cannot be
   stuck with a waiting Get and a full fresh batch. *)
Theorem waiting_get_not_stuck bs s i : creach bs s -> 1 <= bs ->
  bs <= len (filter (fresh (seqs (sh s))) (cache (sh s))) ->
  pcs s i = PGetWait ->
  exists j l s', cstep s j l s' /\ internal l = true.
Proof.
  intros R H1 H2 Hi. pose proof (cinv_reach _ _ R) as I.
  destruct (ci_token _ _ I H1 H2) as [T|[T|[j T]]].
  - exists i, LRecv. eexists. split; [apply s_get_recv; auto|reflexivity].
  - destruct (lock s) as [k|] eqn:L; [|congruence].
    destruct (ci_lock _ _ I k L) as [P|[b P]].
    + exists k, LSignal. eexists. split; [apply s_add_signal; auto|reflexivity].
    + exists k, LSignal. eexists. split; [eapply s_get_signal; eauto|reflexivity].
  - destruct (lock s) as [k|] eqn:L.
    + destruct (ci_lock _ _ I k L) as [P|[b P]].
      * exists k, LSignal. eexists. split; [apply s_add_signal; auto|reflexivity].
      * exists k, LSignal. eexists. split; [eapply s_get_signal; eauto|reflexivity].
    + destruct (has_full (sh s)) eqn:F.
      * destruct (try_extract (sh s)) as [[b st2]|] eqn:E.
        -- destruct (has_full st2) eqn:F2.
           ++ exists j, (LExtract b). eexists. split; [eapply s_get_extract_more; eauto|reflexivity].
           ++ exists j, (LExtract b). eexists. split; [eapply s_get_extract_last; eauto|reflexivity].
        -- exists j, LFalseAlarm. eexists. split; [eapply s_get_fail; eauto|reflexivity].
      * exists j, LFalseAlarm. eexists. split; [eapply s_get_notfull; eauto|reflexivity].
Qed.

(* A Get ends only by a batch or by cancellation: the only steps out of the select. *)
Theorem get_leaves_select_only_by_token_or_cancel s i l s' :
  pcs s i = PGetWait -> cstep s i l s' ->
  (l = LRecv /\ ready (sh s) = true /\ pcs s' i = PGetRecv) \/ (l = LCancel /\ pcs s' i = PGetCancelled).
Proof.
  intros Hi Hstep. inversion Hstep; subst; cbn [pcs]; try congruence.
  - left. rewrite upd_same. auto.
  - right. rewrite upd_same. auto.
Qed.

(* ------------------------------------------------------------------------------------------ *)
(* Hand-off: ONE buffered token serves SEVERAL waiting Gets.  Two Gets are at their select (parked
   or about to park: the semantics does not distinguish, the receive is enabled as soon as the
   token is there) and at least two full fresh batches are cached.  Then the first Get can take
   the token and the first batch, must pass the wake-up on (it leaves its section through
   PGetSig, i.e. re-signals), and the second Get can take the re-sent token and the next batch. *)

Inductive csteps : cstate -> cstate -> Prop :=
| cs_refl s : csteps s s
| cs_step s i l s' s'' : cstep s i l s' -> csteps s' s'' -> csteps s s''.

Lemma csteps_reach bs s s' : creach bs s -> csteps s s' -> creach bs s'.
Proof. intros R H. induction H; auto. apply IHcsteps. eapply cr_step; eauto. Qed.

Lemma csteps_trans s1 s2 s3 : csteps s1 s2 -> csteps s2 s3 -> csteps s1 s3.
Proof. induction 1; intros; auto. econstructor; eauto. Qed.

Theorem handoff_two_waiters bs s i j : creach bs s -> 1 <= bs ->
  2 * bs <= len (filter (fresh (seqs (sh s))) (cache (sh s))) ->
  lock s = None -> (forall t, pcs s t <> PGetRecv) ->
  i <> j -> pcs s i = PGetWait -> pcs s j = PGetWait ->
  let F := filter (fresh (seqs (sh s))) (cache (sh s)) in
  exists s' b1 b2,
    csteps s s' /\
    pcs s' i = PGetDone b1 /\ (pcs s' j = PGetDone b2 \/ pcs s' j = PGetSig b2) /\
    b1 = firstn (N.to_nat bs) F /\ b2 = firstn (N.to_nat bs) (skipn (N.to_nat bs) F).
Proof.
  intros R H1 H2 HL HR Hij Hi Hj F.
  assert (H2' : bs <= len (filter (fresh (seqs (sh s))) (cache (sh s)))) by lia.
  destruct (no_lost_wakeup bs s i R H1 H2' HL HR Hi) as (s1 & s2 & b1 & S1 & S2 & Hb1 & Hpc).
  pose proof (cr_step _ _ _ _ _ R S1) as R1.
  pose proof (conc_extract_oldest_fresh bs s1 i b1 s2 R1 S2) as (Hl1 & _ & _ & Hseq & ex & Hc & Hex).
  (* the state in which i extracts is s with the token taken *)
  assert (Esh : sh s1 = unsignal (sh s) /\ pcs s1 = upd (pcs s) i PGetRecv /\ lock s1 = None).
  { inversion S1; subst; cbn; try congruence. rewrite HL. auto. }
  destruct Esh as (Esh & Epc1 & EL1).
  rewrite Esh in Hc, Hex, Hseq. cbn [unsignal seqs cache] in Hc, Hex, Hseq.
  (* what is left is still a full fresh batch *)
  assert (HF : F = b1 ++ filter (fresh (seqs (sh s))) (cache (sh s2))).
  { unfold F. rewrite Hc, filter_app, Hex. reflexivity. }
  assert (Hlen1 : length b1 = N.to_nat bs) by (unfold len in Hl1; lia).
  assert (Hrest : skipn (N.to_nat bs) F = filter (fresh (seqs (sh s))) (cache (sh s2))).
  { rewrite HF, <- Hlen1, skipn_app, skipn_all, Nat.sub_diag. reflexivity. }
  assert (Hcnt : bs <= len (filter (fresh (seqs (sh s2))) (cache (sh s2)))).
  { rewrite Hseq, <- Hrest. unfold len in *. rewrite skipn_length. fold F in H2. lia. }
  (* so i leaves through PGetSig and still holds the mutex *)
  assert (E2 : pcs s2 = upd (pcs s1) i (PGetSig b1) /\ lock s2 = Some i /\ g_acc s2 = g_acc s1).
  { inversion S2; subst; cbn.
    - exfalso. match goal with H : has_full _ = false |- _ => apply not_full_few in H end.
      pose proof (safe_bs _ _ _ _ (ci_safe _ _ (cinv_reach _ _ (cr_step _ _ _ _ _ R1 S2)))) as B.
      cbn in B, Hcnt. unfold ff in *. lia.
    - auto. }
  destruct E2 as (Epc2 & EL2 & _).
  set (s3 := mkC (signal (sh s2)) None (upd (pcs s2) i (PGetDone b1)) (g_acc s2) (g_out s2)).
  assert (S3 : cstep s2 i LSignal s3).
  { apply s_get_signal; auto. rewrite Epc2. apply upd_same. }
  pose proof (cr_step _ _ _ _ _ (cr_step _ _ _ _ _ R1 S2) S3) as R3.
  assert (Hj3 : pcs s3 j = PGetWait).
  { cbn. rewrite upd_other by auto. rewrite Epc2, upd_other by auto. rewrite Epc1, upd_other by auto. exact Hj. }
  assert (HR3 : forall t, pcs s3 t <> PGetRecv).
  { intros t. cbn. destruct (Nat.eq_dec t i) as [->|Hne].
    - rewrite upd_same. discriminate.
    - rewrite upd_other by auto. rewrite Epc2, upd_other by auto. rewrite Epc1, upd_other by auto. apply HR. }
  assert (Hcnt3 : bs <= len (filter (fresh (seqs (sh s3))) (cache (sh s3)))) by exact Hcnt.
  destruct (no_lost_wakeup bs s3 j R3 H1 Hcnt3 eq_refl HR3 Hj3) as (s4 & s5 & b2 & S4 & S5 & Hb2 & Hpc5).
  exists s5, b1, b2. repeat split.
  - eapply cs_step; [exact S1|]. eapply cs_step; [exact S2|]. eapply cs_step; [exact S3|].
    eapply cs_step; [exact S4|]. eapply cs_step; [exact S5|]. apply cs_refl.
  - (* i stays done while j moves *)
    assert (E4 : pcs s4 i = pcs s3 i).
    { inversion S4; subst; cbn; rewrite upd_other; auto. }
    assert (E5 : pcs s5 i = pcs s4 i).
    { inversion S5; subst; cbn; rewrite upd_other; auto. }
    rewrite E5, E4. cbn. apply upd_same.
  - exact Hpc5.
  - exact Hb1.
  - rewrite Hb2. cbn [s3 sh signal seqs cache]. rewrite Hseq, Hrest. reflexivity.
Qed.

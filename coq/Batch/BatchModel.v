(* Executable model of internal/proto/clientpb/cmdcache.go (CommandCache) and batch.go (isFull).
   Definitions only.  The branch structure follows the Go code:

     Add            -> [add]          (isDuplicate filter; append; hasFullBatch => signalReady)
     Proposed       -> [proposed]     (for each command: if !isDuplicate then seqs[client] := seq)
     tryExtractBatch-> [try_extract]  (examine a prefix, skip duplicates, all-or-nothing)
     Get            -> [get_step] = one iteration of the for/select loop; [get] = the loop
     signalReady    -> [signal]       (non-blocking send on a 1-slot channel = set a boolean)

   The 1-slot buffered channel [ready] is a boolean: true = the token is in the channel.
   Widths (uint32 batch size / client id, uint64 sequence number, uint32(len(cache))) are not
   modelled: N is unbounded; the harness stays inside the ranges. *)
From HS Require Import Base.Prelude.
Open Scope N_scope.

Definition client := N.
Definition seqno := N.
(* a command instance: client id, sequence number, payload tag (the Data field; only identity matters) *)
Definition cmd := (client * seqno * N)%type.
Definition cmd_client (c : cmd) : client := fst (fst c).
Definition cmd_seq (c : cmd) : seqno := snd (fst c).
Definition cmd_tag (c : cmd) : N := snd c.

Definition cmd_eqb (a b : cmd) : bool :=
  N.eqb (cmd_client a) (cmd_client b) && N.eqb (cmd_seq a) (cmd_seq b) && N.eqb (cmd_tag a) (cmd_tag b).

(* clientSeqNumbers : map[uint32]uint64 as an association list with unique keys; absent = 0 *)
Definition seqmap := list (client * seqno).

Fixpoint seq_of (m : seqmap) (c : client) : seqno :=
  match m with
  | [] => 0
  | (k, v) :: r => if N.eqb k c then v else seq_of r c
  end.

Fixpoint set_seq (m : seqmap) (c : client) (s : seqno) : seqmap :=
  match m with
  | [] => [(c, s)]
  | (k, v) :: r => if N.eqb k c then (k, s) :: r else (k, v) :: set_seq r c s
  end.

Record state := mkState {
  batch_size : N;
  seqs : seqmap;
  cache : list cmd;
  ready : bool
}.

Definition init (bs : N) : state := mkState bs [] [] false.

(* isDuplicate: seqNum >= cmd.SequenceNumber *)
Definition is_dup (m : seqmap) (c : cmd) : bool := N.leb (cmd_seq c) (seq_of m (cmd_client c)).
Definition fresh (m : seqmap) (c : cmd) : bool := negb (is_dup m c).

Definition len {A} (l : list A) : N := N.of_nat (length l).

(* hasFullBatch: len(cache) >= batchSize *)
Definition has_full (st : state) : bool := N.leb (batch_size st) (len (cache st)).

(* signalReady: non-blocking send *)
Definition signal (st : state) : state := mkState (batch_size st) (seqs st) (cache st) true.
Definition unsignal (st : state) : state := mkState (batch_size st) (seqs st) (cache st) false.

Definition resignal (st : state) : state := if has_full st then signal st else st.

(* Add without the signalling part (the section up to and including the append) *)
Definition add_core (st : state) (c : cmd) : option state :=
  if is_dup (seqs st) c then None
  else Some (mkState (batch_size st) (seqs st) (cache st ++ [c]) (ready st)).

Definition add (st : state) (c : cmd) : state :=
  match add_core st c with
  | None => st
  | Some st' => resignal st'
  end.

(* Proposed *)
Definition mark (m : seqmap) (c : cmd) : seqmap :=
  if is_dup m c then m else set_seq m (cmd_client c) (cmd_seq c).

Definition proposed (st : state) (b : list cmd) : state :=
  mkState (batch_size st) (fold_left mark b (seqs st)) (cache st) (ready st).

(* The loop of tryExtractBatch: [batch] so far, [rest] = cache[extracted:].
   Returns the batch and the unexamined remainder. *)
Fixpoint extract_loop (bs : N) (m : seqmap) (rest : list cmd) (batch : list cmd) : list cmd * list cmd :=
  if N.eqb (len batch) bs then (batch, rest)
  else match rest with
       | [] => (batch, [])
       | c :: r => if is_dup m c then extract_loop bs m r batch
                   else extract_loop bs m r (batch ++ [c])
       end.

Definition try_extract (st : state) : option (list cmd * state) :=
  let '(b, rest) := extract_loop (batch_size st) (seqs st) (cache st) [] in
  if N.eqb (len b) (batch_size st)
  then Some (b, mkState (batch_size st) (seqs st) rest (ready st))
  else None.

(* Outcome of (one iteration of) Get *)
Inductive get_res :=
| GBlocked                 (* nothing on [ready]: the select can only take ctx.Done() *)
| GBatch (b : list cmd)    (* returned a batch *)
| GContinue.               (* went round the loop *)

(* The critical section of Get after the token has been received. *)
Definition get_section (st : state) : state * get_res :=
  if negb (has_full st) then (st, GContinue)
  else match try_extract st with
       | Some (b, st2) => (resignal st2, GBatch b)
       | None => (st, GContinue)
       end.

(* One iteration with a context that is cancelled exactly when the select would block. *)
Definition get_step (st : state) : state * get_res :=
  if ready st then get_section (unsignal st) else (st, GBlocked).

Fixpoint get_loop (fuel : nat) (st : state) : state * get_res :=
  match fuel with
  | O => (st, GContinue)
  | S k => let '(st', r) := get_step st in
           match r with
           | GContinue => get_loop k st'
           | _ => (st', r)
           end
  end.

(* Two iterations always suffice (BatchProofs.get_never_continue): a failed iteration leaves no token. *)
Definition get (st : state) : state * get_res := get_loop 2 st.

(* Operations and runs *)
Inductive op :=
| OAdd (c : cmd)
| OProposed (b : list cmd)
| OGet.      (* Get with a context that is done exactly when Get would otherwise block *)

Definition step (st : state) (o : op) : state * get_res :=
  match o with
  | OAdd c => (add st c, GContinue)
  | OProposed b => (proposed st b, GContinue)
  | OGet => get st
  end.

(* Get with an already cancelled context while the token is present: the select may pick either
   ready branch, so the admissible outcomes are "error, nothing changed" and the outcome of [get]. *)
Definition getc_outcomes (st : state) : list (state * get_res) := [(st, GBlocked); get st].

(* Specification bookkeeping for a run: accepted sequence and handed-out batches. *)
Record trace := mkTrace {
  t_state : state;
  t_acc : list cmd;          (* commands that passed Add's filter, in order *)
  t_out : list (list cmd)    (* batches returned by Get, in order *)
}.

Definition trace_step (t : trace) (o : op) : trace :=
  match o with
  | OAdd c =>
      mkTrace (add (t_state t) c)
              (if is_dup (seqs (t_state t)) c then t_acc t else t_acc t ++ [c])
              (t_out t)
  | OProposed b => mkTrace (proposed (t_state t) b) (t_acc t) (t_out t)
  | OGet =>
      let '(st', r) := get (t_state t) in
      mkTrace st' (t_acc t) (match r with GBatch b => t_out t ++ [b] | _ => t_out t end)
  end.

Definition run (bs : N) (ops : list op) : trace := fold_left trace_step ops (mkTrace (init bs) [] []).

(* results of each operation of a run, for the correspondence *)
Fixpoint run_obs (st : state) (ops : list op) : list get_res * state :=
  match ops with
  | [] => ([], st)
  | o :: r => let '(st', g) := step st o in
              let '(gs, stf) := run_obs st' r in (g :: gs, stf)
  end.

(* What the rest of the system can observe of a cache state (used by the correspondence):
   the commands a Get could still hand out, in order, and whether a Get would find the token
   while a full fresh batch is cached.  Stale entries still lying in [cache] and a token without a
   full fresh batch (a spurious wake-up) have no observable effect. *)
Definition fresh_part (st : state) : list cmd := filter (fresh (seqs st)) (cache st).
Definition effective_ready (st : state) : bool :=
  ready st && N.leb (batch_size st) (len (fresh_part st)).

(* k successive Gets (each ending by cancellation if it blocks); the batches they return, in order.
   Also describes k Gets that were already waiting when the state was reached: by the concurrent
   semantics (BatchConc) their critical sections run one after the other. *)
Fixpoint gets (k : nat) (st : state) : state * list (list cmd) :=
  match k with
  | O => (st, [])
  | S k' => let '(st', r) := get st in
            let '(st'', bs) := gets k' st' in
            (st'', match r with GBatch b => b :: bs | _ => bs end)
  end.

(* containsDuplicate (test helper of cmdcache.go) *)
Definition contains_dup (st : state) (b : list cmd) : bool := existsb (is_dup (seqs st)) b.

(* Proofs about Batch.BatchModel (sequential part of C15). *)
From Coq Require Import List Bool NArith Lia ZifyBool ZifyNat ZifyN.
From HS Require Import Base.Prelude Batch.BatchModel.
Import ListNotations.
Open Scope N_scope.

(* ------------------------------------------------------------------------------------------ *)
(* Order-preserving sub-sequences and interleavings (instances, with multiplicity)            *)

Inductive Subseq {A} : list A -> list A -> Prop :=
| ss_nil : Subseq [] []
| ss_take x a l : Subseq a l -> Subseq (x :: a) (x :: l)
| ss_skip x a l : Subseq a l -> Subseq a (x :: l).

(* [Interleave a b l]: l is a merge of a and b, each in its own order, every element of l
   coming from exactly one of them. *)
Inductive Interleave {A} : list A -> list A -> list A -> Prop :=
| il_nil : Interleave [] [] []
| il_l x a b l : Interleave a b l -> Interleave (x :: a) b (x :: l)
| il_r x a b l : Interleave a b l -> Interleave a (x :: b) (x :: l).

Lemma interleave_app {A} (a b l a' b' l' : list A) :
  Interleave a b l -> Interleave a' b' l' -> Interleave (a ++ a') (b ++ b') (l ++ l').
Proof. induction 1; intros H'; cbn; try constructor; auto. Qed.

Lemma interleave_filter {A} (p : A -> bool) (l : list A) :
  Interleave (filter p l) (filter (fun x => negb (p x)) l) l.
Proof.
  induction l as [|x l IH]; cbn; [constructor|].
  destruct (p x); cbn; constructor; exact IH.
Qed.

Lemma interleave_subseq_l {A} (a b l : list A) : Interleave a b l -> Subseq a l.
Proof. induction 1; constructor; auto. Qed.

Lemma interleave_length {A} (a b l : list A) : Interleave a b l -> length l = (length a + length b)%nat.
Proof. induction 1; cbn; lia. Qed.

Lemma interleave_count {A} (eq_dec : forall x y : A, {x = y} + {x <> y}) (a b l : list A) x :
  Interleave a b l -> count_occ eq_dec l x = (count_occ eq_dec a x + count_occ eq_dec b x)%nat.
Proof. induction 1; cbn; repeat destruct (eq_dec _ _); lia. Qed.

Lemma subseq_refl {A} (l : list A) : Subseq l l.
Proof. induction l; constructor; auto. Qed.

Lemma subseq_app_r {A} (a l r : list A) : Subseq a l -> Subseq a (l ++ r).
Proof.
  intros H. induction H; cbn.
  - induction r; constructor; auto.
  - constructor; auto.
  - constructor; auto.
Qed.

Lemma subseq_length {A} (a l : list A) : Subseq a l -> (length a <= length l)%nat.
Proof. induction 1; cbn; lia. Qed.

Lemma subseq_in {A} (a l : list A) x : Subseq a l -> In x a -> In x l.
Proof. induction 1; cbn; intuition. Qed.

(* ------------------------------------------------------------------------------------------ *)
(* Sequence-number map                                                                         *)

Lemma seq_of_set_same m c s : seq_of (set_seq m c s) c = s.
Proof.
  induction m as [|[k v] r IH]; cbn.
  - now rewrite N.eqb_refl.
  - destruct (N.eqb k c) eqn:E; cbn; rewrite E; auto.
Qed.

Lemma seq_of_set_other m c s c' : c' <> c -> seq_of (set_seq m c s) c' = seq_of m c'.
Proof.
  intros Hne. induction m as [|[k v] r IH]; cbn.
  - destruct (N.eqb c c') eqn:E; auto. apply N.eqb_eq in E. congruence.
  - destruct (N.eqb k c) eqn:E; cbn.
    + apply N.eqb_eq in E. subst k. destruct (N.eqb c c') eqn:E'; auto.
      apply N.eqb_eq in E'. congruence.
    + destruct (N.eqb k c'); auto.
Qed.

Lemma mark_mono m c c' : seq_of m c' <= seq_of (mark m c) c'.
Proof.
  unfold mark, is_dup. destruct (N.leb (cmd_seq c) (seq_of m (cmd_client c))) eqn:E; [lia|].
  destruct (N.eq_dec c' (cmd_client c)) as [->|Hne].
  - rewrite seq_of_set_same. lia.
  - rewrite seq_of_set_other by auto. lia.
Qed.

Lemma marks_mono b : forall m c', seq_of m c' <= seq_of (fold_left mark b m) c'.
Proof.
  induction b as [|x b IH]; intros m c'; cbn; [lia|].
  specialize (IH (mark m x) c'). pose proof (mark_mono m x c'). lia.
Qed.

(* after marking, the command is a duplicate *)
Lemma mark_marks m c : is_dup (mark m c) c = true.
Proof.
  unfold mark. destruct (is_dup m c) eqn:E; auto.
  unfold is_dup. rewrite seq_of_set_same. lia.
Qed.

Lemma is_dup_mono m m' c : (forall k, seq_of m k <= seq_of m' k) -> is_dup m c = true -> is_dup m' c = true.
Proof. unfold is_dup. intros H E. specialize (H (cmd_client c)). lia. Qed.

Lemma marks_mark_all b : forall m c, In c b -> is_dup (fold_left mark b m) c = true.
Proof.
  induction b as [|x b IH]; intros m c Hin; [inversion Hin|]. cbn.
  destruct Hin as [->|Hin]; [|auto].
  eapply is_dup_mono; [|apply mark_marks]. intros k. apply marks_mono.
Qed.

(* ------------------------------------------------------------------------------------------ *)
(* Fresh part of a list                                                                        *)

Definition ff (m : seqmap) (l : list cmd) : list cmd := filter (fresh m) l.

Lemma ff_cons m c l : ff m (c :: l) = if is_dup m c then ff m l else c :: ff m l.
Proof. unfold ff, fresh. cbn. now destruct (is_dup m c). Qed.

Lemma ff_app m a b : ff m (a ++ b) = ff m a ++ ff m b.
Proof. apply filter_app. Qed.

Lemma ff_length_le m l : (length (ff m l) <= length l)%nat.
Proof. unfold ff. induction l as [|c l IH]; cbn; [lia|]. destruct (fresh m c); cbn; lia. Qed.

Lemma ff_mono_length m m' l : (forall k, seq_of m k <= seq_of m' k) ->
  (length (ff m' l) <= length (ff m l))%nat.
Proof.
  intros H. unfold ff. induction l as [|c l IH]; cbn; [lia|].
  destruct (fresh m c) eqn:E1, (fresh m' c) eqn:E2; cbn; try lia.
  exfalso. unfold fresh in *. destruct (is_dup m c) eqn:D; [|discriminate].
  rewrite (is_dup_mono m m' c H D) in E2. discriminate.
Qed.

Lemma ff_fresh m l : Forall (fun c => is_dup m c = false) (ff m l).
Proof.
  apply Forall_forall. intros c Hin. apply filter_In in Hin. destruct Hin as [_ H].
  unfold fresh in H. now destruct (is_dup m c).
Qed.

Lemma stale_part m l : Forall (fun c => is_dup m c = true) (filter (fun c => negb (fresh m c)) l).
Proof.
  apply Forall_forall. intros c Hin. apply filter_In in Hin. destruct Hin as [_ H].
  unfold fresh in H. now destruct (is_dup m c).
Qed.

(* ------------------------------------------------------------------------------------------ *)
(* tryExtractBatch                                                                             *)

Lemma len_app {A} (a b : list A) : len (a ++ b) = len a + len b.
Proof. unfold len. rewrite app_length. lia. Qed.

Lemma extract_loop_spec bs m : forall rest batch b rest',
  len batch <= bs ->
  extract_loop bs m rest batch = (b, rest') ->
  exists ex, rest = ex ++ rest' /\ b = batch ++ ff m ex /\
             b = batch ++ firstn (N.to_nat bs - length batch) (ff m rest) /\
             (len b = bs \/ (rest' = [] /\ len b < bs)).
Proof.
  induction rest as [|c r IH]; intros batch b rest' Hle H; cbn in H.
  - destruct (N.eqb (len batch) bs) eqn:E.
    + inversion H; subst. exists []. cbn. rewrite firstn_nil, app_nil_r.
      repeat split; auto. left. lia.
    + inversion H; subst. exists []. cbn. rewrite firstn_nil, app_nil_r.
      repeat split; auto. right. split; auto. lia.
  - destruct (N.eqb (len batch) bs) eqn:E.
    + inversion H; subst. exists []. cbn. rewrite app_nil_r.
      assert (Hz : (N.to_nat bs - length b = 0)%nat) by (unfold len in *; lia).
      rewrite Hz. cbn. rewrite app_nil_r. repeat split; auto. left. lia.
    + assert (Hlt : len batch < bs) by lia.
      destruct (is_dup m c) eqn:D.
      * destruct (IH batch b rest' Hle H) as (ex & -> & Hb & Hf & Hfull).
        exists (c :: ex). rewrite !ff_cons, D. repeat split; auto.
      * assert (Hle' : len (batch ++ [c]) <= bs) by (rewrite len_app; unfold len in *; cbn; lia).
        destruct (IH (batch ++ [c]) b rest' Hle' H) as (ex & -> & Hb & Hf & Hfull).
        exists (c :: ex). rewrite !ff_cons, D.
        rewrite <- app_assoc in Hb, Hf. cbn in Hb, Hf. repeat split; auto.
        rewrite Hf. f_equal.
        rewrite app_length. cbn.
        replace (N.to_nat bs - length batch)%nat with (S (N.to_nat bs - (length batch + 1)))%nat
          by (unfold len in *; lia).
        reflexivity.
Qed.

(* What a successful extraction is: the oldest [bs] fresh cached commands, in order; the
   removed prefix contains nothing fresh besides them; nothing else changes. *)
Lemma try_extract_some st b st2 :
  try_extract st = Some (b, st2) ->
  len b = batch_size st /\
  batch_size st2 = batch_size st /\ seqs st2 = seqs st /\ ready st2 = ready st /\
  b = firstn (N.to_nat (batch_size st)) (ff (seqs st) (cache st)) /\
  exists ex, cache st = ex ++ cache st2 /\ ff (seqs st) ex = b.
Proof.
  unfold try_extract. destruct (extract_loop _ _ _ _) as [b0 rest] eqn:E.
  destruct (N.eqb (len b0) (batch_size st)) eqn:F; [|discriminate].
  intros H; inversion H; subst; clear H. cbn.
  apply extract_loop_spec in E; [|unfold len; cbn; lia].
  destruct E as (ex & Hc & Hb & Hf & _). cbn in Hb, Hf. rewrite Nat.sub_0_r in Hf.
  repeat split; auto; try lia. exists ex. split; auto.
Qed.

Lemma try_extract_none st :
  try_extract st = None -> len (ff (seqs st) (cache st)) < batch_size st.
Proof.
  unfold try_extract. destruct (extract_loop _ _ _ _) as [b0 rest] eqn:E.
  destruct (N.eqb (len b0) (batch_size st)) eqn:F; [discriminate|]. intros _.
  apply extract_loop_spec in E; [|unfold len; cbn; lia].
  destruct E as (ex & Hc & Hb & Hf & [Hfull|[Hnil Hlt]]); [lia|].
  cbn in Hb. subst rest. rewrite app_nil_r in Hc. rewrite Hc. now rewrite <- Hb.
Qed.

Lemma try_extract_enough st :
  batch_size st <= len (ff (seqs st) (cache st)) -> exists b st2, try_extract st = Some (b, st2).
Proof.
  intros H. destruct (try_extract st) as [[b st2]|] eqn:E; [eauto|].
  apply try_extract_none in E. lia.
Qed.

(* ------------------------------------------------------------------------------------------ *)
(* Get                                                                                         *)

Definition same_but_ready (st st' : state) : Prop :=
  batch_size st' = batch_size st /\ seqs st' = seqs st /\ cache st' = cache st.

Lemma has_full_ff st : batch_size st <= len (ff (seqs st) (cache st)) -> has_full st = true.
Proof. unfold has_full. pose proof (ff_length_le (seqs st) (cache st)). unfold len in *. lia. Qed.

Lemma get_section_spec st st' r :
  get_section st = (st', r) ->
  match r with
  | GBatch b =>
      len b = batch_size st /\ batch_size st' = batch_size st /\ seqs st' = seqs st /\
      b = firstn (N.to_nat (batch_size st)) (ff (seqs st) (cache st)) /\
      (exists ex, cache st = ex ++ cache st' /\ ff (seqs st) ex = b) /\
      (has_full st' = true -> ready st' = true) /\ (ready st = true -> ready st' = true)
  | GContinue => st' = st /\ len (ff (seqs st) (cache st)) < batch_size st
  | GBlocked => False
  end.
Proof.
  unfold get_section. destruct (has_full st) eqn:HF; cbn.
  - destruct (try_extract st) as [[b st2]|] eqn:E.
    + intros H; inversion H; subst; clear H.
      apply try_extract_some in E. destruct E as (Hl & Hbs & Hs & Hr & Hb & ex & Hc & Hex).
      unfold resignal. destruct (has_full st2) eqn:HF2; cbn; repeat split; auto; try congruence.
      * exists ex. auto.
      * exists ex. auto.
    + intros H; inversion H; subst; clear H. split; auto. now apply try_extract_none.
  - intros H; inversion H; subst; clear H. split; auto.
    unfold has_full in HF. pose proof (ff_length_le (seqs st') (cache st')). unfold len in *. lia.
Qed.

Lemma get_never_continue st : snd (get st) <> GContinue.
Proof.
  unfold get, get_loop, get_step. destruct (ready st) eqn:R; cbn; [|discriminate].
  destruct (get_section (unsignal st)) as [st1 r] eqn:E. destruct r; cbn; try discriminate.
  apply get_section_spec in E. destruct E as [-> _]. cbn. discriminate.
Qed.

(* The full case analysis of Get used by everything below. *)
Lemma get_spec st st' r :
  get st = (st', r) ->
  match r with
  | GBatch b =>
      ready st = true /\
      len b = batch_size st /\ batch_size st' = batch_size st /\ seqs st' = seqs st /\
      b = firstn (N.to_nat (batch_size st)) (ff (seqs st) (cache st)) /\
      (exists ex, cache st = ex ++ cache st' /\ ff (seqs st) ex = b) /\
      (has_full st' = true -> ready st' = true)
  | GBlocked =>
      same_but_ready st st' /\ ready st' = false /\
      (ready st = true -> len (ff (seqs st) (cache st)) < batch_size st)
  | GContinue => False
  end.
Proof.
  unfold get, get_loop, get_step. destruct (ready st) eqn:R.
  - destruct (get_section (unsignal st)) as [st1 r1] eqn:E.
    pose proof (get_section_spec _ _ _ E) as S. destruct r1; cbn.
    + contradiction.
    + intros H; inversion H; subst; clear H. cbn in S.
      destruct S as (Hl & Hbs & Hs & Hb & Hex & Hsig & _). repeat split; auto.
    + destruct S as [-> Hlt]. cbn. intros H; inversion H; subst; clear H.
      unfold same_but_ready. cbn. repeat split; auto.
  - cbn. intros H; inversion H; subst; clear H. unfold same_but_ready. repeat split; auto.
    intros; discriminate.
Qed.

(* ------------------------------------------------------------------------------------------ *)
(* The invariant of runs                                                                       *)

Definition stale (m : seqmap) (c : cmd) : Prop := is_dup m c = true.

Record Inv (bs : N) (t : trace) : Prop := {
  inv_bs : batch_size (t_state t) = bs;
  (* accepted = consumed prefix ++ cache; the consumed prefix is a merge of the handed-out
     commands and of dropped commands, and every dropped command is stale *)
  inv_split : exists consumed dropped,
      t_acc t = consumed ++ cache (t_state t) /\
      Interleave (concat (t_out t)) dropped consumed /\
      Forall (stale (seqs (t_state t))) dropped;
  inv_full : Forall (fun b => len b = bs) (t_out t);
  (* sequential form of token_when_ready *)
  inv_token : 1 <= bs -> bs <= len (ff (seqs (t_state t)) (cache (t_state t))) -> ready (t_state t) = true
}.

Lemma inv_init bs : Inv bs (mkTrace (init bs) [] []).
Proof.
  constructor; cbn; auto.
  - exists [], []. cbn. repeat split; constructor.
  - intros H1 H. unfold len in H. cbn in H. lia.
Qed.

Lemma inv_step bs t o : Inv bs t -> Inv bs (trace_step t o).
Proof.
  intros [Hbs (consumed & dropped & Hacc & Hil & Hst) Hfull Htok].
  destruct t as [st acc out]. cbn in *. destruct o as [c|b|]; cbn -[get].
  - (* Add *)
    unfold add, add_core. destruct (is_dup (seqs st) c) eqn:D.
    + constructor; cbn; auto. exists consumed, dropped. auto.
    + set (st1 := mkState (batch_size st) (seqs st) (cache st ++ [c]) (ready st)).
      assert (E : batch_size (resignal st1) = batch_size st /\ seqs (resignal st1) = seqs st /\
                  cache (resignal st1) = cache st ++ [c] /\
                  (has_full st1 = true -> ready (resignal st1) = true)).
      { unfold resignal. destruct (has_full st1); cbn; auto. repeat split; auto. discriminate. }
      destruct E as (E1 & E2 & E3 & E4).
      constructor; cbn; try rewrite E1; try rewrite E2; try rewrite E3; auto.
      * exists consumed, dropped. rewrite Hacc, app_assoc. auto.
      * intros H1 H. apply E4. apply has_full_ff. subst st1. cbn [batch_size seqs cache]. lia.
  - (* Proposed *)
    constructor; cbn [t_state t_acc t_out batch_size seqs cache ready proposed]; auto.
    + exists consumed, dropped. repeat split; auto.
      eapply Forall_impl; [|exact Hst]. intros c Hc. unfold stale in *.
      eapply is_dup_mono; [|exact Hc]. intros k. apply marks_mono.
    + intros H1 H. apply Htok; auto.
      pose proof (ff_mono_length (seqs st) (fold_left mark b (seqs st)) (cache st) (fun k => marks_mono b (seqs st) k)).
      unfold len in *. lia.
  - (* Get *)
    destruct (get st) as [st' r] eqn:G. pose proof (get_spec _ _ _ G) as S. destruct r; cbn.
    + destruct S as ((Sb & Ss & Sc) & Sr & Slt). constructor; cbn [t_state t_acc t_out batch_size seqs cache ready]; try congruence.
      * exists consumed, dropped. rewrite Ss, Sc. auto.
      * intros H1 H. rewrite Ss, Sc in H. destruct (ready st) eqn:R.
        -- specialize (Slt eq_refl). lia.
        -- specialize (Htok H1 H). discriminate.
    + destruct S as (Sr & Sl & Sb & Ss & Sfirst & (ex & Sc & Sex) & Ssig).
      constructor; cbn [t_state t_acc t_out batch_size seqs cache ready]; try congruence.
      * exists (consumed ++ ex), (dropped ++ filter (fun c => negb (fresh (seqs st) c)) ex).
        rewrite Ss. repeat split.
        -- rewrite Hacc, Sc, app_assoc. reflexivity.
        -- rewrite concat_app. cbn. rewrite app_nil_r. apply interleave_app; auto.
           rewrite <- Sex. apply interleave_filter.
        -- apply Forall_app. split; auto. apply stale_part.
      * apply Forall_app. split; auto. constructor; auto. congruence.
      * intros H1 H. apply Ssig. apply has_full_ff. lia.
    + contradiction.
Qed.

Lemma inv_run bs ops : Inv bs (run bs ops).
Proof.
  unfold run. generalize (inv_init bs). generalize (mkTrace (init bs) [] []).
  induction ops as [|o ops IH]; intros t Ht; cbn; auto. apply IH. now apply inv_step.
Qed.

(* ------------------------------------------------------------------------------------------ *)
(* The statements of C15 (sequential)                                                          *)

Theorem batches_full bs ops : Forall (fun b => len b = bs) (t_out (run bs ops)).
Proof. apply (inv_full _ _ (inv_run bs ops)). Qed.

Theorem fifo_once bs ops : Subseq (concat (t_out (run bs ops))) (t_acc (run bs ops)).
Proof.
  destruct (inv_split _ _ (inv_run bs ops)) as (consumed & dropped & Hacc & Hil & _).
  rewrite Hacc. apply subseq_app_r. eapply interleave_subseq_l; eauto.
Qed.

Theorem no_loss bs ops :
  let t := run bs ops in
  exists consumed dropped,
    t_acc t = consumed ++ cache (t_state t) /\
    Interleave (concat (t_out t)) dropped consumed /\
    Forall (stale (seqs (t_state t))) dropped.
Proof. apply (inv_split _ _ (inv_run bs ops)). Qed.

Definition cmd_eq_dec : forall a b : cmd, {a = b} + {a <> b}.
Proof. repeat decide equality. Defined.

(* counting form: a command that is still fresh occurs among the accepted ones exactly as often
   as among the handed-out ones plus the cached ones *)
Theorem no_loss_count bs ops c :
  let t := run bs ops in
  is_dup (seqs (t_state t)) c = false ->
  count_occ cmd_eq_dec (t_acc t) c =
  (count_occ cmd_eq_dec (concat (t_out t)) c + count_occ cmd_eq_dec (cache (t_state t)) c)%nat.
Proof.
  intros t Hfresh. destruct (no_loss bs ops) as (consumed & dropped & Hacc & Hil & Hst).
  fold t in Hacc, Hil, Hst. rewrite Hacc, count_occ_app.
  rewrite (interleave_count cmd_eq_dec _ _ _ c Hil).
  assert (Hz : count_occ cmd_eq_dec dropped c = 0%nat).
  { apply count_occ_not_In. intros Hin. rewrite Forall_forall in Hst. specialize (Hst c Hin).
    unfold stale in Hst. congruence. }
  lia.
Qed.

Theorem fresh_only bs ops st' b :
  get (t_state (run bs ops)) = (st', GBatch b) ->
  Forall (fun c => seq_of (seqs (t_state (run bs ops))) (cmd_client c) < cmd_seq c) b.
Proof.
  intros G. apply get_spec in G. destruct G as (_ & _ & _ & _ & _ & (ex & _ & Hex) & _).
  rewrite <- Hex. eapply Forall_impl; [|apply ff_fresh]. intros c. unfold is_dup. lia.
Qed.

Theorem oldest_first bs ops st' b :
  let st := t_state (run bs ops) in
  get st = (st', GBatch b) ->
  b = firstn (N.to_nat bs) (filter (fresh (seqs st)) (cache st)) /\
  seqs st' = seqs st /\
  exists examined, cache st = examined ++ cache st' /\ filter (fresh (seqs st)) examined = b.
Proof.
  intros st G. subst st. apply get_spec in G. destruct G as (_ & _ & _ & Hs & Hb & Hex & _).
  rewrite (inv_bs _ _ (inv_run bs ops)) in Hb. auto.
Qed.

(* Get returns a batch exactly when enough fresh commands are cached (sequential no-lost-wake-up),
   and otherwise blocks without changing the cache or the marks. *)
Theorem get_returns_iff_enough bs ops :
  1 <= bs ->
  let st := t_state (run bs ops) in
  (bs <= len (filter (fresh (seqs st)) (cache st)) -> exists b st', get st = (st', GBatch b)) /\
  (len (filter (fresh (seqs st)) (cache st)) < bs ->
     exists st', get st = (st', GBlocked) /\ cache st' = cache st /\ seqs st' = seqs st).
Proof.
  intros H1 st. pose proof (inv_run bs ops) as I. fold st in I.
  destruct (get st) as [st' r] eqn:G. pose proof (get_spec _ _ _ G) as S.
  pose proof (inv_bs _ _ I) as Hbs. cbn in Hbs. fold st in Hbs.
  split; intros H.
  - destruct r; [|eauto|contradiction].
    destruct S as (_ & _ & Slt). pose proof (inv_token _ _ I H1) as T. fold st in T.
    change (filter (fresh (seqs st)) (cache st)) with (ff (seqs st) (cache st)) in H.
    specialize (T H). specialize (Slt T). lia.
  - destruct r; [| |contradiction].
    + destruct S as ((_ & Ss & Sc) & _). eauto.
    + destruct S as (_ & Sl & _ & _ & Sb & _). exfalso.
      change (filter (fresh (seqs st)) (cache st)) with (ff (seqs st) (cache st)) in H.
      assert (length b = N.to_nat (batch_size st)) by (unfold len in Sl; lia).
      rewrite Sb in H0. rewrite firstn_length in H0. unfold len in H. lia.
Qed.

(* once marked, never handed out: a command that is stale in some reachable state is not in any
   batch returned later *)
Lemma trace_step_seqs_mono t o k : seq_of (seqs (t_state t)) k <= seq_of (seqs (t_state (trace_step t o))) k.
Proof.
  destruct t as [st acc out]. destruct o as [c|b|]; cbn -[get].
  - unfold add, add_core. destruct (is_dup (seqs st) c); [lia|].
    unfold resignal. destruct (has_full _); cbn; lia.
  - apply marks_mono.
  - destruct (get st) as [st' r] eqn:G. apply get_spec in G. destruct r; cbn.
    + destruct G as ((_ & -> & _) & _). lia.
    + destruct G as (_ & _ & _ & -> & _). lia.
    + contradiction.
Qed.

Lemma fold_seqs_mono ops : forall t k,
  seq_of (seqs (t_state t)) k <= seq_of (seqs (t_state (fold_left trace_step ops t))) k.
Proof.
  induction ops as [|o ops IH]; intros t k; cbn; [lia|].
  specialize (IH (trace_step t o) k). pose proof (trace_step_seqs_mono t o k). lia.
Qed.

Theorem marked_never_handed_out bs ops1 ops2 c st' b :
  is_dup (seqs (t_state (run bs ops1))) c = true ->
  get (t_state (run bs (ops1 ++ ops2))) = (st', GBatch b) ->
  ~ In c b.
Proof.
  intros Hd G Hin. apply fresh_only in G. rewrite Forall_forall in G. specialize (G c Hin).
  unfold run in *. rewrite fold_left_app in G.
  pose proof (fold_seqs_mono ops2 (fold_left trace_step ops1 (mkTrace (init bs) [] [])) (cmd_client c)).
  unfold is_dup in Hd. lia.
Qed.

(* ------------------------------------------------------------------------------------------ *)
(* The safety part of the invariant, per atomic section (used by the concurrent semantics)     *)

Record Safe (bs : N) (st : state) (acc : list cmd) (out : list (list cmd)) : Prop := {
  safe_bs : batch_size st = bs;
  safe_split : exists consumed dropped,
      acc = consumed ++ cache st /\
      Interleave (concat out) dropped consumed /\
      Forall (stale (seqs st)) dropped;
  safe_full : Forall (fun b => len b = bs) out
}.

Lemma safe_init bs : Safe bs (init bs) [] [].
Proof. constructor; cbn; auto. exists [], []. cbn. repeat split; constructor. Qed.

Lemma safe_set_ready bs st acc out r :
  Safe bs st acc out -> Safe bs (mkState (batch_size st) (seqs st) (cache st) r) acc out.
Proof. intros [H1 H2 H3]. constructor; cbn; auto. Qed.

Lemma safe_add_core bs st acc out c st' :
  Safe bs st acc out -> add_core st c = Some st' -> Safe bs st' (acc ++ [c]) out.
Proof.
  intros [H1 (consumed & dropped & Hacc & Hil & Hst) H3]. unfold add_core.
  destruct (is_dup (seqs st) c); [discriminate|]. intros E. injection E as <-.
  constructor; cbn; auto. exists consumed, dropped. rewrite Hacc, app_assoc. auto.
Qed.

Lemma safe_proposed bs st acc out b : Safe bs st acc out -> Safe bs (proposed st b) acc out.
Proof.
  intros [H1 (consumed & dropped & Hacc & Hil & Hst) H3]. constructor; cbn; auto.
  exists consumed, dropped. repeat split; auto.
  eapply Forall_impl; [|exact Hst]. intros c Hc. unfold stale in *.
  eapply is_dup_mono; [|exact Hc]. intros k. apply marks_mono.
Qed.

Lemma safe_extract bs st acc out b st2 :
  Safe bs st acc out -> try_extract st = Some (b, st2) -> Safe bs st2 acc (out ++ [b]).
Proof.
  intros [H1 (consumed & dropped & Hacc & Hil & Hst) H3] E.
  apply try_extract_some in E. destruct E as (Hl & Hbs & Hs & Hr & Hb & ex & Hc & Hex).
  constructor; try congruence.
  - exists (consumed ++ ex), (dropped ++ filter (fun c => negb (fresh (seqs st) c)) ex).
    rewrite Hs. repeat split.
    + rewrite Hacc, Hc, app_assoc. reflexivity.
    + rewrite concat_app. cbn [concat]. rewrite app_nil_r. apply interleave_app; auto.
      rewrite <- Hex. apply interleave_filter.
    + apply Forall_app. split; auto. apply stale_part.
  - apply Forall_app. split; auto. constructor; auto. congruence.
Qed.

Lemma proposed_marks st b c : In c b -> is_dup (seqs (proposed st b)) c = true.
Proof. intros H. exact (marks_mark_all b (seqs st) c H). Qed.

(* k waiting / successive Gets are k OGet operations of a run *)
Lemma gets_run k : forall t,
  let t' := fold_left trace_step (repeat OGet k) t in
  fst (gets k (t_state t)) = t_state t' /\
  t_out t' = t_out t ++ snd (gets k (t_state t)) /\
  t_acc t' = t_acc t.
Proof.
  induction k as [|k IH]; intros t; cbn -[get].
  - rewrite app_nil_r. auto.
  - destruct t as [st acc out]. cbn -[get]. destruct (get st) as [st' r] eqn:G.
    specialize (IH (mkTrace st' acc (match r with GBatch b => out ++ [b] | _ => out end))).
    cbn -[get] in IH. destruct (gets k st') as [st'' bs] eqn:E. cbn -[get] in *.
    destruct IH as (H1 & H2 & H3). repeat split; auto.
    rewrite H2. destruct r; auto. rewrite <- app_assoc. reflexivity.
Qed.

Theorem gets_of_run bs ops k :
  let t' := run bs (ops ++ repeat OGet k) in
  fst (gets k (t_state (run bs ops))) = t_state t' /\
  t_out t' = t_out (run bs ops) ++ snd (gets k (t_state (run bs ops))) /\
  t_acc t' = t_acc (run bs ops).
Proof. unfold run. rewrite fold_left_app. apply gets_run. Qed.

Theorem contains_dup_spec st b :
  contains_dup st b = true <-> exists c, In c b /\ cmd_seq c <= seq_of (seqs st) (cmd_client c).
Proof.
  unfold contains_dup. rewrite existsb_exists. unfold is_dup.
  split; intros (c & H1 & H2); exists c; split; auto; lia.
Qed.

(* BLS12 part of tc_verifies / aggqc_verifies: the aggregate built from receipt-checked single
   signatures of distinct replicas verifies. *)
From Coq Require Import Lia.
From HS Require Import Base.Prelude Crypto.Symbolic Crypto.SchemeModel Quorum.QuorumModel
  Cert.CertModel Collect.TimeoutModel Collect.TimeoutProofs Collect.TimeoutAggProofs.
Close Scope Z_scope.

(* ---------- equality tests reflect equality ---------- *)
Lemma option_N_eqb_eq (a b : option N) : option_eqb N.eqb a b = true <-> a = b.
Proof.
  destruct a, b; simpl; split; intros H; try discriminate; auto.
  - apply N.eqb_eq in H. congruence.
  - inversion H. apply N.eqb_refl.
Qed.

Lemma msg_eqb_eq a b : msg_eqb a b = true <-> a = b.
Proof.
  destruct a, b; simpl; split; intros H; try discriminate; try congruence.
  - apply N.eqb_eq in H. congruence.
  - inversion H. apply N.eqb_refl.
  - apply N.eqb_eq in H. congruence.
  - inversion H. apply N.eqb_refl.
  - apply andb_prop in H. destruct H as [H Hq]. apply andb_prop in H. destruct H as [Hi Hv].
    apply N.eqb_eq in Hi, Hv. apply option_N_eqb_eq in Hq. congruence.
  - inversion H. subst. rewrite !N.eqb_refl. simpl. apply option_N_eqb_eq. reflexivity.
Qed.

Lemma contrib_eqb_eq (a b : contrib) : contrib_eqb a b = true <-> a = b.
Proof.
  destruct a as [i m], b as [j m']. unfold contrib_eqb. simpl. split; intros H.
  - apply andb_prop in H. destruct H as [Hi Hm]. apply N.eqb_eq in Hi. apply msg_eqb_eq in Hm. congruence.
  - inversion H. subst. rewrite N.eqb_refl. simpl. apply msg_eqb_eq. reflexivity.
Qed.

Lemma contrib_eq_dec (p q : contrib) : {p = q} + {p <> q}.
Proof.
  destruct (contrib_eqb p q) eqn:E.
  - left. apply contrib_eqb_eq. exact E.
  - right. intros Heq. apply contrib_eqb_eq in Heq. congruence.
Qed.

(* ---------- multisets of contributions ---------- *)
Lemma count_c_app x a b : count_c x (a ++ b) = count_c x a + count_c x b.
Proof. unfold count_c. rewrite filter_app, app_length. reflexivity. Qed.

Lemma count_c_notin x a : ~ In x a -> count_c x a = 0.
Proof.
  intros H. unfold count_c. rewrite filter_none; auto.
  intros y Hy. destruct (contrib_eqb x y) eqn:E; auto.
  apply contrib_eqb_eq in E. subst. contradiction.
Qed.

Lemma multiset_eqb_counts a b : multiset_eqb a b = true <-> forall x, count_c x a = count_c x b.
Proof.
  unfold multiset_eqb. rewrite forallb_forall. split.
  - intros H x. destruct (in_dec contrib_eq_dec x (a ++ b)) as [Hin|Hnin].
    + apply Nat.eqb_eq. apply H. exact Hin.
    + rewrite !count_c_notin; auto; intros K; apply Hnin; apply in_or_app; auto.
  - intros H x _. apply Nat.eqb_eq. apply H.
Qed.

Lemma multiset_flat_map {T} (cf : T -> list contrib) (f : T -> contrib) (l : list T) :
  (forall t, In t l -> multiset_eqb (cf t) [f t] = true) ->
  multiset_eqb (flat_map cf l) (map f l) = true.
Proof.
  intros H. apply multiset_eqb_counts. intros x.
  induction l as [|t l IH]; simpl; auto.
  rewrite count_c_app. change (f t :: map f l) with ([f t] ++ map f l). rewrite count_c_app.
  rewrite IH by (intros; apply H; simpl; auto).
  pose proof (proj1 (multiset_eqb_counts _ _) (H t (or_introl eq_refl)) x) as E. rewrite E. reflexivity.
Qed.

Lemma dedupN_nodup l : NoDup l -> dedupN l = l.
Proof.
  induction 1 as [|x l Hx _ IH]; simpl; auto. rewrite IH. f_equal.
  apply filter_all. intros y Hy. destruct (N.eqb x y) eqn:E; auto.
  apply N.eqb_eq in E. subst. contradiction.
Qed.

(* ---------- Combine of single BLS signatures ---------- *)
Section BlsCombine.
  Context {T : Type}.
  Variables (bitsf : T -> list rid) (cf : T -> list contrib) (idf : T -> rid).
  Definition bsig (t : T) : qsig := QBls (bitsf t) (Some (cf t)).

  Lemma bls_combine_singles l : forall bits acc,
    (forall t, In t l -> bits_set (bitsf t) = [idf t]) ->
    NoDup (bits ++ map idf l) ->
    bls_combine bits (Some acc) (map bsig l) =
      Some (QBls (bits ++ map idf l) (Some (acc ++ flat_map cf l))).
  Proof.
    induction l as [|t l IH]; intros bits acc Hb ND; simpl.
    - rewrite !app_nil_r. reflexivity.
    - rewrite (Hb t) by (simpl; auto). simpl.
      assert (Hm : memN (idf t) bits = false).
      { apply memN_false. apply NoDup_remove_2 in ND. intros K. apply ND. apply in_or_app. auto. }
      rewrite Hm. rewrite IH.
      + rewrite <- !app_assoc. reflexivity.
      + intros t' Ht'. apply Hb. simpl. auto.
      + rewrite <- app_assoc. exact ND.
  Qed.

  Lemma scheme_combine_bls l :
    2 <= length l ->
    (forall t, In t l -> bits_set (bitsf t) = [idf t]) ->
    NoDup (map idf l) ->
    scheme_combine Bls12 (map bsig l) = Some (QBls (map idf l) (Some (flat_map cf l))).
  Proof.
    intros L Hb ND. unfold scheme_combine. rewrite map_length.
    assert (Nat.ltb (length l) 2 = false) as -> by (apply Nat.ltb_ge; lia).
    rewrite (bls_combine_singles l [] []); auto.
  Qed.
End BlsCombine.

Lemma bls_verify_all members ids (C : list contrib) m :
  2 <= length ids -> NoDup ids ->
  (forall i, In i ids -> has_key members i = true) ->
  multiset_eqb C (map (fun i => (i, m)) ids) = true ->
  bls_verify members ids (Some C) m = true.
Proof.
  intros L ND K M. unfold bls_verify, bits_set. rewrite (dedupN_nodup ids ND).
  destruct ids as [|x [|y r]]; simpl in L; try lia.
  assert (forallb (has_key members) (x :: y :: r) = true) as -> by (apply forallb_forall; exact K).
  simpl negb. cbv iota. exact M.
Qed.

(* a receipt-checked single BLS signature *)
Lemma single_bls members s m i :
  scheme_verify members Bls12 s m = true -> signed_only_by s i = true ->
  exists bits c0, s = QBls bits (Some c0) /\ bits_set bits = [i] /\
    has_key members i = true /\ multiset_eqb c0 [(i, m)] = true.
Proof.
  intros V S. destruct s as [k l|bits real]; simpl in V; [discriminate|].
  unfold signed_only_by in S. simpl in S.
  unfold bls_verify in V.
  destruct (bits_set bits) as [|j [|j' r]] eqn:Eb; try discriminate.
  apply N.eqb_eq in S. subst j.
  destruct (has_key members i) eqn:Hk; simpl in V; [|discriminate].
  destruct real as [c0|]; [|discriminate].
  exists bits, c0. auto.
Qed.

Definition vbits_of (t : tmsg) : list rid :=
  match t_vsig t with Some (QBls b _) => b | _ => [] end.
Definition vreal_of (t : tmsg) : list contrib :=
  match t_vsig t with Some (QBls _ (Some c0)) => c0 | _ => [] end.
Definition mbits_of (t : tmsg) : list rid :=
  match t_msig t with Some (QBls b _) => b | _ => [] end.
Definition mreal_of (t : tmsg) : list contrib :=
  match t_msig t with Some (QBls _ (Some c0)) => c0 | _ => [] end.

Section BlsCerts.
  Variable c : cfg.
  Hypothesis Hs : c_scheme c = Bls12.

  Lemma view_sig_shape_bls t :
    view_sig_ok c t = true ->
    t_vsig t = Some (bsig vbits_of vreal_of t) /\ bits_set (vbits_of t) = [t_id t] /\
    has_key (c_replicas c) (t_id t) = true /\
    multiset_eqb (vreal_of t) [(t_id t, MView (t_view t))] = true.
  Proof.
    intros H. unfold view_sig_ok in H. destruct (t_vsig t) as [s|] eqn:Es; [|discriminate].
    apply andb_prop in H. destruct H as [V S]. unfold sverify in V. rewrite Hs in V.
    destruct (single_bls _ _ _ _ V S) as [bits [c0 [-> [B [K M]]]]].
    unfold bsig, vbits_of, vreal_of. rewrite Es. auto.
  Qed.

  Lemma msg_sig_shape_bls t :
    msg_sig_ok c t = true ->
    t_msig t = Some (bsig mbits_of mreal_of t) /\ t_qc t = Some (qc_of t) /\
    bits_set (mbits_of t) = [t_id t] /\ has_key (c_replicas c) (t_id t) = true /\
    multiset_eqb (mreal_of t)
      [(t_id t, MTimeout (t_id t) (t_view t) (Some (qc_digest (qc_of t))))] = true.
  Proof.
    intros H. unfold msg_sig_ok in H.
    destruct (t_qc t) as [qv|] eqn:Eq; [|discriminate].
    destruct (t_msig t) as [s|] eqn:Es; [|discriminate].
    apply andb_prop in H. destruct H as [V S]. unfold sverify, timeout_bytes in V.
    rewrite Hs, Eq in V. simpl in V.
    destruct (single_bls _ _ _ _ V S) as [bits [c0 [-> [B [K M]]]]].
    unfold bsig, mbits_of, mreal_of, qc_of. rewrite Es, Eq. auto.
  Qed.

  Lemma tc_verifies_bls c' v l :
    c_scheme c' = c_scheme c -> c_replicas c' = c_replicas c ->
    Forall (fun t => view_sig_ok c t = true /\ t_view t = v) l ->
    NoDup (map t_id l) -> 2 <= length l -> qsize c <= length l ->
    exists t, create_tc_of c v l = Ok t /\ tc_view t = v /\ verify_tc c' t = Ok tt.
  Proof.
    intros Es Er F ND L2 Lq.
    unfold create_tc_of. destruct (N.eqb v 0) eqn:E0.
    - apply N.eqb_eq in E0. subst v. exists (mkTC None 0%N). unfold create_tc. simpl. auto.
    - rewrite Forall_forall in F.
      assert (E1 : map t_vsig l = map Some (map (bsig vbits_of vreal_of) l)).
      { rewrite map_map. apply map_ext_in. intros t Ht. destruct (F t Ht) as [V _].
        apply (view_sig_shape_bls t V). }
      rewrite E1, opt_all_some. unfold create_tc. rewrite E0, Hs.
      rewrite (scheme_combine_bls vbits_of vreal_of t_id l L2); auto.
      2:{ intros t Ht. destruct (F t Ht) as [V _]. apply (view_sig_shape_bls t V). }
      eexists. split; [reflexivity|]. split; [reflexivity|].
      unfold verify_tc. cbn [tc_view tc_sig]. rewrite E0.
      unfold part_len. cbn [participants]. unfold bits_set. rewrite (dedupN_nodup _ ND).
      rewrite map_length, (qsize_same c c' Er).
      assert (Nat.ltb (length l) (qsize c) = false) as -> by (apply Nat.ltb_ge; lia).
      rewrite Es, Er, Hs. cbn [scheme_verify].
      rewrite bls_verify_all; auto.
      + rewrite map_length. lia.
      + intros i Hi. apply in_map_iff in Hi. destruct Hi as [t [<- Ht]].
        destruct (F t Ht) as [V _]. apply (view_sig_shape_bls t V).
      + rewrite map_map. apply multiset_flat_map. intros t Ht.
        destruct (F t Ht) as [V Ev]. destruct (view_sig_shape_bls t V) as [_ [_ [_ M]]].
        rewrite Ev in M. exact M.
  Qed.
End BlsCerts.

Section BlsAgg.
  Variable c : cfg.
  Hypothesis Hs : c_scheme c = Bls12.

  Lemma to_sigs_map_bls l :
    Forall (fun t => t_msig t = Some (bsig mbits_of mreal_of t)) l ->
    to_sigs (map to_timeout l) = map (bsig mbits_of mreal_of) l.
  Proof.
    induction 1 as [|t l Ht _ IH]; simpl; auto.
    unfold to_sigs in *. simpl. rewrite Ht. simpl. rewrite IH. reflexivity.
  Qed.

  Lemma aggqc_verifies_bls c' st v l :
    c_scheme c' = c_scheme c -> c_replicas c' = c_replicas c -> c_genesis c' <> zero_hash ->
    Forall (fun t => msg_sig_ok c t = true /\ t_view t = v) l ->
    NoDup (map t_id l) -> 2 <= length l -> qsize c <= length l ->
    (exists t, In t l /\ qc_valid c' st (qc_of t) = true) ->
    exists a h, create_aggqc c v (map to_timeout l) = Ok a /\ aq_view a = v /\
      verify_aggqc c' st a = Ok h /\ qc_valid c' st h = true /\
      exists t, In t l /\ h = qc_of t.
  Proof.
    intros Es Er Gz F ND L2 Lq [tv [Htv Vtv]].
    set (g := fun t : tmsg => MTimeout (t_id t) v (Some (qc_digest (qc_of t)))).
    assert (Sh : forall t, In t l ->
              t_msig t = Some (bsig mbits_of mreal_of t) /\ t_qc t = Some (qc_of t) /\
              bits_set (mbits_of t) = [t_id t] /\ has_key (c_replicas c) (t_id t) = true /\
              multiset_eqb (mreal_of t) [(t_id t, g t)] = true).
    { rewrite Forall_forall in F. intros t Ht. destruct (F t Ht) as [M Ev].
      destruct (msg_sig_shape_bls c Hs t M) as [A [B [C [D E]]]]. rewrite Ev in E. auto. }
    unfold create_aggqc.
    rewrite to_sigs_map_bls by (apply Forall_forall; intros t Ht; apply (Sh t Ht)).
    rewrite Hs. rewrite (scheme_combine_bls mbits_of mreal_of t_id l L2); auto.
    2:{ intros t Ht. apply (Sh t Ht). }
    rewrite to_qcs_map; [|apply Forall_forall; intros t Ht; apply (Sh t Ht)|auto].
    set (B := map (fun t => (t_id t, qc_of t)) l).
    assert (NB : NoDup (map fst B)).
    { unfold B. rewrite map_map. simpl. exact ND. }
    eexists.
    assert (P : exists x, In x (aggqc_pool B) /\ qc_valid c' st x = true).
    { exists (qc_of tv). split; auto. unfold aggqc_pool. apply in_or_app. right.
      unfold B. rewrite map_map. simpl. apply in_map_iff. exists tv. auto. }
    destruct (find_highest_exists c' st (aggqc_pool B) P) as [h [Eh [Vh Ih]]].
    exists h. split; [reflexivity|]. split; [reflexivity|].
    unfold verify_aggqc. cbn [aq_qcs aq_sig aq_view].
    rewrite (map_of_nodup B NB).
    unfold part_len. cbn [participants]. unfold bits_set at 1. rewrite (dedupN_nodup _ ND).
    rewrite map_length, (qsize_same c c' Er).
    assert (Nat.ltb (length l) (qsize c) = false) as -> by (apply Nat.ltb_ge; lia).
    rewrite Es, Er, Hs. cbn [scheme_batch_verify].
    assert (EB : map (timeout_msg v) B = map (fun t => (t_id t, g t)) l).
    { unfold B. rewrite map_map. reflexivity. }
    assert (BV : bls_batch_verify (c_replicas c) (map t_id l) (Some (flat_map mreal_of l))
                   (map (timeout_msg v) B) = true).
    { rewrite EB. unfold bls_batch_verify, bits_set. rewrite (dedupN_nodup _ ND), !map_length.
      rewrite Nat.eqb_refl. simpl negb. cbv iota.
      assert (forallb (has_key (c_replicas c)) (map fst (map (fun t => (t_id t, g t)) l)) = true) as ->.
      { apply forallb_forall. intros i Hi. rewrite map_map in Hi. simpl in Hi.
        apply in_map_iff in Hi. destruct Hi as [t [<- Ht]]. apply (Sh t Ht). }
      simpl negb. cbv iota.
      assert (M : multiset_eqb (flat_map mreal_of l) (map (fun t => (t_id t, g t)) l) = true).
      { apply multiset_flat_map. intros t Ht. apply (Sh t Ht). }
      destruct l as [|x [|y r]]; simpl in L2; try lia.
      remember (x :: y :: r) as l' eqn:El.
      assert (Sp : exists p1 p2 rest, map (fun t => (t_id t, g t)) l' = p1 :: p2 :: rest).
      { subst l'. simpl. eauto. }
      destruct Sp as [p1 [p2 [rest Ep]]]. rewrite Ep. rewrite <- Ep.
      unfold distinct_msgs, distinct_count. rewrite map_map. simpl snd.
      unfold g. rewrite (dedup_timeouts t_id v (fun t => Some (qc_digest (qc_of t))) l' ND).
      rewrite !map_length, Nat.eqb_refl. simpl negb. cbv iota.
      assert (Nat.ltb (length l') 1 = false) as -> by (apply Nat.ltb_ge; subst l'; simpl; lia).
      exact M. }
    rewrite BV. simpl negb. cbv iota.
    split; [exact Eh|]. split; [exact Vh|].
    unfold aggqc_pool in Ih. apply in_app_or in Ih. destruct Ih as [Ih|Ih].
    - apply repeat_spec in Ih. subst h. exfalso.
      unfold qc_valid, verify_qc, zero_qc in Vh. cbn [qc_hash qc_view qc_sig] in Vh.
      destruct (N.eqb zero_hash (c_genesis c')) eqn:Eg.
      + apply N.eqb_eq in Eg. congruence.
      + discriminate.
    - unfold B in Ih. rewrite map_map in Ih. simpl in Ih. apply in_map_iff in Ih.
      destruct Ih as [t [<- Ht]]. exists t. auto.
  Qed.
End BlsAgg.

Lemma tc_ok_all c : tc_ok c.
Proof.
  destruct (c_scheme c) eqn:E.
  - apply (tc_ok_list c KEcdsa). rewrite E. reflexivity.
  - apply (tc_ok_list c KEddsa). rewrite E. reflexivity.
  - intros c' v l. apply tc_verifies_bls. exact E.
Qed.

Lemma agg_ok_bls c : c_scheme c = Bls12 -> agg_ok c.
Proof.
  intros Hs v l Fm NDl L2 Lq.
  assert (Sh : forall t, In t l ->
            t_msig t = Some (bsig mbits_of mreal_of t) /\ t_qc t = Some (qc_of t) /\
            bits_set (mbits_of t) = [t_id t]).
  { rewrite Forall_forall in Fm. intros t Ht. destruct (Fm t Ht) as [M _].
    destruct (msg_sig_shape_bls c Hs t M) as [A [B [C _]]]. auto. }
  unfold create_aggqc.
  rewrite to_sigs_map_bls by (apply Forall_forall; intros t Ht; apply (Sh t Ht)).
  rewrite Hs. rewrite (scheme_combine_bls mbits_of mreal_of t_id l L2); auto.
  2:{ intros t Ht. apply (Sh t Ht). }
  eexists. split; [reflexivity|]. split; [reflexivity|].
  intros c' st' Es Er Gz Ex.
  destruct (aggqc_verifies_bls c Hs c' st' v l (eq_trans Es (eq_sym Hs)) Er Gz Fm NDl L2 Lq Ex) as [a' [h [Ca [_ R]]]].
  unfold create_aggqc in Ca.
  rewrite to_sigs_map_bls in Ca by (apply Forall_forall; intros t Ht; apply (Sh t Ht)).
  rewrite Hs in Ca. rewrite (scheme_combine_bls mbits_of mreal_of t_id l L2) in Ca; auto.
  2:{ intros t Ht. apply (Sh t Ht). }
  inversion Ca. subst a'. exists h. exact R.
Qed.

Lemma agg_ok_all c : agg_ok c.
Proof.
  destruct (c_scheme c) eqn:E.
  - apply (agg_ok_list c KEcdsa). rewrite E. reflexivity.
  - apply (agg_ok_list c KEddsa). rewrite E. reflexivity.
  - apply agg_ok_bls. exact E.
Qed.

(* scheme-independent forms *)
Lemma tc_verifies_all c c' v l :
  c_scheme c' = c_scheme c -> c_replicas c' = c_replicas c ->
  Forall (fun t => view_sig_ok c t = true /\ t_view t = v) l ->
  NoDup (map t_id l) -> 2 <= length l -> qsize c <= length l ->
  exists t, create_tc_of c v l = Ok t /\ tc_view t = v /\ verify_tc c' t = Ok tt.
Proof. apply tc_ok_all. Qed.

Lemma aggqc_verifies_all c c' st v l :
  c_scheme c' = c_scheme c -> c_replicas c' = c_replicas c -> c_genesis c' <> zero_hash ->
  Forall (fun t => msg_sig_ok c t = true /\ t_view t = v) l ->
  NoDup (map t_id l) -> 2 <= length l -> qsize c <= length l ->
  (exists t, In t l /\ qc_valid c' st (qc_of t) = true) ->
  exists a h, create_aggqc c v (map to_timeout l) = Ok a /\ aq_view a = v /\
    verify_aggqc c' st a = Ok h /\ qc_valid c' st h = true /\
    exists t, In t l /\ h = qc_of t.
Proof.
  intros Es Er Gz F ND L2 Lq Ex.
  destruct (agg_ok_all c v l F ND L2 Lq) as [a [Ca [Ea R]]].
  destruct (R c' st Es Er Gz Ex) as [h Hh]. exists a, h. tauto.
Qed.

(* Proofs about Collect.TimeoutModel: the per-view collector, OnRemoteTimeout, and the
   certificates it builds. *)
From Coq Require Import Lia.
From HS Require Import Base.Prelude Crypto.Symbolic Crypto.SchemeModel Quorum.QuorumModel Quorum.QuorumProofs
  Cert.CertModel Collect.TimeoutModel.
Close Scope Z_scope.

(* ---------- small list facts ---------- *)

Lemma filter_filter_comm {A} (f g : A -> bool) l : filter f (filter g l) = filter g (filter f l).
Proof.
  induction l as [|x l IH]; simpl; auto.
  destruct (g x) eqn:G, (f x) eqn:F; simpl; rewrite ?G, ?F, IH; auto.
Qed.

Lemma filter_all {A} (f : A -> bool) l : (forall x, In x l -> f x = true) -> filter f l = l.
Proof.
  induction l as [|x l IH]; simpl; intros H; auto.
  rewrite (H x) by auto. f_equal. apply IH. intros; apply H; auto.
Qed.

Lemma filter_none {A} (f : A -> bool) l : (forall x, In x l -> f x = false) -> filter f l = [].
Proof.
  induction l as [|x l IH]; simpl; intros H; auto.
  rewrite (H x) by auto. apply IH. intros; apply H; auto.
Qed.

Lemma filter_filter_same {A} (f : A -> bool) l : filter f (filter f l) = filter f l.
Proof. apply filter_all. intros x Hx. apply filter_In in Hx. tauto. Qed.

Lemma NoDup_app_snoc {A} (l : list A) x : NoDup l -> ~ In x l -> NoDup (l ++ [x]).
Proof.
  induction 1 as [|y l Hy _ IH]; simpl; intros Hx.
  - constructor; auto. constructor.
  - constructor.
    + intros H. apply in_app_or in H. simpl in H. intuition.
    + apply IH. intuition.
Qed.

Lemma memN_In i l : memN i l = true <-> In i l.
Proof.
  unfold memN. rewrite existsb_exists. split.
  - intros [x [Hx E]]. apply N.eqb_eq in E. subst. auto.
  - intros H. exists i. split; auto. apply N.eqb_refl.
Qed.

Lemma memN_false i l : memN i l = false <-> ~ In i l.
Proof. rewrite <- memN_In. destruct (memN i l); split; congruence. Qed.

Lemma nodupbN_NoDup l : NoDup l -> nodupbN l = true.
Proof.
  induction 1 as [|x l Hx _ IH]; simpl; auto.
  apply memN_false in Hx. rewrite Hx, IH. reflexivity.
Qed.

(* ---------- the collector, view by view ---------- *)

Lemma same_slot_has_id t bag :
  existsb (same_slot t) bag = has_id (t_id t) (filter (in_view (t_view t)) bag).
Proof.
  unfold has_id. induction bag as [|y bag IH]; simpl; auto.
  unfold same_slot at 1, in_view at 1.
  destruct (N.eqb (t_view y) (t_view t)) eqn:E; simpl; rewrite IH; auto.
Qed.

(* what add does to the entries of the new message's own view *)
Definition view_add (q : nat) (T : list tmsg) (t : tmsg) : list tmsg * option (list tmsg) :=
  if has_id (t_id t) T then (T, None)
  else if Nat.leb q (S (length T)) then ([], Some (T ++ [t])) else (T ++ [t], None).

Lemma in_view_refl t : in_view (t_view t) t = true.
Proof. apply N.eqb_refl. Qed.

Lemma coll_add_same q bag t :
  let T := filter (in_view (t_view t)) bag in
  filter (in_view (t_view t)) (fst (coll_add q bag t)) = fst (view_add q T t) /\
  snd (coll_add q bag t) = snd (view_add q T t).
Proof.
  intros T. unfold coll_add, view_add. rewrite same_slot_has_id. fold T.
  destruct (has_id (t_id t) T); simpl; auto.
  rewrite filter_app. simpl. rewrite in_view_refl. fold T.
  rewrite app_length. simpl.
  replace (length T + 1) with (S (length T)) by lia.
  destruct (Nat.leb q (S (length T))) eqn:E.
  - assert (Nat.ltb (S (length T)) q = false) as ->.
    { apply Nat.ltb_ge. apply Nat.leb_le in E. lia. }
    simpl. split; auto.
    apply filter_none. intros x Hx. apply filter_In in Hx. destruct Hx as [_ Hx].
    destruct (in_view (t_view t) x); simpl in *; congruence.
  - assert (Nat.ltb (S (length T)) q = true) as ->.
    { apply Nat.ltb_lt. apply Nat.leb_gt in E. lia. }
    simpl. rewrite filter_app. simpl. rewrite in_view_refl. auto.
Qed.

(* entries of every other view are untouched *)
Lemma coll_add_other q bag t v :
  v <> t_view t -> filter (in_view v) (fst (coll_add q bag t)) = filter (in_view v) bag.
Proof.
  intros Hv. unfold coll_add.
  assert (Ht : in_view v t = false).
  { unfold in_view. apply N.eqb_neq. congruence. }
  destruct (existsb (same_slot t) bag); simpl; auto.
  destruct (Nat.ltb _ q); simpl.
  - rewrite filter_app. simpl. rewrite Ht. apply app_nil_r.
  - rewrite filter_filter_comm. rewrite filter_app. simpl. rewrite Ht, app_nil_r.
    apply filter_all. intros x Hx. apply filter_In in Hx. destruct Hx as [_ Hx].
    unfold in_view in *. apply N.eqb_eq in Hx.
    destruct (N.eqb (t_view x) (t_view t)) eqn:E; auto.
    apply N.eqb_eq in E. congruence.
Qed.

Lemma coll_add_incl q bag t x : In x (fst (coll_add q bag t)) -> In x bag \/ x = t.
Proof.
  unfold coll_add. destruct (existsb (same_slot t) bag); simpl; auto.
  destruct (Nat.ltb _ q); simpl; intros H.
  - apply in_app_or in H. simpl in H. intuition.
  - apply filter_In in H. destruct H as [H _]. apply in_app_or in H. simpl in H. intuition.
Qed.

Lemma delete_old_keeps cur v bag :
  (cur <= v)%N -> filter (in_view v) (delete_old_views cur bag) = filter (in_view v) bag.
Proof.
  intros H. unfold delete_old_views. rewrite filter_filter_comm.
  apply filter_all. intros x Hx. apply filter_In in Hx. destruct Hx as [_ Hx].
  unfold in_view in Hx. apply N.eqb_eq in Hx. subst.
  destruct (N.ltb (t_view x) cur) eqn:E; auto. apply N.ltb_lt in E. lia.
Qed.

Lemma delete_old_incl cur bag x : In x (delete_old_views cur bag) -> In x bag.
Proof. unfold delete_old_views. intros H. apply filter_In in H. tauto. Qed.

Section Proofs.
  Variable c : cfg.
  Variable st : store.

  Notation q := (qsize c).
  Notation valid := (receipt_ok c).
  Notation Tally := (tally c).

  Lemma advance_ge cur w : (cur <= advance cur w)%N.
  Proof. unfold advance. destruct w; try lia. destruct (N.ltb a cur); lia. Qed.

  Lemma tally_snoc v hist t : Tally v (hist ++ [t]) = tally_step c v (Tally v hist) t.
  Proof. unfold tally. rewrite fold_left_app. reflexivity. Qed.

  Lemma run_state_snoc s xs x :
    run_state c st s (xs ++ [x]) = fst (step c st (run_state c st s xs) x).
  Proof. unfold run_state. rewrite fold_left_app. reflexivity. Qed.

  (* tally_step is view_add on counted messages *)
  Lemma tally_step_view_add v T t :
    counts_for c v t = true -> tally_step c v T t = fst (view_add q T t).
  Proof.
    intros H. unfold tally_step, view_add. rewrite H. simpl.
    destruct (has_id (t_id t) T); simpl; auto.
    destruct (Nat.leb q (S (length T))); auto.
  Qed.

  Lemma tally_step_skip v T t : counts_for c v t = false -> tally_step c v T t = T.
  Proof. intros H. unfold tally_step. rewrite H. reflexivity. Qed.

  (* ---------- what a tally contains ---------- *)
  Lemma has_id_false_notin i T : has_id i T = false -> ~ In i (map t_id T).
  Proof.
    unfold has_id. intros H Hin. apply in_map_iff in Hin. destruct Hin as [y [E Hy]].
    assert (existsb (fun y => N.eqb (t_id y) i) T = true).
    { apply existsb_exists. exists y. split; auto. apply N.eqb_eq. auto. }
    congruence.
  Qed.

  Lemma has_id_true_in i T : has_id i T = true -> In i (map t_id T).
  Proof.
    unfold has_id. intros H. apply existsb_exists in H. destruct H as [y [Hy E]].
    apply N.eqb_eq in E. subst. apply in_map. auto.
  Qed.

  Definition tally_ok (v : view) (hist T : list tmsg) : Prop :=
    Forall (fun y => valid y = true /\ t_view y = v /\ In y hist) T /\
    NoDup (map t_id T) /\ (1 <= q -> length T < q).

  Lemma tally_ok_tally v hist : tally_ok v hist (Tally v hist).
  Proof.
    induction hist as [|t hist IH] using rev_ind.
    - unfold tally, tally_ok. simpl. split; [constructor|]. split; [constructor|]. intros; lia.
    - rewrite tally_snoc. destruct IH as [F [ND L]].
      assert (F' : Forall (fun y => valid y = true /\ t_view y = v /\ In y (hist ++ [t])) (Tally v hist)).
      { eapply Forall_impl; [|exact F]. simpl. intros y [? [? ?]]. repeat split; auto. apply in_or_app; auto. }
      unfold tally_step.
      destruct (counts_for c v t) eqn:Ct; simpl; [|split; auto].
      destruct (has_id (t_id t) (Tally v hist)) eqn:Hid; simpl; [split; auto|].
      destruct (Nat.leb q (S (length (Tally v hist)))) eqn:Eq.
      + split; [constructor|]. split; [constructor|]. simpl. intros; lia.
      + apply Nat.leb_gt in Eq. unfold counts_for in Ct. apply andb_prop in Ct. destruct Ct as [V I].
        unfold in_view in I. apply N.eqb_eq in I.
        repeat split.
        * apply Forall_app. split; auto. constructor; auto. repeat split; auto.
          apply in_or_app. right. simpl. auto.
        * rewrite map_app. simpl.
          apply NoDup_app_snoc; auto. apply has_id_false_notin; auto.
        * intros _. rewrite app_length. simpl. lia.
  Qed.

  (* ---------- invariant linking the bag to the per-view tallies ---------- *)
  Definition Inv (s : sst) (hist : list tmsg) : Prop :=
    Forall (fun y => valid y = true /\ In y hist) (s_bag s) /\
    forall v, (s_view s <= v)%N -> filter (in_view v) (s_bag s) = Tally v hist.

  Lemma Inv_init c0 : Inv (mkS c0 []) [].
  Proof. split; simpl; auto. Qed.

  Lemma step_view_ge s x : (s_view s <= s_view (fst (step c st s x)))%N.
  Proof.
    unfold step, on_remote_timeout. destruct (negb (valid (fst x))); simpl; try lia.
    destruct (coll_add q (s_bag s) (fst x)) as [bag1 [l|]]; simpl.
    - destruct (remote_timeout_rule c (s_view s) (t_view (fst x)) l); simpl;
        try apply advance_ge.
      etransitivity; [apply advance_ge|apply advance_ge].
    - apply advance_ge.
  Qed.

  Lemma step_bag s x :
    s_bag (fst (step c st s x)) =
      delete_old_views (s_view s)
        (if valid (fst x) then fst (coll_add q (s_bag s) (fst x)) else s_bag s).
  Proof.
    unfold step, on_remote_timeout. destruct (valid (fst x)); simpl; auto.
    destruct (coll_add q (s_bag s) (fst x)) as [bag1 [l|]]; simpl; auto.
    destruct (remote_timeout_rule c (s_view s) (t_view (fst x)) l); simpl; auto.
  Qed.

  Lemma step_handed s x :
    handed (snd (step c st s x)) =
      if valid (fst x) then snd (coll_add q (s_bag s) (fst x)) else None.
  Proof.
    unfold step, on_remote_timeout. destruct (valid (fst x)); simpl; auto.
    destruct (coll_add q (s_bag s) (fst x)) as [bag1 [l|]]; simpl; auto.
    destruct (remote_timeout_rule c (s_view s) (t_view (fst x)) l); simpl; auto.
  Qed.

  Lemma Inv_step s hist x : Inv s hist -> Inv (fst (step c st s x)) (hist ++ [fst x]).
  Proof.
    intros [F I]. pose proof (step_view_ge s x) as Hge. destruct x as [t a1]. simpl fst in *.
    split.
    - rewrite step_bag. simpl fst.
      apply Forall_forall. intros y Hy. apply delete_old_incl in Hy.
      rewrite Forall_forall in F.
      destruct (valid t) eqn:V.
      + apply coll_add_incl in Hy. destruct Hy as [Hy| ->].
        * destruct (F y Hy). split; auto. apply in_or_app; auto.
        * split; auto. apply in_or_app. right. simpl. auto.
      + destruct (F y Hy). split; auto. apply in_or_app; auto.
    - intros v Hv. rewrite step_bag. simpl fst.
      assert (Hcur : (s_view s <= v)%N) by lia.
      rewrite delete_old_keeps by auto.
      rewrite tally_snoc. rewrite <- (I v Hcur).
      destruct (valid t) eqn:V.
      + destruct (N.eq_dec v (t_view t)) as [->|Ne].
        * destruct (coll_add_same q (s_bag s) t) as [E _]. rewrite E.
          symmetry. apply tally_step_view_add. unfold counts_for. rewrite V, in_view_refl. auto.
        * rewrite coll_add_other by auto. symmetry. apply tally_step_skip.
          unfold counts_for, in_view. replace (N.eqb (t_view t) v) with false.
          apply andb_false_r. symmetry. apply N.eqb_neq. congruence.
      + symmetry. apply tally_step_skip. unfold counts_for. rewrite V. auto.
  Qed.

  Lemma Inv_run c0 xs : Inv (run_state c st (mkS c0 []) xs) (map fst xs).
  Proof.
    induction xs as [|x xs IH] using rev_ind.
    - apply Inv_init.
    - rewrite run_state_snoc, map_app. simpl. apply Inv_step. auto.
  Qed.

  (* ---------- quorum_iff / built_from_v_only, one step ---------- *)
  Lemma step_fires_iff s hist x l :
    Inv s hist -> (s_view s <= t_view (fst x))%N ->
    let T := Tally (t_view (fst x)) hist in
    handed (snd (step c st s x)) = Some l <->
    (valid (fst x) = true /\ has_id (t_id (fst x)) T = false /\ q <= S (length T) /\ l = T ++ [fst x]).
  Proof.
    intros [F I] Hv T. rewrite step_handed.
    destruct (valid (fst x)) eqn:V.
    - destruct (coll_add_same q (s_bag s) (fst x)) as [_ E]. rewrite E.
      rewrite (I _ Hv). fold T. unfold view_add.
      destruct (has_id (t_id (fst x)) T); simpl.
      + split; [discriminate|]. intros [_ [? _]]. discriminate.
      + destruct (Nat.leb q (S (length T))) eqn:Eq; simpl.
        * apply Nat.leb_le in Eq. split.
          -- intros H. inversion H. auto.
          -- intros [_ [_ [_ ->]]]. auto.
        * apply Nat.leb_gt in Eq. split; [discriminate|]. intros [_ [_ [? _]]]. lia.
    - split; [discriminate|]. intros [? _]. discriminate.
  Qed.

  (* ---------- views are isolated ---------- *)
  Lemma tally_filter_acc v hist T :
    fold_left (tally_step c v) hist T = fold_left (tally_step c v) (filter (in_view v) hist) T.
  Proof.
    revert T. induction hist as [|t hist IH]; simpl; intros T; auto.
    destruct (in_view v t) eqn:E; simpl.
    - apply IH.
    - rewrite tally_step_skip; auto. unfold counts_for. rewrite E. apply andb_false_r.
  Qed.

  Lemma tally_filter v hist : Tally v hist = Tally v (filter (in_view v) hist).
  Proof. apply tally_filter_acc. Qed.
End Proofs.

(* ---------- the certificate built from a quorum of receipt-checked timeouts verifies ---------- *)

Definition list_kind (sch : scheme) : option mkind :=
  match sch with Ecdsa => Some KEcdsa | Eddsa => Some KEddsa | Bls12 => None end.

Lemma mkind_eqb_refl k : mkind_eqb k k = true.
Proof. destruct k; reflexivity. Qed.

Lemma single_sig members sch k s m i :
  list_kind sch = Some k ->
  scheme_verify members sch s m = true -> signed_only_by s i = true ->
  exists s1, s = QMulti k [s1] /\ s_claimed s1 = i /\ verify_single members s1 m = true.
Proof.
  intros K V S.
  destruct sch; simpl in K; inversion K; subst k; clear K;
    destruct s as [k' l'|bits real]; simpl in V; try discriminate;
    destruct k'; try discriminate;
    unfold signed_only_by in S; simpl in S;
    (destruct l' as [|s1 [|s2 l']]; simpl in S; try discriminate);
    apply N.eqb_eq in S; exists s1; (split; [reflexivity|]); (split; [exact S|]);
    unfold multi_verify in V; simpl in V;
    destruct (distinct_signers [s1]); simpl in V; try discriminate;
    rewrite andb_true_r in V; exact V.
Qed.

Lemma multi_combine_singles k ss : forall acc,
  NoDup (map s_claimed (acc ++ ss)) ->
  multi_combine k acc (map (fun s => QMulti k [s]) ss) = Some (acc ++ ss).
Proof.
  induction ss as [|s ss IH]; intros acc ND; simpl.
  - rewrite app_nil_r. reflexivity.
  - rewrite mkind_eqb_refl. simpl.
    assert (Hs : memN (s_claimed s) (map s_claimed acc) = false).
    { apply memN_false. rewrite map_app in ND. simpl in ND. apply NoDup_remove_2 in ND.
      intros H. apply ND. apply in_or_app. auto. }
    rewrite Hs. rewrite IH.
    + rewrite <- app_assoc. reflexivity.
    + rewrite <- app_assoc. exact ND.
Qed.

Lemma scheme_combine_singles sch k ss :
  list_kind sch = Some k -> 2 <= length ss -> NoDup (map s_claimed ss) ->
  scheme_combine sch (map (fun s => QMulti k [s]) ss) = Some (QMulti k ss).
Proof.
  intros K L ND. unfold scheme_combine. rewrite map_length.
  assert (Nat.ltb (length ss) 2 = false) as -> by (apply Nat.ltb_ge; lia).
  destruct sch; simpl in K; inversion K; subst k;
    rewrite (multi_combine_singles _ ss []) by exact ND; reflexivity.
Qed.

Lemma multi_verify_all members ss m :
  1 <= length ss -> NoDup (map s_claimed ss) ->
  Forall (fun s => verify_single members s m = true) ss ->
  multi_verify members ss m = true.
Proof.
  intros L ND F. unfold multi_verify.
  destruct ss as [|s ss]; [simpl in L; lia|].
  assert (Nat.eqb (length (s :: ss)) 0 = false) as -> by reflexivity.
  unfold distinct_signers. rewrite nodupbN_NoDup by exact ND. simpl negb. cbv iota.
  apply forallb_forall. rewrite Forall_forall in F. exact F.
Qed.

Lemma opt_all_some {A} (l : list A) : opt_all (map Some l) = Some l.
Proof. induction l as [|a l IH]; simpl; auto. rewrite IH. reflexivity. Qed.

Lemma qsize_same c c' : c_replicas c' = c_replicas c -> qsize c' = qsize c.
Proof. unfold qsize. intros ->. reflexivity. Qed.

Section Certs.
  Variable c : cfg.

  Lemma extract_view_sigs k v l :
    list_kind (c_scheme c) = Some k ->
    Forall (fun t => view_sig_ok c t = true /\ t_view t = v) l ->
    exists ss, map t_vsig l = map Some (map (fun s => QMulti k [s]) ss) /\
               map s_claimed ss = map t_id l /\
               Forall (fun s => verify_single (c_replicas c) s (MView v) = true) ss.
  Proof.
    intros K. induction 1 as [|t l [Ht Hv] _ [ss [E1 [E2 F]]]].
    - exists []. simpl. auto.
    - unfold view_sig_ok in Ht. destruct (t_vsig t) as [s|] eqn:Es; [|discriminate].
      apply andb_prop in Ht. destruct Ht as [V S]. unfold sverify in V. rewrite Hv in V.
      destruct (single_sig _ _ _ _ _ _ K V S) as [s1 [-> [C1 V1]]].
      exists (s1 :: ss). simpl. rewrite Es, E1, E2, C1. repeat split; auto.
  Qed.

  (* tc_verifies: ECDSA / EdDSA *)
  Lemma tc_verifies c' k v l :
    list_kind (c_scheme c) = Some k ->
    c_scheme c' = c_scheme c -> c_replicas c' = c_replicas c ->
    Forall (fun t => view_sig_ok c t = true /\ t_view t = v) l ->
    NoDup (map t_id l) -> 2 <= length l -> qsize c <= length l ->
    exists t, create_tc_of c v l = Ok t /\ tc_view t = v /\ verify_tc c' t = Ok tt.
  Proof.
    intros K Es Er F ND L2 Lq.
    unfold create_tc_of. destruct (N.eqb v 0) eqn:E0.
    - apply N.eqb_eq in E0. subst v. exists (mkTC None 0%N). unfold create_tc. simpl. auto.
    - destruct (extract_view_sigs k v l K F) as [ss [E1 [E2 Fs]]].
      assert (Lss : length ss = length l).
      { rewrite <- (map_length s_claimed ss), E2, map_length. reflexivity. }
      rewrite E1, opt_all_some. unfold create_tc. rewrite E0.
      rewrite (scheme_combine_singles _ k ss K) by (rewrite ?E2; auto; lia).
      eexists. split; [reflexivity|]. split; [reflexivity|].
      unfold verify_tc. cbn [tc_view tc_sig]. rewrite E0.
      unfold part_len. cbn [participants]. rewrite map_length, (qsize_same c c' Er), Lss.
      assert (Nat.ltb (length l) (qsize c) = false) as -> by (apply Nat.ltb_ge; lia).
      rewrite Es, Er.
      assert (scheme_verify (c_replicas c) (c_scheme c) (QMulti k ss) (MView v) = true) as ->.
      { destruct (c_scheme c); simpl in K; inversion K; subst k; simpl;
          apply multi_verify_all; rewrite ?E2; auto; lia. }
      reflexivity.
  Qed.
End Certs.

(* what the certificate layer must provide (proved per signature scheme) *)
Definition tc_ok (c : cfg) : Prop := forall c' v l,
  c_scheme c' = c_scheme c -> c_replicas c' = c_replicas c ->
  Forall (fun t => view_sig_ok c t = true /\ t_view t = v) l ->
  NoDup (map t_id l) -> 2 <= length l -> qsize c <= length l ->
  exists t, create_tc_of c v l = Ok t /\ tc_view t = v /\ verify_tc c' t = Ok tt.

Lemma tc_ok_list c k : list_kind (c_scheme c) = Some k -> tc_ok c.
Proof. intros K c' v l. apply tc_verifies with (k := k). exact K. Qed.

(* ---------- OnRemoteTimeout when the collector fires ---------- *)
Section Fired.
  Variable c : cfg.
  Variable st : store.
  Notation q := (qsize c).

  Lemma create_tc_of_view tv l t : create_tc_of c tv l = Ok t -> tc_view t = tv.
  Proof.
    unfold create_tc_of, create_tc. destruct (N.eqb tv 0) eqn:E0.
    - intros H. inversion H. simpl. apply N.eqb_eq in E0. auto.
    - destruct (opt_all (map t_vsig l)); [|discriminate].
      destruct (scheme_combine (c_scheme c) l0); [|discriminate].
      intros H. inversion H. reflexivity.
  Qed.

  Lemma remote_rule_tc cur tv l si :
    remote_timeout_rule c cur tv l = Ok si -> create_tc_of c tv l = Ok (si_tc si).
  Proof.
    unfold remote_timeout_rule. destruct (create_tc_of c tv l) as [t| |]; try discriminate.
    destruct (c_aggqc c).
    - destruct (create_aggqc c (agg_label cur tv) (map to_timeout l)); try discriminate.
      intros H. inversion H. reflexivity.
    - intros H. inversion H. reflexivity.
  Qed.

  Lemma verify_sync_info_ge si w : verify_sync_info c st si = Ok w -> (tc_view (si_tc si) <= w)%N.
  Proof.
    unfold verify_sync_info. destruct (verify_tc c (si_tc si)); try discriminate.
    destruct (c_aggqc c).
    - destruct (si_agg si) as [ag|].
      + destruct (verify_aggqc c st ag); try discriminate. intros H. inversion H.
        destruct (N.leb (tc_view (si_tc si)) (aq_view ag)) eqn:E; [apply N.leb_le in E|]; lia.
      + intros H. inversion H. lia.
    - intros H. inversion H.
      destruct (N.leb (tc_view (si_tc si)) 0) eqn:E; [apply N.leb_le in E|]; lia.
  Qed.

  Lemma step_quorum s t a1 l :
    receipt_ok c t = true -> snd (coll_add q (s_bag s) t) = Some l ->
    step c st s (t, a1) =
      let bag1 := delete_old_views (s_view s) (fst (coll_add q (s_bag s) t)) in
      let v1 := advance (s_view s) a1 in
      match remote_timeout_rule c (s_view s) (t_view t) l with
      | Ok si => (mkS (advance v1 (verify_sync_info c st si)) bag1, OFired l si)
      | _ => (mkS v1 bag1, ORuleFailed l)
      end.
  Proof.
    intros V E. unfold step, on_remote_timeout. simpl fst. simpl snd. rewrite V. simpl negb. cbv iota.
    destruct (coll_add q (s_bag s) t) as [bag1 r]. simpl in E. subst r. simpl.
    destruct (remote_timeout_rule c (s_view s) (t_view t) l); reflexivity.
  Qed.

  (* moves_on: a replica in the timed-out view whose sync info verifies ends in a later view *)
  Lemma fired_view s t a1 l si w :
    snd (step c st s (t, a1)) = OFired l si ->
    verify_sync_info c st si = Ok w ->
    t_view t = s_view s ->
    (N.succ (s_view s) <= s_view (fst (step c st s (t, a1))))%N.
  Proof.
    intros O W Ev. unfold step, on_remote_timeout in *. simpl fst in *. simpl snd in *.
    destruct (negb (receipt_ok c t)); [discriminate|].
    destruct (coll_add q (s_bag s) t) as [bag1 [l'|]]; [|discriminate].
    destruct (remote_timeout_rule c (s_view s) (t_view t) l') as [si'| |] eqn:R; try discriminate.
    simpl in O. inversion O. subst l' si'. simpl.
    rewrite W. pose proof (verify_sync_info_ge _ _ W) as G.
    apply remote_rule_tc in R. apply create_tc_of_view in R. rewrite R, Ev in G.
    pose proof (advance_ge (s_view s) a1) as A.
    unfold advance at 1. destruct (N.ltb w (advance (s_view s) a1)) eqn:E.
    - apply N.ltb_lt in E. lia.
    - lia.
  Qed.

  Lemma valid_view_sig t : receipt_ok c t = true -> view_sig_ok c t = true.
  Proof. unfold receipt_ok. intros H. apply andb_prop in H. tauto. Qed.

  (* simple rule: firing yields a TC for the message's view that verifies everywhere *)
  Lemma fired_simple s hist t a1 l :
    Inv c s hist -> (s_view s <= t_view t)%N ->
    tc_ok c -> c_aggqc c = false -> 2 <= q ->
    handed (snd (step c st s (t, a1))) = Some l ->
    exists si, snd (step c st s (t, a1)) = OFired l si /\ si_agg si = None /\
      tc_view (si_tc si) = t_view t /\
      (forall c', c_scheme c' = c_scheme c -> c_replicas c' = c_replicas c ->
                  verify_tc c' (si_tc si) = Ok tt) /\
      (t_view t = s_view s -> N.succ (s_view s) <= s_view (fst (step c st s (t, a1))))%N.
  Proof.
    intros I Hv TCV Ag Q2 H.
    pose proof (proj1 (step_fires_iff c st s hist (t, a1) l I Hv) H) as [V [Hid [Lq El]]].
    simpl fst in *.
    destruct (tally_ok_tally c (t_view t) hist) as [F [ND _]].
    set (T := tally c (t_view t) hist) in *.
    assert (Fl : Forall (fun y => view_sig_ok c y = true /\ t_view y = t_view t) l).
    { subst l. apply Forall_app. split.
      - eapply Forall_impl; [|exact F]. simpl. intros y [Vy [Ey _]]. split; auto. apply valid_view_sig; auto.
      - constructor; auto. split; auto. apply valid_view_sig; auto. }
    assert (NDl : NoDup (map t_id l)).
    { subst l. rewrite map_app. simpl. apply NoDup_app_snoc; auto. apply has_id_false_notin; auto. }
    assert (Ll : length l = S (length T)).
    { subst l. rewrite app_length. simpl. lia. }
    destruct (TCV c (t_view t) l eq_refl eq_refl Fl NDl ltac:(lia) ltac:(lia))
      as [tc0 [Ec [Etv Everif]]].
    rewrite step_handed in H. simpl fst in H. rewrite V in H.
    rewrite (step_quorum s t a1 l V H). cbv zeta.
    unfold remote_timeout_rule. rewrite Ec, Ag.
    exists (mkSI tc0 None). simpl. repeat split; auto.
    - intros c' Es Er.
      destruct (TCV c' (t_view t) l Es Er Fl NDl ltac:(lia) ltac:(lia))
        as [tc1 [Ec1 [_ Ev1]]]. rewrite Ec in Ec1. inversion Ec1. subst tc1. exact Ev1.
    - intros Ev.
      assert (W : verify_sync_info c st (mkSI tc0 None) = Ok (if N.leb (tc_view tc0) 0 then 0%N else tc_view tc0)).
      { unfold verify_sync_info. simpl. rewrite Everif, Ag. reflexivity. }
      rewrite W. rewrite Etv.
      pose proof (advance_ge (s_view s) a1) as A.
      unfold advance at 1.
      destruct (N.leb (t_view t) 0) eqn:E0.
      + apply N.leb_le in E0. destruct (N.ltb 0 (advance (s_view s) a1)) eqn:E; [apply N.ltb_lt in E|apply N.ltb_ge in E]; lia.
      + destruct (N.ltb (t_view t) (advance (s_view s) a1)) eqn:E; [apply N.ltb_lt in E|]; lia.
  Qed.
End Fired.

(* ---------- trace-level statements ---------- *)
Section Trace.
  Variable c : cfg.
  Variable st : store.
  Notation q := (qsize c).

  Lemma quorum_iff c0 (xs : list input) (x : input) l :
    let s := run_state c st (mkS c0 []) xs in
    let hist := map fst xs in
    let v := t_view (fst x) in
    (s_view s <= v)%N ->
    (handed (snd (step c st s x)) = Some l <->
     receipt_ok c (fst x) = true /\ has_id (t_id (fst x)) (tally c v hist) = false /\
     q <= S (length (tally c v hist)) /\ l = tally c v hist ++ [fst x]).
  Proof. intros s hist v Hv. apply step_fires_iff; auto. apply Inv_run. Qed.

  Lemma built_from_v_only c0 (xs : list input) (x : input) l :
    let s := run_state c st (mkS c0 []) xs in
    let hist := map fst xs in
    let v := t_view (fst x) in
    (s_view s <= v)%N ->
    handed (snd (step c st s x)) = Some l ->
    Forall (fun t => t_view t = v /\ receipt_ok c t = true /\ In t (hist ++ [fst x])) l /\
    NoDup (map t_id l) /\ (1 <= q -> length l = q).
  Proof.
    intros s hist v Hv H. apply quorum_iff in H; auto. destruct H as [V [Hid [Lq ->]]].
    destruct (tally_ok_tally c v hist) as [F [ND L]]. fold hist v in Hid, Lq |- *.
    split; [|split].
    - apply Forall_app. split.
      + eapply Forall_impl; [|exact F]. simpl. intros y [? [? ?]]. repeat split; auto. apply in_or_app; auto.
      + constructor; auto. repeat split; auto. apply in_or_app. right. simpl. auto.
    - rewrite map_app. simpl. apply NoDup_app_snoc; auto. apply has_id_false_notin; auto.
    - intros Q1. rewrite app_length. simpl. specialize (L Q1). lia.
  Qed.

  Lemma views_isolated c1 c2 (xs1 xs2 : list input) v :
    filter (in_view v) (map fst xs1) = filter (in_view v) (map fst xs2) ->
    let s1 := run_state c st (mkS c1 []) xs1 in
    let s2 := run_state c st (mkS c2 []) xs2 in
    (s_view s1 <= v)%N -> (s_view s2 <= v)%N ->
    filter (in_view v) (s_bag s1) = filter (in_view v) (s_bag s2) /\
    forall x : input, t_view (fst x) = v ->
      handed (snd (step c st s1 x)) = handed (snd (step c st s2 x)).
  Proof.
    intros E s1 s2 H1 H2.
    destruct (Inv_run c st c1 xs1) as [_ I1]. destruct (Inv_run c st c2 xs2) as [_ I2].
    fold s1 in I1. fold s2 in I2.
    assert (B : filter (in_view v) (s_bag s1) = filter (in_view v) (s_bag s2)).
    { rewrite (I1 v H1), (I2 v H2). rewrite (tally_filter c v (map fst xs1)), (tally_filter c v (map fst xs2)), E. reflexivity. }
    split; auto. intros x Ex. rewrite !step_handed.
    destruct (receipt_ok c (fst x)); auto.
    destruct (coll_add_same q (s_bag s1) (fst x)) as [_ ->].
    destruct (coll_add_same q (s_bag s2) (fst x)) as [_ ->].
    rewrite Ex, B. reflexivity.
  Qed.
End Trace.

(* the quorum is at least 1 for n >= 1 and at least 2 for n >= 2 *)
Lemma qsize_pos c : c_replicas c <> [] -> 1 <= qsize c.
Proof.
  intros H. unfold qsize. destruct (c_replicas c) as [|x r]; [congruence|].
  pose proof (q_pos (Z.of_nat (length (x :: r)))) as P. simpl length in *. lia.
Qed.

Lemma qsize_two c : 2 <= length (c_replicas c) -> 2 <= qsize c.
Proof.
  intros H. unfold qsize. set (n := Z.of_nat (length (c_replicas c))).
  assert (Hn : (2 <= n)%Z) by (unfold n; lia).
  pose proof (q_intersect n ltac:(lia)) as P. pose proof (f_nonneg n ltac:(lia)) as Fn. lia.
Qed.

(* Proofs about the Kauri aggregation model (KauriModel.v): the aggregate of a node always
   consists of distinct genuine member signatures over the node's block; everything handed to the
   parent and every certificate put on the event loop verifies; a certificate is emitted exactly at
   the contributions that are accepted (right view, block available, verifying, not overlapping)
   and bring the aggregate to a quorum. *)
From HS Require Import Base.Prelude Quorum.QuorumModel Collect.VoteModel Collect.VoteProofs Collect.KauriModel.
Close Scope Z_scope.

Lemma NoDup_app_disj : forall (l a : list N), NoDup l -> NoDup a -> (forall x, In x l -> ~ In x a) -> NoDup (l ++ a).
Proof.
  induction l as [|y l IH]; cbn; intros a Hl Ha Hd; [assumption|].
  inversion Hl; subst. constructor.
  - intros Hi. apply in_app_or in Hi. destruct Hi as [Hi|Hi]; [contradiction|]. apply (Hd y); auto.
  - apply IH; auto.
Qed.

Lemma sig_append_ok : forall l acc, NoDup (map s_lab (acc ++ l)) -> sig_append acc l = Some (acc ++ l).
Proof.
  induction l as [|s l IH]; cbn; intros acc Hn.
  - now rewrite app_nil_r.
  - destruct (memN (s_lab s) (map s_lab acc)) eqn:E.
    + exfalso. apply memN_In in E. rewrite map_app in Hn. cbn in Hn.
      apply NoDup_remove_2 in Hn. apply Hn. apply in_or_app. now left.
    + rewrite IH; rewrite <- app_assoc; cbn; [reflexivity|assumption].
Qed.

Section Kauri.
  Variable c : kcfg.
  Let members := kc_members c.

  Definition kv (h : hash) (l : list ssig) : bool := kverify_c c h l.

  Lemma kverify_spec : forall h l, kv h l = true <->
    (l <> [] \/ kc_bls c = true) /\ NoDup (map s_lab l) /\ Forall (fun s => verify_single members h s = true) l.
  Proof.
    intros h l. unfold kv, kverify_c, kverify. fold members. destruct l as [|s l].
    - cbn. rewrite andb_true_r, orb_false_r. split.
      + intros H. repeat split; auto; constructor.
      + intros [[H|H] _]; [contradiction|assumption].
    - rewrite andb_false_r. cbn [orb]. rewrite andb_true_iff, nodupbN_NoDup. unfold verify_sigs.
      rewrite forallb_forall, Forall_forall. split.
      + intros [H1 H2]. repeat split; auto. left. discriminate.
      + intros [_ [H2 H1]]. split; auto.
  Qed.

  Lemma can_merge_spec : forall l a, can_merge l a = true <->
    forall x, In x (map s_lab l) -> ~ In x (map s_lab a).
  Proof.
    intros l a. unfold can_merge. rewrite negb_true_iff. split.
    - intros H x Hx Ha. apply in_map_iff in Hx. destruct Hx as [s [Es Hs]]. subst x.
      assert (E : existsb (fun s => memN (s_lab s) (map s_lab a)) l = true).
      { apply existsb_exists. exists s. split; [assumption|]. now apply memN_In. }
      congruence.
    - intros H. destruct (existsb _ l) eqn:E; [|reflexivity]. exfalso.
      apply existsb_exists in E. destruct E as [s [Hs Hm]]. apply memN_In in Hm.
      apply (H (s_lab s)); [now apply in_map|assumption].
  Qed.

  (* combining a verifying contribution with a verifying, disjoint aggregate *)
  Lemma combine_pair : forall h l a, kv h l = true -> kv h a = true ->
    can_merge l a = true -> combine [l; a] = Some (l ++ a) /\ kv h (l ++ a) = true.
  Proof.
    intros h l a Hl Ha Hm. apply kverify_spec in Hl. apply kverify_spec in Ha.
    destruct Hl as [Hl0 [Hl1 Hl2]]. destruct Ha as [Ha0 [Ha1 Ha2]].
    assert (Hn : NoDup (map s_lab (l ++ a))).
    { rewrite map_app. apply NoDup_app_disj; auto. now apply can_merge_spec. }
    split.
    - unfold combine. cbn [length Nat.ltb Nat.leb combine_from].
      rewrite (sig_append_ok l []) by assumption. cbn [app]. now rewrite (sig_append_ok a l).
    - apply kverify_spec. repeat split; auto.
      + destruct Hl0 as [Hl0|Hl0]; [left; destruct l; [contradiction|discriminate]|now right].
      + apply Forall_app. now split.
  Qed.

  (* the aggregate held by a node verifies for the node's block *)
  Definition kinv (st : kstate) : Prop :=
    match ks_agg st with Some a => kv (ks_hash st) a = true | None => True end.

  (* a replica's own vote is genuine *)
  Definition kev_ok (e : kevent) : Prop :=
    match e with KBegin h _ own => kv h own = true | _ => True end.

  Definition out_ok (h : hash) (o : kout) : Prop :=
    match o with
    | OSend _ (Some a) => kv h a = true
    | OSend _ None => True
    | OQC q => q_hash q = h /\ kv h (q_sigs q) = true /\ kqsize c <= length (q_sigs q)
    end.

  (* the acceptance test of onContributionRecv / mergeContribution, and the aggregate it produces *)
  Definition accepted (st : kstate) (v : view) (sg : option (list ssig)) (l a : list ssig) : Prop :=
    v = ks_view st /\ In (ks_hash st) (kc_blocks c) /\ sg = Some l /\ ks_agg st = Some a /\
    kv (ks_hash st) l = true /\ can_merge l a = true.

  Lemma merge_spec : forall st sg st1 o, kinv st -> merge c st sg = Some (st1, o) ->
    ks_hash st1 = ks_hash st /\ ks_view st1 = ks_view st /\ ks_sent st1 = ks_sent st /\ ks_senders st1 = ks_senders st /\
    exists l, sg = Some l /\ kv (ks_hash st) l = true /\ In (ks_hash st) (kc_blocks c) /\
      match ks_agg st with
      | None => ks_agg st1 = Some l /\ o = []
      | Some a => can_merge l a = true /\ ks_agg st1 = Some (l ++ a) /\
                  o = if Nat.leb (kqsize c) (length (l ++ a)) then [OQC (mkQC (ks_hash st) (ks_view st) (l ++ a))] else []
      end.
  Proof.
    intros st sg st1 o Hi H. unfold merge in H.
    destruct (memN (ks_hash st) (kc_blocks c)) eqn:Eb; cbn [negb] in H; [|discriminate].
    apply memN_In in Eb. destruct sg as [l|]; [|discriminate].
    destruct (kverify_c c (ks_hash st) l) eqn:Ev; cbn [negb] in H; [|discriminate].
    unfold kinv in Hi. destruct (ks_agg st) as [a|] eqn:Ea.
    - destruct (can_merge l a) eqn:Em; cbn [negb] in H; [|discriminate].
      destruct (combine_pair _ _ _ Ev Hi Em) as [Ec _]. rewrite Ec in H. inversion H; subst. cbn.
      do 4 (split; [reflexivity|]). exists l. do 3 (split; [auto|]). repeat split; auto.
    - inversion H; subst. cbn. do 4 (split; [reflexivity|]). exists l. do 3 (split; [auto|]). split; reflexivity.
  Qed.

  Lemma kstep_ok : forall st e st' o, kinv st -> kev_ok e -> kstep c st e = (st', o) ->
    kinv st' /\ Forall (out_ok (ks_hash st')) o.
  Proof.
    intros st e st' o Hi He H. destruct e as [h v own|id v sg|v]; cbn [kstep] in H.
    - destruct (kc_leaf c); inversion H; subst; cbn; (split; [exact He|]); [constructor; [exact He|constructor]|constructor].
    - destruct (N.eqb (ks_view st) v); cbn [negb] in H; [|inversion H; subst; split; [assumption|constructor]].
      destruct (merge c st sg) as [[st1 o1]|] eqn:Em; [|inversion H; subst; split; [assumption|constructor]].
      destruct (merge_spec _ _ _ _ Hi Em) as [E1 [E2 [E3 [E4 [l [Es [Hv [Hb Hagg]]]]]]]].
      assert (Hi1 : kinv st1 /\ Forall (out_ok (ks_hash st1)) o1).
      { unfold kinv in *. rewrite E1. destruct (ks_agg st) as [a|] eqn:Ea.
        - destruct Hagg as [Hm [Ea1 Eo]]. rewrite Ea1. destruct (combine_pair _ _ _ Hv Hi Hm) as [_ Hva].
          split; [assumption|]. subst o1. destruct (Nat.leb_spec (kqsize c) (length (l ++ a))); constructor; [|constructor].
          cbn. repeat split; auto.
        - destruct Hagg as [Ea1 Eo]. rewrite Ea1. subst o1. split; [assumption|constructor]. }
      destruct Hi1 as [Hk1 Ho1].
      destruct (is_subset _ _); inversion H; subst; cbn; split; auto.
      apply Forall_app. split; [assumption|]. constructor; [|constructor]. cbn. unfold kinv in Hk1.
      destruct (ks_agg st1); auto.
    - destruct (N.eqb (ks_view st) v); cbn [negb] in H; [|inversion H; subst; split; [assumption|constructor]].
      destruct (ks_sent st); cbn [negb] in H; inversion H; subst.
      + split; [assumption|constructor].
      + split; [exact I|]. constructor; [|constructor]. cbn. unfold kinv in Hi. destruct (ks_agg st); auto.
  Qed.

  (* states and outputs along a run *)
  Fixpoint ktrace (st : kstate) (es : list kevent) : list (kstate * list kout) :=
    match es with
    | [] => []
    | e :: r => let '(st1, o) := kstep c st e in (st1, o) :: ktrace st1 r
    end.
  Lemma ktrace_outputs : forall es st, map snd (ktrace st es) = snd (krun c st es).
  Proof.
    induction es as [|e es IH]; intros st; cbn [ktrace krun]; [reflexivity|].
    destruct (kstep c st e) as [st1 o]. specialize (IH st1). destruct (krun c st1 es). cbn in *. now rewrite IH.
  Qed.

  Theorem kauri_emitted_verify : forall es st, kinv st -> Forall kev_ok es ->
    Forall (fun p => kinv (fst p) /\ Forall (out_ok (ks_hash (fst p))) (snd p)) (ktrace st es).
  Proof.
    induction es as [|e es IH]; intros st Hi Hok; cbn [ktrace]; [constructor|].
    inversion Hok; subst. destruct (kstep c st e) as [st1 o] eqn:E.
    destruct (kstep_ok _ _ _ _ Hi H1 E) as [Hi1 Ho]. constructor; [split; assumption|]. now apply IH.
  Qed.

  Definition emits_qc (o : list kout) (q : qcert) : Prop := In (OQC q) o.

  (* exactly the accepted contributions that reach the quorum emit a certificate, and it is the
     contribution joined with the aggregate *)
  Theorem kauri_qc_iff_quorum : forall st id v sg q, kinv st ->
    (emits_qc (snd (kstep c st (KContrib id v sg))) q <->
     exists l a, accepted st v sg l a /\ kqsize c <= length l + length a /\
                 q = mkQC (ks_hash st) (ks_view st) (l ++ a)).
  Proof.
    intros st id v sg q Hi. cbn [kstep]. split.
    - intros H. destruct (N.eqb_spec (ks_view st) v) as [Ev|Ev]; cbn [negb] in H; [|destruct H].
      destruct (merge c st sg) as [[st1 o1]|] eqn:Em; [|destruct H].
      destruct (merge_spec _ _ _ _ Hi Em) as [E1 [E2 [E3 [E4 [l [Es [Hv [Hb Hagg]]]]]]]].
      assert (Hq : In (OQC q) o1).
      { destruct (is_subset _ _); cbn [snd] in H; [|assumption].
        apply in_app_or in H. destruct H as [H|[H|[]]]; [assumption|discriminate]. }
      destruct (ks_agg st) as [a|] eqn:Ea.
      + destruct Hagg as [Hm [_ Eo]]. subst o1.
        destruct (Nat.leb_spec (kqsize c) (length (l ++ a))) as [Hle|Hgt]; [|destruct Hq].
        destruct Hq as [Hq|[]]. inversion Hq; subst q. exists l, a. rewrite app_length in Hle.
        unfold accepted. rewrite Ea. repeat split; auto.
      + destruct Hagg as [_ Eo]. subst o1. destruct Hq.
    - intros [l [a [[Ev [Hb [Es [Ea [Hv Hm]]]]] [Hle Eq]]]]. subst v sg q.
      rewrite N.eqb_refl. cbn [negb]. unfold merge. apply memN_In in Hb. rewrite Hb. cbn [negb].
      unfold kv in Hv. rewrite Hv, Ea. cbn [negb]. rewrite Hm. cbn [negb]. fold (kv (ks_hash st) l) in Hv.
      unfold kinv in Hi. rewrite Ea in Hi. destruct (combine_pair _ _ _ Hv Hi Hm) as [Ec _]. rewrite Ec.
      assert (El : Nat.leb (kqsize c) (length (l ++ a)) = true) by (apply Nat.leb_le; rewrite app_length; lia).
      rewrite El. destruct (is_subset _ _); cbn [snd]; [apply in_or_app; left|]; now left.
  Qed.

  Theorem kauri_no_qc_otherwise : forall st e q, (forall id v sg, e <> KContrib id v sg) ->
    ~ emits_qc (snd (kstep c st e)) q.
  Proof.
    intros st e q Hne H. destruct e as [h v own|id v sg|v]; [| exfalso; eapply Hne; reflexivity |]; cbn [kstep] in H.
    - destruct (kc_leaf c); cbn in H; [destruct H as [H|[]]; discriminate|destruct H].
    - destruct (negb (N.eqb (ks_view st) v)); [destruct H|].
      destruct (negb (ks_sent st)); cbn in H; [destruct H as [H|[]]; discriminate|destruct H].
  Qed.

  (* what "verifies" means: a quorum certificate from the tree carries distinct genuine member signatures *)
  Lemma kverify_genuine : forall h l, kv h l = true ->
    NoDup (map s_lab l) /\ forall s, In s l -> In (s_lab s) members /\ s_real s = Some (s_lab s, h).
  Proof.
    intros h l H. apply kverify_spec in H. destruct H as [_ [Hn Hf]]. split; [assumption|].
    intros s Hs. rewrite Forall_forall in Hf. apply Hf in Hs. unfold verify_single in Hs.
    apply andb_true_iff in Hs. destruct Hs as [Hm Hr]. split; [now apply memN_In|].
    destruct (s_real s) as [[i h']|]; [|discriminate]. apply andb_true_iff in Hr. destruct Hr as [Hi Hh].
    apply N.eqb_eq in Hi, Hh. now subst.
  Qed.
End Kauri.

(* Model of /repo/protocol/votingmachine/votingmachine.go (CollectVote, verifyCert) together with
   the pieces it calls: blockchain.LocalGet / Get (local map + fetch), ViewStates.HighQC().View(),
   eventloop.DelayUntil[ProposeMsg], cert.Authority.VerifyPartialCert / CreateQuorumCert and the
   Combine of security/crypto/{ecdsa,eddsa,bls12}.go.  Definitions only (no proofs).

   SYMBOLIC VOTES (DESIGN §3.2).  One signature is its claimed signer label together with what the
   bytes really are: [None] = garbage, [Some (i,h)] = a genuine signature made with replica i's key
   over Block.ToBytes() of the block whose hash is h.  A vote (hotstuff.PartialCert) is the block
   hash it names plus its QuorumSignature, written as the list of single signatures it contains
   (ECDSA/EdDSA: the Multi slice in slice order; BLS12: the set bits in ascending order, a
   single-bit aggregate being one entry).  PartialCert.Signer() is the first participant.

   REPAIRED behaviour modelled (fixes/C09-single-signer-votes.patch): verifyCert ignores a verified
   partial certificate whose signature does not have exactly one participant.  The tree without
   the patch stores such a vote under its first signer only, after which Combine fails with
   "overlapping signatures" on every later attempt ([patched := false] is that behaviour; it is
   used only by the witness example in Properties/C09.v).

   Verification of a signature list: every entry must verify under the key of its label.  (With
   fixes/C02-distinct-signers the list schemes additionally reject repeated labels; for a
   one-entry list this is the same, and a longer list is ignored by the repaired verifyCert
   whatever Verify said, so the collector's behaviour does not depend on that patch.) *)
From HS Require Import Base.Prelude Quorum.QuorumModel.
Close Scope Z_scope.

Record ssig : Type := mkS { s_lab : rid; s_real : option (rid * hash) }.
Record vote : Type := mkVote { v_hash : hash; v_sigs : list ssig }.
Record binfo : Type := mkB { b_hash : hash; b_view : view }.      (* what the collector reads of a block *)

(* an emitted hotstuff.NewViewMsg{SyncInfo: QC}: block hash, view, combined signature *)
Record qcert : Type := mkQC { q_hash : hash; q_view : view; q_sigs : list ssig }.

Record cfg : Type := mkCfg {
  c_members : list rid;      (* replicas of the RuntimeConfig (ids with a usable public key) *)
  c_remote : list binfo;     (* blocks that sender.RequestBlock can fetch from other replicas *)
  c_patched : bool           (* true = repaired verifyCert *)
}.

Definition qsize (c : cfg) : nat := Z.to_nat (quorum_size (Z.of_nat (length (c_members c)))).

Definition memN (i : N) (l : list N) : bool := existsb (N.eqb i) l.

(* ---- crypto ---- *)
Definition verify_single (members : list rid) (h : hash) (s : ssig) : bool :=
  memN (s_lab s) members &&
  match s_real s with
  | Some (i, h') => N.eqb i (s_lab s) && N.eqb h' h
  | None => false
  end.

(* Verify(signature, block.ToBytes()): no participants -> error; errors.Join of all results *)
Definition verify_sigs (members : list rid) (h : hash) (l : list ssig) : bool :=
  match l with
  | [] => false
  | _ => forallb (verify_single members h) l
  end.

(* NewPartialCert: signer = first participant (0 when there is none) *)
Definition v_signer (v : vote) : rid :=
  match v_sigs v with s :: _ => s_lab s | [] => 0%N end.

(* inner loop of Combine: append every element unless its label is already present *)
Fixpoint sig_append (acc l : list ssig) : option (list ssig) :=
  match l with
  | [] => Some acc
  | s :: r => if memN (s_lab s) (map s_lab acc) then None          (* ErrCombineOverlap *)
              else sig_append (acc ++ [s]) r
  end.
Fixpoint combine_from (acc : list ssig) (sigs : list (list ssig)) : option (list ssig) :=
  match sigs with
  | [] => Some acc
  | l :: r => match sig_append acc l with
              | None => None
              | Some acc' => combine_from acc' r
              end
  end.
(* Combine(signatures...): fewer than two -> ErrCombineMultiple *)
Definition combine (sigs : list (list ssig)) : option (list ssig) :=
  if Nat.ltb (length sigs) 2 then None else combine_from [] sigs.

(* ---- state ---- *)
Record vstate : Type := mkSt {
  st_store : list binfo;                    (* blockchain.blocks (local) *)
  st_high : view;                           (* state.HighQC().View() *)
  st_deferred : list vote;                  (* eventLoop.waitingEvents[ProposeMsg] (votes only) *)
  st_verified : list (hash * list vote)     (* verifiedVotes: one binding per key *)
}.

Definition local_get (s : list binfo) (h : hash) : option binfo :=
  find (fun b => N.eqb (b_hash b) h) s.

(* blockchain.Store: an existing hash is left alone *)
Definition store_block (s : list binfo) (b : binfo) : list binfo :=
  match local_get s (b_hash b) with Some _ => s | None => s ++ [b] end.

(* blockchain.Get: local, else fetch and remember *)
Definition get (c : cfg) (s : list binfo) (h : hash) : option binfo * list binfo :=
  match local_get s h with
  | Some b => (Some b, s)
  | None => match local_get (c_remote c) h with
            | Some b => (Some b, s ++ [b])
            | None => (None, s)
            end
  end.

Fixpoint lookup (m : list (hash * list vote)) (h : hash) : list vote :=
  match m with
  | [] => []
  | (k, l) :: r => if N.eqb k h then l else lookup r h
  end.
Definition del (m : list (hash * list vote)) (h : hash) : list (hash * list vote) :=
  filter (fun p => negb (N.eqb (fst p) h)) m.
Definition set (m : list (hash * list vote)) (h : hash) (l : list vote) : list (hash * list vote) :=
  (h, l) :: del m h.

(* the deferred clean-up at the end of verifyCert's critical section *)
Definition keep_entry (s : list binfo) (high : view) (p : hash * list vote) : bool :=
  match local_get s (fst p) with
  | Some b => negb (N.leb (b_view b) high)
  | None => false
  end.
Definition cleanup (st : vstate) : vstate :=
  mkSt (st_store st) (st_high st) (st_deferred st)
       (filter (keep_entry (st_store st) (st_high st)) (st_verified st)).
Definition with_verified (st : vstate) (m : list (hash * list vote)) : vstate :=
  mkSt (st_store st) (st_high st) (st_deferred st) m.

(* func (vm *VotingMachine) verifyCert(cert, block) — one atomic section *)
Definition verify_cert (c : cfg) (st : vstate) (v : vote) (b : binfo) : vstate * list qcert :=
  if negb (verify_sigs (c_members c) (v_hash v) (v_sigs v)) then (st, [])      (* VerifyPartialCert failed *)
  else if c_patched c && negb (Nat.eqb (length (v_sigs v)) 1) then (st, [])    (* patch: not exactly one signer *)
  else
    let votes := lookup (st_verified st) (v_hash v) in
    if existsb (fun w => N.eqb (v_signer w) (v_signer v)) votes then (cleanup st, [])   (* duplicate signer *)
    else
      let votes' := votes ++ [v] in
      let st1 := with_verified st (set (st_verified st) (v_hash v) votes') in
      if Nat.ltb (length votes') (qsize c) then (cleanup st1, [])
      else match combine (map v_sigs votes') with                               (* CreateQuorumCert *)
           | None => (cleanup st1, [])
           | Some sg =>
               (cleanup (with_verified st1 (del (st_verified st1) (v_hash v))),
                [mkQC (b_hash b) (b_view b) sg])
           end.

(* func (vm *VotingMachine) CollectVote(vote).  [deferred] is vote.Deferred. *)
Definition collect_vote (c : cfg) (st : vstate) (v : vote) (deferred : bool) : vstate * list qcert :=
  if negb deferred then
    match local_get (st_store st) (v_hash v) with
    | None => (mkSt (st_store st) (st_high st) (st_deferred st ++ [v]) (st_verified st), [])   (* DelayUntil ProposeMsg *)
    | Some b =>
        if N.leb (b_view b) (st_high st) then (st, [])                          (* block too old *)
        else verify_cert c st v b
    end
  else
    match get c (st_store st) (v_hash v) with
    | (None, _) => (st, [])                                                     (* could not find block *)
    | (Some b, s') =>
        let st' := mkSt s' (st_high st) (st_deferred st) (st_verified st) in
        if N.leb (b_view b) (st_high st) then (st', [])
        else verify_cert c st' v b
    end.

(* ---- what the collector's event loop sees ---- *)
Inductive event : Type :=
| EVote (v : vote)         (* a VoteMsg is handled *)
| EPropose (b : binfo)     (* a ProposeMsg is handled: the block is stored, then the delayed votes are re-queued *)
| EHigh (b : binfo)        (* the high QC moves to a (stored) block: UpdateHighQC *)
| ETC (v : view).          (* the high TC moves to view v: UpdateHighTC — the collector never reads it *)

Fixpoint feed (c : cfg) (st : vstate) (vs : list vote) : vstate * list qcert :=
  match vs with
  | [] => (st, [])
  | v :: r => let '(st1, o1) := collect_vote c st v true in
              let '(st2, o2) := feed c st1 r in (st2, o1 ++ o2)
  end.

(* one external stimulus followed by draining the event queue *)
Definition step (c : cfg) (st : vstate) (e : event) : vstate * list qcert :=
  match e with
  | EVote v => collect_vote c st v false
  | EPropose b =>
      let st1 := mkSt (store_block (st_store st) b) (st_high st) [] (st_verified st) in
      feed c st1 (st_deferred st)
  | EHigh b =>
      (mkSt (store_block (st_store st) b)
            (if N.ltb (st_high st) (b_view b) then b_view b else st_high st)
            (st_deferred st) (st_verified st), [])
  | ETC _ => (st, [])
  end.

(* outputs per step, and the final state *)
Fixpoint run (c : cfg) (st : vstate) (es : list event) : vstate * list (list qcert) :=
  match es with
  | [] => (st, [])
  | e :: r => let '(st1, o) := step c st e in
              let '(st2, os) := run c st1 r in (st2, o :: os)
  end.

Definition init (store : list binfo) (high : view) : vstate := mkSt store high [] [].

(* ---- what verifies (VerifyQuorumCert with a fresh Authority over the same blocks) ---- *)
Fixpoint nodupbN (l : list N) : bool :=
  match l with [] => true | x :: r => negb (memN x r) && nodupbN r end.
Definition qc_verifies (c : cfg) (known : list binfo) (q : qcert) : bool :=
  Nat.leb (qsize c) (length (q_sigs q)) &&
  nodupbN (map s_lab (q_sigs q)) &&
  match local_get known (q_hash q) with
  | Some b => N.eqb (b_view b) (q_view q) && verify_sigs (c_members c) (q_hash q) (q_sigs q)
  | None => false
  end.

(* ---- block availability over time ----
   What sender.RequestBlock can fetch changes while the collector runs (a block is shown to the other replicas
   later; peers that had it are gone).  [run_av] gives every stimulus the set of blocks that can be fetched at
   that moment; everything else is [step]. *)
Definition with_remote (c : cfg) (r : list binfo) : cfg := mkCfg (c_members c) r (c_patched c).
Fixpoint run_av (c : cfg) (st : vstate) (es : list (list binfo * event)) : vstate * list (list qcert) :=
  match es with
  | [] => (st, [])
  | (r, e) :: rest => let '(st1, o) := step (with_remote c r) st e in
                      let '(st2, os) := run_av c st1 rest in (st2, o :: os)
  end.

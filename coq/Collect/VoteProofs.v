(* Proofs about the vote collector model (VoteModel.v): every emitted certificate verifies; a
   certificate for a block newer than the high QC exists exactly from the first stimulus at which
   the block is known and valid single-signer votes from a quorum of distinct members have arrived;
   additional votes of any kind never remove or delay it. *)
From Coq Require Import Permutation.
From HS Require Import Base.Prelude Quorum.QuorumModel Collect.VoteModel.
Close Scope Z_scope.


(* ---------- small facts ---------- *)
Lemma memN_In : forall i l, memN i l = true <-> In i l.
Proof.
  intros i l. unfold memN. rewrite existsb_exists. split.
  - intros [x [Hx He]]. apply N.eqb_eq in He. now subst.
  - intros H. exists i. split; [assumption|apply N.eqb_refl].
Qed.

Lemma nodupbN_NoDup : forall l, nodupbN l = true <-> NoDup l.
Proof.
  induction l as [|x l IH]; cbn.
  - split; [constructor|reflexivity].
  - rewrite andb_true_iff, negb_true_iff, IH. split.
    + intros [Hm Hn]. constructor; [|assumption]. intros Hi. apply memN_In in Hi. congruence.
    + intros Hn. inversion Hn; subst. split; [|assumption].
      destruct (memN x l) eqn:E; [|reflexivity]. apply memN_In in E. contradiction.
Qed.

Lemma local_get_hash : forall s h x, local_get s h = Some x -> b_hash x = h /\ In x s.
Proof.
  intros s h x H. unfold local_get in H. apply find_some in H. destruct H as [Hi He].
  apply N.eqb_eq in He. now split.
Qed.

Lemma local_get_app : forall s e h x, local_get s h = Some x -> local_get (s ++ e) h = Some x.
Proof.
  induction s as [|y s IH]; cbn; intros e h x H; [discriminate|].
  destruct (N.eqb (b_hash y) h); [assumption|]. now apply IH.
Qed.

Lemma local_get_app_none : forall s e h, local_get s h = None -> local_get (s ++ e) h = local_get e h.
Proof.
  induction s as [|y s IH]; cbn; intros e h H; [reflexivity|].
  destruct (N.eqb (b_hash y) h); [discriminate|]. now apply IH.
Qed.

Lemma combine_some_concat : forall sigs sg, combine sigs = Some sg -> sg = concat sigs.
Proof.
  assert (A : forall l acc r, sig_append acc l = Some r -> r = acc ++ l).
  { induction l as [|s l IH]; cbn; intros acc r Hr.
    - inversion Hr. now rewrite app_nil_r.
    - destruct (memN _ _); [discriminate|]. apply IH in Hr. now rewrite Hr, <- app_assoc. }
  assert (B : forall sigs acc r, combine_from acc sigs = Some r -> r = acc ++ concat sigs).
  { induction sigs as [|l sigs IH]; cbn; intros acc r Hr.
    - inversion Hr. now rewrite app_nil_r.
    - destruct (sig_append acc l) eqn:E; [|discriminate]. apply A in E. apply IH in Hr.
      now rewrite Hr, E, <- app_assoc. }
  intros sigs sg. unfold combine. destruct (Nat.ltb _ _); [discriminate|]. intros Hc. now apply B in Hc.
Qed.

(* combining single signatures with pairwise different labels never fails *)
Lemma combine_from_singles : forall ss acc,
  NoDup (map s_lab (acc ++ ss)) -> combine_from acc (map (fun s => [s]) ss) = Some (acc ++ ss).
Proof.
  induction ss as [|s ss IH]; cbn; intros acc Hn.
  - now rewrite app_nil_r.
  - destruct (memN (s_lab s) (map s_lab acc)) eqn:E.
    + exfalso. apply memN_In in E. rewrite map_app in Hn. cbn in Hn.
      apply NoDup_remove_2 in Hn. apply Hn. apply in_or_app. now left.
    + cbn. rewrite IH; rewrite <- app_assoc; cbn; [reflexivity|assumption].
Qed.

Lemma NoDup_app_single : forall (l : list N) x, NoDup l -> ~ In x l -> NoDup (l ++ [x]).
Proof.
  induction l as [|y l IH]; cbn; intros x Hn Hx.
  - constructor; [intros []|constructor].
  - inversion Hn; subst. constructor.
    + intros Hi. apply in_app_or in Hi. destruct Hi as [Hi|[Hi|[]]]; [contradiction|]. subst. apply Hx. now left.
    + apply IH; [assumption|]. intros Hi. apply Hx. now right.
Qed.

(* ---------- lookup / set / del / filter on the verifiedVotes map ---------- *)
Lemma lookup_del_same : forall m h, lookup (del m h) h = [].
Proof.
  induction m as [|[k l] m IH]; cbn; intros h; [reflexivity|].
  destruct (N.eqb_spec k h); cbn; [apply IH|].
  destruct (N.eqb_spec k h); [contradiction|apply IH].
Qed.
Lemma lookup_del_other : forall m h h', h <> h' -> lookup (del m h) h' = lookup m h'.
Proof.
  induction m as [|[k l] m IH]; cbn; intros h h' Hd; [reflexivity|].
  destruct (N.eqb_spec k h); cbn.
  - subst. destruct (N.eqb_spec h h'); [contradiction|]. now apply IH.
  - destruct (N.eqb_spec k h'); [reflexivity|now apply IH].
Qed.
Lemma lookup_set_same : forall m h l, lookup (set m h l) h = l.
Proof. intros. unfold set. cbn. now rewrite N.eqb_refl. Qed.
Lemma lookup_set_other : forall m h l h', h <> h' -> lookup (set m h l) h' = lookup m h'.
Proof.
  intros. unfold set. cbn. destruct (N.eqb_spec h h'); [contradiction|]. now apply lookup_del_other.
Qed.
Lemma lookup_filter_key : forall (g : hash -> bool) m h,
  lookup (filter (fun p => g (fst p)) m) h = if g h then lookup m h else [].
Proof.
  induction m as [|[k l] m IH]; cbn; intros h; [now destruct (g h)|].
  destruct (g k) eqn:Ek; cbn.
  - destruct (N.eqb_spec k h); [subst; now rewrite Ek|apply IH].
  - destruct (N.eqb_spec k h); [subst; rewrite IH; now rewrite Ek|apply IH].
Qed.

Definition keepb (s : list binfo) (high : view) (h : hash) : bool :=
  match local_get s h with Some b => negb (N.leb (b_view b) high) | None => false end.
Lemma cleanup_verified : forall st,
  st_verified (cleanup st) = filter (fun p => keepb (st_store st) (st_high st) (fst p)) (st_verified st).
Proof. reflexivity. Qed.
Lemma lookup_cleanup : forall st h,
  lookup (st_verified (cleanup st)) h =
  if keepb (st_store st) (st_high st) h then lookup (st_verified st) h else [].
Proof. intros. rewrite cleanup_verified. apply lookup_filter_key. Qed.

Arguments del : simpl never.
Arguments set : simpl never.
Arguments cleanup : simpl never.

Section Collector.
  Variable c : cfg.
  Hypothesis Hpatched : c_patched c = true.

  (* ---------- what a bucket may contain ---------- *)
  Definition single_valid (h : hash) (v : vote) : Prop :=
    v_hash v = h /\ exists s, v_sigs v = [s] /\ verify_single (c_members c) h s = true.
  Definition bucket_ok (h : hash) (l : list vote) : Prop :=
    Forall (single_valid h) l /\ NoDup (map v_signer l).
  Definition buckets_ok (m : list (hash * list vote)) : Prop :=
    Forall (fun p => bucket_ok (fst p) (snd p)) m.

  Lemma bucket_ok_nil : forall h, bucket_ok h [].
  Proof. intros. split; constructor. Qed.

  Lemma lookup_ok : forall m h, buckets_ok m -> bucket_ok h (lookup m h).
  Proof.
    induction m as [|[k l] m IH]; cbn; intros h Hm; [apply bucket_ok_nil|].
    inversion Hm; subst. destruct (N.eqb_spec k h); [subst; assumption|now apply IH].
  Qed.
  Lemma buckets_ok_filter : forall f m, buckets_ok m -> buckets_ok (filter f m).
  Proof.
    intros f m Hm. unfold buckets_ok in *. rewrite Forall_forall in *. intros p Hp.
    apply filter_In in Hp. apply Hm, Hp.
  Qed.
  Lemma buckets_ok_set : forall m h l, buckets_ok m -> bucket_ok h l -> buckets_ok (set m h l).
  Proof. intros. constructor; [assumption|now apply buckets_ok_filter]. Qed.

  Lemma singles_shape : forall h l, Forall (single_valid h) l ->
    exists ss, map v_sigs l = map (fun s => [s]) ss /\ map v_signer l = map s_lab ss /\
               Forall (fun s => verify_single (c_members c) h s = true) ss.
  Proof.
    induction l as [|v l IH]; intros Hf.
    - exists []. repeat split; constructor.
    - inversion Hf as [|? ? Hv Hl]; subst. destruct (IH Hl) as [ss [E1 [E2 E3]]].
      destruct Hv as [_ [s [Es Hs]]]. exists (s :: ss). cbn. unfold v_signer at 1. rewrite Es, E1, E2.
      repeat split. now constructor.
  Qed.
  Lemma concat_singles : forall (ss : list ssig), concat (map (fun s => [s]) ss) = ss.
  Proof. induction ss; cbn; congruence. Qed.

  Lemma combine_bucket : forall h l, bucket_ok h l -> 2 <= length l ->
    exists ss, combine (map v_sigs l) = Some ss /\ map s_lab ss = map v_signer l /\ length ss = length l /\
               Forall (fun s => verify_single (c_members c) h s = true) ss.
  Proof.
    intros h l [Hf Hn] Hlen. destruct (singles_shape h l Hf) as [ss [E1 [E2 E3]]].
    exists ss. unfold combine. rewrite E1, map_length.
    assert (Hl : length ss = length l).
    { rewrite <- (map_length s_lab ss), <- E2. apply map_length. }
    rewrite Hl. destruct (Nat.ltb_spec (length l) 2); [lia|].
    rewrite combine_from_singles; cbn; [|now rewrite <- E2]. repeat split; auto.
  Qed.

  (* a certificate assembled from a good bucket *)
  Definition qc_good (q : qcert) : Prop :=
    NoDup (map s_lab (q_sigs q)) /\ qsize c <= length (q_sigs q) /\ 2 <= length (q_sigs q) /\
    Forall (fun s => verify_single (c_members c) (q_hash q) s = true) (q_sigs q).

  Lemma verify_sigs_single : forall h s, verify_sigs (c_members c) h [s] = verify_single (c_members c) h s.
  Proof. intros. cbn. now rewrite andb_true_r. Qed.

  (* shape of a vote that gets past the two checks *)
  Lemma passes_single : forall v,
    verify_sigs (c_members c) (v_hash v) (v_sigs v) = true -> length (v_sigs v) = 1 ->
    single_valid (v_hash v) v.
  Proof.
    intros v Hv Hl. split; [reflexivity|]. destruct (v_sigs v) as [|s [|? ?]] eqn:E; try discriminate.
    exists s. split; [reflexivity|]. now rewrite verify_sigs_single in Hv.
  Qed.

  Lemma existsb_signer : forall i l,
    existsb (fun w => N.eqb (v_signer w) i) l = true <-> In i (map v_signer l).
  Proof.
    intros i l. rewrite existsb_exists, in_map_iff. split.
    - intros [w [Hw He]]. apply N.eqb_eq in He. now exists w.
    - intros [w [He Hw]]. exists w. split; [assumption|now apply N.eqb_eq].
  Qed.

  (* ---------- verifyCert ---------- *)
  Lemma vc_frame : forall st v b st' o, verify_cert c st v b = (st', o) ->
    st_store st' = st_store st /\ st_high st' = st_high st /\ st_deferred st' = st_deferred st.
  Proof.
    intros st v b st' o H. unfold verify_cert in H.
    repeat match type of H with
    | (if ?x then _ else _) = _ => destruct x
    | (match ?x with Some _ => _ | None => _ end) = _ => destruct x
    end; inversion H; subst; cbn; auto.
  Qed.

  Lemma vc_ok : forall st v b st' o, verify_cert c st v b = (st', o) ->
    buckets_ok (st_verified st) -> b_hash b = v_hash v ->
    buckets_ok (st_verified st') /\
    Forall (fun q => qc_good q /\ q_hash q = b_hash b /\ q_view q = b_view b) o.
  Proof.
    intros st v b st' o H Hm Hb. unfold verify_cert in H. rewrite Hpatched in H. cbn [andb] in H.
    destruct (verify_sigs _ _ _) eqn:Ev; cbn [negb] in H; [|inversion H; subst; auto].
    destruct (Nat.eqb_spec (length (v_sigs v)) 1) as [El|El]; cbn [negb] in H; [|inversion H; subst; auto].
    pose proof (passes_single v Ev El) as Hsv.
    pose proof (lookup_ok _ (v_hash v) Hm) as [Hbf Hbn].
    destruct (existsb _ _) eqn:Ed.
    { inversion H; subst. split; [|constructor]. rewrite cleanup_verified. now apply buckets_ok_filter. }
    assert (Hnew : bucket_ok (v_hash v) (lookup (st_verified st) (v_hash v) ++ [v])).
    { split.
      - apply Forall_app. split; [assumption|]. constructor; [assumption|constructor].
      - rewrite map_app. cbn. apply NoDup_app_single; [assumption|].
        intros Hi. apply existsb_signer in Hi. congruence. }
    destruct (Nat.ltb_spec (length (lookup (st_verified st) (v_hash v) ++ [v])) (qsize c)) as [Hlt|Hge].
    { inversion H; subst. split; [|constructor]. rewrite cleanup_verified. apply buckets_ok_filter.
      cbn. now apply buckets_ok_set. }
    destruct (combine _) as [sg|] eqn:Ec.
    - inversion H; subst. split.
      + rewrite cleanup_verified. apply buckets_ok_filter. cbn. apply buckets_ok_filter.
        now apply buckets_ok_set.
      + constructor; [|constructor]. cbn. split; [|auto].
        assert (H2 : 2 <= length (lookup (st_verified st) (v_hash v) ++ [v])).
        { unfold combine in Ec. destruct (Nat.ltb_spec (length (map v_sigs (lookup (st_verified st) (v_hash v) ++ [v]))) 2);
            [discriminate|]. now rewrite map_length in *. }
        destruct (combine_bucket _ _ Hnew H2) as [ss [Ec' [E1 [E2 E3]]]].
        rewrite Ec in Ec'. inversion Ec'; subst ss. destruct Hnew as [_ Hnn].
        unfold qc_good. cbn. rewrite Hb, E1, E2. repeat split; auto.
    - inversion H; subst. split; [|constructor]. rewrite cleanup_verified. apply buckets_ok_filter.
      cbn. now apply buckets_ok_set.
  Qed.

    Ltac sp3 := split; [|split].
(* ---------- every emitted certificate verifies ---------- *)
  Definition extends (s s' : list binfo) : Prop := exists e, s' = s ++ e.
  Lemma extends_refl : forall s, extends s s.
  Proof. intros. exists []. now rewrite app_nil_r. Qed.
  Lemma extends_trans : forall a b d, extends a b -> extends b d -> extends a d.
  Proof. intros a b d [e1 H1] [e2 H2]. exists (e1 ++ e2). subst. now rewrite app_assoc. Qed.
  Lemma store_block_extends : forall s b, extends s (store_block s b).
  Proof. intros. unfold store_block. destruct (local_get s (b_hash b)); [apply extends_refl|now exists [b]]. Qed.

  Definition qc_at (s : list binfo) (q : qcert) : Prop :=
    qc_good q /\ exists x, local_get s (q_hash q) = Some x /\ b_view x = q_view q.
  Lemma qc_at_extends : forall s s' q, extends s s' -> qc_at s q -> qc_at s' q.
  Proof.
    intros s s' q [e He] [Hg [x [Hx Hv]]]. subst. split; [assumption|]. exists x. split; [|assumption].
    now apply local_get_app.
  Qed.

  Lemma get_spec : forall s h r s', get c s h = (r, s') ->
    extends s s' /\ match r with Some x => local_get s' h = Some x | None => True end.
  Proof.
    intros s h r s' H. unfold get in H. destruct (local_get s h) eqn:E1.
    - inversion H; subst. split; [apply extends_refl|assumption].
    - destruct (local_get (c_remote c) h) eqn:E2; inversion H; subst.
      + split; [now exists [b]|]. rewrite local_get_app_none by assumption.
        apply local_get_hash in E2. destruct E2 as [Eh _]. unfold local_get. cbn. now rewrite Eh, N.eqb_refl.
      + split; [apply extends_refl|exact I].
  Qed.

  Definition step_post (st st' : vstate) (o : list qcert) : Prop :=
    buckets_ok (st_verified st') /\ extends (st_store st) (st_store st') /\
    Forall (qc_at (st_store st')) o.

  Lemma cv_ok : forall st v d st' o, collect_vote c st v d = (st', o) ->
    buckets_ok (st_verified st) -> step_post st st' o.
  Proof.
    intros st v d st' o H Hm. unfold collect_vote in H. destruct d; cbn [negb] in H.
    - destruct (get c (st_store st) (v_hash v)) as [r s'] eqn:Eg.
      destruct (get_spec _ _ _ _ Eg) as [Hext Hr]. destruct r as [x|].
      + destruct (N.leb (b_view x) (st_high st)).
        * inversion H; subst. sp3; cbn; auto.
        * pose proof (vc_frame _ _ _ _ _ H) as [Es [_ _]]. cbn in Es.
          apply local_get_hash in Hr as Hh. destruct Hh as [Hh _].
          destruct (vc_ok _ _ _ _ _ H Hm Hh) as [Hb Hq]. sp3; [assumption|now rewrite Es|].
          rewrite Forall_forall in *. intros q Hi. destruct (Hq q Hi) as [Hg [E1 E2]].
          split; [assumption|]. exists x. rewrite Es, E1, Hh. split; [assumption|now symmetry].
      + inversion H; subst. sp3; auto. apply extends_refl.
    - destruct (local_get (st_store st) (v_hash v)) as [x|] eqn:El.
      + destruct (N.leb (b_view x) (st_high st)).
        * inversion H; subst. sp3; auto. apply extends_refl.
        * pose proof (vc_frame _ _ _ _ _ H) as [Es [_ _]].
          apply local_get_hash in El as Hh. destruct Hh as [Hh _].
          destruct (vc_ok _ _ _ _ _ H Hm Hh) as [Hb Hq]. sp3; [assumption|rewrite Es; apply extends_refl|].
          rewrite Forall_forall in *. intros q Hi. destruct (Hq q Hi) as [Hg [E1 E2]].
          split; [assumption|]. exists x. rewrite Es, E1, Hh. split; [assumption|now symmetry].
      + inversion H; subst. sp3; cbn; auto. apply extends_refl.
  Qed.

  Lemma feed_ok : forall vs st st' o, feed c st vs = (st', o) ->
    buckets_ok (st_verified st) -> step_post st st' o.
  Proof.
    induction vs as [|v vs IH]; cbn [feed]; intros st st' o H Hm.
    - inversion H; subst. sp3; auto. apply extends_refl.
    - destruct (collect_vote c st v true) as [st1 o1] eqn:E1.
      destruct (feed c st1 vs) as [st2 o2] eqn:E2. inversion H; subst.
      destruct (cv_ok _ _ _ _ _ E1 Hm) as [Hb1 [Hx1 Hq1]].
      destruct (IH _ _ _ E2 Hb1) as [Hb2 [Hx2 Hq2]].
      sp3; [assumption|eapply extends_trans; eassumption|].
      apply Forall_app. split; [|assumption].
      eapply Forall_impl; [|exact Hq1]. intros q. now apply qc_at_extends.
  Qed.

  Lemma step_ok : forall st e st' o, step c st e = (st', o) ->
    buckets_ok (st_verified st) -> step_post st st' o.
  Proof.
    intros st e st' o H Hm. destruct e as [v|b|b|tv]; cbn [step] in H;
      [| | |inversion H; subst; sp3; [assumption|apply extends_refl|constructor]].
    - now apply cv_ok in H.
    - apply feed_ok in H; [|assumption]. destruct H as [Hb [Hx Hq]]. cbn in Hx.
      sp3; [assumption| |assumption].
      eapply extends_trans; [apply store_block_extends|eassumption].
    - inversion H; subst. sp3; cbn; auto. apply store_block_extends.
  Qed.

  Lemma run_ok : forall es st st' outs, run c st es = (st', outs) ->
    buckets_ok (st_verified st) ->
    buckets_ok (st_verified st') /\ extends (st_store st) (st_store st') /\
    Forall (Forall (qc_at (st_store st'))) outs.
  Proof.
    induction es as [|e es IH]; cbn [run]; intros st st' outs H Hm.
    - inversion H; subst. sp3; auto. apply extends_refl.
    - destruct (step c st e) as [st1 o] eqn:E1. destruct (run c st1 es) as [st2 os] eqn:E2.
      inversion H; subst. destruct (step_ok _ _ _ _ E1 Hm) as [Hb1 [Hx1 Hq1]].
      destruct (IH _ _ _ E2 Hb1) as [Hb2 [Hx2 Hq2]].
      sp3; [assumption|eapply extends_trans; eassumption|].
      constructor; [|assumption]. eapply Forall_impl; [|exact Hq1]. intros q. now apply qc_at_extends.
  Qed.

  Lemma qc_at_verifies : forall s q, qc_at s q -> qc_verifies c s q = true.
  Proof.
    intros s q [[Hn [Hq [H2 Hv]]] [x [Hx Hw]]]. unfold qc_verifies. rewrite Hx.
    apply andb_true_iff. split; [apply andb_true_iff; split|].
    - now apply Nat.leb_le.
    - now apply nodupbN_NoDup.
    - apply andb_true_iff. split; [now apply N.eqb_eq|].
      unfold verify_sigs. destruct (q_sigs q) eqn:E; [cbn in H2; lia|].
      apply forallb_forall. rewrite Forall_forall in Hv. exact Hv.
  Qed.

  Theorem emitted_verifies : forall store high es st' outs,
    run c (init store high) es = (st', outs) ->
    forall o q, In o outs -> In q o -> qc_verifies c (st_store st') q = true.
  Proof.
    intros store high es st' outs H o q Ho Hq.
    destruct (run_ok _ _ _ _ H) as [_ [_ Hall]]; [constructor|].
    rewrite Forall_forall in Hall. specialize (Hall o Ho). rewrite Forall_forall in Hall.
    apply qc_at_verifies. now apply Hall.
  Qed.

  (* what "verifies" means for a certificate, spelled out *)
  Lemma qc_verifies_spec : forall s q, qc_verifies c s q = true ->
    qsize c <= length (q_sigs q) /\ NoDup (map s_lab (q_sigs q)) /\
    (forall sg, In sg (q_sigs q) -> In (s_lab sg) (c_members c) /\ s_real sg = Some (s_lab sg, q_hash q)) /\
    exists x, In x s /\ b_hash x = q_hash q /\ b_view x = q_view q.
  Proof.
    intros s q H. unfold qc_verifies in H. apply andb_true_iff in H. destruct H as [H H3].
    apply andb_true_iff in H. destruct H as [H1 H2].
    destruct (local_get s (q_hash q)) as [x|] eqn:Ex; [|discriminate].
    apply andb_true_iff in H3. destruct H3 as [H3 H4].
    repeat split.
    - now apply Nat.leb_le.
    - now apply nodupbN_NoDup.
    - unfold verify_sigs in H4. destruct (q_sigs q) eqn:E; [contradiction|]. rewrite <- E in *.
      rewrite forallb_forall in H4. apply H4 in H. unfold verify_single in H.
      apply andb_true_iff in H. destruct H as [Hm _]. now apply memN_In.
    - unfold verify_sigs in H4. destruct (q_sigs q) eqn:E; [contradiction|]. rewrite <- E in *.
      rewrite forallb_forall in H4. apply H4 in H. unfold verify_single in H.
      apply andb_true_iff in H. destruct H as [_ Hr]. destruct (s_real sg) as [[i h]|]; [|discriminate].
      apply andb_true_iff in Hr. destruct Hr as [Hi Hh]. apply N.eqb_eq in Hi, Hh. now subst.
    - apply local_get_hash in Ex. destruct Ex as [Eh Ei]. exists x. repeat split; auto. now apply N.eqb_eq.
  Qed.
End Collector.

(* ---------- the high TC is not an input of the collector ----------
   ViewStates also carries the highest timeout certificate; CollectVote / verifyCert read only the high QC.
   In the model a high-TC move is a stimulus that changes nothing: deleting all of them from any sequence
   leaves the final state and every other stimulus' certificates as they were. *)
Definition is_tc (e : event) : bool := match e with ETC _ => true | _ => false end.
Definition no_tc (es : list event) : list event := filter (fun e => negb (is_tc e)) es.
Fixpoint drop_tc_outs (es : list event) (outs : list (list qcert)) : list (list qcert) :=
  match es, outs with
  | e :: r, o :: os => if is_tc e then drop_tc_outs r os else o :: drop_tc_outs r os
  | _, _ => []
  end.

Theorem high_tc_irrelevant : forall c es st,
  run c st (no_tc es) = (fst (run c st es), drop_tc_outs es (snd (run c st es))) /\
  Forall2 (fun e o => is_tc e = true -> o = []) es (snd (run c st es)).
Proof.
  induction es as [|e es IH]; intros st.
  - split; [reflexivity|constructor].
  - destruct (is_tc e) eqn:Et.
    + destruct e; try discriminate. unfold no_tc. cbn [filter is_tc negb]. fold (no_tc es).
      cbn [run step]. destruct (IH st) as [IH1 IH2]. rewrite IH1.
      destruct (run c st es) as [st2 os]. cbn [fst snd drop_tc_outs is_tc].
      split; [reflexivity|constructor; auto].
    + unfold no_tc. cbn [filter]. rewrite Et. cbn [negb]. fold (no_tc es). cbn [run].
      destruct (step c st e) as [st1 o]. destruct (IH st1) as [IH1 IH2]. rewrite IH1.
      destruct (run c st1 es) as [st2 os]. cbn [fst snd drop_tc_outs]. rewrite Et.
      split; [reflexivity|constructor; [congruence|assumption]].
Qed.

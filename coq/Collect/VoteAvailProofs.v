(* C09, all-to-one collector, block availability over time (VoteModel.run_av): what the other replicas can
   deliver on a fetch changes from stimulus to stimulus.  A vote for b counts once it has been processed while
   b was obtainable: at once when b is held; otherwise it waits for the next proposal and counts if that
   proposal is b's own or b can be fetched at that moment — if it cannot, the waiting votes are dropped.
   [settle] states this as a function of the stimuli alone; the theorem says a certificate for b exists
   exactly when, by that account, b has become known and a quorum of distinct valid votes has been counted. *)
From HS Require Import Base.Prelude Quorum.QuorumModel Collect.VoteModel Collect.VoteProofs Collect.VoteQuorumProofs.
Close Scope Z_scope.
Arguments del : simpl never.
Arguments set : simpl never.
Arguments cleanup : simpl never.
Arguments local_get : simpl never.

Section Avail.
  Variable c : cfg.
  Hypothesis Hpatched : c_patched c = true.
  Variable b : binfo.
  Hypothesis Hqsize : 2 <= qsize c.

  Definition fetchable (r : list binfo) : bool :=
    match local_get r (b_hash b) with Some _ => true | None => false end.

  (* kn: b is known; w: a vote naming b waits; P: the voters counted so far (kn) / waiting (not kn) *)
  Fixpoint settle (kn w : bool) (P : list rid) (es : list (list binfo * event)) : bool * list rid :=
    match es with
    | [] => (kn, P)
    | (r, e) :: t =>
        match e with
        | EVote v => settle kn (w || names_b b v) (P ++ valid_for c b v) t
        | EPropose x =>
            if kn then settle true false P t
            else if N.eqb (b_hash x) (b_hash b) || (w && fetchable r) then settle true false P t
            else settle false false [] t          (* what waited is dropped *)
        | _ => settle kn w P t
        end
    end.

  Definition av_ok (re : list binfo * event) : Prop := Forall (cons b) (fst re) /\ ev_ok b (snd re).

  (* the invariants mention the configuration only through its members: they carry over to [with_remote c r] *)
  Lemma K_to : forall r st S, K c b st S -> K (with_remote c r) b st S.
  Proof. intros r st S [H1 H2 H3 H4 H5 H6 H7]. constructor; assumption. Qed.
  Lemma K_from : forall r st S, K (with_remote c r) b st S -> K c b st S.
  Proof. intros r st S [H1 H2 H3 H4 H5 H6 H7]. constructor; assumption. Qed.
  Lemma U_to : forall r st P, U c b st P -> U (with_remote c r) b st P.
  Proof. intros r st P [H1 H2 H3 H4 H5 H6]. constructor; assumption. Qed.
  Lemma U_from : forall r st P, U (with_remote c r) b st P -> U c b st P.
  Proof. intros r st P [H1 H2 H3 H4 H5 H6]. constructor; assumption. Qed.
  Lemma U0_to : forall r st, U0 c b st -> U0 (with_remote c r) b st.
  Proof. intros r st [H1 H2 H3 H4 H5 H6]. constructor; assumption. Qed.
  Lemma U0_from : forall r st, U0 (with_remote c r) b st -> U0 c b st.
  Proof. intros r st [H1 H2 H3 H4 H5 H6]. constructor; assumption. Qed.
  Lemma UW_to : forall r st P w, UW c b st P w -> UW (with_remote c r) b st P w.
  Proof. intros r st P w [H1 H2]. split; [now apply U_to|assumption]. Qed.
  Lemma UW_from : forall r st P w, UW (with_remote c r) b st P w -> UW c b st P w.
  Proof. intros r st P w [H1 H2]. split; [now apply U_from in H1|assumption]. Qed.

  Lemma step_K' : forall r st S e st' o, K c b st S -> Forall (cons b) r -> ev_ok b e ->
    step (with_remote c r) st e = (st', o) ->
    (has_qc b o /\ Qr c (S ++ ev_voters c b e)) \/ (~ has_qc b o /\ K c b st' (S ++ ev_voters c b e)).
  Proof.
    intros r st S e st' o HK Hr He H.
    destruct (step_K (with_remote c r) Hpatched b Hqsize Hr _ _ _ _ _ (K_to r _ _ HK) He H) as [[Hq HQ]|[Hn HK1]].
    - left. split; [assumption|exact HQ].
    - right. split; [assumption|]. exact (K_from r _ _ HK1).
  Qed.

  Lemma step_UW' : forall r st P w e st' o, UW c b st P w -> Forall (cons b) r ->
    local_get r (b_hash b) = Some b -> ev_ok b e -> step (with_remote c r) st e = (st', o) ->
    let kn' := match e with EPropose x => N.eqb (b_hash x) (b_hash b) || w | _ => false end in
    let w' := match e with EVote v => w || names_b b v | EPropose _ => false | _ => w end in
    (has_qc b o /\ Qr c (P ++ ev_voters c b e) /\ kn' = true) \/
    (~ has_qc b o /\ ((K c b st' (P ++ ev_voters c b e) /\ kn' = true) \/ (UW c b st' (P ++ ev_voters c b e) w' /\ kn' = false))).
  Proof.
    intros r st P w e st' o HU Hr Hf He H. cbn zeta.
    destruct (step_UW (with_remote c r) Hpatched b Hqsize Hr Hf _ _ _ _ _ _ (UW_to r _ _ _ HU) He H)
      as [[Hq [HQ Hk]]|[Hn [[HK Hk]|[HU1 Hk]]]].
    - left. split; [assumption|]. split; [exact HQ|assumption].
    - right. split; [assumption|]. left. split; [exact (K_from r _ _ HK)|assumption].
    - right. split; [assumption|]. right. split; [exact (UW_from r _ _ _ HU1)|assumption].
  Qed.

  Lemma step_U' : forall r st P e st' o, U c b st P -> Forall (cons b) r -> ev_ok b e ->
    match e with EPropose x => x = b | _ => True end -> step (with_remote c r) st e = (st', o) ->
    (has_qc b o /\ Qr c (P ++ ev_voters c b e) /\ is_prop_b b e) \/
    (~ has_qc b o /\ ((K c b st' (P ++ ev_voters c b e) /\ is_prop_b b e) \/ (U c b st' (P ++ ev_voters c b e) /\ ~ is_prop_b b e))).
  Proof.
    intros r st P e st' o HU Hr He Hp H.
    destruct (step_U (with_remote c r) Hpatched b Hqsize Hr _ _ _ _ _ (U_to r _ _ HU) He Hp H)
      as [[Hq [HQ Hk]]|[Hn [[HK Hk]|[HU1 Hk]]]].
    - left. split; [assumption|]. split; [exact HQ|assumption].
    - right. split; [assumption|]. left. split; [exact (K_from r _ _ HK)|assumption].
    - right. split; [assumption|]. right. split; [exact (U_from r _ _ HU1)|assumption].
  Qed.

  Lemma settle_known : forall es w S, settle true w S es = (true, S ++ voters c b (map snd es)).
  Proof.
    induction es as [|[r e] es IH]; intros w S; cbn [settle map snd].
    - now rewrite app_nil_r.
    - rewrite voters_cons. destruct e; cbn [ev_voters]; rewrite IH; rewrite ?app_nil_l, ?app_assoc; reflexivity.
  Qed.

  Lemma run_av_K : forall es st S st' outs, K c b st S -> Forall av_ok es ->
    run_av c st es = (st', outs) -> (emitted b outs <-> Qr c (S ++ voters c b (map snd es))).
  Proof.
    induction es as [|[r e] es IH]; cbn [run_av map snd]; intros st S st' outs HK Hok H.
    - inversion H; subst. cbn. rewrite app_nil_r. split.
      + intros [o [[] _]].
      + intros HQ. exfalso. eapply K_not_Qr; eauto.
    - destruct (step (with_remote c r) st e) as [st1 o] eqn:E1. destruct (run_av c st1 es) as [st2 os] eqn:E2.
      inversion H; subst. inversion Hok as [|? ? [Hr He] Hok']; subst. rewrite emitted_cons, voters_cons, app_assoc.
      destruct (step_K' _ _ _ _ _ _ HK Hr He E1) as [[Hq HQ]|[Hn HK1]].
      + split; [intros _|now left]. eapply Qr_incl; [|exact HQ]. apply incl_appl, incl_refl.
      + rewrite <- (IH _ _ _ _ HK1 Hok' E2). tauto.
  Qed.

  Lemma U_equiv : forall st P P', (forall i, In i P <-> In i P') -> U c b st P -> U c b st P'.
  Proof. intros st P P' He [H1 H2 H3 H4 H5 H6]. constructor; auto. intros i. now rewrite H6. Qed.

  (* the delayed votes are re-delivered while b cannot be fetched: those naming b are dropped *)
  Lemma feed_nofetch : forall r, Forall (cons b) r -> local_get r (b_hash b) = None ->
    forall vs st st' o, U0 c b st -> feed (with_remote c r) st vs = (st', o) -> ~ has_qc b o /\ U0 c b st'.
  Proof.
    intros r Hr Hnf. induction vs as [|v vs IH]; cbn [feed]; intros st st' o HU H.
    - inversion H; subst. split; [apply has_qc_nil|assumption].
    - destruct (collect_vote (with_remote c r) st v true) as [st1 o1] eqn:E1.
      destruct (feed (with_remote c r) st1 vs) as [st2 o2] eqn:E2. inversion H; subst.
      assert (H1 : ~ has_qc b o1 /\ U0 c b st1).
      { destruct (N.eq_dec (v_hash v) (b_hash b)) as [Eh|Eh].
        - unfold collect_vote in E1. cbn [negb] in E1. unfold get in E1. cbn [c_remote with_remote] in E1.
          rewrite Eh, (z_unknown _ _ _ HU), Hnf in E1. inversion E1; subst. split; [apply has_qc_nil|assumption].
        - destruct (collect_U0_foreign (with_remote c r) Hpatched b Hqsize Hr _ _ _ _ (U0_to r _ HU) Eh E1) as [Hn HU'].
          split; [assumption|exact (U0_from r _ HU')]. }
      destruct H1 as [Hn1 HU1]. destruct (IH _ _ _ HU1 E2) as [Hn2 HU2]. split; [|assumption].
      intros Hq. apply has_qc_app in Hq. tauto.
  Qed.

  Lemma U0_of_propose : forall st P x, U c b st P -> cons b x -> b_hash x <> b_hash b ->
    U0 c b (mkSt (store_block (st_store st) x) (st_high st) [] (st_verified st)).
  Proof.
    intros st P x HU Hx Hd. destruct (store_block_cons b (st_store st) x Hx) as [e [Es Hce]]. rewrite Es.
    assert (Hun : local_get (st_store st ++ e) (b_hash b) = None).
    { rewrite local_get_app_none by apply HU. unfold store_block in Es.
      destruct (local_get (st_store st) (b_hash x)).
      - apply (f_equal (@length binfo)) in Es. rewrite app_length in Es. destruct e; [reflexivity|cbn in Es; lia].
      - apply app_inv_head in Es. subst e. unfold local_get. cbn.
        destruct (N.eqb_spec (b_hash x) (b_hash b)); [contradiction|reflexivity]. }
    destruct HU as [H1 H2 H3 H4 H5 H6]. constructor; cbn; auto. apply Forall_app. now split.
  Qed.

  Lemma UW_of_U0 : forall st, U0 c b st -> UW c b st [] false.
  Proof.
    intros st [H1 H2 H3 H4 H5 H6]. split.
    - constructor; auto. rewrite H6. cbn. tauto.
    - now rewrite H6.
  Qed.

  Lemma fetchable_spec : forall r, Forall (cons b) r -> fetchable r = true -> local_get r (b_hash b) = Some b.
  Proof.
    intros r Hr H. unfold fetchable in H. destruct (local_get r (b_hash b)) as [x|] eqn:E; [|discriminate].
    apply local_get_hash in E as E'. destruct E' as [Eh Ei]. rewrite Forall_forall in Hr. f_equal. exact (Hr x Ei Eh).
  Qed.
  Lemma fetchable_cons : forall r, local_get (b :: r) (b_hash b) = Some b.
  Proof. intros. unfold local_get. cbn. now rewrite N.eqb_refl. Qed.

  (* one stimulus in a state where b is unknown *)
  Lemma step_av_UW : forall st P w r e st' o, UW c b st P w -> av_ok (r, e) ->
    step (with_remote c r) st e = (st', o) ->
    match e with
    | EVote v => ~ has_qc b o /\ UW c b st' (P ++ valid_for c b v) (w || names_b b v)
    | EPropose x =>
        if N.eqb (b_hash x) (b_hash b) || (w && fetchable r)
        then (has_qc b o /\ Qr c P) \/ (~ has_qc b o /\ K c b st' P)
        else ~ has_qc b o /\ UW c b st' [] false
    | _ => ~ has_qc b o /\ UW c b st' P w
    end.
  Proof.
    intros st P w r e st' o HUW [Hr He] H. cbn [fst snd] in Hr, He.
    assert (Hrb : Forall (cons b) (b :: r)) by (constructor; [now intros _|assumption]).
    pose proof HUW as [HU Hw].
    destruct e as [v|x|x|tv].
    - (* a vote never looks at what can be fetched *)
      assert (E : step (with_remote c (b :: r)) st (EVote v) = (st', o)) by exact H.
      destruct (step_UW' _ _ _ _ _ _ _ HUW Hrb (fetchable_cons r) He E)
        as [[_ [_ Hk]]|[Hn [[_ Hk]|[HU1 _]]]]; try discriminate Hk.
      split; assumption.
    - destruct (N.eqb_spec (b_hash x) (b_hash b)) as [Ex|Ex]; cbn [orb].
      + assert (Exb : x = b) by (apply He; assumption). subst x.
        destruct (step_U' _ _ _ (EPropose b) _ _ HU Hr He eq_refl H)
          as [[Hq [HQ _]]|[Hn [[HK _]|[_ Hb]]]]; cbn [ev_voters] in *; rewrite ?app_nil_r in *.
        * left. auto.
        * right. auto.
        * exfalso. apply Hb. reflexivity.
      + destruct w; cbn [andb].
        * destruct (fetchable r) eqn:Ef.
          -- pose proof (fetchable_spec r Hr Ef) as Hf.
             destruct (step_UW' _ _ _ _ _ _ _ HUW Hr Hf He H)
               as [[Hq [HQ _]]|[Hn [[HK _]|[_ Hk]]]]; cbn [ev_voters] in *; rewrite ?app_nil_r in *.
             ++ left. auto.
             ++ right. auto.
             ++ apply N.eqb_neq in Ex. rewrite Ex in Hk. discriminate.
          -- assert (Hnf : local_get r (b_hash b) = None).
             { unfold fetchable in Ef. destruct (local_get r (b_hash b)); [discriminate|reflexivity]. }
             cbn [step] in H. pose proof (U0_of_propose _ _ _ HU He Ex) as HU0.
             destruct (feed_nofetch r Hr Hnf _ _ _ _ HU0 H) as [Hn HU1]. split; [assumption|now apply UW_of_U0].
        * (* nothing that names b waits: whatever is re-delivered leaves b unknown *)
          assert (Hp0 : forall i, ~ In i P).
          { intros i Hi. apply (u_set _ _ _ _ HU) in Hi. rewrite (vote_voters_none c b _ Hw) in Hi. destruct Hi. }
          destruct (fetchable r) eqn:Ef.
          -- pose proof (fetchable_spec r Hr Ef) as Hf.
             destruct (step_UW' _ _ _ _ _ _ _ HUW Hr Hf He H)
               as [[_ [_ Hk]]|[Hn [[_ Hk]|[[HU1 Hw1] _]]]]; cbn [ev_voters] in *; rewrite ?app_nil_r in *;
               try (apply N.eqb_neq in Ex; rewrite Ex in Hk; discriminate).
             split; [assumption|]. split; [|assumption].
             eapply U_equiv; [|exact HU1]. intros i. split; [intros Hi; now apply Hp0 in Hi|intros []].
          -- assert (Hnf : local_get r (b_hash b) = None).
             { unfold fetchable in Ef. destruct (local_get r (b_hash b)); [discriminate|reflexivity]. }
             cbn [step] in H. pose proof (U0_of_propose _ _ _ HU He Ex) as HU0.
             destruct (feed_nofetch r Hr Hnf _ _ _ _ HU0 H) as [Hn HU1]. split; [assumption|now apply UW_of_U0].
    - assert (E : step (with_remote c (b :: r)) st (EHigh x) = (st', o)) by exact H.
      destruct (step_UW' _ _ _ _ _ _ _ HUW Hrb (fetchable_cons r) He E)
        as [[_ [_ Hk]]|[Hn [[_ Hk]|[HU1 _]]]]; try discriminate Hk.
      cbn [ev_voters] in HU1. rewrite app_nil_r in HU1. split; assumption.
    - assert (E : step (with_remote c (b :: r)) st (ETC tv) = (st', o)) by exact H.
      destruct (step_UW' _ _ _ _ _ _ _ HUW Hrb (fetchable_cons r) He E)
        as [[_ [_ Hk]]|[Hn [[_ Hk]|[HU1 _]]]]; try discriminate Hk.
      cbn [ev_voters] in HU1. rewrite app_nil_r in HU1. split; assumption.
  Qed.

  Lemma run_av_UW : forall es st P w st' outs, UW c b st P w -> Forall av_ok es ->
    run_av c st es = (st', outs) ->
    (emitted b outs <-> (fst (settle false w P es) = true /\ Qr c (snd (settle false w P es)))).
  Proof.
    induction es as [|[r e] es IH]; cbn [run_av]; intros st P w st' outs HU Hok H.
    - inversion H; subst. cbn. split; [intros [o [[] _]]|intros [Hf _]; discriminate].
    - destruct (step (with_remote c r) st e) as [st1 o] eqn:E1. destruct (run_av c st1 es) as [st2 os] eqn:E2.
      inversion H; subst. inversion Hok as [|? ? Hre Hok']; subst. rewrite emitted_cons.
      pose proof (step_av_UW _ _ _ _ _ _ _ HU Hre E1) as HS.
      destruct e as [v|x|x|tv]; cbn [settle].
      + destruct HS as [Hn HU1]. rewrite <- (IH _ _ _ _ _ HU1 Hok' E2). tauto.
      + destruct (N.eqb (b_hash x) (b_hash b) || (w && fetchable r)).
        * rewrite settle_known. cbn [fst snd]. destruct HS as [[Hq HQ]|[Hn HK1]].
          -- split; [intros _|now left]. split; [reflexivity|]. eapply Qr_incl; [|exact HQ]. apply incl_appl, incl_refl.
          -- rewrite <- (run_av_K _ _ _ _ _ HK1 Hok' E2). tauto.
        * destruct HS as [Hn HU1]. rewrite <- (IH _ _ _ _ _ HU1 Hok' E2). tauto.
      + destruct HS as [Hn HU1]. rewrite <- (IH _ _ _ _ _ HU1 Hok' E2). tauto.
      + destruct HS as [Hn HU1]. rewrite <- (IH _ _ _ _ _ HU1 Hok' E2). tauto.
  Qed.

  Theorem qc_iff_quorum_av : forall store high es st' outs,
    Forall (cons b) store -> (high < b_view b)%N -> Forall av_ok es ->
    run_av c (init store high) es = (st', outs) ->
    let kn0 := match local_get store (b_hash b) with Some _ => true | None => false end in
    (emitted_for b outs <-> (fst (settle kn0 false [] es) = true /\ Qr c (snd (settle kn0 false [] es)))).
  Proof.
    intros store high es st' outs Hc Hh Hok H. cbn zeta. rewrite emitted_for_iff.
    destruct (local_get store (b_hash b)) as [x|] eqn:E.
    - assert (Ex : x = b).
      { apply local_get_hash in E. destruct E as [Eh Ei]. rewrite Forall_forall in Hc. now apply Hc. }
      subst x.
      assert (HK : K c b (init store high) []).
      { constructor; cbn; auto; try (now constructor); try tauto; try lia. }
      rewrite (run_av_K _ _ _ _ _ HK Hok H), settle_known. cbn [fst snd app]. tauto.
    - assert (HU : UW c b (init store high) [] false).
      { split; [|reflexivity]. constructor; cbn; auto; try (now constructor); try tauto. }
      exact (run_av_UW _ _ _ _ _ _ HU Hok H).
  Qed.

  (* every emitted certificate verifies, whatever can be fetched when *)
  Lemma run_av_ok : forall es st st' outs, run_av c st es = (st', outs) ->
    buckets_ok c (st_verified st) ->
    buckets_ok c (st_verified st') /\ extends (st_store st) (st_store st') /\
    Forall (Forall (qc_at c (st_store st'))) outs.
  Proof.
    induction es as [|[r e] es IH]; cbn [run_av]; intros st st' outs H Hm.
    - inversion H; subst. split; [assumption|]. split; [apply extends_refl|constructor].
    - destruct (step (with_remote c r) st e) as [st1 o] eqn:E1. destruct (run_av c st1 es) as [st2 os] eqn:E2.
      inversion H; subst.
      destruct (step_ok (with_remote c r) Hpatched _ _ _ _ E1 Hm) as [Hb1 [Hx1 Hq1]].
      destruct (IH _ _ _ E2 Hb1) as [Hb2 [Hx2 Hq2]].
      split; [assumption|]. split; [eapply extends_trans; eassumption|].
      constructor; [|assumption]. eapply Forall_impl; [|exact Hq1]. intros q Hq.
      exact (qc_at_extends c _ _ q Hx2 Hq).
  Qed.

  Theorem emitted_verifies_av : forall store high es st' outs,
    run_av c (init store high) es = (st', outs) ->
    forall o q, In o outs -> In q o -> qc_verifies c (st_store st') q = true.
  Proof.
    intros store high es st' outs H o q Ho Hq.
    destruct (run_av_ok _ _ _ _ H) as [_ [_ Hall]]; [constructor|].
    rewrite Forall_forall in Hall. specialize (Hall o Ho). rewrite Forall_forall in Hall.
    apply qc_at_verifies. now apply Hall.
  Qed.
End Avail.

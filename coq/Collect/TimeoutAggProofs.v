(* The aggregate QC built from a quorum of receipt-checked timeouts verifies (ECDSA / EdDSA). *)
From Coq Require Import Lia.
From HS Require Import Base.Prelude Crypto.Symbolic Crypto.SchemeModel Quorum.QuorumModel
  Cert.CertModel Collect.TimeoutModel Collect.TimeoutProofs.
Close Scope Z_scope.

Definition sig1_of (t : tmsg) : sig1 :=
  match t_msig t with Some (QMulti _ [s]) => s | _ => mkSig 0%N None end.
Definition qc_of (t : tmsg) : qc :=
  match t_qc t with Some q => q | None => zero_qc end.

Lemma map_of_nodup {A} (b : list (N * A)) : NoDup (map fst b) -> map_of b = b.
Proof.
  induction b as [|[k a] r IH]; simpl; intros ND; auto.
  inversion ND as [|? ? Hk ND']; subst. rewrite IH by auto. f_equal.
  apply filter_all. intros [k' a'] Hin. simpl.
  destruct (N.eqb k k') eqn:E; auto. apply N.eqb_eq in E. subst.
  exfalso. apply Hk. apply in_map_iff. exists (k', a'). auto.
Qed.

Lemma lookupN_nodup {A} (b : list (N * A)) k a :
  NoDup (map fst b) -> In (k, a) b -> lookupN k b = Some a.
Proof.
  induction b as [|[k' a'] r IH]; simpl; intros ND Hin; [tauto|].
  inversion ND as [|? ? Hk ND']; subst.
  destruct Hin as [E|Hin].
  - inversion E. subst. rewrite N.eqb_refl. reflexivity.
  - destruct (N.eqb k k') eqn:E.
    + apply N.eqb_eq in E. subst. exfalso. apply Hk. apply in_map_iff. exists (k', a). auto.
    + apply IH; auto.
Qed.

Lemma batch_msgs_map {T} (B : list (rid * msg)) (f : T -> sig1) (g : T -> msg) (l : list T) :
  (forall t, In t l -> lookupN (s_claimed (f t)) B = Some (g t)) ->
  batch_msgs (map f l) B = Some (map (fun t => (f t, g t)) l).
Proof.
  induction l as [|t l IH]; simpl; intros H; auto.
  rewrite (H t) by auto. rewrite IH; auto.
Qed.

(* timeout messages of distinct senders are distinct byte strings *)
Lemma dedup_timeouts {T} (idf : T -> rid) (v : view) (d : T -> option qcdigest) (l : list T) :
  NoDup (map idf l) ->
  dedup_msgs (map (fun t => MTimeout (idf t) v (d t)) l) = map (fun t => MTimeout (idf t) v (d t)) l.
Proof.
  induction l as [|t l IH]; simpl; intros ND; auto.
  inversion ND as [|? ? Hk ND']; subst. rewrite IH by auto. f_equal.
  apply filter_all. intros y Hy. apply in_map_iff in Hy. destruct Hy as [t' [<- Ht']].
  simpl. destruct (N.eqb (idf t) (idf t')) eqn:E; auto.
  apply N.eqb_eq in E. exfalso. apply Hk. rewrite E. apply in_map. auto.
Qed.

Section HighQC.
  Variable c : cfg.
  Variable st : store.

  Lemma insert_desc_in q l x : In x (insert_desc q l) <-> x = q \/ In x l.
  Proof.
    induction l as [|y l IH]; simpl.
    - intuition.
    - destruct (N.ltb (qc_view y) (qc_view q)); simpl; rewrite ?IH; intuition.
  Qed.

  Lemma qc_sort_desc_in l x : In x (qc_sort_desc l) <-> In x l.
  Proof.
    induction l as [|y l IH]; simpl; [tauto|].
    rewrite insert_desc_in, IH. intuition.
  Qed.

  Lemma first_valid_exists l :
    (exists x, In x l /\ qc_valid c st x = true) ->
    exists h, first_valid c st l = Ok h /\ qc_valid c st h = true /\ In h l.
  Proof.
    induction l as [|y l IH]; intros [x [Hin Hx]]; [destruct Hin|].
    simpl. destruct (qc_valid c st y) eqn:Ey.
    - exists y. auto.
    - destruct Hin as [->|Hin]; [congruence|].
        assert (P : exists x, In x l /\ qc_valid c st x = true) by (exists x; auto).
      destruct (IH P) as [h [E [V I]]]. exists h. auto.
  Qed.

  Lemma find_highest_exists l :
    (exists x, In x l /\ qc_valid c st x = true) ->
    exists h, find_highest_valid_qc c st l = Ok h /\ qc_valid c st h = true /\ In h l.
  Proof.
    intros [x [Hin Hx]]. unfold find_highest_valid_qc.
    assert (P : exists y, In y (qc_sort_desc l) /\ qc_valid c st y = true).
    { exists x. split; auto. apply (proj2 (qc_sort_desc_in _ _)). auto. }
    destruct (first_valid_exists (qc_sort_desc l) P) as [h [E [V I]]].
    exists h. repeat split; auto. apply (proj1 (qc_sort_desc_in _ _)) in I. exact I.
  Qed.
End HighQC.

Section Agg.
  Variable c : cfg.

  Lemma msg_sig_shape k t :
    list_kind (c_scheme c) = Some k -> msg_sig_ok c t = true ->
    t_msig t = Some (QMulti k [sig1_of t]) /\ t_qc t = Some (qc_of t) /\
    s_claimed (sig1_of t) = t_id t /\
    verify_single (c_replicas c) (sig1_of t)
      (MTimeout (t_id t) (t_view t) (Some (qc_digest (qc_of t)))) = true.
  Proof.
    intros K H. unfold msg_sig_ok in H.
    destruct (t_qc t) as [qv|] eqn:Eq; [|discriminate].
    destruct (t_msig t) as [s|] eqn:Es; [|discriminate].
    apply andb_prop in H. destruct H as [V S]. unfold sverify, timeout_bytes in V. rewrite Eq in V. simpl in V.
    destruct (single_sig _ _ _ _ _ _ K V S) as [s1 [-> [C1 V1]]].
    unfold sig1_of, qc_of. rewrite Es, Eq. auto.
  Qed.

  Lemma to_sigs_map k l :
    Forall (fun t => t_msig t = Some (QMulti k [sig1_of t])) l ->
    to_sigs (map to_timeout l) = map (fun s => QMulti k [s]) (map sig1_of l).
  Proof.
    induction 1 as [|t l Ht _ IH]; simpl; auto.
    unfold to_sigs in *. simpl. rewrite Ht. simpl. rewrite IH. reflexivity.
  Qed.

  Lemma to_qcs_map l :
    Forall (fun t => t_qc t = Some (qc_of t)) l -> NoDup (map t_id l) ->
    to_qcs (map to_timeout l) = map (fun t => (t_id t, qc_of t)) l.
  Proof.
    induction 1 as [|t l Ht _ IH]; simpl; intros ND; auto.
    inversion ND as [|? ? Hk ND']; subst. rewrite Ht. rewrite IH by auto.
    rewrite map_map. simpl.
    change (map (fun x : tmsg => t_id x) l) with (map t_id l).
    assert (memN (t_id t) (map t_id l) = false) as -> by (apply memN_false; auto).
    reflexivity.
  Qed.

  (* aggqc_verifies: ECDSA / EdDSA *)
  Lemma aggqc_verifies c' st k v l :
    list_kind (c_scheme c) = Some k ->
    c_scheme c' = c_scheme c -> c_replicas c' = c_replicas c -> c_genesis c' <> zero_hash ->
    Forall (fun t => msg_sig_ok c t = true /\ t_view t = v) l ->
    NoDup (map t_id l) -> 2 <= length l -> qsize c <= length l ->
    (exists t, In t l /\ qc_valid c' st (qc_of t) = true) ->
    exists a h, create_aggqc c v (map to_timeout l) = Ok a /\ aq_view a = v /\
      verify_aggqc c' st a = Ok h /\ qc_valid c' st h = true /\
      exists t, In t l /\ h = qc_of t.
  Proof.
    intros K Es Er Gz F ND L2 Lq [tv [Htv Vtv]].
    assert (Sh : Forall (fun t => t_msig t = Some (QMulti k [sig1_of t]) /\ t_qc t = Some (qc_of t) /\
                  s_claimed (sig1_of t) = t_id t /\
                  verify_single (c_replicas c) (sig1_of t) (MTimeout (t_id t) v (Some (qc_digest (qc_of t)))) = true) l).
    { eapply Forall_impl; [|exact F]. simpl. intros t [M Ev].
      destruct (msg_sig_shape k t K M) as [A [B [C D]]]. rewrite Ev in D. auto. }
    assert (Cl : map s_claimed (map sig1_of l) = map t_id l).
    { rewrite map_map. apply map_ext_in. intros t Ht. rewrite Forall_forall in Sh. apply (Sh t Ht). }
    unfold create_aggqc.
    rewrite (to_sigs_map k l) by (eapply Forall_impl; [|exact Sh]; simpl; tauto).
    rewrite (scheme_combine_singles _ k _ K) by (rewrite ?Cl, ?map_length; auto).
    rewrite to_qcs_map; [|eapply Forall_impl; [|exact Sh]; simpl; tauto|auto].
    set (B := map (fun t => (t_id t, qc_of t)) l).
    assert (NB : NoDup (map fst B)).
    { unfold B. rewrite map_map. simpl. exact ND. }
    eexists.
    assert (P : exists x, In x (aggqc_pool B) /\ qc_valid c' st x = true).
    { exists (qc_of tv). split; auto. unfold aggqc_pool. apply in_or_app. right.
      unfold B. rewrite map_map. simpl. apply in_map_iff. exists tv. auto. }
    destruct (find_highest_exists c' st (aggqc_pool B) P) as [h [Eh [Vh Ih]]].
    exists h. split; [reflexivity|]. split; [reflexivity|].
    unfold verify_aggqc. cbn [aq_qcs aq_sig aq_view].
    rewrite (map_of_nodup B NB).
    unfold part_len. cbn [participants]. rewrite !map_length, (qsize_same c c' Er).
    assert (Nat.ltb (length l) (qsize c) = false) as -> by (apply Nat.ltb_ge; lia).
    rewrite Es, Er.
    assert (BV : scheme_batch_verify (c_replicas c) (c_scheme c) (QMulti k (map sig1_of l))
                   (map (timeout_msg v) B) = true).
    { assert (MB : multi_batch_verify (c_replicas c) (map sig1_of l) (map (timeout_msg v) B) = true).
      { unfold multi_batch_verify. rewrite map_length.
        assert (Nat.eqb (length l) 0 = false) as -> by (apply Nat.eqb_neq; lia).
        unfold distinct_signers. rewrite Cl, (nodupbN_NoDup _ ND). simpl negb. cbv iota.
        set (g := fun t : tmsg => MTimeout (t_id t) v (Some (qc_digest (qc_of t)))).
        assert (EB : map (timeout_msg v) B = map (fun t => (t_id t, g t)) l).
        { unfold B. rewrite map_map. reflexivity. }
        rewrite EB.
        rewrite (batch_msgs_map _ sig1_of g l).
        - assert (forallb (fun p => verify_single (c_replicas c) (fst p) (snd p))
                    (map (fun t => (sig1_of t, g t)) l) = true) as ->.
          { apply forallb_forall. intros p Hp. apply in_map_iff in Hp. destruct Hp as [t [<- Ht]].
            simpl. rewrite Forall_forall in Sh. apply (Sh t Ht). }
          simpl negb. cbv iota. rewrite !map_map. simpl.
          unfold distinct_count, g.
          rewrite (dedup_timeouts t_id v (fun t => Some (qc_digest (qc_of t))) l ND).
          rewrite !map_length. apply Nat.eqb_refl.
        - intros t Ht. rewrite Forall_forall in Sh. destruct (Sh t Ht) as [_ [_ [C _]]]. rewrite C.
          apply lookupN_nodup.
          + rewrite map_map. simpl. exact ND.
          + apply in_map_iff. exists t. auto. }
      destruct (c_scheme c); simpl in K; inversion K; subst k; simpl; exact MB. }
    rewrite BV. simpl negb. cbv iota.
    split; [exact Eh|]. split; [exact Vh|].
    unfold aggqc_pool in Ih. apply in_app_or in Ih. destruct Ih as [Ih|Ih].
    - apply repeat_spec in Ih. subst h. exfalso.
      unfold qc_valid, verify_qc, zero_qc in Vh. cbn [qc_hash qc_view qc_sig] in Vh.
      destruct (N.eqb zero_hash (c_genesis c')) eqn:Eg.
      + apply N.eqb_eq in Eg. congruence.
      + discriminate.
    - unfold B in Ih. rewrite map_map in Ih. simpl in Ih. apply in_map_iff in Ih.
      destruct Ih as [t [<- Ht]]. exists t. auto.
  Qed.
End Agg.

Definition agg_ok (c : cfg) : Prop := forall v l,
  Forall (fun t => msg_sig_ok c t = true /\ t_view t = v) l ->
  NoDup (map t_id l) -> 2 <= length l -> qsize c <= length l ->
  exists a, create_aggqc c v (map to_timeout l) = Ok a /\ aq_view a = v /\
    forall c' st', c_scheme c' = c_scheme c -> c_replicas c' = c_replicas c ->
      c_genesis c' <> zero_hash ->
      (exists y, In y l /\ qc_valid c' st' (qc_of y) = true) ->
      exists h, verify_aggqc c' st' a = Ok h /\ qc_valid c' st' h = true /\
                exists y, In y l /\ h = qc_of y.

(* the AggQC is created whatever the QCs are worth; its verification needs a valid one *)
Lemma agg_ok_list c k : list_kind (c_scheme c) = Some k -> agg_ok c.
Proof.
  intros K v l Fm NDl L2 Lq.
  assert (Sh : Forall (fun y => t_msig y = Some (QMulti k [sig1_of y]) /\ t_qc y = Some (qc_of y) /\
                  s_claimed (sig1_of y) = t_id y) l).
  { eapply Forall_impl; [|exact Fm]. simpl. intros y [M _].
    destruct (msg_sig_shape c k y K M) as [A [B [C _]]]. auto. }
  assert (Cl : map s_claimed (map sig1_of l) = map t_id l).
  { rewrite map_map. apply map_ext_in. intros y Hy. rewrite Forall_forall in Sh. apply (Sh y Hy). }
  unfold create_aggqc.
  rewrite (to_sigs_map k l) by (eapply Forall_impl; [|exact Sh]; simpl; tauto).
  rewrite (scheme_combine_singles _ k _ K) by (rewrite ?Cl, ?map_length; auto; lia).
  eexists. split; [reflexivity|]. split; [reflexivity|].
  intros c' st' Es Er Gz Ex.
  destruct (aggqc_verifies c c' st' k v l K Es Er Gz Fm NDl L2 Lq Ex)
    as [a' [h [Ca [_ R]]]].
  unfold create_aggqc in Ca.
  rewrite (to_sigs_map k l) in Ca by (eapply Forall_impl; [|exact Sh]; simpl; tauto).
  rewrite (scheme_combine_singles _ k _ K) in Ca by (rewrite ?Cl, ?map_length; auto; lia).
  inversion Ca. subst a'. exists h. exact R.
Qed.

Section FiredAgg.
  Variable c : cfg.
  Variable st : store.
  Notation q := (qsize c).

  Lemma valid_msg_sig t : c_aggqc c = true -> receipt_ok c t = true -> msg_sig_ok c t = true.
  Proof. unfold receipt_ok. intros -> H. apply andb_prop in H. tauto. Qed.

  (* aggregate rule: firing yields a TC and an AggQC, both labelled with the messages' view,
     that verify everywhere; a replica in that view moves on *)
  Lemma fired_aggregate s hist t a1 l :
    Inv c s hist -> (s_view s <= t_view t)%N ->
    tc_ok c -> agg_ok c -> c_aggqc c = true -> 2 <= q ->
    handed (snd (step c st s (t, a1))) = Some l ->
    exists si a, snd (step c st s (t, a1)) = OFired l si /\ si_agg si = Some a /\
      tc_view (si_tc si) = t_view t /\ aq_view a = t_view t /\
      (forall c', c_scheme c' = c_scheme c -> c_replicas c' = c_replicas c ->
                  verify_tc c' (si_tc si) = Ok tt) /\
      (forall c' st', c_scheme c' = c_scheme c -> c_replicas c' = c_replicas c ->
         c_genesis c' <> zero_hash ->
         (exists y, In y l /\ qc_valid c' st' (qc_of y) = true) ->
         exists h, verify_aggqc c' st' a = Ok h /\ qc_valid c' st' h = true /\
                   exists y, In y l /\ h = qc_of y) /\
      (c_genesis c <> zero_hash ->
       (exists y, In y l /\ qc_valid c st (qc_of y) = true) ->
       t_view t = s_view s -> N.succ (s_view s) <= s_view (fst (step c st s (t, a1))))%N.
  Proof.
    intros I Hv TCV AGV Ag Q2 H.
    pose proof (proj1 (step_fires_iff c st s hist (t, a1) l I Hv) H) as [V [Hid [Lq El]]].
    simpl fst in *.
    destruct (tally_ok_tally c (t_view t) hist) as [F [ND _]].
    set (T := tally c (t_view t) hist) in *.
    assert (Fv : Forall (fun y => receipt_ok c y = true /\ t_view y = t_view t) l).
    { subst l. apply Forall_app. split.
      - eapply Forall_impl; [|exact F]. simpl. intros y [Vy [Ey _]]. auto.
      - constructor; auto. }
    assert (Fl : Forall (fun y => view_sig_ok c y = true /\ t_view y = t_view t) l).
    { eapply Forall_impl; [|exact Fv]. simpl. intros y [Vy Ey]. split; auto. apply valid_view_sig; auto. }
    assert (Fm : Forall (fun y => msg_sig_ok c y = true /\ t_view y = t_view t) l).
    { eapply Forall_impl; [|exact Fv]. simpl. intros y [Vy Ey]. split; auto. apply valid_msg_sig; auto. }
    assert (NDl : NoDup (map t_id l)).
    { subst l. rewrite map_app. simpl. apply NoDup_app_snoc; auto. apply has_id_false_notin; auto. }
    assert (Ll : length l = S (length T)).
    { subst l. rewrite app_length. simpl. lia. }
    destruct (TCV c (t_view t) l eq_refl eq_refl Fl NDl ltac:(lia) ltac:(lia))
      as [tc0 [Ec [Etv Everif]]].
    destruct (AGV (t_view t) l Fm NDl ltac:(lia) ltac:(lia)) as [a [Ca [Eav Averif]]].
    rewrite step_handed in H. simpl fst in H. rewrite V in H.
    rewrite (step_quorum c st s t a1 l V H). cbv zeta.
    unfold remote_timeout_rule. rewrite Ec, Ag. unfold agg_label. rewrite Ca.
    exists (mkSI tc0 (Some a)), a. simpl. repeat split; auto.
    - intros c' Es Er.
      destruct (TCV c' (t_view t) l Es Er Fl NDl ltac:(lia) ltac:(lia))
        as [tc1 [Ec1 [_ Ev1]]]. rewrite Ec in Ec1. inversion Ec1. subst tc1. exact Ev1.
    - intros Gz Ex Ev.
      destruct (Averif c st eq_refl eq_refl Gz Ex) as [h [Vh _]].
      assert (W : verify_sync_info c st (mkSI tc0 (Some a)) = Ok (t_view t)).
      { unfold verify_sync_info. simpl. rewrite Everif, Ag, Vh, Etv, Eav.
        rewrite N.leb_refl. reflexivity. }
      rewrite W.
      pose proof (advance_ge (s_view s) a1) as A.
      unfold advance at 1.
      destruct (N.ltb (t_view t) (advance (s_view s) a1)) eqn:E; [apply N.ltb_lt in E|]; lia.
  Qed.
End FiredAgg.

(* Model of the vote aggregation at one node of the Kauri tree:
   /repo/protocol/comm/kauri.go (begin, onContributionRecv, mergeContribution, onWaitTimerExpired,
   reset) and /repo/protocol/comm/kauri/kauri.go (CanMergeContributions, IsSubSet), over the symbolic
   signatures of VoteModel.v.  Definitions only.

   A contribution is the claimed sender id, a view and a QuorumSignature (None = the nil
   interface that QuorumSignatureFromProto returns for an empty or undecodable message), written as
   the list of single signatures it contains (BLS12: set bits in ascending order).
   Verify(signature, block.ToBytes()): at least one participant, every entry verifies under the key of
   its label, and no label twice (the last clause is fixes/C02-distinct-signers; without it a
   contribution repeating a label is still refused by Combine whenever an aggregate exists).
   The tree enters only through this node's SubTree() and whether it has children. *)
From HS Require Import Base.Prelude Quorum.QuorumModel Collect.VoteModel.
Close Scope Z_scope.

Record kcfg : Type := mkKC {
  kc_members : list rid;
  kc_subtree : list rid;          (* k.tree.SubTree() *)
  kc_leaf : bool;                 (* len(k.tree.ReplicaChildren()) == 0 *)
  kc_blocks : list hash;          (* hashes for which blockchain.Get succeeds (local or fetched) *)
  kc_bls : bool                   (* the scheme is BLS12-381 *)
}.
Definition kqsize (c : kcfg) : nat := Z.to_nat (quorum_size (Z.of_nat (length (kc_members c)))).

Record kstate : Type := mkKS {
  ks_agg : option (list ssig);    (* aggContrib (None = nil) *)
  ks_sent : bool;                 (* aggSent *)
  ks_hash : hash;                 (* blockHash *)
  ks_view : view;                 (* currentView *)
  ks_senders : list rid
}.

Inductive kevent : Type :=
| KBegin (h : hash) (v : view) (own : list ssig)             (* Disseminate/Aggregate with initDone: pc.BlockHash(), p.Block.View(), pc.Signature() *)
| KContrib (id : rid) (v : view) (sg : option (list ssig))   (* *kauripb.Contribution *)
| KTimer (v : view).                                         (* WaitTimerExpiredEvent *)

Inductive kout : Type :=
| OSend (v : view) (sg : option (list ssig))                 (* sender.SendContributionToParent(view, aggContrib) *)
| OQC (q : qcert).                                           (* NewViewMsg with the new QC on the event loop *)

Definition kverify (members : list rid) (h : hash) (l : list ssig) : bool :=
  verify_sigs members h l && nodupbN (map s_lab l).

(* BLS12 Verify has no "no participants" test: an aggregate with an empty bitfield whose point is the identity
   verifies (the aggregate of no keys is the identity key).  It is written [Some []]; an empty bitfield with any
   other point does not verify (the harness writes it as one garbage entry).  The list schemes refuse an empty Multi. *)
Definition kverify_c (c : kcfg) (h : hash) (l : list ssig) : bool :=
  (kc_bls c && match l with [] => true | _ => false end) || kverify (kc_members c) h l.

(* CanMergeContributions(a, b): no participant of a is contained in b *)
Definition can_merge (a b : list ssig) : bool :=
  negb (existsb (fun s => memN (s_lab s) (map s_lab b)) a).

(* IsSubSet(a, b) *)
Definition is_subset (a b : list rid) : bool := forallb (fun i => memN i b) a.

(* mergeContribution: None = error *)
Definition merge (c : kcfg) (st : kstate) (sg : option (list ssig)) : option (kstate * list kout) :=
  if negb (memN (ks_hash st) (kc_blocks c)) then None                    (* failed to fetch block *)
  else match sg with
  | None => None                                                         (* Verify on a nil signature *)
  | Some l =>
      if negb (kverify_c c (ks_hash st) l) then None
      else match ks_agg st with
      | None => Some (mkKS (Some l) (ks_sent st) (ks_hash st) (ks_view st) (ks_senders st), [])   (* first contribution *)
      | Some a =>
          if negb (can_merge l a) then None
          else match combine [l; a] with
          | None => None
          | Some cmb =>
              Some (mkKS (Some cmb) (ks_sent st) (ks_hash st) (ks_view st) (ks_senders st),
                    if Nat.leb (kqsize c) (length cmb) then [OQC (mkQC (ks_hash st) (ks_view st) cmb)] else [])
          end
      end
  end.

Definition kreset (st : kstate) : kstate := mkKS None false (ks_hash st) (ks_view st) [].

Definition kstep (c : kcfg) (st : kstate) (e : kevent) : kstate * list kout :=
  match e with
  | KBegin h v own =>
      (* reset; blockHash, currentView, aggContrib := ...; sendProposalToChildren *)
      if kc_leaf c then (mkKS (Some own) true h v [], [OSend v (Some own)])
      else (mkKS (Some own) false h v [], [])
  | KContrib id v sg =>
      if negb (N.eqb (ks_view st) v) then (st, [])
      else match merge c st sg with
      | None => (st, [])
      | Some (st1, o) =>
          let snd' := ks_senders st1 ++ [id] in
          let st2 := mkKS (ks_agg st1) (ks_sent st1) (ks_hash st1) (ks_view st1) snd' in
          if is_subset (kc_subtree c) snd'
          then (mkKS (ks_agg st2) true (ks_hash st2) (ks_view st2) snd', o ++ [OSend (ks_view st2) (ks_agg st2)])
          else (st2, o)
      end
  | KTimer v =>
      if negb (N.eqb (ks_view st) v) then (st, [])
      else if negb (ks_sent st) then (kreset st, [OSend (ks_view st) (ks_agg st)])
      else (st, [])
  end.

Fixpoint krun (c : kcfg) (st : kstate) (es : list kevent) : kstate * list (list kout) :=
  match es with
  | [] => (st, [])
  | e :: r => let '(st1, o) := kstep c st e in
              let '(st2, os) := krun c st1 r in (st2, o :: os)
  end.

(* NewKauri: nothing aggregated, view 0, zero hash (interned 0) *)
Definition kinit : kstate := mkKS None false 0%N 0%N [].

(* block availability over time: every stimulus comes with the hashes for which blockchain.Get succeeds at that
   moment (held locally, or fetchable from another replica just then) *)
Definition with_blocks (c : kcfg) (bl : list hash) : kcfg :=
  mkKC (kc_members c) (kc_subtree c) (kc_leaf c) bl (kc_bls c).
Fixpoint krun_av (c : kcfg) (st : kstate) (es : list (list hash * kevent)) : kstate * list (list kout) :=
  match es with
  | [] => (st, [])
  | (bl, e) :: r => let '(st1, o) := kstep (with_blocks c bl) st e in
                    let '(st2, os) := krun_av c st1 r in (st2, o :: os)
  end.

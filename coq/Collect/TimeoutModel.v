(* Model of /repo/protocol/synchronizer/timeout_collector.go (add, deleteOldViews),
   synchronizer.go (OnRemoteTimeout, the view arithmetic of advanceView),
   timeoutrule_simple.go / timeoutrule_aggregate.go (RemoteTimeoutRule, VerifySyncInfo for the
   sync info that OnRemoteTimeout builds) on top of the certificate model Cert.CertModel
   (CreateTimeoutCert, CreateAggregateQC, VerifyTimeoutCert, VerifyAggregateQC) and the symbolic
   signatures of Crypto.Symbolic.  Definitions only.

   REPAIRED behaviour modelled (three pending patches, see fixes/):
     C08-collector-per-view   add compares the number of entries OF THE NEW MESSAGE'S VIEW with the
                              quorum and returns exactly those ([coll_add]); the tree compares and
                              returns the whole bag ([coll_add_whole], kept for the refutation)
     C08-timeout-receipt      OnRemoteTimeout accepts a timeout only if its view signature was made
                              by exactly the replica named in the ID field, and, with aggregate QCs,
                              only if it carries a QC and a message signature by that replica over
                              TimeoutMsg.ToBytes() ([receipt_ok]); the tree only checks that the
                              view signature verifies for the view ([receipt_tree])
     C08-aggqc-view           Aggregate.RemoteTimeoutRule labels the AggQC with the timed-out view
                              (the view that the signed timeout messages carry); the tree labels it
                              with the receiver's current view ([agg_label_tree])

   Scope of the second advance: the replica's own high QC is the genesis QC (view 0, always
   valid); that is what the correspondence harness runs (no blocks are proposed). *)
From HS Require Import Base.Prelude Crypto.Symbolic Crypto.SchemeModel Quorum.QuorumModel Cert.CertModel.
Close Scope Z_scope.

(* hotstuff.TimeoutMsg as far as the synchronizer and the certificate code read it *)
Record tmsg : Type := mkT {
  t_id : rid;                   (* ID: claimed sender *)
  t_view : view;                (* View *)
  t_vsig : option qsig;         (* ViewSignature (None = nil interface) *)
  t_msig : option qsig;         (* MsgSignature *)
  t_qc : option qc              (* SyncInfo.QC() *)
}.

Definition in_view (v : view) (t : tmsg) : bool := N.eqb (t_view t) v.
Definition same_slot (a b : tmsg) : bool := N.eqb (t_view b) (t_view a) && N.eqb (t_id b) (t_id a).

(* ---------- timeout_collector.go ---------- *)

(* func (s *timeoutCollector) add(timeout) ([]TimeoutMsg, bool)   — with C08-collector-per-view *)
Definition coll_add (q : nat) (bag : list tmsg) (t : tmsg) : list tmsg * option (list tmsg) :=
  if existsb (same_slot t) bag then (bag, None)              (* already have (view, id) *)
  else
    let bag' := bag ++ [t] in
    let l := filter (in_view (t_view t)) bag' in
    if Nat.ltb (length l) q then (bag', None)
    else (filter (fun x => negb (in_view (t_view t) x)) bag', Some l).

(* the tree as it is: len(s.timeouts) < quorum; returns slices.Clone(s.timeouts) *)
Definition coll_add_whole (q : nat) (bag : list tmsg) (t : tmsg) : list tmsg * option (list tmsg) :=
  if existsb (same_slot t) bag then (bag, None)
  else
    let bag' := bag ++ [t] in
    if Nat.ltb (length bag') q then (bag', None)
    else (filter (fun x => negb (in_view (t_view t) x)) bag', Some bag').

(* func (s *timeoutCollector) deleteOldViews(currentView) *)
Definition delete_old_views (cur : view) (bag : list tmsg) : list tmsg :=
  filter (fun t => negb (N.ltb (t_view t) cur)) bag.

(* ---------- receipt check of OnRemoteTimeout ---------- *)

Definition signed_only_by (s : qsig) (i : rid) : bool :=
  match participants s with [j] => N.eqb j i | _ => false end.

Definition timeout_bytes (t : tmsg) : msg :=
  MTimeout (t_id t) (t_view t) (option_map qc_digest (t_qc t)).

Section Sync.
  Variable c : cfg.
  Variable st : store.

  Definition sverify (s : qsig) (m : msg) : bool := scheme_verify (c_replicas c) (c_scheme c) s m.

  (* s.auth.Verify(timeout.ViewSignature, timeout.View.ToBytes()) — all the tree checks *)
  Definition receipt_tree (t : tmsg) : bool :=
    match t_vsig t with Some s => sverify s (MView (t_view t)) | None => false end.

  Definition view_sig_ok (t : tmsg) : bool :=
    match t_vsig t with
    | Some s => sverify s (MView (t_view t)) && signed_only_by s (t_id t)
    | None => false
    end.
  Definition msg_sig_ok (t : tmsg) : bool :=
    match t_qc t, t_msig t with
    | Some _, Some s => sverify s (timeout_bytes t) && signed_only_by s (t_id t)
    | _, _ => false
    end.
  (* with C08-timeout-receipt *)
  Definition receipt_ok (t : tmsg) : bool :=
    view_sig_ok t && (if c_aggqc c then msg_sig_ok t else true).

  (* ---------- RemoteTimeoutRule ---------- *)

  Record syncinfo : Type := mkSI { si_tc : tc; si_agg : option aggqc }.

  Fixpoint opt_all {A} (l : list (option A)) : option (list A) :=
    match l with
    | [] => Some []
    | None :: _ => None
    | Some a :: r => match opt_all r with Some r' => Some (a :: r') | None => None end
    end.

  Definition to_timeout (t : tmsg) : timeout := mkTO (t_id t) (t_qc t) (t_msig t).

  (* a nil ViewSignature fails Combine's type assertion -> error *)
  Definition create_tc_of (tv : view) (l : list tmsg) : result tc :=
    if N.eqb tv 0%N then create_tc c tv []
    else match opt_all (map t_vsig l) with
         | Some sigs => create_tc c tv sigs
         | None => Reject
         end.

  Definition agg_label (cur tv : view) : view := tv.          (* with C08-aggqc-view *)
  Definition agg_label_tree (cur tv : view) : view := cur.    (* the tree as it is *)

  (* Simple.RemoteTimeoutRule / Aggregate.RemoteTimeoutRule (currentView, timeoutView, timeouts) *)
  Definition remote_timeout_rule (cur tv : view) (l : list tmsg) : result syncinfo :=
    match create_tc_of tv l with
    | Ok t =>
        if c_aggqc c then
          match create_aggqc c (agg_label cur tv) (map to_timeout l) with
          | Ok a => Ok (mkSI t (Some a))
          | Reject => Reject
          | Panic => Panic
          end
        else Ok (mkSI t None)
    | Reject => Reject
    | Panic => Panic
    end.

  (* VerifySyncInfo on the sync info built by OnRemoteTimeout (TC [+ AggQC] + own high QC =
     genesis QC): the view it reports, or the error *)
  Definition verify_sync_info (si : syncinfo) : result view :=
    match verify_tc c (si_tc si) with
    | Ok _ =>
        let v := tc_view (si_tc si) in
        if c_aggqc c then
          match si_agg si with
          | None => Ok v
          | Some a =>
              match verify_aggqc c st a with
              | Ok _ => Ok (if N.leb v (aq_view a) then aq_view a else v)
              | Reject => Reject
              | Panic => Panic
              end
          end
        else Ok (if N.leb v 0%N then 0%N else v)     (* genesis QC: view 0 >= tc view only for v = 0 *)
    | Reject => Reject
    | Panic => Panic
    end.

  (* advanceView: "if view < s.state.View() return; ... s.state.NextView()" *)
  Definition advance (cur : view) (w : result view) : view :=
    match w with
    | Ok w => if N.ltb w cur then cur else N.succ cur
    | _ => cur
    end.

  Record sst : Type := mkS { s_view : view; s_bag : list tmsg }.

  Inductive outcome : Type :=
  | ORejected                                         (* receipt check failed *)
  | ONoQuorum
  | ORuleFailed (l : list tmsg)                       (* collector fired, certificate creation failed *)
  | OFired (l : list tmsg) (si : syncinfo).           (* collector fired, sync info built *)

  (* func (s *Synchronizer) OnRemoteTimeout(timeout).  [a1] = outcome of VerifySyncInfo on the
     SENDER's sync info (input of the first advance): Ok w / Reject. *)
  Definition on_remote_timeout (s : sst) (t : tmsg) (a1 : result view) : sst * outcome :=
    let cur := s_view s in
    if negb (receipt_ok t) then (mkS cur (delete_old_views cur (s_bag s)), ORejected)
    else
      let v1 := advance cur a1 in
      let '(bag1, r) := coll_add (qsize c) (s_bag s) t in
      match r with
      | None => (mkS v1 (delete_old_views cur bag1), ONoQuorum)
      | Some l =>
          match remote_timeout_rule cur (t_view t) l with
          | Ok si => (mkS (advance v1 (verify_sync_info si)) (delete_old_views cur bag1), OFired l si)
          | _ => (mkS v1 (delete_old_views cur bag1), ORuleFailed l)
          end
      end.

  Definition input : Type := (tmsg * result view)%type.
  Definition step (s : sst) (x : input) : sst * outcome := on_remote_timeout s (fst x) (snd x).

  Fixpoint run (s : sst) (xs : list input) : sst * list (outcome * sst) :=
    match xs with
    | [] => (s, [])
    | x :: r => let '(s1, o) := step s x in
                let '(s2, os) := run s1 r in (s2, (o, s1) :: os)
    end.
  Definition run_state (s : sst) (xs : list input) : sst :=
    fold_left (fun s x => fst (step s x)) xs s.

  (* the list handed to certificate creation at a step, if any *)
  Definition handed (o : outcome) : option (list tmsg) :=
    match o with ORuleFailed l | OFired l _ => Some l | _ => None end.

  (* ---------- reference: one independent tally per view ---------- *)
  (* Correctly signed timeouts for view v received so far from distinct replicas and not consumed
     by an earlier certificate for v.  This is the property's sentence, as a function of the
     received sequence alone. *)
  Definition has_id (i : rid) (T : list tmsg) : bool := existsb (fun y => N.eqb (t_id y) i) T.
  Definition counts_for (v : view) (t : tmsg) : bool := receipt_ok t && in_view v t.
  Definition tally_step (v : view) (T : list tmsg) (t : tmsg) : list tmsg :=
    if counts_for v t && negb (has_id (t_id t) T) then
      (if Nat.leb (qsize c) (S (length T)) then [] else T ++ [t])
    else T.
  Definition tally (v : view) (hist : list tmsg) : list tmsg := fold_left (tally_step v) hist [].
End Sync.

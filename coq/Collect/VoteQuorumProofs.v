(* C09, all-to-one collector: a certificate for a block newer than the high QC exists exactly from
   the first stimulus at which the block is known and valid single-signer votes from a quorum of
   distinct members have arrived (any order, any other votes in between, before or after the block). *)
From Coq Require Import Permutation.
From HS Require Import Base.Prelude Quorum.QuorumModel Collect.VoteModel Collect.VoteProofs.
Close Scope Z_scope.
Arguments del : simpl never.
Arguments set : simpl never.
Arguments cleanup : simpl never.
Arguments local_get : simpl never.

Section Target.
  Variable c : cfg.
  Hypothesis Hpatched : c_patched c = true.
  Variable b : binfo.                          (* the block the votes are for *)
  Hypothesis Hqsize : 2 <= qsize c.                (* Combine needs two signatures: n >= 2 *)
  (* SHA-256 is injective on block contents: a block with b's hash is b *)
  Definition cons (x : binfo) : Prop := b_hash x = b_hash b -> x = b.
  Hypothesis Hremote : Forall cons (c_remote c).

  (* the signer of a valid single-signer vote for b ([] otherwise) *)
  Definition valid_for (v : vote) : list rid :=
    if N.eqb (v_hash v) (b_hash b) then
      match v_sigs v with
      | [s] => if verify_single (c_members c) (b_hash b) s then [s_lab s] else []
      | _ => []
      end
    else [].
  Definition ev_voters (e : event) : list rid := match e with EVote v => valid_for v | _ => [] end.
  Definition voters (es : list event) : list rid := flat_map ev_voters es.
  Definition vote_voters (vs : list vote) : list rid := flat_map valid_for vs.

  Definition Qr (L : list rid) : Prop := exists T, NoDup T /\ incl T L /\ qsize c <= length T.
  Definition has_qc (o : list qcert) : Prop := exists q, In q o /\ q_hash q = b_hash b.

  Lemma Qr_incl : forall L L', incl L L' -> Qr L -> Qr L'.
  Proof. intros L L' Hi [T [Hn [Ht Hl]]]. exists T. repeat split; auto. eapply incl_tran; eassumption. Qed.
  Lemma has_qc_nil : ~ has_qc [].
  Proof. intros [q [[] _]]. Qed.
  Lemma has_qc_app : forall o1 o2, has_qc (o1 ++ o2) <-> has_qc o1 \/ has_qc o2.
  Proof.
    intros. split.
    - intros [q [Hi Hh]]. apply in_app_or in Hi. destruct Hi; [left|right]; now exists q.
    - intros [[q [Hi Hh]]|[q [Hi Hh]]]; exists q; split; auto; apply in_or_app; auto.
  Qed.

  Lemma valid_for_other : forall v, v_hash v <> b_hash b -> valid_for v = [].
  Proof. intros v H. unfold valid_for. destruct (N.eqb_spec (v_hash v) (b_hash b)); [contradiction|reflexivity]. Qed.
  Lemma vote_voters_other : forall vs, Forall (fun v => v_hash v <> b_hash b) vs -> vote_voters vs = [].
  Proof.
    induction vs as [|v vs IH]; cbn; intros H; [reflexivity|]. inversion H; subst.
    rewrite valid_for_other by assumption. now apply IH.
  Qed.

  (* ---------- states in which b is known ---------- *)
  Definition known (st : vstate) : Prop := local_get (st_store st) (b_hash b) = Some b.
  Record K (st : vstate) (S : list rid) : Prop := mkK {
    k_high : (st_high st < b_view b)%N;
    k_cons : Forall cons (st_store st);
    k_bok : buckets_ok c (st_verified st);
    k_known : known st;
    k_def : Forall (fun v => v_hash v <> b_hash b) (st_deferred st);
    k_set : forall i, In i (map v_signer (lookup (st_verified st) (b_hash b))) <-> In i S;
    k_len : length (lookup (st_verified st) (b_hash b)) < qsize c }.

  Lemma K_equiv : forall st S S', (forall i, In i S <-> In i S') -> K st S -> K st S'.
  Proof. intros st S S' He [H1 H2 H3 H4 H5 H6 H7]. constructor; auto. intros i. now rewrite H6. Qed.

  Lemma K_keep : forall st S, K st S -> keepb (st_store st) (st_high st) (b_hash b) = true.
  Proof.
    intros st S H. unfold keepb. rewrite (k_known _ _ H). apply negb_true_iff. apply N.leb_gt. apply H.
  Qed.

  Lemma K_not_Qr : forall st S, K st S -> ~ Qr S.
  Proof.
    intros st S H [T [Hn [Hi Hl]]].
    assert (Hle : length T <= length (map v_signer (lookup (st_verified st) (b_hash b)))).
    { apply NoDup_incl_length; [assumption|]. intros i Ht. apply (k_set _ _ H). now apply Hi. }
    rewrite map_length in Hle. pose proof (k_len _ _ H). lia.
  Qed.

  Lemma bucket_snoc : forall h l v, bucket_ok c h l -> single_valid c h v ->
    ~ In (v_signer v) (map v_signer l) -> bucket_ok c h (l ++ [v]).
  Proof.
    intros h l v [Hf Hn] Hv Hi. split.
    - apply Forall_app. split; [assumption|]. constructor; [assumption|constructor].
    - rewrite map_app. cbn. now apply NoDup_app_single.
  Qed.

  Lemma vc_other : forall st v x st' o h, verify_cert c st v x = (st', o) -> v_hash v <> h ->
    lookup (st_verified st') h = lookup (st_verified st) h \/
    (keepb (st_store st) (st_high st) h = false /\ lookup (st_verified st') h = []).
  Proof.
    intros st v x st' o h H Hd. unfold verify_cert in H.
    assert (Hc : forall m, lookup m h = lookup (st_verified st) h ->
              lookup (st_verified (cleanup (with_verified st m))) h = lookup (st_verified st) h \/
              (keepb (st_store st) (st_high st) h = false /\ lookup (st_verified (cleanup (with_verified st m))) h = [])).
    { intros m Hm. rewrite lookup_cleanup. cbn [st_store st_high st_verified with_verified].
      destruct (keepb _ _ h); [left; assumption|right; auto]. }
    repeat match type of H with
    | (if ?x then _ else _) = _ => destruct x
    | (match ?x with Some _ => _ | None => _ end) = _ => destruct x
    end; inversion H; subst; auto.
    - destruct st; apply (Hc st_verified). reflexivity.
    - apply Hc. now apply lookup_set_other.
    - cbn [with_verified st_verified st_store st_high st_deferred].
      specialize (Hc (del (set (st_verified st) (v_hash v) (lookup (st_verified st) (v_hash v) ++ [v])) (v_hash v))).
      apply Hc. rewrite lookup_del_other by assumption. now apply lookup_set_other.
    - apply Hc. now apply lookup_set_other.
  Qed.

  (* a vote for another block in a state where b is known *)
  Lemma vc_foreign : forall st S v x st' o, K st S -> b_hash x = v_hash v -> v_hash v <> b_hash b ->
    verify_cert c st v x = (st', o) -> ~ has_qc o /\ K st' S.
  Proof.
    intros st S v x st' o HK Hx Hd H.
    destruct (vc_frame _ _ _ _ _ _ H) as [E1 [E2 E3]].
    destruct (vc_ok c Hpatched _ _ _ _ _ H (k_bok _ _ HK) Hx) as [Hb Hqs].
    split.
    - intros [q [Hi Hh]]. rewrite Forall_forall in Hqs. destruct (Hqs q Hi) as [_ [Eh _]]. congruence.
    - destruct (vc_other _ _ _ _ _ (b_hash b) H Hd) as [El|[Ek _]];
        [|rewrite (K_keep _ _ HK) in Ek; discriminate].
      destruct HK as [H1 H2 H3 H4 H5 H6 H7]. constructor; unfold known in *; try rewrite E1; try rewrite E2; try rewrite E3; try rewrite El; auto.
  Qed.

  Lemma valid_for_single : forall v s, v_hash v = b_hash b -> v_sigs v = [s] ->
    verify_single (c_members c) (b_hash b) s = true -> valid_for v = [s_lab s] /\ v_signer v = s_lab s.
  Proof.
    intros v s Hh Hs Hv. unfold valid_for, v_signer. rewrite Hs, Hv. now rewrite Hh, N.eqb_refl.
  Qed.

  (* a vote naming b in a state where b is known *)
  Lemma vc_target : forall st S v st' o, K st S -> v_hash v = b_hash b ->
    verify_cert c st v b = (st', o) ->
    (has_qc o /\ Qr (S ++ valid_for v)) \/ (~ has_qc o /\ K st' (S ++ valid_for v)).
  Proof.
    intros st S v st' o HK Hh H. unfold verify_cert in H. rewrite Hpatched in H. cbn [andb] in H.
    destruct (verify_sigs _ _ _) eqn:Ev; cbn [negb] in H.
    2:{ inversion H; subst. right. split; [apply has_qc_nil|].
        assert (E : valid_for v = []).
        { unfold valid_for. rewrite Hh, N.eqb_refl. destruct (v_sigs v) as [|s [|? ?]] eqn:Es; auto.
          rewrite Hh, verify_sigs_single in Ev. now rewrite Ev. }
        now rewrite E, app_nil_r. }
    destruct (Nat.eqb_spec (length (v_sigs v)) 1) as [El|El]; cbn [negb] in H.
    2:{ inversion H; subst. right. split; [apply has_qc_nil|].
        assert (E : valid_for v = []).
        { unfold valid_for. rewrite Hh, N.eqb_refl. destruct (v_sigs v) as [|s [|? ?]] eqn:Es; auto.
          cbn in El. congruence. }
        now rewrite E, app_nil_r. }
    pose proof (passes_single c v Ev El) as Hsv.
    destruct Hsv as [_ [s [Es Hs]]]. rewrite Hh in Hs.
    destruct (valid_for_single v s Hh Es Hs) as [Evf Esg].
    assert (Hsv : single_valid c (b_hash b) v).
    { split; [assumption|]. exists s. now split. }
    rewrite Hh in H. rewrite Evf.
    pose proof (K_keep _ _ HK) as Hkeep.
    pose proof (lookup_ok c _ (b_hash b) (k_bok _ _ HK)) as Hbk.
    destruct (existsb _ _) eqn:Ed.
    { inversion H; subst. right. split; [apply has_qc_nil|].
      apply existsb_signer in Ed.
      assert (El2 : lookup (st_verified (cleanup st)) (b_hash b) = lookup (st_verified st) (b_hash b)).
      { rewrite lookup_cleanup. now rewrite Hkeep. }
      destruct HK as [H1 H2 H3 H4 H5 H6 H7]. constructor; auto.
      - rewrite cleanup_verified. now apply buckets_ok_filter.
      - intros i. rewrite El2, H6, in_app_iff. cbn. split; [auto|].
        intros [Hi|[Hi|[]]]; [assumption|]. subst i. apply H6. now rewrite <- Esg.
      - now rewrite El2. }
    assert (Hni : ~ In (v_signer v) (map v_signer (lookup (st_verified st) (b_hash b)))).
    { intros Hi. apply existsb_signer in Hi. congruence. }
    pose proof (bucket_snoc _ _ _ Hbk Hsv Hni) as Hnew.
    set (votes' := lookup (st_verified st) (b_hash b) ++ [v]) in *.
    destruct (Nat.ltb_spec (length votes') (qsize c)) as [Hlt|Hge].
    { inversion H; subst. right. split; [apply has_qc_nil|].
      assert (El2 : lookup (st_verified (cleanup (with_verified st (set (st_verified st) (b_hash b) votes')))) (b_hash b) = votes').
      { rewrite lookup_cleanup. cbn [st_store st_high st_verified with_verified]. rewrite Hkeep. apply lookup_set_same. }
      destruct HK as [H1 H2 H3 H4 H5 H6 H7]. constructor; auto.
      - rewrite cleanup_verified. apply buckets_ok_filter. cbn. now apply buckets_ok_set.
      - intros i. rewrite El2. unfold votes'. rewrite map_app, !in_app_iff, H6. cbn. now rewrite Esg.
      - now rewrite El2. }
    assert (H2 : 2 <= length votes') by lia.
    destruct (combine_bucket c _ _ Hnew H2) as [ss [Ec [E1 [E2 E3]]]].
    rewrite Ec in H. inversion H; subst. left. split.
    - eexists. split; [now left|reflexivity].
    - exists (map v_signer votes'). destruct Hnew as [_ Hnn]. repeat split; [assumption| |now rewrite map_length].
      unfold votes'. rewrite map_app. cbn. rewrite Esg. intros i Hi. apply in_app_or in Hi.
      apply in_or_app. destruct Hi as [Hi|Hi]; [left; now apply (k_set _ _ HK)|now right].
  Qed.

  Lemma K_store_ext : forall st S e, K st S -> Forall cons e ->
    K (mkSt (st_store st ++ e) (st_high st) (st_deferred st) (st_verified st)) S.
  Proof.
    intros st S e [H1 H2 H3 H4 H5 H6 H7] He. constructor; cbn; auto.
    - apply Forall_app. now split.
    - unfold known in *. cbn. now apply local_get_app.
  Qed.

  Lemma get_cons : forall s h x s', get c s h = (Some x, s') -> b_hash x = h /\ exists e, s' = s ++ e /\ Forall cons e.
  Proof.
    intros s h x s' H. unfold get in H. destruct (local_get s h) eqn:E1.
    - inversion H; subst. apply local_get_hash in E1. split; [apply E1|]. exists []. split; [now rewrite app_nil_r|constructor].
    - destruct (local_get (c_remote c) h) eqn:E2; inversion H; subst.
      apply local_get_hash in E2. destruct E2 as [Eh Ei]. split; [assumption|]. exists [x]. split; [reflexivity|].
      constructor; [|constructor]. rewrite Forall_forall in Hremote. now apply Hremote.
  Qed.

  Lemma collect_K : forall st S v d st' o, K st S -> collect_vote c st v d = (st', o) ->
    (has_qc o /\ Qr (S ++ valid_for v)) \/ (~ has_qc o /\ K st' (S ++ valid_for v)).
  Proof.
    intros st S v d st' o HK H. unfold collect_vote in H.
    pose proof (k_known _ _ HK) as Hkn. unfold known in Hkn.
    assert (Hhi : N.leb (b_view b) (st_high st) = false) by (apply N.leb_gt; apply HK).
    destruct (N.eq_dec (v_hash v) (b_hash b)) as [Hh|Hd].
    - (* the vote names b *)
      destruct d; cbn [negb] in H.
      + unfold get in H. rewrite Hh, Hkn, Hhi in H. destruct st. cbn in *.
        eapply vc_target; eauto.
      + rewrite Hh, Hkn, Hhi in H. eapply vc_target; eauto.
    - rewrite (valid_for_other v Hd), app_nil_r. right.
      destruct d; cbn [negb] in H.
      + destruct (get c (st_store st) (v_hash v)) as [[x|] s'] eqn:Eg.
        * destruct (get_cons _ _ _ _ Eg) as [Hx [e [Es He]]]. subst s'.
          pose proof (K_store_ext _ _ e HK He) as HK2.
          destruct (N.leb (b_view x) (st_high st)).
          -- inversion H; subst. split; [apply has_qc_nil|assumption].
          -- eapply vc_foreign; eauto.
        * inversion H; subst. split; [apply has_qc_nil|assumption].
      + destruct (local_get (st_store st) (v_hash v)) as [x|] eqn:El.
        * destruct (N.leb (b_view x) (st_high st)).
          -- inversion H; subst. split; [apply has_qc_nil|assumption].
          -- apply local_get_hash in El. destruct El as [Hx _]. eapply vc_foreign; eauto.
        * inversion H; subst. split; [apply has_qc_nil|].
          destruct HK as [H1 H2 H3 H4 H5 H6 H7]. constructor; cbn; auto.
          apply Forall_app. split; [assumption|]. constructor; [assumption|constructor].
  Qed.

  Lemma feed_K : forall vs st S st' o, K st S -> feed c st vs = (st', o) ->
    (has_qc o /\ Qr (S ++ vote_voters vs)) \/ (~ has_qc o /\ K st' (S ++ vote_voters vs)).
  Proof.
    induction vs as [|v vs IH]; cbn [feed vote_voters flat_map]; intros st S st' o HK H.
    - inversion H; subst. right. rewrite app_nil_r. split; [apply has_qc_nil|assumption].
    - destruct (collect_vote c st v true) as [st1 o1] eqn:E1.
      destruct (feed c st1 vs) as [st2 o2] eqn:E2. inversion H; subst.
      destruct (collect_K _ _ _ _ _ _ HK E1) as [[Hq1 HQ]|[Hn1 HK1]].
      + left. split; [apply has_qc_app; now left|].
        eapply Qr_incl; [|exact HQ]. intros i Hi. apply in_app_or in Hi. apply in_or_app.
        destruct Hi; [now left|right; apply in_or_app; now left].
      + destruct (IH _ _ _ _ HK1 E2) as [[Hq2 HQ]|[Hn2 HK2]].
        * left. split; [apply has_qc_app; now right|]. now rewrite <- app_assoc in HQ.
        * right. split; [|now rewrite <- app_assoc in HK2].
          intros Hq. apply has_qc_app in Hq. tauto.
  Qed.

  (* ---------- states in which b is not yet known ---------- *)
  Record U (st : vstate) (P : list rid) : Prop := mkU {
    u_high : (st_high st < b_view b)%N;
    u_cons : Forall cons (st_store st);
    u_bok : buckets_ok c (st_verified st);
    u_unknown : local_get (st_store st) (b_hash b) = None;
    u_empty : lookup (st_verified st) (b_hash b) = [];
    u_set : forall i, In i (vote_voters (st_deferred st)) <-> In i P }.

  Lemma KU_excl : forall st S P, K st S -> U st P -> False.
  Proof. intros st S P HK HU. pose proof (k_known _ _ HK) as H. unfold known in H. rewrite (u_unknown _ _ HU) in H. discriminate. Qed.

  Lemma vote_voters_app : forall a d, vote_voters (a ++ d) = vote_voters a ++ vote_voters d.
  Proof. intros. unfold vote_voters. apply flat_map_app. Qed.

  Lemma collect_U : forall st P v st' o, U st P -> collect_vote c st v false = (st', o) ->
    ~ has_qc o /\ U st' (P ++ valid_for v).
  Proof.
    intros st P v st' o HU H. unfold collect_vote in H. cbn [negb] in H.
    destruct (local_get (st_store st) (v_hash v)) as [x|] eqn:El.
    - assert (Hd : v_hash v <> b_hash b).
      { intros E. rewrite E, (u_unknown _ _ HU) in El. discriminate. }
      rewrite (valid_for_other v Hd), app_nil_r.
      destruct (N.leb (b_view x) (st_high st)).
      + inversion H; subst. split; [apply has_qc_nil|assumption].
      + apply local_get_hash in El. destruct El as [Hx _].
        destruct (vc_frame _ _ _ _ _ _ H) as [E1 [E2 E3]].
        destruct (vc_ok c Hpatched _ _ _ _ _ H (u_bok _ _ HU) Hx) as [Hb Hqs].
        split.
        * intros [q [Hi Hh]]. rewrite Forall_forall in Hqs. destruct (Hqs q Hi) as [_ [Eh _]]. congruence.
        * assert (El2 : lookup (st_verified st') (b_hash b) = []).
          { destruct (vc_other _ _ _ _ _ (b_hash b) H Hd) as [Ea|[_ Ea]]; [|assumption].
            rewrite Ea. apply HU. }
          destruct HU as [H1 H2 H3 H4 H5 H6]. constructor; try rewrite E1; try rewrite E2; try rewrite E3; auto.
    - inversion H; subst. split; [apply has_qc_nil|].
      destruct HU as [H1 H2 H3 H4 H5 H6]. constructor; cbn; auto.
      intros i. rewrite vote_voters_app, !in_app_iff, H6. cbn. now rewrite app_nil_r.
  Qed.

  (* ---------- one stimulus ---------- *)
  Definition ev_ok (e : event) : Prop :=
    match e with
    | EVote _ => True
    | EPropose x => cons x
    | EHigh x => cons x /\ (b_view x < b_view b)%N       (* b stays newer than the high QC *)
    | ETC _ => True                                      (* any timeout certificate, for any view *)
    end.

  Lemma store_block_cons : forall s x, cons x -> exists e, store_block s x = s ++ e /\ Forall cons e.
  Proof.
    intros s x Hx. unfold store_block. destruct (local_get s (b_hash x)).
    - exists []. split; [now rewrite app_nil_r|constructor].
    - exists [x]. split; [reflexivity|]. constructor; [assumption|constructor].
  Qed.

  Definition is_prop_b (e : event) : Prop := e = EPropose b.

  Lemma step_K : forall st S e st' o, K st S -> ev_ok e -> step c st e = (st', o) ->
    (has_qc o /\ Qr (S ++ ev_voters e)) \/ (~ has_qc o /\ K st' (S ++ ev_voters e)).
  Proof.
    intros st S e st' o HK He H. destruct e as [v|x|x|tv]; cbn [step ev_voters] in *;
      [| | |inversion H; subst; right; rewrite app_nil_r; split; [apply has_qc_nil|assumption]].
    - eapply collect_K; eauto.
    - destruct (store_block_cons (st_store st) x He) as [e [Es Hce]]. rewrite Es in H.
      assert (HK1 : K (mkSt (st_store st ++ e) (st_high st) [] (st_verified st)) S).
      { destruct (K_store_ext _ _ e HK Hce) as [H1 H2 H3 H4 H5 H6 H7]. constructor; auto. cbn. constructor. }
      destruct (feed_K _ _ _ _ _ HK1 H) as [[Hq HQ]|[Hn HK2]];
        rewrite (vote_voters_other _ (k_def _ _ HK)) in *; [left|right]; auto.
    - inversion H; subst. right. rewrite app_nil_r. split; [apply has_qc_nil|].
      destruct He as [Hc Hv]. destruct (store_block_cons (st_store st) x Hc) as [e [Es Hce]]. rewrite Es.
      destruct (K_store_ext _ _ e HK Hce) as [H1 H2 H3 H4 H5 H6 H7]. constructor; auto. cbn in *.
      destruct (N.ltb_spec (st_high st) (b_view x)); assumption.
  Qed.

  Lemma step_U : forall st P e st' o, U st P -> ev_ok e ->
    match e with EPropose x => x = b | _ => True end ->
    step c st e = (st', o) ->
    (has_qc o /\ Qr (P ++ ev_voters e) /\ is_prop_b e) \/
    (~ has_qc o /\ ((K st' (P ++ ev_voters e) /\ is_prop_b e) \/ (U st' (P ++ ev_voters e) /\ ~ is_prop_b e))).
  Proof.
    intros st P e st' o HU He Hp H. destruct e as [v|x|x|tv]; cbn [step ev_voters] in *;
      [| | |inversion H; subst; right; rewrite app_nil_r; split; [apply has_qc_nil|]; right; split; [assumption|discriminate]].
    - right. destruct (collect_U _ _ _ _ _ HU H) as [Hn HU']. split; [assumption|]. right. split; [assumption|discriminate].
    - subst x. rewrite app_nil_r.
      assert (Es : store_block (st_store st) b = st_store st ++ [b]).
      { unfold store_block. now rewrite (u_unknown _ _ HU). }
      rewrite Es in H.
      assert (HK1 : K (mkSt (st_store st ++ [b]) (st_high st) [] (st_verified st)) []).
      { destruct HU as [H1 H2 H3 H4 H5 H6]. constructor; cbn; auto.
        - apply Forall_app. split; [assumption|]. constructor; [now intros _|constructor].
        - unfold known. cbn. rewrite local_get_app_none by assumption. unfold local_get. cbn. now rewrite N.eqb_refl.
        - rewrite H5. cbn. tauto.
        - rewrite H5. cbn. lia. }
      destruct (feed_K _ _ _ _ _ HK1 H) as [[Hq HQ]|[Hn HK2]]; cbn [app] in *.
      + left. split; [assumption|]. split; [|reflexivity].
        eapply Qr_incl; [|exact HQ]. intros i. apply (u_set _ _ HU).
      + right. split; [assumption|]. left. split; [|reflexivity].
        eapply K_equiv; [|exact HK2]. intros i. apply (u_set _ _ HU).
    - inversion H; subst. right. rewrite app_nil_r. split; [apply has_qc_nil|]. right. split; [|discriminate].
      destruct He as [Hc Hv].
      assert (Hd : b_hash x <> b_hash b).
      { intros E. apply Hc in E. subst x. now apply N.lt_irrefl in Hv. }
      destruct HU as [H1 H2 H3 H4 H5 H6]. constructor; cbn; auto.
      + destruct (N.ltb_spec (st_high st) (b_view x)); assumption.
      + destruct (store_block_cons (st_store st) x Hc) as [e [Es Hce]]. rewrite Es. apply Forall_app. now split.
      + unfold store_block. destruct (local_get (st_store st) (b_hash x)); [assumption|].
        rewrite local_get_app_none by assumption. unfold local_get. cbn.
        destruct (N.eqb_spec (b_hash x) (b_hash b)); [contradiction|reflexivity].
  Qed.

  (* ---------- runs ---------- *)
  (* while b is unknown, the first proposal handled is b's own (afterwards any proposal may come) *)
  Fixpoint props_ok (kn : Prop) (es : list event) : Prop :=
    match es with
    | [] => True
    | EPropose x :: r => (kn \/ x = b) /\ props_ok True r
    | _ :: r => props_ok kn r
    end.
  Lemma props_ok_mono : forall es (p p' : Prop), (p -> p') -> props_ok p es -> props_ok p' es.
  Proof.
    induction es as [|e es IH]; cbn; intros p p' Hi H; [exact I|].
    destruct e; try (eapply IH; eassumption). destruct H as [[H|H] H2]; split; auto.
  Qed.

  Definition emitted (outs : list (list qcert)) : Prop := exists o, In o outs /\ has_qc o.

  Lemma emitted_cons : forall o os, emitted (o :: os) <-> has_qc o \/ emitted os.
  Proof.
    intros. split.
    - intros [o' [[E|Hi] Hq]]; [subst; now left|right; now exists o'].
    - intros [Hq|[o' [Hi Hq]]]; [exists o; split; [now left|assumption]|exists o'; split; [now right|assumption]].
  Qed.

  Lemma voters_cons : forall e es, voters (e :: es) = ev_voters e ++ voters es.
  Proof. reflexivity. Qed.

  Lemma run_K : forall es st S st' outs, K st S -> Forall ev_ok es ->
    run c st es = (st', outs) -> (emitted outs <-> Qr (S ++ voters es)).
  Proof.
    induction es as [|e es IH]; cbn [run]; intros st S st' outs HK Hok H.
    - inversion H; subst. cbn. rewrite app_nil_r. split.
      + intros [o [[] _]].
      + intros HQ. exfalso. eapply K_not_Qr; eauto.
    - destruct (step c st e) as [st1 o] eqn:E1. destruct (run c st1 es) as [st2 os] eqn:E2.
      inversion H; subst. inversion Hok; subst. rewrite emitted_cons, voters_cons, app_assoc.
      destruct (step_K _ _ _ _ _ HK H2 E1) as [[Hq HQ]|[Hn HK1]].
      + split; [intros _|now left]. eapply Qr_incl; [|exact HQ]. apply incl_appl, incl_refl.
      + rewrite <- (IH _ _ _ _ HK1 H3 E2). tauto.
  Qed.

  Lemma run_U : forall es st P st' outs, U st P -> Forall ev_ok es -> props_ok False es ->
    run c st es = (st', outs) ->
    (emitted outs <-> (In (EPropose b) es /\ Qr (P ++ voters es))).
  Proof.
    induction es as [|e es IH]; cbn [run]; intros st P st' outs HU Hok Hp H.
    - inversion H; subst. split; [intros [o [[] _]]|intros [[] _]].
    - destruct (step c st e) as [st1 o] eqn:E1. destruct (run c st1 es) as [st2 os] eqn:E2.
      inversion H; subst. inversion Hok; subst. rewrite emitted_cons, voters_cons, app_assoc.
      assert (Hpe : match e with EPropose x => x = b | _ => True end).
      { destruct e; auto. cbn in Hp. destruct Hp as [[[]|Hx] _]. assumption. }
      destruct (step_U _ _ _ _ _ HU H2 Hpe E1) as [[Hq [HQ Hb]]|[Hn [[HK1 Hb]|[HU1 Hb]]]].
      + split; [intros _|now left]. split; [left; now rewrite Hb|].
        eapply Qr_incl; [|exact HQ]. apply incl_appl, incl_refl.
      + unfold is_prop_b in Hb. subst e.
        pose proof (run_K _ _ _ _ _ HK1 H3 E2) as HR. split.
        * intros [Hc|He]; [contradiction|]. split; [now left|now apply HR].
        * intros [_ Hr]. right. now apply HR.
      + assert (Hp2 : props_ok False es).
        { destruct e; cbn in Hp; auto. exfalso. apply Hb. unfold is_prop_b. now rewrite Hpe. }
        pose proof (IH _ _ _ _ HU1 H3 Hp2 E2) as HR. split.
        * intros [Hc|He]; [contradiction|]. apply HR in He. destruct He. split; [now right|assumption].
        * intros [[Ee|Hi] Hr]; [exfalso; apply Hb; unfold is_prop_b; now symmetry|].
          right. apply HR. now split.
  Qed.

  (* ---------- the statements ---------- *)
  (* i is the signer of a valid single-signer vote for b *)
  Definition valid_vote (v : vote) (i : rid) : Prop :=
    v_hash v = b_hash b /\ In i (c_members c) /\ v_sigs v = [mkS i (Some (i, b_hash b))].

  Lemma valid_for_spec : forall v i, In i (valid_for v) <-> valid_vote v i.
  Proof.
    intros v i. unfold valid_for, valid_vote. destruct (N.eqb_spec (v_hash v) (b_hash b)) as [Eh|Eh].
    2:{ split; [intros []|intros [H _]; contradiction]. }
    destruct (v_sigs v) as [|s [|s2 r]] eqn:Es.
    - split; [intros []|intros [_ [_ H]]; discriminate].
    - unfold verify_single. destruct s as [l re]. cbn.
      destruct (memN l (c_members c)) eqn:Em; cbn.
      + destruct re as [[j h]|]; cbn.
        * destruct (N.eqb_spec j l); cbn.
          -- destruct (N.eqb_spec h (b_hash b)); cbn.
             ++ subst. split.
                ** intros [E|[]]. subst. apply memN_In in Em. auto.
                ** intros [_ [_ H]]. inversion H. now left.
             ++ split; [intros []|intros [_ [_ H]]; inversion H; subst; contradiction].
          -- split; [intros []|intros [_ [_ H]]; inversion H; subst; contradiction].
        * split; [intros []|intros [_ [_ H]]; discriminate].
      + split; [intros []|]. intros [_ [Hm H]]. inversion H; subst. apply memN_In in Hm. congruence.
    - split; [intros []|intros [_ [_ H]]; discriminate].
  Qed.

  Lemma voters_spec : forall es i, In i (voters es) <-> exists v, In (EVote v) es /\ valid_vote v i.
  Proof.
    intros es i. unfold voters. rewrite in_flat_map. split.
    - intros [e [He Hi]]. destruct e as [v| | |]; cbn in Hi; try contradiction.
      exists v. split; [assumption|]. now apply valid_for_spec.
    - intros [v [He Hv]]. exists (EVote v). split; [assumption|]. cbn. now apply valid_for_spec.
  Qed.

  (* valid votes for b from a quorum of distinct members are among the stimuli *)
  Definition quorum_arrived (es : list event) : Prop :=
    exists T, NoDup T /\ qsize c <= length T /\
              forall i, In i T -> exists v, In (EVote v) es /\ valid_vote v i.

  Lemma quorum_arrived_Qr : forall es, quorum_arrived es <-> Qr (voters es).
  Proof.
    intros es. split; intros [T [Hn H]].
    - destruct H as [Hl Hi]. exists T. repeat split; auto. intros i Ht. apply voters_spec. now apply Hi.
    - destruct H as [Hi Hl]. exists T. repeat split; auto. intros i Ht. apply voters_spec. now apply Hi.
  Qed.

  Definition emitted_for (outs : list (list qcert)) : Prop :=
    exists o q, In o outs /\ In q o /\ q_hash q = b_hash b.

  Lemma emitted_for_iff : forall outs, emitted_for outs <-> emitted outs.
  Proof.
    intros. split.
    - intros [o [q [Ho [Hi Hh]]]]. exists o. split; [assumption|]. now exists q.
    - intros [o [Ho [q [Hi Hh]]]]. now exists o, q.
  Qed.

  Lemma In_local_get : forall s, Forall cons s -> (In b s <-> local_get s (b_hash b) = Some b).
  Proof.
    intros s Hc. split.
    - intros Hi. destruct (local_get s (b_hash b)) as [x|] eqn:E.
      + apply local_get_hash in E. destruct E as [Eh Ei]. rewrite Forall_forall in Hc. now rewrite (Hc x Ei Eh).
      + exfalso. unfold local_get in E. apply (find_none _ _ E) in Hi. now rewrite N.eqb_refl in Hi.
    - intros E. apply local_get_hash in E. apply E.
  Qed.

  Theorem qc_iff_quorum : forall store high es st' outs,
    Forall cons store -> (high < b_view b)%N -> Forall ev_ok es -> props_ok (In b store) es ->
    run c (init store high) es = (st', outs) ->
    (emitted_for outs <-> ((In b store \/ In (EPropose b) es) /\ quorum_arrived es)).
  Proof.
    intros store high es st' outs Hc Hh Hok Hp H.
    rewrite emitted_for_iff, quorum_arrived_Qr.
    destruct (local_get store (b_hash b)) as [x|] eqn:E.
    - assert (Ex : x = b).
      { apply local_get_hash in E. destruct E as [Eh Ei]. rewrite Forall_forall in Hc. now apply Hc. }
      subst x.
      assert (HK : K (init store high) []).
      { constructor; cbn; auto; try (now constructor); try tauto; try lia. }
      rewrite (run_K _ _ _ _ _ HK Hok H). cbn [app]. split; [|tauto].
      intros HQ. split; [left; now apply In_local_get|assumption].
    - assert (HU : U (init store high) []).
      { constructor; cbn; auto; try (now constructor); try tauto. }
      assert (Hnb : ~ In b store).
      { intros Hi. apply In_local_get in Hi; [|assumption]. congruence. }
      assert (Hp2 : props_ok False es) by (eapply props_ok_mono; [|exact Hp]; exact Hnb).
      rewrite (run_U _ _ _ _ _ HU Hok Hp2 H). cbn [app]. tauto.
  Qed.

  (* stated for every prefix this is "at the first such stimulus and not before": *)
  Lemma run_app : forall es1 es2 st,
    run c st (es1 ++ es2) =
    let '(st1, o1) := run c st es1 in let '(st2, o2) := run c st1 es2 in (st2, o1 ++ o2).
  Proof.
    induction es1 as [|e es1 IH]; intros es2 st; cbn [run app].
    - now destruct (run c st es2).
    - destruct (step c st e) as [st1 o]. rewrite IH. destruct (run c st1 es1) as [st2 o1].
      now destruct (run c st2 es2).
  Qed.

  Lemma Forall_app_l : forall (A : Type) (P : A -> Prop) l1 l2, Forall P (l1 ++ l2) -> Forall P l1.
  Proof. intros A P l1 l2 H. apply Forall_app in H. apply H. Qed.
  Lemma props_ok_app_l : forall es1 es2 kn, props_ok kn (es1 ++ es2) -> props_ok kn es1.
  Proof.
    induction es1 as [|e es1 IH]; cbn; intros es2 kn H; [exact I|].
    destruct e; try (eapply IH; eassumption). destruct H as [H1 H2]. split; [assumption|]. eapply IH; eassumption.
  Qed.

  Theorem qc_first_step : forall store high es e st' outs o,
    Forall cons store -> (high < b_view b)%N -> Forall ev_ok (es ++ [e]) -> props_ok (In b store) (es ++ [e]) ->
    run c (init store high) (es ++ [e]) = (st', outs ++ [o]) -> length outs = length es ->
    let cond l := (In b store \/ In (EPropose b) l) /\ quorum_arrived l in
    ((has_qc o /\ ~ emitted_for outs) <-> (cond (es ++ [e]) /\ ~ cond es)).
  Proof.
    intros store high es e st' outs o Hc Hh Hok Hp H Hlen cond.
    pose proof (qc_iff_quorum _ _ _ _ _ Hc Hh Hok Hp H) as Hall.
    rewrite run_app in H. destruct (run c (init store high) es) as [st1 o1] eqn:E1.
    destruct (run c st1 [e]) as [st2 o2] eqn:E2.
    assert (Hl1 : length o1 = length es).
    { clear -E1. revert st1 o1 E1. generalize (init store high). induction es as [|x es IH]; cbn [run]; intros s st1 o1 E.
      - now inversion E.
      - destruct (step c s x) as [s1 ox]. destruct (run c s1 es) as [s2 os] eqn:E2. inversion E; subst. cbn. f_equal. eapply IH; eauto. }
    assert (Eo : outs = o1 /\ [o] = o2).
    { inversion H as [[Es Eo]]. cbn [run] in E2.
      destruct (step c st1 e) as [s3 ox]. inversion E2; subst. apply app_inj_tail in Eo. destruct Eo; subst. auto. }
    destruct Eo as [Eo1 Eo2]. subst o1.
    pose proof (qc_iff_quorum _ _ _ _ _ Hc Hh (Forall_app_l _ _ _ _ Hok) (props_ok_app_l _ _ _ Hp) E1) as Hpre.
    fold (cond (es ++ [e])) in Hall. fold (cond es) in Hpre.
    assert (Hsplit : emitted_for (outs ++ [o]) <-> emitted_for outs \/ has_qc o).
    { split.
      - intros [o' [q [Ho [Hi Hq]]]]. apply in_app_or in Ho. destruct Ho as [Ho|[Ho|[]]].
        + left. now exists o', q.
        + subst o'. right. now exists q.
      - intros [[o' [q [Ho [Hi Hq]]]]|[q [Hi Hq]]].
        + exists o', q. split; [apply in_or_app; now left|auto].
        + exists o, q. split; [apply in_or_app; right; now left|auto]. }
    rewrite <- Hall, <- Hpre, Hsplit. tauto.
  Qed.

  (* ---------- additional votes never remove or delay the certificate ---------- *)
  (* [inserted a d]: d is a with further votes (of any kind, from anybody) put in anywhere *)
  Inductive inserted : list event -> list event -> Prop :=
  | ins_nil : inserted [] []
  | ins_keep : forall e a d, inserted a d -> inserted (e :: a) (e :: d)
  | ins_vote : forall v a d, inserted a d -> inserted a (EVote v :: d).

  Lemma inserted_incl : forall a d, inserted a d -> incl a d.
  Proof.
    induction 1; intros x Hx; auto.
    - destruct Hx as [E|Hx]; [now left|right; now apply IHinserted].
    - right. now apply IHinserted.
  Qed.
  Lemma inserted_ok : forall a d, inserted a d -> Forall ev_ok a -> Forall ev_ok d.
  Proof.
    induction 1; intros Ha; auto.
    - inversion Ha; subst. constructor; auto.
    - constructor; [exact I|auto].
  Qed.
  Lemma inserted_props : forall a d, inserted a d -> forall kn, props_ok kn a -> props_ok kn d.
  Proof.
    induction 1; intros kn Hp; auto.
    - destruct e; cbn in *; auto. destruct Hp as [H1 H2]. split; auto.
    - cbn. auto.
  Qed.
  Lemma voters_incl : forall a d, incl a d -> incl (voters a) (voters d).
  Proof.
    intros a d Hi i H. unfold voters in *. rewrite in_flat_map in *. destruct H as [e [He Hv]].
    exists e. split; [now apply Hi|assumption].
  Qed.

  Theorem hostile_votes_inert : forall store high es es' st1 o1 st2 o2,
    Forall cons store -> (high < b_view b)%N -> Forall ev_ok es -> props_ok (In b store) es ->
    inserted es es' ->
    run c (init store high) es = (st1, o1) -> run c (init store high) es' = (st2, o2) ->
    emitted_for o1 -> emitted_for o2.
  Proof.
    intros store high es es' st1 o1 st2 o2 Hc Hh Hok Hp Hins H1 H2 He.
    apply (qc_iff_quorum _ _ _ _ _ Hc Hh Hok Hp H1) in He. destruct He as [Hk HQ].
    apply (qc_iff_quorum _ _ _ _ _ Hc Hh (inserted_ok _ _ Hins Hok) (inserted_props _ _ Hins _ Hp) H2).
    pose proof (inserted_incl _ _ Hins) as Hi. split.
    - destruct Hk as [Hk|Hk]; [now left|right; now apply Hi].
    - apply quorum_arrived_Qr. apply quorum_arrived_Qr in HQ. eapply Qr_incl; [|exact HQ]. now apply voters_incl.
  Qed.

  (* any arrival order (hence any completion order of the verification goroutines, each critical
     section being atomic): whether the certificate exists does not depend on the order *)
  Theorem order_irrelevant : forall store high es es' st1 o1 st2 o2,
    Forall cons store -> (high < b_view b)%N -> Forall ev_ok es ->
    props_ok (In b store) es -> props_ok (In b store) es' -> Permutation es es' ->
    run c (init store high) es = (st1, o1) -> run c (init store high) es' = (st2, o2) ->
    (emitted_for o1 <-> emitted_for o2).
  Proof.
    intros store high es es' st1 o1 st2 o2 Hc Hh Hok Hp Hp' Hperm H1 H2.
    assert (Hok' : Forall ev_ok es') by (eapply Permutation_Forall; eassumption).
    rewrite (qc_iff_quorum _ _ _ _ _ Hc Hh Hok Hp H1), (qc_iff_quorum _ _ _ _ _ Hc Hh Hok' Hp' H2).
    rewrite !quorum_arrived_Qr.
    assert (Hi1 : incl es es') by (intros x; now apply Permutation_in).
    assert (Hi2 : incl es' es) by (intros x; apply Permutation_in; now apply Permutation_sym).
    split; intros [[Hk|Hk] HQ]; (split; [auto|eapply Qr_incl; [apply voters_incl|exact HQ]; assumption]).
  Qed.

  (* ---------- the fetch path: other replicas can provide b ----------
     A vote naming a block that is not known locally waits for the next proposal; if that proposal is not
     b's own, CollectVote retries through blockchain.Get, which fetches b.  With b obtainable
     ([Hfetch]) no vote for b is ever lost and the exactness statement holds for EVERY sequence, b becoming
     known either by its own proposal or by the first proposal handled while a vote naming b waits. *)
  Hypothesis Hfetch : local_get (c_remote c) (b_hash b) = Some b.

  Definition names_b (v : vote) : bool := N.eqb (v_hash v) (b_hash b).

  (* kn: b is known; w: (while unknown) a vote naming b waits for the next proposal *)
  Fixpoint becomes_known (kn w : bool) (es : list event) : bool :=
    match es with
    | [] => kn
    | EVote v :: r => becomes_known kn (w || names_b v) r
    | EPropose x :: r => becomes_known (kn || N.eqb (b_hash x) (b_hash b) || w) false r
    | EHigh _ :: r => becomes_known kn w r
    | ETC _ :: r => becomes_known kn w r
    end.

  Lemma becomes_known_true : forall es w, becomes_known true w es = true.
  Proof. induction es as [|e es IH]; intros w; cbn; [reflexivity|]. destruct e; cbn; auto. Qed.

  (* the state while the delayed votes are being re-delivered and b is still unknown *)
  Record U0 (st : vstate) : Prop := mkU0 {
    z_high : (st_high st < b_view b)%N;
    z_cons : Forall cons (st_store st);
    z_bok : buckets_ok c (st_verified st);
    z_unknown : local_get (st_store st) (b_hash b) = None;
    z_empty : lookup (st_verified st) (b_hash b) = [];
    z_def : st_deferred st = [] }.

  Lemma collect_U0_foreign : forall st v st' o, U0 st -> v_hash v <> b_hash b ->
    collect_vote c st v true = (st', o) -> ~ has_qc o /\ U0 st'.
  Proof.
    intros st v st' o HU Hd H. unfold collect_vote in H. cbn [negb] in H.
    destruct (get c (st_store st) (v_hash v)) as [[x|] s'] eqn:Eg.
    - destruct (get_cons _ _ _ _ Eg) as [Hx [e [Es He]]]. subst s'.
      assert (Hun : local_get (st_store st ++ e) (b_hash b) = None).
      { rewrite local_get_app_none by apply HU. unfold get in Eg.
        destruct (local_get (st_store st) (v_hash v)) eqn:E1.
        - inversion Eg as [[E2 E3]]. apply (f_equal (@length binfo)) in E3. rewrite app_length in E3.
          destruct e; [reflexivity|cbn in E3; lia].
        - destruct (local_get (c_remote c) (v_hash v)) eqn:E2; inversion Eg as [[E3 E4]]; subst.
          apply app_inv_head in E4. subst e. unfold local_get. cbn.
          destruct (N.eqb_spec (b_hash x) (b_hash b)); [congruence|reflexivity]. }
      set (st2 := mkSt (st_store st ++ e) (st_high st) (st_deferred st) (st_verified st)) in *.
      assert (HU2 : U0 st2).
      { destruct HU as [H1 H2 H3 H4 H5 H6]. constructor; cbn; auto. apply Forall_app. now split. }
      destruct (N.leb (b_view x) (st_high st)).
      + inversion H; subst. split; [apply has_qc_nil|assumption].
      + destruct (vc_frame _ _ _ _ _ _ H) as [E1 [E2 E3]].
        destruct (vc_ok c Hpatched _ _ _ _ _ H (z_bok _ HU2) Hx) as [Hb Hqs].
        split.
        * intros [q [Hi Hh]]. rewrite Forall_forall in Hqs. destruct (Hqs q Hi) as [_ [Eh _]]. congruence.
        * assert (El2 : lookup (st_verified st') (b_hash b) = []).
          { destruct (vc_other _ _ _ _ _ (b_hash b) H Hd) as [Ea|[_ Ea]]; [|assumption].
            rewrite Ea. apply HU2. }
          destruct HU2 as [H1 H2 H3 H4 H5 H6]. constructor; try rewrite E1; try rewrite E2; try rewrite E3; auto.
    - inversion H; subst. split; [apply has_qc_nil|assumption].
  Qed.

  Lemma K_of_U0 : forall st, U0 st ->
    K (mkSt (st_store st ++ [b]) (st_high st) (st_deferred st) (st_verified st)) [].
  Proof.
    intros st [H1 H2 H3 H4 H5 H6]. constructor; cbn; auto.
    - apply Forall_app. split; [assumption|]. constructor; [now intros _|constructor].
    - unfold known. cbn. rewrite local_get_app_none by assumption. unfold local_get. cbn. now rewrite N.eqb_refl.
    - rewrite H6. constructor.
    - rewrite H5. cbn. tauto.
    - rewrite H5. cbn. lia.
  Qed.

  Lemma collect_U0_target : forall st v st' o, U0 st -> v_hash v = b_hash b ->
    collect_vote c st v true = (st', o) ->
    (has_qc o /\ Qr (valid_for v)) \/ (~ has_qc o /\ K st' (valid_for v)).
  Proof.
    intros st v st' o HU Hh H. unfold collect_vote in H. cbn [negb] in H.
    unfold get in H. rewrite Hh, (z_unknown _ HU), Hfetch in H.
    assert (Hhi : N.leb (b_view b) (st_high st) = false) by (apply N.leb_gt; apply HU).
    rewrite Hhi in H. pose proof (K_of_U0 _ HU) as HK.
    destruct (vc_target _ _ _ _ _ HK Hh H) as [R|R]; cbn [app] in R; auto.
  Qed.

  Lemma names_b_false : forall v, names_b v = false -> v_hash v <> b_hash b.
  Proof. intros v H E. unfold names_b in H. rewrite E, N.eqb_refl in H. discriminate. Qed.
  Lemma names_b_true : forall v, names_b v = true -> v_hash v = b_hash b.
  Proof. intros v H. now apply N.eqb_eq. Qed.

  Lemma feed_U0 : forall vs st st' o, U0 st -> feed c st vs = (st', o) ->
    if existsb names_b vs
    then (has_qc o /\ Qr (vote_voters vs)) \/ (~ has_qc o /\ K st' (vote_voters vs))
    else ~ has_qc o /\ U0 st'.
  Proof.
    induction vs as [|v vs IH]; cbn [feed existsb vote_voters flat_map]; intros st st' o HU H.
    - inversion H; subst. split; [apply has_qc_nil|assumption].
    - destruct (collect_vote c st v true) as [st1 o1] eqn:E1.
      destruct (feed c st1 vs) as [st2 o2] eqn:E2. inversion H; subst.
      destruct (names_b v) eqn:En; cbn [orb].
      + destruct (collect_U0_target _ _ _ _ HU (names_b_true _ En) E1) as [[Hq1 HQ]|[Hn1 HK1]].
        * left. split; [apply has_qc_app; now left|]. eapply Qr_incl; [|exact HQ]. apply incl_appl, incl_refl.
        * destruct (feed_K _ _ _ _ _ HK1 E2) as [[Hq2 HQ]|[Hn2 HK2]].
          -- left. split; [apply has_qc_app; now right|assumption].
          -- right. split; [|assumption]. intros Hq. apply has_qc_app in Hq. tauto.
      + destruct (collect_U0_foreign _ _ _ _ HU (names_b_false _ En) E1) as [Hn1 HU1].
        rewrite (valid_for_other v (names_b_false _ En)). cbn [app].
        specialize (IH _ _ _ HU1 E2). destruct (existsb names_b vs).
        * destruct IH as [[Hq2 HQ]|[Hn2 HK2]].
          -- left. split; [apply has_qc_app; now right|assumption].
          -- right. split; [|assumption]. intros Hq. apply has_qc_app in Hq. tauto.
        * destruct IH as [Hn2 HU2]. split; [|assumption]. intros Hq. apply has_qc_app in Hq. tauto.
  Qed.

  (* U with the waiting flag *)
  Definition UW (st : vstate) (P : list rid) (w : bool) : Prop :=
    U st P /\ existsb names_b (st_deferred st) = w.

  Lemma existsb_app_single : forall (f : vote -> bool) l v, existsb f (l ++ [v]) = existsb f l || f v.
  Proof. intros. rewrite existsb_app. cbn. now rewrite orb_false_r. Qed.

  Lemma vote_voters_none : forall vs, existsb names_b vs = false -> vote_voters vs = [].
  Proof.
    intros vs H. apply vote_voters_other. apply Forall_forall. intros v Hv.
    apply names_b_false. destruct (names_b v) eqn:E; [|reflexivity].
    assert (existsb names_b vs = true) by (apply existsb_exists; now exists v). congruence.
  Qed.

  Lemma step_UW : forall st P w e st' o, UW st P w -> ev_ok e -> step c st e = (st', o) ->
    let kn' := match e with EPropose x => N.eqb (b_hash x) (b_hash b) || w | _ => false end in
    let w' := match e with EVote v => w || names_b v | EPropose _ => false | _ => w end in
    (has_qc o /\ Qr (P ++ ev_voters e) /\ kn' = true) \/
    (~ has_qc o /\ ((K st' (P ++ ev_voters e) /\ kn' = true) \/ (UW st' (P ++ ev_voters e) w' /\ kn' = false))).
  Proof.
    intros st P w e st' o [HU Hw] He H. subst w. destruct e as [v|x|x|tv]; cbn [step ev_voters] in *; cbn zeta;
      [| | |inversion H; subst; right; rewrite app_nil_r; split; [apply has_qc_nil|]; right; split; [split; [assumption|reflexivity]|reflexivity]].
    - right. destruct (collect_U _ _ _ _ _ HU H) as [Hn HU']. split; [assumption|]. right. split; [|reflexivity].
      split; [assumption|]. unfold collect_vote in H. cbn [negb] in H.
      destruct (local_get (st_store st) (v_hash v)) as [y|] eqn:El.
      + assert (En : names_b v = false).
        { unfold names_b. destruct (N.eqb_spec (v_hash v) (b_hash b)) as [E|E]; [|reflexivity].
          rewrite E, (u_unknown _ _ HU) in El. discriminate. }
        rewrite En, orb_false_r.
        destruct (N.leb (b_view y) (st_high st)); [inversion H; subst; reflexivity|].
        destruct (vc_frame _ _ _ _ _ _ H) as [_ [_ E3]]. now rewrite E3.
      + inversion H; subst. cbn. now rewrite existsb_app_single.
    - rewrite app_nil_r.
      destruct (N.eqb_spec (b_hash x) (b_hash b)) as [Ex|Ex]; cbn [orb].
      + (* b's own proposal *)
        apply He in Ex. subst x.
        destruct (step_U _ _ (EPropose b) _ _ HU He eq_refl H) as [[Hq [HQ _]]|[Hn [[HK _]|[_ Hb]]]];
          cbn [ev_voters] in *; rewrite ?app_nil_r in *.
        * left. auto.
        * right. split; [assumption|]. left. auto.
        * exfalso. apply Hb. reflexivity.
      + (* a foreign proposal: the delayed votes are re-delivered through the fetch *)
        destruct (store_block_cons (st_store st) x He) as [e [Es Hce]]. rewrite Es in H.
        assert (Hun : local_get (st_store st ++ e) (b_hash b) = None).
        { rewrite local_get_app_none by apply HU. unfold store_block in Es.
          destruct (local_get (st_store st) (b_hash x)).
          - apply (f_equal (@length binfo)) in Es. rewrite app_length in Es. destruct e; [reflexivity|cbn in Es; lia].
          - apply app_inv_head in Es. subst e. unfold local_get. cbn.
            destruct (N.eqb_spec (b_hash x) (b_hash b)); [contradiction|reflexivity]. }
        assert (HU0 : U0 (mkSt (st_store st ++ e) (st_high st) [] (st_verified st))).
        { destruct HU as [H1 H2 H3 H4 H5 H6]. constructor; cbn; auto. apply Forall_app. now split. }
        pose proof (feed_U0 _ _ _ _ HU0 H) as HF. destruct (existsb names_b (st_deferred st)) eqn:Hw.
        * destruct HF as [[Hq HQ]|[Hn HK]].
          -- left. split; [assumption|]. split; [|reflexivity]. eapply Qr_incl; [|exact HQ]. intros i. apply (u_set _ _ HU).
          -- right. split; [assumption|]. left. split; [|reflexivity].
             eapply K_equiv; [|exact HK]. intros i. apply (u_set _ _ HU).
        * destruct HF as [Hn HU1]. right. split; [assumption|]. right. split; [|reflexivity].
          assert (Hp0 : forall i, ~ In i P).
          { intros i Hi. apply (u_set _ _ HU) in Hi. rewrite (vote_voters_none _ Hw) in Hi. destruct Hi. }
          destruct HU1 as [H1 H2 H3 H4 H5 H6]. split.
          -- constructor; auto. intros i. rewrite H6. cbn. split; [intros []|intros Hi; now apply Hp0 in Hi].
          -- now rewrite H6.
    - destruct (step_U _ _ (EHigh x) _ _ HU He I H) as [[_ [_ Hb]]|[Hn [[_ Hb]|[HU1 _]]]]; try discriminate Hb.
      right. split; [assumption|]. right. split; [|reflexivity]. split; [assumption|].
      inversion H; subst. reflexivity.
  Qed.

  Lemma run_UW : forall es st P w st' outs, UW st P w -> Forall ev_ok es ->
    run c st es = (st', outs) ->
    (emitted outs <-> (becomes_known false w es = true /\ Qr (P ++ voters es))).
  Proof.
    induction es as [|e es IH]; cbn [run]; intros st P w st' outs HU Hok H.
    - inversion H; subst. cbn. split; [intros [o [[] _]]|intros [Hf _]; discriminate].
    - destruct (step c st e) as [st1 o] eqn:E1. destruct (run c st1 es) as [st2 os] eqn:E2.
      inversion H; subst. inversion Hok; subst. rewrite emitted_cons, voters_cons, app_assoc.
      pose proof (step_UW _ _ _ _ _ _ HU H2 E1) as HS. cbn zeta in HS.
      assert (Hbk : becomes_known false w (e :: es) =
                    becomes_known (match e with EPropose x => N.eqb (b_hash x) (b_hash b) || w | _ => false end)
                                  (match e with EVote v => w || names_b v | EPropose _ => false | _ => w end) es).
      { destruct e; reflexivity. }
      rewrite Hbk.
      destruct HS as [[Hq [HQ Hk]]|[Hn [[HK1 Hk]|[HU1 Hk]]]]; rewrite Hk.
      + rewrite becomes_known_true. split; [intros _|now left]. split; [reflexivity|].
        eapply Qr_incl; [|exact HQ]. apply incl_appl, incl_refl.
      + rewrite becomes_known_true. pose proof (run_K _ _ _ _ _ HK1 H3 E2) as HR. split.
        * intros [Hc|He]; [contradiction|]. split; [reflexivity|now apply HR].
        * intros [_ Hr]. right. now apply HR.
      + pose proof (IH _ _ _ _ _ HU1 H3 E2) as HR. split.
        * intros [Hc|He]; [contradiction|]. now apply HR.
        * intros Hr. right. now apply HR.
  Qed.

  Theorem qc_iff_quorum_fetch : forall store high es st' outs,
    Forall cons store -> (high < b_view b)%N -> Forall ev_ok es ->
    run c (init store high) es = (st', outs) ->
    (emitted_for outs <->
     (becomes_known (match local_get store (b_hash b) with Some _ => true | None => false end) false es = true
      /\ quorum_arrived es)).
  Proof.
    intros store high es st' outs Hc Hh Hok H.
    rewrite emitted_for_iff, quorum_arrived_Qr.
    destruct (local_get store (b_hash b)) as [x|] eqn:E.
    - assert (Ex : x = b).
      { apply local_get_hash in E. destruct E as [Eh Ei]. rewrite Forall_forall in Hc. now apply Hc. }
      subst x.
      assert (HK : K (init store high) []).
      { constructor; cbn; auto; try (now constructor); try tauto; try lia. }
      rewrite (run_K _ _ _ _ _ HK Hok H), becomes_known_true. cbn [app]. tauto.
    - assert (HU : UW (init store high) [] false).
      { split; [|reflexivity]. constructor; cbn; auto; try (now constructor); try tauto. }
      rewrite (run_UW _ _ _ _ _ _ HU Hok H). cbn [app]. tauto.
  Qed.
End Target.

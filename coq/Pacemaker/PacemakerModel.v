(* C07 — executable model of the pacemaker projection of a replica:
     /repo/protocol/synchronizer/synchronizer.go      advanceView (called by OnNewView, OnRemoteTimeout twice,
                                                      and the ProposeMsg handler)
     /repo/protocol/synchronizer/timeoutrule_simple.go     Simple.VerifySyncInfo
     /repo/protocol/synchronizer/timeoutrule_aggregate.go  Aggregate.VerifySyncInfo
     /repo/protocol/viewstates.go                     UpdateHighQC, UpdateHighTC, NextView, UpdateCommittedBlock
     /repo/protocol/consensus/committer.go            commit / commitInner (the only caller of UpdateCommittedBlock)
   Definitions only.

   The outside world enters as data:
     * the verdicts of cert.Authority.VerifyQuorumCert / VerifyTimeoutCert / VerifyAggregateQC
       ([q_ok], [t_ok], [a_ok]); their link to real signatures is C02's soundness theorem;
     * what blockchain.Get answers for the certified block ([q_bview]);
     * the decision of the consensus rules' CommitRule, as the ancestor chain of the block to commit.
   A replica's pacemaker history is a list of [action]s; the correspondence harness records the
   actions the Go handlers really perform (one [AAdvance] per advanceView call, one [ACommit] per
   non-nil CommitRule decision) and compares the state after every stimulus. *)
From HS Require Import Base.Prelude.
Open Scope N_scope.

Inductive trule : Type := Simple | Aggregate.         (* RuntimeConfig.HasAggregateQC() *)

Definition genesis_hash : hash := 1.                   (* interned hotstuff.GetGenesis().Hash() *)

(* a quorum certificate as the pacemaker sees it *)
Record qc_in : Type := mkQC {
  q_hash  : hash;               (* qc.BlockHash() *)
  q_label : view;               (* qc.View(): the view the certificate states *)
  q_ok    : bool;               (* VerifyQuorumCert(qc) == nil *)
  q_bview : option view         (* blockchain.Get(qc.BlockHash()): the certified block's view if available *)
}.
Record tc_in : Type := mkTC { t_view : view; t_ok : bool }.
(* aggregate QC: its view, VerifyAggregateQC's verdict and the high QC it returns when it succeeds *)
Record agg_in : Type := mkAgg { a_view : view; a_ok : bool; a_high : qc_in }.

Record sync_info : Type := mkSI { si_qc : option qc_in; si_tc : option tc_in; si_agg : option agg_in }.

(* (qc, view, timeout) as returned by VerifySyncInfo; Reject = the error return *)
Definition vsi : Type := (option qc_in * view * bool)%type.

(* common first half of both rules: the TC, if present *)
Definition verify_tc_part (si : sync_info) : result (view * bool) :=
  match si_tc si with
  | Some t => if t_ok t then Ok (t_view t, true) else Reject
  | None => Ok (0, false)
  end.

(* func (s *Simple) VerifySyncInfo *)
Definition verify_sync_info_simple (si : sync_info) : result vsi :=
  match verify_tc_part si with
  | Ok (v, tmo) =>
      match si_qc si with
      | Some q =>
          if q_ok q then
            (* if there is both a TC and a QC, the QC is used if its view is >= the TC's *)
            if v <=? q_label q then Ok (Some q, q_label q, false) else Ok (Some q, v, tmo)
          else Reject
      | None => Ok (None, v, tmo)
      end
  | _ => Reject
  end.

(* func (s *Aggregate) VerifySyncInfo — a plain QC is not looked at *)
Definition verify_sync_info_aggregate (si : sync_info) : result vsi :=
  match verify_tc_part si with
  | Ok (v, tmo) =>
      match si_agg si with
      | Some a =>
          if a_ok a then
            if v <=? a_view a then Ok (Some (a_high a), a_view a, true) else Ok (Some (a_high a), v, tmo)
          else Reject
      | None => Ok (None, v, tmo)
      end
  | _ => Reject
  end.

Definition verify_sync_info (r : trule) : sync_info -> result vsi :=
  match r with Simple => verify_sync_info_simple | Aggregate => verify_sync_info_aggregate end.

(* ViewStates: view, highQC (hash and stated view), highTC view, committed block's view *)
Record pm_state : Type := mkSt {
  st_view : view; st_hq_hash : hash; st_hq_view : view; st_htc : view; st_cview : view }.

(* NewViewStates *)
Definition init_state : pm_state := mkSt 1 genesis_hash 0 0 0.

(* func (s *ViewStates) UpdateHighQC: the certified BLOCK's view against the current high QC's view *)
Definition update_high_qc (st : pm_state) (q : qc_in) : pm_state * result bool :=
  match q_bview q with
  | None => (st, Reject)                                    (* block not found *)
  | Some bv =>
      if bv <=? st_hq_view st then (st, Ok false)
      else (mkSt (st_view st) (q_hash q) (q_label q) (st_htc st) (st_cview st), Ok true)
  end.

(* func (s *ViewStates) UpdateHighTC (called by advanceView with the sync info's verified TC) *)
Definition update_high_tc (st : pm_state) (v : view) : pm_state :=
  if st_htc st <? v then mkSt (st_view st) (st_hq_hash st) (st_hq_view st) v (st_cview st) else st.

Inductive event : Type :=
| EViewChange (v : view) (timeout : bool)      (* hotstuff.ViewChangeEvent *)
| ECommit (v : view).                          (* hotstuff.CommitEvent (view of the block) *)

(* func (s *Synchronizer) advanceView *)
Definition advance_view (r : trule) (st : pm_state) (si : sync_info) : pm_state * list event :=
  match verify_sync_info r si with
  | Ok (oq, v, tmo) =>
      let st0 := match oq with Some q => fst (update_high_qc st q) | None => st end in
      (* remember the highest verified TC (VerifySyncInfo has verified it), also when the sync info is
         too old to advance the view *)
      let st1 := match si_tc si with Some t => update_high_tc st0 (t_view t) | None => st0 end in
      if v <? st_view st1 then (st1, [])
      else
        let nv := st_view st1 + 1 in                       (* NextView *)
        (mkSt nv (st_hq_hash st1) (st_hq_view st1) (st_htc st1) (st_cview st1), [EViewChange nv tmo])
  | _ => (st, [])
  end.

(* committer.commitInner over the ancestor chain of the block to commit, given as the views of
   the block, its parent, its grandparent, ...; the list ends where blockchain.Get fails.
   Returns the views handed to UpdateCommittedBlock, in call order (ancestors first);
   None = "failed to locate block" (nothing was committed: the error surfaces before any update). *)
Fixpoint commit_inner (cb : view) (chain : list view) : option (list view) :=
  match chain with
  | [] => None
  | v :: rest =>
      if v <=? cb then Some []
      else match commit_inner cb rest with
           | None => None
           | Some l => Some (l ++ [v])
           end
  end.

Definition commit (st : pm_state) (chain : list view) : pm_state * list event :=
  match commit_inner (st_cview st) chain with
  | None => (st, [])
  | Some l =>
      (mkSt (st_view st) (st_hq_hash st) (st_hq_view st) (st_htc st) (last l (st_cview st)),
       map ECommit l)
  end.

(* what can happen to the pacemaker state *)
Inductive action : Type :=
| AAdvance (si : sync_info)        (* one call of advanceView *)
| AHighQC (q : qc_in)              (* a direct call of ViewStates.UpdateHighQC *)
| AHighTC (v : view)               (* a direct call of ViewStates.UpdateHighTC (outside advanceView) *)
| ACommit (chain : list view).     (* CommitRule returned a block with this ancestor chain *)

Definition step (r : trule) (st : pm_state) (a : action) : pm_state * list event :=
  match a with
  | AAdvance si => advance_view r st si
  | AHighQC q => (fst (update_high_qc st q), [])
  | AHighTC v => (update_high_tc st v, [])
  | ACommit ch => commit st ch
  end.

Fixpoint run (r : trule) (st : pm_state) (l : list action) : pm_state * list event :=
  match l with
  | [] => (st, [])
  | a :: rest =>
      let '(st1, e1) := step r st a in
      let '(st2, e2) := run r st1 rest in
      (st2, e1 ++ e2)
  end.

(* projections of the event list *)
Fixpoint view_changes (l : list event) : list (view * bool) :=
  match l with
  | [] => []
  | EViewChange v t :: r => (v, t) :: view_changes r
  | ECommit _ :: r => view_changes r
  end.
Fixpoint commits (l : list event) : list view :=
  match l with
  | [] => []
  | ECommit v :: r => v :: commits r
  | EViewChange _ _ :: r => commits r
  end.

(* "the sync info carries a verified certificate for a view >= v that the rule looks at" *)
Definition tc_evidence (si : sync_info) (v : view) : bool :=
  match si_tc si with Some t => t_ok t && (v <=? t_view t) | None => false end.
Definition qc_evidence (si : sync_info) (v : view) : bool :=
  match si_qc si with Some q => q_ok q && (v <=? q_label q) | None => false end.
Definition agg_evidence (si : sync_info) (v : view) : bool :=
  match si_agg si with Some a => a_ok a && (v <=? a_view a) | None => false end.
Definition evidence (r : trule) (si : sync_info) (v : view) : bool :=
  tc_evidence si v || match r with Simple => qc_evidence si v | Aggregate => agg_evidence si v end.

(* no certificate of the sync info verifies *)
Definition nothing_verifies (si : sync_info) : bool :=
  match si_qc si with Some q => negb (q_ok q) | None => true end &&
  match si_tc si with Some t => negb (t_ok t) | None => true end &&
  match si_agg si with Some a => negb (a_ok a) | None => true end.

(* the highest view a verified certificate of the action states (0 if none) *)
Definition cert_view_max (r : trule) (a : action) : view :=
  match a with
  | AAdvance si =>
      N.max (match si_tc si with Some t => if t_ok t then t_view t else 0 | None => 0 end)
            (match r with
             | Simple => match si_qc si with Some q => if q_ok q then q_label q else 0 | None => 0 end
             | Aggregate => match si_agg si with Some a => if a_ok a then a_view a else 0 | None => 0 end
             end)
  | _ => 0
  end.

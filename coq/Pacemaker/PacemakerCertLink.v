(* C07 <-> C02: the one fact about a true QC verdict that the pacemaker's high-QC monotonicity uses
   ([PacemakerProofs.qc_consistent]) follows from C02's model of the repaired VerifyQuorumCert. *)
From HS Require Import Base.Prelude Crypto.Symbolic Crypto.SchemeModel Cert.CertModel Pacemaker.PacemakerModel Pacemaker.PacemakerProofs.
Open Scope N_scope.

Section Link.
  Variable c : cfg.
  Variable st : store.
  (* blockchain.New stores the genesis block (view 0) *)
  Hypothesis genesis_stored : exists b, st (c_genesis c) = Some b /\ bi_view b = 0.

  (* the pacemaker's view of a certificate, with the verdict and block lookup of C02's model *)
  Definition pm_qc (q : qc) : qc_in :=
    mkQC (qc_hash q) (qc_view q) (qc_valid c st q) (option_map bi_view (st (qc_hash q))).

  Lemma verified_qc_consistent : forall q, q_ok (pm_qc q) = true -> qc_consistent (pm_qc q).
  Proof.
    intros q H bv Hb. cbn in *. unfold qc_valid, verify_qc in H.
    destruct (N.eqb (qc_hash q) (c_genesis c)) eqn:EG.
    - apply N.eqb_eq in EG. rewrite EG in Hb. destruct genesis_stored as (b & E1 & E2).
      rewrite E1 in Hb. cbn in Hb. inversion Hb; subst.
      destruct (N.eqb (qc_view q) 0) eqn:EV; [|discriminate]. apply N.eqb_eq in EV. congruence.
    - destruct (qc_sig q) as [s|]; [|discriminate].
      destruct (Nat.ltb (part_len s) (qsize c)); [discriminate|].
      destruct (st (qc_hash q)) as [b|]; [|discriminate]. cbn in Hb. inversion Hb; subst.
      destruct (N.eqb (bi_view b) (qc_view q)) eqn:EV; [|discriminate]. apply N.eqb_eq in EV. exact EV.
  Qed.
End Link.

(* C07 — proofs about the pacemaker model (PacemakerModel.v). *)
From Coq Require Import ZifyBool ZifyN.
From HS Require Import Base.Prelude Pacemaker.PacemakerModel.
Open Scope N_scope.

(* ------------------------------------------------------------------------------------------ *)
(* Well-formedness of the data that stands for the outside world.

   [qc_consistent q]: whenever the certified block is available, its view is the view the QC states.
   For a QC whose verification verdict is true this is exactly what (the repaired)
   Authority.VerifyQuorumCert checks before accepting (C02, fixes/C02-qc-view.patch: "the view stated by
   the QC must be the block's view"; the genesis QC only with view 0 = the genesis block's view).
   The harness re-checks it on every high-QC change it observes. *)
Definition qc_consistent (q : qc_in) : Prop := forall bv, q_bview q = Some bv -> bv = q_label q.

Definition si_wf (si : sync_info) : Prop :=
  (forall q, si_qc si = Some q -> q_ok q = true -> qc_consistent q) /\
  (forall a, si_agg si = Some a -> a_ok a = true -> qc_consistent (a_high a)).

Definition action_wf (a : action) : Prop :=
  match a with
  | AAdvance si => si_wf si
  | AHighQC q => qc_consistent q
  | _ => True
  end.

(* consecutive views v, v+1, ..., k of them *)
Fixpoint views_from (v : view) (k : nat) : list view :=
  match k with O => [] | S k' => v :: views_from (v + 1) k' end.

Fixpoint max_list (l : list N) : N :=
  match l with [] => 0 | x :: r => N.max x (max_list r) end.

(* ------------------------------------------------------------------------------------------ *)
(* VerifySyncInfo *)

Lemma verify_tc_part_spec : forall si v tmo,
  verify_tc_part si = Ok (v, tmo) ->
  (si_tc si = None /\ v = 0 /\ tmo = false) \/
  (exists t, si_tc si = Some t /\ t_ok t = true /\ v = t_view t /\ tmo = true).
Proof.
  intros si v tmo. unfold verify_tc_part. destruct (si_tc si) as [t|].
  - destruct (t_ok t) eqn:E; [|discriminate]. intros H; inversion H; subst. right. exists t. auto.
  - intros H; inversion H; subst. left. auto.
Qed.

(* what a successful verification says about its view *)
Lemma verify_view_evidence : forall r si oq v tmo w,
  verify_sync_info r si = Ok (oq, v, tmo) -> 1 <= w -> w <= v -> evidence r si w = true.
Proof.
  intros r si oq v tmo w H Hw Hv. unfold evidence, tc_evidence, qc_evidence, agg_evidence.
  destruct r; cbn [verify_sync_info] in H;
    [unfold verify_sync_info_simple in H | unfold verify_sync_info_aggregate in H];
    destruct (verify_tc_part si) as [[v0 t0]| |] eqn:ET; try discriminate;
    apply verify_tc_part_spec in ET;
    destruct ET as [(E1 & E2 & E3) | (t & E1 & E2 & E3 & E4)]; rewrite E1; subst.
  - destruct (si_qc si) as [q|]; [destruct (q_ok q) eqn:EQ; [|discriminate]|].
    + destruct (0 <=? q_label q) eqn:EL; inversion H; subst; cbn; lia.
    + inversion H; subst. lia.
  - rewrite E2. destruct (si_qc si) as [q|]; [destruct (q_ok q) eqn:EQ; [|discriminate]|].
    + destruct (t_view t <=? q_label q) eqn:EL; inversion H; subst; cbn.
      * destruct (w <=? t_view t); cbn; lia.
      * lia.
    + inversion H; subst. cbn. lia.
  - destruct (si_agg si) as [a|]; [destruct (a_ok a) eqn:EQ; [|discriminate]|].
    + destruct (0 <=? a_view a) eqn:EL; inversion H; subst; cbn; lia.
    + inversion H; subst. lia.
  - rewrite E2. destruct (si_agg si) as [a|]; [destruct (a_ok a) eqn:EQ; [|discriminate]|].
    + destruct (t_view t <=? a_view a) eqn:EL; inversion H; subst; cbn.
      * destruct (w <=? t_view t); cbn; lia.
      * lia.
    + inversion H; subst. cbn. lia.
Qed.

(* the QC handed on to UpdateHighQC is one whose verdict is true *)
Lemma verify_qc_ok : forall r si q v tmo,
  verify_sync_info r si = Ok (Some q, v, tmo) ->
  match r with
  | Simple => si_qc si = Some q /\ q_ok q = true
  | Aggregate => exists a, si_agg si = Some a /\ a_ok a = true /\ q = a_high a
  end.
Proof.
  intros r si q v tmo H.
  destruct r; cbn [verify_sync_info] in H;
    [unfold verify_sync_info_simple in H | unfold verify_sync_info_aggregate in H];
    destruct (verify_tc_part si) as [[v0 t0]| |]; try discriminate.
  - destruct (si_qc si) as [q'|]; [|discriminate].
    destruct (q_ok q') eqn:EQ; [|discriminate].
    destruct (v0 <=? q_label q'); inversion H; subst; auto.
  - destruct (si_agg si) as [a|]; [|discriminate].
    destruct (a_ok a) eqn:EQ; [|discriminate]. exists a.
    destruct (v0 <=? a_view a); inversion H; subst; auto.
Qed.

Lemma nothing_verifies_rejects_or_zero : forall r si,
  nothing_verifies si = true ->
  verify_sync_info r si = Reject \/ (verify_sync_info r si = Ok (None, 0, false) /\ si_tc si = None).
Proof.
  intros r si H. unfold nothing_verifies in H.
  apply andb_prop in H; destruct H as [H H3]. apply andb_prop in H; destruct H as [H1 H2].
  destruct r; cbn [verify_sync_info];
    [unfold verify_sync_info_simple | unfold verify_sync_info_aggregate]; unfold verify_tc_part;
    destruct (si_tc si) as [t|].
  - destruct (t_ok t); [discriminate|]. left; reflexivity.
  - destruct (si_qc si) as [q|]; [destruct (q_ok q); [discriminate|]; left; reflexivity | right; split; reflexivity].
  - destruct (t_ok t); [discriminate|]. left; reflexivity.
  - destruct (si_agg si) as [a|]; [destruct (a_ok a); [discriminate|]; left; reflexivity | right; split; reflexivity].
Qed.

(* a TC that is present in a sync info that verified has verdict true *)
Lemma verify_tc_ok : forall r si oq v tmo t,
  verify_sync_info r si = Ok (oq, v, tmo) -> si_tc si = Some t -> t_ok t = true.
Proof.
  intros r si oq v tmo t H E.
  destruct r; cbn [verify_sync_info] in H;
    [unfold verify_sync_info_simple in H | unfold verify_sync_info_aggregate in H];
    unfold verify_tc_part in H; rewrite E in H; destruct (t_ok t); auto; discriminate.
Qed.

(* ------------------------------------------------------------------------------------------ *)
(* UpdateHighQC / UpdateHighTC *)

Lemma update_high_qc_frame : forall st q,
  let st' := fst (update_high_qc st q) in
  st_view st' = st_view st /\ st_htc st' = st_htc st /\ st_cview st' = st_cview st.
Proof.
  intros st q. unfold update_high_qc. destruct (q_bview q) as [bv|]; cbn; auto.
  destruct (bv <=? st_hq_view st); cbn; auto.
Qed.

Lemma update_high_qc_mono : forall st q, qc_consistent q ->
  st_hq_view st <= st_hq_view (fst (update_high_qc st q)).
Proof.
  intros st q Hc. unfold update_high_qc. destruct (q_bview q) as [bv|] eqn:E; cbn; [|lia].
  destruct (bv <=? st_hq_view st) eqn:EL; cbn; [lia|]. rewrite <- (Hc bv E). lia.
Qed.

(* what UpdateHighQC installs is the offered certificate, and only for a strictly higher block *)
Lemma update_high_qc_spec : forall st q,
  let st' := fst (update_high_qc st q) in
  (st_hq_hash st' = st_hq_hash st /\ st_hq_view st' = st_hq_view st) \/
  (exists bv, q_bview q = Some bv /\ st_hq_view st < bv /\ st_hq_hash st' = q_hash q /\ st_hq_view st' = q_label q).
Proof.
  intros st q. unfold update_high_qc. destruct (q_bview q) as [bv|]; cbn; auto.
  destruct (bv <=? st_hq_view st) eqn:EL; cbn; auto. right. exists bv. repeat split; auto. lia.
Qed.

Lemma update_high_tc_spec : forall st v,
  let st' := update_high_tc st v in
  st_view st' = st_view st /\ st_hq_hash st' = st_hq_hash st /\ st_hq_view st' = st_hq_view st /\
  st_cview st' = st_cview st /\ st_htc st' = N.max (st_htc st) v.
Proof.
  intros st v. unfold update_high_tc. destruct (st_htc st <? v) eqn:E; cbn; repeat split; lia.
Qed.

(* ------------------------------------------------------------------------------------------ *)
(* advanceView *)

(* the state after the high-QC and high-TC updates of advanceView *)
Definition after_certs (st : pm_state) (oq : option qc_in) (si : sync_info) : pm_state :=
  let st0 := match oq with Some q => fst (update_high_qc st q) | None => st end in
  match si_tc si with Some t => update_high_tc st0 (t_view t) | None => st0 end.

Lemma after_certs_frame : forall st oq si,
  let st1 := after_certs st oq si in
  st_view st1 = st_view st /\ st_cview st1 = st_cview st /\
  st_htc st1 = match si_tc si with Some t => N.max (st_htc st) (t_view t) | None => st_htc st end /\
  st_hq_view st1 = st_hq_view (match oq with Some q => fst (update_high_qc st q) | None => st end) /\
  st_hq_hash st1 = st_hq_hash (match oq with Some q => fst (update_high_qc st q) | None => st end).
Proof.
  intros st oq si. unfold after_certs.
  set (st0 := match oq with Some q => fst (update_high_qc st q) | None => st end).
  assert (F : st_view st0 = st_view st /\ st_htc st0 = st_htc st /\ st_cview st0 = st_cview st).
  { subst st0. destruct oq as [q|]; [apply update_high_qc_frame | auto]. }
  destruct F as (F1 & F2 & F3).
  destruct (si_tc si) as [t|]; cbn zeta.
  - pose proof (update_high_tc_spec st0 (t_view t)) as (A & B & C & D & E). cbn zeta in *.
    rewrite A, B, C, D, E, F1, F2, F3. auto.
  - auto.
Qed.

(* complete description of one advanceView call *)
Lemma advance_view_spec : forall r st si st' evs,
  advance_view r st si = (st', evs) ->
  st_cview st' = st_cview st /\
  (st_htc st' = st_htc st \/
   exists t, si_tc si = Some t /\ t_ok t = true /\ st_htc st < t_view t /\ st_htc st' = t_view t) /\
  ((st_view st' = st_view st /\ evs = []) \/
   (st_view st' = st_view st + 1 /\
    exists oq v tmo, verify_sync_info r si = Ok (oq, v, tmo) /\ st_view st <= v /\
                     evs = [EViewChange (st_view st') tmo])).
Proof.
  intros r st si st' evs. unfold advance_view.
  destruct (verify_sync_info r si) as [[[oq v] tmo]| |] eqn:EV;
    [| intros H; inversion H; subst; auto | intros H; inversion H; subst; auto].
  fold (after_certs st oq si).
  pose proof (after_certs_frame st oq si) as (F1 & F3 & F2 & _). cbn zeta in *.
  set (st1 := after_certs st oq si) in *.
  assert (HT : st_htc st1 = st_htc st \/
               exists t, si_tc si = Some t /\ t_ok t = true /\ st_htc st < t_view t /\ st_htc st1 = t_view t).
  { destruct (si_tc si) as [t|] eqn:ET; [|left; exact F2].
    destruct (N.le_gt_cases (t_view t) (st_htc st)) as [C | C]; [left; lia|].
    right. exists t. repeat split; auto; [eapply verify_tc_ok; eauto | lia]. }
  destruct (v <? st_view st1) eqn:EL; intros H; inversion H; subst; cbn.
  - repeat split; auto.
  - repeat split; auto. right. split; [lia|]. exists oq, v, tmo. repeat split; auto. lia.
Qed.

Lemma advance_view_hq : forall r st si, si_wf si ->
  st_hq_view st <= st_hq_view (fst (advance_view r st si)).
Proof.
  intros r st si [W1 W2]. unfold advance_view.
  destruct (verify_sync_info r si) as [[[oq v] tmo]| |] eqn:EV; cbn; try lia.
  fold (after_certs st oq si).
  pose proof (after_certs_frame st oq si) as (_ & _ & _ & F4 & _). cbn zeta in F4.
  assert (M : st_hq_view st <= st_hq_view (after_certs st oq si)).
  { rewrite F4. destruct oq as [q|]; [|lia]. apply update_high_qc_mono.
    pose proof (verify_qc_ok _ _ _ _ _ EV) as K. destruct r.
    - destruct K as [K1 K2]. eauto.
    - destruct K as (a & K1 & K2 & K3). subst q. eauto. }
  destruct (v <? _); cbn; exact M.
Qed.

(* ------------------------------------------------------------------------------------------ *)
(* commit *)

Lemma commit_inner_spec : forall cb ch l,
  commit_inner cb ch = Some l ->
  Forall (fun x => cb < x) l /\
  (l = [] \/ exists v rest, ch = v :: rest /\ cb < v /\ last l cb = v).
Proof.
  intros cb ch. induction ch as [|v rest IH]; intros l H; cbn in H; [discriminate|].
  destruct (v <=? cb) eqn:E.
  - inversion H; subst. split; [constructor | left; reflexivity].
  - destruct (commit_inner cb rest) as [l0|]; [|discriminate]. inversion H; subst.
    destruct (IH l0 eq_refl) as [F _]. split.
    + apply Forall_app. split; [exact F | constructor; [lia | constructor]].
    + right. exists v, rest. repeat split; [lia | apply last_last].
Qed.

Lemma commit_spec : forall st ch st' evs,
  commit st ch = (st', evs) ->
  st_view st' = st_view st /\ st_hq_hash st' = st_hq_hash st /\ st_hq_view st' = st_hq_view st /\
  st_htc st' = st_htc st /\
  ((st_cview st' = st_cview st /\ evs = []) \/
   (exists v rest, ch = v :: rest /\ st_cview st < v /\ st_cview st' = v /\
                   commits evs <> [] /\ last (commits evs) 0 = v /\ Forall (fun x => st_cview st < x) (commits evs))).
Proof.
  intros st ch st' evs. unfold commit.
  destruct (commit_inner (st_cview st) ch) as [l|] eqn:E; intros H; inversion H; subst; cbn; [|auto 10].
  repeat split; auto.
  destruct (commit_inner_spec _ _ _ E) as [F [L | (v & rest & C1 & C2 & C3)]].
  - subst l. cbn. left. auto.
  - right. exists v, rest.
    assert (CE : commits (map ECommit l) = l).
    { clear. induction l; cbn; [reflexivity | f_equal; assumption]. }
    rewrite CE. repeat split; auto.
    + intros ->. cbn in C3. lia.
    + destruct l as [|x l']; [cbn in C3; lia|].
      rewrite <- C3. clear. revert x. induction l' as [|y l' IH]; intros x; [reflexivity|].
      change (last (x :: y :: l') 0) with (last (y :: l') 0).
      change (last (x :: y :: l') (st_cview st)) with (last (y :: l') (st_cview st)). apply IH.
Qed.

(* ------------------------------------------------------------------------------------------ *)
(* one action *)

Lemma view_changes_app : forall a b, view_changes (a ++ b) = view_changes a ++ view_changes b.
Proof. induction a as [|[v t|v] a IH]; intros b; cbn; [reflexivity | f_equal; apply IH | apply IH]. Qed.

Lemma view_changes_commits : forall l, view_changes (map ECommit l) = [].
Proof. induction l; cbn; auto. Qed.

(* every way the view can change, in one statement *)
Lemma step_view_spec : forall r st a st' evs,
  step r st a = (st', evs) ->
  (st_view st' = st_view st /\ view_changes evs = []) \/
  (st_view st' = st_view st + 1 /\
   exists si oq v tmo, a = AAdvance si /\ verify_sync_info r si = Ok (oq, v, tmo) /\ st_view st <= v /\
                       view_changes evs = [(st_view st', tmo)]).
Proof.
  intros r st a st' evs H. destruct a as [si|q|v|ch]; cbn [step] in H.
  - destruct (advance_view_spec _ _ _ _ _ H) as (_ & _ & [[E1 E2] | [E1 (oq & v & tmo & E2 & E3 & E4)]]).
    + left. subst evs. auto.
    + right. split; [exact E1|]. exists si, oq, v, tmo. subst evs. cbn. auto.
  - inversion H; subst. left. split; [apply update_high_qc_frame | reflexivity].
  - inversion H; subst. left. split; [apply update_high_tc_spec | reflexivity].
  - destruct (commit_spec _ _ _ _ H) as (E1 & _). left. split; [exact E1|].
    unfold commit in H. destruct (commit_inner (st_cview st) ch); inversion H; subst; [apply view_changes_commits | reflexivity].
Qed.

Lemma step_monotone_unconditional : forall r st a st' evs,
  step r st a = (st', evs) ->
  st_view st <= st_view st' /\ st_htc st <= st_htc st' /\ st_cview st <= st_cview st'.
Proof.
  intros r st a st' evs H.
  assert (V : st_view st <= st_view st') by (destruct (step_view_spec _ _ _ _ _ H) as [[E _] | [E _]]; lia).
  split; [exact V|]. destruct a as [si|q|v|ch]; cbn [step] in H.
  - destruct (advance_view_spec _ _ _ _ _ H) as (E1 & [E2 | (t & _ & _ & E2 & E3)] & _); lia.
  - inversion H; subst. pose proof (update_high_qc_frame st q) as (_ & E1 & E2). cbn zeta in *. lia.
  - inversion H; subst. pose proof (update_high_tc_spec st v) as (_ & _ & _ & E1 & E2). cbn zeta in *. lia.
  - destruct (commit_spec _ _ _ _ H) as (_ & _ & _ & E1 & [[E2 _] | (v & rest & _ & E3 & E4 & _)]); lia.
Qed.

Lemma step_hq_monotone : forall r st a st' evs,
  action_wf a -> step r st a = (st', evs) -> st_hq_view st <= st_hq_view st'.
Proof.
  intros r st a st' evs W H. destruct a as [si|q|v|ch]; cbn [step] in H; cbn in W.
  - pose proof (advance_view_hq r st si W) as M. rewrite H in M. exact M.
  - inversion H; subst. apply update_high_qc_mono; exact W.
  - inversion H; subst. pose proof (update_high_tc_spec st v) as (_ & _ & E & _). cbn zeta in E. lia.
  - destruct (commit_spec _ _ _ _ H) as (_ & _ & E & _). lia.
Qed.

Theorem step_monotone : forall r st a st' evs,
  action_wf a -> step r st a = (st', evs) ->
  st_view st <= st_view st' /\ st_hq_view st <= st_hq_view st' /\
  st_htc st <= st_htc st' /\ st_cview st <= st_cview st'.
Proof.
  intros r st a st' evs W H.
  destruct (step_monotone_unconditional _ _ _ _ _ H) as (A & B & C).
  pose proof (step_hq_monotone _ _ _ _ _ W H). auto.
Qed.

(* without the label/block-view link the stated view of the high QC can go down: a genuine quorum on a
   block of view 5, relabelled 2, replaces a high QC of view 3 (this is what the unrepaired tree does) *)
Lemma hq_view_can_decrease_without_consistency :
  exists r st a st' evs, step r st a = (st', evs) /\ st_hq_view st' < st_hq_view st.
Proof.
  exists Simple, (mkSt 4 7 3 0 0),
    (AAdvance (mkSI (Some (mkQC 9 2 true (Some 5))) None None)).
  eexists. eexists. split; [vm_compute; reflexivity | vm_compute; reflexivity].
Qed.

Theorem advance_needs_evidence : forall r st a st' evs,
  1 <= st_view st -> step r st a = (st', evs) -> st_view st' <> st_view st ->
  exists si, a = AAdvance si /\ st_view st' = st_view st + 1 /\ evidence r si (st_view st) = true.
Proof.
  intros r st a st' evs P H N.
  destruct (step_view_spec _ _ _ _ _ H) as [[E _] | [E (si & oq & v & tmo & E1 & E2 & E3 & _)]]; [contradiction|].
  exists si. repeat split; auto. eapply verify_view_evidence; eauto.
Qed.

Theorem invalid_inert : forall r st si,
  1 <= st_view st -> nothing_verifies si = true -> step r st (AAdvance si) = (st, []).
Proof.
  intros r st si P H. cbn [step]. unfold advance_view.
  destruct (nothing_verifies_rejects_or_zero r si H) as [E | [E ET]]; rewrite E; [reflexivity|].
  rewrite ET. assert (L : (0 <? st_view st) = true) by lia. rewrite L. reflexivity.
Qed.

Theorem no_evidence_no_move : forall r st si st' evs,
  1 <= st_view st -> evidence r si (st_view st) = false -> step r st (AAdvance si) = (st', evs) ->
  st_view st' = st_view st /\ view_changes evs = [].
Proof.
  intros r st si st' evs P E H.
  destruct (step_view_spec _ _ _ _ _ H) as [K | [K (si' & oq & v & tmo & E1 & E2 & E3 & _)]]; [exact K|].
  inversion E1; subst si'. rewrite (verify_view_evidence _ _ _ _ _ _ E2 P E3) in E. discriminate.
Qed.

Theorem signals_every_change : forall r st a st' evs,
  step r st a = (st', evs) ->
  map fst (view_changes evs) = if st_view st' =? st_view st then [] else [st_view st'].
Proof.
  intros r st a st' evs H.
  destruct (step_view_spec _ _ _ _ _ H) as [[E1 E2] | [E1 (si & oq & v & tmo & _ & _ & _ & E2)]]; rewrite E2.
  - rewrite E1, N.eqb_refl. reflexivity.
  - assert (L : (st_view st' =? st_view st) = false) by lia. rewrite L. reflexivity.
Qed.

Lemma step_view_bound : forall r st a st' evs,
  1 <= st_view st -> step r st a = (st', evs) ->
  st_view st' <= N.max (st_view st) (1 + cert_view_max r a).
Proof.
  intros r st a st' evs P H.
  destruct (N.eq_dec (st_view st') (st_view st)) as [E | NE]; [lia|].
  destruct (advance_needs_evidence _ _ _ _ _ P H NE) as (si & -> & E1 & E2).
  assert (K : st_view st <= cert_view_max r (AAdvance si)); [|lia].
  unfold evidence, tc_evidence, qc_evidence, agg_evidence in E2. cbn [cert_view_max].
  destruct (si_tc si) as [t|]; [destruct (t_ok t)|]; destruct r;
    try (destruct (si_qc si) as [q|]; [destruct (q_ok q)|]);
    try (destruct (si_agg si) as [g|]; [destruct (a_ok g)|]); cbn in E2; lia.
Qed.

(* ------------------------------------------------------------------------------------------ *)
(* whole histories *)

Lemma run_cons : forall r st a l,
  run r st (a :: l) =
  let '(st1, e1) := step r st a in let '(st2, e2) := run r st1 l in (st2, e1 ++ e2).
Proof. reflexivity. Qed.

Theorem run_monotone : forall r l st st' evs,
  Forall action_wf l -> run r st l = (st', evs) ->
  st_view st <= st_view st' /\ st_hq_view st <= st_hq_view st' /\
  st_htc st <= st_htc st' /\ st_cview st <= st_cview st'.
Proof.
  intros r l. induction l as [|a l IH]; intros st st' evs W H.
  - inversion H; subst. lia.
  - rewrite run_cons in H. destruct (step r st a) as [st1 e1] eqn:E1.
    destruct (run r st1 l) as [st2 e2] eqn:E2. inversion H; subst.
    inversion W; subst.
    pose proof (step_monotone _ _ _ _ _ H2 E1). pose proof (IH _ _ _ H3 E2). lia.
Qed.

Theorem run_monotone_unconditional : forall r l st st' evs,
  run r st l = (st', evs) ->
  st_view st <= st_view st' /\ st_htc st <= st_htc st' /\ st_cview st <= st_cview st'.
Proof.
  intros r l. induction l as [|a l IH]; intros st st' evs H.
  - inversion H; subst. lia.
  - rewrite run_cons in H. destruct (step r st a) as [st1 e1] eqn:E1.
    destruct (run r st1 l) as [st2 e2] eqn:E2. inversion H; subst.
    pose proof (step_monotone_unconditional _ _ _ _ _ E1). pose proof (IH _ _ _ E2). lia.
Qed.

Lemma views_from_app : forall k1 k2 v,
  views_from v (k1 + k2) = views_from v k1 ++ views_from (v + N.of_nat k1) k2.
Proof.
  induction k1 as [|k1 IH]; intros k2 v; cbn [views_from Nat.add app].
  - f_equal. lia.
  - f_equal. rewrite IH. f_equal. f_equal. lia.
Qed.

(* the ViewChangeEvents of a history announce exactly the views entered, each once, in order *)
Theorem run_signals : forall r l st st' evs,
  run r st l = (st', evs) ->
  map fst (view_changes evs) = views_from (st_view st + 1) (N.to_nat (st_view st' - st_view st)).
Proof.
  intros r l. induction l as [|a l IH]; intros st st' evs H.
  - inversion H; subst. rewrite N.sub_diag. reflexivity.
  - rewrite run_cons in H. destruct (step r st a) as [st1 e1] eqn:E1.
    destruct (run r st1 l) as [st2 e2] eqn:E2. inversion H; subst.
    rewrite view_changes_app, map_app, (signals_every_change _ _ _ _ _ E1), (IH _ _ _ E2).
    pose proof (run_monotone_unconditional _ _ _ _ _ E2) as (M & _).
    destruct (step_view_spec _ _ _ _ _ E1) as [[K _] | [K _]].
    + rewrite K, N.eqb_refl. reflexivity.
    + assert (L : (st_view st1 =? st_view st) = false) by lia. rewrite L.
      replace (N.to_nat (st_view st' - st_view st)) with (1 + N.to_nat (st_view st' - st_view st1))%nat by lia.
      rewrite views_from_app. cbn [views_from app N.of_nat]. rewrite K. reflexivity.
Qed.

(* replays and far-ahead certificates: the view never passes the highest verified certificate by more than one *)
Theorem run_view_bound : forall r l st st' evs,
  1 <= st_view st -> run r st l = (st', evs) ->
  st_view st' <= N.max (st_view st) (1 + max_list (map (cert_view_max r) l)).
Proof.
  intros r l. induction l as [|a l IH]; intros st st' evs P H.
  - inversion H; subst. lia.
  - rewrite run_cons in H. destruct (step r st a) as [st1 e1] eqn:E1.
    destruct (run r st1 l) as [st2 e2] eqn:E2. inversion H; subst.
    pose proof (step_view_bound _ _ _ _ _ P E1) as B1.
    pose proof (step_monotone_unconditional _ _ _ _ _ E1) as (M & _).
    assert (P1 : 1 <= st_view st1) by lia.
    pose proof (IH _ _ _ P1 E2) as B2. cbn [map max_list]. lia.
Qed.

(* every view change in a history is backed by a verified certificate of the action that caused it *)
Theorem run_needs_evidence : forall r l st st' evs,
  1 <= st_view st -> run r st l = (st', evs) ->
  forall w, st_view st <= w -> w < st_view st' ->
  exists si, In (AAdvance si) l /\ evidence r si w = true.
Proof.
  intros r l. induction l as [|a l IH]; intros st st' evs P H w W1 W2.
  - inversion H; subst. lia.
  - rewrite run_cons in H. destruct (step r st a) as [st1 e1] eqn:E1.
    destruct (run r st1 l) as [st2 e2] eqn:E2. inversion H; subst.
    pose proof (step_monotone_unconditional _ _ _ _ _ E1) as (M & _).
    destruct (N.lt_ge_cases w (st_view st1)) as [C | C].
    + assert (NE : st_view st1 <> st_view st) by lia.
      destruct (advance_needs_evidence _ _ _ _ _ P E1 NE) as (si & -> & K1 & K2).
      exists si. split; [left; reflexivity|]. assert (w = st_view st) by lia. subst w. exact K2.
    + assert (P1 : 1 <= st_view st1) by lia.
      destruct (IH _ _ _ P1 E2 w C W2) as (si & I & K). exists si. split; [right; exact I | exact K].
Qed.

Lemma init_view_pos : 1 <= st_view init_state.
Proof. cbn. lia. Qed.

(* the high TC moves only upwards, and only to the view of a TC that verified (advanceView) or that was
   handed to UpdateHighTC directly *)
Theorem high_tc_moves_only_to_verified_tc : forall r st a st' evs,
  step r st a = (st', evs) -> st_htc st' <> st_htc st ->
  st_htc st < st_htc st' /\
  ((exists v, a = AHighTC v /\ st_htc st' = v) \/
   (exists si t, a = AAdvance si /\ si_tc si = Some t /\ t_ok t = true /\ st_htc st' = t_view t)).
Proof.
  intros r st a st' evs H NE. destruct a as [si|q|v|ch]; cbn [step] in H.
  - destruct (advance_view_spec _ _ _ _ _ H) as (_ & [E | (t & E1 & E2 & E3 & E4)] & _); [contradiction|].
    split; [lia|]. right. exists si, t. auto.
  - inversion H; subst. exfalso. apply NE. apply update_high_qc_frame.
  - inversion H; subst. pose proof (update_high_tc_spec st v) as (_ & _ & _ & _ & E). cbn zeta in E.
    split; [lia|]. left. exists v. split; [reflexivity | lia].
  - destruct (commit_spec _ _ _ _ H) as (_ & _ & _ & E & _). contradiction.
Qed.

(* the committed view after a commit decision: the decided block's view if the whole ancestor chain above the
   old committed view is available and the block is newer; otherwise unchanged *)
Theorem commit_decision : forall r st ch st' evs,
  step r st (ACommit ch) = (st', evs) ->
  (st_cview st' = st_cview st /\ evs = []) \/
  (exists v rest, ch = v :: rest /\ st_cview st < v /\ st_cview st' = v /\ last (commits evs) 0 = v /\
                  Forall (fun x => st_cview st < x) (commits evs)).
Proof.
  intros r st ch st' evs H. cbn [step] in H.
  destruct (commit_spec _ _ _ _ H) as (_ & _ & _ & _ & [K | (v & rest & K1 & K2 & K3 & _ & K5 & K6)]); [left; exact K|].
  right. exists v, rest. auto.
Qed.

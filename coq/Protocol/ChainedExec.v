(* Executable trace validator for the chained / simple HotStuff model: observed events of a run
   of the Go implementation (blocks created, signatures produced, lock after each vote, blocks
   committed) are replayed through [gstep]; every accepted event is an instance of a transition
   of Protocol.Chained.step ([gstep_sound]), hence every accepted history ends in a reachable
   state of the abstract model, for which the ledger theorems hold ([run_safe]). *)
From Coq Require Import List NArith ZArith Lia Bool Arith.
From HS Require Import Quorum.QuorumModel Quorum.QuorumProofs Quorum.QuorumSets.
From HS Require Import Protocol.Core Protocol.Chained.
Import ListNotations.
Open Scope N_scope.

Inductive event :=
| EAddBlock (b : block)
| EByzVote (i : rid) (h : hash)
| EStop (r : rid) (v : view)
| EVote (r : rid) (h : hash) (obs_lock : option hash)
| ECommit (r : rid) (h1 : hash) (obs : list hash)
(* several proposals were processed in one stimulus: the QC blocks of the voted blocks, in order,
   and all blocks committed in that stimulus *)
| ECommits (r : rid) (cands : list hash) (obs : list hash).

Fixpoint nodupb (l : list N) : bool :=
  match l with [] => true | x :: r => negb (memb x r) && nodupb r end.

Lemma nodupb_NoDup l : nodupb l = true -> NoDup l.
Proof.
  induction l as [|x r IH]; simpl; intros H; constructor.
  - apply andb_true_iff in H. destruct H as [H _]. apply negb_true_iff in H. now apply memb_false.
  - apply andb_true_iff in H. tauto.
Qed.

Fixpoint dedup (l : list N) : list N :=
  match l with [] => [] | x :: r => if memb x r then dedup r else x :: dedup r end.

Lemma dedup_In l x : In x (dedup l) <-> In x l.
Proof.
  induction l as [|y r IH]; simpl; [tauto|].
  destruct (memb y r) eqn:M; simpl; rewrite IH.
  - apply memb_In in M. split; [tauto|]. intros [<-|H]; auto.
  - tauto.
Qed.

Lemma dedup_NoDup l : NoDup (dedup l).
Proof.
  induction l as [|y r IH]; simpl; [constructor|].
  destruct (memb y r) eqn:M; auto. constructor; auto.
  rewrite dedup_In. now apply memb_false.
Qed.

Fixpoint list_eqb_N (a b : list N) : bool :=
  match a, b with
  | [], [] => true
  | x :: a', y :: b' => N.eqb x y && list_eqb_N a' b'
  | _, _ => false
  end.

Section Exec.
  Variable rs : ruleset.
  Variable replicas byz : list rid.
  Variable genesis : block.

  Definition nrep : Z := Z.of_nat (length replicas).
  Definition member (i : rid) : bool := memb i replicas.
  Definition honest (i : rid) : bool := negb (memb i byz).
  Definition qsize : nat := Z.to_nat (quorum_size nrep).

  (* static configuration check: a duplicate-free membership, at most f Byzantine members,
     genesis well formed *)
  Definition config_ok : bool :=
    nodupb replicas && (1 <=? length replicas)%nat &&
    (Z.of_nat (length byz) <=? num_faulty nrep)%Z &&
    N.eqb (b_view genesis) 0 &&
    negb (N.eqb (b_parent genesis) (b_hash genesis)) &&
    negb (N.eqb (b_qc genesis) (b_hash genesis)).

  Notation U := (Chained.U).
  Notation loc := (Chained.loc genesis).

  Definition voters (s : state) (h : hash) : list rid :=
    dedup (filter member (map fst (filter (fun p => N.eqb (snd p) h) (votes s)))).

  Definition certb (s : state) (h : hash) : bool :=
    N.eqb h (b_hash genesis) || (qsize <=? length (voters s h))%nat.

  Fixpoint extendsb (fuel : nat) (Uu : universe) (b t : block) : bool :=
    block_eqb b t ||
    match fuel with
    | O => false
    | S k => match Uu (b_parent b) with Some p => extendsb k Uu p t | None => false end
    end.

  Fixpoint segb (fuel : nat) (Uu : universe) (x : block) (fl : view) : option (list block) :=
    if b_view x <=? fl then Some []
    else match fuel with
         | O => None
         | S k => match Uu (b_parent x) with
                  | Some p => match segb k Uu p fl with
                              | Some l => Some (l ++ [x])
                              | None => None
                              end
                  | None => None
                  end
         end.

  Definition vote_ruleb (fuel : nat) (Uu : universe) (l b c1 : block) : bool :=
    match rs with
    | RChained => (b_view l <? b_view c1) || extendsb fuel Uu b l
    | RSimple => b_view l <=? b_view c1
    end.

  Definition commit_ruleb (b3 b2 b1 : block) : bool :=
    match rs with
    | RChained => N.eqb (b_parent b1) (b_hash b2) && N.eqb (b_view b1) (b_view b2 + 1) &&
                  N.eqb (b_parent b2) (b_hash b3) && N.eqb (b_view b2) (b_view b3 + 1)
    | RSimple => N.eqb (b_view b3 + 2) (b_view b1)
    end.

  Definition fuel_of (s : state) : nat := S (length (blocks s)).

  Fixpoint strip_prefix (p l : list N) : option (list N) :=
    match p, l with
    | [], _ => Some l
    | x :: p', y :: l' => if N.eqb x y then strip_prefix p' l' else None
    | _ :: _, [] => None
    end.

  (* the commit triggered by processing a block whose QC certifies h1, if the commit rule fires
     and the walk is a non-empty prefix of the observed commits *)
  Definition try_commit (s : state) (r : rid) (h1 : hash) (obs : list hash) : option (state * list hash) :=
    match U s h1 with
    | None => None
    | Some b1 =>
        match U s (b_qc b1) with
        | None => None
        | Some b2 =>
            match U s (b_qc b2) with
            | None => None
            | Some b3 =>
                if honest r && N.eqb (b_hash b1) h1 && certb s (b_hash b1) && commit_ruleb b3 b2 b1
                then match segb (fuel_of s) (U s) b3 (b_view (head (loc s r))) with
                     | Some (x :: l') =>
                         let l := x :: l' in
                         match strip_prefix (map b_hash l) obs with
                         | Some rest =>
                             Some (set_loc s r
                                    {| lastVoted := lastVoted (loc s r); lock := lock (loc s r);
                                       head := if b_view (head (loc s r)) <? b_view b3 then b3
                                               else head (loc s r);
                                       log := log (loc s r) ++ l |}, rest)
                         | None => None
                         end
                     | _ => None
                     end
                else None
            end
        end
    end.

  Fixpoint commits_fold (s : state) (r : rid) (cands : list hash) (obs : list hash) : option state :=
    match cands with
    | [] => match obs with [] => Some s | _ => None end
    | h1 :: rest =>
        match try_commit s r h1 obs with
        | Some (s', obs') => commits_fold s' r rest obs'
        | None => commits_fold s r rest obs
        end
    end.

  Definition gstep (s : state) (e : event) : option state :=
    match e with
    | EAddBlock b =>
        match U s (b_hash b) with
        | Some _ => None
        | None => if negb (N.eqb (b_hash b) (b_parent genesis)) && negb (N.eqb (b_hash b) (b_qc genesis))
                  then Some (add_block s b) else None
        end
    | EByzVote i h => if honest i then None else Some (add_vote s i h)
    | EStop r v =>
        if honest r
        then Some (set_loc s r {| lastVoted := N.max (lastVoted (loc s r)) v; lock := lock (loc s r);
                                  head := head (loc s r); log := log (loc s r) |})
        else None
    | EVote r h obs_lock =>
        match U s h with
        | None => None
        | Some b =>
            match U s (b_qc b) with
            | None => None
            | Some c1 =>
                if honest r && N.eqb (b_hash b) h && (lastVoted (loc s r) <? b_view b) &&
                   certb s (b_qc b) && N.eqb (b_parent b) (b_qc b) && (b_view c1 <? b_view b) &&
                   (N.eqb (b_qc b) (b_hash genesis) ||
                    match U s (b_qc c1) with Some _ => true | None => false end) &&
                   vote_ruleb (fuel_of s) (U s) (lock (loc s r)) b c1
                then let s' := cast_vote genesis s r b in
                     match obs_lock with
                     | None => Some s'
                     | Some hl => if N.eqb (b_hash (lock (loc s' r))) hl then Some s' else None
                     end
                else None
            end
        end
    | ECommit r h1 obs =>
        match U s h1 with
        | None => None
        | Some b1 =>
            match U s (b_qc b1) with
            | None => None
            | Some b2 =>
                match U s (b_qc b2) with
                | None => None
                | Some b3 =>
                    if honest r && N.eqb (b_hash b1) h1 && certb s (b_hash b1) && commit_ruleb b3 b2 b1
                    then match segb (fuel_of s) (U s) b3 (b_view (head (loc s r))) with
                         | Some l =>
                             if list_eqb_N (map b_hash l) obs
                             then Some (set_loc s r
                                    {| lastVoted := lastVoted (loc s r); lock := lock (loc s r);
                                       head := if b_view (head (loc s r)) <? b_view b3 then b3
                                               else head (loc s r);
                                       log := log (loc s r) ++ l |})
                             else None
                         | None => None
                         end
                    else None
                end
            end
        end
    | ECommits r cands obs => commits_fold s r cands obs
    end.

  (* index (0-based) of the first rejected event, or None if the whole history is accepted *)
  Fixpoint run (s : state) (es : list event) (i : nat) : state * option nat :=
    match es with
    | [] => (s, None)
    | e :: r => match gstep s e with
                | Some s' => run s' r (S i)
                | None => (s, Some i)
                end
    end.
End Exec.

(* Scratch prototype: abstract fast-hotstuff safety skeleton (repaired guards). *)
From Coq Require Import List NArith Lia Bool Arith.
Import ListNotations.
Open Scope N_scope.

Definition rid := N. Definition hash := N. Definition view := N.
Record block := { b_hash : hash; b_parent : hash; b_view : view; b_qc : hash }.

Section Protocol.
  Variable member : rid -> bool.
  Variable honest : rid -> bool.
  Variable qsize : nat.
  Hypothesis quorum_inter : forall A B : list rid,
      NoDup A -> NoDup B -> (qsize <= length A)%nat -> (qsize <= length B)%nat ->
      (forall i, In i A -> member i = true) -> (forall i, In i B -> member i = true) ->
      exists i, In i A /\ In i B /\ honest i = true.
  Hypothesis quorum_has_honest : forall A : list rid,
      NoDup A -> (qsize <= length A)%nat -> (forall i, In i A -> member i = true) ->
      exists i, In i A /\ honest i = true.

  Variable genesis : block.
  Hypothesis genesis_view : b_view genesis = 0.
  Hypothesis genesis_parent_ne : b_parent genesis <> b_hash genesis.

  Definition universe := hash -> option block.
  Record local := { lastVoted : view; hq : block }.

  Record state := {
    U : universe;
    voted : rid -> hash -> Prop;
    tsig : rid -> view -> hash -> Prop;   (* signed timeout for view v reporting QC of block h *)
    loc : rid -> local }.

  Definition certified (s : state) (h : hash) : Prop :=
    h = b_hash genesis \/
    exists S, NoDup S /\ (qsize <= length S)%nat /\
              (forall i, In i S -> member i = true) /\ (forall i, In i S -> voted s i h).

  Inductive anc (Uu : universe) : block -> block -> Prop :=
  | anc_refl b : anc Uu b b
  | anc_step b p t : Uu (b_parent b) = Some p -> anc Uu p t -> anc Uu b t.
  Lemma anc_trans Uu a b c : anc Uu a b -> anc Uu b c -> anc Uu a c.
  Proof. induction 1; intros; eauto using anc. Qed.

  Definition upd {A} (f : N -> A) (k : N) (v : A) : N -> A :=
    fun x => if N.eqb x k then v else f x.

  (* an aggregate QC for view av whose highest valid QC certifies c1 *)
  Definition agg_ok (s : state) (av : view) (c1 : block) : Prop :=
    exists (S : list rid) (hs : rid -> hash),
      NoDup S /\ (qsize <= length S)%nat /\ (forall i, In i S -> member i = true) /\
      (forall i, In i S -> tsig s i av (hs i)) /\
      (forall i x, In i S -> U s (hs i) = Some x -> certified s (hs i) -> b_view x <= b_view c1).

  (* the monotone consequence of agg_ok that the safety proof uses *)
  Definition agg_st (s : state) (av : view) (c1 : block) : Prop :=
    exists (S : list rid) (hs : rid -> hash),
      NoDup S /\ (qsize <= length S)%nat /\ (forall i, In i S -> member i = true) /\
      (forall i, In i S -> tsig s i av (hs i)) /\
      (forall i, In i S -> honest i = true -> exists x, U s (hs i) = Some x /\ b_view x <= b_view c1).

  Definition max_block (a b : block) : block := if b_view a <? b_view b then b else a.

  Inductive step : state -> state -> Prop :=
  | step_addblock s b :
      U s (b_hash b) = None -> b_hash b <> b_parent genesis ->
      step s {| U := upd (U s) (b_hash b) (Some b); voted := voted s; tsig := tsig s; loc := loc s |}
  | step_byzvote s i h :
      honest i = false ->
      step s {| U := U s; voted := fun j k => voted s j k \/ (j = i /\ k = h);
                tsig := tsig s; loc := loc s |}
  | step_byztimeout s i v h :
      honest i = false ->
      step s {| U := U s; voted := voted s;
                tsig := fun j w k => tsig s j w k \/ (j = i /\ w = v /\ k = h); loc := loc s |}
  | step_timeout s r v :
      honest r = true ->
      step s {| U := U s; voted := voted s;
                tsig := fun j w k => tsig s j w k \/ (j = r /\ w = v /\ k = b_hash (hq (loc s r)));
                loc := upd (loc s) r {| lastVoted := N.max (lastVoted (loc s r)) v;
                                        hq := hq (loc s r) |} |}
  | step_vote s r b c1 :
      honest r = true ->
      U s (b_hash b) = Some b ->
      lastVoted (loc s r) < b_view b ->
      U s (b_qc b) = Some c1 ->
      certified s (b_qc b) ->
      b_parent b = b_qc b ->
      b_view c1 < b_view b ->
      (b_view b = b_view c1 + 1 \/ exists av, av + 1 = b_view b /\ agg_ok s av c1) ->
      step s {| U := U s;
                voted := fun j k => voted s j k \/ (j = r /\ k = b_hash b);
                tsig := tsig s;
                loc := upd (loc s) r {| lastVoted := b_view b;
                                        hq := max_block (hq (loc s r)) c1 |} |}.

  Definition init : state :=
    {| U := fun h => if N.eqb h (b_hash genesis) then Some genesis else None;
       voted := fun _ _ => False; tsig := fun _ _ _ => False;
       loc := fun _ => {| lastVoted := 0; hq := genesis |} |}.

  Inductive reach : state -> Prop :=
  | reach_init : reach init
  | reach_step s s' : reach s -> step s s' -> reach s'.

  Definition uwf (Uu : universe) := forall h b, Uu h = Some b -> b_hash b = h.

  Lemma step_U_mono s s' h b : step s s' -> U s h = Some b -> U s' h = Some b.
  Proof.
    destruct 1; simpl; auto. unfold upd. intros Hb.
    destruct (N.eqb_spec h (b_hash b0)); subst; congruence.
  Qed.
  Lemma step_voted_mono s s' i h : step s s' -> voted s i h -> voted s' i h.
  Proof. destruct 1; simpl; auto. Qed.
  Lemma step_tsig_mono s s' i v h : step s s' -> tsig s i v h -> tsig s' i v h.
  Proof. destruct 1; simpl; auto. Qed.
  Lemma step_certified_mono s s' h : step s s' -> certified s h -> certified s' h.
  Proof.
    intros St [->|(S & ND & L & M & V)]; [now left|right].
    exists S; repeat split; auto. intros; eapply step_voted_mono; eauto.
  Qed.
  Lemma genesis_in s : reach s -> U s (b_hash genesis) = Some genesis.
  Proof. induction 1. simpl. now rewrite N.eqb_refl. eapply step_U_mono; eauto. Qed.
  Lemma reach_uwf s : reach s -> uwf (U s).
  Proof.
    induction 1.
    - intros h b. simpl. destruct (N.eqb_spec h (b_hash genesis)); congruence.
    - destruct H0; simpl; auto. intros h x. unfold upd.
      destruct (N.eqb_spec h (b_hash b)); [intros [= <-]; auto| apply IHreach].
  Qed.
  Lemma step_U_some_inv s s' h x y : step s s' -> U s h = Some x -> U s' h = Some y -> x = y.
  Proof. intros St E E'. rewrite (step_U_mono _ _ _ _ St E) in E'. congruence. Qed.

  (* facts recorded for each honest vote; note: the aggregate evidence is kept existentially,
     it only mentions monotone sets *)
  Record vote_facts (s : state) (r : rid) (b : block) : Prop := {
    vf_in : U s (b_hash b) = Some b;
    vf_view : b_view b <= lastVoted (loc s r);
    vf_pos : 0 < b_view b;
    vf_cert : certified s (b_qc b);
    vf_parent : b_parent b = b_qc b;
    vf_c1 : exists c1, U s (b_qc b) = Some c1 /\ b_view c1 < b_view b /\
              b_view c1 <= b_view (hq (loc s r)) /\
              (b_view b = b_view c1 + 1 \/ exists av, av + 1 = b_view b /\ agg_st s av c1)
  }.

  Record inv (s : state) : Prop := {
    i_votes : forall r h, honest r = true -> voted s r h -> exists b, b_hash b = h /\ vote_facts s r b;
    i_hq : forall r, honest r = true ->
             U s (b_hash (hq (loc s r))) = Some (hq (loc s r)) /\ certified s (b_hash (hq (loc s r)));
    i_ts : forall r v h, honest r = true -> tsig s r v h ->
             v <= lastVoted (loc s r) /\
             exists x, U s h = Some x /\ certified s h /\
               forall hb b c1, voted s r hb -> U s hb = Some b -> b_view b <= v ->
                               U s (b_qc b) = Some c1 -> b_view c1 <= b_view x;
    i_unique : forall r h1 h2 b1 b2, honest r = true -> voted s r h1 -> voted s r h2 ->
        U s h1 = Some b1 -> U s h2 = Some b2 -> b_view b1 = b_view b2 -> h1 = h2;
    i_nogp : U s (b_parent genesis) = None;
    i_gen : U s (b_hash genesis) = Some genesis
  }.

  Lemma max_block_l a b : b_view a <= b_view (max_block a b).
  Proof. unfold max_block. destruct (N.ltb_spec (b_view a) (b_view b)); lia. Qed.
  Lemma max_block_r a b : b_view b <= b_view (max_block a b).
  Proof. unfold max_block. destruct (N.ltb_spec (b_view a) (b_view b)); lia. Qed.
  Lemma max_block_cases a b : max_block a b = a \/ max_block a b = b.
  Proof. unfold max_block. destruct (b_view a <? b_view b); auto. Qed.

  Lemma qc_of_certified s : inv s ->
    forall h b, certified s h -> h <> b_hash genesis -> U s h = Some b ->
        certified s (b_qc b) /\ b_parent b = b_qc b /\ 0 < b_view b /\
        exists c1, U s (b_qc b) = Some c1 /\ b_view c1 < b_view b.
  Proof.
    intros I h b [->|(S & ND & L & M & V)] N E; [congruence|].
    destruct (quorum_has_honest S ND L M) as (r & In & Hr).
    destruct (i_votes _ I r h Hr (V _ In)) as (b' & Hb' & F).
    assert (b' = b) by (pose proof (vf_in _ _ _ F) as X; rewrite Hb', E in X; congruence). subst b'.
    destruct (vf_c1 _ _ _ F) as (c1 & E1 & V1 & _).
    repeat split; eauto using vf_cert, vf_parent, vf_pos.
  Qed.

  Lemma agg_st_mono s s' av c1 : step s s' -> agg_st s av c1 -> agg_st s' av c1.
  Proof.
    intros St (S & hs & ND & L & M & T & Hh). exists S, hs. repeat split; auto.
    - intros; eapply step_tsig_mono; eauto.
    - intros i Ii Hi. destruct (Hh i Ii Hi) as (x & Ex & Vx). exists x; split; auto.
      eapply step_U_mono; eauto.
  Qed.

  Lemma agg_ok_st s av c1 : inv s -> agg_ok s av c1 -> agg_st s av c1.
  Proof.
    intros I (S & hs & ND & L & M & T & Hh). exists S, hs. repeat split; auto.
    intros i Ii Hi. destruct (i_ts _ I i av (hs i) Hi (T i Ii)) as (_ & x & Ex & Cx & _).
    exists x; split; auto. eapply Hh; eauto.
  Qed.


  Lemma upd_same {A} (f : N -> A) k v : upd f k v k = v.
  Proof. unfold upd. now rewrite N.eqb_refl. Qed.
  Lemma upd_other {A} (f : N -> A) k v x : x <> k -> upd f k v x = f x.
  Proof. unfold upd. intros. destruct (N.eqb_spec x k); congruence. Qed.

  Lemma inv_init : inv init.
  Proof.
    constructor; simpl; try (intros; tauto).
    - intros r _. rewrite N.eqb_refl. split; auto. now left.
    - destruct (N.eqb_spec (b_parent genesis) (b_hash genesis)); congruence.
    - now rewrite N.eqb_refl.
  Qed.

  Lemma vote_facts_frame s s' r b :
    step s s' -> vote_facts s r b ->
    lastVoted (loc s r) <= lastVoted (loc s' r) ->
    b_view (hq (loc s r)) <= b_view (hq (loc s' r)) ->
    vote_facts s' r b.
  Proof.
    intros St [Fin Fview Fpos Fcert Fpar (c1 & E1 & V1 & Hq & Kind)] LV HQ.
    constructor; auto.
    - eapply step_U_mono; eauto.
    - lia.
    - eapply step_certified_mono; eauto.
    - exists c1. repeat split; auto. eapply step_U_mono; eauto. lia.
      destruct Kind as [|(av & Eav & A)]; auto. right. exists av; split; auto.
      eapply agg_st_mono; eauto.
  Qed.

  (* i_ts for one (r,v,h) is stable when r's votes and lastVoted only grow "above" v *)
  Definition ts_fact (s : state) (r : rid) (v : view) (h : hash) : Prop :=
    v <= lastVoted (loc s r) /\
    exists x, U s h = Some x /\ certified s h /\
      forall hb b c1, voted s r hb -> U s hb = Some b -> b_view b <= v ->
                      U s (b_qc b) = Some c1 -> b_view c1 <= b_view x.

  Lemma ts_fact_frame s s' r v h :
    step s s' -> inv s -> honest r = true -> ts_fact s r v h ->
    lastVoted (loc s r) <= lastVoted (loc s' r) ->
    (forall hb, voted s' r hb -> voted s r hb \/
                 exists b, U s hb = Some b /\ lastVoted (loc s r) < b_view b) ->
    ts_fact s' r v h.
  Proof.
    intros St I Hr (Lv & x & Ex & Cx & Hall) LV NewV. split; [lia|].
    exists x. split; [eapply step_U_mono; eauto|]. split; [eapply step_certified_mono; eauto|].
    intros hb b c1 Vb Eb Le E1.
    destruct (NewV hb Vb) as [Old|(b' & Eb' & Gt)].
    - destruct (i_votes _ I r hb Hr Old) as (y & Hy & F).
      pose proof (vf_in _ _ _ F) as Iy. rewrite Hy in Iy.
      pose proof (step_U_some_inv _ _ _ _ _ St Iy Eb) as <-.
      destruct (vf_c1 _ _ _ F) as (d1 & D1 & _).
      pose proof (step_U_some_inv _ _ _ _ _ St D1 E1) as <-.
      eapply Hall; eauto.
    - pose proof (step_U_some_inv _ _ _ _ _ St Eb' Eb) as <-. lia.
  Qed.

  Lemma step_inv s s' : uwf (U s) -> inv s -> step s s' -> inv s'.
  Proof.
    intros W I St. pose proof St as St0. destruct St.
    - (* add block *)
      constructor; simpl.
      + intros r h Hr V. destruct (i_votes _ I r h Hr V) as (x & Hx & F). exists x; split; auto.
        eapply (vote_facts_frame _ _ _ _ St0 F); simpl; lia.
      + intros r Hr. destruct (i_hq _ I r Hr) as [A B]. split.
        * exact (step_U_mono _ _ _ _ St0 A). * exact (step_certified_mono _ _ _ St0 B).
      + intros r v h Hr T. eapply (ts_fact_frame _ _ _ _ _ St0 I Hr (i_ts _ I r v h Hr T)); simpl; auto; lia.
      + intros r h1 h2 x y Hr V1 V2 E1 E2 Q.
        destruct (i_votes _ I r h1 Hr V1) as (x' & Hx' & Fx).
        destruct (i_votes _ I r h2 Hr V2) as (y' & Hy' & Fy).
        pose proof (vf_in _ _ _ Fx) as Ix. pose proof (vf_in _ _ _ Fy) as Iy.
        rewrite Hx' in Ix. rewrite Hy' in Iy.
        pose proof (step_U_some_inv _ _ _ _ _ St0 Ix E1) as <-.
        pose proof (step_U_some_inv _ _ _ _ _ St0 Iy E2) as <-.
        eapply (i_unique _ I r); eauto.
      + rewrite upd_other; auto using i_nogp.
      + exact (step_U_mono _ _ _ _ St0 (i_gen _ I)).
    - (* byzantine vote *)
      assert (HV : forall r k, honest r = true -> (voted s r k \/ r = i /\ k = h) -> voted s r k).
      { intros r k Hr [X|[-> _]]; auto. congruence. }
      constructor; simpl.
      + intros r k Hr V. apply HV in V; auto. destruct (i_votes _ I r k Hr V) as (x & Hx & F).
        exists x; split; auto. eapply (vote_facts_frame _ _ _ _ St0 F); simpl; lia.
      + intros r Hr. destruct (i_hq _ I r Hr) as [A B]. split; auto.
        exact (step_certified_mono _ _ _ St0 B).
      + intros r v k Hr T.
        eapply (ts_fact_frame _ _ _ _ _ St0 I Hr (i_ts _ I r v k Hr T)); simpl; auto; try lia;
          try (intros hb Vb; left; apply HV; auto).
      + intros r h1 h2 x y Hr V1 V2. apply HV in V1; auto. apply HV in V2; auto.
        eapply (i_unique _ I r); eauto.
      + apply (i_nogp _ I). + apply (i_gen _ I).
    - (* byzantine timeout *)
      assert (HT : forall r w k, honest r = true ->
                   (tsig s r w k \/ r = i /\ w = v /\ k = h) -> tsig s r w k).
      { intros r w k Hr [X|[-> _]]; auto. congruence. }
      constructor; simpl.
      + intros r k Hr V. destruct (i_votes _ I r k Hr V) as (x & Hx & F).
        exists x; split; auto. eapply (vote_facts_frame _ _ _ _ St0 F); simpl; lia.
      + exact (i_hq _ I).
      + intros r w k Hr T. apply HT in T; auto.
        eapply (ts_fact_frame _ _ _ _ _ St0 I Hr (i_ts _ I r w k Hr T)); simpl; auto; lia.
      + exact (i_unique _ I).
      + apply (i_nogp _ I). + apply (i_gen _ I).
    - (* honest timeout *)
      set (l' := {| lastVoted := N.max (lastVoted (loc s r)) v; hq := hq (loc s r) |}) in *.
      assert (LV : forall x, lastVoted (loc s x) <= lastVoted (upd (loc s) r l' x)).
      { intros x. unfold upd. destruct (N.eqb_spec x r); subst; simpl; lia. }
      assert (HQ : forall x, hq (upd (loc s) r l' x) = hq (loc s x)).
      { intros x. unfold upd. destruct (N.eqb_spec x r); subst; simpl; auto. }
      constructor; simpl.
      + intros x k Hx V. destruct (i_votes _ I x k Hx V) as (y & Hy & F). exists y; split; auto.
        eapply (vote_facts_frame _ _ _ _ St0 F); simpl; auto. rewrite HQ. lia.
      + intros x Hx. rewrite HQ. exact (i_hq _ I x Hx).
      + intros x w k Hx [T|(-> & -> & ->)].
        * eapply (ts_fact_frame _ _ _ _ _ St0 I Hx (i_ts _ I x w k Hx T)); simpl; auto.
        * (* the new timeout: reports the current high QC *)
          destruct (i_hq _ I r H) as [A B].
          split. { rewrite upd_same. simpl. lia. }
          exists (hq (loc s r)). repeat split; auto.
          intros hb b c1 Vb Eb _ E1.
          destruct (i_votes _ I r hb H Vb) as (y & Hy & F).
          assert (y = b) by (pose proof (vf_in _ _ _ F) as X; rewrite Hy, Eb in X; congruence). subst y.
          destruct (vf_c1 _ _ _ F) as (d1 & D1 & _ & Hq & _). rewrite D1 in E1. injection E1 as <-. exact Hq.
      + exact (i_unique _ I).
      + apply (i_nogp _ I). + apply (i_gen _ I).
    - (* honest vote *)
      rename H into Hr, H0 into Eb, H1 into LVb, H2 into Ec1, H3 into Cq, H4 into Par,
             H5 into Vc1, H6 into Kind.
      set (l' := {| lastVoted := b_view b; hq := max_block (hq (loc s r)) c1 |}) in *.
      assert (LV : forall x, lastVoted (loc s x) <= lastVoted (upd (loc s) r l' x)).
      { intros x. unfold upd. destruct (N.eqb_spec x r); subst; simpl; lia. }
      assert (HQ : forall x, b_view (hq (loc s x)) <= b_view (hq (upd (loc s) r l' x))).
      { intros x. unfold upd. destruct (N.eqb_spec x r); subst; simpl; try lia. apply max_block_l. }
      constructor; simpl.
      + intros x k Hx [V|[-> ->]].
        * destruct (i_votes _ I x k Hx V) as (y & Hy & F). exists y; split; auto.
          eapply (vote_facts_frame _ _ _ _ St0 F); simpl; auto.
        * exists b; split; auto. constructor; simpl; auto.
          -- rewrite upd_same; simpl; lia.
          -- lia.
          -- exact (step_certified_mono _ _ _ St0 Cq).
          -- exists c1. repeat split; auto. rewrite upd_same; simpl. apply max_block_r.
             destruct Kind as [|(av & Eav & A)]; auto. right. exists av; split; auto.
             eapply agg_st_mono; eauto. eapply agg_ok_st; eauto.
      + intros x Hx. unfold upd. destruct (N.eqb_spec x r); simpl.
        * subst x. destruct (max_block_cases (hq (loc s r)) c1) as [->| ->].
          -- destruct (i_hq _ I r Hr) as [A B]. split; auto. exact (step_certified_mono _ _ _ St0 B).
          -- rewrite (W _ _ Ec1). split; auto. exact (step_certified_mono _ _ _ St0 Cq).
        * destruct (i_hq _ I x Hx) as [A B]. split; auto. exact (step_certified_mono _ _ _ St0 B).
      + intros x w k Hx T.
        eapply (ts_fact_frame _ _ _ _ _ St0 I Hx (i_ts _ I x w k Hx T)); simpl; auto.
        intros hb [Vb|[-> ->]]; auto. right. exists b; split; auto.
      + intros x h1 h2 y z Hx V1 V2 E1 E2 Q.
        destruct V1 as [V1|[-> ->]]; destruct V2 as [V2|[X2 Y2]].
        * eapply (i_unique _ I x); eauto.
        * subst x h2. rewrite Eb in E2. injection E2 as <-.
          destruct (i_votes _ I r h1 Hr V1) as (y' & Hy' & Fy).
          assert (y' = y) by (pose proof (vf_in _ _ _ Fy) as X; rewrite Hy', E1 in X; congruence). subst y'.
          pose proof (vf_view _ _ _ Fy). lia.
        * rewrite Eb in E1. injection E1 as <-.
          destruct (i_votes _ I r h2 Hr V2) as (z' & Hz' & Fz).
          assert (z' = z) by (pose proof (vf_in _ _ _ Fz) as X; rewrite Hz', E2 in X; congruence). subst z'.
          pose proof (vf_view _ _ _ Fz). lia.
        * subst; auto.
      + apply (i_nogp _ I). + apply (i_gen _ I).
  Qed.

  Lemma reach_inv s : reach s -> inv s.
  Proof. induction 1; [apply inv_init|]. eapply step_inv; eauto using reach_uwf. Qed.

  Section WithInv.
  Variable s : state.
  Hypothesis R : reach s.
  Hypothesis I : inv s.

  Lemma certified_voter h : certified s h -> h <> b_hash genesis ->
    exists S, NoDup S /\ (qsize <= length S)%nat /\
              (forall i, In i S -> member i = true) /\ (forall i, In i S -> voted s i h).
  Proof. intros [->|X] N; [congruence|exact X]. Qed.

  Lemma one_per_view h1 h2 b1 b2 :
    certified s h1 -> certified s h2 -> U s h1 = Some b1 -> U s h2 = Some b2 ->
    b_view b1 = b_view b2 -> h1 = h2.
  Proof.
    intros C1 C2 E1 E2 V.
    pose proof (genesis_in _ R) as G.
    destruct (N.eq_dec h1 (b_hash genesis)) as [->|N1];
      destruct (N.eq_dec h2 (b_hash genesis)) as [->|N2]; auto.
    - rewrite G in E1. injection E1 as <-.
      destruct (qc_of_certified _ I _ _ C2 N2 E2) as (_ & _ & P & _). rewrite genesis_view in V. lia.
    - rewrite G in E2. injection E2 as <-.
      destruct (qc_of_certified _ I _ _ C1 N1 E1) as (_ & _ & P & _). rewrite genesis_view in V. lia.
    - destruct (certified_voter _ C1 N1) as (S1 & ND1 & L1 & M1 & V1).
      destruct (certified_voter _ C2 N2) as (S2 & ND2 & L2 & M2 & V2).
      destruct (quorum_inter S1 S2 ND1 ND2 L1 L2 M1 M2) as (r & I1 & I2 & Hr).
      eapply (i_unique _ I r); eauto.
  Qed.

  Definition two_chain (g p : block) : Prop :=
    U s (b_hash p) = Some p /\ U s (b_hash g) = Some g /\
    b_parent p = b_hash g /\ b_view p = b_view g + 1 /\ certified s (b_hash p).

  Lemma main_lemma g p :
    two_chain g p ->
    forall c, U s (b_hash c) = Some c -> certified s (b_hash c) -> b_view g <= b_view c ->
              anc (U s) c g.
  Proof.
    intros (Ep & Eg & Pp & Vp & Cp).
    pose proof (reach_uwf _ R) as W.
    assert (Np : b_hash p <> b_hash genesis).
    { intros Eq. rewrite Eq, (genesis_in _ R) in Ep. injection Ep as <-. rewrite genesis_view in Vp. lia. }
    destruct (qc_of_certified _ I _ _ Cp Np Ep) as (Cq & Pq & _ & g' & Eg' & _).
    assert (g' = g) by (rewrite <- Pq, Pp, Eg in Eg'; congruence). subst g'.
    assert (Cg : certified s (b_hash g)) by (rewrite <- Pp, Pq; exact Cq).
    intros c. remember (N.to_nat (b_view c)) as m eqn:Hm. revert c Hm.
    induction m as [m IHm] using lt_wf_ind. intros c Hm Ec Cc Vc.
    destruct (N.eq_dec (b_view c) (b_view g)) as [Qg|Qg].
    { assert (b_hash c = b_hash g) by (eapply one_per_view; eauto).
      assert (c = g) by congruence. subst. constructor. }
    destruct (N.eq_dec (b_view c) (b_view p)) as [Qp|Qp].
    { assert (b_hash c = b_hash p) by (eapply one_per_view; eauto).
      assert (c = p) by congruence. subst. econstructor; [rewrite Pp; eauto|constructor]. }
    assert (Vgt : b_view p < b_view c) by lia.
    assert (Nc : b_hash c <> b_hash genesis).
    { intros Eq. rewrite Eq, (genesis_in _ R) in Ec. injection Ec as <-. rewrite genesis_view in Vgt. lia. }
    destruct (certified_voter _ Cc Nc) as (Sc & NDc & Lc & Mc & Vc').
    destruct (quorum_has_honest Sc NDc Lc Mc) as (r0 & I0 & H0).
    destruct (i_votes _ I r0 _ H0 (Vc' _ I0)) as (c' & Hc' & F).
    assert (c' = c) by (pose proof (vf_in _ _ _ F) as X; rewrite Hc', Ec in X; congruence). subst c'.
    destruct (vf_c1 _ _ _ F) as (d1 & Ed1 & Vd1 & _ & Kind).
    pose proof (W _ _ Ed1) as Hd1.
    assert (Low : b_view g <= b_view d1).
    { destruct Kind as [Fast|(av & Eav & (S & hs & ND & L & M & T & Hh))]; [lia|].
      destruct (certified_voter _ Cp Np) as (Sp & NDp & Lp & Mp & Vp').
      destruct (quorum_inter S Sp ND NDp L Lp M Mp) as (r & Ia & Ip & Hr).
      destruct (Hh r Ia Hr) as (x & Ex & Vx).
      destruct (i_ts _ I r av (hs r) Hr (T r Ia)) as (_ & x' & Ex' & _ & Hall).
      rewrite Ex in Ex'. injection Ex' as <-.
      assert (b_view g <= b_view x).
      { eapply (Hall (b_hash p) p g); eauto; lia. }
      lia. }
    assert (A : anc (U s) d1 g).
    { eapply (IHm (N.to_nat (b_view d1))); try reflexivity; try lia.
      - rewrite Hd1; exact Ed1.
      - rewrite Hd1. exact (vf_cert _ _ _ F). }
    econstructor; [rewrite (vf_parent _ _ _ F); exact Ed1|exact A].
  Qed.
  End WithInv.
End Protocol.

(* Scratch prototype (not framework code): abstract chained-HotStuff safety skeleton,
   to calibrate invariants and proof effort.  Deleted after the design phase. *)
From Coq Require Import List NArith Lia Bool Arith.
Import ListNotations.
Open Scope N_scope.

Definition rid := N. Definition hash := N. Definition view := N.

Record block := { b_hash : hash; b_parent : hash; b_view : view; b_qc : hash }.

Section Protocol.
  Variable member : rid -> bool.
  Variable honest : rid -> bool.
  Variable qsize : nat.
  Hypothesis quorum_inter : forall A B : list rid,
      NoDup A -> NoDup B -> (qsize <= length A)%nat -> (qsize <= length B)%nat ->
      (forall i, In i A -> member i = true) -> (forall i, In i B -> member i = true) ->
      exists i, In i A /\ In i B /\ honest i = true.
  Hypothesis quorum_has_honest : forall A : list rid,
      NoDup A -> (qsize <= length A)%nat -> (forall i, In i A -> member i = true) ->
      exists i, In i A /\ honest i = true.

  Variable genesis : block.
  Hypothesis genesis_view : b_view genesis = 0.
  Hypothesis genesis_parent_ne : b_parent genesis <> b_hash genesis.
  Hypothesis genesis_qc_ne : b_qc genesis <> b_hash genesis.

  Definition universe := hash -> option block.

  Record local := { lastVoted : view; lock : block }.

  Record state := {
    U : universe;
    voted : rid -> hash -> Prop;
    vote_lock : rid -> hash -> block; (* ghost: lock when the vote guard was evaluated *)
    loc : rid -> local }.

  Definition certified (s : state) (h : hash) : Prop :=
    h = b_hash genesis \/
    exists S, NoDup S /\ (qsize <= length S)%nat /\
              (forall i, In i S -> member i = true) /\ (forall i, In i S -> voted s i h).

  Inductive anc (Uu : universe) : block -> block -> Prop :=
  | anc_refl b : anc Uu b b
  | anc_step b p t : Uu (b_parent b) = Some p -> anc Uu p t -> anc Uu b t.

  Lemma anc_trans Uu a b c : anc Uu a b -> anc Uu b c -> anc Uu a c.
  Proof. induction 1; intros; eauto using anc. Qed.

  Definition upd {A} (f : N -> A) (k : N) (v : A) : N -> A :=
    fun x => if N.eqb x k then v else f x.

  (* new lock after processing b (CommitRule's lock update) *)
  Definition new_lock (Uu : universe) (b : block) (l : block) : block :=
    match Uu (b_qc b) with
    | Some c1 => match Uu (b_qc c1) with
                 | Some c2 => if b_view l <? b_view c2 then c2 else l
                 | None => l
                 end
    | None => l
    end.

  Inductive step : state -> state -> Prop :=
  | step_addblock s b :
      U s (b_hash b) = None ->
      b_hash b <> b_parent genesis -> b_hash b <> b_qc genesis ->
      step s {| U := upd (U s) (b_hash b) (Some b); voted := voted s;
                vote_lock := vote_lock s; loc := loc s |}
  | step_byzvote s i h :
      honest i = false ->
      step s {| U := U s; voted := fun j k => voted s j k \/ (j = i /\ k = h);
                vote_lock := vote_lock s; loc := loc s |}
  | step_stop s r v :
      honest r = true ->
      step s {| U := U s; voted := voted s; vote_lock := vote_lock s;
                loc := upd (loc s) r {| lastVoted := N.max (lastVoted (loc s r)) v;
                                        lock := lock (loc s r) |} |}
  | step_vote s r b c1 :
      honest r = true ->
      U s (b_hash b) = Some b ->
      lastVoted (loc s r) < b_view b ->
      U s (b_qc b) = Some c1 ->
      certified s (b_qc b) ->
      b_parent b = b_qc b ->
      b_view c1 < b_view b ->
      (* repaired code: the block the lock may move to must be available, unless c1 is genesis *)
      (b_qc b = b_hash genesis \/ exists c2, U s (b_qc c1) = Some c2) ->
      (b_view (lock (loc s r)) < b_view c1 \/ anc (U s) b (lock (loc s r))) ->
      step s {| U := U s;
                voted := fun j k => voted s j k \/ (j = r /\ k = b_hash b);
                vote_lock := fun j k => if (N.eqb j r && N.eqb k (b_hash b))%bool
                                        then lock (loc s r) else vote_lock s j k;
                loc := upd (loc s) r {| lastVoted := b_view b;
                                        lock := new_lock (U s) b (lock (loc s r)) |} |}.

  Definition init : state :=
    {| U := fun h => if N.eqb h (b_hash genesis) then Some genesis else None;
       voted := fun _ _ => False;
       vote_lock := fun _ _ => genesis;
       loc := fun _ => {| lastVoted := 0; lock := genesis |} |}.

  Inductive reach : state -> Prop :=
  | reach_init : reach init
  | reach_step s s' : reach s -> step s s' -> reach s'.

  (* ---------- basic monotonicity ---------- *)
  Definition uwf (Uu : universe) := forall h b, Uu h = Some b -> b_hash b = h.

  Lemma step_U_mono s s' h b : step s s' -> U s h = Some b -> U s' h = Some b.
  Proof.
    destruct 1; simpl; auto. unfold upd. intros Hb.
    destruct (N.eqb_spec h (b_hash b0)); subst; congruence.
  Qed.

  Lemma step_voted_mono s s' i h : step s s' -> voted s i h -> voted s' i h.
  Proof. destruct 1; simpl; auto. Qed.

  Lemma step_certified_mono s s' h : step s s' -> certified s h -> certified s' h.
  Proof.
    intros St [->|(S & ND & L & M & V)]; [now left|right].
    exists S; repeat split; auto. intros; eapply step_voted_mono; eauto.
  Qed.

  Lemma anc_mono (U1 U2 : universe) a b :
    (forall h x, U1 h = Some x -> U2 h = Some x) -> anc U1 a b -> anc U2 a b.
  Proof. intros M; induction 1; eauto using anc. Qed.

  Lemma genesis_in s : reach s -> U s (b_hash genesis) = Some genesis.
  Proof.
    induction 1. simpl. now rewrite N.eqb_refl.
    eapply step_U_mono; eauto.
  Qed.

  Lemma reach_uwf s : reach s -> uwf (U s).
  Proof.
    induction 1.
    - intros h b. simpl. destruct (N.eqb_spec h (b_hash genesis)); congruence.
    - destruct H0; simpl; auto. intros h x. unfold upd.
      destruct (N.eqb_spec h (b_hash b)); [intros [= <-]; auto| apply IHreach].
  Qed.

  (* ---------- the invariant about honest votes ---------- *)
  Record vote_facts (s : state) (r : rid) (b : block) : Prop := {
    vf_in : U s (b_hash b) = Some b;
    vf_view : b_view b <= lastVoted (loc s r);
    vf_pos : 0 < b_view b;
    vf_c1 : exists c1, U s (b_qc b) = Some c1 /\ b_view c1 < b_view b
                       /\ (b_view (vote_lock s r (b_hash b)) < b_view c1
                           \/ anc (U s) b (vote_lock s r (b_hash b)));
    vf_cert : certified s (b_qc b);
    vf_parent : b_parent b = b_qc b;
    vf_lockview : b_view (vote_lock s r (b_hash b)) < b_view b;
    vf_twoback : forall c1 c2, U s (b_qc b) = Some c1 -> U s (b_qc c1) = Some c2 ->
                               b_view c2 <= b_view (lock (loc s r));
    vf_avail : b_qc b = b_hash genesis \/
               exists c1 c2, U s (b_qc b) = Some c1 /\ U s (b_qc c1) = Some c2
  }.

  Record lock_facts (s : state) (l : block) : Prop := {
    lf_in : U s (b_hash l) = Some l;
    lf_cert : certified s (b_hash l)
  }.

  Record inv (s : state) : Prop := {
    i_votes : forall r h, honest r = true -> voted s r h ->
                          exists b, b_hash b = h /\ vote_facts s r b;
    i_lock : forall r, honest r = true -> lock_facts s (lock (loc s r))
                                          /\ b_view (lock (loc s r)) <= lastVoted (loc s r);
    i_vlock : forall r h, honest r = true -> lock_facts s (vote_lock s r h);
    (* order: earlier (lower-view) votes constrain the lock seen by later votes *)
    i_order : forall r hb hc b c c1 c2, honest r = true ->
        voted s r hb -> voted s r hc ->
        U s hb = Some b -> U s hc = Some c -> b_view b < b_view c ->
        U s (b_qc b) = Some c1 -> U s (b_qc c1) = Some c2 ->
        b_view c2 <= b_view (vote_lock s r hc);
    i_unique : forall r h1 h2 b1 b2, honest r = true -> voted s r h1 -> voted s r h2 ->
        U s h1 = Some b1 -> U s h2 = Some b2 -> b_view b1 = b_view b2 -> h1 = h2;
    i_nogp : U s (b_parent genesis) = None;
    i_nogqc : U s (b_qc genesis) = None;
    i_gen : U s (b_hash genesis) = Some genesis
  }.

  (* certified blocks are well formed: derived from the honest voter every quorum contains *)
  Lemma qc_of_certified s : uwf (U s) -> inv s ->
    forall h b, certified s h -> h <> b_hash genesis -> U s h = Some b ->
        certified s (b_qc b) /\ b_parent b = b_qc b /\ 0 < b_view b /\
        exists c1, U s (b_qc b) = Some c1 /\ b_view c1 < b_view b.
  Proof.
    intros W I h b [->|(S & ND & L & M & V)] N E; [congruence|].
    destruct (quorum_has_honest S ND L M) as (r & In & Hr).
    destruct (i_votes _ I r h Hr (V _ In)) as (b' & Hb' & F).
    assert (b' = b) by (pose proof (vf_in _ _ _ F) as X; rewrite Hb', E in X; congruence). subst b'.
    destruct (vf_c1 _ _ _ F) as (c1 & E1 & V1 & _).
    repeat split; eauto using vf_cert, vf_parent, vf_pos.
  Qed.

  Lemma new_lock_cases Uu b l :
    new_lock Uu b l = l \/
    exists c1 c2, Uu (b_qc b) = Some c1 /\ Uu (b_qc c1) = Some c2 /\ b_view l < b_view c2
                  /\ new_lock Uu b l = c2.
  Proof.
    unfold new_lock. destruct (Uu (b_qc b)) as [c1|] eqn:E1; auto.
    destruct (Uu (b_qc c1)) as [c2|] eqn:E2; auto.
    destruct (N.ltb_spec (b_view l) (b_view c2)); auto. right. eauto 10.
  Qed.

  Lemma new_lock_ge Uu b l : b_view l <= b_view (new_lock Uu b l).
  Proof. destruct (new_lock_cases Uu b l) as [->|(c1&c2&_&_&L&->)]; lia. Qed.

  Lemma new_lock_twoback Uu b l c1 c2 :
    Uu (b_qc b) = Some c1 -> Uu (b_qc c1) = Some c2 -> b_view c2 <= b_view (new_lock Uu b l).
  Proof.
    intros E1 E2. unfold new_lock. rewrite E1, E2.
    destruct (N.ltb_spec (b_view l) (b_view c2)); lia.
  Qed.



  Lemma qsize_pos_cert s h : (forall i k, voted s i k -> False) -> certified s h -> h = b_hash genesis.
  Proof.
    intros NV [->|(S & ND & L & M & V)]; auto.
    destruct (quorum_has_honest S ND L M) as (r & In & _). destruct (NV _ _ (V _ In)).
  Qed.

  Lemma inv_init : inv init.
  Proof.
    constructor; simpl; try (intros; tauto).
    - intros r _. split; [constructor; simpl|rewrite genesis_view; lia].
      now rewrite N.eqb_refl. now left.
    - intros r h _. constructor; simpl. now rewrite N.eqb_refl. now left.
    - destruct (N.eqb_spec (b_parent genesis) (b_hash genesis)); congruence.
    - destruct (N.eqb_spec (b_qc genesis) (b_hash genesis)); congruence.
    - now rewrite N.eqb_refl.
  Qed.

  Lemma lock_facts_mono s s' l : step s s' -> lock_facts s l -> lock_facts s' l.
  Proof.
    intros St [A B]. constructor; [eapply step_U_mono|eapply step_certified_mono]; eauto.
  Qed.

  (* lookups of hashes that already resolve are unchanged by any step *)
  Lemma step_U_some_inv s s' h x y : step s s' -> U s h = Some x -> U s' h = Some y -> x = y.
  Proof. intros St E E'. rewrite (step_U_mono _ _ _ _ St E) in E'. congruence. Qed.

  Lemma vote_facts_frame s s' r b :
    step s s' -> inv s ->
    vote_facts s r b ->
    lastVoted (loc s r) <= lastVoted (loc s' r) ->
    b_view (lock (loc s r)) <= b_view (lock (loc s' r)) ->
    vote_lock s' r (b_hash b) = vote_lock s r (b_hash b) ->
    U s' (b_qc genesis) = None ->
    vote_facts s' r b.
  Proof.
    intros St I F LV LK VL G0'.
    destruct F as [Fin Fview Fpos (c1 & E1 & V1 & Rule) Fcert Fpar Flv Ftb Fav].
    constructor; auto.
    - eapply step_U_mono; eauto.
    - lia.
    - exists c1. rewrite VL. split; [eapply step_U_mono; eauto|split; auto].
      destruct Rule; auto. right. eapply anc_mono; [|eauto]. intros; eapply step_U_mono; eauto.
    - eapply step_certified_mono; eauto.
    - rewrite VL; auto.
    - intros d1 d2 D1 D2.
      pose proof (step_U_some_inv _ _ _ _ _ St E1 D1) as <-.
      destruct Fav as [Eg|(e1 & e2 & X1 & X2)].
      + (* qc is genesis: its qc never resolves *)
        rewrite Eg, (i_gen _ I) in E1. injection E1 as <-.
        rewrite G0' in D2. discriminate.
      + rewrite E1 in X1. injection X1 as <-.
        pose proof (step_U_some_inv _ _ _ _ _ St X2 D2) as <-.
        specialize (Ftb _ _ E1 X2). lia.
    - destruct Fav as [Eg|(e1 & e2 & X1 & X2)]; [now left|right].
      exists e1, e2; split; eapply step_U_mono; eauto.
  Qed.


  Lemma upd_same {A} (f : N -> A) k v : upd f k v k = v.
  Proof. unfold upd. now rewrite N.eqb_refl. Qed.
  Lemma upd_other {A} (f : N -> A) k v x : x <> k -> upd f k v x = f x.
  Proof. unfold upd. intros. destruct (N.eqb_spec x k); congruence. Qed.

  Lemma step_inv s s' : uwf (U s) -> inv s -> step s s' -> inv s'.
  Proof.
    intros W I St. pose proof St as St0. destruct St.
    - (* add block *)
      assert (G0' : upd (U s) (b_hash b) (Some b) (b_qc genesis) = None).
      { rewrite upd_other; auto using i_nogqc. }
      constructor; simpl.
      + intros r h Hr V. destruct (i_votes _ I r h Hr V) as (x & Hx & F). exists x; split; auto.
        eapply (vote_facts_frame _ _ _ _ St0 I F); simpl; auto; lia.
      + intros r Hr. destruct (i_lock _ I r Hr). split; auto. eapply lock_facts_mono; eauto.
      + intros r h Hr. eapply lock_facts_mono; eauto using i_vlock.
      + intros r hb hc x y c1 c2 Hr Vb Vc Eb Ec Lt E1 E2.
        destruct (i_votes _ I r hb Hr Vb) as (x' & Hx' & Fx).
        destruct (i_votes _ I r hc Hr Vc) as (y' & Hy' & Fy).
        pose proof (vf_in _ _ _ Fx) as Ix. pose proof (vf_in _ _ _ Fy) as Iy.
        rewrite Hx' in Ix. rewrite Hy' in Iy.
        pose proof (step_U_some_inv _ _ _ _ _ St0 Ix Eb) as <-.
        pose proof (step_U_some_inv _ _ _ _ _ St0 Iy Ec) as <-.
        destruct (vf_c1 _ _ _ Fx) as (d1 & D1 & _).
        pose proof (step_U_some_inv _ _ _ _ _ St0 D1 E1) as <-.
        destruct (vf_avail _ _ _ Fx) as [Eg|(e1 & e2 & X1 & X2)].
        * rewrite Eg, (i_gen _ I) in D1. injection D1 as <-. simpl in E2. rewrite G0' in E2. discriminate.
        * rewrite D1 in X1. injection X1 as <-.
          pose proof (step_U_some_inv _ _ _ _ _ St0 X2 E2) as <-.
          eapply (i_order _ I r hb hc); eauto.
      + intros r h1 h2 x y Hr V1 V2 E1 E2 Q.
        destruct (i_votes _ I r h1 Hr V1) as (x' & Hx' & Fx).
        destruct (i_votes _ I r h2 Hr V2) as (y' & Hy' & Fy).
        pose proof (vf_in _ _ _ Fx) as Ix. pose proof (vf_in _ _ _ Fy) as Iy.
        rewrite Hx' in Ix. rewrite Hy' in Iy.
        pose proof (step_U_some_inv _ _ _ _ _ St0 Ix E1) as <-.
        pose proof (step_U_some_inv _ _ _ _ _ St0 Iy E2) as <-.
        eapply (i_unique _ I r); eauto.
      + rewrite upd_other; auto using i_nogp.
      + exact G0'.
      + exact (step_U_mono _ _ _ _ St0 (i_gen _ I)).
    - (* byzantine vote *)
      assert (HV : forall r k, honest r = true -> (voted s r k \/ r = i /\ k = h) -> voted s r k).
      { intros r k Hr [X|[-> _]]; auto. congruence. }
      constructor; simpl.
      + intros r k Hr V. apply HV in V; auto. destruct (i_votes _ I r k Hr V) as (x & Hx & F).
        exists x; split; auto.
        eapply (vote_facts_frame _ _ _ _ St0 I F); simpl; auto using i_nogqc; lia.
      + intros r Hr. destruct (i_lock _ I r Hr). split; auto. eapply lock_facts_mono; eauto.
      + intros r k Hr. eapply lock_facts_mono; eauto using i_vlock.
      + intros r hb hc x y c1 c2 Hr Vb Vc. apply HV in Vb; auto. apply HV in Vc; auto.
        eapply (i_order _ I r hb hc); eauto.
      + intros r h1 h2 x y Hr V1 V2. apply HV in V1; auto. apply HV in V2; auto.
        eapply (i_unique _ I r); eauto.
      + apply (i_nogp _ I). + apply (i_nogqc _ I). + apply (i_gen _ I).
    - (* stop voting *)
      assert (LV : forall x, lastVoted (loc s x) <=
                     lastVoted (upd (loc s) r {| lastVoted := N.max (lastVoted (loc s r)) v;
                                                 lock := lock (loc s r) |} x)).
      { intros x. unfold upd. destruct (N.eqb_spec x r); subst; simpl; lia. }
      assert (LK : forall x, lock (upd (loc s) r {| lastVoted := N.max (lastVoted (loc s r)) v;
                                                 lock := lock (loc s r) |} x) = lock (loc s x)).
      { intros x. unfold upd. destruct (N.eqb_spec x r); subst; simpl; auto. }
      constructor; simpl.
      + intros x k Hx V. destruct (i_votes _ I x k Hx V) as (y & Hy & F). exists y; split; auto.
        eapply (vote_facts_frame _ _ _ _ St0 I F); simpl; auto using i_nogqc.
        rewrite LK. lia.
      + intros x Hx. rewrite LK. destruct (i_lock _ I x Hx) as [A B]. split.
        * eapply lock_facts_mono; eauto.
        * eapply N.le_trans; [exact B|apply LV].
      + intros; eapply lock_facts_mono; eauto using i_vlock.
      + exact (i_order _ I).
      + exact (i_unique _ I).
      + apply (i_nogp _ I). + apply (i_nogqc _ I). + apply (i_gen _ I).
    - (* honest vote *)
      rename H into Hr, H0 into Eb, H1 into LVb, H2 into Ec1, H3 into Cq, H4 into Par,
             H5 into Vc1, H6 into Avail, H7 into Rule.
      set (l := lock (loc s r)) in *.
      set (s' := {| U := U s;
                voted := fun j k => voted s j k \/ (j = r /\ k = b_hash b);
                vote_lock := fun j k => if (N.eqb j r && N.eqb k (b_hash b))%bool
                                        then l else vote_lock s j k;
                loc := upd (loc s) r {| lastVoted := b_view b;
                                        lock := new_lock (U s) b l |} |}) in *.
      destruct (i_lock _ I r Hr) as [Lf Lv]. fold l in Lf, Lv.
      (* r has not voted for b before *)
      assert (Fresh : ~ voted s r (b_hash b)).
      { intros V. destruct (i_votes _ I r _ Hr V) as (x & Hx & F).
        assert (x = b) by (pose proof (vf_in _ _ _ F) as X; rewrite Hx, Eb in X; congruence). subst x.
        pose proof (vf_view _ _ _ F). lia. }
      assert (VLold : forall x k, voted s x k -> honest x = true ->
                                  vote_lock s' x k = vote_lock s x k).
      { intros x k V Hx. simpl. destruct (N.eqb_spec x r); simpl; auto.
        destruct (N.eqb_spec k (b_hash b)); simpl; auto. subst. contradiction. }
      assert (LV : forall x, lastVoted (loc s x) <= lastVoted (loc s' x)).
      { intros x. simpl. unfold upd. destruct (N.eqb_spec x r); subst; simpl; lia. }
      assert (LK : forall x, b_view (lock (loc s x)) <= b_view (lock (loc s' x))).
      { intros x. simpl. unfold upd. destruct (N.eqb_spec x r); subst; simpl; try lia.
        apply new_lock_ge. }
      assert (NewF : vote_facts s' r b).
      { constructor; simpl; auto.
        - rewrite upd_same; simpl; lia.
        - lia.
        - exists c1. rewrite !N.eqb_refl; simpl. auto.
        - eapply step_certified_mono; eauto.
        - rewrite !N.eqb_refl; simpl. lia.
        - intros d1 d2 D1 D2. rewrite upd_same; simpl. eapply new_lock_twoback; eauto.
        - destruct Avail as [|(c2 & E2)]; auto. right; eauto. }
      constructor.
      + intros x k Hx [V|[-> ->]].
        * destruct (i_votes _ I x k Hx V) as (y & Hy & F). exists y; split; auto.
          eapply (vote_facts_frame _ _ _ _ St0 I F); auto using i_nogqc.
          rewrite Hy. apply VLold; auto. apply (i_nogqc _ I).
        * exists b; split; auto.
      + intros x Hx. simpl. unfold upd. destruct (N.eqb_spec x r); simpl.
        * subst x. destruct (new_lock_cases (U s) b l) as [->|(d1 & d2 & D1 & D2 & Lt & ->)].
          -- split; [eapply lock_facts_mono; eauto|lia].
          -- rewrite Ec1 in D1. injection D1 as <-.
             assert (Nc1 : b_qc b <> b_hash genesis).
             { intros Eg. rewrite Eg, (i_gen _ I) in Ec1. injection Ec1 as <-.
               rewrite (i_nogqc _ I) in D2. discriminate. }
             destruct (qc_of_certified _ W I _ _ Cq Nc1 Ec1) as (Cq2 & _ & _ & e & Ee & Ve).
             rewrite D2 in Ee. injection Ee as <-.
             split; [|lia]. eapply lock_facts_mono; eauto. constructor.
             ++ rewrite (W _ _ D2). exact D2.
             ++ rewrite (W _ _ D2). exact Cq2.
        * destruct (i_lock _ I x Hx). split; auto. eapply lock_facts_mono; eauto.
      + intros x k Hx. simpl.
        destruct (N.eqb x r && N.eqb k (b_hash b))%bool; eapply lock_facts_mono; eauto using i_vlock.
      + intros x hb hc y z d1 d2 Hx Vb Vc Ey Ez Lt D1 D2. simpl in Ey, Ez, D1, D2.
        destruct Vc as [Vc|[-> ->]]; destruct Vb as [Vb|[Xr Xh]].
        * rewrite VLold; auto. eapply (i_order _ I x hb hc); eauto.
        * subst x hb. (* new vote is the earlier one: impossible *)
          rewrite Eb in Ey. injection Ey as <-.
          destruct (i_votes _ I r hc Hr Vc) as (z' & Hz' & Fz).
          assert (z' = z) by (pose proof (vf_in _ _ _ Fz) as X; rewrite Hz', Ez in X; congruence). subst z'.
          pose proof (vf_view _ _ _ Fz). lia.
        * (* new vote is the later one *)
          simpl. rewrite !N.eqb_refl; simpl.
          destruct (i_votes _ I r hb Hr Vb) as (y' & Hy' & Fy).
          assert (y' = y) by (pose proof (vf_in _ _ _ Fy) as X; rewrite Hy', Ey in X; congruence). subst y'.
          eapply (vf_twoback _ _ _ Fy); eauto.
        * subst hb. rewrite Ey in Ez. injection Ez as <-. lia.
      + intros x h1 h2 y z Hx V1 V2 E1 E2 Q. simpl in E1, E2.
        destruct V1 as [V1|[-> ->]]; destruct V2 as [V2|[X2 Y2]].
        * eapply (i_unique _ I x); eauto.
        * subst x h2. rewrite Eb in E2. injection E2 as <-.
          destruct (i_votes _ I r h1 Hr V1) as (y' & Hy' & Fy).
          assert (y' = y) by (pose proof (vf_in _ _ _ Fy) as X; rewrite Hy', E1 in X; congruence). subst y'.
          pose proof (vf_view _ _ _ Fy). lia.
        * rewrite Eb in E1. injection E1 as <-.
          destruct (i_votes _ I r h2 Hr V2) as (z' & Hz' & Fz).
          assert (z' = z) by (pose proof (vf_in _ _ _ Fz) as X; rewrite Hz', E2 in X; congruence). subst z'.
          pose proof (vf_view _ _ _ Fz). lia.
        * subst; auto.
      + apply (i_nogp _ I). + apply (i_nogqc _ I). + apply (i_gen _ I).
  Qed.

  Lemma reach_inv s : reach s -> inv s.
  Proof.
    induction 1; [apply inv_init|]. eapply step_inv; eauto using reach_uwf.
  Qed.

  (* ---------- consequences of the invariant ---------- *)
  Section WithInv.
  Variable s : state.
  Hypothesis R : reach s.
  Hypothesis I : inv s.

  Lemma certified_voter h : certified s h -> h <> b_hash genesis ->
    exists S, NoDup S /\ (qsize <= length S)%nat /\
              (forall i, In i S -> member i = true) /\ (forall i, In i S -> voted s i h).
  Proof. intros [->|X] N; [congruence|exact X]. Qed.

  Lemma one_per_view h1 h2 b1 b2 :
    certified s h1 -> certified s h2 -> U s h1 = Some b1 -> U s h2 = Some b2 ->
    b_view b1 = b_view b2 -> h1 = h2.
  Proof.
    intros C1 C2 E1 E2 V.
    pose proof (genesis_in _ R) as G.
    destruct (N.eq_dec h1 (b_hash genesis)) as [->|N1];
      destruct (N.eq_dec h2 (b_hash genesis)) as [->|N2]; auto.
    - (* h1 genesis, h2 not: view b2 > 0 *)
      rewrite G in E1. injection E1 as <-.
      destruct (qc_of_certified _ (reach_uwf _ R) I _ _ C2 N2 E2) as (_ & _ & P & _). rewrite genesis_view in V. lia.
    - rewrite G in E2. injection E2 as <-.
      destruct (qc_of_certified _ (reach_uwf _ R) I _ _ C1 N1 E1) as (_ & _ & P & _). rewrite genesis_view in V. lia.
    - destruct (certified_voter _ C1 N1) as (S1 & ND1 & L1 & M1 & V1).
      destruct (certified_voter _ C2 N2) as (S2 & ND2 & L2 & M2 & V2).
      destruct (quorum_inter S1 S2 ND1 ND2 L1 L2 M1 M2) as (r & I1 & I2 & Hr).
      eapply (i_unique _ I r); eauto.
  Qed.

  Lemma anc_view x t :
    anc (U s) x t -> certified s (b_hash x) -> U s (b_hash x) = Some x ->
    t = x \/ (certified s (b_hash t) /\ U s (b_hash t) = Some t /\ b_view t < b_view x).
  Proof.
    induction 1 as [|b p t Hp A IH]; auto. intros C E.
    destruct (N.eq_dec (b_hash b) (b_hash genesis)) as [Eg|Ng].
    - rewrite Eg, (genesis_in _ R) in E. injection E as <-.
      rewrite (i_nogp _ I) in Hp. discriminate.
    - destruct (qc_of_certified _ (reach_uwf _ R) I _ _ C Ng E) as (Cq & Pq & _ & c1 & Ec1 & Vc1).
      rewrite Pq, Ec1 in Hp. injection Hp as <-.
      pose proof (reach_uwf _ R _ _ Ec1) as Hh. rewrite <- Hh in Cq, Ec1.
      right. destruct (IH Cq Ec1) as [->|(Ct & Et & Vt)]; auto. repeat split; auto. lia.
  Qed.

  (* the three-chain *)
  Definition three_chain (b3 b2 b1 : block) : Prop :=
    U s (b_hash b1) = Some b1 /\ U s (b_hash b2) = Some b2 /\ U s (b_hash b3) = Some b3 /\
    b_parent b1 = b_hash b2 /\ b_parent b2 = b_hash b3 /\
    b_view b2 = b_view b3 + 1 /\ b_view b1 = b_view b2 + 1 /\
    certified s (b_hash b1).

  Lemma main_lemma b3 b2 b1 :
    three_chain b3 b2 b1 ->
    forall c, U s (b_hash c) = Some c -> certified s (b_hash c) -> b_view b3 <= b_view c ->
              anc (U s) c b3.
  Proof.
    intros (E1 & E2 & E3 & P1 & P2 & V2 & V1 & C1).
    pose proof (reach_uwf _ R) as W.
    assert (N1 : b_hash b1 <> b_hash genesis).
    { intros Eq. rewrite Eq, (genesis_in _ R) in E1. injection E1 as <-. rewrite genesis_view in V1. lia. }
    destruct (qc_of_certified _ (reach_uwf _ R) I _ _ C1 N1 E1) as (Cq1 & Pq1 & _ & c1 & Ec1 & _).
    assert (c1 = b2) by (rewrite <- Pq1, P1, E2 in Ec1; congruence). subst c1.
    assert (C2 : certified s (b_hash b2)) by (rewrite <- P1, Pq1; exact Cq1).
    assert (N2 : b_hash b2 <> b_hash genesis).
    { intros Eq. rewrite Eq, (genesis_in _ R) in E2. injection E2 as <-. rewrite genesis_view in V2. lia. }
    destruct (qc_of_certified _ (reach_uwf _ R) I _ _ C2 N2 E2) as (Cq2 & Pq2 & _ & c2 & Ec2 & _).
    assert (c2 = b3) by (rewrite <- Pq2, P2, E3 in Ec2; congruence). subst c2.
    assert (C3 : certified s (b_hash b3)) by (rewrite <- P2, Pq2; exact Cq2).
    intros c. remember (N.to_nat (b_view c)) as m eqn:Hm. revert c Hm.
    induction m as [m IHm] using lt_wf_ind. intros c Hm Ec Cc Vc.
    destruct (N.eq_dec (b_view c) (b_view b3)) as [Q3|Q3].
    { assert (b_hash c = b_hash b3) by (eapply one_per_view; eauto).
      assert (c = b3) by congruence. subst. constructor. }
    destruct (N.eq_dec (b_view c) (b_view b2)) as [Q2|Q2].
    { assert (b_hash c = b_hash b2) by (eapply one_per_view; eauto).
      assert (c = b2) by congruence. subst. econstructor; [rewrite P2; eauto|constructor]. }
    destruct (N.eq_dec (b_view c) (b_view b1)) as [Q1|Q1].
    { assert (b_hash c = b_hash b1) by (eapply one_per_view; eauto).
      assert (c = b1) by congruence. subst.
      econstructor; [rewrite P1; eauto|]. econstructor; [rewrite P2; eauto|constructor]. }
    assert (Vgt : b_view b1 < b_view c) by lia.
    assert (Nc : b_hash c <> b_hash genesis).
    { intros Eq. rewrite Eq, (genesis_in _ R) in Ec. injection Ec as <-. rewrite genesis_view in Vgt. lia. }
    destruct (certified_voter _ Cc Nc) as (Sc & NDc & Lc & Mc & Vc').
    destruct (certified_voter _ C1 N1) as (S1 & ND1 & L1 & M1 & V1').
    destruct (quorum_inter Sc S1 NDc ND1 Lc L1 Mc M1) as (r & Ic & I1 & Hr).
    destruct (i_votes _ I r _ Hr (Vc' _ Ic)) as (c' & Hc' & F).
    assert (c' = c) by (pose proof (vf_in _ _ _ F) as X; rewrite Hc', Ec in X; congruence). subst c'.
    destruct (vf_c1 _ _ _ F) as (d1 & Ed1 & Vd1 & Rule).
    pose proof (i_order _ I r (b_hash b1) (b_hash c) b1 c b2 b3 Hr (V1' _ I1) (Vc' _ Ic) E1 Ec Vgt) as Ord.
    rewrite Pq1 in P1. rewrite Pq2 in P2.
    rewrite P1 in Ord. specialize (Ord E2). rewrite P2 in Ord. specialize (Ord E3).
    pose proof (W _ _ Ed1) as Hd1.
    destruct Rule as [Live|Safe].
    - (* liveness branch: qc block newer than the lock *)
      assert (A : anc (U s) d1 b3).
      { eapply (IHm (N.to_nat (b_view d1))); try reflexivity; try lia.
        - rewrite Hd1; exact Ed1.
        - rewrite Hd1. exact (vf_cert _ _ _ F). }
      econstructor; [rewrite (vf_parent _ _ _ F); exact Ed1|exact A].
    - (* safety branch: extends the lock *)
      set (l := vote_lock s r (b_hash c)) in *.
      destruct (i_vlock _ I r (b_hash c) Hr) as [Lin Lcert]. fold l in Lin, Lcert.
      pose proof (vf_lockview _ _ _ F) as Lv. fold l in Lv.
      assert (A : anc (U s) l b3).
      { eapply (IHm (N.to_nat (b_view l))); try reflexivity; try lia; auto. }
      eapply anc_trans; eauto.
  Qed.

  Lemma three_chain_tail_certified b3 b2 b1 : three_chain b3 b2 b1 -> certified s (b_hash b3).
  Proof.
    intros (E1 & E2 & E3 & P1 & P2 & V2 & V1 & C1).
    assert (N1 : b_hash b1 <> b_hash genesis).
    { intros Eq. rewrite Eq, (genesis_in _ R) in E1. injection E1 as <-. rewrite genesis_view in V1. lia. }
    destruct (qc_of_certified _ (reach_uwf _ R) I _ _ C1 N1 E1) as (Cq1 & Pq1 & _ & c1 & Ec1 & _).
    assert (C2 : certified s (b_hash b2)) by (rewrite <- P1, Pq1; exact Cq1).
    assert (N2 : b_hash b2 <> b_hash genesis).
    { intros Eq. rewrite Eq, (genesis_in _ R) in E2. injection E2 as <-. rewrite genesis_view in V2. lia. }
    destruct (qc_of_certified _ (reach_uwf _ R) I _ _ C2 N2 E2) as (Cq2 & Pq2 & _).
    rewrite <- P2, Pq2; exact Cq2.
  Qed.

  Theorem direct_commits_ordered b3 b2 b1 c3 c2 c1 :
    three_chain b3 b2 b1 -> three_chain c3 c2 c1 ->
    anc (U s) c3 b3 \/ anc (U s) b3 c3.
  Proof.
    intros Tb Tc.
    pose proof (three_chain_tail_certified _ _ _ Tb) as Cb.
    pose proof (three_chain_tail_certified _ _ _ Tc) as Cc.
    destruct (N.le_ge_cases (b_view b3) (b_view c3)).
    - left. eapply main_lemma; eauto; apply Tc.
    - right. eapply main_lemma; eauto; try apply Tb; lia.
  Qed.

  End WithInv.

  Theorem chained_safety s b3 b2 b1 c3 c2 c1 :
    reach s -> three_chain s b3 b2 b1 -> three_chain s c3 c2 c1 ->
    anc (U s) c3 b3 \/ anc (U s) b3 c3.
  Proof. intros R. eapply direct_commits_ordered; eauto using reach_inv. Qed.
End Protocol.

(* Abstract global model of chained HotStuff and simplified HotStuff (C01): a transition system
   over the set of existing blocks, the set of existing votes, and per honest replica its
   (lastVoted, lock, committed head, committed log).  The network is not represented: any block
   may come to exist, Byzantine members vote for anything, honest replicas vote under exactly
   the guards the (repaired) Go code enforces, and commit along the walk of commitInner.
   Main results: direct commits are ancestry-ordered; honest ledgers are hash-linked chains
   from genesis with increasing views and are pairwise prefix-related, in every reachable state. *)
From Coq Require Import List NArith Lia Bool Arith.
From HS Require Import Protocol.Core.
Import ListNotations.
Open Scope N_scope.

Inductive ruleset := RChained | RSimple.

Record local := { lastVoted : view; lock : block; head : block; log : list block }.

Record state := {
  blocks : list block;                   (* every block that exists anywhere, newest first *)
  votes : list (rid * hash);             (* every vote signature that exists *)
  vlocks : list (rid * hash * block);    (* ghost: lock against which an honest vote was checked *)
  locs : list (rid * local) }.

Fixpoint votedP (l : list (rid * hash)) (j : rid) (k : hash) : Prop :=
  match l with
  | [] => False
  | (r, h) :: t => votedP t j k \/ (j = r /\ k = h)
  end.

Fixpoint vlockF (g : block) (l : list (rid * hash * block)) (j : rid) (k : hash) : block :=
  match l with
  | [] => g
  | (r, h, b) :: t => if (N.eqb j r && N.eqb k h)%bool then b else vlockF g t j k
  end.

Fixpoint locF (d : local) (l : list (rid * local)) (x : rid) : local :=
  match l with
  | [] => d
  | (r, lc) :: t => if N.eqb x r then lc else locF d t x
  end.

Section Protocol.
  Variable rs : ruleset.
  Variable member : rid -> bool.
  Variable honest : rid -> bool.
  Variable qsize : nat.
  Hypothesis quorum_inter : forall A B : list rid,
      NoDup A -> NoDup B -> (qsize <= length A)%nat -> (qsize <= length B)%nat ->
      (forall i, In i A -> member i = true) -> (forall i, In i B -> member i = true) ->
      exists i, In i A /\ In i B /\ honest i = true.
  Hypothesis quorum_has_honest : forall A : list rid,
      NoDup A -> (qsize <= length A)%nat -> (forall i, In i A -> member i = true) ->
      exists i, In i A /\ honest i = true.

  Variable genesis : block.
  Hypothesis genesis_view : b_view genesis = 0.
  Hypothesis genesis_parent_ne : b_parent genesis <> b_hash genesis.
  Hypothesis genesis_qc_ne : b_qc genesis <> b_hash genesis.

  Definition init_local : local := {| lastVoted := 0; lock := genesis; head := genesis; log := [] |}.

  Definition U (s : state) : universe := lookup_block (blocks s).
  Definition voted (s : state) : rid -> hash -> Prop := votedP (votes s).
  Definition vote_lock (s : state) : rid -> hash -> block := vlockF genesis (vlocks s).
  Definition loc (s : state) : rid -> local := locF init_local (locs s).

  Definition certified (s : state) (h : hash) : Prop :=
    h = b_hash genesis \/
    exists S, NoDup S /\ (qsize <= length S)%nat /\
              (forall i, In i S -> member i = true) /\ (forall i, In i S -> voted s i h).

  (* new lock after processing b (CommitRule's lock update) *)
  Definition new_lock (Uu : universe) (b : block) (l : block) : block :=
    match Uu (b_qc b) with
    | Some c1 => match Uu (b_qc c1) with
                 | Some c2 => if b_view l <? b_view c2 then c2 else l
                 | None => l
                 end
    | None => l
    end.

  (* the vote rule of the ruleset, evaluated against lock l for proposal b whose QC certifies c1 *)
  Definition vote_rule (Uu : universe) (l b c1 : block) : Prop :=
    match rs with
    | RChained => b_view l < b_view c1 \/ anc Uu b l
    | RSimple => b_view l <= b_view c1
    end.

  (* b3 <- b2 <- b1: direct parents, consecutive views, the newest one certified *)
  Definition three_chain (s : state) (b3 b2 b1 : block) : Prop :=
    U s (b_hash b1) = Some b1 /\ U s (b_hash b2) = Some b2 /\ U s (b_hash b3) = Some b3 /\
    b_parent b1 = b_hash b2 /\ b_parent b2 = b_hash b3 /\
    b_view b2 = b_view b3 + 1 /\ b_view b1 = b_view b2 + 1 /\
    certified s (b_hash b1).

  (* what the commit rule of the ruleset checks on the QC chain b3 <-qc- b2 <-qc- b1, b1 certified *)
  Definition commit_rule (s : state) (b3 b2 b1 : block) : Prop :=
    U s (b_hash b1) = Some b1 /\ U s (b_qc b1) = Some b2 /\ U s (b_qc b2) = Some b3 /\
    certified s (b_hash b1) /\
    match rs with
    | RChained => b_parent b1 = b_hash b2 /\ b_view b1 = b_view b2 + 1 /\
                  b_parent b2 = b_hash b3 /\ b_view b2 = b_view b3 + 1
    | RSimple => b_view b3 + 2 = b_view b1
    end.

  Definition add_block (s : state) (b : block) : state :=
    {| blocks := b :: blocks s; votes := votes s; vlocks := vlocks s; locs := locs s |}.
  Definition add_vote (s : state) (i : rid) (h : hash) : state :=
    {| blocks := blocks s; votes := (i, h) :: votes s; vlocks := vlocks s; locs := locs s |}.
  Definition set_loc (s : state) (r : rid) (l : local) : state :=
    {| blocks := blocks s; votes := votes s; vlocks := vlocks s; locs := (r, l) :: locs s |}.
  Definition cast_vote (s : state) (r : rid) (b : block) : state :=
    {| blocks := blocks s; votes := (r, b_hash b) :: votes s;
       vlocks := (r, b_hash b, lock (loc s r)) :: vlocks s;
       locs := (r, {| lastVoted := b_view b; lock := new_lock (U s) b (lock (loc s r));
                      head := head (loc s r); log := log (loc s r) |}) :: locs s |}.

  Inductive step : state -> state -> Prop :=
  | step_addblock s b :
      U s (b_hash b) = None ->
      b_hash b <> b_parent genesis -> b_hash b <> b_qc genesis ->
      step s (add_block s b)
  | step_byzvote s i h :
      honest i = false ->
      step s (add_vote s i h)
  | step_stop s r v :
      honest r = true ->
      step s (set_loc s r {| lastVoted := N.max (lastVoted (loc s r)) v; lock := lock (loc s r);
                             head := head (loc s r); log := log (loc s r) |})
  | step_vote s r b c1 :
      honest r = true ->
      U s (b_hash b) = Some b ->
      lastVoted (loc s r) < b_view b ->
      U s (b_qc b) = Some c1 ->
      certified s (b_qc b) ->
      b_parent b = b_qc b ->
      b_view c1 < b_view b ->
      (* the block the lock may move to must be available, unless c1 is genesis *)
      (b_qc b = b_hash genesis \/ exists c2, U s (b_qc c1) = Some c2) ->
      vote_rule (U s) (lock (loc s r)) b c1 ->
      step s (cast_vote s r b)
  | step_commit s r b3 b2 b1 l :
      honest r = true ->
      commit_rule s b3 b2 b1 ->
      segment (U s) b3 (b_view (head (loc s r))) l ->
      step s (set_loc s r {| lastVoted := lastVoted (loc s r); lock := lock (loc s r);
                             head := if b_view (head (loc s r)) <? b_view b3 then b3 else head (loc s r);
                             log := log (loc s r) ++ l |}).

  Definition init : state := {| blocks := [genesis]; votes := []; vlocks := []; locs := [] |}.

  Inductive reach : state -> Prop :=
  | reach_init : reach init
  | reach_step s s' : reach s -> step s s' -> reach s'.

  (* ---------- basic monotonicity ---------- *)
  Lemma step_U_mono s s' h b : step s s' -> U s h = Some b -> U s' h = Some b.
  Proof.
    destruct 1; simpl; auto. unfold U; simpl. intros Hb.
    destruct (N.eqb_spec h (b_hash b0)); subst; auto. unfold U in H. congruence.
  Qed.

  Lemma step_voted_mono s s' i h : step s s' -> voted s i h -> voted s' i h.
  Proof. destruct 1; unfold voted; simpl; auto. Qed.

  Lemma step_certified_mono s s' h : step s s' -> certified s h -> certified s' h.
  Proof.
    intros St [->|(S & ND & L & M & V)]; [now left|right].
    exists S; repeat split; auto. intros; eapply step_voted_mono; eauto.
  Qed.

  Lemma genesis_in s : reach s -> U s (b_hash genesis) = Some genesis.
  Proof.
    induction 1. unfold U; simpl. now rewrite N.eqb_refl.
    eapply step_U_mono; eauto.
  Qed.

  Lemma reach_uwf s : reach s -> uwf (U s).
  Proof.
    induction 1.
    - intros h b. unfold U; simpl. destruct (N.eqb_spec h (b_hash genesis)); congruence.
    - destruct H0; auto. intros h x. unfold U; simpl.
      destruct (N.eqb_spec h (b_hash b)); [intros [= <-]; auto| apply IHreach].
  Qed.

  (* ---------- the invariant about honest votes ---------- *)
  Record vote_facts (s : state) (r : rid) (b : block) : Prop := {
    vf_in : U s (b_hash b) = Some b;
    vf_view : b_view b <= lastVoted (loc s r);
    vf_pos : 0 < b_view b;
    vf_c1 : exists c1, U s (b_qc b) = Some c1 /\ b_view c1 < b_view b
                       /\ (b_view (vote_lock s r (b_hash b)) < b_view c1
                           \/ anc (U s) b (vote_lock s r (b_hash b)));
    vf_cert : certified s (b_qc b);
    vf_parent : b_parent b = b_qc b;
    vf_lockview : b_view (vote_lock s r (b_hash b)) < b_view b;
    vf_twoback : forall c1 c2, U s (b_qc b) = Some c1 -> U s (b_qc c1) = Some c2 ->
                               b_view c2 <= b_view (lock (loc s r));
    vf_avail : b_qc b = b_hash genesis \/
               exists c1 c2, U s (b_qc b) = Some c1 /\ U s (b_qc c1) = Some c2
  }.

  Record lock_facts (s : state) (l : block) : Prop := {
    lf_in : U s (b_hash l) = Some l;
    lf_cert : certified s (b_hash l)
  }.

  Definition good (s : state) (x : block) : Prop :=
    certified s (b_hash x) /\ U s (b_hash x) = Some x.

  (* a block a replica may have committed directly: the tail of a three-chain *)
  Definition committable (s : state) (b3 : block) : Prop := exists b2 b1, three_chain s b3 b2 b1.

  Record ledger_facts (s : state) (r : rid) : Prop := {
    lg_head : head (loc s r) = genesis \/ committable s (head (loc s r));
    lg_good : good s (head (loc s r));
    lg_seg : segment (U s) (head (loc s r)) 0 (log (loc s r))
  }.

  Record inv (s : state) : Prop := {
    i_votes : forall r h, honest r = true -> voted s r h ->
                          exists b, b_hash b = h /\ vote_facts s r b;
    i_lock : forall r, honest r = true -> lock_facts s (lock (loc s r))
                                          /\ b_view (lock (loc s r)) <= lastVoted (loc s r);
    i_vlock : forall r h, honest r = true -> lock_facts s (vote_lock s r h);
    (* order: earlier (lower-view) votes constrain the lock seen by later votes *)
    i_order : forall r hb hc b c c1 c2, honest r = true ->
        voted s r hb -> voted s r hc ->
        U s hb = Some b -> U s hc = Some c -> b_view b < b_view c ->
        U s (b_qc b) = Some c1 -> U s (b_qc c1) = Some c2 ->
        b_view c2 <= b_view (vote_lock s r hc);
    i_unique : forall r h1 h2 b1 b2, honest r = true -> voted s r h1 -> voted s r h2 ->
        U s h1 = Some b1 -> U s h2 = Some b2 -> b_view b1 = b_view b2 -> h1 = h2;
    i_nogp : U s (b_parent genesis) = None;
    i_nogqc : U s (b_qc genesis) = None;
    i_gen : U s (b_hash genesis) = Some genesis
  }.

  (* certified blocks are well formed: derived from the honest voter every quorum contains *)
  Lemma qc_of_certified s : uwf (U s) -> inv s ->
    forall h b, certified s h -> h <> b_hash genesis -> U s h = Some b ->
        certified s (b_qc b) /\ b_parent b = b_qc b /\ 0 < b_view b /\
        exists c1, U s (b_qc b) = Some c1 /\ b_view c1 < b_view b.
  Proof.
    intros W I h b [->|(S & ND & L & M & V)] N E; [congruence|].
    destruct (quorum_has_honest S ND L M) as (r & In & Hr).
    destruct (i_votes _ I r h Hr (V _ In)) as (b' & Hb' & F).
    assert (b' = b) by (pose proof (vf_in _ _ _ F) as X; rewrite Hb', E in X; congruence). subst b'.
    destruct (vf_c1 _ _ _ F) as (c1 & E1 & V1 & _).
    repeat split; eauto using vf_cert, vf_parent, vf_pos.
  Qed.

  Lemma new_lock_cases Uu b l :
    new_lock Uu b l = l \/
    exists c1 c2, Uu (b_qc b) = Some c1 /\ Uu (b_qc c1) = Some c2 /\ b_view l < b_view c2
                  /\ new_lock Uu b l = c2.
  Proof.
    unfold new_lock. destruct (Uu (b_qc b)) as [c1|] eqn:E1; auto.
    destruct (Uu (b_qc c1)) as [c2|] eqn:E2; auto.
    destruct (N.ltb_spec (b_view l) (b_view c2)); auto. right. eauto 10.
  Qed.

  Lemma new_lock_ge Uu b l : b_view l <= b_view (new_lock Uu b l).
  Proof. destruct (new_lock_cases Uu b l) as [->|(c1&c2&_&_&L&->)]; lia. Qed.

  Lemma new_lock_twoback Uu b l c1 c2 :
    Uu (b_qc b) = Some c1 -> Uu (b_qc c1) = Some c2 -> b_view c2 <= b_view (new_lock Uu b l).
  Proof.
    intros E1 E2. unfold new_lock. rewrite E1, E2.
    destruct (N.ltb_spec (b_view l) (b_view c2)); lia.
  Qed.

  (* ---------- static consequences of the invariant in one state ---------- *)
  Section Static.
    Variable s : state.
    Hypothesis W : uwf (U s).
    Hypothesis I : inv s.

    Lemma certified_voter h : certified s h -> h <> b_hash genesis ->
      exists S, NoDup S /\ (qsize <= length S)%nat /\
                (forall i, In i S -> member i = true) /\ (forall i, In i S -> voted s i h).
    Proof. intros [->|X] N; [congruence|exact X]. Qed.

    Lemma one_per_view h1 h2 b1 b2 :
      certified s h1 -> certified s h2 -> U s h1 = Some b1 -> U s h2 = Some b2 ->
      b_view b1 = b_view b2 -> h1 = h2.
    Proof.
      intros C1 C2 E1 E2 V.
      pose proof (i_gen _ I) as G.
      destruct (N.eq_dec h1 (b_hash genesis)) as [->|N1];
        destruct (N.eq_dec h2 (b_hash genesis)) as [->|N2]; auto.
      - rewrite G in E1. injection E1 as <-.
        destruct (qc_of_certified _ W I _ _ C2 N2 E2) as (_ & _ & P & _). rewrite genesis_view in V. lia.
      - rewrite G in E2. injection E2 as <-.
        destruct (qc_of_certified _ W I _ _ C1 N1 E1) as (_ & _ & P & _). rewrite genesis_view in V. lia.
      - destruct (certified_voter _ C1 N1) as (S1 & ND1 & L1 & M1 & V1).
        destruct (certified_voter _ C2 N2) as (S2 & ND2 & L2 & M2 & V2).
        destruct (quorum_inter S1 S2 ND1 ND2 L1 L2 M1 M2) as (r & I1 & I2 & Hr).
        eapply (i_unique _ I r); eauto.
    Qed.

    (* the Tree interface of Core.v *)
    Lemma good_genesis : good s genesis.
    Proof. split; [now left | exact (i_gen _ I)]. Qed.

    Lemma good_in x : good s x -> U s (b_hash x) = Some x.
    Proof. intros [_ E]; exact E. Qed.

    Lemma good_parent x : good s x -> x <> genesis ->
      exists p, U s (b_parent x) = Some p /\ good s p /\ b_view p < b_view x.
    Proof.
      intros [C E] Nx.
      assert (Nh : b_hash x <> b_hash genesis).
      { intros Eq. rewrite Eq, (i_gen _ I) in E. congruence. }
      destruct (qc_of_certified _ W I _ _ C Nh E) as (Cq & Pq & _ & c1 & Ec1 & Vc1).
      exists c1. rewrite Pq. repeat split; auto.
      - now rewrite (W _ _ Ec1).
      - now rewrite (W _ _ Ec1).
    Qed.

    Lemma good_unique x y : good s x -> good s y -> b_view x = b_view y -> x = y.
    Proof.
      intros [Cx Ex] [Cy Ey] V.
      assert (b_hash x = b_hash y) by (eapply one_per_view; eauto). congruence.
    Qed.

    Local Notation tree L :=
      (L (U s) (good s) genesis W genesis_view good_genesis (i_nogp _ I) good_in good_parent good_unique).

    Lemma anc_view x t :
      anc (U s) x t -> good s x -> t = x \/ (good s t /\ b_view t < b_view x).
    Proof. apply (tree Core.anc_view). Qed.

    Lemma good_anc_gen x : good s x -> anc (U s) x genesis.
    Proof. apply (tree Core.good_anc_genesis). Qed.

    Lemma commit_ext hd lg b3 l :
      good s hd -> good s b3 -> (anc (U s) b3 hd \/ anc (U s) hd b3) ->
      segment (U s) hd 0 lg -> segment (U s) b3 (b_view hd) l ->
      segment (U s) (if b_view hd <? b_view b3 then b3 else hd) 0 (lg ++ l).
    Proof. apply (tree Core.commit_extend). Qed.

    Lemma seg_prefix x y lx ly :
      good s x -> good s y -> anc (U s) y x -> segment (U s) x 0 lx -> segment (U s) y 0 ly -> prefix lx ly.
    Proof. apply (tree Core.segments_prefix). Qed.

    Lemma seg0_genesis x l : segment (U s) x 0 l -> good s x ->
      linked genesis l /\ last_or genesis l = x /\ (forall y, In y l -> good s y).
    Proof. apply (tree Core.segment0_genesis). Qed.

    Lemma three_chain_certs b3 b2 b1 : three_chain s b3 b2 b1 ->
      certified s (b_hash b2) /\ certified s (b_hash b3) /\
      b_qc b1 = b_hash b2 /\ b_qc b2 = b_hash b3.
    Proof.
      intros (E1 & E2 & E3 & P1 & P2 & V2 & V1 & C1).
      assert (N1 : b_hash b1 <> b_hash genesis).
      { intros Eq. rewrite Eq, (i_gen _ I) in E1. injection E1 as <-. rewrite genesis_view in V1. lia. }
      destruct (qc_of_certified _ W I _ _ C1 N1 E1) as (Cq1 & Pq1 & _ & c1 & Ec1 & _).
      assert (C2 : certified s (b_hash b2)) by (rewrite <- P1, Pq1; exact Cq1).
      assert (N2 : b_hash b2 <> b_hash genesis).
      { intros Eq. rewrite Eq, (i_gen _ I) in E2. injection E2 as <-. rewrite genesis_view in V2. lia. }
      destruct (qc_of_certified _ W I _ _ C2 N2 E2) as (Cq2 & Pq2 & _).
      assert (C3 : certified s (b_hash b3)) by (rewrite <- P2, Pq2; exact Cq2).
      repeat split; auto; congruence.
    Qed.

    Lemma main_lemma b3 b2 b1 :
      three_chain s b3 b2 b1 ->
      forall c, U s (b_hash c) = Some c -> certified s (b_hash c) -> b_view b3 <= b_view c ->
                anc (U s) c b3.
    Proof.
      intros T. pose proof (three_chain_certs _ _ _ T) as (C2 & C3 & Q1 & Q2).
      destruct T as (E1 & E2 & E3 & P1 & P2 & V2 & V1 & C1).
      assert (N1 : b_hash b1 <> b_hash genesis).
      { intros Eq. rewrite Eq, (i_gen _ I) in E1. injection E1 as <-. rewrite genesis_view in V1. lia. }
      intros c. remember (N.to_nat (b_view c)) as m eqn:Hm. revert c Hm.
      induction m as [m IHm] using lt_wf_ind. intros c Hm Ec Cc Vc.
      destruct (N.eq_dec (b_view c) (b_view b3)) as [Q3'|Q3'].
      { assert (b_hash c = b_hash b3) by (eapply one_per_view; eauto).
        assert (c = b3) by congruence. subst. constructor. }
      destruct (N.eq_dec (b_view c) (b_view b2)) as [Q2'|Q2'].
      { assert (b_hash c = b_hash b2) by (eapply one_per_view; eauto).
        assert (c = b2) by congruence. subst. econstructor; [rewrite P2; eauto|constructor]. }
      destruct (N.eq_dec (b_view c) (b_view b1)) as [Q1'|Q1'].
      { assert (b_hash c = b_hash b1) by (eapply one_per_view; eauto).
        assert (c = b1) by congruence. subst.
        econstructor; [rewrite P1; eauto|]. econstructor; [rewrite P2; eauto|constructor]. }
      assert (Vgt : b_view b1 < b_view c) by lia.
      assert (Nc : b_hash c <> b_hash genesis).
      { intros Eq. rewrite Eq, (i_gen _ I) in Ec. injection Ec as <-. rewrite genesis_view in Vgt. lia. }
      destruct (certified_voter _ Cc Nc) as (Sc & NDc & Lc & Mc & Vc').
      destruct (certified_voter _ C1 N1) as (S1 & ND1 & L1 & M1 & V1').
      destruct (quorum_inter Sc S1 NDc ND1 Lc L1 Mc M1) as (r & Ic & I1 & Hr).
      destruct (i_votes _ I r _ Hr (Vc' _ Ic)) as (c' & Hc' & F).
      assert (c' = c) by (pose proof (vf_in _ _ _ F) as X; rewrite Hc', Ec in X; congruence). subst c'.
      destruct (vf_c1 _ _ _ F) as (d1 & Ed1 & Vd1 & Rule).
      pose proof (i_order _ I r (b_hash b1) (b_hash c) b1 c b2 b3 Hr (V1' _ I1) (Vc' _ Ic) E1 Ec Vgt) as Ord.
      rewrite Q1 in Ord. specialize (Ord E2). rewrite Q2 in Ord. specialize (Ord E3).
      pose proof (W _ _ Ed1) as Hd1.
      destruct Rule as [Live|Safe].
      - assert (A : anc (U s) d1 b3).
        { eapply (IHm (N.to_nat (b_view d1))); try reflexivity; try lia.
          - rewrite Hd1; exact Ed1.
          - rewrite Hd1. exact (vf_cert _ _ _ F). }
        econstructor; [rewrite (vf_parent _ _ _ F); exact Ed1|exact A].
      - set (l := vote_lock s r (b_hash c)) in *.
        destruct (i_vlock _ I r (b_hash c) Hr) as [Lin Lcert]. fold l in Lin, Lcert.
        pose proof (vf_lockview _ _ _ F) as Lv. fold l in Lv.
        assert (A : anc (U s) l b3).
        { eapply (IHm (N.to_nat (b_view l))); try reflexivity; try lia; auto. }
        eapply anc_trans; eauto.
    Qed.

    Lemma committable_good b3 : committable s b3 -> good s b3.
    Proof.
      intros (b2 & b1 & T). pose proof (three_chain_certs _ _ _ T) as (_ & C3 & _).
      split; auto. apply T.
    Qed.

    Lemma committable_ordered b3 c3 :
      committable s b3 -> committable s c3 -> anc (U s) c3 b3 \/ anc (U s) b3 c3.
    Proof.
      intros Tb Tc.
      pose proof (committable_good _ Tb) as [Cb Eb]. pose proof (committable_good _ Tc) as [Cc Ec].
      destruct Tb as (b2 & b1 & Tb). destruct Tc as (c2 & c1 & Tc).
      destruct (N.le_ge_cases (b_view b3) (b_view c3)).
      - left. eapply main_lemma; eauto.
      - right. eapply main_lemma; eauto; lia.
    Qed.

    Lemma head_ordered x y :
      (x = genesis \/ committable s x) -> (y = genesis \/ committable s y) ->
      good s x -> good s y -> anc (U s) y x \/ anc (U s) x y.
    Proof.
      intros [->|Cx] [->|Cy] Gx Gy.
      - left; constructor.
      - left. apply good_anc_gen; auto.
      - right. apply good_anc_gen; auto.
      - apply committable_ordered; auto.
    Qed.

    (* the commit rule of either ruleset only fires on a three-chain *)
    Lemma commit_rule_three_chain b3 b2 b1 : commit_rule s b3 b2 b1 -> three_chain s b3 b2 b1.
    Proof.
      intros (E1 & E2 & E3 & C1 & R).
      pose proof (W _ _ E2) as H2. pose proof (W _ _ E3) as H3.
      destruct rs.
      - destruct R as (P1 & V1 & P2 & V2). unfold three_chain.
        repeat split; auto; try congruence.
      - assert (N1 : b_hash b1 <> b_hash genesis).
        { intros Eq. rewrite Eq, (i_gen _ I) in E1. injection E1 as <-. rewrite genesis_view in R. lia. }
        destruct (qc_of_certified _ W I _ _ C1 N1 E1) as (Cq1 & Pq1 & _ & c1 & Ec1 & Vc1).
        assert (c1 = b2) by congruence. subst c1.
        assert (N2 : b_qc b1 <> b_hash genesis).
        { intros Eq. rewrite Eq, (i_gen _ I) in E2. injection E2 as <-.
          rewrite (i_nogqc _ I) in E3. discriminate. }
        destruct (qc_of_certified _ W I _ _ Cq1 N2 E2) as (Cq2 & Pq2 & _ & c2 & Ec2 & Vc2).
        assert (c2 = b3) by congruence. subst c2.
        unfold three_chain. repeat split; auto; try congruence; lia.
    Qed.
  End Static.

  Lemma inv_init : inv init.
  Proof.
    constructor; unfold voted, vote_lock, loc, U; simpl; try (intros; tauto).
    - intros r _. split; [constructor; unfold U; simpl|rewrite genesis_view; lia].
      now rewrite N.eqb_refl. now left.
    - intros r h _. constructor; unfold U; simpl. now rewrite N.eqb_refl. now left.
    - destruct (N.eqb_spec (b_parent genesis) (b_hash genesis)); congruence.
    - destruct (N.eqb_spec (b_qc genesis) (b_hash genesis)); congruence.
    - now rewrite N.eqb_refl.
  Qed.

  Lemma lock_facts_mono s s' l : step s s' -> lock_facts s l -> lock_facts s' l.
  Proof.
    intros St [A B]. constructor; [eapply step_U_mono|eapply step_certified_mono]; eauto.
  Qed.

  Lemma step_U_some_inv s s' h x y : step s s' -> U s h = Some x -> U s' h = Some y -> x = y.
  Proof. intros St E E'. rewrite (step_U_mono _ _ _ _ St E) in E'. congruence. Qed.

  Lemma vote_facts_frame s s' r b :
    step s s' -> inv s ->
    vote_facts s r b ->
    lastVoted (loc s r) <= lastVoted (loc s' r) ->
    b_view (lock (loc s r)) <= b_view (lock (loc s' r)) ->
    vote_lock s' r (b_hash b) = vote_lock s r (b_hash b) ->
    U s' (b_qc genesis) = None ->
    vote_facts s' r b.
  Proof.
    intros St I F LV LK VL G0'.
    destruct F as [Fin Fview Fpos (c1 & E1 & V1 & Rule) Fcert Fpar Flv Ftb Fav].
    constructor; auto.
    - eapply step_U_mono; eauto.
    - lia.
    - exists c1. rewrite VL. split; [eapply step_U_mono; eauto|split; auto].
      destruct Rule; auto. right. eapply anc_mono; [|eauto]. intros; eapply step_U_mono; eauto.
    - eapply step_certified_mono; eauto.
    - rewrite VL; auto.
    - intros d1 d2 D1 D2.
      pose proof (step_U_some_inv _ _ _ _ _ St E1 D1) as <-.
      destruct Fav as [Eg|(e1 & e2 & X1 & X2)].
      + rewrite Eg, (i_gen _ I) in E1. injection E1 as <-.
        rewrite G0' in D2. discriminate.
      + rewrite E1 in X1. injection X1 as <-.
        pose proof (step_U_some_inv _ _ _ _ _ St X2 D2) as <-.
        specialize (Ftb _ _ E1 X2). lia.
    - destruct Fav as [Eg|(e1 & e2 & X1 & X2)]; [now left|right].
      exists e1, e2; split; eapply step_U_mono; eauto.
  Qed.

  (* accessors of the successor states *)
  Lemma loc_set s r l x : loc (set_loc s r l) x = upd (loc s) r l x.
  Proof. reflexivity. Qed.
  Lemma loc_cast s r b x :
    loc (cast_vote s r b) x =
    upd (loc s) r {| lastVoted := b_view b; lock := new_lock (U s) b (lock (loc s r));
                     head := head (loc s r); log := log (loc s r) |} x.
  Proof. reflexivity. Qed.

  (* a step that only rewrites r's local state, keeping lastVoted/lock monotone, preserves the
     vote part of the invariant *)
  Lemma inv_set_loc s r l :
    uwf (U s) -> inv s -> step s (set_loc s r l) ->
    lastVoted (loc s r) <= lastVoted l -> lock l = lock (loc s r) ->
    inv (set_loc s r l).
  Proof.
    intros W I St0 HLV HLK.
    assert (LV : forall x, lastVoted (loc s x) <= lastVoted (loc (set_loc s r l) x)).
    { intros x. rewrite loc_set. unfold upd. destruct (N.eqb_spec x r); subst; simpl; lia. }
    assert (LK : forall x, lock (loc (set_loc s r l) x) = lock (loc s x)).
    { intros x. rewrite loc_set. unfold upd. destruct (N.eqb_spec x r); subst; simpl; auto. }
    constructor.
    - intros x k Hx V. destruct (i_votes _ I x k Hx V) as (y & Hy & F). exists y; split; auto.
      eapply (vote_facts_frame _ _ _ _ St0 I F); auto.
      + rewrite LK. lia.
      + apply (i_nogqc _ I).
    - intros x Hx. rewrite LK. destruct (i_lock _ I x Hx) as [A B]. split.
      + eapply lock_facts_mono; eauto.
      + eapply N.le_trans; [exact B|apply LV].
    - intros; eapply lock_facts_mono; eauto. apply (i_vlock _ I); auto.
    - exact (i_order _ I).
    - exact (i_unique _ I).
    - apply (i_nogp _ I). - apply (i_nogqc _ I). - apply (i_gen _ I).
  Qed.

  Lemma vote_rule_chained s r b c1 :
    uwf (U s) -> inv s -> honest r = true ->
    U s (b_qc b) = Some c1 -> certified s (b_qc b) -> b_parent b = b_qc b ->
    vote_rule (U s) (lock (loc s r)) b c1 ->
    b_view (lock (loc s r)) < b_view c1 \/ anc (U s) b (lock (loc s r)).
  Proof.
    intros W I Hr Ec1 Cq Par R. unfold vote_rule in R. destruct rs; auto.
    destruct (N.eq_dec (b_view (lock (loc s r))) (b_view c1)) as [Q|Q]; [|left; lia].
    right. destruct (i_lock _ I r Hr) as [[Lin Lc] _].
    assert (b_hash (lock (loc s r)) = b_qc b) by (eapply (one_per_view s W I); eauto).
    assert (c1 = lock (loc s r)) by congruence. subst c1.
    econstructor; [rewrite Par; eauto|constructor].
  Qed.

  Lemma step_inv s s' : uwf (U s) -> inv s -> step s s' -> inv s'.
  Proof.
    intros W I St. pose proof St as St0. destruct St.
    - (* add block *)
      assert (G0' : U (add_block s b) (b_qc genesis) = None).
      { unfold U; simpl. destruct (N.eqb_spec (b_qc genesis) (b_hash b)); [congruence|apply (i_nogqc _ I)]. }
      constructor.
      + intros r h Hr V. destruct (i_votes _ I r h Hr V) as (x & Hx & F). exists x; split; auto.
        eapply (vote_facts_frame _ _ _ _ St0 I F); unfold loc, vote_lock; simpl; auto; lia.
      + intros r Hr. destruct (i_lock _ I r Hr). split; auto. eapply lock_facts_mono; eauto.
      + intros r h Hr. eapply lock_facts_mono; eauto. apply (i_vlock _ I); auto.
      + intros r hb hc x y c1 c2 Hr Vb Vc Eb Ec Lt E1 E2.
        destruct (i_votes _ I r hb Hr Vb) as (x' & Hx' & Fx).
        destruct (i_votes _ I r hc Hr Vc) as (y' & Hy' & Fy).
        pose proof (vf_in _ _ _ Fx) as Ix. pose proof (vf_in _ _ _ Fy) as Iy.
        rewrite Hx' in Ix. rewrite Hy' in Iy.
        pose proof (step_U_some_inv _ _ _ _ _ St0 Ix Eb) as <-.
        pose proof (step_U_some_inv _ _ _ _ _ St0 Iy Ec) as <-.
        destruct (vf_c1 _ _ _ Fx) as (d1 & D1 & _).
        pose proof (step_U_some_inv _ _ _ _ _ St0 D1 E1) as <-.
        destruct (vf_avail _ _ _ Fx) as [Eg|(e1 & e2 & X1 & X2)].
        * rewrite Eg, (i_gen _ I) in D1. injection D1 as <-. rewrite G0' in E2. discriminate.
        * rewrite D1 in X1. injection X1 as <-.
          pose proof (step_U_some_inv _ _ _ _ _ St0 X2 E2) as <-.
          eapply (i_order _ I r hb hc); eauto.
      + intros r h1 h2 x y Hr V1 V2 E1 E2 Q.
        destruct (i_votes _ I r h1 Hr V1) as (x' & Hx' & Fx).
        destruct (i_votes _ I r h2 Hr V2) as (y' & Hy' & Fy).
        pose proof (vf_in _ _ _ Fx) as Ix. pose proof (vf_in _ _ _ Fy) as Iy.
        rewrite Hx' in Ix. rewrite Hy' in Iy.
        pose proof (step_U_some_inv _ _ _ _ _ St0 Ix E1) as <-.
        pose proof (step_U_some_inv _ _ _ _ _ St0 Iy E2) as <-.
        eapply (i_unique _ I r); eauto.
      + unfold U; simpl. destruct (N.eqb_spec (b_parent genesis) (b_hash b)); [congruence|apply (i_nogp _ I)].
      + exact G0'.
      + exact (step_U_mono _ _ _ _ St0 (i_gen _ I)).
    - (* byzantine vote *)
      assert (HV : forall r k, honest r = true -> voted (add_vote s i h) r k -> voted s r k).
      { intros r k Hr [X|[-> _]]; auto. congruence. }
      constructor.
      + intros r k Hr V. apply HV in V; auto. destruct (i_votes _ I r k Hr V) as (x & Hx & F).
        exists x; split; auto.
        eapply (vote_facts_frame _ _ _ _ St0 I F); unfold loc, vote_lock; simpl; auto; try lia. apply (i_nogqc _ I).
      + intros r Hr. destruct (i_lock _ I r Hr). split; auto. eapply lock_facts_mono; eauto.
      + intros r k Hr. eapply lock_facts_mono; eauto. apply (i_vlock _ I); auto.
      + intros r hb hc x y c1 c2 Hr Vb Vc. apply HV in Vb; auto. apply HV in Vc; auto.
        eapply (i_order _ I r hb hc); eauto.
      + intros r h1 h2 x y Hr V1 V2. apply HV in V1; auto. apply HV in V2; auto.
        eapply (i_unique _ I r); eauto.
      + apply (i_nogp _ I). + apply (i_nogqc _ I). + apply (i_gen _ I).
    - (* stop voting *)
      apply inv_set_loc; auto; simpl; lia.
    - (* honest vote *)
      rename H into Hr, H0 into Eb, H1 into LVb, H2 into Ec1, H3 into Cq, H4 into Par,
             H5 into Vc1, H6 into Avail, H7 into Rule0.
      pose proof (vote_rule_chained _ _ _ _ W I Hr Ec1 Cq Par Rule0) as Rule.
      set (l := lock (loc s r)) in *.
      set (s' := cast_vote s r b) in *.
      destruct (i_lock _ I r Hr) as [Lf Lv]. fold l in Lf, Lv.
      assert (Fresh : ~ voted s r (b_hash b)).
      { intros V. destruct (i_votes _ I r _ Hr V) as (x & Hx & F).
        assert (x = b) by (pose proof (vf_in _ _ _ F) as X; rewrite Hx, Eb in X; congruence). subst x.
        pose proof (vf_view _ _ _ F). lia. }
      assert (VLold : forall x k, voted s x k -> honest x = true ->
                                  vote_lock s' x k = vote_lock s x k).
      { intros x k V Hx. unfold vote_lock, s'; simpl. destruct (N.eqb_spec x r); simpl; auto.
        destruct (N.eqb_spec k (b_hash b)); simpl; auto. subst. contradiction. }
      assert (VLnew : vote_lock s' r (b_hash b) = l).
      { unfold vote_lock, s'; simpl. now rewrite !N.eqb_refl. }
      assert (Lr : loc s' r = {| lastVoted := b_view b; lock := new_lock (U s) b l;
                                 head := head (loc s r); log := log (loc s r) |}).
      { unfold s'. rewrite loc_cast. apply upd_same. }
      assert (LV : forall x, lastVoted (loc s x) <= lastVoted (loc s' x)).
      { intros x. unfold s'. rewrite loc_cast. unfold upd. destruct (N.eqb_spec x r); subst; simpl; lia. }
      assert (LK : forall x, b_view (lock (loc s x)) <= b_view (lock (loc s' x))).
      { intros x. unfold s'. rewrite loc_cast. unfold upd. destruct (N.eqb_spec x r); subst; simpl; try lia.
        apply new_lock_ge. }
      assert (Us : U s' = U s) by reflexivity.
      assert (Vs : forall x k, voted s' x k <-> voted s x k \/ (x = r /\ k = b_hash b)) by (intros; reflexivity).
      assert (NewF : vote_facts s' r b).
      { constructor; rewrite ?Us, ?VLnew, ?Lr; simpl; auto.
        - lia.
        - lia.
        - exists c1. auto.
        - eapply step_certified_mono; eauto.
        - lia.
        - intros d1 d2 D1 D2. eapply new_lock_twoback; eauto.
        - destruct Avail as [|(c2 & E2)]; auto. right; eauto. }
      constructor.
      + intros x k Hx V. apply Vs in V. destruct V as [V|[-> ->]].
        * destruct (i_votes _ I x k Hx V) as (y & Hy & F). exists y; split; auto.
          eapply (vote_facts_frame _ _ _ _ St0 I F); auto.
          rewrite Hy. apply VLold; auto. apply (i_nogqc _ I).
        * exists b; split; auto.
      + intros x Hx. destruct (N.eq_dec x r) as [->|Nx].
        * rewrite Lr; simpl.
          destruct (new_lock_cases (U s) b l) as [->|(d1 & d2 & D1 & D2 & Lt & ->)].
          -- split; [eapply lock_facts_mono; eauto|lia].
          -- rewrite Ec1 in D1. injection D1 as <-.
             assert (Nc1 : b_qc b <> b_hash genesis).
             { intros Eg. rewrite Eg, (i_gen _ I) in Ec1. injection Ec1 as <-.
               rewrite (i_nogqc _ I) in D2. discriminate. }
             destruct (qc_of_certified _ W I _ _ Cq Nc1 Ec1) as (Cq2 & _ & _ & e & Ee & Ve).
             rewrite D2 in Ee. injection Ee as <-.
             split; [|lia]. eapply lock_facts_mono; eauto. constructor.
             ++ rewrite (W _ _ D2). exact D2.
             ++ rewrite (W _ _ D2). exact Cq2.
        * unfold s'. rewrite loc_cast, upd_other by auto.
          destruct (i_lock _ I x Hx). split; auto. eapply lock_facts_mono; eauto.
      + intros x k Hx. unfold vote_lock, s'; simpl.
        destruct (N.eqb x r && N.eqb k (b_hash b))%bool; eapply lock_facts_mono; eauto.
        apply (i_vlock _ I); auto.
      + intros x hb hc y z d1 d2 Hx Vb Vc Ey Ez Lt D1 D2. rewrite Us in Ey, Ez, D1, D2.
        apply Vs in Vb. apply Vs in Vc.
        destruct Vc as [Vc|[-> ->]]; destruct Vb as [Vb|[Xr Xh]].
        * rewrite VLold; auto. eapply (i_order _ I x hb hc); eauto.
        * subst x hb.
          rewrite Eb in Ey. injection Ey as <-.
          destruct (i_votes _ I r hc Hr Vc) as (z' & Hz' & Fz).
          assert (z' = z) by (pose proof (vf_in _ _ _ Fz) as X; rewrite Hz', Ez in X; congruence). subst z'.
          pose proof (vf_view _ _ _ Fz). lia.
        * rewrite VLnew.
          destruct (i_votes _ I r hb Hr Vb) as (y' & Hy' & Fy).
          assert (y' = y) by (pose proof (vf_in _ _ _ Fy) as X; rewrite Hy', Ey in X; congruence). subst y'.
          eapply (vf_twoback _ _ _ Fy); eauto.
        * subst hb. rewrite Ey in Ez. injection Ez as <-. lia.
      + intros x h1 h2 y z Hx V1 V2 E1 E2 Q. rewrite Us in E1, E2.
        apply Vs in V1. apply Vs in V2.
        destruct V1 as [V1|[-> ->]]; destruct V2 as [V2|[X2 Y2]].
        * eapply (i_unique _ I x); eauto.
        * subst x h2. rewrite Eb in E2. injection E2 as <-.
          destruct (i_votes _ I r h1 Hr V1) as (y' & Hy' & Fy).
          assert (y' = y) by (pose proof (vf_in _ _ _ Fy) as X; rewrite Hy', E1 in X; congruence). subst y'.
          pose proof (vf_view _ _ _ Fy). lia.
        * rewrite Eb in E1. injection E1 as <-.
          destruct (i_votes _ I r h2 Hr V2) as (z' & Hz' & Fz).
          assert (z' = z) by (pose proof (vf_in _ _ _ Fz) as X; rewrite Hz', E2 in X; congruence). subst z'.
          pose proof (vf_view _ _ _ Fz). lia.
        * subst; auto.
      + apply (i_nogp _ I). + apply (i_nogqc _ I). + apply (i_gen _ I).
    - (* commit *)
      apply inv_set_loc; auto; simpl; lia.
  Qed.

  Lemma reach_inv s : reach s -> inv s.
  Proof.
    induction 1; [apply inv_init|]. eapply step_inv; eauto using reach_uwf.
  Qed.

  (* ---------- ledgers ---------- *)
  Lemma three_chain_mono s s' b3 b2 b1 : step s s' -> three_chain s b3 b2 b1 -> three_chain s' b3 b2 b1.
  Proof.
    intros St (E1 & E2 & E3 & R). unfold three_chain.
    repeat split; try (eapply step_U_mono; eauto); try tauto.
    eapply step_certified_mono; eauto. tauto.
  Qed.

  Lemma committable_mono s s' b : step s s' -> committable s b -> committable s' b.
  Proof. intros St (b2 & b1 & T). exists b2, b1. eapply three_chain_mono; eauto. Qed.

  Lemma good_mono s s' b : step s s' -> good s b -> good s' b.
  Proof. intros St [C E]. split; [eapply step_certified_mono|eapply step_U_mono]; eauto. Qed.

  Lemma ledger_facts_frame s s' r :
    step s s' -> ledger_facts s r ->
    head (loc s' r) = head (loc s r) -> log (loc s' r) = log (loc s r) ->
    ledger_facts s' r.
  Proof.
    intros St [A B C] Hh Hl. constructor; rewrite ?Hh, ?Hl.
    - destruct A; auto. right. eapply committable_mono; eauto.
    - eapply good_mono; eauto.
    - eapply segment_mono; [|eauto]. intros; eapply step_U_mono; eauto.
  Qed.

  Lemma ledger_init r : ledger_facts init r.
  Proof.
    constructor; unfold loc; simpl; auto.
    - split; [now left|unfold U; simpl; now rewrite N.eqb_refl].
    - constructor. rewrite genesis_view. lia.
  Qed.

  Lemma reach_ledger s : reach s -> forall r, honest r = true -> ledger_facts s r.
  Proof.
    induction 1 as [|s s' R IH St]; [intros; apply ledger_init|].
    intros x Hx. specialize (IH x Hx).
    pose proof (reach_uwf _ R) as W. pose proof (reach_inv _ R) as I.
    pose proof St as St0. destruct St.
    - eapply ledger_facts_frame; eauto.
    - eapply ledger_facts_frame; eauto.
    - eapply ledger_facts_frame; eauto; rewrite loc_set; unfold upd;
        destruct (N.eqb_spec x r); subst; auto.
    - eapply ledger_facts_frame; eauto; rewrite loc_cast; unfold upd;
        destruct (N.eqb_spec x r); subst; auto.
    - destruct (N.eq_dec x r) as [->|Nx].
      2:{ eapply ledger_facts_frame; eauto; rewrite loc_set, upd_other; auto. }
      pose proof (commit_rule_three_chain _ W I _ _ _ H0) as T.
      assert (Cb : committable s b3) by (exists b2, b1; exact T).
      pose proof (committable_good _ W I _ Cb) as Gb.
      destruct IH as [A B C].
      set (hd := head (loc s r)) in *.
      constructor; rewrite loc_set, upd_same; simpl; fold hd.
      + destruct (b_view hd <? b_view b3); auto.
      + destruct (b_view hd <? b_view b3); auto.
      + eapply (commit_ext s W I); eauto.
        apply (head_ordered s W I); auto.
  Qed.

  Theorem ledgers_prefix s r1 r2 :
    reach s -> honest r1 = true -> honest r2 = true ->
    prefix (log (loc s r1)) (log (loc s r2)) \/ prefix (log (loc s r2)) (log (loc s r1)).
  Proof.
    intros R H1 H2.
    pose proof (reach_uwf _ R) as W. pose proof (reach_inv _ R) as I.
    destruct (reach_ledger _ R r1 H1) as [A1 G1 S1].
    destruct (reach_ledger _ R r2 H2) as [A2 G2 S2].
    destruct (head_ordered s W I _ _ A1 A2 G1 G2) as [A|A].
    - left. exact (seg_prefix s W I _ _ _ _ G1 G2 A S1 S2).
    - right. exact (seg_prefix s W I _ _ _ _ G2 G1 A S2 S1).
  Qed.

  Theorem ledger_chain s r :
    reach s -> honest r = true ->
    linked genesis (log (loc s r)) /\ NoDup (log (loc s r)) /\
    last_or genesis (log (loc s r)) = head (loc s r).
  Proof.
    intros R Hr.
    pose proof (reach_uwf _ R) as W. pose proof (reach_inv _ R) as I.
    destruct (reach_ledger _ R r Hr) as [A G S].
    destruct (seg0_genesis s W I _ _ S G) as (L & E & _).
    repeat split; auto. eapply linked_nodup; eauto.
  Qed.

  Theorem direct_commits_ordered s b3 b2 b1 c3 c2 c1 :
    reach s -> three_chain s b3 b2 b1 -> three_chain s c3 c2 c1 ->
    anc (U s) c3 b3 \/ anc (U s) b3 c3.
  Proof.
    intros R Tb Tc. eapply committable_ordered; eauto using reach_inv, reach_uwf.
    - exists b2, b1; auto.
    - exists c2, c1; auto.
  Qed.
  (* ---------- the decision rules never block progress (C05, rule level) ---------- *)

  (* a well-formed proposal whose QC block is at least as high as the replica's lock can be voted *)
  Theorem vote_enabled s r b c1 :
    reach s -> honest r = true ->
    U s (b_hash b) = Some b -> lastVoted (loc s r) < b_view b ->
    U s (b_qc b) = Some c1 -> certified s (b_qc b) ->
    b_parent b = b_qc b -> b_view c1 < b_view b ->
    (b_qc b = b_hash genesis \/ exists c2, U s (b_qc c1) = Some c2) ->
    b_view (lock (loc s r)) <= b_view c1 ->
    step s (cast_vote s r b).
  Proof.
    intros R Hr Eb Lv Ec1 Cq Par Vc Av Lk.
    pose proof (reach_inv _ R) as I. pose proof (reach_uwf _ R) as W.
    eapply (step_vote s r b c1); auto.
    unfold vote_rule. destruct rs; [|exact Lk].
    destruct (N.eq_dec (b_view (lock (loc s r))) (b_view c1)) as [Q|Q]; [|left; lia].
    right. destruct (i_lock _ I r Hr) as [[Lin Lc] _].
    assert (b_hash (lock (loc s r)) = b_qc b) by (eapply (one_per_view s W I); eauto).
    assert (c1 = lock (loc s r)) by congruence. subst c1.
    econstructor; [rewrite Par; eauto|constructor].
  Qed.

  (* once a three-chain exists, every honest replica can commit its tail *)
  Theorem commit_enabled s r b3 b2 b1 :
    reach s -> honest r = true -> three_chain s b3 b2 b1 ->
    exists l,
      segment (U s) b3 (b_view (head (loc s r))) l /\
      step s (set_loc s r {| lastVoted := lastVoted (loc s r); lock := lock (loc s r);
                             head := if b_view (head (loc s r)) <? b_view b3 then b3 else head (loc s r);
                             log := log (loc s r) ++ l |}) /\
      (b_view (head (loc s r)) < b_view b3 -> exists l', l = l' ++ [b3]).
  Proof.
    intros R Hr T.
    pose proof (reach_inv _ R) as I. pose proof (reach_uwf _ R) as W.
    pose proof (three_chain_certs s W I _ _ _ T) as (C2 & C3 & Q1 & Q2).
    assert (G3 : good s b3) by (split; auto; apply T).
    destruct (Core.segment_exists (U s) (good s) genesis W genesis_view (good_genesis s I) (i_nogp _ I)
                (good_in s) (good_parent s W I) (good_unique s W I) b3 G3 (b_view (head (loc s r)))) as (l & Sl).
    exists l. split; [exact Sl|]. split.
    - eapply (step_commit s r b3 b2 b1 l); auto.
      destruct T as (E1 & E2 & E3 & P1 & P2 & V2 & V1 & C1).
      unfold commit_rule. rewrite Q1, Q2. repeat split; auto.
      destruct rs; [repeat split; auto | lia].
    - intros Hlt. inversion Sl; subst; [lia|eauto].
  Qed.
End Protocol.

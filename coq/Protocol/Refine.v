(* Local-to-global refinement.  The abstract protocol of C01 (Protocol/Chained.v) lets an honest
   replica vote in ONE atomic step whose guard mentions the GLOBAL universe of blocks and the
   abstract notion "certified".  The code decides locally: the proposal handler verifies the
   QC (C02, Cert/CertModel.v), Voter.Verify checks view, parent and QC block (C03,
   Voter/VoterModel.v), and the rule set decides on the replica's OWN block store (C04,
   Rules/RulesModel.v, which the C04 correspondence check runs against the Go code).

   This file proves that those local decisions are an instance of the abstract step: whenever
   the code-level rule model accepts a proposal on a store that is a partial view of the global
   universe, the abstract guard of [step_vote] holds, and the lock the code-level CommitRule
   computes is the lock of the abstract successor state.  Likewise a commit decision of the
   code-level rule satisfies the abstract [commit_rule].  So the safety theorems of C01 speak
   about the very functions C04 ties to consensus/rules/*. *)
From Coq Require Import List NArith Lia Bool Arith.
From HS Require Import Protocol.Core Protocol.Chained.
From HS Require Rules.RulesModel Rules.RulesSpec Rules.RulesProofs.
Import ListNotations.
Open Scope N_scope.

Module R := HS.Rules.RulesModel.
Module RS := HS.Rules.RulesSpec.
Module RP := HS.Rules.RulesProofs.

(* the safety projection of a code-level block *)
Definition absb (b : R.block) : block :=
  {| b_hash := R.b_hash b; b_parent := R.b_parent b; b_view := R.b_view b;
     b_qc := R.qc_hash (R.b_qc b) |}.

(* the replica's store is a partial view of the global universe *)
Definition view_of (f : R.store) (Uu : universe) : Prop :=
  forall h b, R.get f h = Some b -> Uu h = Some (absb b).

Lemma extends_spec_anc f Uu cur t :
  view_of f Uu -> Uu (R.b_hash cur) = Some (absb cur) -> Uu (R.b_hash t) = Some (absb t) ->
  RS.extends_spec f cur (R.b_hash t) -> anc Uu (absb cur) (absb t).
Proof.
  intros V Hc Ht E. remember (R.b_hash t) as ht eqn:Eh.
  induction E as [b | b p t' Hg E IH].
  - assert (absb b = absb t) by (rewrite Eh in Hc; congruence). rewrite H. constructor.
  - apply anc_step with (p := absb p).
    + simpl. now apply V.
    + apply IH; auto. pose proof (RP.get_some _ _ _ Hg) as [_ Hh]. apply V in Hg.
      now rewrite Hh.
Qed.

Section Refine.
  Variable member : rid -> bool.
  Variable honest : rid -> bool.
  Variable qsize : nat.
  Hypothesis quorum_inter : forall A B : list rid,
      NoDup A -> NoDup B -> (qsize <= length A)%nat -> (qsize <= length B)%nat ->
      (forall i, In i A -> member i = true) -> (forall i, In i B -> member i = true) ->
      exists i, In i A /\ In i B /\ honest i = true.
  Hypothesis quorum_has_honest : forall A : list rid,
      NoDup A -> (qsize <= length A)%nat -> (forall i, In i A -> member i = true) ->
      exists i, In i A /\ honest i = true.

  (* the abstract genesis is the projection of the code's genesis block *)
  Let genesis : block := absb R.genesis.

  Local Notation reachC := (reach RChained member honest qsize genesis).
  Local Notation stepC := (step RChained member honest qsize genesis).
  Local Notation cert := (certified member qsize genesis).
  Local Notation locg := (loc genesis).

  Lemma gen_view : b_view genesis = 0. Proof. reflexivity. Qed.
  Lemma gen_parent : b_parent genesis <> b_hash genesis. Proof. discriminate. Qed.
  Lemma gen_qc : b_qc genesis <> b_hash genesis. Proof. discriminate. Qed.

  Lemma zero_absent s : reachC s -> U s R.zero_hash = None.
  Proof.
    intros Hr.
    exact (i_nogqc _ _ _ _ _ (reach_inv _ _ _ _ quorum_inter quorum_has_honest _
                                        gen_view gen_parent gen_qc _ Hr)).
  Qed.

  (* A certified block whose certificate is the placeholder is genesis itself. *)
  Lemma zero_qc_is_genesis s qb :
    reachC s -> U s (R.b_hash qb) = Some (absb qb) -> cert s (R.b_hash qb) ->
    R.qc_hash (R.b_qc qb) = R.zero_hash -> R.b_hash qb = b_hash genesis.
  Proof.
    intros Hr Hu Hc Hz.
    destruct (N.eq_dec (R.b_hash qb) (b_hash genesis)) as [E|NE]; [exact E|exfalso].
    pose proof (reach_inv _ _ _ _ quorum_inter quorum_has_honest _
                          gen_view gen_parent gen_qc _ Hr) as I.
    destruct (qc_of_certified _ _ _ quorum_has_honest _ _ (reach_uwf _ _ _ _ _ _ Hr) I
                              _ _ Hc NE Hu) as (_ & _ & _ & c1 & E1 & _).
    simpl in E1. rewrite Hz, (zero_absent _ Hr) in E1. discriminate.
  Qed.

  (* ---------- the vote ---------- *)
  Theorem chained_replica_vote_refines s r f lk v p qb :
    let blk := R.p_block p in
    reachC s -> honest r = true ->
    view_of f (U s) ->
    (* the proposed block is known (the proposal handler stores it) and the replica's lock is
       the lock the abstract state records for it *)
    U s (R.b_hash blk) = Some (absb blk) ->
    lock (locg s r) = absb lk ->
    (* what the proposal handler and Voter.Verify establish before the rule is consulted *)
    R.get f (R.qc_hash (R.b_qc blk)) = Some qb ->
    cert s (R.qc_hash (R.b_qc blk)) ->
    R.b_parent blk = R.qc_hash (R.b_qc blk) ->
    R.b_view qb < R.b_view blk ->
    lastVoted (locg s r) < R.b_view blk ->
    (* the code-level VoteRule says yes *)
    R.chained_vote f lk v p = true ->
    stepC s (cast_vote genesis s r (absb blk)) /\
    lock (locg (cast_vote genesis s r (absb blk)) r) = absb (fst (R.chained_commit f lk blk)).
  Proof.
    intros blk Hr Hh V Hblk Hlk Hqb Hc Hpar Hvw Hlv Hvote.
    pose proof (reach_inv _ _ _ _ quorum_inter quorum_has_honest _
                          gen_view gen_parent gen_qc _ Hr) as I.
    pose proof (zero_absent _ Hr) as Z0.
    pose proof (V _ _ Hqb) as Uqb.
    pose proof (RP.get_some _ _ _ Hqb) as [_ Hqh].
    assert (NZ : R.qc_hash (R.b_qc blk) <> R.zero_hash).
    { intros E. rewrite E, Z0 in Uqb. discriminate. }
    unfold R.chained_vote in Hvote. fold blk in Hvote. rewrite Hqb in Hvote.
    destruct (R.lock_target_ok f qb) eqn:LT; [|discriminate]. simpl in Hvote.
    assert (Uqb' : U s (R.b_hash qb) = Some (absb qb)) by now rewrite Hqh.
    assert (Hcq : cert s (R.b_hash qb)) by now rewrite Hqh.
    (* availability of the lock target, and the local lock update equals the global one *)
    assert (AV : (R.qc_hash (R.b_qc blk) = b_hash genesis /\ R.qc_hash (R.b_qc qb) = R.zero_hash)
                 \/ exists b2, R.qc_hash (R.b_qc qb) <> R.zero_hash /\
                               R.get f (R.qc_hash (R.b_qc qb)) = Some b2).
    { unfold R.lock_target_ok in LT.
      destruct (N.eqb_spec (R.qc_hash (R.b_qc qb)) R.zero_hash) as [Ez|Nz].
      - left. split; auto. rewrite <- Hqh. eapply zero_qc_is_genesis; eauto.
      - right. destruct (R.get f (R.qc_hash (R.b_qc qb))) as [b2|] eqn:G2; [|discriminate].
        eauto. }
    split.
    - apply step_vote with (c1 := absb qb); auto.
      + destruct AV as [[Eg _]|(b2 & _ & G2)]; [left; exact Eg|right].
        exists (absb b2). simpl. now apply V.
      + simpl. rewrite Hlk.
        destruct (N.ltb_spec (R.b_view lk) (R.b_view qb)) as [Lt|Ge]; [left; exact Lt|right].
        apply RP.extends_sound in Hvote.
        pose proof (i_lock _ _ _ _ _ I r Hh) as [LF _]. rewrite Hlk in LF.
        pose proof (lf_in _ _ _ _ _ LF) as Ul. simpl in Ul.
        eapply extends_spec_anc; eauto.
    - rewrite loc_cast, upd_same. cbn [lock]. rewrite Hlk.
      unfold new_lock. cbn [b_qc absb]. rewrite Uqb. cbn [b_qc absb].
      unfold R.chained_commit, R.qc_ref.
      destruct (N.eqb_spec (R.qc_hash (R.b_qc blk)) R.zero_hash) as [|_]; [contradiction|].
      rewrite Hqb.
      destruct AV as [[_ Ez]|(b2 & Nz & G2)].
      + rewrite Ez, Z0. now rewrite N.eqb_refl.
      + destruct (N.eqb_spec (R.qc_hash (R.b_qc qb)) R.zero_hash) as [|_]; [contradiction|].
        rewrite G2, (V _ _ G2). cbn [b_view absb].
        destruct (R.b_view lk <? R.b_view b2);
          destruct (if R.qc_hash (R.b_qc b2) =? R.zero_hash then None
                    else R.get f (R.qc_hash (R.b_qc b2))) as [b3|];
          try reflexivity;
          destruct (_ && _ && _ && _); reflexivity.
  Qed.

  (* ---------- the commit decision ---------- *)
  (* views are 64-bit in the code; the abstract views are unbounded *)
  Definition small (b : R.block) : Prop := R.b_view b < R.two64 - 1.

  Theorem chained_replica_commit_refines s f lk blk b3 :
    reachC s -> view_of f (U s) ->
    cert s (R.qc_hash (R.b_qc blk)) ->
    snd (R.chained_commit f lk blk) = Some b3 ->
    (forall x, In x f -> small x) ->
    exists b1 b2,
      R.get f (R.qc_hash (R.b_qc blk)) = Some b1 /\
      commit_rule RChained member qsize genesis s (absb b3) (absb b2) (absb b1).
  Proof.
    intros Hr V Hc Hcm Sm. unfold R.chained_commit in Hcm.
    destruct (R.qc_ref f (R.b_qc blk)) as [b1|] eqn:Q1; [|discriminate].
    destruct (R.qc_ref f (R.b_qc b1)) as [b2|] eqn:Q2; [|discriminate].
    destruct (R.qc_ref f (R.b_qc b2)) as [b3'|] eqn:Q3; [|discriminate].
    destruct (_ && _ && _ && _) eqn:C; [|discriminate]. simpl in Hcm. injection Hcm as <-.
    apply RP.qc_ref_some in Q1, Q2, Q3.
    destruct Q1 as [_ G1], Q2 as [_ G2], Q3 as [_ G3].
    pose proof (RP.get_some _ _ _ G1) as [I1 H1]. pose proof (RP.get_some _ _ _ G2) as [I2 H2].
    pose proof (RP.get_some _ _ _ G3) as [I3 H3].
    rewrite !andb_true_iff, !N.eqb_eq in C. destruct C as [[[P1 V1] P2] V2].
    rewrite RP.succ64_small in V1 by (apply Sm; exact I2).
    rewrite RP.succ64_small in V2 by (apply Sm; exact I3).
    exists b1, b2. split; [exact G1|].
    unfold commit_rule. cbn [b_hash b_qc b_parent b_view absb].
    repeat split; auto; try (rewrite H1; auto; now apply V); try now apply V.
  Qed.
  (* ---------- simple HotStuff ---------- *)
  Local Notation reachS := (reach RSimple member honest qsize genesis).
  Local Notation stepS := (step RSimple member honest qsize genesis).

  Lemma zero_absentS s : reachS s -> U s R.zero_hash = None.
  Proof.
    intros Hr.
    exact (i_nogqc _ _ _ _ _ (reach_inv _ _ _ _ quorum_inter quorum_has_honest _
                                        gen_view gen_parent gen_qc _ Hr)).
  Qed.

  Theorem simple_replica_vote_refines s r f lk v p qb :
    let blk := R.p_block p in
    reachS s -> honest r = true ->
    view_of f (U s) ->
    U s (R.b_hash blk) = Some (absb blk) ->
    lock (locg s r) = absb lk ->
    R.get f (R.qc_hash (R.b_qc blk)) = Some qb ->
    cert s (R.qc_hash (R.b_qc blk)) ->
    R.b_parent blk = R.qc_hash (R.b_qc blk) ->
    R.b_view qb < R.b_view blk ->
    lastVoted (locg s r) < R.b_view blk ->
    R.simple_vote f lk v p = true ->
    stepS s (cast_vote genesis s r (absb blk)) /\
    lock (locg (cast_vote genesis s r (absb blk)) r) = absb (fst (R.simple_commit f lk blk)).
  Proof.
    intros blk Hr Hh V Hblk Hlk Hqb Hc Hpar Hvw Hlv Hvote.
    pose proof (reach_inv _ _ _ _ quorum_inter quorum_has_honest _
                          gen_view gen_parent gen_qc _ Hr) as I.
    pose proof (zero_absentS _ Hr) as Z0.
    pose proof (V _ _ Hqb) as Uqb.
    pose proof (RP.get_some _ _ _ Hqb) as [_ Hqh].
    unfold R.simple_vote in Hvote. fold blk in Hvote.
    destruct (R.b_view blk <? v); [discriminate|]. rewrite Hqb in Hvote.
    destruct (R.lock_target_ok f qb) eqn:LT; [|discriminate]. simpl in Hvote.
    assert (Uqb' : U s (R.b_hash qb) = Some (absb qb)) by now rewrite Hqh.
    assert (Hcq : cert s (R.b_hash qb)) by now rewrite Hqh.
    assert (AV : (R.qc_hash (R.b_qc blk) = b_hash genesis /\ R.qc_hash (R.b_qc qb) = R.zero_hash)
                 \/ exists b2, R.get f (R.qc_hash (R.b_qc qb)) = Some b2).
    { unfold R.lock_target_ok in LT.
      destruct (N.eqb_spec (R.qc_hash (R.b_qc qb)) R.zero_hash) as [Ez|Nz].
      - left. split; auto. rewrite <- Hqh.
        destruct (N.eq_dec (R.b_hash qb) (b_hash genesis)) as [E|NE]; [exact E|exfalso].
        destruct (qc_of_certified _ _ _ quorum_has_honest _ _ (reach_uwf _ _ _ _ _ _ Hr) I
                                  _ _ Hcq NE Uqb') as (_ & _ & _ & c1 & E1 & _).
        simpl in E1. rewrite Ez, Z0 in E1. discriminate.
      - right. destruct (R.get f (R.qc_hash (R.b_qc qb))) as [b2|] eqn:G2; [|discriminate].
        eauto. }
    split.
    - apply step_vote with (c1 := absb qb); auto.
      + destruct AV as [[Eg _]|(b2 & G2)]; [left; exact Eg|right].
        exists (absb b2). simpl. now apply V.
      + simpl. rewrite Hlk. cbn [b_view absb].
        destruct (N.ltb_spec (R.b_view qb) (R.b_view lk)); [discriminate|assumption].
    - rewrite loc_cast, upd_same. cbn [lock]. rewrite Hlk.
      unfold new_lock. cbn [b_qc absb]. rewrite Uqb. cbn [b_qc absb].
      unfold R.simple_commit, R.simple_commit_gen. rewrite Hqb.
      destruct AV as [[_ Ez]|(b2 & G2)].
      + rewrite Ez, Z0.
        destruct (R.get f R.zero_hash) as [x|] eqn:Gz; [|reflexivity].
        apply V in Gz. rewrite Z0 in Gz. discriminate.
      + rewrite G2, (V _ _ G2). cbn [b_view absb].
        destruct (R.b_view lk <? R.b_view b2);
          destruct (R.get f (R.qc_hash (R.b_qc b2))) as [b3|];
          try reflexivity;
          match goal with |- context [if ?c then _ else _] => destruct c end; reflexivity.
  Qed.

  Definition small2 (b : R.block) : Prop := R.b_view b < R.two64 - 2.

  Theorem simple_replica_commit_refines s f lk blk b3 :
    reachS s -> view_of f (U s) ->
    cert s (R.qc_hash (R.b_qc blk)) ->
    snd (R.simple_commit f lk blk) = Some b3 ->
    (forall x, In x f -> small2 x) ->
    exists b1 b2,
      R.get f (R.qc_hash (R.b_qc blk)) = Some b1 /\
      commit_rule RSimple member qsize genesis s (absb b3) (absb b2) (absb b1).
  Proof.
    intros Hr V Hc Hcm Sm. unfold R.simple_commit, R.simple_commit_gen in Hcm.
    destruct (R.get f (R.qc_hash (R.b_qc blk))) as [b1|] eqn:G1; [|discriminate].
    destruct (R.get f (R.qc_hash (R.b_qc b1))) as [b2|] eqn:G2; [|discriminate].
    destruct (R.get f (R.qc_hash (R.b_qc b2))) as [b3'|] eqn:G3; [|discriminate].
    match type of Hcm with context [if ?c then _ else _] => destruct c eqn:C end; [|discriminate].
    simpl in Hcm. injection Hcm as <-.
    pose proof (RP.get_some _ _ _ G1) as [I1 H1]. pose proof (RP.get_some _ _ _ G3) as [I3 H3].
    rewrite andb_true_iff, N.eqb_eq in C. destruct C as [A2 _].
    rewrite RP.add2_64_small in A2 by (apply Sm; exact I3).
    exists b1, b2. split; [reflexivity|].
    unfold commit_rule. cbn [b_hash b_qc b_parent b_view absb].
    repeat split; auto; try (rewrite H1; auto; now apply V); try now apply V.
  Qed.
End Refine.

(* Executable trace validator for the Fast-HotStuff model (see ChainedExec.v for the idea). *)
From Coq Require Import List NArith ZArith Lia Bool Arith.
From HS Require Import Quorum.QuorumModel Quorum.QuorumProofs Quorum.QuorumSets.
From HS Require Import Protocol.Core Protocol.Fast Protocol.ChainedExec.
Import ListNotations.
Open Scope N_scope.

Inductive fevent :=
| FAddBlock (b : block)
| FByzVote (i : rid) (h : hash)
| FByzTimeout (i : rid) (v : view) (h : hash)
| FStop (r : rid) (v : view)
| FTimeout (r : rid) (v : view) (h : hash)
| FVote (r : rid) (h : hash) (agg : option (view * list (rid * hash)))
| FCommit (r : rid) (hp : hash) (obs : list hash)
| FCommits (r : rid) (cands : list hash) (obs : list hash).

Fixpoint assoc_hash (l : list (rid * hash)) (i : rid) : hash :=
  match l with
  | [] => 0
  | (j, h) :: t => if N.eqb i j then h else assoc_hash t i
  end.

Section Exec.
  Variable replicas byz : list rid.
  Variable genesis : block.

  Notation member := (ChainedExec.member replicas).
  Notation honest := (ChainedExec.honest byz).
  Notation qsize := (ChainedExec.qsize replicas).
  Notation U := Fast.U.
  Notation loc := (Fast.loc genesis).

  Definition fvoters (s : fstate) (h : hash) : list rid :=
    dedup (filter member (map fst (filter (fun p => N.eqb (snd p) h) (f_votes s)))).

  Definition fcertb (s : fstate) (h : hash) : bool :=
    N.eqb h (b_hash genesis) || (qsize <=? length (fvoters s h))%nat.

  Definition tsigb (s : fstate) (i : rid) (v : view) (h : hash) : bool :=
    existsb (fun t => let '(j, w, k) := t in N.eqb i j && N.eqb v w && N.eqb h k) (f_tsigs s).

  Definition agg_okb (s : fstate) (av : view) (c1 : block) (rep : list (rid * hash)) : bool :=
    let S := map fst rep in
    nodupb S && (qsize <=? length S)%nat && forallb member S &&
    forallb (fun i => tsigb s i av (assoc_hash rep i)) S &&
    forallb (fun i => match U s (assoc_hash rep i) with
                      | Some x => if fcertb s (assoc_hash rep i) then b_view x <=? b_view c1 else true
                      | None => true
                      end) S.

  (* every block of view <= v that r voted for has a QC block no higher than x *)
  Definition report_okb (s : fstate) (r : rid) (v : view) (x : block) : bool :=
    forallb (fun p : rid * hash =>
               let '(j, hb) := p in
               if N.eqb j r then
                 match U s hb with
                 | Some b => if b_view b <=? v then
                               match U s (b_qc b) with
                               | Some c1 => b_view c1 <=? b_view x
                               | None => true
                               end
                             else true
                 | None => true
                 end
               else true) (f_votes s).

  Definition ffuel (s : fstate) : nat := S (length (f_blocks s)).

  Definition try_fcommit (s : fstate) (r : rid) (hp : hash) (obs : list hash) : option (fstate * list hash) :=
    match U s hp with
    | None => None
    | Some p =>
        match U s (b_qc p) with
        | None => None
        | Some g =>
            if honest r && N.eqb (b_hash p) hp && N.eqb (b_hash g) (b_qc p) && fcertb s (b_hash p) &&
               N.eqb (b_parent p) (b_hash g) && N.eqb (b_view p) (b_view g + 1)
            then match segb (ffuel s) (U s) g (b_view (f_head (loc s r))) with
                 | Some (x :: l') =>
                     let l := x :: l' in
                     match strip_prefix (map b_hash l) obs with
                     | Some rest =>
                         Some (fset_loc s r
                                {| f_lastVoted := f_lastVoted (loc s r);
                                   f_head := if b_view (f_head (loc s r)) <? b_view g then g
                                             else f_head (loc s r);
                                   f_log := f_log (loc s r) ++ l |}, rest)
                     | None => None
                     end
                 | _ => None
                 end
            else None
        end
    end.

  Fixpoint fcommits_fold (s : fstate) (r : rid) (cands : list hash) (obs : list hash) : option fstate :=
    match cands with
    | [] => match obs with [] => Some s | _ => None end
    | hp :: rest =>
        match try_fcommit s r hp obs with
        | Some (s', obs') => fcommits_fold s' r rest obs'
        | None => fcommits_fold s r rest obs
        end
    end.

  Definition fstep (s : fstate) (e : fevent) : option fstate :=
    match e with
    | FAddBlock b =>
        match U s (b_hash b) with
        | Some _ => None
        | None => if negb (N.eqb (b_hash b) (b_parent genesis)) then Some (fadd_block s b) else None
        end
    | FByzVote i h => if honest i then None else Some (fadd_vote s i h)
    | FByzTimeout i v h => if honest i then None else Some (fadd_tsig s i v h)
    | FStop r v =>
        if honest r
        then Some (fset_loc s r {| f_lastVoted := N.max (f_lastVoted (loc s r)) v;
                                   f_head := f_head (loc s r); f_log := f_log (loc s r) |})
        else None
    | FTimeout r v h =>
        match U s h with
        | None => None
        | Some x => if honest r && N.eqb (b_hash x) h && fcertb s h && report_okb s r v x
                    then Some (ftimeout genesis s r v (b_hash x)) else None
        end
    | FVote r h agg =>
        match U s h with
        | None => None
        | Some b =>
            match U s (b_qc b) with
            | None => None
            | Some c1 =>
                if honest r && N.eqb (b_hash b) h && (f_lastVoted (loc s r) <? b_view b) &&
                   fcertb s (b_qc b) && N.eqb (b_parent b) (b_qc b) && (b_view c1 <? b_view b) &&
                   match agg with
                   | None => N.eqb (b_view b) (b_view c1 + 1)
                   | Some (av, rep) => (b_view b <=? av + 1) && agg_okb s av c1 rep
                   end
                then Some (fcast_vote genesis s r b) else None
            end
        end
    | FCommit r hp obs =>
        match U s hp with
        | None => None
        | Some p =>
            match U s (b_qc p) with
            | None => None
            | Some g =>
                if honest r && N.eqb (b_hash p) hp && N.eqb (b_hash g) (b_qc p) && fcertb s (b_hash p) &&
                   N.eqb (b_parent p) (b_hash g) && N.eqb (b_view p) (b_view g + 1)
                then match segb (ffuel s) (U s) g (b_view (f_head (loc s r))) with
                     | Some l =>
                         if list_eqb_N (map b_hash l) obs
                         then Some (fset_loc s r
                                {| f_lastVoted := f_lastVoted (loc s r);
                                   f_head := if b_view (f_head (loc s r)) <? b_view g then g
                                             else f_head (loc s r);
                                   f_log := f_log (loc s r) ++ l |})
                         else None
                     | None => None
                     end
                else None
            end
        end
    | FCommits r cands obs => fcommits_fold s r cands obs
    end.

  Fixpoint frun (s : fstate) (es : list fevent) (i : nat) : fstate * option nat :=
    match es with
    | [] => (s, None)
    | e :: r => match fstep s e with
                | Some s' => frun s' r (S i)
                | None => (s, Some i)
                end
    end.
End Exec.

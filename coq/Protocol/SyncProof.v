(* C05: the fault-free synchronous run exists in the abstract chained / simple system for every
   cluster size n >= 1 and every number of views k, and after k views every replica has voted in
   view k, is locked on b_{k-2}, and its ledger is exactly b_1 .. b_{k-3}: every view extends the
   chain and commits trail the newest block by the commit-chain length (3). *)
From Coq Require Import List NArith ZArith Lia Bool Arith.
From HS Require Import Quorum.QuorumModel Quorum.QuorumProofs Quorum.QuorumSets.
From HS Require Import Protocol.Core Protocol.Chained Protocol.ChainedExec Protocol.ChainedExecProofs Protocol.SyncRun.
Import ListNotations.
Open Scope N_scope.

Lemma ids_from_In a n x : In x (ids_from a n) <-> a <= x < a + N.of_nat n.
Proof.
  revert a; induction n as [|n IH]; intros a; simpl; [lia|].
  rewrite IH. lia.
Qed.

Lemma ids_from_NoDup a n : NoDup (ids_from a n).
Proof.
  revert a; induction n as [|n IH]; intros a; simpl; constructor; auto.
  rewrite ids_from_In. lia.
Qed.

Lemma ids_from_length a n : length (ids_from a n) = n.
Proof. revert a; induction n; simpl; auto. Qed.

Lemma ids_from_snoc a n : ids_from a (S n) = ids_from a n ++ [a + N.of_nat n].
Proof.
  revert a; induction n as [|n IH]; intros a.
  - simpl. f_equal. lia.
  - change (ids_from a (S (S n))) with (a :: ids_from (a + 1) (S n)). rewrite IH. simpl. do 3 f_equal. lia.
Qed.

Lemma nodupb_complete l : NoDup l -> nodupb l = true.
Proof.
  induction 1 as [|x l Hx Hl IH]; simpl; auto.
  rewrite IH, andb_true_r. apply negb_true_iff. now apply memb_false.
Qed.

Ltac blk := match goal with H : forall i, 1 <= i -> i <= _ -> U _ i = Some (sblock (i - 1)) |- _ =>
                rewrite H by lia; do 2 f_equal; lia end.

Section Sync.
  Variable rs : ruleset.
  Variable n : nat.
  Hypothesis Hn : (1 <= n)%nat.

  Notation reps := (ids n).
  Notation member := (ChainedExec.member reps).
  Notation honest := (ChainedExec.honest []).
  Notation qsize := (ChainedExec.qsize reps).
  Notation step := (Chained.step rs member honest qsize sgen).
  Notation reach := (Chained.reach rs member honest qsize sgen).
  Notation certified := (Chained.certified member qsize sgen).
  Notation loc := (Chained.loc sgen).

  Lemma cfg : config_ok reps [] sgen = true.
  Proof.
    unfold config_ok. rewrite !andb_true_iff. repeat split.
    - apply nodupb_complete. apply ids_from_NoDup.
    - apply Nat.leb_le. unfold ids. now rewrite ids_from_length.
    - apply Z.leb_le. unfold nrep, ids. rewrite ids_from_length.
      pose proof (f_nonneg (Z.of_nat n) ltac:(lia)). simpl. lia.
  Qed.

  Let QI := quorum_inter_inst reps [] sgen cfg.
  Let QH := quorum_has_honest_inst reps [] sgen cfg.

  Lemma all_honest r : honest r = true.
  Proof. reflexivity. Qed.

  Lemma member_In r : In r reps -> member r = true.
  Proof. intros H. unfold ChainedExec.member. now apply memb_In. Qed.

  Lemma qsize_le_n : (qsize <= n)%nat.
  Proof.
    unfold ChainedExec.qsize, nrep, ids. rewrite ids_from_length.
    pose proof (q_pos (Z.of_nat n) ltac:(lia)). lia.
  Qed.

  Lemma sblock0 : sblock 0 = sgen.
  Proof. reflexivity. Qed.

  (* the local state every replica has after k synchronous views *)
  Definition L (k : N) : local :=
    {| lastVoted := k; lock := sblock (k - 2); head := sblock (k - 3);
       log := map sblock (ids_from 1 (N.to_nat (k - 3))) |}.

  (* view k+1 in progress: block b_{k+1} exists, replicas in [todo] still have their view-k state,
     the others have finished view k+1 *)
  Record Mid (k : N) (s : state) (todo : list rid) : Prop := {
    m_reach : reach s;
    m_blocks : forall j, j <= k + 1 -> U s (j + 1) = Some (sblock j);
    m_votes_old : forall j r, 1 <= j <= k -> In r reps -> voted s r (j + 1);
    m_todo : forall r, In r todo -> loc s r = L k;
    m_done : forall r, In r reps -> ~ In r todo -> loc s r = L (k + 1) /\ voted s r (k + 2);
    m_fresh : forall h, k + 2 < h -> U s h = None
  }.

  Lemma certified_upto k s todo j :
    Mid k s todo -> j <= k -> certified s (j + 1).
  Proof.
    intros M Hj. destruct (N.eq_dec j 0) as [->|Nz]; [left; reflexivity|].
    right. exists reps. split; [apply ids_from_NoDup|]. split.
    - unfold ids. rewrite ids_from_length. apply qsize_le_n.
    - split; [intros i Hi; now apply member_In|].
      intros i Hi. apply (m_votes_old _ _ _ M); auto. lia.
  Qed.

  Lemma segment_one (Uu : universe) (b p : block) :
    Uu (b_parent b) = Some p -> b_view p < b_view b -> segment Uu b (b_view p) [b].
  Proof.
    intros Hp Hv. change [b] with ([] ++ [b]). econstructor; eauto. constructor. lia.
  Qed.

  (* one replica commits (from view 4 on) and votes in view k+1 *)
  Lemma mid_step k s r todo :
    Mid k s (r :: todo) -> In r reps -> ~ In r todo -> exists s', Mid k s' todo.
  Proof.
    intros M Hr Hnt.
    set (j := k + 1).
    assert (Lr : loc s r = L k) by (apply (m_todo _ _ _ M); now left).
    assert (Bj : U s (j + 1) = Some (sblock j)) by (apply (m_blocks _ _ _ M); unfold j; lia).
    assert (Bk : U s (k + 1) = Some (sblock k)) by (apply (m_blocks _ _ _ M); lia).
    assert (Bat : forall i, 1 <= i -> i <= k + 2 -> U s i = Some (sblock (i - 1))).
    { intros i H1 H2. pose proof (m_blocks _ _ _ M (i - 1) ltac:(lia)) as X.
      replace (i - 1 + 1) with i in X by lia. exact X. }
    (* ---- commit (only if k >= 3, i.e. view j >= 4) ---- *)
    assert (exists s1, reach s1 /\ U s1 = U s /\ (forall x h, voted s1 x h <-> voted s x h) /\
                       (forall x, x <> r -> loc s1 x = loc s x) /\
                       loc s1 r = {| lastVoted := k; lock := sblock (k - 2); head := sblock (j - 3);
                                     log := map sblock (ids_from 1 (N.to_nat (j - 3))) |}) as (s1 & R1 & U1 & V1 & O1 & L1).
    { destruct (N.ltb_spec k 3) as [Hk|Hk].
      - exists s. repeat split; auto; try tauto; try apply (m_reach _ _ _ M).
        rewrite Lr. unfold L, j.
        replace (k + 1 - 3) with (k - 3) by lia. reflexivity.
      - (* three-chain b_{k-2} <- b_{k-1} <- b_k, commit b_{k-2} = b_{j-3} *)
        exists (set_loc s r {| lastVoted := lastVoted (loc s r); lock := lock (loc s r);
                               head := if b_view (head (loc s r)) <? b_view (sblock (k - 2)) then sblock (k - 2)
                                       else head (loc s r);
                               log := log (loc s r) ++ [sblock (k - 2)] |}).
        split.
        + econstructor; [apply (m_reach _ _ _ M)|].
          eapply (step_commit rs member honest qsize sgen s r (sblock (k - 2)) (sblock (k - 1)) (sblock k)); auto.
          * unfold commit_rule. simpl.
            split; [blk|]. split; [blk|]. split; [blk|].
            split; [apply (certified_upto k s (r :: todo)); auto; lia|].
            destruct rs; simpl; lia.
          * rewrite Lr. cbn [L head b_view sblock].
            apply (segment_one (U s) (sblock (k - 2)) (sblock (k - 3))); cbn [b_parent b_view sblock]; [blk|lia].
        + split; [reflexivity|]. split; [intros; reflexivity|]. split.
          * intros x Hx. rewrite loc_set, upd_other; auto.
          * rewrite loc_set, upd_same, Lr. simpl.
            destruct (N.ltb_spec (k - 3) (k - 2)); [|lia].
            unfold j. replace (k + 1 - 3) with (k - 2) by lia.
            f_equal. replace (N.to_nat (k - 2)) with (S (N.to_nat (k - 3))) by lia.
            rewrite ids_from_snoc, map_app. cbn [map]. do 3 f_equal. lia. }
    (* ---- vote for b_j ---- *)
    assert (Cq : certified s1 (b_qc (sblock j))).
    { simpl. unfold j. destruct (N.eq_dec k 0) as [->|Nz]; [left; reflexivity|].
      right. exists reps. split; [apply ids_from_NoDup|]. split.
      - unfold ids. rewrite ids_from_length. apply qsize_le_n.
      - split; [intros i Hi; now apply member_In|].
        intros i Hi. apply V1. replace (k + 1) with (k + 1) by lia. apply (m_votes_old _ _ _ M); auto. lia. }
    assert (St : step s1 (cast_vote sgen s1 r (sblock j))).
    { eapply (vote_enabled rs member honest qsize QI QH sgen eq_refl) with (c1 := sblock k); auto.
      - discriminate.
      - discriminate.
      - rewrite U1. exact Bj.
      - rewrite L1. simpl. unfold j. lia.
      - rewrite U1. simpl. unfold j. replace (k + 1) with (k + 1) by lia. exact Bk.
      - simpl. unfold j. lia.
      - simpl. unfold j. destruct (N.eq_dec k 0) as [->|Nz]; [left; reflexivity|right].
        exists (sblock (k - 1)). rewrite U1. simpl. replace k with (k - 1 + 1) at 1 by lia.
        apply (m_blocks _ _ _ M). lia.
      - rewrite L1. simpl. lia. }
    exists (cast_vote sgen s1 r (sblock j)).
    assert (Us : forall h, U (cast_vote sgen s1 r (sblock j)) h = U s h) by (intros; rewrite <- U1; reflexivity).
    constructor.
    - econstructor; eauto.
    - intros i Hi. rewrite Us. apply (m_blocks _ _ _ M); auto.
    - intros i x Hi Hx. left. apply V1. apply (m_votes_old _ _ _ M); auto.
    - intros x Hx. rewrite loc_cast.
      assert (x <> r) by (intros ->; contradiction).
      rewrite upd_other by auto. rewrite O1 by auto. apply (m_todo _ _ _ M). now right.
    - intros x Hx Hnx. destruct (N.eq_dec x r) as [->|Nx].
      + split; [|right; split; [reflexivity|simpl; unfold j; lia]].
        rewrite loc_cast, upd_same, L1. unfold L, j. cbn [head log b_view sblock].
        assert (NL : new_lock (U s1) (sblock (k + 1)) (lock {| lastVoted := k; lock := sblock (k - 2);
                       head := sblock (k + 1 - 3); log := map sblock (ids_from 1 (N.to_nat (k + 1 - 3))) |})
                     = sblock (k + 1 - 2)).
        { unfold new_lock. cbn [lock b_qc sblock]. rewrite U1.
          replace (k + 1) with (k + 1) by lia. rewrite Bk. cbn [b_qc sblock].
          destruct (N.eq_dec k 0) as [->|Nz].
          - assert (U s 0 = None).
            { pose proof (reach_inv rs member honest qsize QI QH sgen eq_refl ltac:(discriminate) ltac:(discriminate) _ (m_reach _ _ _ M)) as I.
              exact (i_nogp _ _ _ _ _ I). }
            rewrite H. reflexivity.
          - rewrite (Bat k) by lia. cbn [b_view sblock].
            destruct (N.ltb_spec (k - 2) (k - 1)).
            + f_equal; lia.
            + assert (k = 1) by lia. subst. reflexivity. }
        rewrite NL. f_equal; lia.
      + assert (Hx' : ~ In x (r :: todo)) by (intros [->|]; contradiction).
        destruct (m_done _ _ _ M x Hx Hx') as [A B]. split.
        * rewrite loc_cast, upd_other by auto. rewrite O1 by auto. exact A.
        * left. apply V1. exact B.
    - intros h Hh. rewrite Us. apply (m_fresh _ _ _ M); auto.
  Qed.

  Lemma mid_all k s todo :
    NoDup todo -> incl todo reps -> Mid k s todo -> exists s', Mid k s' [].
  Proof.
    revert s; induction todo as [|r todo IH]; intros s ND Inc M; [eauto|].
    inversion ND; subst.
    destruct (mid_step k s r todo M) as (s1 & M1); auto.
    - apply Inc. now left.
    - apply (IH s1); auto. intros x Hx. apply Inc. now right.
  Qed.

  (* state after k complete synchronous views *)
  Definition Done (k : N) (s : state) : Prop :=
    reach s /\
    (forall j, j <= k -> U s (j + 1) = Some (sblock j)) /\
    (forall h, k + 1 < h -> U s h = None) /\
    (forall j r, 1 <= j <= k -> In r reps -> voted s r (j + 1)) /\
    (forall r, In r reps -> loc s r = L k).

  Lemma done_init : Done 0 (init sgen).
  Proof.
    split; [constructor|]. split.
    - intros j Hj. assert (j = 0) by lia. subst. reflexivity.
    - split.
      + intros h Hh. unfold U; simpl. destruct (N.eqb_spec h 1); [lia|reflexivity].
      + split; [intros; lia|]. intros r _. reflexivity.
  Qed.

  Lemma done_step k s : Done k s -> exists s', Done (k + 1) s'.
  Proof.
    intros (R & B & F & V & Lc).
    set (s0 := add_block s (sblock (k + 1))).
    assert (M0 : Mid k s0 reps).
    { constructor.
      - econstructor; [exact R|]. constructor; simpl; try lia. apply F. lia.
      - intros j Hj. unfold s0, U; simpl. destruct (N.eqb_spec (j + 1) (k + 1 + 1)).
        + assert (j = k + 1) by lia. subst. reflexivity.
        + apply B. lia.
      - intros j r Hj Hr. apply V; auto.
      - intros r Hr. apply Lc; auto.
      - intros r Hr Hnr. contradiction.
      - intros h Hh. unfold s0, U; simpl. destruct (N.eqb_spec h (k + 1 + 1)); [lia|]. apply F. lia. }
    destruct (mid_all k s0 reps (ids_from_NoDup 1 n) (incl_refl _) M0) as (s' & M).
    exists s'. split; [apply (m_reach _ _ _ M)|]. split; [apply (m_blocks _ _ _ M)|]. split.
    - intros h Hh. apply (m_fresh _ _ _ M). lia.
    - split.
      + intros j r Hj Hr. destruct (N.eq_dec j (k + 1)) as [->|Nj].
        * replace (k + 1 + 1) with (k + 2) by lia. apply (m_done _ _ _ M r Hr). auto.
        * apply (m_votes_old _ _ _ M); auto. lia.
      + intros r Hr. apply (m_done _ _ _ M r Hr). auto.
  Qed.

  (* For every number of views k there is a reachable state of the abstract system (the
     fault-free synchronous run) in which every replica has voted in view k and its ledger is
     exactly b_1 .. b_{k-3}. *)
  Theorem sync_run_exists (k : nat) :
    exists s, reach s /\
      forall r, In r reps ->
        lastVoted (loc s r) = N.of_nat k /\
        b_hash (lock (loc s r)) = N.of_nat k - 2 + 1 /\
        map b_hash (log (loc s r)) = expected_log k.
  Proof.
    assert (H : exists s, Done (N.of_nat k) s).
    { induction k as [|k [s IH]]; [exists (init sgen); apply done_init|].
      destruct (done_step _ _ IH) as (s' & D). exists s'.
      replace (N.of_nat (S k)) with (N.of_nat k + 1) by lia. exact D. }
    destruct H as (s & R & _ & _ & _ & Lc). exists s. split; [exact R|].
    intros r Hr. rewrite (Lc r Hr). simpl. repeat split.
    unfold expected_log, ids. rewrite map_map. simpl.
    replace (N.to_nat (N.of_nat k - 3)) with (k - 3)%nat by lia. reflexivity.
  Qed.
End Sync.

(* The commit walk of the code (Committer.commitInner as modelled for C06 in Exec/ExecModel.v,
   [commit_walk], the function the C06 correspondence check runs against the Go committer) computes
   the abstract [segment] of Protocol/Core.v: when the replica's store and what its peers serve
   are partial views of the global universe, the list of blocks the walk returns is, block for
   block, the abstract walk from the same block down to the same floor.  Together with
   Protocol/Refine.v (the commit decision) this makes the abstract commit step of C01 an image of
   the code-level TryCommit. *)
From Coq Require Import List NArith Lia Bool Arith.
From HS Require Import Base.Prelude Protocol.Core.
From HS Require Exec.ExecModel.
Import ListNotations.
Open Scope N_scope.

Module E := HS.Exec.ExecModel.

(* a code-level block (commands, no certificate field) and an abstract block agree *)
Definition same (b : E.block) (x : block) : Prop :=
  b_hash x = E.b_hash b /\ b_parent x = E.b_parent b /\ b_view x = E.b_view b.

(* every block the replica holds or can fetch is the projection of a block of the universe *)
Definition store_view (bs : list E.block) (Uu : universe) : Prop :=
  forall h b, E.blk_get bs h = Some b -> exists x, Uu h = Some x /\ same b x.

Lemma blk_get_hash bs h b : E.blk_get bs h = Some b -> E.b_hash b = h.
Proof.
  induction bs as [|a r IH]; simpl; [discriminate|].
  destruct (N.eqb_spec (E.b_hash a) h); [intros [= <-]; auto|auto].
Qed.

Lemma blk_get_app bs cs h b :
  E.blk_get (bs ++ cs) h = Some b -> E.blk_get bs h = Some b \/ E.blk_get cs h = Some b.
Proof.
  induction bs as [|a r IH]; simpl; auto.
  destruct (N.eqb (E.b_hash a) h); auto.
Qed.

Lemma store_view_app bs cs Uu : store_view bs Uu -> store_view cs Uu -> store_view (bs ++ cs) Uu.
Proof. intros A B h b G. destruct (blk_get_app _ _ _ _ G); eauto. Qed.

Lemma chain_get_view ch remote Uu h r ch' :
  store_view (E.blocks ch) Uu -> store_view remote Uu ->
  E.chain_get ch remote h = (r, ch') ->
  store_view (E.blocks ch') Uu /\
  match r with Some b => exists x, Uu h = Some x /\ same b x | None => True end.
Proof.
  intros A B. unfold E.chain_get.
  destruct (E.blk_get (E.blocks ch) h) as [b|] eqn:G1.
  - intros [= <- <-]. split; eauto.
  - destruct (E.blk_get remote h) as [b|] eqn:G2; intros [= <- <-]; [|split; auto].
    split; [|eauto]. simpl. apply store_view_app; auto.
    intros h' b'. simpl. destruct (N.eqb_spec (E.b_hash b) h') as [<-|]; [|discriminate].
    intros [= <-]. rewrite (blk_get_hash _ _ _ G2). eauto.
Qed.

Theorem commit_walk_is_segment Uu remote : forall fuel ch b cv ch' l x,
  store_view (E.blocks ch) Uu -> store_view remote Uu ->
  same b x ->
  E.commit_walk fuel remote ch b cv = (ch', Ok l) ->
  store_view (E.blocks ch') Uu /\
  exists lx, segment Uu x cv lx /\ Forall2 same l lx.
Proof.
  induction fuel as [|k IH]; intros ch b cv ch' l x A B S; simpl;
    destruct S as (Sh & Sp & Sv).
  - destruct (N.leb_spec (E.b_view b) cv); [|discriminate]. intros [= <- <-].
    split; auto. exists []. split; [constructor; lia|constructor].
  - destruct (N.leb_spec (E.b_view b) cv).
    + intros [= <- <-]. split; auto. exists []. split; [constructor; lia|constructor].
    + destruct (E.chain_get ch remote (E.b_parent b)) as [[p|] ch1] eqn:G; [|discriminate].
      destruct (chain_get_view _ _ _ _ _ _ A B G) as (A1 & xp & Up & Sxp).
      destruct (E.commit_walk k remote ch1 p cv) as [ch2 [l0| |]] eqn:W; try discriminate.
      intros [= <- <-].
      destruct (IH ch1 p cv ch2 l0 xp A1 B Sxp W) as (A2 & lx & Sg & F).
      split; auto. exists (lx ++ [x]). split.
      * eapply seg_step; eauto; [lia|]. now rewrite Sp.
      * apply Forall2_app; auto. constructor; [|constructor]. repeat split; auto.
Qed.

(* the walk's result is THE abstract walk: [segment] is deterministic *)
Corollary commit_walk_matches_abstract_commit Uu remote fuel ch b cv ch' l x lx :
  store_view (E.blocks ch) Uu -> store_view remote Uu -> same b x ->
  E.commit_walk fuel remote ch b cv = (ch', Ok l) ->
  segment Uu x cv lx ->
  Forall2 same l lx.
Proof.
  intros A B S W Sg.
  destruct (commit_walk_is_segment Uu remote fuel ch b cv ch' l x A B S W) as (_ & lx' & Sg' & F).
  now rewrite (segment_det _ _ _ _ Sg _ Sg').
Qed.

(* Local-to-global refinement for Fast-HotStuff: the decisions of the code-level rule model
   (Rules/RulesModel.v: fast_vote, fast_commit) taken on a replica's own store are instances of
   the abstract steps of Protocol/Fast.v.  See Protocol/Refine.v for the chained and simple
   rule sets. *)
From Coq Require Import List NArith Lia Bool Arith.
From HS Require Import Protocol.Core Protocol.Fast.
From HS Require Protocol.Refine.
From HS Require Rules.RulesModel Rules.RulesSpec Rules.RulesProofs.
Import ListNotations.
Open Scope N_scope.

Module R := HS.Rules.RulesModel.
Module RP := HS.Rules.RulesProofs.
Notation absb := Refine.absb.
Notation view_of := Refine.view_of.

Section RefineFast.
  Variable member : rid -> bool.
  Variable honest : rid -> bool.
  Variable qsize : nat.
  Let genesis : block := absb R.genesis.

  Local Notation stepF := (step member honest qsize genesis).
  Local Notation cert := (certified member qsize genesis).
  Local Notation locg := (loc genesis).

  Theorem fast_replica_vote_refines s r f v p qb :
    let blk := R.p_block p in
    honest r = true ->
    view_of f (U s) ->
    U s (R.b_hash blk) = Some (absb blk) ->
    (* proposal handler (QC verified: certified, and the certificate's view is the view of the
       block it certifies) and Voter.Verify (view, parent, QC block) *)
    R.get f (R.qc_hash (R.b_qc blk)) = Some qb ->
    cert s (R.qc_hash (R.b_qc blk)) ->
    R.qc_view (R.b_qc blk) = R.b_view qb ->
    R.b_parent blk = R.qc_hash (R.b_qc blk) ->
    R.b_view qb < R.b_view blk ->
    f_lastVoted (locg s r) < R.b_view blk ->
    (* an aggregate certificate, when the proposal carries one, was verified (VerifyAggregateQC):
       a quorum of timeout signatures for its view whose highest certified report is the QC block *)
    (forall a, R.p_agg p = Some a ->
               agg_ok member qsize genesis s (R.agg_view a) (absb qb) /\ R.agg_view a < R.two64 - 1) ->
    R.b_view qb < R.two64 - 1 ->
    R.fast_vote f v p = true ->
    stepF s (fcast_vote genesis s r (absb blk)).
  Proof.
    intros blk Hh V Hblk Hqb Hc Hqv Hpar Hvw Hlv Hagg Hsm Hvote.
    pose proof (V _ _ Hqb) as Uqb.
    apply step_vote with (c1 := absb qb); auto.
    unfold R.fast_vote in Hvote. fold blk in Hvote.
    destruct (R.p_agg p) as [a|] eqn:Ea.
    - right. destruct (Hagg a eq_refl) as [Ok Sm]. exists (R.agg_view a). split; [|exact Ok].
      destruct (N.ltb_spec (R.succ64 (R.agg_view a)) (R.b_view blk)) as [|Ge]; [discriminate|].
      rewrite RP.succ64_small in Ge by exact Sm. exact Ge.
    - left. rewrite andb_true_iff, N.eqb_eq in Hvote. destruct Hvote as [_ E].
      rewrite Hqv, RP.succ64_small in E by exact Hsm. exact E.
  Qed.

  Theorem fast_replica_commit_refines s f blk gp :
    view_of f (U s) ->
    cert s (R.qc_hash (R.b_qc blk)) ->
    R.fast_commit f blk = Some gp ->
    (forall x, In x f -> R.b_view x < R.two64 - 1) ->
    exists par,
      R.get f (R.qc_hash (R.b_qc blk)) = Some par /\
      two_chain member qsize genesis s (absb gp) (absb par).
  Proof.
    intros V Hc Hcm Sm. unfold R.fast_commit in Hcm.
    destruct (R.qc_ref f (R.b_qc blk)) as [par|] eqn:Q1; [|discriminate].
    destruct (R.qc_ref f (R.b_qc par)) as [gp'|] eqn:Q2; [|discriminate].
    destruct (_ && _ && _ && _) eqn:C; [|discriminate]. injection Hcm as <-.
    apply RP.qc_ref_some in Q1, Q2. destruct Q1 as [_ G1], Q2 as [_ G2].
    pose proof (RP.get_some _ _ _ G1) as [I1 H1]. pose proof (RP.get_some _ _ _ G2) as [I2 H2].
    rewrite !andb_true_iff, !N.eqb_eq in C. destruct C as [[[P1 V1] P2] V2].
    rewrite RP.succ64_small in V2 by (apply Sm; exact I2).
    exists par. split; [exact G1|].
    unfold two_chain. cbn [b_hash b_parent b_view absb].
    repeat split; auto; try (rewrite H1; auto; now apply V); try (rewrite H2; now apply V).
  Qed.
End RefineFast.

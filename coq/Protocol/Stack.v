(* The replica stack in one statement: the Voter model of C03 (Voter/VoterModel.v: Voter.Verify with
   its freshness, certificate, parent and view checks) on top of the rule model of C04
   (Rules/RulesModel.v) refines the abstract vote step of C01.  [describes] links the proposal
   record the voter model works with to the code-level proposal and store the rule model works
   with; the certificate check is linked to "certified" by Protocol/Bridge.v. *)
From Coq Require Import List NArith Lia Bool Arith.
From HS Require Import Protocol.Core Protocol.Chained Protocol.Refine.
From HS Require Voter.VoterModel.
Import ListNotations.
Open Scope N_scope.

Module V := HS.Voter.VoterModel.

Record describes (vote_rule : R.store -> R.block -> view -> R.proposal -> bool)
       (p : V.proposal) (pr : R.proposal) (f : R.store) (lk : R.block) (cur : view) : Prop := {
  d_view : V.p_view p = R.b_view (R.p_block pr);
  d_parent : V.p_parent p = R.b_parent (R.p_block pr);
  d_qc_hash : V.p_qc_hash p = R.qc_hash (R.b_qc (R.p_block pr));
  d_qc_block : V.p_qc_block_view p = option_map R.b_view (R.get f (R.qc_hash (R.b_qc (R.p_block pr))));
  d_rule : V.p_rule p = vote_rule f lk cur pr
}.

Section Stack.
  Variable member : rid -> bool.
  Variable honest : rid -> bool.
  Variable qsize : nat.
  Hypothesis quorum_inter : forall A B : list rid,
      NoDup A -> NoDup B -> (qsize <= length A)%nat -> (qsize <= length B)%nat ->
      (forall i, In i A -> member i = true) -> (forall i, In i B -> member i = true) ->
      exists i, In i A /\ In i B /\ honest i = true.
  Hypothesis quorum_has_honest : forall A : list rid,
      NoDup A -> (qsize <= length A)%nat -> (forall i, In i A -> member i = true) ->
      exists i, In i A /\ honest i = true.
  Variable leader : view -> rid.

  Let genesis : block := absb R.genesis.

  Lemma verify_facts st p :
    V.verify leader st p = true ->
    V.last_voted st < V.p_view p /\ V.p_rule p = true /\ V.p_qc_ok p = true /\
    V.p_parent p = V.p_qc_hash p /\
    exists bv, V.p_qc_block_view p = Some bv /\ bv < V.p_view p.
  Proof.
    unfold V.verify. intros H.
    destruct (N.leb_spec (V.p_view p) (V.last_voted st)); [discriminate|].
    destruct (V.p_rule p); [|discriminate]. simpl in H.
    destruct (V.p_agg_ok p); [|discriminate]. destruct (V.p_qc_ok p); [|discriminate]. simpl in H.
    destruct (N.eqb_spec (V.p_parent p) (V.p_qc_hash p)); [|discriminate]. simpl in H.
    destruct (V.p_qc_block_view p) as [bv|]; [|discriminate].
    destruct (N.leb_spec (V.p_view p) bv); [discriminate|].
    repeat split; auto. exists bv. split; auto.
  Qed.

  Theorem chained_stack_vote_refines s r f lk cur st p pr :
    let blk := R.p_block pr in
    reach RChained member honest qsize genesis s -> honest r = true ->
    view_of f (U s) ->
    U s (R.b_hash blk) = Some (absb blk) ->
    lock (loc genesis s r) = absb lk ->
    lastVoted (loc genesis s r) = V.last_voted st ->
    describes R.chained_vote p pr f lk cur ->
    (V.p_qc_ok p = true -> certified member qsize genesis s (R.qc_hash (R.b_qc blk))) ->
    V.verify leader st p = true ->
    step RChained member honest qsize genesis s (cast_vote genesis s r (absb blk)) /\
    lock (loc genesis (cast_vote genesis s r (absb blk)) r) = absb (fst (R.chained_commit f lk blk)).
  Proof.
    intros blk Hr Hh V Ub Hlk Hlv D Hc Hv.
    destruct (verify_facts st p Hv) as (Lv & Rl & Qok & Par & bv & Ebv & Hbv).
    destruct D as [Dv Dp Dq Db Dr].
    rewrite Db in Ebv. subst blk.
    destruct (R.get f (R.qc_hash (R.b_qc (R.p_block pr)))) as [qb|] eqn:Gq; [|discriminate].
    simpl in Ebv. injection Ebv as <-.
    assert (A1 : R.b_parent (R.p_block pr) = R.qc_hash (R.b_qc (R.p_block pr)))
      by (rewrite <- Dp, <- Dq; exact Par).
    assert (A2 : R.b_view qb < R.b_view (R.p_block pr)) by (rewrite <- Dv; exact Hbv).
    assert (A3 : lastVoted (loc genesis s r) < R.b_view (R.p_block pr))
      by (rewrite Hlv, <- Dv; exact Lv).
    assert (A4 : R.chained_vote f lk cur pr = true) by (rewrite <- Dr; exact Rl).
    exact (chained_replica_vote_refines member honest qsize quorum_inter quorum_has_honest
             s r f lk cur pr qb Hr Hh V Ub Hlk Gq (Hc Qok) A1 A2 A3 A4).
  Qed.

  Theorem simple_stack_vote_refines s r f lk cur st p pr :
    let blk := R.p_block pr in
    reach RSimple member honest qsize genesis s -> honest r = true ->
    view_of f (U s) ->
    U s (R.b_hash blk) = Some (absb blk) ->
    lock (loc genesis s r) = absb lk ->
    lastVoted (loc genesis s r) = V.last_voted st ->
    describes R.simple_vote p pr f lk cur ->
    (V.p_qc_ok p = true -> certified member qsize genesis s (R.qc_hash (R.b_qc blk))) ->
    V.verify leader st p = true ->
    step RSimple member honest qsize genesis s (cast_vote genesis s r (absb blk)) /\
    lock (loc genesis (cast_vote genesis s r (absb blk)) r) = absb (fst (R.simple_commit f lk blk)).
  Proof.
    intros blk Hr Hh V Ub Hlk Hlv D Hc Hv.
    destruct (verify_facts st p Hv) as (Lv & Rl & Qok & Par & bv & Ebv & Hbv).
    destruct D as [Dv Dp Dq Db Dr].
    rewrite Db in Ebv. subst blk.
    destruct (R.get f (R.qc_hash (R.b_qc (R.p_block pr)))) as [qb|] eqn:Gq; [|discriminate].
    simpl in Ebv. injection Ebv as <-.
    assert (A1 : R.b_parent (R.p_block pr) = R.qc_hash (R.b_qc (R.p_block pr)))
      by (rewrite <- Dp, <- Dq; exact Par).
    assert (A2 : R.b_view qb < R.b_view (R.p_block pr)) by (rewrite <- Dv; exact Hbv).
    assert (A3 : lastVoted (loc genesis s r) < R.b_view (R.p_block pr))
      by (rewrite Hlv, <- Dv; exact Lv).
    assert (A4 : R.simple_vote f lk cur pr = true) by (rewrite <- Dr; exact Rl).
    exact (simple_replica_vote_refines member honest qsize quorum_inter quorum_has_honest
             s r f lk cur pr qb Hr Hh V Ub Hlk Gq (Hc Qok) A1 A2 A3 A4).
  Qed.
End Stack.

(* Soundness of the trace validator: accepted events are abstract transitions. *)
From Coq Require Import List NArith ZArith Lia Bool Arith.
From HS Require Import Quorum.QuorumModel Quorum.QuorumProofs Quorum.QuorumSets.
From HS Require Import Protocol.Core Protocol.Chained Protocol.ChainedExec.
Import ListNotations.
Open Scope N_scope.

Lemma votedP_In l j k : votedP l j k <-> In (j, k) l.
Proof.
  induction l as [|[r h] t IH]; simpl; [tauto|]. rewrite IH. split.
  - intros [H|[-> ->]]; auto.
  - intros [[= -> ->]|H]; auto.
Qed.

Lemma list_eqb_N_eq a b : list_eqb_N a b = true -> a = b.
Proof.
  revert b; induction a as [|x a IH]; destruct b as [|y b]; simpl; try congruence.
  intros H. apply andb_true_iff in H. destruct H as [H1 H2]. apply N.eqb_eq in H1. f_equal; auto.
Qed.

Section Sound.
  Variable rs : ruleset.
  Variable replicas byz : list rid.
  Variable genesis : block.
  Hypothesis Hcfg : config_ok replicas byz genesis = true.

  Notation member := (ChainedExec.member replicas).
  Notation honest := (ChainedExec.honest byz).
  Notation qsize := (ChainedExec.qsize replicas).
  Notation U := Chained.U.
  Notation loc := (Chained.loc genesis).
  Notation step := (Chained.step rs member honest qsize genesis).
  Notation reach := (Chained.reach rs member honest qsize genesis).
  Notation certified := (Chained.certified member qsize genesis).

  Lemma cfg_parts :
    NoDup replicas /\ (1 <= length replicas)%nat /\
    (Z.of_nat (length byz) <= num_faulty (nrep replicas))%Z /\
    b_view genesis = 0 /\ b_parent genesis <> b_hash genesis /\ b_qc genesis <> b_hash genesis.
  Proof.
    unfold config_ok in Hcfg. rewrite !andb_true_iff in Hcfg.
    destruct Hcfg as (((((A & B) & C) & D) & E) & F).
    repeat split.
    - now apply nodupb_NoDup.
    - now apply Nat.leb_le.
    - now apply Z.leb_le.
    - now apply N.eqb_eq.
    - apply negb_true_iff in E. now apply N.eqb_neq.
    - apply negb_true_iff in F. now apply N.eqb_neq.
  Qed.

  Lemma qsize_Z (A : list rid) : (qsize <= length A)%nat ->
    (Z.of_nat (length A) >= quorum_size (Z.of_nat (length replicas)))%Z.
  Proof.
    destruct cfg_parts as (_ & Hn & _). unfold ChainedExec.qsize, nrep. intros H.
    pose proof (q_pos (Z.of_nat (length replicas)) ltac:(lia)). lia.
  Qed.

  Lemma quorum_inter_inst : forall A B : list rid,
      NoDup A -> NoDup B -> (qsize <= length A)%nat -> (qsize <= length B)%nat ->
      (forall i, In i A -> member i = true) -> (forall i, In i B -> member i = true) ->
      exists i, In i A /\ In i B /\ honest i = true.
  Proof.
    intros A B NA NB LA LB MA MB.
    destruct cfg_parts as (ND & Hn & Hf & _).
    destruct (quorum_intersection_honest replicas A B byz Hn NA NB) as (x & HA & HB & HF).
    - intros i Hi. apply memb_In. now apply MA.
    - intros i Hi. apply memb_In. now apply MB.
    - now apply qsize_Z.
    - now apply qsize_Z.
    - exact Hf.
    - exists x. repeat split; auto. unfold ChainedExec.honest. apply negb_true_iff. now apply memb_false.
  Qed.

  Lemma quorum_has_honest_inst : forall A : list rid,
      NoDup A -> (qsize <= length A)%nat -> (forall i, In i A -> member i = true) ->
      exists i, In i A /\ honest i = true.
  Proof.
    intros A NA LA MA. destruct (quorum_inter_inst A A NA NA LA LA MA MA) as (x & H & _ & Hh). eauto.
  Qed.

  Lemma certb_sound s h : certb replicas genesis s h = true -> certified s h.
  Proof.
    unfold certb. rewrite orb_true_iff. intros [H|H].
    - left. now apply N.eqb_eq.
    - right. exists (voters replicas s h). unfold voters in *. repeat split.
      + apply dedup_NoDup.
      + now apply Nat.leb_le.
      + intros i Hi. apply dedup_In, filter_In in Hi. tauto.
      + intros i Hi. apply dedup_In, filter_In in Hi. destruct Hi as [Hi _].
        apply in_map_iff in Hi. destruct Hi as ([j k] & Hj & Hin). simpl in Hj. subst j.
        apply filter_In in Hin. destruct Hin as [Hin Hk]. simpl in Hk. apply N.eqb_eq in Hk. subst k.
        unfold Chained.voted. now apply votedP_In.
  Qed.

  Lemma extendsb_sound fuel Uu b t : extendsb fuel Uu b t = true -> anc Uu b t.
  Proof.
    revert b; induction fuel as [|k IH]; intros b; simpl; rewrite orb_true_iff; intros [H|H].
    - apply block_eqb_eq in H. subst. constructor.
    - discriminate.
    - apply block_eqb_eq in H. subst. constructor.
    - destruct (Uu (b_parent b)) as [p|] eqn:E; [|discriminate]. econstructor; eauto.
  Qed.

  Lemma segb_sound fuel Uu x fl l : segb fuel Uu x fl = Some l -> segment Uu x fl l.
  Proof.
    revert x l; induction fuel as [|k IH]; intros x l; simpl.
    - destruct (N.leb_spec (b_view x) fl); [intros [= <-]; now constructor|discriminate].
    - destruct (N.leb_spec (b_view x) fl); [intros [= <-]; now constructor|].
      destruct (Uu (b_parent x)) as [p|] eqn:E; [|discriminate].
      destruct (segb k Uu p fl) as [l'|] eqn:E'; [|discriminate].
      intros [= <-]. econstructor; eauto.
  Qed.

  Lemma gstep_sound_single s e s' :
    (forall r c o, e <> ECommits r c o) ->
    gstep rs replicas byz genesis s e = Some s' -> step s s'.
  Proof.
    intros NotMulti. destruct e as [b|i h|r v|r h ol|r h1 obs|r cands obs]; cbn [gstep].
    - destruct (U s (b_hash b)) eqn:E; [discriminate|].
      destruct (negb (b_hash b =? b_parent genesis) && negb (b_hash b =? b_qc genesis))%bool eqn:G; [|discriminate].
      intros [= <-]. apply andb_true_iff in G. destruct G as [G1 G2].
      apply negb_true_iff in G1, G2. apply N.eqb_neq in G1, G2. now constructor.
    - destruct (honest i) eqn:H; [discriminate|]. intros [= <-]. now constructor.
    - destruct (honest r) eqn:H; [|discriminate]. intros [= <-]. now constructor.
    - destruct (U s h) as [b|] eqn:Eb; [|discriminate].
      destruct (U s (b_qc b)) as [c1|] eqn:Ec1; [|discriminate].
      match goal with |- (if ?c then _ else _) = _ -> _ => destruct c eqn:G; [|discriminate] end.
      rewrite !andb_true_iff in G.
      destruct G as (((((((Hh & Hhash) & Hlv) & Hc) & Hp) & Hv) & Ha) & Hr).
      apply N.eqb_eq in Hhash, Hp. apply N.ltb_lt in Hlv, Hv.
      intros Hres.
      assert (s' = cast_vote genesis s r b).
      { destruct ol as [hl|]; [|congruence].
        destruct (b_hash (lock (loc (cast_vote genesis s r b) r)) =? hl); congruence. }
      subst s'. clear Hres.
      eapply (step_vote rs member honest qsize genesis s r b c1); auto.
      + rewrite Hhash. exact Eb.
      + now apply certb_sound.
      + apply orb_true_iff in Ha. destruct Ha as [Ha|Ha]; [left; now apply N.eqb_eq|right].
        destruct (U s (b_qc c1)) as [c2|]; [eauto|discriminate].
      + unfold vote_ruleb in Hr. unfold vote_rule. destruct rs.
        * apply orb_true_iff in Hr. destruct Hr as [Hr|Hr]; [left; now apply N.ltb_lt|right].
          eapply extendsb_sound; eauto.
        * now apply N.leb_le.
    - destruct (U s h1) as [b1|] eqn:E1; [|discriminate].
      destruct (U s (b_qc b1)) as [b2|] eqn:E2; [|discriminate].
      destruct (U s (b_qc b2)) as [b3|] eqn:E3; [|discriminate].
      match goal with |- (if ?c then _ else _) = _ -> _ => destruct c eqn:G; [|discriminate] end.
      rewrite !andb_true_iff in G. destruct G as (((Hh & Hhash) & Hc) & Hr).
      apply N.eqb_eq in Hhash.
      match goal with |- match ?c with _ => _ end = _ -> _ => destruct c as [l|] eqn:Es; [|discriminate] end.
      match goal with |- (if ?c then _ else _) = _ -> _ => destruct c; [|discriminate] end.
      intros [= <-].
      eapply (step_commit rs member honest qsize genesis s r b3 b2 b1 l); auto.
      + unfold commit_rule. rewrite Hhash. split; [exact E1|]. split; [exact E2|]. split; [exact E3|].
        split; [rewrite <- Hhash; now apply certb_sound|].
        unfold commit_ruleb in Hr. destruct rs.
        * rewrite !andb_true_iff, !N.eqb_eq in Hr. tauto.
        * now apply N.eqb_eq.
      + eapply segb_sound; eauto.
    - exfalso. eapply NotMulti; reflexivity.
  Qed.


  Lemma try_commit_sound s r h1 obs s' rest :
    try_commit rs replicas byz genesis s r h1 obs = Some (s', rest) -> step s s'.
  Proof.
    unfold try_commit.
    destruct (U s h1) as [b1|] eqn:E1; [|discriminate].
    destruct (U s (b_qc b1)) as [b2|] eqn:E2; [|discriminate].
    destruct (U s (b_qc b2)) as [b3|] eqn:E3; [|discriminate].
    match goal with |- (if ?c then _ else _) = _ -> _ => destruct c eqn:G; [|discriminate] end.
    rewrite !andb_true_iff in G. destruct G as (((Hh & Hhash) & Hc) & Hr).
    apply N.eqb_eq in Hhash.
    match goal with |- match ?c with _ => _ end = _ -> _ => destruct c as [[|x l']|] eqn:Es; try discriminate end.
    match goal with |- match ?c with _ => _ end = _ -> _ => destruct c as [rest'|]; [|discriminate] end.
    intros [= <- <-].
    eapply (step_commit rs member honest qsize genesis s r b3 b2 b1 (x :: l')); auto.
    + unfold commit_rule. rewrite Hhash. split; [exact E1|]. split; [exact E2|]. split; [exact E3|].
      split; [rewrite <- Hhash; now apply certb_sound|].
      unfold commit_ruleb in Hr. destruct rs.
      * rewrite !andb_true_iff, !N.eqb_eq in Hr. tauto.
      * now apply N.eqb_eq.
    + eapply segb_sound; eauto.
  Qed.

  Lemma commits_fold_reach cands : forall s r obs s',
    reach s -> commits_fold rs replicas byz genesis s r cands obs = Some s' -> reach s'.
  Proof.
    induction cands as [|h1 rest IH]; simpl; intros s r obs s' R H.
    - destruct obs; [now injection H as <-|discriminate].
    - destruct (try_commit rs replicas byz genesis s r h1 obs) as [[s1 obs1]|] eqn:E.
      + eapply IH; [|eauto]. econstructor; eauto. eapply try_commit_sound; eauto.
      + eapply IH; eauto.
  Qed.

  Lemma gstep_reach s e s' : reach s -> gstep rs replicas byz genesis s e = Some s' -> reach s'.
  Proof.
    intros R H. destruct e as [b|i h|r v|r h ol|r h1 obs|r cands obs].
    6:{ cbn [gstep] in H. eapply commits_fold_reach; eauto. }
    all: econstructor; [exact R|]; eapply gstep_sound_single; eauto; intros; discriminate.
  Qed.

  Lemma run_reach es : forall s i s', reach s -> run rs replicas byz genesis s es i = (s', None) -> reach s'.
  Proof.
    induction es as [|e es IH]; simpl; intros s i s' R H.
    - now injection H as <-.
    - destruct (gstep rs replicas byz genesis s e) as [s1|] eqn:E; [|discriminate].
      eapply IH; [|eauto]. eapply gstep_reach; eauto.
  Qed.

  (* In every reachable state of the abstract system (any schedule of block creation, Byzantine
     votes, honest votes, timeouts and commits) honest ledgers are chains and prefix related. *)
  Theorem reach_safe s :
    reach s ->
    forall r1 r2, honest r1 = true -> honest r2 = true ->
      (prefix (log (loc s r1)) (log (loc s r2)) \/ prefix (log (loc s r2)) (log (loc s r1))) /\
      linked genesis (log (loc s r1)) /\ NoDup (log (loc s r1)).
  Proof.
    intros R r1 r2 H1 H2.
    destruct cfg_parts as (_ & _ & _ & Gv & Gp & Gq).
    split.
    - eapply (ledgers_prefix rs member honest qsize quorum_inter_inst quorum_has_honest_inst genesis Gv Gp Gq); eauto.
    - destruct (ledger_chain rs member honest qsize quorum_inter_inst quorum_has_honest_inst genesis Gv Gp Gq s r1 R H1)
        as (L & N & _). auto.
  Qed.

  (* Every history accepted by the validator ends in a state where all honest ledgers are
     hash-linked chains from genesis and pairwise prefix related. *)
  Theorem run_safe es s :
    run rs replicas byz genesis (Chained.init genesis) es 0 = (s, None) ->
    forall r1 r2, honest r1 = true -> honest r2 = true ->
      (prefix (log (loc s r1)) (log (loc s r2)) \/ prefix (log (loc s r2)) (log (loc s r1))) /\
      linked genesis (log (loc s r1)) /\ NoDup (log (loc s r1)).
  Proof.
    intros H r1 r2 H1 H2.
    destruct cfg_parts as (_ & _ & _ & Gv & Gp & Gq).
    assert (R : reach s) by (eapply run_reach; [constructor|eauto]).
    split.
    - eapply (ledgers_prefix rs member honest qsize quorum_inter_inst quorum_has_honest_inst genesis Gv Gp Gq); eauto.
    - destruct (ledger_chain rs member honest qsize quorum_inter_inst quorum_has_honest_inst genesis Gv Gp Gq s r1 R H1)
        as (L & N & _). auto.
  Qed.
End Sound.

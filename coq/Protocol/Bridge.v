(* Bridge between the certificate model of C02 and the abstract protocol of C01: a quorum
   certificate accepted by the (repaired) VerifyQuorumCert is "certified" in the sense of the
   abstract transition system, provided signatures are unforgeable (every genuine vote signature
   of a member inside the certificate is a vote that exists in the abstract state) and the local
   block store is content addressed.  This is why the abstract honest vote may use [certified]
   where the code checks [VerifyAnyQC]. *)
From Coq Require Import List NArith ZArith Lia Bool.
From HS Require Import Base.Prelude Quorum.QuorumModel Quorum.QuorumSets.
From HS Require Import Crypto.Symbolic Cert.CertModel Cert.CertProofs.
From HS Require Protocol.Core Protocol.Chained Protocol.ChainedExec.
Import ListNotations.

Theorem verified_qc_is_certified :
  forall (c : cfg) (st : store) (q : qc) (genesis : Protocol.Core.block) (s : Protocol.Chained.state),
    verify_qc c st q = Ok tt ->
    (* the store is content addressed *)
    (forall h b, st h = Some b -> bi_hash b = h) ->
    (* unforgeability: genuine vote signatures of members exist as votes of the abstract state *)
    (forall sg i h, qc_sig q = Some sg -> genuine sg i (MBlock h) -> In i (c_replicas c) ->
                    Protocol.Chained.voted s i h) ->
    c_genesis c = Protocol.Core.b_hash genesis ->
    Protocol.Chained.certified (Protocol.ChainedExec.member (c_replicas c))
                               (Protocol.ChainedExec.qsize (c_replicas c)) genesis s (qc_hash q).
Proof.
  intros c st q genesis s Hv Hca Hunf Hgen.
  destruct (qc_sound c st q Hv) as [[Hh _]|(sg & b & Hs & Hb & _ & S & ND & L & Inc & G)].
  - left. congruence.
  - right. exists S. split; [exact ND|]. split.
    + unfold Protocol.ChainedExec.qsize, Protocol.ChainedExec.nrep. exact L.
    + split.
      * intros i Hi. unfold Protocol.ChainedExec.member. apply memb_In. now apply Inc.
      * intros i Hi. apply (Hunf sg i (qc_hash q) Hs); [|now apply Inc].
        rewrite <- (Hca _ _ Hb). now apply G.
Qed.

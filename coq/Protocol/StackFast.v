(* The replica stack for Fast-HotStuff: C03's model of Voter.Verify on top of C04's [fast_vote]
   refines the abstract vote step of Protocol/Fast.v (see Protocol/Stack.v for chained/simple). *)
From Coq Require Import List NArith Lia Bool Arith.
From HS Require Import Protocol.Core Protocol.Fast.
From HS Require Protocol.Refine Protocol.RefineFast Protocol.Stack.
Import ListNotations.
Open Scope N_scope.

Module V := HS.Voter.VoterModel.
Module R := HS.Rules.RulesModel.
Notation absb := Refine.absb.
Notation view_of := Refine.view_of.

Section StackFast.
  Variable member : rid -> bool.
  Variable honest : rid -> bool.
  Variable qsize : nat.
  Variable leader : view -> rid.
  Let genesis : block := absb R.genesis.

  Theorem fast_stack_vote_refines s r f cur st p pr :
    let blk := R.p_block pr in
    honest r = true ->
    view_of f (U s) ->
    U s (R.b_hash blk) = Some (absb blk) ->
    f_lastVoted (loc genesis s r) = V.last_voted st ->
    Stack.describes (fun f _ v pr => R.fast_vote f v pr) p pr f R.genesis cur ->
    (* VerifyQuorumCert: certified, and the certificate's view is the certified block's view *)
    (V.p_qc_ok p = true ->
     certified member qsize genesis s (R.qc_hash (R.b_qc blk)) /\
     forall qb, R.get f (R.qc_hash (R.b_qc blk)) = Some qb -> R.qc_view (R.b_qc blk) = R.b_view qb) ->
    (* VerifyAggregateQC, when the proposal carries an aggregate certificate *)
    (V.p_agg_ok p = true -> forall a qb, R.p_agg pr = Some a ->
       R.get f (R.qc_hash (R.b_qc blk)) = Some qb ->
       agg_ok member qsize genesis s (R.agg_view a) (absb qb) /\ R.agg_view a < R.two64 - 1) ->
    (forall x, In x f -> R.b_view x < R.two64 - 1) ->
    V.verify leader st p = true ->
    step member honest qsize genesis s (fcast_vote genesis s r (absb blk)).
  Proof.
    intros blk Hh Vw Ub Hlv D Hc Ha Sm Hv.
    destruct (Stack.verify_facts leader st p Hv) as (Lv & Rl & Qok & Par & bv & Ebv & Hbv).
    assert (Aok : V.p_agg_ok p = true).
    { unfold V.verify in Hv.
      destruct (V.p_view p <=? V.last_voted st); [discriminate|].
      destruct (V.p_rule p); [|discriminate]. simpl in Hv.
      destruct (V.p_agg_ok p); [reflexivity|discriminate]. }
    destruct D as [Dv Dp Dq Db Dr]. subst blk.
    rewrite Db in Ebv.
    destruct (R.get f (R.qc_hash (R.b_qc (R.p_block pr)))) as [qb|] eqn:Gq; [|discriminate].
    simpl in Ebv. injection Ebv as <-.
    destruct (Hc Qok) as [Cq Hqv].
    assert (A1 : R.b_parent (R.p_block pr) = R.qc_hash (R.b_qc (R.p_block pr)))
      by (rewrite <- Dp, <- Dq; exact Par).
    assert (A2 : R.b_view qb < R.b_view (R.p_block pr)) by (rewrite <- Dv; exact Hbv).
    assert (A3 : f_lastVoted (loc genesis s r) < R.b_view (R.p_block pr))
      by (rewrite Hlv, <- Dv; exact Lv).
    assert (A4 : R.fast_vote f cur pr = true) by (rewrite <- Dr; exact Rl).
    assert (A5 : R.b_view qb < R.two64 - 1).
    { apply Sm. destruct (HS.Rules.RulesProofs.get_some _ _ _ Gq) as [I _]. exact I. }
    exact (RefineFast.fast_replica_vote_refines member honest qsize s r f cur pr qb
             Hh Vw Ub Gq Cq (Hqv qb eq_refl) A1 A2 A3
             (fun a Ea => Ha Aok a qb Ea eq_refl) A5 A4).
  Qed.
End StackFast.

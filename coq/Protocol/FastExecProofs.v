(* Soundness of the Fast-HotStuff trace validator: accepted events are abstract transitions. *)
From Coq Require Import List NArith ZArith Lia Bool Arith.
From HS Require Import Quorum.QuorumModel Quorum.QuorumProofs Quorum.QuorumSets.
From HS Require Import Protocol.Core Protocol.Fast Protocol.ChainedExec Protocol.ChainedExecProofs Protocol.FastExec.
Import ListNotations.
Open Scope N_scope.

Lemma fvotedP_In l j k : fvotedP l j k <-> In (j, k) l.
Proof.
  induction l as [|[r h] t IH]; simpl; [tauto|]. rewrite IH. split.
  - intros [H|[-> ->]]; auto.
  - intros [[= -> ->]|H]; auto.
Qed.

Lemma tsigP_In l j w k : tsigP l j w k <-> In (j, w, k) l.
Proof.
  induction l as [|[[r v] h] t IH]; simpl; [tauto|]. rewrite IH. split.
  - intros [H|(-> & -> & ->)]; auto.
  - intros [[= -> -> ->]|H]; auto.
Qed.

Section Sound.
  Variable replicas byz : list rid.
  Variable genesis : block.
  Hypothesis Hcfg : config_ok replicas byz genesis = true.

  Notation member := (ChainedExec.member replicas).
  Notation honest := (ChainedExec.honest byz).
  Notation qsize := (ChainedExec.qsize replicas).
  Notation U := Fast.U.
  Notation loc := (Fast.loc genesis).
  Notation step := (Fast.step member honest qsize genesis).
  Notation reach := (Fast.reach member honest qsize genesis).
  Notation certified := (Fast.certified member qsize genesis).

  Lemma fcertb_sound s h : fcertb replicas genesis s h = true -> certified s h.
  Proof.
    unfold fcertb. rewrite orb_true_iff. intros [H|H].
    - left. now apply N.eqb_eq.
    - right. exists (fvoters replicas s h). unfold fvoters in *. repeat split.
      + apply dedup_NoDup.
      + now apply Nat.leb_le.
      + intros i Hi. apply dedup_In, filter_In in Hi. tauto.
      + intros i Hi. apply dedup_In, filter_In in Hi. destruct Hi as [Hi _].
        apply in_map_iff in Hi. destruct Hi as ([j k] & Hj & Hin). simpl in Hj. subst j.
        apply filter_In in Hin. destruct Hin as [Hin Hk]. simpl in Hk. apply N.eqb_eq in Hk. subst k.
        unfold Fast.voted. now apply fvotedP_In.
  Qed.

  (* the boolean test is exact for certified-ness only in one direction; the aggregate rule needs
     "not certb -> not required", so we phrase agg_ok with the decidable test as its guard *)
  Lemma fcertb_complete s h : certified s h -> fcertb replicas genesis s h = true.
  Proof.
    intros [->|(S & ND & L & M & V)]; unfold fcertb; [now rewrite N.eqb_refl|].
    apply orb_true_iff. right. apply Nat.leb_le.
    eapply Nat.le_trans; [exact L|]. apply NoDup_incl_length; auto.
    intros i Hi. unfold fvoters. apply dedup_In, filter_In. split; [|now apply M].
    apply in_map_iff. exists (i, h). split; auto. apply filter_In. split; [|simpl; apply N.eqb_refl].
    apply fvotedP_In. now apply V.
  Qed.

  Lemma tsigb_sound s i v h : tsigb s i v h = true -> Fast.tsig s i v h.
  Proof.
    unfold tsigb. rewrite existsb_exists. intros ([[j w] k] & Hin & H).
    rewrite !andb_true_iff, !N.eqb_eq in H. destruct H as [[-> ->] ->].
    unfold Fast.tsig. now apply tsigP_In.
  Qed.

  Lemma agg_okb_sound s av c1 rep :
    agg_okb replicas genesis s av c1 rep = true -> Fast.agg_ok member qsize genesis s av c1.
  Proof.
    unfold agg_okb. rewrite !andb_true_iff. intros ((((ND & L) & M) & T) & Hh).
    exists (map fst rep), (assoc_hash rep). repeat split.
    - now apply nodupb_NoDup.
    - now apply Nat.leb_le.
    - intros i Hi. rewrite forallb_forall in M. now apply M.
    - intros i Hi. rewrite forallb_forall in T. apply tsigb_sound. now apply T.
    - intros i x Hi Ex Cx. rewrite forallb_forall in Hh. specialize (Hh i Hi).
      rewrite Ex, (fcertb_complete _ _ Cx) in Hh. now apply N.leb_le.
  Qed.

  Lemma report_okb_sound s r v x :
    U s (b_hash x) = Some x -> fcertb replicas genesis s (b_hash x) = true ->
    report_okb s r v x = true -> Fast.report_ok member qsize genesis s r v x.
  Proof.
    intros Ex Cx H. split; [exact Ex|]. split; [now apply fcertb_sound|].
    intros hb b c1 Vb Eb Le E1. unfold report_okb in H. rewrite forallb_forall in H.
    apply fvotedP_In in Vb. specialize (H _ Vb). simpl in H.
    rewrite N.eqb_refl, Eb in H. apply N.leb_le in Le. rewrite Le, E1 in H. now apply N.leb_le.
  Qed.

  Lemma fstep_sound_single s e s' :
    (forall r c o, e <> FCommits r c o) ->
    fstep replicas byz genesis s e = Some s' -> step s s'.
  Proof.
    intros NotMulti. destruct e as [b|i h|i v h|r v|r v h|r h agg|r hp obs|r cands obs]; cbn [fstep].
    - destruct (U s (b_hash b)) eqn:E; [discriminate|].
      destruct (negb (b_hash b =? b_parent genesis)) eqn:G; [|discriminate].
      intros [= <-]. apply negb_true_iff, N.eqb_neq in G. now constructor.
    - destruct (honest i) eqn:H; [discriminate|]. intros [= <-]. now constructor.
    - destruct (honest i) eqn:H; [discriminate|]. intros [= <-]. now constructor.
    - destruct (honest r) eqn:H; [|discriminate]. intros [= <-]. now constructor.
    - destruct (U s h) as [x|] eqn:Ex; [|discriminate].
      match goal with |- (if ?c then _ else _) = _ -> _ => destruct c eqn:G; [|discriminate] end.
      rewrite !andb_true_iff in G. destruct G as (((Hh & Hx) & Hc) & Hr). apply N.eqb_eq in Hx.
      intros [= <-]. constructor; auto. apply report_okb_sound; auto; rewrite Hx; auto.
    - destruct (U s h) as [b|] eqn:Eb; [|discriminate].
      destruct (U s (b_qc b)) as [c1|] eqn:Ec1; [|discriminate].
      match goal with |- (if ?c then _ else _) = _ -> _ => destruct c eqn:G; [|discriminate] end.
      rewrite !andb_true_iff in G.
      destruct G as ((((((Hh & Hhash) & Hlv) & Hc) & Hp) & Hv) & Hk).
      apply N.eqb_eq in Hhash, Hp. apply N.ltb_lt in Hlv, Hv.
      intros [= <-].
      eapply (step_vote member honest qsize genesis s r b c1); auto.
      + rewrite Hhash. exact Eb.
      + now apply fcertb_sound.
      + destruct agg as [[av rep]|].
        * right. apply andb_true_iff in Hk. destruct Hk as [Hle Ha]. exists av. split.
          -- now apply N.leb_le.
          -- eapply agg_okb_sound; eauto.
        * left. now apply N.eqb_eq.
    - destruct (U s hp) as [p|] eqn:Ep; [|discriminate].
      destruct (U s (b_qc p)) as [g|] eqn:Eg; [|discriminate].
      match goal with |- (if ?c then _ else _) = _ -> _ => destruct c eqn:G; [|discriminate] end.
      rewrite !andb_true_iff in G. destruct G as (((((Hh & Hhash) & Hg) & Hc) & Hpar) & Hv).
      apply N.eqb_eq in Hhash, Hg, Hpar, Hv.
      match goal with |- match ?c with _ => _ end = _ -> _ => destruct c as [l|] eqn:Es; [|discriminate] end.
      match goal with |- (if ?c then _ else _) = _ -> _ => destruct c; [|discriminate] end.
      intros [= <-].
      eapply (step_commit member honest qsize genesis s r g p l); auto.
      + unfold two_chain. rewrite Hhash. repeat split; auto.
        * rewrite Hg. exact Eg.
        * rewrite <- Hhash. now apply fcertb_sound.
      + eapply segb_sound; eauto.
    - exfalso. eapply NotMulti; reflexivity.
  Qed.


  Lemma try_fcommit_sound s r hp obs s' rest :
    try_fcommit replicas byz genesis s r hp obs = Some (s', rest) -> step s s'.
  Proof.
    unfold try_fcommit.
    destruct (U s hp) as [p|] eqn:Ep; [|discriminate].
    destruct (U s (b_qc p)) as [g|] eqn:Eg; [|discriminate].
    match goal with |- (if ?c then _ else _) = _ -> _ => destruct c eqn:G; [|discriminate] end.
    rewrite !andb_true_iff in G. destruct G as (((((Hh & Hhash) & Hg) & Hc) & Hpar) & Hv).
    apply N.eqb_eq in Hhash, Hg, Hpar, Hv.
    match goal with |- match ?c with _ => _ end = _ -> _ => destruct c as [[|x l']|] eqn:Es; try discriminate end.
    match goal with |- match ?c with _ => _ end = _ -> _ => destruct c as [rest'|]; [|discriminate] end.
    intros [= <- <-].
    eapply (step_commit member honest qsize genesis s r g p (x :: l')); auto.
    + unfold two_chain. rewrite Hhash. repeat split; auto.
      * rewrite Hg. exact Eg.
      * rewrite <- Hhash. now apply fcertb_sound.
    + eapply segb_sound; eauto.
  Qed.

  Lemma fcommits_fold_reach cands : forall s r obs s',
    reach s -> fcommits_fold replicas byz genesis s r cands obs = Some s' -> reach s'.
  Proof.
    induction cands as [|h1 rest IH]; simpl; intros s r obs s' R H.
    - destruct obs; [now injection H as <-|discriminate].
    - destruct (try_fcommit replicas byz genesis s r h1 obs) as [[s1 obs1]|] eqn:E.
      + eapply IH; [|eauto]. econstructor; eauto. eapply try_fcommit_sound; eauto.
      + eapply IH; eauto.
  Qed.

  Lemma fstep_reach s e s' : reach s -> fstep replicas byz genesis s e = Some s' -> reach s'.
  Proof.
    intros R H. destruct e as [b|i h|i v h|r v|r v h|r h agg|r hp obs|r cands obs].
    8:{ cbn [fstep] in H. eapply fcommits_fold_reach; eauto. }
    all: econstructor; [exact R|]; eapply fstep_sound_single; eauto; intros; discriminate.
  Qed.

  Lemma frun_reach es : forall s i s', reach s -> frun replicas byz genesis s es i = (s', None) -> reach s'.
  Proof.
    induction es as [|e es IH]; simpl; intros s i s' R H.
    - now injection H as <-.
    - destruct (fstep replicas byz genesis s e) as [s1|] eqn:E; [|discriminate].
      eapply IH; [|eauto]. eapply fstep_reach; eauto.
  Qed.

  Theorem freach_safe s :
    reach s ->
    forall r1 r2, honest r1 = true -> honest r2 = true ->
      (prefix (f_log (loc s r1)) (f_log (loc s r2)) \/ prefix (f_log (loc s r2)) (f_log (loc s r1))) /\
      linked genesis (f_log (loc s r1)) /\ NoDup (f_log (loc s r1)).
  Proof.
    intros R r1 r2 H1 H2.
    destruct (cfg_parts replicas byz genesis Hcfg) as (_ & _ & _ & Gv & Gp & _).
    pose proof (quorum_inter_inst replicas byz genesis Hcfg) as QI.
    pose proof (quorum_has_honest_inst replicas byz genesis Hcfg) as QH.
    split.
    - eapply (Fast.ledgers_prefix member honest qsize QI QH genesis Gv Gp); eauto.
    - destruct (Fast.ledger_chain member honest qsize QI QH genesis Gv Gp s r1 R H1) as (L & N & _). auto.
  Qed.

  Theorem frun_safe es s :
    frun replicas byz genesis (Fast.init genesis) es 0 = (s, None) ->
    forall r1 r2, honest r1 = true -> honest r2 = true ->
      (prefix (f_log (loc s r1)) (f_log (loc s r2)) \/ prefix (f_log (loc s r2)) (f_log (loc s r1))) /\
      linked genesis (f_log (loc s r1)) /\ NoDup (f_log (loc s r1)).
  Proof.
    intros H r1 r2 H1 H2.
    destruct (cfg_parts replicas byz genesis Hcfg) as (_ & _ & _ & Gv & Gp & _).
    assert (R : reach s) by (eapply frun_reach; [constructor|eauto]).
    pose proof (quorum_inter_inst replicas byz genesis Hcfg) as QI.
    pose proof (quorum_has_honest_inst replicas byz genesis Hcfg) as QH.
    split.
    - eapply (Fast.ledgers_prefix member honest qsize QI QH genesis Gv Gp); eauto.
    - destruct (Fast.ledger_chain member honest qsize QI QH genesis Gv Gp s r1 R H1) as (L & N & _). auto.
  Qed.
End Sound.

(* C05, protocol level, Fast-HotStuff: progress can resume from ANY reachable state.
   For every quorum Q of honest members there is a continuation in which only Q acts: every
   member signs a timeout for a common view av reporting the highest certified block c0 known in
   Q, the next leader proposes B1 (view av+1) on c0 justified by the aggregate certificate, all
   of Q vote, B2 (view av+2) extends B1 optimistically, all of Q vote, and every member of Q
   commits B1 -- two views after the view change (the commit-chain length of Fast-HotStuff).
   The implementation's pacemaker does not follow this path (known finding of C05): the theorem
   locates the defect in the implementation, not in the protocol rules. *)
From Coq Require Import List NArith Lia Bool Arith.
From HS Require Import Protocol.Core Protocol.Fast.
Import ListNotations.
Open Scope N_scope.

Section ResumeFast.
  Variable member : rid -> bool.
  Variable honest : rid -> bool.
  Variable qsize : nat.
  Hypothesis quorum_inter : forall A B : list rid,
      NoDup A -> NoDup B -> (qsize <= length A)%nat -> (qsize <= length B)%nat ->
      (forall i, In i A -> member i = true) -> (forall i, In i B -> member i = true) ->
      exists i, In i A /\ In i B /\ honest i = true.
  Hypothesis quorum_has_honest : forall A : list rid,
      NoDup A -> (qsize <= length A)%nat -> (forall i, In i A -> member i = true) ->
      exists i, In i A /\ honest i = true.
  Variable genesis : block.
  Hypothesis genesis_view : b_view genesis = 0.
  Hypothesis genesis_parent_ne : b_parent genesis <> b_hash genesis.

  Local Notation step := (Fast.step member honest qsize genesis).
  Local Notation reach := (Fast.reach member honest qsize genesis).
  Local Notation certified := (Fast.certified member qsize genesis).
  Local Notation loc := (Fast.loc genesis).
  Local Notation two_chain := (Fast.two_chain member qsize genesis).
  Local Notation inv := (Fast.inv member honest qsize genesis).
  Local Notation good := (Fast.good member qsize genesis).
  Local Notation agg_ok := (Fast.agg_ok member qsize genesis).

  Let RI s (R : reach s) : inv s :=
    reach_inv member honest qsize genesis genesis_view genesis_parent_ne s R.

  Inductive steps : fstate -> fstate -> Prop :=
  | steps_refl s : steps s s
  | steps_step s1 s2 s3 : steps s1 s2 -> step s2 s3 -> steps s1 s3.

  Lemma steps_reach s s' : reach s -> steps s s' -> reach s'.
  Proof.
    intros R St. induction St as [|s1 s2 s3 St IH Sp]; [exact R|].
    eapply reach_step; [apply IH; exact R|exact Sp].
  Qed.
  Lemma steps_trans s1 s2 s3 : steps s1 s2 -> steps s2 s3 -> steps s1 s3.
  Proof. intros A B. induction B as [|a b c B IH Sp]; auto. eapply steps_step; [apply IH; exact A|exact Sp]. Qed.
  Lemma steps_one s s' : step s s' -> steps s s'.
  Proof. intros. eapply steps_step; [apply steps_refl|assumption]. Qed.
  Lemma steps_U_mono s s' h b : steps s s' -> U s h = Some b -> U s' h = Some b.
  Proof. intros St. induction St as [|a b' c St IH Sp]; auto. intros E. eapply step_U_mono; [exact Sp|auto]. Qed.
  Lemma steps_certified_mono s s' h : steps s s' -> certified s h -> certified s' h.
  Proof. intros St. induction St as [|a b' c St IH Sp]; auto. intros E. eapply step_certified_mono; [exact Sp|auto]. Qed.
  Lemma steps_tsig_mono s s' i v h : steps s s' -> tsig s i v h -> tsig s' i v h.
  Proof. intros St. induction St as [|a b' c St IH Sp]; auto. intros E. eapply step_tsig_mono; [exact Sp|auto]. Qed.
  Lemma steps_voted_mono s s' i h : steps s s' -> voted s i h -> voted s' i h.
  Proof. intros St. induction St as [|a b' c St IH Sp]; auto. intros E. eapply step_voted_mono; [exact Sp|auto]. Qed.

  (* ---------- the highest certified block the members of Q have built on ---------- *)
  Lemma highest_reported (Q : list rid) s :
    reach s -> (forall r, In r Q -> honest r = true) ->
    exists c0, good s c0 /\
      forall r hb b c1, In r Q -> voted s r hb -> U s hb = Some b -> U s (b_qc b) = Some c1 ->
                        b_view c1 <= b_view c0.
  Proof.
    intros R Hh. pose proof (RI s R) as I.
    assert (G : forall l : list (rid * hash),
               (forall r h, In (r, h) l -> voted s r h) ->
               exists c0, good s c0 /\
                 forall r hb b c1, In r Q -> In (r, hb) l -> U s hb = Some b -> U s (b_qc b) = Some c1 ->
                                   b_view c1 <= b_view c0).
    { induction l as [|[r h] l IH]; intros Hl.
      - exists genesis. split; [apply (good_genesis member honest qsize genesis s I)|]. intros ? ? ? ? _ [].
      - destruct IH as (c0 & G0 & M0); [intros; apply Hl; now right|].
        destruct (in_dec N.eq_dec r Q) as [Hr|Hr].
        + destruct (i_votes _ _ _ _ _ I r h (Hh r Hr) (Hl r h (or_introl eq_refl))) as (b & Hb & F).
          destruct (vf_c1 _ _ _ _ _ _ _ F) as (c1 & E1 & _ & _).
          pose proof (vf_cert _ _ _ _ _ _ _ F) as Cc.
          pose proof (vf_in _ _ _ _ _ _ _ F) as Eb. rewrite Hb in Eb.
          assert (G1 : good s c1).
          { split; [|]; rewrite (reach_uwf _ _ _ _ _ R _ _ E1); auto. }
          destruct (N.leb_spec (b_view c1) (b_view c0)) as [Le|Gt].
          * exists c0. split; auto. intros r' hb b' c1' Hr' [[= <- <-]|Hin] Ub Uc.
            -- assert (b' = b) by congruence. subst b'. assert (c1' = c1) by congruence. subst. exact Le.
            -- eapply M0; eauto.
          * exists c1. split; auto. intros r' hb b' c1' Hr' [[= <- <-]|Hin] Ub Uc.
            -- assert (b' = b) by congruence. subst b'. assert (c1' = c1) by congruence. subst. lia.
            -- specialize (M0 r' hb b' c1' Hr' Hin Ub Uc). lia.
        + exists c0. split; auto. intros r' hb b' c1' Hr' [[= <- <-]|Hin] Ub Uc; [contradiction|].
          eapply M0; eauto. }
    assert (VP : forall l r h, fvotedP l r h -> In (r, h) l).
    { induction l as [|[r' h'] l IH]; simpl; [tauto|]. intros r h [X|[-> ->]]; auto. }
    assert (PV : forall l r h, In (r, h) l -> fvotedP l r h).
    { induction l as [|[r' h'] l IH]; simpl; [tauto|]. intros r h [[= -> ->]|X]; auto. }
    destruct (G (f_votes s)) as (c0 & G0 & M0); [intros; now apply PV|].
    exists c0. split; auto. intros r hb b c1 Hr Hv Ub Uc. apply (M0 r hb b c1 Hr); auto.
  Qed.

  (* ---------- every member of Q signs a timeout for view av reporting c0 ---------- *)
  Lemma timeout_round (Q : list rid) (av : view) (c0 : block) : forall s,
    reach s -> NoDup Q -> (forall r, In r Q -> honest r = true) ->
    good s c0 ->
    (forall r hb b c1, In r Q -> voted s r hb -> U s hb = Some b -> U s (b_qc b) = Some c1 ->
                       b_view c1 <= b_view c0) ->
    exists s', steps s s' /\ U s' = U s /\
               (forall r, In r Q -> tsig s' r av (b_hash c0)) /\
               (forall r, In r Q -> f_lastVoted (loc s' r) = N.max (f_lastVoted (loc s r)) av /\
                                    f_head (loc s' r) = f_head (loc s r) /\
                                    f_log (loc s' r) = f_log (loc s r)) /\
               (forall r, ~ In r Q -> loc s' r = loc s r) /\
               (forall i h, voted s' i h <-> voted s i h).
  Proof.
    induction Q as [|r Q IH]; intros s R ND Hh G0 M0.
    - exists s. split; [apply steps_refl|]. split; [reflexivity|].
      split; [intros ? []|]. split; [intros ? []|]. split; [reflexivity|tauto].
    - inversion ND as [|? ? Hnin ND']; subst.
      assert (St : step s (ftimeout genesis s r av (b_hash c0))).
      { apply step_timeout; [apply Hh; now left|].
        destruct G0 as [Cc Uc]. split; [exact Uc|]. split; [exact Cc|].
        intros hb b c1 Hv Ub _ Uc1. eapply M0; eauto. now left. }
      set (s1 := ftimeout genesis s r av (b_hash c0)) in *.
      assert (R1 : reach s1) by (eapply reach_step; eauto).
      assert (Lo : forall x, x <> r -> loc s1 x = loc s x).
      { intros x Hx. unfold s1. rewrite loc_timeout. now apply upd_other. }
      assert (G1 : good s1 c0).
      { destruct G0 as [Cc Uc]. split; [eapply step_certified_mono; eauto|exact Uc]. }
      destruct (IH s1 R1 ND') as (s' & St' & U' & T' & L' & O' & V'); auto.
      + intros x Hx. apply Hh. now right.
      + intros x hb b c1 Hx Hv Ub Uc1. eapply M0; eauto. now right.
      + exists s'. split; [eapply steps_trans; [apply steps_one; exact St|exact St']|].
        split; [exact U'|]. split; [|split; [|split]].
        * intros x [<-|Hx]; [|now apply T'].
          eapply steps_tsig_mono; eauto. unfold s1, tsig, ftimeout. simpl. now right.
        * intros x [<-|Hx].
          -- rewrite (O' r Hnin). unfold s1. rewrite loc_timeout, upd_same. simpl. auto.
          -- destruct (L' x Hx) as (A & B & C). rewrite Lo in A, B, C by (intros ->; contradiction). auto.
        * intros x Hx. rewrite O' by (intros Hc; apply Hx; now right).
          apply Lo. intros ->. apply Hx. now left.
        * intros i h. rewrite V'. reflexivity.
  Qed.

  (* ---------- one view: every member of Q votes for b ---------- *)
  Lemma vote_round (Q : list rid) (b c1 : block)
        (J : fstate -> Prop) (Jmono : forall s s', step s s' -> J s -> J s')
        (Jok : forall s, J s -> b_view b = b_view c1 + 1 \/ exists av, b_view b <= av + 1 /\ agg_ok s av c1) :
    forall s,
    reach s -> NoDup Q -> (forall r, In r Q -> honest r = true) -> J s ->
    U s (b_hash b) = Some b -> U s (b_qc b) = Some c1 -> certified s (b_qc b) ->
    b_parent b = b_qc b -> b_view c1 < b_view b ->
    (forall r, In r Q -> f_lastVoted (loc s r) < b_view b) ->
    exists s', steps s s' /\ U s' = U s /\
               (forall r, In r Q -> voted s' r (b_hash b)) /\
               (forall r, In r Q -> f_lastVoted (loc s' r) = b_view b /\
                                    f_head (loc s' r) = f_head (loc s r) /\
                                    f_log (loc s' r) = f_log (loc s r)) /\
               (forall r, ~ In r Q -> loc s' r = loc s r).
  Proof.
    induction Q as [|r Q IH]; intros s R ND Hh Js Eb Ec Cq Par Vc Pre.
    - exists s. split; [apply steps_refl|]. split; [reflexivity|].
      split; [intros ? []|]. split; [intros ? []|]. reflexivity.
    - inversion ND as [|? ? Hnin ND']; subst.
      assert (St : step s (fcast_vote genesis s r b)).
      { apply step_vote with (c1 := c1); auto. apply Hh; now left. apply Pre; now left. }
      set (s1 := fcast_vote genesis s r b) in *.
      assert (R1 : reach s1) by (eapply reach_step; eauto).
      assert (Lo : forall x, x <> r -> loc s1 x = loc s x).
      { intros x Hx. unfold s1. rewrite loc_cast. now apply upd_other. }
      assert (C1 : certified s1 (b_qc b)) by (eapply step_certified_mono; eauto).
      destruct (IH s1 R1 ND') as (s' & St' & U' & V' & L' & O'); auto.
      + intros x Hx. apply Hh. now right.
      + eapply Jmono; eauto.
      + intros x Hx. rewrite Lo; [apply Pre; now right|]. intros ->. contradiction.
      + exists s'. split; [eapply steps_trans; [apply steps_one; exact St|exact St']|].
        split; [exact U'|]. split; [|split].
        * intros x [<-|Hx]; [|now apply V'].
          eapply steps_voted_mono; eauto. unfold s1, voted, fcast_vote. simpl. now right.
        * intros x [<-|Hx].
          -- rewrite (O' r Hnin). unfold s1. rewrite loc_cast, upd_same. simpl. auto.
          -- destruct (L' x Hx) as (A & B & C). rewrite Lo in B, C by (intros ->; contradiction). auto.
        * intros x Hx. rewrite O' by (intros Hc; apply Hx; now right).
          apply Lo. intros ->. apply Hx. now left.
  Qed.

  (* ---------- a two-chain makes the commit of its tail enabled ---------- *)
  Lemma commit_enabled s r g p :
    reach s -> honest r = true -> two_chain s g p ->
    b_view (f_head (loc s r)) < b_view g ->
    exists l', step s (fset_loc s r {| f_lastVoted := f_lastVoted (loc s r);
                                       f_head := if b_view (f_head (loc s r)) <? b_view g then g
                                                 else f_head (loc s r);
                                       f_log := f_log (loc s r) ++ l' ++ [g] |}).
  Proof.
    intros R Hr T Hlt.
    pose proof (RI s R) as I. pose proof (reach_uwf _ _ _ _ _ R) as W.
    destruct (two_chain_certs member honest qsize quorum_has_honest genesis
                              genesis_view genesis_parent_ne s I g p T) as (Cg & _).
    assert (Gg : good s g) by (split; [exact Cg|apply T]).
    destruct (Core.segment_exists (U s) (good s) genesis W genesis_view
                (good_genesis member honest qsize genesis s I) (i_nogp _ _ _ _ _ I)
                (good_in member qsize genesis s)
                (good_parent member honest qsize quorum_has_honest genesis s W I)
                (good_unique member honest qsize quorum_inter quorum_has_honest genesis
                             genesis_view genesis_parent_ne s W I)
                g Gg (b_view (f_head (loc s r)))) as (l & Sl).
    inversion Sl as [? ? Hle|? ? pp l0 Hgt Hp Hs]; subst; [lia|].
    exists l0.
    eapply (step_commit member honest qsize genesis s r g p (l0 ++ [g])); auto.
  Qed.

  Lemma commit_round (Q : list rid) : forall s g p,
    reach s -> NoDup Q -> (forall r, In r Q -> honest r = true) ->
    two_chain s g p ->
    (forall r, In r Q -> b_view (f_head (loc s r)) < b_view g) ->
    exists s', steps s s' /\ U s' = U s /\
               (forall r, In r Q -> exists l', f_log (loc s' r) = f_log (loc s r) ++ l' ++ [g]) /\
               (forall r, ~ In r Q -> loc s' r = loc s r).
  Proof.
    induction Q as [|r Q IH]; intros s g p R ND Hh T Hd.
    - exists s. split; [apply steps_refl|]. split; [reflexivity|].
      split; [intros ? []|]. reflexivity.
    - inversion ND as [|? ? Hnin ND']; subst.
      destruct (commit_enabled s r g p R (Hh r (or_introl eq_refl)) T (Hd r (or_introl eq_refl)))
        as (l' & St).
      match type of St with Fast.step _ _ _ _ _ ?x => set (s1 := x) in * end.
      assert (R1 : reach s1) by (eapply reach_step; eauto).
      assert (Lo : forall x, x <> r -> loc s1 x = loc s x).
      { intros x Hx. unfold s1. rewrite loc_set. now apply upd_other. }
      assert (T1 : two_chain s1 g p)
        by (eapply (two_chain_mono member honest qsize genesis s s1); [exact St|exact T]).
      assert (Hd1 : forall x, In x Q -> b_view (f_head (loc s1 x)) < b_view g).
      { intros x Hx. rewrite Lo; [apply Hd; now right|]. intros ->. contradiction. }
      assert (Hh1 : forall x, In x Q -> honest x = true) by (intros x Hx; apply Hh; now right).
      destruct (IH s1 g p R1 ND' Hh1 T1 Hd1) as (s' & St' & U' & L' & O').
      exists s'. split; [eapply steps_trans; [apply steps_one; exact St|exact St']|].
      split; [exact U'|]. split.
      + intros x [<-|Hx].
        * rewrite (O' r Hnin). unfold s1. rewrite loc_set, upd_same. simpl. eauto.
        * destruct (L' x Hx) as (l2 & E). rewrite Lo in E by (intros ->; contradiction). eauto.
      + intros x Hx. rewrite O' by (intros Hc; apply Hx; now right).
        apply Lo. intros ->. apply Hx. now left.
  Qed.

  Lemma upper_bound (Q : list rid) (f : rid -> N) : exists m, forall r, In r Q -> f r < m.
  Proof.
    induction Q as [|a Q (m & Hm)]; [exists 0; intros ? []|].
    exists (N.max m (f a + 1)). intros r [<-|Hr]; [lia|]. specialize (Hm r Hr). lia.
  Qed.

  Lemma fresh_above (l : list block) : exists m, forall h, m <= h -> lookup_block l h = None.
  Proof.
    induction l as [|b l (m & Hm)]; [exists 0; reflexivity|].
    exists (N.max m (b_hash b + 1)). intros h Hh. simpl.
    destruct (N.eqb_spec h (b_hash b)); [lia|]. apply Hm. lia.
  Qed.

  Lemma U_add_same s b : U (fadd_block s b) (b_hash b) = Some b.
  Proof. unfold U, fadd_block. simpl. now rewrite N.eqb_refl. Qed.
  Lemma U_add_other s b h : h <> b_hash b -> U (fadd_block s b) h = U s h.
  Proof. unfold U, fadd_block. simpl. intros. destruct (N.eqb_spec h (b_hash b)); congruence. Qed.
  Lemma loc_add s b x : loc (fadd_block s b) x = loc s x.
  Proof. reflexivity. Qed.

  (* ---------- the theorem ---------- *)
  Theorem fast_progress_resumes_from_any_state (Q : list rid) s :
    reach s ->
    NoDup Q -> (qsize <= length Q)%nat ->
    (forall r, In r Q -> member r = true /\ honest r = true) ->
    exists s' B1 B2,
      steps s s' /\
      U s (b_hash B1) = None /\ two_chain s' B1 B2 /\
      forall r, In r Q -> exists l', f_log (loc s' r) = f_log (loc s r) ++ l' ++ [B1].
  Proof.
    intros R ND LQ HQ.
    assert (Hh : forall r, In r Q -> honest r = true) by (intros r Hr; apply HQ; auto).
    assert (Hm : forall r, In r Q -> member r = true) by (intros r Hr; apply HQ; auto).
    pose proof (reach_uwf _ _ _ _ _ R) as W.
    destruct (highest_reported Q s R Hh) as (c0 & G0 & M0).
    destruct (upper_bound Q (fun r => N.max (f_lastVoted (loc s r)) (b_view (f_head (loc s r)))))
      as (v0 & Hv0).
    set (av := N.max v0 (b_view c0)).
    (* ---- the view change: timeouts for view av reporting c0 ---- *)
    destruct (timeout_round Q av c0 s R ND Hh G0 M0) as (s0 & S0 & U0 & T0 & L0 & O0 & V0).
    assert (R0 : reach s0) by (eapply steps_reach; eauto).
    assert (G0' : good s0 c0).
    { destruct G0 as [Cc Uc]. split; [eapply steps_certified_mono; eauto|now rewrite U0]. }
    (* fresh hashes *)
    destruct (fresh_above (f_blocks s)) as (m0 & Hfresh).
    set (m := N.max m0 (b_parent genesis + 1)).
    set (B1 := {| b_hash := m; b_parent := b_hash c0; b_view := av + 1; b_qc := b_hash c0 |}).
    set (B2 := {| b_hash := m + 1; b_parent := m; b_view := av + 1 + 1; b_qc := m |}).
    assert (F1 : U s m = None) by (apply Hfresh; unfold m; lia).
    assert (F2 : U s (m + 1) = None) by (apply Hfresh; unfold m; lia).
    destruct G0 as [Cc0 Uc0].
    assert (Hc0m : b_hash c0 <> m) by (intros E; rewrite E in Uc0; congruence).
    (* ---- view av+1: B1 justified by the aggregate certificate ---- *)
    set (s1 := fadd_block s0 B1).
    assert (St1 : step s0 s1).
    { apply step_addblock; simpl; [rewrite U0; exact F1|unfold m; lia]. }
    assert (R1 : reach s1) by (eapply reach_step; eauto).
    set (J := fun x : fstate => U x (b_hash c0) = Some c0 /\ forall r, In r Q -> tsig x r av (b_hash c0)).
    assert (Jmono : forall x x', step x x' -> J x -> J x').
    { intros x x' Sx [A B]. split; [eapply step_U_mono; eauto|].
      intros r Hr. eapply step_tsig_mono; eauto. }
    assert (Jok : forall x, J x -> b_view B1 = b_view c0 + 1 \/
                                   exists av', b_view B1 <= av' + 1 /\ agg_ok x av' c0).
    { intros x [A B]. right. exists av. split; [simpl; lia|].
      exists Q, (fun _ => b_hash c0). repeat split; auto.
      intros i y Hi Uy _. rewrite A in Uy. injection Uy as <-. lia. }
    assert (P1a : U s1 (b_hash B1) = Some B1) by apply U_add_same.
    assert (P1b : U s1 (b_qc B1) = Some c0).
    { change (U (fadd_block s0 B1) (b_hash c0) = Some c0). rewrite U_add_other by exact Hc0m.
      rewrite U0. exact Uc0. }
    assert (P1c : certified s1 (b_qc B1)).
    { change (certified s1 (b_hash c0)).
      eapply (step_certified_mono member honest qsize genesis s0 s1); [exact St1|apply G0'].  }
    assert (P1e : b_view c0 < b_view B1) by (change (b_view c0 < av + 1); unfold av; lia).
    assert (P1f : forall r, In r Q -> f_lastVoted (loc s1 r) < b_view B1).
    { intros r Hr. unfold s1. rewrite loc_add. destruct (L0 r Hr) as (Lv & _ & _). rewrite Lv.
      specialize (Hv0 r Hr). cbv beta in Hv0. change (b_view B1) with (av + 1). unfold av. lia. }
    assert (J1 : J s1).
    { split; [exact P1b|]. intros r Hr.
      eapply (step_tsig_mono member honest qsize genesis s0 s1); [exact St1|apply T0; exact Hr]. }
    destruct (vote_round Q B1 c0 J Jmono Jok s1 R1 ND Hh J1 P1a P1b P1c eq_refl P1e P1f)
      as (s1' & S1 & U1 & V1 & L1 & O1).
    assert (R1' : reach s1') by (eapply steps_reach; eauto).
    assert (C1 : certified s1' m).
    { right. exists Q. repeat split; auto. }
    (* ---- view av+2: B2 extends B1 optimistically ---- *)
    assert (UB1 : U s1' m = Some B1) by (rewrite U1; apply (U_add_same s0 B1)).
    assert (F2' : U s1' (m + 1) = None).
    { rewrite U1. unfold s1. rewrite U_add_other by (simpl; lia). rewrite U0. exact F2. }
    set (s2 := fadd_block s1' B2).
    assert (St2 : step s1' s2).
    { apply step_addblock; simpl; [exact F2'|unfold m; lia]. }
    assert (R2 : reach s2) by (eapply reach_step; eauto).
    set (J2 := fun _ : fstate => True).
    assert (P2a : U s2 (b_hash B2) = Some B2) by apply U_add_same.
    assert (P2b : U s2 (b_qc B2) = Some B1).
    { change (U (fadd_block s1' B2) m = Some B1). rewrite U_add_other by (simpl; lia). exact UB1. }
    assert (P2c : certified s2 (b_qc B2)).
    { change (certified s2 m).
      eapply (step_certified_mono member honest qsize genesis s1' s2); [exact St2|exact C1]. }
    assert (P2e : b_view B1 < b_view B2) by (change (av + 1 < av + 1 + 1); lia).
    assert (P2f : forall r, In r Q -> f_lastVoted (loc s2 r) < b_view B2).
    { intros r Hr. unfold s2. rewrite loc_add. destruct (L1 r Hr) as (Lv & _ & _). rewrite Lv.
      change (av + 1 < av + 1 + 1). lia. }
    destruct (vote_round Q B2 B1 J2 (fun _ _ _ _ => Logic.I)
                         (fun _ _ => or_introl (eq_refl : b_view B2 = b_view B1 + 1))
                         s2 R2 ND Hh Logic.I P2a P2b P2c eq_refl P2e P2f)
      as (s2' & S2 & U2 & V2 & L2 & O2).
    assert (R2' : reach s2') by (eapply steps_reach; eauto).
    assert (C2 : certified s2' (m + 1)).
    { right. exists Q. repeat split; auto. }
    (* ---- the two-chain and the commits ---- *)
    assert (T : two_chain s2' B1 B2).
    { unfold Fast.two_chain. simpl. repeat split; auto; try lia.
      - rewrite U2. apply (U_add_same s1' B2).
      - rewrite U2. unfold s2. rewrite U_add_other by (simpl; lia). exact UB1. }
    assert (Hd : forall r, In r Q -> b_view (f_head (loc s2' r)) < b_view B1).
    { intros r Hr. destruct (L2 r Hr) as (_ & H2 & _). destruct (L1 r Hr) as (_ & H1 & _).
      destruct (L0 r Hr) as (_ & H0 & _).
      rewrite H2. unfold s2. rewrite loc_add, H1. unfold s1. rewrite loc_add, H0.
      specialize (Hv0 r Hr). cbv beta in Hv0. change (b_view B1) with (av + 1). unfold av. lia. }
    destruct (commit_round Q s2' B1 B2 R2' ND Hh T Hd) as (s3 & S3 & U3 & L3 & O3).
    exists s3, B1, B2. split; [|split; [|split]].
    - eapply steps_trans; [|exact S3].
      eapply steps_trans; [|exact S2]. eapply steps_step; [|exact St2].
      eapply steps_trans; [|exact S1]. eapply steps_step; [|exact St1]. exact S0.
    - exact F1.
    - unfold Fast.two_chain in *. rewrite U3.
      destruct T as (a & b & c & d & e). repeat split; auto.
      eapply steps_certified_mono; eauto.
    - intros r Hr. destruct (L3 r Hr) as (l' & E). exists l'. rewrite E.
      destruct (L2 r Hr) as (_ & _ & G2). destruct (L1 r Hr) as (_ & _ & G1).
      destruct (L0 r Hr) as (_ & _ & G0'').
      rewrite G2. unfold s2. rewrite loc_add, G1. unfold s1. rewrite loc_add. now rewrite G0''.
  Qed.
End ResumeFast.

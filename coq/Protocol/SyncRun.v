(* C05: the fault-free synchronous run of the chained / simple HotStuff model, as an explicit
   event list: in view j the leader's block b_j (on top of b_{j-1}) is voted by all n replicas
   and, from view 4 on, every replica commits b_{j-3}.  Block b_j has hash j+1 (genesis = 1). *)
From Coq Require Import List NArith Lia Bool Arith.
From HS Require Import Protocol.Core Protocol.Chained Protocol.ChainedExec.
Import ListNotations.
Open Scope N_scope.

Definition sgen : block := {| b_hash := 1; b_parent := 0; b_view := 0; b_qc := 0 |}.
Definition sblock (j : N) : block := {| b_hash := j + 1; b_parent := j; b_view := j; b_qc := j |}.

Fixpoint ids_from (a : N) (n : nat) : list rid :=
  match n with O => [] | S k => a :: ids_from (a + 1) k end.
Definition ids (n : nat) : list rid := ids_from 1 n.

(* events of view j for replicas rs *)
Definition view_events (n : nat) (j : N) : list event :=
  EAddBlock (sblock j) ::
  flat_map (fun r =>
              (if 4 <=? j then [ECommit r j [j - 2]] else []) ++
              [EVote r (j + 1) (Some (N.max 1 (j - 1)))]) (ids n).

Fixpoint views_from (n : nat) (j : N) (k : nat) : list event :=
  match k with O => [] | S k' => view_events n j ++ views_from n (j + 1) k' end.

Definition sync_events (n k : nat) : list event := views_from n 1 k.

Definition sync_state (rs : ruleset) (n k : nat) : state * option nat :=
  run rs (ids n) [] sgen (init sgen) (sync_events n k) 0.

(* committed ledger (as block hashes) of replica r after k synchronous views *)
Definition sync_log (rs : ruleset) (n k : nat) (r : rid) : list hash :=
  map b_hash (log (Chained.loc sgen (fst (sync_state rs n k)) r)).

(* the expected ledger: b_1 .. b_{k-3} *)
Definition expected_log (k : nat) : list hash := map (fun j => j + 1) (ids (k - 3)).

Definition sync_ok (rs : ruleset) (n k : nat) : bool :=
  match snd (sync_state rs n k) with
  | Some _ => false
  | None => forallb (fun r => list_eqb_N (sync_log rs n k r) (expected_log k)) (ids n)
  end.

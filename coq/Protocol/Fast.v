(* Abstract global model of Fast-HotStuff (C01): blocks, votes and signed timeouts that exist,
   and per honest replica (lastVoted, committed head, committed log).  Honest replicas vote
   under the plain rule (view = QC view + 1) or the aggregate-QC rule (an aggregate certificate
   of a view at least view-1 whose highest valid reported QC is the block's QC), report in a
   timeout a certified block at least as high as the QC block of every block they voted for,
   and commit the tail of a direct consecutive two-chain along the walk of commitInner. *)
From Coq Require Import List NArith Lia Bool Arith.
From HS Require Import Protocol.Core.
Import ListNotations.
Open Scope N_scope.

Record flocal := { f_lastVoted : view; f_head : block; f_log : list block }.

Record fstate := {
  f_blocks : list block;
  f_votes : list (rid * hash);
  f_tsigs : list (rid * view * hash);   (* signed timeout of replica for view reporting the QC of block *)
  f_locs : list (rid * flocal) }.

Fixpoint fvotedP (l : list (rid * hash)) (j : rid) (k : hash) : Prop :=
  match l with
  | [] => False
  | (r, h) :: t => fvotedP t j k \/ (j = r /\ k = h)
  end.

Fixpoint tsigP (l : list (rid * view * hash)) (j : rid) (w : view) (k : hash) : Prop :=
  match l with
  | [] => False
  | (r, v, h) :: t => tsigP t j w k \/ (j = r /\ w = v /\ k = h)
  end.

Fixpoint flocF (d : flocal) (l : list (rid * flocal)) (x : rid) : flocal :=
  match l with
  | [] => d
  | (r, lc) :: t => if N.eqb x r then lc else flocF d t x
  end.

Section Protocol.
  Variable member : rid -> bool.
  Variable honest : rid -> bool.
  Variable qsize : nat.
  Hypothesis quorum_inter : forall A B : list rid,
      NoDup A -> NoDup B -> (qsize <= length A)%nat -> (qsize <= length B)%nat ->
      (forall i, In i A -> member i = true) -> (forall i, In i B -> member i = true) ->
      exists i, In i A /\ In i B /\ honest i = true.
  Hypothesis quorum_has_honest : forall A : list rid,
      NoDup A -> (qsize <= length A)%nat -> (forall i, In i A -> member i = true) ->
      exists i, In i A /\ honest i = true.

  Variable genesis : block.
  Hypothesis genesis_view : b_view genesis = 0.
  Hypothesis genesis_parent_ne : b_parent genesis <> b_hash genesis.

  Definition init_local : flocal := {| f_lastVoted := 0; f_head := genesis; f_log := [] |}.

  Definition U (s : fstate) : universe := lookup_block (f_blocks s).
  Definition voted (s : fstate) : rid -> hash -> Prop := fvotedP (f_votes s).
  Definition tsig (s : fstate) : rid -> view -> hash -> Prop := tsigP (f_tsigs s).
  Definition loc (s : fstate) : rid -> flocal := flocF init_local (f_locs s).

  Definition certified (s : fstate) (h : hash) : Prop :=
    h = b_hash genesis \/
    exists S, NoDup S /\ (qsize <= length S)%nat /\
              (forall i, In i S -> member i = true) /\ (forall i, In i S -> voted s i h).

  (* an aggregate QC for view av whose highest valid QC certifies c1 *)
  Definition agg_ok (s : fstate) (av : view) (c1 : block) : Prop :=
    exists (S : list rid) (hs : rid -> hash),
      NoDup S /\ (qsize <= length S)%nat /\ (forall i, In i S -> member i = true) /\
      (forall i, In i S -> tsig s i av (hs i)) /\
      (forall i x, In i S -> U s (hs i) = Some x -> certified s (hs i) -> b_view x <= b_view c1).

  (* the monotone consequence of agg_ok that the safety proof uses *)
  Definition agg_st (s : fstate) (av : view) (c1 : block) : Prop :=
    exists (S : list rid) (hs : rid -> hash),
      NoDup S /\ (qsize <= length S)%nat /\ (forall i, In i S -> member i = true) /\
      (forall i, In i S -> tsig s i av (hs i)) /\
      (forall i, In i S -> honest i = true -> exists x, U s (hs i) = Some x /\ b_view x <= b_view c1).

  (* what an honest replica may report in a timeout for view v: a certified block at least as
     high as the QC block of every block of view <= v it voted for *)
  Definition report_ok (s : fstate) (r : rid) (v : view) (x : block) : Prop :=
    U s (b_hash x) = Some x /\ certified s (b_hash x) /\
    forall hb b c1, voted s r hb -> U s hb = Some b -> b_view b <= v ->
                    U s (b_qc b) = Some c1 -> b_view c1 <= b_view x.

  Definition two_chain (s : fstate) (g p : block) : Prop :=
    U s (b_hash p) = Some p /\ U s (b_hash g) = Some g /\
    b_parent p = b_hash g /\ b_view p = b_view g + 1 /\ certified s (b_hash p).

  Definition fadd_block (s : fstate) (b : block) : fstate :=
    {| f_blocks := b :: f_blocks s; f_votes := f_votes s; f_tsigs := f_tsigs s; f_locs := f_locs s |}.
  Definition fadd_vote (s : fstate) (i : rid) (h : hash) : fstate :=
    {| f_blocks := f_blocks s; f_votes := (i, h) :: f_votes s; f_tsigs := f_tsigs s; f_locs := f_locs s |}.
  Definition fadd_tsig (s : fstate) (i : rid) (v : view) (h : hash) : fstate :=
    {| f_blocks := f_blocks s; f_votes := f_votes s; f_tsigs := (i, v, h) :: f_tsigs s; f_locs := f_locs s |}.
  Definition fset_loc (s : fstate) (r : rid) (l : flocal) : fstate :=
    {| f_blocks := f_blocks s; f_votes := f_votes s; f_tsigs := f_tsigs s; f_locs := (r, l) :: f_locs s |}.
  Definition ftimeout (s : fstate) (r : rid) (v : view) (h : hash) : fstate :=
    {| f_blocks := f_blocks s; f_votes := f_votes s; f_tsigs := (r, v, h) :: f_tsigs s;
       f_locs := (r, {| f_lastVoted := N.max (f_lastVoted (loc s r)) v;
                        f_head := f_head (loc s r); f_log := f_log (loc s r) |}) :: f_locs s |}.
  Definition fcast_vote (s : fstate) (r : rid) (b : block) : fstate :=
    {| f_blocks := f_blocks s; f_votes := (r, b_hash b) :: f_votes s; f_tsigs := f_tsigs s;
       f_locs := (r, {| f_lastVoted := b_view b; f_head := f_head (loc s r);
                        f_log := f_log (loc s r) |}) :: f_locs s |}.

  Inductive step : fstate -> fstate -> Prop :=
  | step_addblock s b :
      U s (b_hash b) = None -> b_hash b <> b_parent genesis ->
      step s (fadd_block s b)
  | step_byzvote s i h :
      honest i = false -> step s (fadd_vote s i h)
  | step_byztimeout s i v h :
      honest i = false -> step s (fadd_tsig s i v h)
  | step_stop s r v :
      (* a timeout that carries no QC report (view signature only) *)
      honest r = true ->
      step s (fset_loc s r {| f_lastVoted := N.max (f_lastVoted (loc s r)) v;
                              f_head := f_head (loc s r); f_log := f_log (loc s r) |})
  | step_timeout s r v x :
      honest r = true -> report_ok s r v x ->
      step s (ftimeout s r v (b_hash x))
  | step_vote s r b c1 :
      honest r = true ->
      U s (b_hash b) = Some b ->
      f_lastVoted (loc s r) < b_view b ->
      U s (b_qc b) = Some c1 ->
      certified s (b_qc b) ->
      b_parent b = b_qc b ->
      b_view c1 < b_view b ->
      (b_view b = b_view c1 + 1 \/ exists av, b_view b <= av + 1 /\ agg_ok s av c1) ->
      step s (fcast_vote s r b)
  | step_commit s r g p l :
      honest r = true ->
      two_chain s g p ->
      segment (U s) g (b_view (f_head (loc s r))) l ->
      step s (fset_loc s r {| f_lastVoted := f_lastVoted (loc s r);
                              f_head := if b_view (f_head (loc s r)) <? b_view g then g else f_head (loc s r);
                              f_log := f_log (loc s r) ++ l |}).

  Definition init : fstate := {| f_blocks := [genesis]; f_votes := []; f_tsigs := []; f_locs := [] |}.

  Inductive reach : fstate -> Prop :=
  | reach_init : reach init
  | reach_step s s' : reach s -> step s s' -> reach s'.

  Lemma step_U_mono s s' h b : step s s' -> U s h = Some b -> U s' h = Some b.
  Proof.
    destruct 1; auto. unfold U; simpl. intros Hb.
    destruct (N.eqb_spec h (b_hash b0)); subst; auto. unfold U in H. congruence.
  Qed.
  Lemma step_voted_mono s s' i h : step s s' -> voted s i h -> voted s' i h.
  Proof. destruct 1; unfold voted; simpl; auto. Qed.
  Lemma step_tsig_mono s s' i v h : step s s' -> tsig s i v h -> tsig s' i v h.
  Proof. destruct 1; unfold tsig; simpl; auto. Qed.
  Lemma step_certified_mono s s' h : step s s' -> certified s h -> certified s' h.
  Proof.
    intros St [->|(S & ND & L & M & V)]; [now left|right].
    exists S; repeat split; auto. intros; eapply step_voted_mono; eauto.
  Qed.
  Lemma genesis_in s : reach s -> U s (b_hash genesis) = Some genesis.
  Proof. induction 1. unfold U; simpl. now rewrite N.eqb_refl. eapply step_U_mono; eauto. Qed.
  Lemma reach_uwf s : reach s -> uwf (U s).
  Proof.
    induction 1.
    - intros h b. unfold U; simpl. destruct (N.eqb_spec h (b_hash genesis)); congruence.
    - destruct H0; auto. intros h x. unfold U; simpl.
      destruct (N.eqb_spec h (b_hash b)); [intros [= <-]; auto| apply IHreach].
  Qed.
  Lemma step_U_some_inv s s' h x y : step s s' -> U s h = Some x -> U s' h = Some y -> x = y.
  Proof. intros St E E'. rewrite (step_U_mono _ _ _ _ St E) in E'. congruence. Qed.

  Record vote_facts (s : fstate) (r : rid) (b : block) : Prop := {
    vf_in : U s (b_hash b) = Some b;
    vf_view : b_view b <= f_lastVoted (loc s r);
    vf_pos : 0 < b_view b;
    vf_cert : certified s (b_qc b);
    vf_parent : b_parent b = b_qc b;
    vf_c1 : exists c1, U s (b_qc b) = Some c1 /\ b_view c1 < b_view b /\
              (b_view b = b_view c1 + 1 \/ exists av, b_view b <= av + 1 /\ agg_st s av c1)
  }.

  Definition ts_fact (s : fstate) (r : rid) (v : view) (h : hash) : Prop :=
    v <= f_lastVoted (loc s r) /\
    exists x, U s h = Some x /\ certified s h /\
      forall hb b c1, voted s r hb -> U s hb = Some b -> b_view b <= v ->
                      U s (b_qc b) = Some c1 -> b_view c1 <= b_view x.

  Definition good (s : fstate) (x : block) : Prop :=
    certified s (b_hash x) /\ U s (b_hash x) = Some x.

  Definition committable (s : fstate) (g : block) : Prop := exists p, two_chain s g p.

  Record ledger_facts (s : fstate) (r : rid) : Prop := {
    lg_head : f_head (loc s r) = genesis \/ committable s (f_head (loc s r));
    lg_good : good s (f_head (loc s r));
    lg_seg : segment (U s) (f_head (loc s r)) 0 (f_log (loc s r))
  }.

  Record inv (s : fstate) : Prop := {
    i_votes : forall r h, honest r = true -> voted s r h -> exists b, b_hash b = h /\ vote_facts s r b;
    i_ts : forall r v h, honest r = true -> tsig s r v h -> ts_fact s r v h;
    i_unique : forall r h1 h2 b1 b2, honest r = true -> voted s r h1 -> voted s r h2 ->
        U s h1 = Some b1 -> U s h2 = Some b2 -> b_view b1 = b_view b2 -> h1 = h2;
    i_nogp : U s (b_parent genesis) = None;
    i_gen : U s (b_hash genesis) = Some genesis
  }.

  Lemma qc_of_certified s : inv s ->
    forall h b, certified s h -> h <> b_hash genesis -> U s h = Some b ->
        certified s (b_qc b) /\ b_parent b = b_qc b /\ 0 < b_view b /\
        exists c1, U s (b_qc b) = Some c1 /\ b_view c1 < b_view b.
  Proof.
    intros I h b [->|(S & ND & L & M & V)] N E; [congruence|].
    destruct (quorum_has_honest S ND L M) as (r & In & Hr).
    destruct (i_votes _ I r h Hr (V _ In)) as (b' & Hb' & F).
    assert (b' = b) by (pose proof (vf_in _ _ _ F) as X; rewrite Hb', E in X; congruence). subst b'.
    destruct (vf_c1 _ _ _ F) as (c1 & E1 & V1 & _).
    repeat split; eauto using vf_cert, vf_parent, vf_pos.
  Qed.

  Lemma agg_st_mono s s' av c1 : step s s' -> agg_st s av c1 -> agg_st s' av c1.
  Proof.
    intros St (S & hs & ND & L & M & T & Hh). exists S, hs. repeat split; auto.
    - intros; eapply step_tsig_mono; eauto.
    - intros i Ii Hi. destruct (Hh i Ii Hi) as (x & Ex & Vx). exists x; split; auto.
      eapply step_U_mono; eauto.
  Qed.

  Lemma agg_ok_st s av c1 : inv s -> agg_ok s av c1 -> agg_st s av c1.
  Proof.
    intros I (S & hs & ND & L & M & T & Hh). exists S, hs. repeat split; auto.
    intros i Ii Hi. destruct (i_ts _ I i av (hs i) Hi (T i Ii)) as (_ & x & Ex & Cx & _).
    exists x; split; auto. eapply Hh; eauto.
  Qed.

  Lemma inv_init : inv init.
  Proof.
    constructor; unfold voted, tsig, U; simpl; try (intros; tauto).
    - destruct (N.eqb_spec (b_parent genesis) (b_hash genesis)); congruence.
    - now rewrite N.eqb_refl.
  Qed.

  Lemma vote_facts_frame s s' r b :
    step s s' -> vote_facts s r b ->
    f_lastVoted (loc s r) <= f_lastVoted (loc s' r) ->
    vote_facts s' r b.
  Proof.
    intros St [Fin Fview Fpos Fcert Fpar (c1 & E1 & V1 & Kind)] LV.
    constructor; auto.
    - eapply step_U_mono; eauto.
    - lia.
    - eapply step_certified_mono; eauto.
    - exists c1. repeat split; auto. eapply step_U_mono; eauto.
      destruct Kind as [|(av & Eav & A)]; auto. right. exists av; split; auto.
      eapply agg_st_mono; eauto.
  Qed.

  Lemma ts_fact_frame s s' r v h :
    step s s' -> inv s -> honest r = true -> ts_fact s r v h ->
    f_lastVoted (loc s r) <= f_lastVoted (loc s' r) ->
    (forall hb, voted s' r hb -> voted s r hb \/
                 exists b, U s hb = Some b /\ f_lastVoted (loc s r) < b_view b) ->
    ts_fact s' r v h.
  Proof.
    intros St I Hr (Lv & x & Ex & Cx & Hall) LV NewV. split; [lia|].
    exists x. split; [eapply step_U_mono; eauto|]. split; [eapply step_certified_mono; eauto|].
    intros hb b c1 Vb Eb Le E1.
    destruct (NewV hb Vb) as [Old|(b' & Eb' & Gt)].
    - destruct (i_votes _ I r hb Hr Old) as (y & Hy & F).
      pose proof (vf_in _ _ _ F) as Iy. rewrite Hy in Iy.
      pose proof (step_U_some_inv _ _ _ _ _ St Iy Eb) as <-.
      destruct (vf_c1 _ _ _ F) as (d1 & D1 & _).
      pose proof (step_U_some_inv _ _ _ _ _ St D1 E1) as <-.
      eapply Hall; eauto.
    - pose proof (step_U_some_inv _ _ _ _ _ St Eb' Eb) as <-. lia.
  Qed.

  Lemma loc_set s r l x : loc (fset_loc s r l) x = upd (loc s) r l x.
  Proof. reflexivity. Qed.

  Lemma loc_timeout s r v h x :
    loc (ftimeout s r v h) x =
    upd (loc s) r {| f_lastVoted := N.max (f_lastVoted (loc s r)) v;
                     f_head := f_head (loc s r); f_log := f_log (loc s r) |} x.
  Proof. reflexivity. Qed.
  Lemma loc_cast s r b x :
    loc (fcast_vote s r b) x =
    upd (loc s) r {| f_lastVoted := b_view b; f_head := f_head (loc s r); f_log := f_log (loc s r) |} x.
  Proof. reflexivity. Qed.

  (* steps that only rewrite r's local state with a larger-or-equal lastVoted *)
  Lemma inv_set_loc s r l :
    inv s -> step s (fset_loc s r l) -> f_lastVoted (loc s r) <= f_lastVoted l ->
    inv (fset_loc s r l).
  Proof.
    intros I St0 HLV.
    assert (LV : forall x, f_lastVoted (loc s x) <= f_lastVoted (loc (fset_loc s r l) x)).
    { intros x. rewrite loc_set. unfold upd. destruct (N.eqb_spec x r); subst; simpl; lia. }
    constructor.
    - intros x k Hx V. destruct (i_votes _ I x k Hx V) as (y & Hy & F). exists y; split; auto.
      eapply (vote_facts_frame _ _ _ _ St0 F); auto.
    - intros x w k Hx T. eapply (ts_fact_frame _ _ _ _ _ St0 I Hx (i_ts _ I x w k Hx T)); auto.
    - exact (i_unique _ I).
    - apply (i_nogp _ I).
    - apply (i_gen _ I).
  Qed.

  Lemma step_inv s s' : uwf (U s) -> inv s -> step s s' -> inv s'.
  Proof.
    intros W I St. pose proof St as St0. destruct St.
    - (* add block *)
      constructor.
      + intros r h Hr V. destruct (i_votes _ I r h Hr V) as (x & Hx & F). exists x; split; auto.
        eapply (vote_facts_frame _ _ _ _ St0 F); unfold loc; simpl; lia.
      + intros r v h Hr T. eapply (ts_fact_frame _ _ _ _ _ St0 I Hr (i_ts _ I r v h Hr T)); unfold loc; simpl; auto; lia.
      + intros r h1 h2 x y Hr V1 V2 E1 E2 Q.
        destruct (i_votes _ I r h1 Hr V1) as (x' & Hx' & Fx).
        destruct (i_votes _ I r h2 Hr V2) as (y' & Hy' & Fy).
        pose proof (vf_in _ _ _ Fx) as Ix. pose proof (vf_in _ _ _ Fy) as Iy.
        rewrite Hx' in Ix. rewrite Hy' in Iy.
        pose proof (step_U_some_inv _ _ _ _ _ St0 Ix E1) as <-.
        pose proof (step_U_some_inv _ _ _ _ _ St0 Iy E2) as <-.
        eapply (i_unique _ I r); eauto.
      + unfold U; simpl. destruct (N.eqb_spec (b_parent genesis) (b_hash b)); [congruence|apply (i_nogp _ I)].
      + exact (step_U_mono _ _ _ _ St0 (i_gen _ I)).
    - (* byzantine vote *)
      assert (HV : forall r k, honest r = true -> voted (fadd_vote s i h) r k -> voted s r k).
      { intros r k Hr [X|[-> _]]; auto. congruence. }
      constructor.
      + intros r k Hr V. apply HV in V; auto. destruct (i_votes _ I r k Hr V) as (x & Hx & F).
        exists x; split; auto. eapply (vote_facts_frame _ _ _ _ St0 F); unfold loc; simpl; lia.
      + intros r v k Hr T.
        eapply (ts_fact_frame _ _ _ _ _ St0 I Hr (i_ts _ I r v k Hr T)); unfold loc; simpl; auto; try lia;
          try (intros hb Vb; left; apply HV; auto).
      + intros r h1 h2 x y Hr V1 V2. apply HV in V1; auto. apply HV in V2; auto.
        eapply (i_unique _ I r); eauto.
      + apply (i_nogp _ I). + apply (i_gen _ I).
    - (* byzantine timeout *)
      assert (HT : forall r w k, honest r = true -> tsig (fadd_tsig s i v h) r w k -> tsig s r w k).
      { intros r w k Hr [X|[-> _]]; auto. congruence. }
      constructor.
      + intros r k Hr V. destruct (i_votes _ I r k Hr V) as (x & Hx & F).
        exists x; split; auto. eapply (vote_facts_frame _ _ _ _ St0 F); unfold loc; simpl; lia.
      + intros r w k Hr T. apply HT in T; auto.
        eapply (ts_fact_frame _ _ _ _ _ St0 I Hr (i_ts _ I r w k Hr T)); unfold loc; simpl; auto; lia.
      + exact (i_unique _ I).
      + apply (i_nogp _ I). + apply (i_gen _ I).
    - (* stop *)
      apply inv_set_loc; auto; simpl; lia.
    - (* honest timeout *)
      rename H into Hr, H0 into Rep.
      set (s' := ftimeout s r v (b_hash x)) in *.
      assert (LV : forall y, f_lastVoted (loc s y) <= f_lastVoted (loc s' y)).
      { intros y. unfold s'. rewrite loc_timeout. unfold upd. destruct (N.eqb_spec y r); subst; cbn [f_lastVoted]; lia. }
      constructor.
      + intros y k Hy V. destruct (i_votes _ I y k Hy V) as (z & Hz & F). exists z; split; auto.
        eapply (vote_facts_frame _ _ _ _ St0 F); auto.
      + intros y w k Hy [T|(-> & -> & ->)].
        * eapply (ts_fact_frame _ _ _ _ _ St0 I Hy (i_ts _ I y w k Hy T)); auto.
        * destruct Rep as (Ex & Cx & Hall). split.
          { unfold s'. rewrite loc_timeout, upd_same. cbn [f_lastVoted]. lia. }
          exists x. repeat split; auto.
      + exact (i_unique _ I).
      + apply (i_nogp _ I). + apply (i_gen _ I).
    - (* honest vote *)
      rename H into Hr, H0 into Eb, H1 into LVb, H2 into Ec1, H3 into Cq, H4 into Par,
             H5 into Vc1, H6 into Kind.
      set (s' := fcast_vote s r b) in *.
      assert (LV : forall x, f_lastVoted (loc s x) <= f_lastVoted (loc s' x)).
      { intros x. unfold s'. rewrite loc_cast. unfold upd. destruct (N.eqb_spec x r); subst; cbn [f_lastVoted]; lia. }
      assert (Lr : f_lastVoted (loc s' r) = b_view b).
      { unfold s'. now rewrite loc_cast, upd_same. }
      assert (Us : U s' = U s) by reflexivity.
      assert (Vs : forall x k, voted s' x k <-> voted s x k \/ (x = r /\ k = b_hash b)) by (intros; reflexivity).
      constructor.
      + intros x k Hx V. apply Vs in V. destruct V as [V|[-> ->]].
        * destruct (i_votes _ I x k Hx V) as (y & Hy & F). exists y; split; auto.
          eapply (vote_facts_frame _ _ _ _ St0 F); auto.
        * exists b; split; auto. constructor; rewrite ?Us; auto.
          -- rewrite Lr; lia.
          -- lia.
          -- exact (step_certified_mono _ _ _ St0 Cq).
          -- exists c1. repeat split; auto.
             destruct Kind as [|(av & Eav & A)]; auto. right. exists av; split; auto.
             eapply agg_st_mono; eauto. eapply agg_ok_st; eauto.
      + intros x w k Hx T.
        eapply (ts_fact_frame _ _ _ _ _ St0 I Hx (i_ts _ I x w k Hx T)); auto.
        intros hb Vb. apply Vs in Vb. destruct Vb as [Vb|[-> ->]]; auto. right. exists b; split; auto.
      + intros x h1 h2 y z Hx V1 V2 E1 E2 Q. rewrite Us in E1, E2.
        apply Vs in V1. apply Vs in V2.
        destruct V1 as [V1|[-> ->]]; destruct V2 as [V2|[X2 Y2]].
        * eapply (i_unique _ I x); eauto.
        * subst x h2. rewrite Eb in E2. injection E2 as <-.
          destruct (i_votes _ I r h1 Hr V1) as (y' & Hy' & Fy).
          assert (y' = y) by (pose proof (vf_in _ _ _ Fy) as X; rewrite Hy', E1 in X; congruence). subst y'.
          pose proof (vf_view _ _ _ Fy). lia.
        * rewrite Eb in E1. injection E1 as <-.
          destruct (i_votes _ I r h2 Hr V2) as (z' & Hz' & Fz).
          assert (z' = z) by (pose proof (vf_in _ _ _ Fz) as X; rewrite Hz', E2 in X; congruence). subst z'.
          pose proof (vf_view _ _ _ Fz). lia.
        * subst; auto.
      + apply (i_nogp _ I). + apply (i_gen _ I).
    - (* commit *)
      apply inv_set_loc; auto; simpl; lia.
  Qed.

  Lemma reach_inv s : reach s -> inv s.
  Proof. induction 1; [apply inv_init|]. eapply step_inv; eauto using reach_uwf. Qed.

  Section Static.
    Variable s : fstate.
    Hypothesis W : uwf (U s).
    Hypothesis I : inv s.

    Lemma certified_voter h : certified s h -> h <> b_hash genesis ->
      exists S, NoDup S /\ (qsize <= length S)%nat /\
                (forall i, In i S -> member i = true) /\ (forall i, In i S -> voted s i h).
    Proof. intros [->|X] N; [congruence|exact X]. Qed.

    Lemma one_per_view h1 h2 b1 b2 :
      certified s h1 -> certified s h2 -> U s h1 = Some b1 -> U s h2 = Some b2 ->
      b_view b1 = b_view b2 -> h1 = h2.
    Proof.
      intros C1 C2 E1 E2 V.
      pose proof (i_gen _ I) as G.
      destruct (N.eq_dec h1 (b_hash genesis)) as [->|N1];
        destruct (N.eq_dec h2 (b_hash genesis)) as [->|N2]; auto.
      - rewrite G in E1. injection E1 as <-.
        destruct (qc_of_certified _ I _ _ C2 N2 E2) as (_ & _ & P & _). rewrite genesis_view in V. lia.
      - rewrite G in E2. injection E2 as <-.
        destruct (qc_of_certified _ I _ _ C1 N1 E1) as (_ & _ & P & _). rewrite genesis_view in V. lia.
      - destruct (certified_voter _ C1 N1) as (S1 & ND1 & L1 & M1 & V1).
        destruct (certified_voter _ C2 N2) as (S2 & ND2 & L2 & M2 & V2).
        destruct (quorum_inter S1 S2 ND1 ND2 L1 L2 M1 M2) as (r & I1 & I2 & Hr).
        eapply (i_unique _ I r); eauto.
    Qed.

    Lemma good_genesis : good s genesis.
    Proof. split; [now left | exact (i_gen _ I)]. Qed.
    Lemma good_in x : good s x -> U s (b_hash x) = Some x.
    Proof. intros [_ E]; exact E. Qed.
    Lemma good_parent x : good s x -> x <> genesis ->
      exists p, U s (b_parent x) = Some p /\ good s p /\ b_view p < b_view x.
    Proof.
      intros [C E] Nx.
      assert (Nh : b_hash x <> b_hash genesis).
      { intros Eq. rewrite Eq, (i_gen _ I) in E. congruence. }
      destruct (qc_of_certified _ I _ _ C Nh E) as (Cq & Pq & _ & c1 & Ec1 & Vc1).
      exists c1. rewrite Pq. repeat split; auto.
      - now rewrite (W _ _ Ec1).
      - now rewrite (W _ _ Ec1).
    Qed.
    Lemma good_unique x y : good s x -> good s y -> b_view x = b_view y -> x = y.
    Proof.
      intros [Cx Ex] [Cy Ey] V.
      assert (b_hash x = b_hash y) by (eapply one_per_view; eauto). congruence.
    Qed.

    Local Notation tree L :=
      (L (U s) (good s) genesis W genesis_view good_genesis (i_nogp _ I) good_in good_parent good_unique).

    Lemma good_anc_gen x : good s x -> anc (U s) x genesis.
    Proof. apply (tree Core.good_anc_genesis). Qed.
    Lemma commit_ext hd lg b3 l :
      good s hd -> good s b3 -> (anc (U s) b3 hd \/ anc (U s) hd b3) ->
      segment (U s) hd 0 lg -> segment (U s) b3 (b_view hd) l ->
      segment (U s) (if b_view hd <? b_view b3 then b3 else hd) 0 (lg ++ l).
    Proof. apply (tree Core.commit_extend). Qed.
    Lemma seg_prefix x y lx ly :
      good s x -> good s y -> anc (U s) y x -> segment (U s) x 0 lx -> segment (U s) y 0 ly -> prefix lx ly.
    Proof. apply (tree Core.segments_prefix). Qed.
    Lemma seg0_genesis x l : segment (U s) x 0 l -> good s x ->
      linked genesis l /\ last_or genesis l = x /\ (forall y, In y l -> good s y).
    Proof. apply (tree Core.segment0_genesis). Qed.

    Lemma two_chain_certs g p : two_chain s g p -> certified s (b_hash g) /\ b_qc p = b_hash g.
    Proof.
      intros (Ep & Eg & Pp & Vp & Cp).
      assert (Np : b_hash p <> b_hash genesis).
      { intros Eq. rewrite Eq, (i_gen _ I) in Ep. injection Ep as <-. rewrite genesis_view in Vp. lia. }
      destruct (qc_of_certified _ I _ _ Cp Np Ep) as (Cq & Pq & _).
      split; [rewrite <- Pp, Pq; exact Cq | congruence].
    Qed.

    Lemma main_lemma g p :
      two_chain s g p ->
      forall c, U s (b_hash c) = Some c -> certified s (b_hash c) -> b_view g <= b_view c ->
                anc (U s) c g.
    Proof.
      intros T. destruct (two_chain_certs _ _ T) as (Cg & Qp).
      destruct T as (Ep & Eg & Pp & Vp & Cp).
      assert (Np : b_hash p <> b_hash genesis).
      { intros Eq. rewrite Eq, (i_gen _ I) in Ep. injection Ep as <-. rewrite genesis_view in Vp. lia. }
      intros c. remember (N.to_nat (b_view c)) as m eqn:Hm. revert c Hm.
      induction m as [m IHm] using lt_wf_ind. intros c Hm Ec Cc Vc.
      destruct (N.eq_dec (b_view c) (b_view g)) as [Qg|Qg].
      { assert (b_hash c = b_hash g) by (eapply one_per_view; eauto).
        assert (c = g) by congruence. subst. constructor. }
      destruct (N.eq_dec (b_view c) (b_view p)) as [Qp'|Qp'].
      { assert (b_hash c = b_hash p) by (eapply one_per_view; eauto).
        assert (c = p) by congruence. subst. econstructor; [rewrite Pp; eauto|constructor]. }
      assert (Vgt : b_view p < b_view c) by lia.
      assert (Nc : b_hash c <> b_hash genesis).
      { intros Eq. rewrite Eq, (i_gen _ I) in Ec. injection Ec as <-. rewrite genesis_view in Vgt. lia. }
      destruct (certified_voter _ Cc Nc) as (Sc & NDc & Lc & Mc & Vc').
      destruct (quorum_has_honest Sc NDc Lc Mc) as (r0 & I0 & H0).
      destruct (i_votes _ I r0 _ H0 (Vc' _ I0)) as (c' & Hc' & F).
      assert (c' = c) by (pose proof (vf_in _ _ _ F) as X; rewrite Hc', Ec in X; congruence). subst c'.
      destruct (vf_c1 _ _ _ F) as (d1 & Ed1 & Vd1 & Kind).
      pose proof (W _ _ Ed1) as Hd1.
      assert (Low : b_view g <= b_view d1).
      { destruct Kind as [Fast|(av & Eav & (S & hs & ND & L & M & T & Hh))]; [lia|].
        destruct (certified_voter _ Cp Np) as (Sp & NDp & Lp & Mp & Vp').
        destruct (quorum_inter S Sp ND NDp L Lp M Mp) as (r & Ia & Ip & Hr).
        destruct (Hh r Ia Hr) as (x & Ex & Vx).
        destruct (i_ts _ I r av (hs r) Hr (T r Ia)) as (_ & x' & Ex' & _ & Hall).
        rewrite Ex in Ex'. injection Ex' as <-.
        assert (b_view g <= b_view x).
        { eapply (Hall (b_hash p) p g); eauto; try lia. rewrite Qp. exact Eg. }
        lia. }
      assert (A : anc (U s) d1 g).
      { eapply (IHm (N.to_nat (b_view d1))); try reflexivity; try lia.
        - rewrite Hd1; exact Ed1.
        - rewrite Hd1. exact (vf_cert _ _ _ F). }
      econstructor; [rewrite (vf_parent _ _ _ F); exact Ed1|exact A].
    Qed.

    Lemma committable_good g : committable s g -> good s g.
    Proof. intros (p & T). destruct (two_chain_certs _ _ T) as (Cg & _). split; auto. apply T. Qed.

    Lemma committable_ordered g1 g2 :
      committable s g1 -> committable s g2 -> anc (U s) g2 g1 \/ anc (U s) g1 g2.
    Proof.
      intros T1 T2.
      pose proof (committable_good _ T1) as [C1 E1]. pose proof (committable_good _ T2) as [C2 E2].
      destruct T1 as (p1 & T1). destruct T2 as (p2 & T2).
      destruct (N.le_ge_cases (b_view g1) (b_view g2)).
      - left. eapply main_lemma; eauto.
      - right. eapply main_lemma; eauto; lia.
    Qed.

    Lemma head_ordered x y :
      (x = genesis \/ committable s x) -> (y = genesis \/ committable s y) ->
      good s x -> good s y -> anc (U s) y x \/ anc (U s) x y.
    Proof.
      intros [->|Cx] [->|Cy] Gx Gy.
      - left; constructor.
      - left. apply good_anc_gen; auto.
      - right. apply good_anc_gen; auto.
      - apply committable_ordered; auto.
    Qed.
  End Static.

  (* ---------- ledgers ---------- *)
  Lemma two_chain_mono s s' g p : step s s' -> two_chain s g p -> two_chain s' g p.
  Proof.
    intros St (E1 & E2 & R). unfold two_chain.
    repeat split; try (eapply step_U_mono; eauto); try tauto.
    eapply step_certified_mono; eauto. tauto.
  Qed.
  Lemma committable_mono s s' b : step s s' -> committable s b -> committable s' b.
  Proof. intros St (p & T). exists p. eapply two_chain_mono; eauto. Qed.
  Lemma good_mono s s' b : step s s' -> good s b -> good s' b.
  Proof. intros St [C E]. split; [eapply step_certified_mono|eapply step_U_mono]; eauto. Qed.

  Lemma ledger_facts_frame s s' r :
    step s s' -> ledger_facts s r ->
    f_head (loc s' r) = f_head (loc s r) -> f_log (loc s' r) = f_log (loc s r) ->
    ledger_facts s' r.
  Proof.
    intros St [A B C] Hh Hl. constructor; rewrite ?Hh, ?Hl.
    - destruct A; auto. right. eapply committable_mono; eauto.
    - eapply good_mono; eauto.
    - eapply segment_mono; [|eauto]. intros; eapply step_U_mono; eauto.
  Qed.

  Lemma ledger_init r : ledger_facts init r.
  Proof.
    constructor; unfold loc; simpl; auto.
    - split; [now left|unfold U; simpl; now rewrite N.eqb_refl].
    - constructor. rewrite genesis_view. lia.
  Qed.

  Lemma reach_ledger s : reach s -> forall r, honest r = true -> ledger_facts s r.
  Proof.
    induction 1 as [|s s' R IH St]; [intros; apply ledger_init|].
    intros x Hx. specialize (IH x Hx).
    pose proof (reach_uwf _ R) as W. pose proof (reach_inv _ R) as I.
    pose proof St as St0. destruct St.
    - eapply ledger_facts_frame; eauto.
    - eapply ledger_facts_frame; eauto.
    - eapply ledger_facts_frame; eauto.
    - eapply ledger_facts_frame; eauto; rewrite loc_set; unfold upd;
        destruct (N.eqb_spec x r); subst; auto.
    - eapply ledger_facts_frame; eauto; rewrite loc_timeout; unfold upd;
        destruct (N.eqb_spec x r); subst; auto.
    - eapply ledger_facts_frame; eauto; rewrite loc_cast; unfold upd;
        destruct (N.eqb_spec x r); subst; auto.
    - destruct (N.eq_dec x r) as [->|Nx].
      2:{ eapply ledger_facts_frame; eauto; rewrite loc_set, upd_other; auto. }
      assert (Cb : committable s g) by (exists p; auto).
      pose proof (committable_good _ I _ Cb) as Gb.
      destruct IH as [A B C].
      set (hd := f_head (loc s r)) in *.
      constructor; rewrite loc_set, upd_same; simpl; fold hd.
      + destruct (b_view hd <? b_view g); auto.
      + destruct (b_view hd <? b_view g); auto.
      + eapply (commit_ext s W I); eauto.
        apply (head_ordered s W I); auto.
  Qed.

  Theorem ledgers_prefix s r1 r2 :
    reach s -> honest r1 = true -> honest r2 = true ->
    prefix (f_log (loc s r1)) (f_log (loc s r2)) \/ prefix (f_log (loc s r2)) (f_log (loc s r1)).
  Proof.
    intros R H1 H2.
    pose proof (reach_uwf _ R) as W. pose proof (reach_inv _ R) as I.
    destruct (reach_ledger _ R r1 H1) as [A1 G1 S1].
    destruct (reach_ledger _ R r2 H2) as [A2 G2 S2].
    destruct (head_ordered s W I _ _ A1 A2 G1 G2) as [A|A].
    - left. exact (seg_prefix s W I _ _ _ _ G1 G2 A S1 S2).
    - right. exact (seg_prefix s W I _ _ _ _ G2 G1 A S2 S1).
  Qed.

  Theorem ledger_chain s r :
    reach s -> honest r = true ->
    linked genesis (f_log (loc s r)) /\ NoDup (f_log (loc s r)) /\
    last_or genesis (f_log (loc s r)) = f_head (loc s r).
  Proof.
    intros R Hr.
    pose proof (reach_uwf _ R) as W. pose proof (reach_inv _ R) as I.
    destruct (reach_ledger _ R r Hr) as [A G S].
    destruct (seg0_genesis s W I _ _ S G) as (L & E & _).
    repeat split; auto. eapply linked_nodup; eauto.
  Qed.
End Protocol.

(* Shared definitions of the abstract global protocol models (C01): blocks, the universe of
   existing blocks, ancestry, the commit walk (segment) and the static ledger lemmas that hold in
   any universe whose "good" (certified and present) blocks form a tree rooted at genesis. *)
From Coq Require Import List NArith Lia Bool Arith.
Import ListNotations.
Open Scope N_scope.

Definition rid := N. Definition hash := N. Definition view := N.

(* safety projection of a block: its hash, its parent link, its view and the block its QC certifies *)
Record block := { b_hash : hash; b_parent : hash; b_view : view; b_qc : hash }.

Definition block_eqb (a b : block) : bool :=
  N.eqb (b_hash a) (b_hash b) && N.eqb (b_parent a) (b_parent b) &&
  N.eqb (b_view a) (b_view b) && N.eqb (b_qc a) (b_qc b).

Lemma block_eqb_eq a b : block_eqb a b = true <-> a = b.
Proof.
  unfold block_eqb. rewrite !andb_true_iff, !N.eqb_eq. destruct a, b; simpl. split.
  - intros [[[-> ->] ->] ->]. reflexivity.
  - intros [= -> -> -> ->]. auto.
Qed.

Definition universe := hash -> option block.

Definition upd {A} (f : N -> A) (k : N) (v : A) : N -> A :=
  fun x => if N.eqb x k then v else f x.

Lemma upd_same {A} (f : N -> A) k v : upd f k v k = v.
Proof. unfold upd. now rewrite N.eqb_refl. Qed.
Lemma upd_other {A} (f : N -> A) k v x : x <> k -> upd f k v x = f x.
Proof. unfold upd. intros. destruct (N.eqb_spec x k); congruence. Qed.

(* the universe held as a list of blocks, newest first *)
Fixpoint lookup_block (l : list block) (h : hash) : option block :=
  match l with
  | [] => None
  | b :: r => if N.eqb h (b_hash b) then Some b else lookup_block r h
  end.

Inductive anc (Uu : universe) : block -> block -> Prop :=
| anc_refl b : anc Uu b b
| anc_step b p t : Uu (b_parent b) = Some p -> anc Uu p t -> anc Uu b t.

Lemma anc_trans Uu a b c : anc Uu a b -> anc Uu b c -> anc Uu a c.
Proof. induction 1; intros; eauto using anc. Qed.

Lemma anc_mono (U1 U2 : universe) a b :
  (forall h x, U1 h = Some x -> U2 h = Some x) -> anc U1 a b -> anc U2 a b.
Proof. intros M; induction 1; eauto using anc. Qed.

Definition uwf (Uu : universe) := forall h b, Uu h = Some b -> b_hash b = h.

(* The commit walk of Committer.commitInner: from block x follow parent links while the view is
   above the floor; the blocks are listed ancestor first. *)
Inductive segment (Uu : universe) : block -> view -> list block -> Prop :=
| seg_stop x fl : b_view x <= fl -> segment Uu x fl []
| seg_step x fl p l : fl < b_view x -> Uu (b_parent x) = Some p -> segment Uu p fl l ->
                      segment Uu x fl (l ++ [x]).

Lemma segment_det Uu x fl l1 : segment Uu x fl l1 -> forall l2, segment Uu x fl l2 -> l1 = l2.
Proof.
  induction 1 as [x fl Hle | x fl p l Hlt Hp Hs IH]; intros l2 H2; inversion H2; subst; try lia; auto.
  assert (p0 = p) by congruence. subst. f_equal. auto.
Qed.

Lemma segment_mono (U1 U2 : universe) x fl l :
  (forall h b, U1 h = Some b -> U2 h = Some b) -> segment U1 x fl l -> segment U2 x fl l.
Proof. intros M; induction 1; eauto using segment. Qed.

Fixpoint last_or (a : block) (l : list block) : block :=
  match l with [] => a | x :: r => last_or x r end.

Lemma last_or_app a l x : last_or a (l ++ [x]) = x.
Proof. revert a; induction l; simpl; auto. Qed.

Definition prefix {A} (l1 l2 : list A) : Prop := exists r, l2 = l1 ++ r.

(* a list of blocks is a hash-linked chain hanging below [a] with strictly increasing views *)
Fixpoint linked (a : block) (l : list block) : Prop :=
  match l with
  | [] => True
  | x :: r => b_parent x = b_hash a /\ b_view a < b_view x /\ linked x r
  end.

Lemma linked_app a l x :
  linked a l -> b_parent x = b_hash (last_or a l) -> b_view (last_or a l) < b_view x ->
  linked a (l ++ [x]).
Proof.
  revert a; induction l as [|y l IH]; simpl; intros a H P V; auto.
  destruct H as (H1 & H2 & H3). auto.
Qed.

Lemma linked_views a l x : linked a l -> In x l -> b_view a < b_view x.
Proof.
  revert a; induction l as [|y l IH]; simpl; intros a H Hin; [tauto|].
  destruct H as (H1 & H2 & H3). destruct Hin as [->|Hin]; auto.
  specialize (IH _ H3 Hin). lia.
Qed.

Lemma linked_nodup a l : linked a l -> NoDup l.
Proof.
  revert a; induction l as [|y l IH]; simpl; intros a H; constructor.
  - destruct H as (_ & _ & H3). intros Hin. pose proof (linked_views _ _ _ H3 Hin). lia.
  - destruct H as (_ & _ & H3). eauto.
Qed.

Section Tree.
  Set Default Proof Using "All".
  (* One fixed universe in which the good blocks (certified and present) form a tree rooted at
     genesis with strictly increasing views along parent links; at most one good block per view. *)
  Variable Uu : universe.
  Variable good : block -> Prop.
  Variable genesis : block.
  Hypothesis Huwf : uwf Uu.
  Hypothesis genesis_view : b_view genesis = 0.
  Hypothesis genesis_good : good genesis.
  Hypothesis genesis_noparent : Uu (b_parent genesis) = None.
  Hypothesis good_in : forall x, good x -> Uu (b_hash x) = Some x.
  Hypothesis good_parent : forall x, good x -> x <> genesis ->
      exists p, Uu (b_parent x) = Some p /\ good p /\ b_view p < b_view x.
  Hypothesis good_unique : forall x y, good x -> good y -> b_view x = b_view y -> x = y.

  Lemma block_dec (x y : block) : {x = y} + {x <> y}.
  Proof.
    destruct (block_eqb x y) eqn:E.
    - left. now apply block_eqb_eq.
    - right. intros ->. assert (block_eqb y y = true) by now apply block_eqb_eq.
      congruence.
  Qed.

  Lemma good_view0 x : good x -> b_view x = 0 -> x = genesis.
  Proof. intros G V. apply good_unique; auto. lia. Qed.

  Lemma anc_view x t : anc Uu x t -> good x -> t = x \/ (good t /\ b_view t < b_view x).
  Proof.
    induction 1 as [|b p t Hp A IH]; auto. intros G.
    destruct (block_dec b genesis) as [->|Ng]; [congruence|].
    destruct (good_parent _ G Ng) as (p' & Hp' & Gp & Vp).
    assert (p' = p) by congruence. subst.
    right. destruct (IH Gp) as [->|(Gt & Vt)]; auto. split; auto. lia.
  Qed.

  Lemma anc_good x t : anc Uu x t -> good x -> good t.
  Proof. intros A G. destruct (anc_view _ _ A G) as [->|[? _]]; auto. Qed.

  Lemma anc_antisym x t : anc Uu x t -> anc Uu t x -> good x -> x = t.
  Proof.
    intros A B G. destruct (anc_view _ _ A G) as [->|(Gt & Vt)]; auto.
    destruct (anc_view _ _ B Gt) as [->|(_ & Vx)]; auto. lia.
  Qed.

  (* every good block has a complete walk down to any floor *)
  Lemma segment_exists x : good x -> forall fl, exists l, segment Uu x fl l.
  Proof.
    remember (N.to_nat (b_view x)) as m eqn:Hm. revert x Hm.
    induction m as [m IH] using lt_wf_ind. intros x Hm G fl.
    destruct (N.le_gt_cases (b_view x) fl) as [Hle|Hgt].
    - exists []. now constructor.
    - destruct (block_dec x genesis) as [->|Ng]; [rewrite genesis_view in Hgt; lia|].
      destruct (good_parent _ G Ng) as (p & Hp & Gp & Vp).
      destruct (IH (N.to_nat (b_view p)) ltac:(lia) p eq_refl Gp fl) as (l & Hl).
      exists (l ++ [x]). econstructor; eauto.
  Qed.

  (* splitting the walk at an ancestor *)
  Lemma segment_split x t : anc Uu x t -> good x ->
    forall fl l0 l1, fl <= b_view t -> segment Uu t fl l0 -> segment Uu x (b_view t) l1 ->
                     segment Uu x fl (l0 ++ l1).
  Proof.
    induction 1 as [b|b p t Hp A IH]; intros G fl l0 l1 Hfl S0 S1.
    - inversion S1; subst; [now rewrite app_nil_r|lia].
    - destruct (anc_view _ _ (anc_step _ _ _ _ Hp A) G) as [->|(Gt & Vt)].
      + inversion S1; subst; [now rewrite app_nil_r|lia].
      + inversion S1; subst; [lia|].
        assert (p0 = p) by congruence. subst.
        destruct (block_dec b genesis) as [->|Ng]; [congruence|].
        destruct (good_parent _ G Ng) as (p' & Hp' & Gp & Vp).
        assert (p' = p) by congruence. subst.
        rewrite app_assoc. econstructor; eauto; try lia.
  Qed.

  (* structure of a complete walk: hash-linked below the block where it stopped *)
  Lemma segment_linked x fl l : segment Uu x fl l -> good x ->
    exists a, good a /\ b_view a <= fl /\ anc Uu x a /\ linked a l /\ last_or a l = x /\
              (forall y, In y l -> good y /\ fl < b_view y).
  Proof.
    induction 1 as [x fl Hle | x fl p l Hlt Hp Hs IH]; intros G.
    - exists x. repeat split; simpl; auto; try tauto; try constructor; destruct H.
    - destruct (block_dec x genesis) as [->|Ng]; [congruence|].
      destruct (good_parent _ G Ng) as (p' & Hp' & Gp & Vp).
      assert (p' = p) by congruence. subst.
      destruct (IH Gp) as (a & Ga & Va & Aa & La & Ea & Ia).
      exists a. repeat split; auto.
      + econstructor; eauto.
      + apply linked_app; auto; rewrite Ea; auto. now rewrite (Huwf _ _ Hp).
      + apply last_or_app.
      + apply in_app_or in H. destruct H as [H|[<-|[]]]; [apply Ia; auto|auto].
      + apply in_app_or in H. destruct H as [H|[<-|[]]]; [apply Ia; auto|auto].
  Qed.

  (* the complete walk from a good block to floor 0 hangs below genesis *)
  Lemma segment0_genesis x l : segment Uu x 0 l -> good x ->
    linked genesis l /\ last_or genesis l = x /\ (forall y, In y l -> good y).
  Proof.
    intros S G. destruct (segment_linked _ _ _ S G) as (a & Ga & Va & _ & La & Ea & Ia).
    assert (a = genesis) by (apply good_view0; auto; lia). subst.
    repeat split; auto. intros y Hy. apply Ia; auto.
  Qed.

  (* ledgers that are complete walks to ordered heads are prefix related *)
  Lemma segments_prefix x y lx ly :
    good x -> good y -> anc Uu y x -> segment Uu x 0 lx -> segment Uu y 0 ly -> prefix lx ly.
  Proof.
    intros Gx Gy A Sx Sy.
    destruct (segment_exists y Gy (b_view x)) as (l1 & S1).
    pose proof (segment_split _ _ A Gy 0 lx l1 ltac:(lia) Sx S1) as S.
    rewrite (segment_det _ _ _ _ Sy _ S). now exists l1.
  Qed.
  Lemma good_anc_genesis x : good x -> anc Uu x genesis.
  Proof.
    remember (N.to_nat (b_view x)) as m eqn:Hm. revert x Hm.
    induction m as [m IH] using lt_wf_ind. intros x Hm G.
    destruct (block_dec x genesis) as [->|Ng]; [constructor|].
    destruct (good_parent _ G Ng) as (p & Hp & Gp & Vp).
    econstructor; eauto. eapply (IH (N.to_nat (b_view p))); auto. lia.
  Qed.

  (* one commit: the walk from the new target down to the old head's view extends the ledger *)
  Lemma commit_extend hd lg b3 l :
    good hd -> good b3 -> (anc Uu b3 hd \/ anc Uu hd b3) ->
    segment Uu hd 0 lg -> segment Uu b3 (b_view hd) l ->
    segment Uu (if b_view hd <? b_view b3 then b3 else hd) 0 (lg ++ l).
  Proof.
    intros Gh Gb Ord Sh Sl.
    destruct (N.ltb_spec (b_view hd) (b_view b3)) as [Hlt|Hge].
    - assert (A : anc Uu b3 hd).
      { destruct Ord as [A|A]; auto.
        destruct (anc_view _ _ A Gh) as [->|[_ V]]; [constructor|lia]. }
      eapply segment_split; eauto. lia.
    - assert (l = []) by (eapply segment_det; eauto; now constructor). subst.
      now rewrite app_nil_r.
  Qed.
  Unset Default Proof Using.
End Tree.
